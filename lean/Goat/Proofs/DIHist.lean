/-
C10 helper lemmas, part 4: invariants of every history (`Inv`), growth across several operations
(`Grow`), and the lemmas behind singleton answers and the freeze.
-/
import Goat.Proofs.DIFuel

namespace Goat.DI

/-! ### definition calls -/

theorem mem_addKey_self (keys : List Name) (n : Name) : n ∈ addKey keys n := by
  unfold addKey; split <;> simp_all

theorem mem_addKey_of_mem {keys : List Name} {m : Name} (n : Name) (h : m ∈ keys) : m ∈ addKey keys n := by
  unfold addKey; split <;> simp_all

theorem step_def_blocked {s : St} {o : Op} (hb : s.blocked = true) (ho : o.isDef = true) :
    step s o = (s, .refused) := by
  cases o <;> simp_all [Op.isDef, step, accepted, set, setDefault, addFactory, addDefaultFactory, addInjectors]

/-! ### the invariant of histories -/

structure Inv (s : St) : Prop where
  stack : s.callstack = []
  fac_keys : ∀ n f, s.factories n = some f → n ∈ s.keys
  dfac_keys : ∀ n f, s.defaultFactories n = some f → n ∈ s.keys
  notex : s.exhausted = false
  norerun : NoRerun s.log
  done_inst : ∀ n i, Ev.done n i ∈ s.log → s.instances n = some i
  nodup : (successes s.log).Nodup
  fresh_log : s.blocked = false → s.log = []

theorem Inv.empty : Inv St.empty where
  stack := rfl
  fac_keys := fun _ _ h => nomatch h
  dfac_keys := fun _ _ h => nomatch h
  notex := rfl
  norerun := trivial
  done_inst := fun _ _ h => nomatch h
  nodup := List.nodup_nil
  fresh_log := fun _ => rfl

theorem Inv.pre {s : St} (h : Inv s) : Pre s := Or.inr h.stack

theorem Inv.fuelOK {s : St} (h : Inv s) : FuelOK (fuelFor s) s where
  pre := h.pre
  fac_keys := h.fac_keys
  dfac_keys := h.dfac_keys
  nodup := by rw [h.stack]; exact List.nodup_nil
  stack_keys := by intro n hn; rw [h.stack] at hn; cases hn
  notex := h.notex
  bound := by simp [fuelFor, h.stack]

theorem Inv.of_step {s s' : St} (h : Inv s) (hs : Step s s') (he : s'.exhausted = false) : Inv s' := by
  obtain ⟨d, hd, l⟩ := hs.log
  exact
    { stack := by rw [hs.callstack, h.stack]
      fac_keys := fun n f hf => hs.keys ▸ h.fac_keys n f (hs.fac_sub n f hf)
      dfac_keys := fun n f hf => hs.keys ▸ h.dfac_keys n f (hs.dfac_sub n f hf)
      notex := he
      norerun := by
        rw [hd]
        refine noRerun_append.2 ⟨h.norerun, l.norerun, ?_⟩
        intro n i hm
        refine l.no_start n ?_
        rw [h.done_inst n i hm]; simp
      done_inst := by
        intro n i hm
        rw [hd] at hm
        rcases List.mem_append.1 hm with hm | hm
        · exact hs.inst_mono n i (h.done_inst n i hm)
        · exact (l.done_inst n i hm).2
      nodup := by
        rw [hd, successes_append]
        refine List.nodup_append.2 ⟨h.nodup, l.nodup, ?_⟩
        intro x hx y hy hxy
        subst hxy
        obtain ⟨i, hi⟩ := mem_successes.1 hx
        obtain ⟨j, hj⟩ := mem_successes.1 hy
        have h3 := h.done_inst x i hi
        have h4 := (l.done_inst x j hj).1
        rw [h3] at h4; cases h4
      fresh_log := by intro hb; rw [hs.blocked] at hb; cases hb }

/-- nothing happened, or a `Step` -/
def StepR (a b : St) : Prop := a = b ∨ Step a b

theorem StepR.trans {a b c : St} (h1 : StepR a b) (h2 : StepR b c) : StepR a c := by
  rcases h1 with h1 | h1
  · subst h1; exact h2
  · rcases h2 with h2 | h2
    · subst h2; exact Or.inr h1
    · exact Or.inr (h1.trans h2)

theorem Inv.of_stepR {s s' : St} (h : Inv s) (hs : StepR s s') (he : s'.exhausted = false) : Inv s' := by
  rcases hs with hs | hs
  · subst hs; exact h
  · exact h.of_step hs he

/-- `Get` from outside -/
theorem Get_step {s : St} (h : Inv s) (n : Name) : Step s (Get s n).1 :=
  get_step _ s n h.pre

theorem Get_notex {s : St} (h : Inv s) (n : Name) : (Get s n).1.exhausted = false :=
  get_notex _ s n h.fuelOK

theorem InjectTo_fst (s : St) (fs : List Field) : (InjectTo s fs).1 = (InjectOwn s fs).1 :=
  injectAll_fst _ s fs

/-- `InjectTo` from outside -/
theorem InjectTo_stepR {s : St} (h : Inv s) (fs : List Field) :
    StepR s (InjectTo s fs).1 ∧ (InjectTo s fs).1.exhausted = false := by
  rw [InjectTo_fst]
  have hr := injectFields_rel (g := get (fuelFor s)) (P := FuelOK (fuelFor s)) (R := StepR)
    (fun _ _ => Or.inl rfl) (fun _ _ _ => StepR.trans)
    (fun s' n hs => ⟨get_fuelOK n hs, Or.inr (get_step _ s' n hs.pre)⟩) fs s h.fuelOK
  have hi := injectFields_inv (g := get (fuelFor s)) (P := FuelOK (fuelFor s))
    (fun s' n hs => get_fuelOK n hs) fs s h.fuelOK
  exact ⟨hr, hi.notex⟩

theorem inv_addInjectors {s : St} (h : Inv s) (l : List Injector) : Inv (addInjectors s l).1 := by
  unfold addInjectors
  split
  · exact h
  · exact ⟨h.stack, h.fac_keys, h.dfac_keys, h.notex, h.norerun, h.done_inst, h.nodup, h.fresh_log⟩

theorem inv_set {s : St} (h : Inv s) (n : Name) (v : Inst) : Inv (set s n v).1 := by
  unfold set
  split
  · exact h
  · rename_i hb
    have hlog := h.fresh_log (by simpa using hb)
    split
    · exact h
    · split
      · exact h
      · exact
          { stack := h.stack
            fac_keys := fun m f hf => mem_addKey_of_mem n (h.fac_keys m f hf)
            dfac_keys := fun m f hf => mem_addKey_of_mem n (h.dfac_keys m f hf)
            notex := h.notex
            norerun := h.norerun
            done_inst := by intro m i hm; rw [show _ = s.log from rfl, hlog] at hm; cases hm
            nodup := h.nodup
            fresh_log := fun _ => hlog }

theorem inv_setDefault {s : St} (h : Inv s) (n : Name) (v : Inst) : Inv (setDefault s n v).1 := by
  unfold setDefault
  split
  · exact h
  · rename_i hb
    have hlog := h.fresh_log (by simpa using hb)
    split
    · exact h
    · split
      · exact h
      · exact
          { stack := h.stack
            fac_keys := fun m f hf => mem_addKey_of_mem n (h.fac_keys m f hf)
            dfac_keys := fun m f hf => mem_addKey_of_mem n (h.dfac_keys m f hf)
            notex := h.notex
            norerun := h.norerun
            done_inst := h.done_inst
            nodup := h.nodup
            fresh_log := fun _ => hlog }

theorem clean_sub (s : St) (n : Name) :
    (∀ m f, (clean s n).factories m = some f → s.factories m = some f) ∧
    (∀ m f, (clean s n).defaultFactories m = some f → s.defaultFactories m = some f) ∧
    (clean s n).keys = s.keys ∧ (clean s n).callstack = s.callstack ∧ (clean s n).log = s.log ∧
    (clean s n).instances = s.instances ∧ (clean s n).exhausted = s.exhausted ∧
    (clean s n).blocked = s.blocked := by
  unfold clean
  split
  · exact ⟨fun _ _ h => Tab.del_some h, fun _ _ h => Tab.del_some h, rfl, rfl, rfl, rfl, rfl, rfl⟩
  · exact ⟨fun _ _ h => h, fun _ _ h => h, rfl, rfl, rfl, rfl, rfl, rfl⟩

theorem inv_addFactory {s : St} (h : Inv s) (n : Name) (f : Factory) : Inv (addFactory s n f).1 := by
  unfold addFactory
  split
  · exact h
  · rename_i hb
    have hlog := h.fresh_log (by simpa using hb)
    split
    · exact h
    · obtain ⟨c1, c2, c3, c4, c5, c6, c7, c8⟩ := clean_sub s n
      simp only
      exact
        { stack := by show (clean s n).callstack = []; rw [c4]; exact h.stack
          fac_keys := by
            intro m g hg
            show m ∈ addKey (clean s n).keys n
            rw [c3]
            by_cases hm : m = n
            · subst hm; exact mem_addKey_self _ _
            · have : ((clean s n).factories.set n f) m = some g := hg
              rw [Tab.set_ne _ _ hm] at this
              exact mem_addKey_of_mem n (h.fac_keys m g (c1 m g this))
          dfac_keys := by
            intro m g hg
            show m ∈ addKey (clean s n).keys n
            rw [c3]
            exact mem_addKey_of_mem n (h.dfac_keys m g (c2 m g hg))
          notex := by show (clean s n).exhausted = false; rw [c7]; exact h.notex
          norerun := by show NoRerun (clean s n).log; rw [c5]; exact h.norerun
          done_inst := by
            intro m i hm
            have : Ev.done m i ∈ (clean s n).log := hm
            rw [c5, hlog] at this; cases this
          nodup := by show (successes (clean s n).log).Nodup; rw [c5]; exact h.nodup
          fresh_log := by intro _; show (clean s n).log = []; rw [c5]; exact hlog }

theorem inv_addDefaultFactory {s : St} (h : Inv s) (n : Name) (f : Factory) :
    Inv (addDefaultFactory s n f).1 := by
  unfold addDefaultFactory
  split
  · exact h
  · rename_i hb
    have hlog := h.fresh_log (by simpa using hb)
    split
    · exact h
    · split
      · exact h
      · exact
          { stack := h.stack
            fac_keys := fun m g hg => mem_addKey_of_mem n (h.fac_keys m g hg)
            dfac_keys := by
              intro m g hg
              by_cases hm : m = n
              · subst hm; exact mem_addKey_self _ _
              · have : (s.defaultFactories.set n f) m = some g := hg
                rw [Tab.set_ne _ _ hm] at this
                exact mem_addKey_of_mem n (h.dfac_keys m g this)
            notex := h.notex
            norerun := h.norerun
            done_inst := h.done_inst
            nodup := h.nodup
            fresh_log := fun _ => hlog }

theorem inv_step {s : St} (h : Inv s) (o : Op) : Inv (step s o).1 := by
  cases o with
  | set n v => exact inv_set h n _
  | setDefault n v => exact inv_setDefault h n _
  | addFactory n f => exact inv_addFactory h n f
  | addDefaultFactory n f => exact inv_addDefaultFactory h n f
  | get n => exact h.of_step (Get_step h n) (Get_notex h n)
  | injectTo fs => exact h.of_stepR (InjectTo_stepR h fs).1 (InjectTo_stepR h fs).2
  | keys => exact h
  | setNil n => exact inv_set h n _
  | setDefaultNil n => exact inv_setDefault h n _
  | addInjectors l => exact inv_addInjectors h l
  | injectBad => exact h

theorem inv_exec {s : St} (h : Inv s) (ops : List Op) : Inv (exec s ops) := by
  induction ops generalizing s with
  | nil => exact h
  | cons o rest ih => exact ih (inv_step h o)

theorem exec_append (s : St) (a b : List Op) : exec s (a ++ b) = exec (exec s a) b := by
  induction a generalizing s with
  | nil => rfl
  | cons o rest ih => exact ih _

/-! ### growth across operations -/

/-- instances stay, and no factory of a name that already has an instance is started -/
structure Grow (s s' : St) : Prop where
  inst_mono : ∀ n i, s.instances n = some i → s'.instances n = some i
  blocked_mono : s.blocked = true → s'.blocked = true
  keys_frozen : s.blocked = true → s'.keys = s.keys
  inj_frozen : s.blocked = true → s'.injectors = s.injectors
  log : ∃ d, s'.log = s.log ++ d ∧ ∀ n, s.instances n ≠ none → Ev.start n ∉ d

theorem Grow.refl (s : St) : Grow s s :=
  ⟨fun _ _ h => h, fun h => h, fun _ => rfl, fun _ => rfl, [], by simp, fun _ _ h => nomatch h⟩

theorem Grow.trans {a b c : St} (h1 : Grow a b) (h2 : Grow b c) : Grow a c := by
  obtain ⟨d1, e1, l1⟩ := h1.log
  obtain ⟨d2, e2, l2⟩ := h2.log
  refine ⟨fun n i h => h2.inst_mono n i (h1.inst_mono n i h), fun h => h2.blocked_mono (h1.blocked_mono h),
    fun h => (h2.keys_frozen (h1.blocked_mono h)).trans (h1.keys_frozen h),
    fun h => (h2.inj_frozen (h1.blocked_mono h)).trans (h1.inj_frozen h), d1 ++ d2, by rw [e2, e1, List.append_assoc], ?_⟩
  intro n hn hm
  rcases List.mem_append.1 hm with hm | hm
  · exact l1 n hn hm
  · refine l2 n ?_ hm
    cases ha : a.instances n with
    | none => exact absurd ha hn
    | some i => rw [h1.inst_mono n i ha]; simp

theorem Grow.of_step {s s' : St} (h : Step s s') : Grow s s' := by
  obtain ⟨d, hd, l⟩ := h.log
  exact ⟨h.inst_mono, fun _ => h.blocked, fun _ => h.keys, fun _ => h.injectors, d, hd, l.no_start⟩

theorem Grow.of_stepR {s s' : St} (h : StepR s s') : Grow s s' := by
  rcases h with h | h
  · subst h; exact Grow.refl _
  · exact Grow.of_step h

theorem Grow.of_tables {s s' : St} (hi : ∀ n i, s.instances n = some i → s'.instances n = some i)
    (hb : s'.blocked = s.blocked) (hl : s'.log = s.log) (hnb : ¬ s.blocked = true) : Grow s s' :=
  ⟨hi, fun h => hb ▸ h, fun h => absurd h hnb, fun h => absurd h hnb, [], by simp [hl], fun _ _ h => nomatch h⟩

theorem grow_set {s : St} (n : Name) (v : Inst) : Grow s (set s n v).1 := by
  simp only [set]
  split
  · exact Grow.refl _
  · split
    · exact Grow.refl _
    · split
      · exact Grow.refl _
      · rename_i hb hi _
        refine Grow.of_tables ?_ rfl rfl hb
        intro m i hm
        have hne : m ≠ n := by intro e; subst e; simp [hm] at hi
        show s.instances.set n _ m = some i
        rw [Tab.set_ne _ _ hne]; exact hm

theorem grow_setDefault {s : St} (n : Name) (v : Inst) : Grow s (setDefault s n v).1 := by
  simp only [setDefault]
  split
  · exact Grow.refl _
  · split
    · exact Grow.refl _
    · split
      · exact Grow.refl _
      · rename_i hb _ _
        exact Grow.of_tables (fun _ _ h => h) rfl rfl hb

theorem grow_step {s : St} (h : Inv s) (o : Op) : Grow s (step s o).1 := by
  cases o with
  | set n v => exact grow_set n _
  | setDefault n v => exact grow_setDefault n _
  | setNil n => exact grow_set n _
  | setDefaultNil n => exact grow_setDefault n _
  | addInjectors l =>
    simp only [step, accepted, addInjectors]
    split
    · exact Grow.refl _
    · rename_i hb
      exact Grow.of_tables (fun _ _ h => h) rfl rfl hb
  | injectBad => exact Grow.refl _
  | addFactory n f =>
    simp only [step, accepted, addFactory]
    obtain ⟨_, _, _, _, c5, c6, _, c8⟩ := clean_sub s n
    split
    · exact Grow.refl _
    · split
      · exact Grow.refl _
      · rename_i hb _
        refine Grow.of_tables ?_ c8 c5 hb
        intro m i hm
        show (clean s n).instances m = some i
        rw [c6]; exact hm
  | addDefaultFactory n f =>
    simp only [step, accepted, addDefaultFactory]
    split
    · exact Grow.refl _
    · split
      · exact Grow.refl _
      · split
        · exact Grow.refl _
        · rename_i hb _ _
          exact Grow.of_tables (fun _ _ h => h) rfl rfl hb
  | get n => exact Grow.of_step (Get_step h n)
  | injectTo fs => exact Grow.of_stepR (InjectTo_stepR h fs).1
  | keys => exact Grow.refl _

theorem grow_exec {s : St} (h : Inv s) (ops : List Op) : Grow s (exec s ops) := by
  induction ops generalizing s with
  | nil => exact Grow.refl _
  | cons o rest ih => exact (grow_step h o).trans (ih (inv_step h o))

theorem Grow.invocations_eq {s s' : St} (h : Grow s s') {n : Name} (hn : s.instances n ≠ none) :
    invocations n s'.log = invocations n s.log := by
  obtain ⟨d, hd, l⟩ := h.log
  rw [hd, invocations_append, invocations_eq_zero (l n hn)]; simp

/-! ### singleton answers -/

/-- a name that has an instance is answered from the table, by `Get` … -/
theorem Get_of_block_inst {s : St} (h : Inv s) {n : Name} {i : Inst}
    (hb : (block s).instances n = some i) : (Get s n).2 = .inst i := by
  have : fuelFor s = s.keys.length + 1 := by simp [fuelFor, h.stack]
  unfold Get
  rw [this, get_succ]
  simp [h.stack, hb]

theorem Get_of_inst {s : St} (h : Inv s) {n : Name} {i : Inst} (hi : s.instances n = some i) :
    (Get s n).2 = .inst i := by
  have hb := (block_step h.pre).inst_mono n i hi
  have : fuelFor s = s.keys.length + 1 := by simp [fuelFor, h.stack]
  unfold Get
  rw [this, get_succ]
  simp [h.stack, hb]

/-- … and by every field of an `InjectTo` that names it (a `nil` object is refused instead) -/
theorem injectFields_vals {g : St → Name → St × Res} {Q : St → Prop} {n : Name} {i : Inst}
    (hQ : ∀ s m, Q s → Q (g s m).1) (hn : ∀ s, Q s → (g s n).2 = .inst i) (hnil : i ≠ .nil) :
    ∀ (fs : List Field) (s : St), Q s → ∀ (k : Nat) (fld : Field) (opt : Bool) (v : Option Inst),
      fs[k]? = some fld → fld.dep = some (n, opt) → (injectFields g s fs).2.1[k]? = some v → v = some i := by
  intro fs
  induction fs with
  | nil => intro s _ k fld opt v hk; simp at hk
  | cons f rest ih =>
    intro s hs k fld opt v hk hname hv
    unfold injectFields at hv
    cases k with
    | zero =>
      simp at hk
      subst hk
      rw [hname] at hv
      simp only at hv
      have := hn s hs
      cases hr : g s n with
      | mk s1 r =>
        rw [hr] at hv this
        simp only at this
        subst this
        simp [hnil] at hv
        exact hv.symm
    | succ k =>
      simp at hk
      cases hd : f.dep with
      | none =>
        rw [hd] at hv
        simp at hv
        exact ih s hs k fld opt v hk hname hv
      | some p =>
        obtain ⟨m, o⟩ := p
        rw [hd] at hv
        simp only at hv
        have hq1 := hQ s m hs
        cases hr : g s m with
        | mk s1 r =>
          rw [hr] at hv hq1
          cases r with
          | inst j =>
            by_cases hj : j = .nil
            · simp [hj] at hv
            · simp [hj] at hv
              exact ih s1 hq1 k fld opt v hk hname hv
          | err e =>
            cases o
            · simp at hv
            · simp at hv
              exact ih s1 hq1 k fld opt v hk hname hv

theorem InjectOwn_of_inst {s : St} (h : Inv s) {n : Name} {i : Inst} (hi : s.instances n = some i)
    (hnil : i ≠ .nil)
    (fs : List Field) (k : Nat) (fld : Field) (opt : Bool) (v : Option Inst) (hk : fs[k]? = some fld)
    (hname : fld.dep = some (n, opt)) (hv : (InjectOwn s fs).2.1[k]? = some v) : v = some i := by
  have hf : fuelFor s = s.keys.length + 1 := by simp [fuelFor, h.stack]
  refine injectFields_vals (g := get (fuelFor s))
    (Q := fun s' => FuelOK (fuelFor s) s' ∧ s'.callstack = [] ∧ s'.instances n = some i)
    ?_ ?_ hnil fs s ⟨h.fuelOK, h.stack, hi⟩ k fld opt v hk hname hv
  · intro s' m ⟨h1, h2, h3⟩
    have hs := get_step (fuelFor s) s' m h1.pre
    exact ⟨get_fuelOK m h1, by rw [hs.callstack, h2], hs.inst_mono n i h3⟩
  · intro s' ⟨h1, h2, h3⟩
    have hb := (block_step h1.pre).inst_mono n i h3
    rw [hf, get_succ]
    simp [h2, hb]

/-- instances only grow -/
def InstMono (a b : St) : Prop := ∀ m i, a.instances m = some i → b.instances m = some i

/-- a field that received `i` names a dependency whose instance is `i` afterwards -/
theorem injectFields_val_inst {g : St → Name → St × Res} {P : St → Prop}
    (hg : ∀ s n, P s → P (g s n).1 ∧ InstMono s (g s n).1)
    (hi : ∀ s n i, (g s n).2 = .inst i → (g s n).1.instances n = some i) :
    ∀ (fs : List Field) (s : St), P s → ∀ (k : Nat) (fld : Field) (i : Inst), fs[k]? = some fld →
      (injectFields g s fs).2.1[k]? = some (some i) →
      ∃ n opt, fld.dep = some (n, opt) ∧ (injectFields g s fs).1.instances n = some i := by
  intro fs
  induction fs with
  | nil => intro s _ k fld i hk; simp at hk
  | cons f rest ih =>
    intro s hs k fld i hk hv
    have hmono : ∀ s', P s' → InstMono s' (injectFields g s' rest).1 :=
      fun s' hs' => injectFields_rel (P := P) (R := InstMono) (fun _ _ _ _ h => h)
        (fun _ _ _ h1 h2 m i h => h2 m i (h1 m i h)) hg rest s' hs'
    unfold injectFields at hv ⊢
    cases hd : f.dep with
    | none =>
      rw [hd] at hv
      simp only at hv ⊢
      cases k with
      | zero => simp at hv
      | succ k =>
        simp at hk hv
        exact ih s hs k fld i hk hv
    | some p =>
      obtain ⟨m, o⟩ := p
      rw [hd] at hv
      simp only at hv ⊢
      have h0 := hg s m hs
      have hi0 := hi s m
      cases hr : g s m with
      | mk s1 r =>
        rw [hr] at hv h0 hi0
        cases k with
        | zero =>
          simp at hk
          subst hk
          cases r with
          | inst j =>
            by_cases hj : j = .nil
            · simp [hj] at hv
            · simp [hj] at hv
              simp only [hj, ↓reduceIte]
              subst hv
              exact ⟨m, o, hd, hmono s1 h0.1 _ _ (hi0 j rfl)⟩
          | err e => cases o <;> simp at hv
        | succ k =>
          simp at hk
          cases r with
          | inst j =>
            by_cases hj : j = .nil
            · simp [hj] at hv
            · simp [hj] at hv
              simp only [hj, ↓reduceIte]
              exact ih s1 h0.1 k fld i hk hv
          | err e =>
            cases o
            · simp at hv
            · simp at hv
              simp only [↓reduceIte]
              exact ih s1 h0.1 k fld i hk hv

theorem InjectOwn_val_inst {s : St} (h : Inv s) (fs : List Field) (k : Nat) (fld : Field) (i : Inst)
    (hk : fs[k]? = some fld) (hv : (InjectOwn s fs).2.1[k]? = some (some i)) :
    ∃ n opt, fld.dep = some (n, opt) ∧ (InjectOwn s fs).1.instances n = some i :=
  injectFields_val_inst (g := get (fuelFor s)) (P := FuelOK (fuelFor s))
    (fun s' n hs => ⟨get_fuelOK n hs, (get_step _ s' n hs.pre).inst_mono⟩)
    (fun _ _ _ h => get_inst h) fs s h.fuelOK k fld i hk hv

/-! ### the freeze -/

theorem injectFields_blocked {fuel : Nat} : ∀ (fs : List Field) (s : St), Pre s →
    (fs.any fun f => f.dep.isSome) = true → (injectFields (get fuel) s fs).1.blocked = true := by
  intro fs
  induction fs with
  | nil => intro s _ h; simp at h
  | cons f rest ih =>
    intro s hp hany
    have hP : ∀ s' m, s'.blocked = true → (get fuel s' m).1.blocked = true :=
      fun s' m hb => (get_step _ s' m (Or.inl hb)).blocked
    unfold injectFields
    cases hd : f.dep with
    | none =>
      simp only
      refine ih s hp ?_
      simpa [hd] using hany
    | some p =>
      obtain ⟨n, opt⟩ := p
      simp only
      have h1 := get_step fuel s n hp
      have h2 := injectFields_inv (g := get fuel) (P := fun s' => s'.blocked = true) hP rest _ h1.blocked
      cases hr : get fuel s n with
      | mk s1 r =>
        rw [hr] at h1 h2
        cases r with
        | inst i =>
          by_cases hi : i = .nil
          · simpa [hi] using h1.blocked
          · simpa [hi] using h2
        | err e =>
          cases opt
          · simpa using h1.blocked
          · simpa using h2

theorem blocked_of_resolution {s : St} (h : Inv s) {o : Op} (ho : o.isResolution = true) :
    (step s o).1.blocked = true := by
  cases o with
  | get n => exact (Get_step h n).blocked
  | injectTo fs =>
    show (InjectTo s fs).1.blocked = true
    rw [InjectTo_fst]
    exact injectFields_blocked fs s h.pre ho
  | _ => simp [Op.isResolution] at ho

end Goat.DI
