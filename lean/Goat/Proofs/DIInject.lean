/-
C10 helper lemmas, part 8: the extra injectors.  Whether an injector returns an error depends on the
tags of the struct only, never on what the fields hold; every run returns one value per field.
-/
import Goat.Proofs.DIBasic

namespace Goat.DI

@[simp] theorem pad_length (n : Nat) (vals : List (Option Inst)) : (pad n vals).length = n := by
  induction n generalizing vals with
  | zero => rfl
  | succ n ih => simp [pad, ih]

theorem leafRun_err_indep (sc : Bool) (t : TagName) (data : List (Name × Inst)) :
    ∀ (fs : List Field) (v v' : List (Option Inst)), (leafRun sc t data fs v).2 = (leafRun sc t data fs v').2 := by
  intro fs
  induction fs with
  | nil => intro v v'; rfl
  | cons fld fs ih =>
    intro v v'
    unfold leafRun
    have h := ih v.tail v'.tail
    cases hp : parseTag (fld.raw t) with
    | none => simpa using h
    | some p =>
      obtain ⟨key, opt⟩ := p
      simp only
      cases hl : lookupData data key with
      | none => cases opt <;> simp [h]
      | some x =>
        by_cases hx : x = .nil
        · cases sc <;> cases opt <;> simp [hx, h]
        · simp [hx, h]

theorem leafRun_length (sc : Bool) (t : TagName) (data : List (Name × Inst)) :
    ∀ (fs : List Field) (v : List (Option Inst)), (leafRun sc t data fs v).1.length = fs.length := by
  intro fs
  induction fs with
  | nil => intro v; rfl
  | cons fld fs ih =>
    intro v
    unfold leafRun
    have h := ih v.tail
    cases hp : parseTag (fld.raw t) with
    | none => simpa using h
    | some p =>
      obtain ⟨key, opt⟩ := p
      simp only
      cases hl : lookupData data key with
      | none => cases opt <;> simp [h]
      | some x =>
        by_cases hx : x = .nil
        · cases sc <;> cases opt <;> simp [hx, h]
        · simp [hx, h]

mutual
theorem Injector.run_err_indep : ∀ (i : Injector) (fs : List Field) (v v' : List (Option Inst)),
    (i.run fs v).2 = (i.run fs v').2
  | .map t data, fs, v, v' => by simpa [Injector.run] using leafRun_err_indep false t data fs v v'
  | .scope t data, fs, v, v' => by simpa [Injector.run] using leafRun_err_indep true t data fs v v'
  | .nop, fs, v, v' => by simp [Injector.run]
  | .multi l, fs, v, v' => by simpa [Injector.run] using runMulti_err_indep l fs v v'
theorem runMulti_err_indep : ∀ (l : List Injector) (fs : List Field) (v v' : List (Option Inst)),
    (runMulti l fs v).2 = (runMulti l fs v').2
  | [], fs, v, v' => by simp [runMulti]
  | i :: rest, fs, v, v' => by
    have h := Injector.run_err_indep i fs v v'
    unfold runMulti
    cases h1 : i.run fs v with
    | mk w b =>
      cases h2 : i.run fs v' with
      | mk w' b' =>
        rw [h1, h2] at h
        simp only at h
        subst h
        cases b with
        | true => rfl
        | false => exact runMulti_err_indep rest fs w w'
end

theorem runInjectors_err_indep : ∀ (l : List Injector) (k : Nat) (fs : List Field) (v v' : List (Option Inst)),
    (runInjectors k l fs v).2 = (runInjectors k l fs v').2 := by
  intro l
  induction l with
  | nil => intro k fs v v'; rfl
  | cons i rest ih =>
    intro k fs v v'
    have h := Injector.run_err_indep i fs v v'
    unfold runInjectors
    cases h1 : i.run fs v with
    | mk w b =>
      cases h2 : i.run fs v' with
      | mk w' b' =>
        rw [h1, h2] at h
        simp only at h
        subst h
        cases b with
        | true => rfl
        | false => exact ih (k + 1) fs w w'

/-! ### field-wise reading -/

theorem pad_getElem? : ∀ (n : Nat) (vals : List (Option Inst)) (k : Nat), k < n →
    (pad n vals)[k]? = some (vals[k]?.join) := by
  intro n
  induction n with
  | zero => intro vals k hk; cases hk
  | succ n ih =>
    intro vals k hk
    cases k with
    | zero => cases vals <;> simp [pad]
    | succ k =>
      have := ih vals.tail k (Nat.lt_of_succ_lt_succ hk)
      cases vals <;> simpa [pad] using this

/-- a map / data-scope injector that did not fail left in every field what `leafPick` says -/
theorem leafRun_pick (sc : Bool) (t : TagName) (data : List (Name × Inst)) :
    ∀ (fs : List Field) (vals : List (Option Inst)), (leafRun sc t data fs vals).2 = false →
      ∀ (k : Nat) (fld : Field), fs[k]? = some fld →
        (leafRun sc t data fs vals).1[k]? = some (leafPick t data fld (vals[k]?.join)) := by
  intro fs
  induction fs with
  | nil => intro vals _ k fld hk; simp at hk
  | cons f fs ih =>
    intro vals hne k fld hk
    have hhead : vals.head?.join = vals[0]?.join := by cases vals <;> rfl
    have htail : ∀ j, vals.tail[j]? = vals[j + 1]? := by intro j; cases vals <;> simp
    unfold leafRun at hne ⊢
    cases hp : parseTag (f.raw t) with
    | none =>
      rw [hp] at hne
      simp only at hne ⊢
      cases k with
      | zero =>
        simp at hk; subst hk
        simp [leafPick, hp, hhead]
      | succ k =>
        simp at hk
        simpa [htail] using ih vals.tail hne k fld hk
    | some p =>
      obtain ⟨key, opt⟩ := p
      rw [hp] at hne
      simp only at hne ⊢
      cases hl : lookupData data key with
      | none =>
        rw [hl] at hne
        cases opt with
        | false => simp at hne
        | true =>
          simp only [if_true] at hne ⊢
          cases k with
          | zero =>
            simp at hk; subst hk
            simp [leafPick, hp, hl, hhead]
          | succ k =>
            simp at hk
            simpa [htail] using ih vals.tail hne k fld hk
      | some x =>
        rw [hl] at hne
        by_cases hx : x = .nil
        · simp only [hx, if_true] at hne ⊢
          cases sc with
          | false => simp at hne
          | true =>
            cases opt with
            | false => simp at hne
            | true =>
              simp only [if_true] at hne ⊢
              cases k with
              | zero =>
                simp at hk; subst hk
                simp [leafPick, hp, hl, hx, hhead]
              | succ k =>
                simp at hk
                simpa [htail] using ih vals.tail hne k fld hk
        · simp only [hx, if_false] at hne ⊢
          cases k with
          | zero =>
            simp at hk; subst hk
            simp [leafPick, hp, hl, hx]
          | succ k =>
            simp at hk
            simpa [htail] using ih vals.tail hne k fld hk

mutual
theorem Injector.run_pick : ∀ (i : Injector) (fs : List Field) (vals : List (Option Inst)),
    (i.run fs vals).2 = false → ∀ (k : Nat) (fld : Field), fs[k]? = some fld →
      (i.run fs vals).1[k]? = some (i.pick fld (vals[k]?.join))
  | .map t data, fs, vals, h, k, fld, hk => by
    simpa [Injector.run, Injector.pick] using leafRun_pick false t data fs vals (by simpa [Injector.run] using h) k fld hk
  | .scope t data, fs, vals, h, k, fld, hk => by
    simpa [Injector.run, Injector.pick] using leafRun_pick true t data fs vals (by simpa [Injector.run] using h) k fld hk
  | .nop, fs, vals, _, k, fld, hk => by
    have hlt : k < fs.length := by
      rcases List.getElem?_eq_some_iff.1 hk with ⟨h, _⟩; exact h
    simp [Injector.run, Injector.pick, pad_getElem? _ _ _ hlt]
  | .multi l, fs, vals, h, k, fld, hk => by
    simpa [Injector.run, Injector.pick] using runMulti_pick l fs vals (by simpa [Injector.run] using h) k fld hk
theorem runMulti_pick : ∀ (l : List Injector) (fs : List Field) (vals : List (Option Inst)),
    (runMulti l fs vals).2 = false → ∀ (k : Nat) (fld : Field), fs[k]? = some fld →
      (runMulti l fs vals).1[k]? = some (pickAll l fld (vals[k]?.join))
  | [], fs, vals, _, k, fld, hk => by
    have hlt : k < fs.length := by
      rcases List.getElem?_eq_some_iff.1 hk with ⟨h, _⟩; exact h
    simp [runMulti, pickAll, pad_getElem? _ _ _ hlt]
  | i :: rest, fs, vals, h, k, fld, hk => by
    have h1 := Injector.run_pick i fs vals
    unfold runMulti at h ⊢
    cases hr : i.run fs vals with
    | mk w b =>
      rw [hr] at h h1
      cases b with
      | true => simp at h
      | false =>
        simp only at h ⊢
        have h2 := runMulti_pick rest fs w h k fld hk
        rw [h2, h1 rfl k fld hk]
        simp [pickAll]
end

/-- all registered injectors passed: every field holds what the field-wise reading says -/
theorem runInjectors_pick : ∀ (l : List Injector) (j : Nat) (fs : List Field) (vals : List (Option Inst)),
    (runInjectors j l fs vals).2 = none → ∀ (k : Nat) (fld : Field), fs[k]? = some fld →
      (runInjectors j l fs vals).1[k]? = some (pickAll l fld (vals[k]?.join)) := by
  intro l
  induction l with
  | nil =>
    intro j fs vals _ k fld hk
    have hlt : k < fs.length := by
      rcases List.getElem?_eq_some_iff.1 hk with ⟨h, _⟩; exact h
    simp [runInjectors, pickAll, pad_getElem? _ _ _ hlt]
  | cons i rest ih =>
    intro j fs vals h k fld hk
    have h1 := Injector.run_pick i fs vals
    unfold runInjectors at h ⊢
    cases hr : i.run fs vals with
    | mk w b =>
      rw [hr] at h h1
      cases b with
      | true => simp at h
      | false =>
        simp only at h ⊢
        rw [ih (j + 1) fs w h k fld hk, h1 rfl k fld hk]
        simp [pickAll]

end Goat.DI
