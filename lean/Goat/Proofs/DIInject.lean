/-
C10 helper lemmas, part 8: the extra injectors.  Whether an injector returns an error depends on the
tags of the struct only, never on what the fields hold; every run returns one value per field.
-/
import Goat.Proofs.DIBasic

namespace Goat.DI

@[simp] theorem pad_length (n : Nat) (vals : List (Option Inst)) : (pad n vals).length = n := by
  induction n generalizing vals with
  | zero => rfl
  | succ n ih => simp [pad, ih]

theorem leafRun_err_indep (sc : Bool) (t : TagName) (data : List (Name × Inst)) :
    ∀ (fs : List Field) (v v' : List (Option Inst)), (leafRun sc t data fs v).2 = (leafRun sc t data fs v').2 := by
  intro fs
  induction fs with
  | nil => intro v v'; rfl
  | cons fld fs ih =>
    intro v v'
    unfold leafRun
    have h := ih v.tail v'.tail
    cases hp : parseTag (fld.raw t) with
    | none => simpa using h
    | some p =>
      obtain ⟨key, opt⟩ := p
      simp only
      cases hl : lookupData data key with
      | none => cases opt <;> simp [h]
      | some x =>
        by_cases hx : x = .nil
        · cases sc <;> cases opt <;> simp [hx, h]
        · simp [hx, h]

theorem leafRun_length (sc : Bool) (t : TagName) (data : List (Name × Inst)) :
    ∀ (fs : List Field) (v : List (Option Inst)), (leafRun sc t data fs v).1.length = fs.length := by
  intro fs
  induction fs with
  | nil => intro v; rfl
  | cons fld fs ih =>
    intro v
    unfold leafRun
    have h := ih v.tail
    cases hp : parseTag (fld.raw t) with
    | none => simpa using h
    | some p =>
      obtain ⟨key, opt⟩ := p
      simp only
      cases hl : lookupData data key with
      | none => cases opt <;> simp [h]
      | some x =>
        by_cases hx : x = .nil
        · cases sc <;> cases opt <;> simp [hx, h]
        · simp [hx, h]

mutual
theorem Injector.run_err_indep : ∀ (i : Injector) (fs : List Field) (v v' : List (Option Inst)),
    (i.run fs v).2 = (i.run fs v').2
  | .map t data, fs, v, v' => by simpa [Injector.run] using leafRun_err_indep false t data fs v v'
  | .scope t data, fs, v, v' => by simpa [Injector.run] using leafRun_err_indep true t data fs v v'
  | .nop, fs, v, v' => by simp [Injector.run]
  | .multi l, fs, v, v' => by simpa [Injector.run] using runMulti_err_indep l fs v v'
theorem runMulti_err_indep : ∀ (l : List Injector) (fs : List Field) (v v' : List (Option Inst)),
    (runMulti l fs v).2 = (runMulti l fs v').2
  | [], fs, v, v' => by simp [runMulti]
  | i :: rest, fs, v, v' => by
    have h := Injector.run_err_indep i fs v v'
    unfold runMulti
    cases h1 : i.run fs v with
    | mk w b =>
      cases h2 : i.run fs v' with
      | mk w' b' =>
        rw [h1, h2] at h
        simp only at h
        subst h
        cases b with
        | true => rfl
        | false => exact runMulti_err_indep rest fs w w'
end

theorem runInjectors_err_indep : ∀ (l : List Injector) (k : Nat) (fs : List Field) (v v' : List (Option Inst)),
    (runInjectors k l fs v).2 = (runInjectors k l fs v').2 := by
  intro l
  induction l with
  | nil => intro k fs v v'; rfl
  | cons i rest ih =>
    intro k fs v v'
    have h := Injector.run_err_indep i fs v v'
    unfold runInjectors
    cases h1 : i.run fs v with
    | mk w b =>
      cases h2 : i.run fs v' with
      | mk w' b' =>
        rw [h1, h2] at h
        simp only at h
        subst h
        cases b with
        | true => rfl
        | false => exact ih (k + 1) fs w w'

end Goat.DI
