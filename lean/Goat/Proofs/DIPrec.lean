/-
C10 helper lemmas, part 5: precedence of definitions.  After any sequence of definition calls the
definition `Get` uses for a name is the first explicit one, else the first default one.
-/
import Goat.Proofs.DIBasic

set_option linter.unusedSimpArgs false

namespace Goat.DI

theorem orElse_assoc {α : Type} (a b c : Option α) : orElse (orElse a b) c = orElse a (orElse b c) := by
  cases a <;> rfl

@[simp] theorem orElse_none_right {α : Type} (a : Option α) : orElse a none = a := by
  cases a <;> rfl

@[simp] theorem orElse_none_left {α : Type} (a : Option α) : orElse none a = a := rfl

@[simp] theorem orElse_some {α : Type} (x : α) (a : Option α) : orElse (some x) a = some x := rfl

/-- the tables at `n` after definition calls whose first explicit / first default definition of `n`
are `e` / `d` -/
def RelN (s : St) (n : Name) (e d : Option Src) : Prop :=
  s.blocked = false ∧
  match e with
  | some (.inst i) => s.instances n = some i
  | some (.fac f) => s.instances n = none ∧ s.factories n = some f
  | none =>
    s.instances n = none ∧ s.factories n = none ∧
    match d with
    | some (.inst i) => s.defaultInstances n = some i
    | some (.fac f) => s.defaultInstances n = none ∧ s.defaultFactories n = some f
    | none => s.defaultInstances n = none ∧ s.defaultFactories n = none

theorem RelN.empty (n : Name) : RelN St.empty n none none := by
  simp [RelN, St.empty, Tab.empty]

theorem RelN.source_eq {s : St} {n : Name} {e d : Option Src} (h : RelN s n e d) :
    source (block s) n = orElse e d := by
  obtain ⟨hb, h⟩ := h
  unfold source
  rw [block_instances, block_factories, block_defaultFactories]
  simp only [hb, Bool.false_eq_true, if_false]
  rcases e with _ | (i | f)
  · rcases d with _ | (i | f)
    · simp_all [promotes]
    · simp_all [promotes]
    · simp_all [promotes]
  · simp_all [promotes]
  · simp_all [promotes]

/-- `RelN` only looks at the five entries for `n` -/
theorem RelN.congr {s s' : St} {n : Name} {e d : Option Src} (h : RelN s n e d)
    (hb : s'.blocked = s.blocked) (h1 : s'.instances n = s.instances n)
    (h2 : s'.factories n = s.factories n) (h3 : s'.defaultInstances n = s.defaultInstances n)
    (h4 : s'.defaultFactories n = s.defaultFactories n) : RelN s' n e d := by
  unfold RelN at h ⊢
  rw [hb, h1, h2, h3, h4]; exact h

/-- the name a definition call is about -/
def Op.target : Op → Name
  | .set m _ | .setDefault m _ | .addFactory m _ | .addDefaultFactory m _ | .get m => m
  | .setNil m | .setDefaultNil m => m
  | _ => 0

/-- a definition call for another name leaves the entries of `n` alone -/
theorem def_frame {s : St} {o : Op} {n : Name} (ho : o.isDef = true) (hne : n ≠ o.target) :
    (step s o).1.blocked = s.blocked ∧ (step s o).1.instances n = s.instances n ∧
    (step s o).1.factories n = s.factories n ∧
    (step s o).1.defaultInstances n = s.defaultInstances n ∧
    (step s o).1.defaultFactories n = s.defaultFactories n := by
  cases o with
  | set m v =>
    have hne : n ≠ m := hne
    cases h0 : s.blocked <;> cases h1 : (s.instances m).isSome <;> cases h2 : (s.factories m).isSome <;>
      simp [step, accepted, set, h0, h1, h2, Tab.set_ne, hne]
  | setDefault m v =>
    have hne : n ≠ m := hne
    cases h0 : s.blocked <;> cases h1 : (s.defaultInstances m).isSome <;>
      cases h2 : (s.defaultFactories m).isSome <;>
      simp [step, accepted, setDefault, h0, h1, h2, Tab.set_ne, hne]
  | addFactory m f =>
    have hne : n ≠ m := hne
    cases h0 : s.blocked <;> cases h1 : (s.factories m).isSome <;> cases h2 : s.autoclean <;>
      simp [step, accepted, addFactory, clean, h0, h1, h2, Tab.set_ne, Tab.del_ne, hne]
  | addDefaultFactory m f =>
    have hne : n ≠ m := hne
    cases h0 : s.blocked <;> cases h1 : (s.defaultFactories m).isSome <;>
      cases h2 : (s.factories m).isSome <;>
      simp [step, accepted, addDefaultFactory, h0, h1, h2, Tab.set_ne, hne]
  | setNil m =>
    have hne : n ≠ m := hne
    cases h0 : s.blocked <;> cases h1 : (s.instances m).isSome <;> cases h2 : (s.factories m).isSome <;>
      simp [step, accepted, set, h0, h1, h2, Tab.set_ne, hne]
  | setDefaultNil m =>
    have hne : n ≠ m := hne
    cases h0 : s.blocked <;> cases h1 : (s.defaultInstances m).isSome <;>
      cases h2 : (s.defaultFactories m).isSome <;>
      simp [step, accepted, setDefault, h0, h1, h2, Tab.set_ne, hne]
  | addInjectors l => cases h0 : s.blocked <;> simp [step, accepted, addInjectors, h0]
  | get _ => simp [Op.isDef] at ho
  | injectTo _ => simp [Op.isDef] at ho
  | keys => simp [Op.isDef] at ho
  | injectBad => simp [Op.isDef] at ho

theorem explicitOf_ne {o : Op} {n : Name} (hne : n ≠ o.target) : o.explicitOf n = none := by
  cases o <;> simp_all [Op.explicitOf, Op.target] <;> (intro h; exact absurd h.symm hne)

theorem defaultOf_ne {o : Op} {n : Name} (hne : n ≠ o.target) : o.defaultOf n = none := by
  cases o <;> simp_all [Op.defaultOf, Op.target] <;> (intro h; exact absurd h.symm hne)

theorem RelN.step_def {s : St} {n : Name} {e d : Option Src} (h : RelN s n e d) {o : Op} (ho : o.isDef = true) :
    RelN (step s o).1 n (orElse e (o.explicitOf n)) (orElse d (o.defaultOf n)) := by
  by_cases hne : n = o.target
  · obtain ⟨hb, h⟩ := h
    cases o with
    | set m v =>
      have : n = m := hne
      subst this
      clear hne ho
      rcases e with _ | (i | f)
      · rcases d with _ | (i | f) <;>
          simp_all [RelN, step, accepted, set, Op.explicitOf, Op.defaultOf]
      · simp_all [RelN, step, accepted, set, Op.explicitOf, Op.defaultOf]
      · simp_all [RelN, step, accepted, set, Op.explicitOf, Op.defaultOf]
    | setDefault m v =>
      have : n = m := hne
      subst this
      clear hne ho
      rcases e with _ | (i | f)
      · rcases d with _ | (i | f) <;>
          simp_all [RelN, step, accepted, setDefault, Op.explicitOf, Op.defaultOf]
      · cases h1 : (s.defaultInstances n).isSome <;> cases h2 : (s.defaultFactories n).isSome <;>
          simp_all [RelN, step, accepted, setDefault, Op.explicitOf, Op.defaultOf]
      · cases h1 : (s.defaultInstances n).isSome <;> cases h2 : (s.defaultFactories n).isSome <;>
          simp_all [RelN, step, accepted, setDefault, Op.explicitOf, Op.defaultOf]
    | addFactory m f' =>
      have : n = m := hne
      subst this
      clear hne ho
      rcases e with _ | (i | f)
      · rcases d with _ | (i | f) <;> cases h2 : s.autoclean <;>
          simp_all [RelN, step, accepted, addFactory, clean, Op.explicitOf, Op.defaultOf]
      · cases h1 : (s.factories n).isSome <;> cases h2 : s.autoclean <;>
          simp_all [RelN, step, accepted, addFactory, clean, Op.explicitOf, Op.defaultOf]
      · simp_all [RelN, step, accepted, addFactory, clean, Op.explicitOf, Op.defaultOf]
    | addDefaultFactory m f' =>
      have : n = m := hne
      subst this
      clear hne ho
      rcases e with _ | (i | f)
      · rcases d with _ | (i | f) <;> cases h1 : (s.defaultFactories n).isSome <;>
          simp_all [RelN, step, accepted, addDefaultFactory, Op.explicitOf, Op.defaultOf]
      · cases h1 : (s.defaultFactories n).isSome <;> cases h2 : (s.factories n).isSome <;>
          simp_all [RelN, step, accepted, addDefaultFactory, Op.explicitOf, Op.defaultOf]
      · cases h1 : (s.defaultFactories n).isSome <;>
          simp_all [RelN, step, accepted, addDefaultFactory, Op.explicitOf, Op.defaultOf]
    | setNil m =>
      have : n = m := hne
      subst this
      clear hne ho
      rcases e with _ | (i | f)
      · rcases d with _ | (i | f) <;>
          simp_all [RelN, step, accepted, set, Op.explicitOf, Op.defaultOf]
      · simp_all [RelN, step, accepted, set, Op.explicitOf, Op.defaultOf]
      · simp_all [RelN, step, accepted, set, Op.explicitOf, Op.defaultOf]
    | setDefaultNil m =>
      have : n = m := hne
      subst this
      clear hne ho
      rcases e with _ | (i | f)
      · rcases d with _ | (i | f) <;>
          simp_all [RelN, step, accepted, setDefault, Op.explicitOf, Op.defaultOf]
      · cases h1 : (s.defaultInstances n).isSome <;> cases h2 : (s.defaultFactories n).isSome <;>
          simp_all [RelN, step, accepted, setDefault, Op.explicitOf, Op.defaultOf]
      · cases h1 : (s.defaultInstances n).isSome <;> cases h2 : (s.defaultFactories n).isSome <;>
          simp_all [RelN, step, accepted, setDefault, Op.explicitOf, Op.defaultOf]
    | addInjectors l =>
      clear hne ho
      simpa [RelN, step, accepted, addInjectors, Op.explicitOf, Op.defaultOf, hb] using h
    | get _ => simp [Op.isDef] at ho
    | injectTo _ => simp [Op.isDef] at ho
    | keys => simp [Op.isDef] at ho
    | injectBad => simp [Op.isDef] at ho
  · rw [explicitOf_ne hne, defaultOf_ne hne]
    obtain ⟨f0, f1, f2, f3, f4⟩ := def_frame (s := s) ho hne
    simpa using h.congr f0 f1 f2 f3 f4

theorem RelN.exec_defs {n : Name} : ∀ (defs : List Op) (s : St) (e d : Option Src),
    (∀ o, o ∈ defs → o.isDef = true) → RelN s n e d →
    RelN (exec s defs) n (orElse e (firstExplicit n defs)) (orElse d (firstDefault n defs)) := by
  intro defs
  induction defs with
  | nil => intro s e d _ h; simpa [exec, firstExplicit, firstDefault] using h
  | cons o rest ih =>
    intro s e d hd h
    have h1 := h.step_def (hd o (List.mem_cons_self ..))
    have h2 := ih _ _ _ (fun o' ho' => hd o' (List.mem_cons_of_mem _ ho')) h1
    simpa [exec, firstExplicit, firstDefault, orElse_assoc] using h2

/-- precedence after any sequence of definition calls -/
theorem source_after_defs (defs : List Op) (n : Name) (hd : ∀ o, o ∈ defs → o.isDef = true) :
    source (block (exec St.empty defs)) n = orElse (firstExplicit n defs) (firstDefault n defs) := by
  have := (RelN.exec_defs defs St.empty none none hd (RelN.empty n)).source_eq
  simpa using this

end Goat.DI
