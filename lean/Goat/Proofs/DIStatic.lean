/-
C10 helper lemmas, part 9: `NewStaticProvider`.  `Sim a b`: `b` is a static twin of the blocked
provider `a` — same instances, the same factory in force for every name that has no instance yet,
same injectors and ghost fields.  Every `Get` keeps the two in step and answers the same
(`get_sim`, for any two sufficient amounts of fuel), hence so does every history without `Keys`.
-/
import Goat.Proofs.DIGood
import Goat.Proofs.DIPrec

namespace Goat.DI

structure Sim (a b : St) : Prop where
  ablocked : a.blocked = true
  bblocked : b.blocked = true
  instances : b.instances = a.instances
  facs : ∀ n, a.instances n = none → mergedFactories b n = mergedFactories a n
  callstack : b.callstack = a.callstack
  injectors : b.injectors = a.injectors
  nextId : b.nextId = a.nextId
  log : b.log = a.log

theorem Sim.push {a b : St} (h : Sim a b) (n : Name) : Sim (push a n) (push b n) where
  ablocked := h.ablocked
  bblocked := h.bblocked
  instances := h.instances
  facs := h.facs
  callstack := by simp [h.callstack]
  injectors := h.injectors
  nextId := h.nextId
  log := by simp [h.log]

/-- `Get` on a blocked provider, for a name that is not under construction and has no instance -/
theorem get_succ_blocked (fuel : Nat) (s : St) (n : Name) (hb : s.blocked = true)
    (hc : n ∉ s.callstack) (hi : s.instances n = none) :
    get (fuel + 1) s n =
      match mergedFactories s n with
      | some f => construct (get fuel) s n f (s.factories n).isNone
      | none => (s, .err .missing) := by
  rw [get_succ, block_of_blocked hb]
  simp only [hc, ↓reduceIte, hi]
  cases hf : s.factories n with
  | some f => simp [mergedFactories, hf, orElse]
  | none =>
    cases hd : s.defaultFactories n with
    | some f => simp [mergedFactories, hf, hd, orElse]
    | none => simp [mergedFactories, hf, hd, orElse]

/-! ### two `Get`s in step -/

/-- `g1` and `g2` keep `R` and answer the same -/
def GSim (R : St → St → Prop) (g1 g2 : St → Name → St × Res) : Prop :=
  ∀ a b n, R a b → R (g1 a n).1 (g2 b n).1 ∧ (g1 a n).2 = (g2 b n).2

theorem injectFields_sim {R : St → St → Prop} {g1 g2 : St → Name → St × Res} (hg : GSim R g1 g2) :
    ∀ (fs : List Field) (a b : St), R a b →
      R (injectFields g1 a fs).1 (injectFields g2 b fs).1 ∧
      (injectFields g1 a fs).2 = (injectFields g2 b fs).2 := by
  intro fs
  induction fs with
  | nil => intro a b h; exact ⟨h, rfl⟩
  | cons fld rest ih =>
    intro a b h
    unfold injectFields
    cases hd : fld.dep with
    | none =>
      obtain ⟨i1, i2⟩ := ih a b h
      exact ⟨i1, by simp [i2]⟩
    | some p =>
      obtain ⟨n, opt⟩ := p
      obtain ⟨h1, h2⟩ := hg a b n h
      simp only
      cases hra : g1 a n with
      | mk a1 r1 =>
        cases hrb : g2 b n with
        | mk b1 r2 =>
          rw [hra, hrb] at h1 h2
          simp only at h1 h2
          subst h2
          obtain ⟨i1, i2⟩ := ih a1 b1 h1
          cases r1 with
          | inst i =>
            by_cases hi : i = .nil
            · simpa [hi] using h1
            · simp only [hi, if_false]; exact ⟨i1, by simp [i2]⟩
          | err e =>
            cases opt with
            | false => simpa using h1
            | true => simp only [if_true]; exact ⟨i1, by simp [i2]⟩

theorem injectAll_sim {R : St → St → Prop} {g1 g2 : St → Name → St × Res} (hg : GSim R g1 g2)
    (hinj : ∀ a b, R a b → b.injectors = a.injectors) (fs : List Field) (a b : St) (h : R a b) :
    R (injectAll g1 a fs).1 (injectAll g2 b fs).1 ∧ (injectAll g1 a fs).2 = (injectAll g2 b fs).2 := by
  obtain ⟨h1, h2⟩ := injectFields_sim hg fs a b h
  have h3 := hinj _ _ h1
  unfold injectAll
  cases hra : injectFields g1 a fs with
  | mk a1 ra =>
    cases hrb : injectFields g2 b fs with
    | mk b1 rb =>
      rw [hra, hrb] at h1 h2 h3
      simp only at h1 h2 h3
      subst h2
      obtain ⟨vals, e⟩ := ra
      cases e with
      | some e => exact ⟨h1, rfl⟩
      | none => simp only; rw [h3]; exact ⟨h1, rfl⟩

theorem depStep_sim {R : St → St → Prop} {g1 g2 : St → Name → St × Res} (hg : GSim R g1 g2)
    (hinj : ∀ a b, R a b → b.injectors = a.injectors) (d : Dep) (a b : St) (h : R a b) :
    R (depStep g1 a d).1 (depStep g2 b d).1 ∧ (depStep g1 a d).2 = (depStep g2 b d).2 := by
  unfold depStep
  cases hv : d.viaInject with
  | true =>
    obtain ⟨h1, h2⟩ := injectAll_sim hg hinj [d.field] a b h
    simp only [if_true]
    exact ⟨h1, by rw [h2]⟩
  | false =>
    simp only [Bool.false_eq_true, if_false]
    obtain ⟨h1, h2⟩ := hg a b d.name h
    cases hra : g1 a d.name with
    | mk a1 r1 =>
      cases hrb : g2 b d.name with
      | mk b1 r2 =>
        rw [hra, hrb] at h1 h2
        simp only at h1 h2
        subst h2
        cases r1 <;> exact ⟨h1, rfl⟩

theorem runDeps_sim {R : St → St → Prop} {g1 g2 : St → Name → St × Res} (hg : GSim R g1 g2)
    (hinj : ∀ a b, R a b → b.injectors = a.injectors) :
    ∀ (ds : List Dep) (a b : St), R a b →
      R (runDeps g1 a ds).1 (runDeps g2 b ds).1 ∧ (runDeps g1 a ds).2 = (runDeps g2 b ds).2 := by
  intro ds
  induction ds with
  | nil => intro a b h; exact ⟨h, rfl⟩
  | cons d rest ih =>
    intro a b h
    obtain ⟨h1, h2⟩ := depStep_sim hg hinj d a b h
    rw [runDeps_cons, runDeps_cons]
    cases hra : depStep g1 a d with
    | mk a1 e1 =>
      cases hrb : depStep g2 b d with
      | mk b1 e2 =>
        rw [hra, hrb] at h1 h2
        simp only at h1 h2
        subst h2
        cases e1 with
        | none => exact ih a1 b1 h1
        | some e => exact ⟨h1, rfl⟩

/-! ### the shape of a construction -/

theorem runFactory_shape (g : St → Name → St × Res) (s : St) (f : Factory) :
    (runFactory g s f).1.blocked = (runDeps g s f.deps).1.blocked ∧
    (runFactory g s f).1.instances = (runDeps g s f.deps).1.instances ∧
    (runFactory g s f).1.factories = (runDeps g s f.deps).1.factories ∧
    (runFactory g s f).1.defaultFactories = (runDeps g s f.deps).1.defaultFactories ∧
    (runFactory g s f).1.callstack = (runDeps g s f.deps).1.callstack ∧
    (runFactory g s f).1.injectors = (runDeps g s f.deps).1.injectors ∧
    (runFactory g s f).1.log = (runDeps g s f.deps).1.log ∧
    (runFactory g s f).2 =
      (match (runDeps g s f.deps).2 with
        | some _ => FRes.err
        | none =>
          match f.out with
          | .fail => FRes.err
          | .nilInst => FRes.nilInst
          | .ok => FRes.inst (.built (runDeps g s f.deps).1.nextId)) ∧
    (runFactory g s f).1.nextId =
      (match (runDeps g s f.deps).2, f.out with
        | none, .ok => (runDeps g s f.deps).1.nextId + 1
        | _, _ => (runDeps g s f.deps).1.nextId) := by
  unfold runFactory
  cases runDeps g s f.deps with
  | mk s1 e =>
    cases e with
    | some e => simp
    | none => cases f.out <;> simp

theorem construct_shape (g : St → Name → St × Res) (s : St) (n : Name) (f : Factory) (dflt : Bool) :
    (construct g s n f dflt).1.blocked = (runFactory g (push s n) f).1.blocked ∧
    (construct g s n f dflt).1.injectors = (runFactory g (push s n) f).1.injectors ∧
    (construct g s n f dflt).1.nextId = (runFactory g (push s n) f).1.nextId ∧
    (construct g s n f dflt).1.callstack = (runFactory g (push s n) f).1.callstack.take s.callstack.length ∧
    match (runFactory g (push s n) f).2 with
    | .inst i =>
      (construct g s n f dflt).2 = .inst i ∧
      (construct g s n f dflt).1.instances = (runFactory g (push s n) f).1.instances.set n i ∧
      (construct g s n f dflt).1.log = (runFactory g (push s n) f).1.log ++ [.done n i] ∧
      ∀ m, m ≠ n →
        (construct g s n f dflt).1.factories m = (runFactory g (push s n) f).1.factories m ∧
        (construct g s n f dflt).1.defaultFactories m = (runFactory g (push s n) f).1.defaultFactories m
    | .nilInst =>
      (construct g s n f dflt).2 = .err .nilInstance ∧
      (construct g s n f dflt).1.instances = (runFactory g (push s n) f).1.instances ∧
      (construct g s n f dflt).1.log = (runFactory g (push s n) f).1.log ∧
      (construct g s n f dflt).1.factories = (runFactory g (push s n) f).1.factories ∧
      (construct g s n f dflt).1.defaultFactories = (runFactory g (push s n) f).1.defaultFactories
    | .err =>
      (construct g s n f dflt).2 = .err .failed ∧
      (construct g s n f dflt).1.instances = (runFactory g (push s n) f).1.instances ∧
      (construct g s n f dflt).1.log = (runFactory g (push s n) f).1.log ∧
      (construct g s n f dflt).1.factories = (runFactory g (push s n) f).1.factories ∧
      (construct g s n f dflt).1.defaultFactories = (runFactory g (push s n) f).1.defaultFactories := by
  simp only [construct]
  cases runFactory g (push s n) f with
  | mk s2 r =>
    cases r with
    | err => simp
    | nilInst => simp
    | inst i =>
      cases dflt <;> cases hac : s2.autoclean <;> simp [clean, hac] <;>
        intro m hm <;> simp [Tab.del_ne _ hm]

theorem mergedFactories_congr {a b : St} {m : Name} (h1 : a.factories m = b.factories m)
    (h2 : a.defaultFactories m = b.defaultFactories m) : mergedFactories a m = mergedFactories b m := by
  simp [mergedFactories, h1, h2]

/-- two constructions of the same factory in step -/
theorem construct_sim {R : St → St → Prop} {g1 g2 : St → Name → St × Res} (hg : GSim R g1 g2)
    (hR : ∀ a b, R a b → Sim a b) {a b : St} {n : Name} (f : Factory) (da db : Bool)
    (hab : Sim a b) (hp : R (push a n) (push b n)) :
    Sim (construct g1 a n f da).1 (construct g2 b n f db).1 ∧
    (construct g1 a n f da).2 = (construct g2 b n f db).2 := by
  obtain ⟨hr1, hr2⟩ := runDeps_sim hg (fun x y h => (hR x y h).injectors) f.deps _ _ hp
  have hs := hR _ _ hr1
  obtain ⟨a1, a2, a3, a4, a5, a6, a7, a8, a9⟩ := runFactory_shape g1 (push a n) f
  obtain ⟨b1, b2, b3, b4, b5, b6, b7, b8, b9⟩ := runFactory_shape g2 (push b n) f
  obtain ⟨c1, c2, c3, c4, c5⟩ := construct_shape g1 a n f da
  obtain ⟨d1, d2, d3, d4, d5⟩ := construct_shape g2 b n f db
  -- the two factory closures returned the same
  have hres : (runFactory g2 (push b n) f).2 = (runFactory g1 (push a n) f).2 := by
    rw [a8, b8, hr2, hs.nextId]
  have hnext : (runFactory g2 (push b n) f).1.nextId = (runFactory g1 (push a n) f).1.nextId := by
    rw [a9, b9, hr2, hs.nextId]
  have hmerged : ∀ m, (runFactory g1 (push a n) f).1.instances m = none →
      mergedFactories (runFactory g2 (push b n) f).1 m = mergedFactories (runFactory g1 (push a n) f).1 m := by
    intro m hm
    rw [a2] at hm
    rw [mergedFactories_congr (m := m) (congrFun b3 m) (congrFun b4 m),
      mergedFactories_congr (m := m) (congrFun a3 m) (congrFun a4 m)]
    exact hs.facs m hm
  have hstack : (construct g2 b n f db).1.callstack = (construct g1 a n f da).1.callstack := by
    rw [c4, d4, a5, b5, hs.callstack, hab.callstack]
  rw [hres] at d5
  cases hr : (runFactory g1 (push a n) f).2 with
  | inst i =>
    rw [hr] at c5 d5
    simp only at c5 d5
    obtain ⟨c51, c52, c53, c54⟩ := c5
    obtain ⟨d51, d52, d53, d54⟩ := d5
    refine ⟨⟨by rw [c1, a1]; exact hs.ablocked, by rw [d1, b1]; exact hs.bblocked, ?_, ?_, hstack,
      by rw [c2, d2, a6, b6]; exact hs.injectors, by rw [c3, d3, hnext], ?_⟩, by rw [c51, d51]⟩
    · rw [c52, d52, a2, b2, hs.instances]
    · intro m hm
      rw [c52] at hm
      have hne : m ≠ n := by intro e; subst e; simp at hm
      rw [Tab.set_ne _ _ hne] at hm
      rw [mergedFactories_congr (d54 m hne).1 (d54 m hne).2, mergedFactories_congr (c54 m hne).1 (c54 m hne).2]
      exact hmerged m hm
    · rw [c53, d53, a7, b7, hs.log]
  | nilInst =>
    rw [hr] at c5 d5
    simp only at c5 d5
    obtain ⟨c51, c52, c53, c54, c55⟩ := c5
    obtain ⟨d51, d52, d53, d54, d55⟩ := d5
    refine ⟨⟨by rw [c1, a1]; exact hs.ablocked, by rw [d1, b1]; exact hs.bblocked, ?_, ?_, hstack,
      by rw [c2, d2, a6, b6]; exact hs.injectors, by rw [c3, d3, hnext], ?_⟩, by rw [c51, d51]⟩
    · rw [c52, d52, a2, b2, hs.instances]
    · intro m hm
      rw [c52] at hm
      rw [mergedFactories_congr (congrFun d54 m) (congrFun d55 m),
        mergedFactories_congr (congrFun c54 m) (congrFun c55 m)]
      exact hmerged m hm
    · rw [c53, d53, a7, b7, hs.log]
  | err =>
    rw [hr] at c5 d5
    simp only at c5 d5
    obtain ⟨c51, c52, c53, c54, c55⟩ := c5
    obtain ⟨d51, d52, d53, d54, d55⟩ := d5
    refine ⟨⟨by rw [c1, a1]; exact hs.ablocked, by rw [d1, b1]; exact hs.bblocked, ?_, ?_, hstack,
      by rw [c2, d2, a6, b6]; exact hs.injectors, by rw [c3, d3, hnext], ?_⟩, by rw [c51, d51]⟩
    · rw [c52, d52, a2, b2, hs.instances]
    · intro m hm
      rw [c52] at hm
      rw [mergedFactories_congr (congrFun d54 m) (congrFun d55 m),
        mergedFactories_congr (congrFun c54 m) (congrFun c55 m)]
      exact hmerged m hm
    · rw [c53, d53, a7, b7, hs.log]

theorem merged_keys {fuel : Nat} {s : St} (h : FuelOK fuel s) {n : Name} {f : Factory}
    (hm : mergedFactories s n = some f) : n ∈ s.keys := by
  unfold mergedFactories at hm
  cases hf : s.factories n with
  | some g => exact h.fac_keys n g hf
  | none =>
    rw [hf] at hm
    exact h.dfac_keys n f hm

/-- a provider and its static twin answer every `Get` alike, whatever (sufficient) fuel each has -/
theorem get_sim : ∀ (f1 f2 : Nat) (a b : St) (n : Name), Sim a b → FuelOK f1 a → FuelOK f2 b →
    Sim (get f1 a n).1 (get f2 b n).1 ∧ (get f1 a n).2 = (get f2 b n).2 := by
  intro f1
  induction f1 with
  | zero => intro _ _ _ _ _ hf _; exact absurd hf.pos (Nat.lt_irrefl 0)
  | succ f1 ih =>
    intro f2 a b n hab hfa hfb
    cases f2 with
    | zero => exact absurd hfb.pos (Nat.lt_irrefl 0)
    | succ f2 =>
      by_cases hc : n ∈ a.callstack
      · have hc' : n ∈ b.callstack := by rw [hab.callstack]; exact hc
        rw [get_succ, get_succ, block_of_blocked hab.ablocked, block_of_blocked hab.bblocked]
        simp only [hc, hc', ↓reduceIte]
        exact ⟨hab, trivial⟩
      · have hc' : n ∉ b.callstack := by rw [hab.callstack]; exact hc
        cases hi : a.instances n with
        | some i =>
          have hi' : b.instances n = some i := by rw [hab.instances]; exact hi
          rw [get_succ, get_succ, block_of_blocked hab.ablocked, block_of_blocked hab.bblocked]
          simp only [hc, hc', ↓reduceIte, hi, hi']
          exact ⟨hab, trivial⟩
        | none =>
          have hi' : b.instances n = none := by rw [hab.instances]; exact hi
          rw [get_succ_blocked f1 a n hab.ablocked hc hi, get_succ_blocked f2 b n hab.bblocked hc' hi',
            hab.facs n hi]
          cases hm : mergedFactories a n with
          | none => exact ⟨hab, rfl⟩
          | some f =>
            simp only
            have hg : GSim (fun x y => Sim x y ∧ FuelOK f1 x ∧ FuelOK f2 y) (get f1) (get f2) := by
              intro x y m ⟨h1, h2, h3⟩
              obtain ⟨r1, r2⟩ := ih f2 x y m h1 h2 h3
              exact ⟨⟨r1, get_fuelOK m h2, get_fuelOK m h3⟩, r2⟩
            refine construct_sim hg (fun _ _ h => h.1) f _ _ hab
              ⟨hab.push n, hfa.push hab.ablocked hc (merged_keys hfa hm),
                hfb.push hab.bblocked hc' (merged_keys hfb (by rw [hab.facs n hi]; exact hm))⟩

/-! ### histories -/

theorem fuelSim (s t : St) :
    GSim (fun x y => Sim x y ∧ FuelOK (fuelFor s) x ∧ FuelOK (fuelFor t) y) (get (fuelFor s)) (get (fuelFor t)) := by
  intro x y m ⟨h1, h2, h3⟩
  obtain ⟨r1, r2⟩ := get_sim _ _ x y m h1 h2 h3
  exact ⟨⟨r1, get_fuelOK m h2, get_fuelOK m h3⟩, r2⟩

/-- one call other than `Keys` -/
theorem step_sim {a b : St} (h : Sim a b) (ia : Inv a) (ib : Inv b) (o : Op) (hk : o.isKeys = false) :
    Sim (step a o).1 (step b o).1 ∧ (step a o).2 = (step b o).2 := by
  by_cases hdef : o.isDef = true
  · rw [step_def_blocked h.ablocked hdef, step_def_blocked h.bblocked hdef]
    exact ⟨h, rfl⟩
  · cases o with
    | get n =>
      obtain ⟨r1, r2⟩ := get_sim (fuelFor a) (fuelFor b) a b n h ia.fuelOK ib.fuelOK
      exact ⟨r1, by simp only [step, Get]; rw [r2]⟩
    | injectTo fs =>
      obtain ⟨r1, r2⟩ := injectAll_sim (fuelSim a b) (fun _ _ h => h.1.injectors) fs a b
        ⟨h, ia.fuelOK, ib.fuelOK⟩
      exact ⟨r1.1, by simp only [step, InjectTo]; rw [r2]⟩
    | keys => simp [Op.isKeys] at hk
    | injectBad => exact ⟨h, rfl⟩
    | _ => simp [Op.isDef] at hdef

theorem results_sim : ∀ (rs : List Op) (a b : St), Sim a b → Inv a → Inv b →
    (∀ o, o ∈ rs → o.isKeys = false) → results a rs = results b rs ∧ Sim (exec a rs) (exec b rs) := by
  intro rs
  induction rs with
  | nil => intro a b h _ _ _; exact ⟨rfl, h⟩
  | cons o rest ih =>
    intro a b h ia ib hk
    obtain ⟨s1, s2⟩ := step_sim h ia ib o (hk o (List.mem_cons_self ..))
    obtain ⟨r1, r2⟩ := ih _ _ s1 (inv_step ia o) (inv_step ib o)
      (fun o' ho' => hk o' (List.mem_cons_of_mem _ ho'))
    exact ⟨by simp only [results]; rw [s2, r1], r2⟩

/-! ### `toStatic` -/

theorem Inv.block {s : St} (h : Inv s) : Inv (block s) :=
  h.of_step (block_step h.pre) (by simp [h.notex])

theorem inv_toStatic {s : St} (h : Inv s) (order : List Name)
    (hord : ∀ n, mergedFactories (block s) n ≠ none → n ∈ order) : Inv (toStatic s order) := by
  have hb := h.block
  exact
    { stack := rfl
      fac_keys := by
        intro n f hf
        have hf' : mergedFactories (block s) n = some f := hf
        show n ∈ order.filter fun k => (mergedFactories (block s) k).isSome
        exact List.mem_filter.2 ⟨hord n (by rw [hf']; simp), by rw [hf']; rfl⟩
      dfac_keys := fun _ _ hf => nomatch hf
      notex := hb.notex
      norerun := hb.norerun
      done_inst := hb.done_inst
      nodup := hb.nodup
      fresh_log := fun hbl => nomatch hbl }

theorem sim_toStatic {s : St} (h : Inv s) (order : List Name) : Sim (block s) (toStatic s order) where
  ablocked := block_blocked s
  bblocked := rfl
  instances := rfl
  facs := by
    intro n _
    show orElse (mergedFactories (block s) n) none = mergedFactories (block s) n
    simp
  callstack := by
    show [] = (block s).callstack
    rw [block_callstack, h.stack]
  injectors := rfl
  nextId := rfl
  log := rfl

end Goat.DI
