/-
C10 helper lemmas, part 2: every `Get` is a `Step` (`get_step`), and what a successful one leaves
behind (`get_inst`).
-/
import Goat.Proofs.DIBasic

namespace Goat.DI

@[simp] theorem push_blocked (s : St) (n : Name) : (push s n).blocked = s.blocked := rfl
@[simp] theorem push_callstack (s : St) (n : Name) : (push s n).callstack = s.callstack ++ [n] := rfl
@[simp] theorem push_keys (s : St) (n : Name) : (push s n).keys = s.keys := rfl
@[simp] theorem push_instances (s : St) (n : Name) : (push s n).instances = s.instances := rfl
@[simp] theorem push_factories (s : St) (n : Name) : (push s n).factories = s.factories := rfl
@[simp] theorem push_defaultFactories (s : St) (n : Name) :
    (push s n).defaultFactories = s.defaultFactories := rfl
@[simp] theorem push_autoclean (s : St) (n : Name) : (push s n).autoclean = s.autoclean := rfl
@[simp] theorem push_injectors (s : St) (n : Name) : (push s n).injectors = s.injectors := rfl
@[simp] theorem push_nextId (s : St) (n : Name) : (push s n).nextId = s.nextId := rfl
@[simp] theorem push_log (s : St) (n : Name) : (push s n).log = s.log ++ [.start n] := rfl
@[simp] theorem push_exhausted (s : St) (n : Name) : (push s n).exhausted = s.exhausted := rfl

/-- `Step` and `LogOK` only look at these fields of the target state -/
theorem Step.congr {s a b : St} (h : Step s a) (h1 : b.callstack = a.callstack) (h2 : b.keys = a.keys)
    (h3 : b.blocked = a.blocked) (h4 : b.autoclean = a.autoclean) (h5 : b.instances = a.instances)
    (h6 : b.factories = a.factories) (h7 : b.defaultFactories = a.defaultFactories)
    (h8 : b.log = a.log) (h9 : b.injectors = a.injectors) : Step s b := by
  obtain ⟨d, hd, l⟩ := h.log
  exact
    { callstack := h1 ▸ h.callstack, keys := h2 ▸ h.keys, blocked := h3 ▸ h.blocked,
      autoclean := h4 ▸ h.autoclean, injectors := h9 ▸ h.injectors, inst_mono := h5 ▸ h.inst_mono,
      tabs := by rw [h5, h6, h7]; exact h.tabs, fac_sub := h6 ▸ h.fac_sub, dfac_sub := h7 ▸ h.dfac_sub,
      stack_inst := h5 ▸ h.stack_inst,
      log := ⟨d, h8 ▸ hd, ⟨l.no_start, h5 ▸ l.done_inst, l.norerun, l.nodup⟩⟩ }

theorem take_pushed {s s2 : St} {n : Name} (h : s2.callstack = (push s n).callstack) :
    s2.callstack.take s.callstack.length = s.callstack := by
  rw [h]; simp

/-- leaving a factory that did not deliver -/
theorem bracket_fail {s s2 : St} {n : Name} (hi : s.instances n = none)
    (h : Step (push s n) s2) :
    Step s { s2 with callstack := s2.callstack.take s.callstack.length } := by
  obtain ⟨d, hd, l⟩ := h.log
  refine
    { callstack := take_pushed h.callstack, keys := h.keys, blocked := h.blocked,
      autoclean := h.autoclean, injectors := h.injectors, inst_mono := h.inst_mono, tabs := h.tabs,
      fac_sub := h.fac_sub,
      dfac_sub := h.dfac_sub, stack_inst := ?_, log := ?_ }
  · intro m hm
    exact h.stack_inst m (by simp [hm])
  · refine ⟨Ev.start n :: d, by simp [hd], ?_⟩
    constructor
    · intro m hm hmem
      rcases List.mem_cons.1 hmem with he | he
      · injection he with he; subst he; exact hm hi
      · exact l.no_start m hm he
    · intro m i hmem
      rcases List.mem_cons.1 hmem with he | he
      · cases he
      · exact l.done_inst m i he
    · exact l.norerun
    · exact l.nodup

/-- leaving a factory that delivered `i`: `F`/`D` are the tables after the clean-up -/
theorem bracket_ok {s s2 : St} {n : Name} {i : Inst} {F D : Tab Factory} (hi : s.instances n = none)
    (hn : n ∉ s.callstack) (h : Step (push s n) s2)
    (hF : ∀ m, m ≠ n → F m = s2.factories m) (hF' : ∀ m f, F m = some f → s2.factories m = some f)
    (hD : ∀ m, m ≠ n → D m = s2.defaultFactories m)
    (hD' : ∀ m f, D m = some f → s2.defaultFactories m = some f) :
    Step s { s2 with callstack := s2.callstack.take s.callstack.length, factories := F,
                     defaultFactories := D, instances := s2.instances.set n i,
                     log := s2.log ++ [.done n i] } := by
  obtain ⟨d, hd, l⟩ := h.log
  have hs2n : s2.instances n = none := by
    rw [h.stack_inst n (by simp)]; exact hi
  refine
    { callstack := take_pushed h.callstack, keys := h.keys, blocked := h.blocked,
      autoclean := h.autoclean, injectors := h.injectors, inst_mono := ?_, tabs := ?_, fac_sub := ?_,
      dfac_sub := ?_, stack_inst := ?_, log := ?_ }
  · intro m j hm
    have hne : m ≠ n := by intro e; subst e; rw [hi] at hm; cases hm
    show s2.instances.set n i m = some j
    rw [Tab.set_ne _ _ hne]; exact h.inst_mono m j hm
  · intro m hm
    have hne : m ≠ n := by
      intro e; subst e
      have : s2.instances.set m i m = none := hm
      simp at this
    have hm2 : s2.instances m = none := by
      have : s2.instances.set n i m = none := hm
      rwa [Tab.set_ne _ _ hne] at this
    have t := h.tabs m hm2
    exact ⟨(hF m hne).trans t.1, (hD m hne).trans t.2⟩
  · intro m f hm
    exact h.fac_sub m f (hF' m f hm)
  · intro m f hm
    exact h.dfac_sub m f (hD' m f hm)
  · intro m hm
    have hne : m ≠ n := by intro e; subst e; exact hn hm
    show s2.instances.set n i m = s.instances m
    rw [Tab.set_ne _ _ hne]
    exact h.stack_inst m (by simp [hm])
  · refine ⟨Ev.start n :: (d ++ [Ev.done n i]), by simp [hd], ?_⟩
    constructor
    · intro m hm hmem
      have hne : m ≠ n := by intro e; subst e; exact hm hi
      rcases List.mem_cons.1 hmem with he | he
      · injection he with he; exact hne he
      · rcases List.mem_append.1 he with he | he
        · exact l.no_start m hm he
        · simp at he
    · intro m j hmem
      rcases List.mem_cons.1 hmem with he | he
      · cases he
      · rcases List.mem_append.1 he with he | he
        · have := l.done_inst m j he
          have hne : m ≠ n := by
            intro e; subst e; rw [hs2n] at this; cases this.2
          refine ⟨this.1, ?_⟩
          show s2.instances.set n i m = some j
          rw [Tab.set_ne _ _ hne]; exact this.2
        · simp at he
          obtain ⟨e1, e2⟩ := he
          subst e1; subst e2
          exact ⟨hi, by show s2.instances.set m j m = some j; simp⟩
    · show NoRerun (d ++ [Ev.done n i])
      refine noRerun_append.2 ⟨l.norerun, ⟨by simp, trivial⟩, ?_⟩
      intro m j _
      simp
    · show (successes (d ++ [Ev.done n i])).Nodup
      rw [successes_append]
      refine List.nodup_append.2 ⟨l.nodup, by simp [successes], ?_⟩
      intro x hx y hy hxy
      subst hxy
      simp [successes] at hy
      subst hy
      obtain ⟨j, hj⟩ := mem_successes.1 hx
      have := (l.done_inst x j hj).2
      rw [hs2n] at this; cases this

theorem runFactory_step {g : St → Name → St × Res}
    (hg : ∀ s n, s.blocked = true → Step s (g s n).1) (s : St) (f : Factory)
    (hb : s.blocked = true) : Step s (runFactory g s f).1 := by
  have h1 : Step s (runDeps g s f.deps).1 :=
    runDeps_rel (P := fun s => s.blocked = true) (fun s h => Step.refl h)
      (fun _ _ _ => Step.trans) (fun s n h => ⟨(hg s n h).blocked, hg s n h⟩) f.deps s hb
  unfold runFactory
  cases hr : runDeps g s f.deps with
  | mk s1 e =>
    rw [hr] at h1
    cases e with
    | some e => exact h1
    | none =>
      cases f.out with
      | fail => exact h1
      | nilInst => exact h1
      | ok =>
        exact h1.congr rfl rfl rfl rfl rfl rfl rfl rfl rfl

theorem construct_step {g : St → Name → St × Res}
    (hg : ∀ s n, s.blocked = true → Step s (g s n).1) {s : St} {n : Name} (f : Factory)
    (dflt : Bool) (hb : s.blocked = true) (hn : n ∉ s.callstack) (hi : s.instances n = none) :
    Step s (construct g s n f dflt).1 := by
  have h2 : Step (push s n) (runFactory g (push s n) f).1 := runFactory_step hg _ f hb
  simp only [construct]
  cases hr : runFactory g (push s n) f with
  | mk s2 r =>
    rw [hr] at h2
    cases r with
    | err => exact bracket_fail hi h2
    | nilInst => exact bracket_fail hi h2
    | inst i =>
      cases dflt <;> cases hac : s2.autoclean
      · refine (bracket_ok (i := i) (F := s2.factories) (D := s2.defaultFactories) hi hn h2
          (fun _ _ => rfl) (fun _ _ h => h) (fun _ _ => rfl) (fun _ _ h => h)).congr
          ?_ ?_ ?_ ?_ ?_ ?_ ?_ ?_ ?_ <;> simp [clean, hac]
      · refine (bracket_ok (i := i) (F := s2.factories.del n) (D := s2.defaultFactories.del n) hi hn h2
          (fun _ h => Tab.del_ne _ h) (fun _ _ h => Tab.del_some h)
          (fun _ h => Tab.del_ne _ h) (fun _ _ h => Tab.del_some h)).congr
          ?_ ?_ ?_ ?_ ?_ ?_ ?_ ?_ ?_ <;> simp [clean, hac]
      · refine (bracket_ok (i := i) (F := s2.factories) (D := s2.defaultFactories) hi hn h2
          (fun _ _ => rfl) (fun _ _ h => h) (fun _ _ => rfl) (fun _ _ h => h)).congr
          ?_ ?_ ?_ ?_ ?_ ?_ ?_ ?_ ?_ <;> simp [hac]
      · refine (bracket_ok (i := i) (F := s2.factories) (D := s2.defaultFactories.del n) hi hn h2
          (fun _ _ => rfl) (fun _ _ h => h)
          (fun _ h => Tab.del_ne _ h) (fun _ _ h => Tab.del_some h)).congr
          ?_ ?_ ?_ ?_ ?_ ?_ ?_ ?_ ?_ <;> simp [hac]

/-- the state `Get` works on is blocked or idle -/
def Pre (s : St) : Prop := s.blocked = true ∨ s.callstack = []

/-- every `Get`, whatever its fuel and its outcome, is a `Step` -/
theorem get_step : ∀ (fuel : Nat) (s : St) (n : Name), Pre s → Step s (get fuel s n).1 := by
  intro fuel
  induction fuel with
  | zero =>
    intro s n hp
    have h := block_step hp
    -- running out of fuel only sets the ghost flag
    exact h.congr rfl rfl rfl rfl rfl rfl rfl rfl rfl
  | succ fuel ih =>
    intro s0 n hp
    have h0 := block_step hp
    have hb : (block s0).blocked = true := block_blocked s0
    have hg : ∀ s n, s.blocked = true → Step s (get fuel s n).1 := fun s n h => ih s n (Or.inl h)
    refine Step.trans h0 ?_
    unfold get
    simp only
    split
    · exact Step.refl hb
    · rename_i hn
      split
      · exact Step.refl hb
      · rename_i hi
        split
        · exact construct_step hg _ false hb hn hi
        · split
          · exact construct_step hg _ true hb hn hi
          · exact Step.refl hb

end Goat.DI
