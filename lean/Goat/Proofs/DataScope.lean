/-
Proofs/DataScope — lemmas about the sequential part of `Goat/Model/DataScope.lean`
(maps, heap updates, the `Value` walk and its fuel, frames).  Core Lean only.
-/
import Goat.Model.DataScope

namespace Goat.DataScope

/-! ### maps -/

theorem mget_mset_same (m : Map) (k : Key) (v : Val) : mget (mset m k v) k = some v := by
  induction m with
  | nil => simp [mset, mget]
  | cons kv rest ih =>
    obtain ⟨k', v'⟩ := kv
    by_cases h : k' = k
    · simp [mset, mget, h]
    · simp [mset, mget, h, ih]

theorem mget_mset_other (m : Map) (k k' : Key) (v : Val) (h : k' ≠ k) :
    mget (mset m k v) k' = mget m k' := by
  induction m with
  | nil => simp [mset, mget, Ne.symm h]
  | cons kv rest ih =>
    obtain ⟨k0, v0⟩ := kv
    by_cases h0 : k0 = k
    · subst h0
      simp [mset, mget, Ne.symm h]
    · by_cases h1 : k0 = k'
      · subst h1
        simp [mset, mget, h0]
      · simp [mset, mget, h0, h1, ih]

/-! ### heap updates -/

theorem dataSet_getElem?_ne {ss : Scopes} {s j : Nat} (k : Key) (v : Val) (h : j ≠ s) :
    (dataSet ss s k v)[j]? = ss[j]? := by
  unfold dataSet
  cases hs : ss[s]? with
  | none => rfl
  | some sc => simp [List.getElem?_set_ne (Ne.symm h)]

theorem dataSet_getElem?_self {ss : Scopes} {s : Nat} {sc : Scope} (k : Key) (v : Val) (hs : ss[s]? = some sc) :
    (dataSet ss s k v)[s]? = some { sc with data := mset sc.data k v } := by
  have hlt : s < ss.length := by
    rcases List.getElem?_eq_some_iff.mp hs with ⟨h, _⟩; exact h
  simp [dataSet, hs, List.getElem?_set_self hlt]

theorem dataSet_none {ss : Scopes} {s : Nat} (k : Key) (v : Val) (hs : ss[s]? = none) : dataSet ss s k v = ss := by
  simp [dataSet, hs]

theorem dataSet_length (ss : Scopes) (s : Nat) (k : Key) (v : Val) : (dataSet ss s k v).length = ss.length := by
  unfold dataSet
  cases ss[s]? <;> simp

theorem setHeld_getElem?_ne {ss : Scopes} {s j : Nat} (b : Bool) (h : j ≠ s) : (setHeld ss s b)[j]? = ss[j]? := by
  unfold setHeld
  cases hs : ss[s]? with
  | none => rfl
  | some sc => simp [List.getElem?_set_ne (Ne.symm h)]

theorem setHeld_getElem?_self {ss : Scopes} {s : Nat} {sc : Scope} (b : Bool) (hs : ss[s]? = some sc) :
    (setHeld ss s b)[s]? = some { sc with held := b } := by
  have hlt : s < ss.length := by
    rcases List.getElem?_eq_some_iff.mp hs with ⟨h, _⟩; exact h
  simp [setHeld, hs, List.getElem?_set_self hlt]

theorem setHeld_none {ss : Scopes} {s : Nat} (b : Bool) (hs : ss[s]? = none) : setHeld ss s b = ss := by
  simp [setHeld, hs]

theorem setHeld_length (ss : Scopes) (s : Nat) (b : Bool) : (setHeld ss s b).length = ss.length := by
  unfold setHeld
  cases ss[s]? <;> simp

/-- a write changes neither parents nor lock flags -/
theorem parentOf_dataSet (ss : Scopes) (s j : Nat) (k : Key) (v : Val) :
    parentOf (dataSet ss s k v) j = parentOf ss j := by
  by_cases h : j = s
  · subst h
    cases hs : ss[j]? with
    | none => simp [dataSet_none k v hs]
    | some sc => simp [parentOf, dataSet_getElem?_self k v hs, hs]
  · simp [parentOf, dataSet_getElem?_ne k v h]

theorem isHeld_dataSet (ss : Scopes) (s j : Nat) (k : Key) (v : Val) :
    isHeld (dataSet ss s k v) j = isHeld ss j := by
  by_cases h : j = s
  · subst h
    cases hs : ss[j]? with
    | none => simp [dataSet_none k v hs]
    | some sc => simp [isHeld, dataSet_getElem?_self k v hs, hs]
  · simp [isHeld, dataSet_getElem?_ne k v h]

theorem isFree_dataSet (ss : Scopes) (s j : Nat) (k : Key) (v : Val) :
    isFree (dataSet ss s k v) j = isFree ss j := by
  by_cases h : j = s
  · subst h
    cases hs : ss[j]? with
    | none => simp [dataSet_none k v hs]
    | some sc => simp [isFree, dataSet_getElem?_self k v hs, hs]
  · simp [isFree, dataSet_getElem?_ne k v h]

theorem parentOf_setHeld (ss : Scopes) (s j : Nat) (b : Bool) : parentOf (setHeld ss s b) j = parentOf ss j := by
  by_cases h : j = s
  · subst h
    cases hs : ss[j]? with
    | none => simp [setHeld_none b hs]
    | some sc => simp [parentOf, setHeld_getElem?_self b hs, hs]
  · simp [parentOf, setHeld_getElem?_ne b h]

theorem dataGet_setHeld (ss : Scopes) (s j : Nat) (b : Bool) (k : Key) :
    dataGet (setHeld ss s b) j k = dataGet ss j k := by
  by_cases h : j = s
  · subst h
    cases hs : ss[j]? with
    | none => simp [setHeld_none b hs]
    | some sc => simp [dataGet, setHeld_getElem?_self b hs, hs]
  · simp [dataGet, setHeld_getElem?_ne b h]

theorem dataKeys_setHeld (ss : Scopes) (s j : Nat) (b : Bool) : dataKeys (setHeld ss s b) j = dataKeys ss j := by
  by_cases h : j = s
  · subst h
    cases hs : ss[j]? with
    | none => simp [setHeld_none b hs]
    | some sc => simp [dataKeys, setHeld_getElem?_self b hs, hs]
  · simp [dataKeys, setHeld_getElem?_ne b h]

theorem isHeld_setHeld_self {ss : Scopes} {s : Nat} (b : Bool) (h : s < ss.length) : isHeld (setHeld ss s b) s = b := by
  have : ∃ sc, ss[s]? = some sc := ⟨ss[s], by simp [h]⟩
  rcases this with ⟨sc, hs⟩
  simp [isHeld, setHeld_getElem?_self b hs]

theorem isHeld_setHeld_ne {ss : Scopes} {s j : Nat} (b : Bool) (h : j ≠ s) : isHeld (setHeld ss s b) j = isHeld ss j := by
  simp [isHeld, setHeld_getElem?_ne b h]

theorem isFree_setHeld_ne {ss : Scopes} {s j : Nat} (b : Bool) (h : j ≠ s) : isFree (setHeld ss s b) j = isFree ss j := by
  simp [isFree, setHeld_getElem?_ne b h]

theorem isFree_lt {ss : Scopes} {s : Nat} (h : isFree ss s = true) : s < ss.length := by
  unfold isFree at h
  cases hs : ss[s]? with
  | none => simp [hs] at h
  | some sc => rcases List.getElem?_eq_some_iff.mp hs with ⟨h', _⟩; exact h'

theorem isHeld_lt {ss : Scopes} {s : Nat} (h : isHeld ss s = true) : s < ss.length := by
  unfold isHeld at h
  cases hs : ss[s]? with
  | none => simp [hs] at h
  | some sc => rcases List.getElem?_eq_some_iff.mp hs with ⟨h', _⟩; exact h'

/-- a mutex is not both free and write-held -/
theorem isFree_isHeld {ss : Scopes} {s : Nat} (hf : isFree ss s = true) (hh : isHeld ss s = true) : False := by
  unfold isFree at hf
  unfold isHeld at hh
  cases hs : ss[s]? with
  | none => simp [hs] at hf
  | some sc => simp [hs] at hf hh; simp [hf] at hh

theorem dataGet_dataSet_same {ss : Scopes} {s : Nat} (k : Key) (v : Val) (h : s < ss.length) :
    dataGet (dataSet ss s k v) s k = some v := by
  have : ∃ sc, ss[s]? = some sc := ⟨ss[s], by simp [h]⟩
  rcases this with ⟨sc, hs⟩
  simp [dataGet, dataSet_getElem?_self k v hs, mget_mset_same]

theorem dataGet_dataSet_other (ss : Scopes) (s j : Nat) (k k' : Key) (v : Val) (h : j ≠ s ∨ k' ≠ k) :
    dataGet (dataSet ss s k v) j k' = dataGet ss j k' := by
  by_cases hj : j = s
  · subst hj
    have hk : k' ≠ k := by
      rcases h with h | h
      · exact absurd rfl h
      · exact h
    cases hs : ss[j]? with
    | none => simp [dataSet_none k v hs]
    | some sc => simp [dataGet, dataSet_getElem?_self k v hs, hs, mget_mset_other _ _ _ _ hk]
  · simp [dataGet, dataSet_getElem?_ne k v hj]

theorem readLevel_dataSet_other (ss : Scopes) (s j : Nat) (k k' : Key) (v : Val) (h : j ≠ s ∨ k' ≠ k) :
    readLevel (dataSet ss s k v) j k' = readLevel ss j k' := by
  simp [readLevel, dataGet_dataSet_other ss s j k k' v h, parentOf_dataSet]

theorem readLevel_setHeld (ss : Scopes) (s j : Nat) (b : Bool) (k : Key) :
    readLevel (setHeld ss s b) j k = readLevel ss j k := by
  simp [readLevel, dataGet_setHeld, parentOf_setHeld]

/-! ### well-formed heaps -/

theorem WF_dataSet {ss : Scopes} (h : WF ss) (s : Nat) (k : Key) (v : Val) : WF (dataSet ss s k v) := by
  intro i sc hi p hp
  by_cases his : i = s
  · subst his
    cases hs : ss[i]? with
    | none => rw [dataSet_none k v hs] at hi; exact h i sc hi p hp
    | some sc0 =>
      rw [dataSet_getElem?_self k v hs] at hi
      have : sc = { sc0 with data := mset sc0.data k v } := by simpa using hi.symm
      subst this
      exact h i sc0 hs p hp
  · rw [dataSet_getElem?_ne k v his] at hi
    exact h i sc hi p hp

theorem WF_setHeld {ss : Scopes} (h : WF ss) (s : Nat) (b : Bool) : WF (setHeld ss s b) := by
  intro i sc hi p hp
  by_cases his : i = s
  · subst his
    cases hs : ss[i]? with
    | none => rw [setHeld_none b hs] at hi; exact h i sc hi p hp
    | some sc0 =>
      rw [setHeld_getElem?_self b hs] at hi
      have : sc = { sc0 with held := b } := by simpa using hi.symm
      subst this
      exact h i sc0 hs p hp
  · rw [setHeld_getElem?_ne b his] at hi
    exact h i sc hi p hp

theorem WF_nil : WF [] := by
  intro i sc hi; simp at hi

theorem WF_newRoot {ss : Scopes} (h : WF ss) (m : Map) : WF (newRoot ss m) := by
  intro i sc hi p hp
  unfold newRoot at hi
  rw [List.getElem?_append] at hi
  split at hi
  · exact h i sc hi p hp
  · rename_i hge
    have : i - ss.length = 0 ∨ 0 < i - ss.length := Nat.eq_zero_or_pos _
    rcases this with h0 | h0
    · simp [h0] at hi; subst hi; simp at hp
    · have : ([{ parent := none, data := m, held := false }] : Scopes)[i - ss.length]? = none := by
        apply List.getElem?_eq_none; simp; omega
      rw [this] at hi; cases hi

theorem WF_newChild {ss : Scopes} (h : WF ss) (p0 : Nat) (hp0 : p0 < ss.length) (m : Map) : WF (newChild ss p0 m) := by
  intro i sc hi p hp
  unfold newChild at hi
  rw [List.getElem?_append] at hi
  split at hi
  · exact h i sc hi p hp
  · rename_i hge
    have : i - ss.length = 0 ∨ 0 < i - ss.length := Nat.eq_zero_or_pos _
    rcases this with h0 | h0
    · simp [h0] at hi; subst hi; simp at hp; omega
    · have : ([{ parent := some p0, data := m, held := false }] : Scopes)[i - ss.length]? = none := by
        apply List.getElem?_eq_none; simp; omega
      rw [this] at hi; cases hi

theorem parentOf_lt {ss : Scopes} (h : WF ss) {s p : Nat} (hp : parentOf ss s = some p) : p < s := by
  unfold parentOf at hp
  cases hs : ss[s]? with
  | none => simp [hs] at hp
  | some sc => simp [hs] at hp; exact h s sc hs p hp

theorem readLevel_up_lt {ss : Scopes} (h : WF ss) {s p : Nat} {k : Key} (hr : readLevel ss s k = .up p) : p < s := by
  unfold readLevel at hr
  cases hd : dataGet ss s k with
  | some v => simp [hd] at hr
  | none =>
    simp [hd] at hr
    cases hp : parentOf ss s with
    | none => simp [hp] at hr
    | some q => simp [hp] at hr; subst hr; exact parentOf_lt h hp

/-! ### the walk and its fuel -/

theorem valueF_fuel {ss : Scopes} (h : WF ss) (k : Key) :
    ∀ (f f' s : Nat), s < f → s < f' → valueF ss f s k = valueF ss f' s k := by
  intro f
  induction f with
  | zero => intro f' s hs; omega
  | succ f ih =>
    intro f' s hs hs'
    cases f' with
    | zero => omega
    | succ f' =>
      simp only [valueF]
      cases hr : readLevel ss s k with
      | hit v => rfl
      | bottom => rfl
      | up p =>
        have := readLevel_up_lt h hr
        exact ih f' p (by omega) (by omega)

/-- `Value` unfolded by one level -/
theorem value_unfold {ss : Scopes} (h : WF ss) (s : Nat) (k : Key) :
    value ss s k =
      match readLevel ss s k with
      | .hit v => v
      | .up p => value ss p k
      | .bottom => none := by
  unfold value
  simp only [valueF]
  cases hr : readLevel ss s k with
  | hit v => rfl
  | bottom => rfl
  | up p =>
    have := readLevel_up_lt h hr
    exact valueF_fuel h k s (p + 1) p this (by omega)

theorem valueF_eq_value {ss : Scopes} (h : WF ss) (k : Key) (f s : Nat) (hs : s < f) : valueF ss f s k = value ss s k :=
  valueF_fuel h k f (s + 1) s hs (by omega)

theorem readLevel_of_scope {ss : Scopes} {s : Nat} {sc : Scope} (hs : ss[s]? = some sc) (k : Key) :
    readLevel ss s k =
      match mget sc.data k with
      | some v => .hit v
      | none => match sc.parent with
        | some p => .up p
        | none => .bottom := by
  simp only [readLevel, dataGet, parentOf, hs]
  cases mget sc.data k <;> cases sc.parent <;> rfl

/-- writes to another key are invisible -/
theorem valueF_dataSet_other_key (ss : Scopes) (s : Nat) (k k' : Key) (v : Val) (hk : k' ≠ k) :
    ∀ f j, valueF (dataSet ss s k v) f j k' = valueF ss f j k' := by
  intro f
  induction f with
  | zero => intro j; rfl
  | succ f ih =>
    intro j
    simp only [valueF, readLevel_dataSet_other ss s j k k' v (Or.inr hk)]
    cases readLevel ss j k' with
    | hit v => rfl
    | bottom => rfl
    | up p => exact ih p

theorem value_dataSet_other_key (ss : Scopes) (s j : Nat) (k k' : Key) (v : Val) (hk : k' ≠ k) :
    value (dataSet ss s k v) j k' = value ss j k' :=
  valueF_dataSet_other_key ss s k k' v hk _ _

theorem valueF_setHeld (ss : Scopes) (s : Nat) (b : Bool) (k : Key) :
    ∀ f j, valueF (setHeld ss s b) f j k = valueF ss f j k := by
  intro f
  induction f with
  | zero => intro j; rfl
  | succ f ih =>
    intro j
    simp only [valueF, readLevel_setHeld]
    cases readLevel ss j k with
    | hit v => rfl
    | bottom => rfl
    | up p => exact ih p

theorem value_setHeld (ss : Scopes) (s j : Nat) (b : Bool) (k : Key) : value (setHeld ss s b) j k = value ss j k :=
  valueF_setHeld ss s b k _ _

/-! ### ancestors and the general frame -/

theorem ancF_succ (ss : Scopes) (f j : Nat) :
    ancF ss (f + 1) j = j :: (match parentOf ss j with | some p => ancF ss f p | none => []) := rfl

theorem ancF_le {ss : Scopes} (h : WF ss) : ∀ f j x, x ∈ ancF ss f j → x ≤ j := by
  intro f
  induction f with
  | zero => intro j x hx; simp [ancF] at hx
  | succ f ih =>
    intro j x hx
    rw [ancF_succ] at hx
    rcases List.mem_cons.mp hx with hx | hx
    · omega
    · cases hp : parentOf ss j with
      | none => simp [hp] at hx
      | some p =>
        simp [hp] at hx
        have := ih p x hx
        have := parentOf_lt h hp
        omega

theorem anc_le {ss : Scopes} (h : WF ss) {j x : Nat} (hx : x ∈ anc ss j) : x ≤ j := ancF_le h _ _ _ hx

/-- a write to `s` is invisible from every scope whose chain does not contain `s` -/
theorem valueF_dataSet_frame (ss : Scopes) (s : Nat) (k k' : Key) (v : Val) :
    ∀ f j, s ∉ ancF ss f j → valueF (dataSet ss s k v) f j k' = valueF ss f j k' := by
  intro f
  induction f with
  | zero => intro j _; rfl
  | succ f ih =>
    intro j hj
    rw [ancF_succ] at hj
    have hne : j ≠ s := fun e => hj (by simp [e])
    simp only [valueF, readLevel_dataSet_other ss s j k k' v (Or.inl hne)]
    cases hr : readLevel ss j k' with
    | hit v => rfl
    | bottom => rfl
    | up p =>
      apply ih p
      intro hp
      apply hj
      have : parentOf ss j = some p := by
        unfold readLevel at hr
        cases hd : dataGet ss j k' with
        | some v => simp [hd] at hr
        | none =>
          simp [hd] at hr
          cases hq : parentOf ss j with
          | none => simp [hq] at hr
          | some q => simp [hq] at hr; simp [hr]
      simp [this, hp]

theorem value_dataSet_frame (ss : Scopes) (s j : Nat) (k k' : Key) (v : Val) (h : s ∉ anc ss j) :
    value (dataSet ss s k v) j k' = value ss j k' :=
  valueF_dataSet_frame ss s k k' v _ _ h

theorem value_dataSet_lt {ss : Scopes} (h : WF ss) (s j : Nat) (k k' : Key) (v : Val) (hj : j < s) :
    value (dataSet ss s k v) j k' = value ss j k' := by
  apply value_dataSet_frame
  intro hs
  have := anc_le h hs
  omega

theorem value_dataSet_same {ss : Scopes} (h : WF ss) (s : Nat) (k : Key) (v : Val) (hs : s < ss.length) :
    value (dataSet ss s k v) s k = v := by
  rw [value_unfold (WF_dataSet h s k v)]
  simp [readLevel, dataGet_dataSet_same k v hs]

/-! ### the chain view -/

theorem chainF_fuel {ss : Scopes} (h : WF ss) :
    ∀ (f f' s : Nat), s < f → s < f' → chainF ss f s = chainF ss f' s := by
  intro f
  induction f with
  | zero => intro f' s hs; omega
  | succ f ih =>
    intro f' s hs hs'
    cases f' with
    | zero => omega
    | succ f' =>
      simp only [chainF]
      cases hsc : ss[s]? with
      | none => rfl
      | some sc =>
        cases hp : sc.parent with
        | none => simp [hp]
        | some p =>
          have := h s sc hsc p hp
          simp only [hp]
          rw [ih f' p (by omega) (by omega)]

theorem valueF_eq_firstHit {ss : Scopes} :
    ∀ (f s : Nat) (k : Key), valueF ss f s k = firstHit (chainF ss f s) k := by
  intro f
  induction f with
  | zero => intro s k; rfl
  | succ f ih =>
    intro s k
    simp only [valueF, chainF]
    cases hsc : ss[s]? with
    | none => simp [readLevel, dataGet, parentOf, hsc, firstHit]
    | some sc =>
      rw [readLevel_of_scope hsc]
      cases hm : mget sc.data k with
      | some v => cases hp : sc.parent <;> simp [firstHit, hm, hp]
      | none =>
        cases hp : sc.parent with
        | none => simp [firstHit, hm, hp]
        | some p => simp [firstHit, hm, hp, ih p k]

/-! ### the request interpreter on an unlocked heap is the sequential reading -/

def AllFree (ss : Scopes) : Prop := ∀ (i : Nat) (sc : Scope), ss[i]? = some sc → sc.held = false

theorem runTask_walk {st : Store} (hwf : WF st.scopes) (hfree : AllFree st.scopes) (k : Key) :
    ∀ (f s : Nat), s < f → s < st.scopes.length →
      runTask f st (.walk s k) = (st, .inl (.val (valueF st.scopes f s k))) := by
  intro f
  induction f with
  | zero => intro s hs; omega
  | succ f ih =>
    intro s hs hlen
    have : ∃ sc, st.scopes[s]? = some sc := ⟨st.scopes[s], by simp [hlen]⟩
    rcases this with ⟨sc, hsc⟩
    have hheld := hfree s sc hsc
    simp only [runTask, stepTask, walkTask, hsc, hheld, valueF]
    cases hr : readLevel st.scopes s k with
    | hit v => simp
    | bottom => simp
    | up p =>
      have hlt := readLevel_up_lt hwf hr
      simp
      exact ih p (by omega) (by omega)

theorem runTask_get {st : Store} (hwf : WF st.scopes) (hfree : AllFree st.scopes) (k : Key)
    (f s : Nat) (hs : s < f + 1) (hlen : s < st.scopes.length) :
    runTask (f + 1) st (.req (.get s k)) = (st, .inl (.val (valueF st.scopes (f + 1) s k))) := by
  have : ∃ sc, st.scopes[s]? = some sc := ⟨st.scopes[s], by simp [hlen]⟩
  rcases this with ⟨sc, hsc⟩
  have hheld := hfree s sc hsc
  rw [runTask]
  simp only [stepTask, walkTask, hsc, hheld, valueF]
  cases hr : readLevel st.scopes s k with
  | hit v => simp
  | bottom => simp
  | up p =>
    have hlt := readLevel_up_lt hwf hr
    simp
    exact runTask_walk hwf hfree k f p (by omega) (by omega)

/-- on a heap where no lock is held, `scope.Value(k)` through the interpreter is `value` -/
theorem run_get {st : Store} (hwf : WF st.scopes) (hfree : AllFree st.scopes) (s : Nat) (k : Key)
    (hs : s < st.scopes.length) :
    run st (.req (.get s k)) = (st, .inl (.val (value st.scopes s k))) := by
  unfold run fuelFor
  rw [runTask_get hwf hfree k (st.scopes.length + 1) s (by omega) hs,
    valueF_eq_value hwf k _ _ (by omega)]

/-- `scope.SetValue(k, v)` through the interpreter is `dataSet` -/
theorem run_set {st : Store} (hfree : AllFree st.scopes) (s : Nat) (k : Key) (v : Val) (hs : s < st.scopes.length) :
    run st (.req (.set s k v)) = ({ st with scopes := dataSet st.scopes s k v }, .inl .ok) := by
  have : ∃ sc, st.scopes[s]? = some sc := ⟨st.scopes[s], by simp [hs]⟩
  rcases this with ⟨sc, hsc⟩
  have hheld := hfree s sc hsc
  simp [run, fuelFor, runTask, stepTask, hsc, hheld]

/-! ### a locked section, read sequentially -/

theorem runTask_walk_below {st : Store} (hwf : WF st.scopes) (k : Key) :
    ∀ (f s : Nat), s < f → s < st.scopes.length →
      (∀ (i : Nat) (sc : Scope), i ≤ s → st.scopes[i]? = some sc → sc.held = false) →
      runTask f st (.walk s k) = (st, .inl (.val (valueF st.scopes f s k))) := by
  intro f
  induction f with
  | zero => intro s hs; omega
  | succ f ih =>
    intro s hs hlen hfree
    have : ∃ sc, st.scopes[s]? = some sc := ⟨st.scopes[s], by simp [hlen]⟩
    rcases this with ⟨sc, hsc⟩
    have hheld := hfree s sc (Nat.le_refl s) hsc
    simp only [runTask, stepTask, walkTask, hsc, hheld, valueF]
    cases hr : readLevel st.scopes s k with
    | hit v => simp
    | bottom => simp
    | up p =>
      have hlt := readLevel_up_lt hwf hr
      simp
      exact ih p (by omega) (by omega) (fun i sc hi => hfree i sc (by omega))

/-- `LockData` on a free scope of an unlocked heap: the scope's mutex is taken, a fresh locker
sharing the scope's map (and remembering its parent) is returned -/
theorem run_lock {st : Store} (hfree : AllFree st.scopes) (s : Nat) (sc : Scope) (hsc : st.scopes[s]? = some sc) :
    run st (.req (.lock s)) =
      ({ scopes := setHeld st.scopes s true,
         lockers := st.lockers ++ [{ target := some s, parent := sc.parent, unlock := .scope s, held := false }] },
       .inl (.locker st.lockers.length)) := by
  have hheld := hfree s sc hsc
  simp [run, fuelFor, runTask, stepTask, hsc, hheld]

/-- inside the section (scope `s` locked by locker `l`, nothing else locked) the locker's `Value` is
the overlay of the chain, `SetValue` writes scope `s`, and `Commit` releases the mutex -/
theorem run_locker {st : Store} (hwf : WF st.scopes) (s l : Nat) (sc : Scope) (lk : Locker)
    (hsc : st.scopes[s]? = some sc) (hlk : st.lockers[l]? = some lk)
    (hl : lk = { target := some s, parent := sc.parent, unlock := .scope s, held := false })
    (hheld : sc.held = true)
    (hothers : ∀ (i : Nat) (x : Scope), i ≠ s → st.scopes[i]? = some x → x.held = false) (k : Key) (v : Val) :
    run st (.req (.lget l k)) = (st, .inl (.val (value st.scopes s k))) ∧
    run st (.req (.lset l k v)) = ({ st with scopes := dataSet st.scopes s k v }, .inl .ok) ∧
    (run st (.req (.commit l))).2 = .inl .ok ∧
    (run st (.req (.commit l))).1.scopes = setHeld st.scopes s false := by
  subst hl
  have hslt : s < st.scopes.length := by
    rcases List.getElem?_eq_some_iff.mp hsc with ⟨h, _⟩; exact h
  refine ⟨?_, ?_, ?_, ?_⟩
  · have hun := value_unfold hwf s k
    rw [readLevel_of_scope hsc] at hun
    unfold run fuelFor
    rw [runTask]
    simp only [stepTask, hlk, dataGet, hsc]
    cases hm : mget sc.data k with
    | some x => simp [hm] at hun ⊢; exact hun.symm
    | none =>
      cases hp : sc.parent with
      | none => simp [hm, hp] at hun ⊢; exact hun.symm
      | some p =>
        simp [hm, hp] at hun ⊢
        have hps : p < s := hwf s sc hsc p hp
        rw [runTask_walk_below hwf k (st.scopes.length + 1) p (by omega) (by omega)
          (fun i x hi hx => hothers i x (by omega) hx)]
        rw [valueF_eq_value hwf k _ _ (by omega), hun]
  · simp [run, fuelFor, runTask, stepTask, hlk]
  · simp [run, fuelFor, runTask, stepTask, hlk, isHeld, hsc, hheld]
  · simp [run, fuelFor, runTask, stepTask, hlk, isHeld, hsc, hheld, setLocker]

end Goat.DataScope
