/-
Proofs/DataScopeCounter — `no_lost_update`: the invariant behind "n threads × k locked
read-modify-write increments, interleaved with plain traffic, end at n·k".  Core Lean only.
-/
import Goat.Proofs.DataScopeLTS

namespace Goat.DataScope

/-- increments a program still has to perform -/
def lincs : List Instr → Nat
  | [] => 0
  | .linc _ :: r => lincs r + 1
  | _ :: r => lincs r

def pendTotal (ths : List Thread) : Nat := (ths.map (fun th => lincs th.prog)).sum

theorem pendTotal_set {ths : List Thread} {i : Nat} {th th' : Thread} (h : ths[i]? = some th) :
    pendTotal (ths.set i th') + lincs th.prog = pendTotal ths + lincs th'.prog := by
  induction ths generalizing i with
  | nil => simp at h
  | cons a rest ih =>
    cases i with
    | zero =>
      simp at h; subst h
      simp [pendTotal]; omega
    | succ i =>
      simp at h
      have := ih h
      simp [pendTotal] at this ⊢
      omega

theorem incProg_succ (s : Nat) (c : Key) (m : Nat) :
    incProg s c (m + 1) = .lock s :: .lget c :: .linc c :: .commit :: incProg s c m := rfl

theorem lincs_incProg (s : Nat) (c : Key) (m : Nat) : lincs (incProg s c m) = m := by
  induction m with
  | zero => rfl
  | succ m ih => simp [incProg_succ, lincs, ih]

theorem lincs_noise {s : Nat} {c : Key} {p : List Instr} (h : isNoise s c p = true) : lincs p = 0 := by
  induction p with
  | nil => rfl
  | cons ins rest ih =>
    simp [isNoise] at h ih
    have := ih h.2
    cases ins <;> simp_all [lincs, noiseOK]

/-- where a thread of the counter scenario can be; `cur` is the counter's entry in scope `s` -/
inductive CPhase (s : Nat) (c : Key) (cur : Option Val) : Bool → Thread → Prop where
  | noise {th : Thread} (hl : th.lks = []) (hp : isNoise s c th.prog = true) : CPhase s c cur false th
  | idle {th : Thread} (m : Nat) (hp : th.prog = incProg s c m) (hl : th.lks = []) (hw : th.walk = none) :
      CPhase s c cur true th
  | locked {th : Thread} (m : Nat) (hp : th.prog = .lget c :: .linc c :: .commit :: incProg s c m)
      (hl : th.lks = [s]) (hw : th.walk = none) : CPhase s c cur true th
  | read {th : Thread} (m : Nat) (hp : th.prog = .linc c :: .commit :: incProg s c m)
      (hl : th.lks = [s]) (hw : th.walk = none) (hr : cur = some th.reg) : CPhase s c cur true th
  | written {th : Thread} (m : Nat) (hp : th.prog = .commit :: incProg s c m)
      (hl : th.lks = [s]) (hw : th.walk = none) : CPhase s c cur true th

theorem CPhase.change {s : Nat} {c : Key} {cur cur' : Option Val} {r : Bool} {th : Thread}
    (h : CPhase s c cur r th) (hc : s ∈ th.lks → cur' = cur) : CPhase s c cur' r th := by
  cases h with
  | noise hl hp => exact .noise hl hp
  | idle m hp hl hw => exact .idle m hp hl hw
  | locked m hp hl hw => exact .locked m hp hl hw
  | read m hp hl hw hr => exact .read m hp hl hw (by rw [hc (by simp [hl])]; exact hr)
  | written m hp hl hw => exact .written m hp hl hw

structure CInv (s : Nat) (c : Key) (n total : Nat) (st : St) : Prop where
  lock : LockInv st
  phase : ∀ (i : Nat) (th : Thread), st.threads[i]? = some th →
    CPhase s c (dataGet st.scopes s c) (decide (i < n)) th
  count : ∃ v, dataGet st.scopes s c = some (some v) ∧ v + pendTotal st.threads = total

/-- re-establish the invariant after thread `i` moved from `th` to `th'` -/
theorem CInv_rebuild {s : Nat} {c : Key} {n total : Nat} {st t : St} {i : Nat} {th th' : Thread} {v v' : Nat}
    (hinv : CInv s c n total st) (hL : LockInv t)
    (hth : st.threads[i]? = some th) (ht : t.threads = st.threads.set i th')
    (hv : dataGet st.scopes s c = some (some v)) (hv' : dataGet t.scopes s c = some (some v'))
    (hothers : ∀ (j : Nat) (x : Thread), j ≠ i → st.threads[j]? = some x → s ∈ x.lks → v' = v)
    (hph : CPhase s c (some (some v')) (decide (i < n)) th')
    (hcount : v' + lincs th'.prog = v + lincs th.prog) : CInv s c n total t := by
  refine ⟨hL, ?_, ?_⟩
  · intro j x hj
    rw [hv']
    rcases thread_after hth ht hj with ⟨rfl, rfl⟩ | ⟨hji, hj'⟩
    · exact hph
    · have := hinv.phase j x hj'
      rw [hv] at this
      exact this.change (fun hmem => by rw [hothers j x hji hj' hmem])
  · rcases hinv.count with ⟨v0, hv0, hsum⟩
    rw [hv] at hv0
    have : v0 = v := by simpa using hv0.symm
    subst this
    refine ⟨v', hv', ?_⟩
    have := pendTotal_set (th' := th') hth
    rw [ht]
    omega

theorem isNoise_cons {s : Nat} {c : Key} {ins : Instr} {rest : List Instr} (h : isNoise s c (ins :: rest) = true) :
    noiseOK s c ins = true ∧ isNoise s c rest = true := by
  simpa [isNoise] using h

theorem lincs_cons_noise {s : Nat} {c : Key} {ins : Instr} {rest : List Instr} (h : noiseOK s c ins = true) :
    lincs (ins :: rest) = lincs rest := by
  cases ins <;> simp_all [lincs, noiseOK]

/-- a step of a plain-traffic thread: the counter entry is untouched, the thread stays plain traffic -/
theorem noise_step {s : Nat} {c : Key} {cur cur' : Option Val} {st t : St} {i : Nat} {th : Thread}
    (hph : CPhase s c cur false th) (hth : st.threads[i]? = some th) (hrel : StepRel st i t) :
    ∃ th', t.threads = st.threads.set i th' ∧ dataGet t.scopes s c = dataGet st.scopes s c ∧
      CPhase s c cur' false th' ∧ lincs th'.prog = lincs th.prog := by
  cases hph with
  | noise hl hn =>
  cases hrel with
  | walkHit hth' hw hf hr =>
    rw [hth] at hth'; cases hth'
    exact ⟨_, rfl, rfl, .noise hl hn, rfl⟩
  | walkUp hth' hw hf hr =>
    rw [hth] at hth'; cases hth'
    exact ⟨_, rfl, rfl, .noise hl hn, rfl⟩
  | walkBottom hth' hw hf hr =>
    rw [hth] at hth'; cases hth'
    exact ⟨_, rfl, rfl, .noise hl hn, rfl⟩
  | set hth' hw hp hf =>
    rw [hth] at hth'; cases hth'
    rw [hp] at hn
    have ⟨h1, h2⟩ := isNoise_cons hn
    refine ⟨_, rfl, ?_, .noise hl h2, ?_⟩
    · apply dataGet_dataSet_other
      simp [noiseOK] at h1
      rcases h1 with h1 | h1
      · exact Or.inl (Ne.symm h1)
      · exact Or.inr (Ne.symm h1)
    · simp [hp, lincs]
  | getHit hth' hw hp hf hr =>
    rw [hth] at hth'; cases hth'
    rw [hp] at hn
    exact ⟨_, rfl, rfl, .noise hl (isNoise_cons hn).2, by simp [hp, lincs]⟩
  | getUp hth' hw hp hf hr =>
    rw [hth] at hth'; cases hth'
    rw [hp] at hn
    exact ⟨_, rfl, rfl, .noise hl (isNoise_cons hn).2, by simp [hp, lincs]⟩
  | getBottom hth' hw hp hf hr =>
    rw [hth] at hth'; cases hth'
    rw [hp] at hn
    exact ⟨_, rfl, rfl, .noise hl (isNoise_cons hn).2, by simp [hp, lincs]⟩
  | keys hth' hw hp hf =>
    rw [hth] at hth'; cases hth'
    rw [hp] at hn
    exact ⟨_, rfl, rfl, .noise hl (isNoise_cons hn).2, by simp [hp, lincs]⟩
  | lock hth' hw hp hf => rw [hth] at hth'; cases hth'; rw [hp] at hn; simp [isNoise, noiseOK] at hn
  | lgetHit hth' hw hp hl' hr => rw [hth] at hth'; cases hth'; rw [hp] at hn; simp [isNoise, noiseOK] at hn
  | lgetUp hth' hw hp hl' hr => rw [hth] at hth'; cases hth'; rw [hp] at hn; simp [isNoise, noiseOK] at hn
  | lgetBottom hth' hw hp hl' hr => rw [hth] at hth'; cases hth'; rw [hp] at hn; simp [isNoise, noiseOK] at hn
  | lset hth' hw hp hl' => rw [hth] at hth'; cases hth'; rw [hp] at hn; simp [isNoise, noiseOK] at hn
  | linc hth' hw hp hl' => rw [hth] at hth'; cases hth'; rw [hp] at hn; simp [isNoise, noiseOK] at hn
  | lcreateSome hth' hw hp hl' hreg => rw [hth] at hth'; cases hth'; rw [hp] at hn; simp [isNoise, noiseOK] at hn
  | lcreateNone hth' hw hp hl' hreg => rw [hth] at hth'; cases hth'; rw [hp] at hn; simp [isNoise, noiseOK] at hn
  | lkeys hth' hw hp hl' => rw [hth] at hth'; cases hth'; rw [hp] at hn; simp [isNoise, noiseOK] at hn
  | commit hth' hw hp hl' hh => rw [hth] at hth'; cases hth'; rw [hp] at hn; simp [isNoise, noiseOK] at hn

theorem dataGet_lt {ss : Scopes} {s : Nat} {k : Key} {x : Val} (h : dataGet ss s k = some x) : s < ss.length := by
  unfold dataGet at h
  cases hs : ss[s]? with
  | none => simp [hs] at h
  | some sc => rcases List.getElem?_eq_some_iff.mp hs with ⟨h', _⟩; exact h'

theorem readLevel_hit {ss : Scopes} {s : Nat} {k : Key} {x : Val} (h : dataGet ss s k = some x) :
    readLevel ss s k = .hit x := by
  simp [readLevel, h]

/-- a step of an incrementing thread -/
theorem inc_step {s : Nat} {c : Key} {v : Nat} {st t : St} {i : Nat} {th : Thread}
    (hph : CPhase s c (some (some v)) true th) (hv : dataGet st.scopes s c = some (some v))
    (hth : st.threads[i]? = some th) (hs : step st i = some t) :
    ∃ th' v', t.threads = st.threads.set i th' ∧ dataGet t.scopes s c = some (some v') ∧
      (v' ≠ v → s ∈ th.lks) ∧ CPhase s c (some (some v')) true th' ∧
      v' + lincs th'.prog = v + lincs th.prog := by
  unfold step at hs
  simp only [hth] at hs
  cases hph with
  | idle m hp hl hw =>
    cases m with
    | zero => simp [hw, hp, incProg] at hs
    | succ m =>
      simp only [hw, hp, incProg_succ, instrStep] at hs
      split at hs
      · simp only [Option.some.injEq] at hs
        subst hs
        refine ⟨_, v, rfl, ?_, fun h => absurd rfl h, .locked m rfl (by simp [hl]) rfl, ?_⟩
        · simp [setThread, dataGet_setHeld, hv]
        · simp [hp, incProg_succ, lincs]
      · cases hs
  | locked m hp hl hw =>
    simp only [hw, hp, instrStep, hl, readLevel_hit hv, Option.some.injEq] at hs
    subst hs
    exact ⟨_, v, rfl, hv, fun h => absurd rfl h, .read m rfl rfl rfl rfl, by simp [hp, lincs]⟩
  | read m hp hl hw hr =>
    simp only [hw, hp, instrStep, hl, Option.some.injEq] at hs
    subst hs
    have hreg : th.reg = some v := by simpa using hr.symm
    refine ⟨_, v + 1, rfl, ?_, fun _ => by simp [hl], .written m rfl rfl rfl, ?_⟩
    · simp [setThread, hreg, dataGet_dataSet_same c _ (dataGet_lt hv)]
    · simp [hp, lincs]; omega
  | written m hp hl hw =>
    simp only [hw, hp, instrStep, hl] at hs
    split at hs
    · simp only [Option.some.injEq] at hs
      subst hs
      refine ⟨_, v, rfl, ?_, fun h => absurd rfl h, .idle m rfl rfl rfl, ?_⟩
      · simp [setThread, dataGet_setHeld, hv]
      · simp [hp, lincs]
    · cases hs

theorem CInv_step {s : Nat} {c : Key} {n total : Nat} {st t : St} {i : Nat}
    (hinv : CInv s c n total st) (hs : step st i = some t) : CInv s c n total t := by
  have hrel := step_rel hs
  have hL := LockInv_step hinv.lock hrel
  rcases hinv.count with ⟨v, hv, _⟩
  cases hth : st.threads[i]? with
  | none => simp [step, hth] at hs
  | some th =>
    have hph := hinv.phase i th hth
    rw [hv] at hph
    by_cases hi : i < n
    · simp only [hi, decide_true] at hph
      rcases inc_step hph hv hth hs with ⟨th', v', ht, hv', hown, hph', hcount⟩
      refine CInv_rebuild hinv hL hth ht hv hv' ?_ (by simpa [hi] using hph') hcount
      intro j x hji hj hmem
      apply Classical.byContradiction
      intro hne
      exact hji (hinv.lock.uniq j i x th s hj hth hmem (hown hne))
    · simp only [hi, decide_false] at hph
      rcases noise_step (cur' := some (some v)) hph hth hrel with ⟨th', ht, hd, hph', hl⟩
      refine CInv_rebuild hinv hL hth ht hv (by rw [hd, hv]) (fun _ _ _ _ _ => rfl) (by simpa [hi] using hph') ?_
      omega

/-! ### initial state and the final count -/

theorem initSt_lks (ss : Scopes) (n : Nat) (prog : List Instr) (others : List (List Instr)) (fresh : Nat) :
    ∀ th ∈ (initSt ss n prog others fresh).threads, th.lks = [] := by
  intro th hth
  simp only [initSt, List.mem_append, List.mem_replicate, List.mem_map] at hth
  rcases hth with ⟨_, rfl⟩ | ⟨p, _, rfl⟩ <;> rfl

theorem initSt_thread {ss : Scopes} {n : Nat} {prog : List Instr} {others : List (List Instr)} {fresh i : Nat}
    {th : Thread} (h : (initSt ss n prog others fresh).threads[i]? = some th) :
    (i < n ∧ th = Thread.start prog) ∨ (¬ i < n ∧ ∃ p ∈ others, th = Thread.start p) := by
  simp only [initSt] at h
  by_cases hi : i < n
  · rw [List.getElem?_append_left (by simpa using hi), List.getElem?_replicate] at h
    simp [hi] at h
    exact Or.inl ⟨hi, h.symm⟩
  · rw [List.getElem?_append_right (by simpa using Nat.le_of_not_lt hi)] at h
    have hm : th ∈ others.map Thread.start := List.mem_iff_getElem?.mpr ⟨_, h⟩
    rcases List.mem_map.mp hm with ⟨p, hp, rfl⟩
    exact Or.inr ⟨hi, p, hp, rfl⟩

theorem pendTotal_append (a b : List Thread) : pendTotal (a ++ b) = pendTotal a + pendTotal b := by
  simp [pendTotal, List.sum_append]

theorem pendTotal_replicate (n : Nat) (th : Thread) : pendTotal (List.replicate n th) = n * lincs th.prog := by
  induction n with
  | zero => simp [pendTotal]
  | succ n ih =>
    simp only [List.replicate_succ]
    have : pendTotal (th :: List.replicate n th) = lincs th.prog + pendTotal (List.replicate n th) := by
      simp [pendTotal]
    rw [this, ih, Nat.succ_mul]; omega

theorem pendTotal_zero {ths : List Thread} (h : ∀ th ∈ ths, lincs th.prog = 0) : pendTotal ths = 0 := by
  induction ths with
  | nil => rfl
  | cons a rest ih =>
    have h1 := h a (by simp)
    have h2 := ih (fun th hth => h th (by simp [hth]))
    simp [pendTotal] at h2 ⊢
    omega

theorem CInv_init {ss : Scopes} {s : Nat} {c : Key} {v0 n k fresh : Nat} {others : List (List Instr)}
    (hv : dataGet ss s c = some (some v0)) (hn : ∀ p ∈ others, isNoise s c p = true) :
    CInv s c n (v0 + n * k) (initSt ss n (incProg s c k) others fresh) := by
  refine ⟨LockInv_init (initSt_lks _ _ _ _ _), ?_, ?_⟩
  · intro i th hth
    rcases initSt_thread hth with ⟨hi, rfl⟩ | ⟨hi, p, hp, rfl⟩
    · simp only [hi, decide_true]
      exact .idle k rfl rfl rfl
    · simp only [hi, decide_false]
      exact .noise rfl (hn p hp)
  · refine ⟨v0, hv, ?_⟩
    simp only [initSt, pendTotal_append, pendTotal_replicate]
    have : pendTotal (others.map Thread.start) = 0 := by
      apply pendTotal_zero
      intro th hth
      rcases List.mem_map.mp hth with ⟨p, hp, rfl⟩
      exact lincs_noise (hn p hp)
    rw [this]
    simp [Thread.start, lincs_incProg]

theorem CInv_run {ss : Scopes} {s : Nat} {c : Key} {v0 n k fresh : Nat} {others : List (List Instr)}
    (hv : dataGet ss s c = some (some v0)) (hn : ∀ p ∈ others, isNoise s c p = true) (sched : List Nat) :
    CInv s c n (v0 + n * k) ((sys (initSt ss n (incProg s c k) others fresh)).run sched) :=
  LTS.inv_run (sys _) (CInv s c n (v0 + n * k)) (CInv_init hv hn) (fun _ _ _ hinv hs => CInv_step hinv hs) sched

/-- when the incrementing threads have finished, nothing is pending -/
theorem CInv_final {s : Nat} {c : Key} {n total : Nat} {st : St} (hinv : CInv s c n total st)
    (hdone : ∀ (i : Nat) (th : Thread), i < n → st.threads[i]? = some th → th.prog = []) :
    dataGet st.scopes s c = some (some total) := by
  rcases hinv.count with ⟨v, hv, hsum⟩
  have : pendTotal st.threads = 0 := by
    apply pendTotal_zero
    intro th hth
    rcases List.mem_iff_getElem?.mp hth with ⟨i, hi⟩
    by_cases hin : i < n
    · rw [hdone i th hin hi]; rfl
    · have := hinv.phase i th hi
      simp only [hin, decide_false] at this
      cases this with
      | noise hl hp => exact lincs_noise hp
  rw [this] at hsum
  rw [hv]; simp at hsum; rw [hsum]

end Goat.DataScope
