/-
Proofs/DataScopeCounter — `no_lost_update`: the invariant behind "n threads × k locked
read-modify-write increments, interleaved with plain traffic, end at n·k".  Core Lean only.
-/
import Goat.Proofs.DataScopeLTS

namespace Goat.DataScope

/-- increments a program still has to perform -/
def lincs : List Instr → Nat
  | [] => 0
  | .linc _ :: r => lincs r + 1
  | _ :: r => lincs r

def pendTotal (ths : List Thread) : Nat := (ths.map (fun th => lincs th.prog)).sum

theorem pendTotal_set {ths : List Thread} {i : Nat} {th th' : Thread} (h : ths[i]? = some th) :
    pendTotal (ths.set i th') + lincs th.prog = pendTotal ths + lincs th'.prog := by
  induction ths generalizing i with
  | nil => simp at h
  | cons a rest ih =>
    cases i with
    | zero =>
      simp at h; subst h
      simp [pendTotal]; omega
    | succ i =>
      simp at h
      have := ih h
      simp [pendTotal] at this ⊢
      omega

theorem incProg_succ (s : Nat) (c : Key) (m : Nat) :
    incProg s c (m + 1) = .lock s :: .lget c :: .linc c :: .commit :: incProg s c m := rfl

theorem lincs_incProg (s : Nat) (c : Key) (m : Nat) : lincs (incProg s c m) = m := by
  induction m with
  | zero => rfl
  | succ m ih => simp [incProg_succ, lincs, ih]

theorem lincs_noise {s : Nat} {c : Key} {p : List Instr} (h : isNoise s c p = true) : lincs p = 0 := by
  induction p with
  | nil => rfl
  | cons ins rest ih =>
    simp [isNoise] at h ih
    have := ih h.2
    cases ins <;> simp_all [lincs, noiseOK]

/-- where a thread of the counter scenario can be; `cur` is the counter's entry in scope `s` -/
inductive CPhase (s : Nat) (c : Key) (cur : Option Val) : Bool → Thread → Prop where
  | noise {th : Thread} (hl : th.lks = []) (hp : isNoise s c th.prog = true) : CPhase s c cur false th
  | idle {th : Thread} (m : Nat) (hp : th.prog = incProg s c m) (hl : th.lks = []) (hw : th.walk = none) :
      CPhase s c cur true th
  | locked {th : Thread} (m : Nat) (hp : th.prog = .lget c :: .linc c :: .commit :: incProg s c m)
      (hl : th.lks = [s]) (hw : th.walk = none) : CPhase s c cur true th
  | read {th : Thread} (m : Nat) (hp : th.prog = .linc c :: .commit :: incProg s c m)
      (hl : th.lks = [s]) (hw : th.walk = none) (hr : cur = some th.reg) : CPhase s c cur true th
  | written {th : Thread} (m : Nat) (hp : th.prog = .commit :: incProg s c m)
      (hl : th.lks = [s]) (hw : th.walk = none) : CPhase s c cur true th

theorem CPhase.change {s : Nat} {c : Key} {cur cur' : Option Val} {r : Bool} {th : Thread}
    (h : CPhase s c cur r th) (hc : s ∈ th.lks → cur' = cur) : CPhase s c cur' r th := by
  cases h with
  | noise hl hp => exact .noise hl hp
  | idle m hp hl hw => exact .idle m hp hl hw
  | locked m hp hl hw => exact .locked m hp hl hw
  | read m hp hl hw hr => exact .read m hp hl hw (by rw [hc (by simp [hl])]; exact hr)
  | written m hp hl hw => exact .written m hp hl hw

structure CInv (s : Nat) (c : Key) (n total : Nat) (st : St) : Prop where
  lock : LockInv st
  phase : ∀ (i : Nat) (th : Thread), st.threads[i]? = some th →
    CPhase s c (dataGet st.scopes s c) (decide (i < n)) th
  count : ∃ v, dataGet st.scopes s c = some (some v) ∧ v + pendTotal st.threads = total

/-- re-establish the invariant after thread `i` moved from `th` to `th'` -/
theorem CInv_rebuild {s : Nat} {c : Key} {n total : Nat} {st t : St} {i : Nat} {th th' : Thread} {v v' : Nat}
    (hinv : CInv s c n total st) (hL : LockInv t)
    (hth : st.threads[i]? = some th) (ht : t.threads = st.threads.set i th')
    (hv : dataGet st.scopes s c = some (some v)) (hv' : dataGet t.scopes s c = some (some v'))
    (hothers : ∀ (j : Nat) (x : Thread), j ≠ i → st.threads[j]? = some x → s ∈ x.lks → v' = v)
    (hph : CPhase s c (some (some v')) (decide (i < n)) th')
    (hcount : v' + lincs th'.prog = v + lincs th.prog) : CInv s c n total t := by
  refine ⟨hL, ?_, ?_⟩
  · intro j x hj
    rw [hv']
    rcases thread_after hth ht hj with ⟨rfl, rfl⟩ | ⟨hji, hj'⟩
    · exact hph
    · have := hinv.phase j x hj'
      rw [hv] at this
      exact this.change (fun hmem => by rw [hothers j x hji hj' hmem])
  · rcases hinv.count with ⟨v0, hv0, hsum⟩
    rw [hv] at hv0
    have : v0 = v := by simpa using hv0.symm
    subst this
    refine ⟨v', hv', ?_⟩
    have := pendTotal_set (th' := th') hth
    rw [ht]
    omega

theorem isNoise_cons {s : Nat} {c : Key} {ins : Instr} {rest : List Instr} (h : isNoise s c (ins :: rest) = true) :
    noiseOK s c ins = true ∧ isNoise s c rest = true := by
  simpa [isNoise] using h

theorem lincs_cons_noise {s : Nat} {c : Key} {ins : Instr} {rest : List Instr} (h : noiseOK s c ins = true) :
    lincs (ins :: rest) = lincs rest := by
  cases ins <;> simp_all [lincs, noiseOK]

/-- a step of a plain-traffic thread: the counter entry is untouched, the thread stays plain traffic -/
theorem noise_step {s : Nat} {c : Key} {cur cur' : Option Val} {st t : St} {i : Nat} {th : Thread}
    (hph : CPhase s c cur false th) (hth : st.threads[i]? = some th) (hrel : StepRel st i t) :
    ∃ th', t.threads = st.threads.set i th' ∧ dataGet t.scopes s c = dataGet st.scopes s c ∧
      CPhase s c cur' false th' ∧ lincs th'.prog = lincs th.prog := by
  cases hph with
  | noise hl hn =>
  cases hrel with
  | walkHit hth' hw hf hr =>
    rw [hth] at hth'; cases hth'
    exact ⟨_, rfl, rfl, .noise hl hn, rfl⟩
  | walkUp hth' hw hf hr =>
    rw [hth] at hth'; cases hth'
    exact ⟨_, rfl, rfl, .noise hl hn, rfl⟩
  | walkBottom hth' hw hf hr =>
    rw [hth] at hth'; cases hth'
    exact ⟨_, rfl, rfl, .noise hl hn, rfl⟩
  | set hth' hw hp hf =>
    rw [hth] at hth'; cases hth'
    rw [hp] at hn
    have ⟨h1, h2⟩ := isNoise_cons hn
    refine ⟨_, rfl, ?_, .noise hl h2, ?_⟩
    · apply dataGet_dataSet_other
      simp [noiseOK] at h1
      rcases h1 with h1 | h1
      · exact Or.inl (Ne.symm h1)
      · exact Or.inr (Ne.symm h1)
    · simp [hp, lincs]
  | getHit hth' hw hp hf hr =>
    rw [hth] at hth'; cases hth'
    rw [hp] at hn
    exact ⟨_, rfl, rfl, .noise hl (isNoise_cons hn).2, by simp [hp, lincs]⟩
  | getUp hth' hw hp hf hr =>
    rw [hth] at hth'; cases hth'
    rw [hp] at hn
    exact ⟨_, rfl, rfl, .noise hl (isNoise_cons hn).2, by simp [hp, lincs]⟩
  | getBottom hth' hw hp hf hr =>
    rw [hth] at hth'; cases hth'
    rw [hp] at hn
    exact ⟨_, rfl, rfl, .noise hl (isNoise_cons hn).2, by simp [hp, lincs]⟩
  | keys hth' hw hp hf =>
    rw [hth] at hth'; cases hth'
    rw [hp] at hn
    exact ⟨_, rfl, rfl, .noise hl (isNoise_cons hn).2, by simp [hp, lincs]⟩
  | lock hth' hw hp hf => rw [hth] at hth'; cases hth'; rw [hp] at hn; simp [isNoise, noiseOK] at hn
  | lgetHit hth' hw hp hl' hr => rw [hth] at hth'; cases hth'; rw [hp] at hn; simp [isNoise, noiseOK] at hn
  | lgetUp hth' hw hp hl' hr => rw [hth] at hth'; cases hth'; rw [hp] at hn; simp [isNoise, noiseOK] at hn
  | lgetBottom hth' hw hp hl' hr => rw [hth] at hth'; cases hth'; rw [hp] at hn; simp [isNoise, noiseOK] at hn
  | lset hth' hw hp hl' => rw [hth] at hth'; cases hth'; rw [hp] at hn; simp [isNoise, noiseOK] at hn
  | linc hth' hw hp hl' => rw [hth] at hth'; cases hth'; rw [hp] at hn; simp [isNoise, noiseOK] at hn
  | lcreateSome hth' hw hp hl' hreg => rw [hth] at hth'; cases hth'; rw [hp] at hn; simp [isNoise, noiseOK] at hn
  | lcreateNone hth' hw hp hl' hreg => rw [hth] at hth'; cases hth'; rw [hp] at hn; simp [isNoise, noiseOK] at hn
  | lkeys hth' hw hp hl' => rw [hth] at hth'; cases hth'; rw [hp] at hn; simp [isNoise, noiseOK] at hn
  | commit hth' hw hp hl' hh => rw [hth] at hth'; cases hth'; rw [hp] at hn; simp [isNoise, noiseOK] at hn

end Goat.DataScope
