/-
Proofs/DataScopeCreate — `get_or_create_once`: the invariant behind "all callers of the
lock / Value / create-if-nil / SetValue / Commit idiom obtain the same instance".  Core Lean only.
-/
import Goat.Proofs.DataScopeLTS

namespace Goat.DataScope

theorem step_wf {st t : St} {i : Nat} (h : StepRel st i t) (hwf : WF st.scopes) : WF t.scopes := by
  rcases step_effect h with ⟨th, th', _, _, heff⟩
  cases heff with
  | «local» hs hl => rw [hs]; exact hwf
  | write s k v hg hs hl => rw [hs]; exact WF_dataSet hwf s k v
  | acquire s hf hs hl => rw [hs]; exact WF_setHeld hwf s true
  | release s more hlk hh hs hl => rw [hs]; exact WF_setHeld hwf s false

theorem step_length {st t : St} {i : Nat} (h : StepRel st i t) : t.scopes.length = st.scopes.length := by
  rcases step_effect h with ⟨th, th', _, _, heff⟩
  cases heff with
  | «local» hs hl => rw [hs]
  | write s k v hg hs hl => rw [hs, dataSet_length]
  | acquire s hf hs hl => rw [hs, setHeld_length]
  | release s more hlk hh hs hl => rw [hs, setHeld_length]

/-- the two heaps answer every `Value(c)` alike and agree on scope `s`'s own entry for `c` -/
def Agree (c : Key) (s : Nat) (ss ss' : Scopes) : Prop :=
  (∀ q, value ss' q c = value ss q c) ∧ dataGet ss' s c = dataGet ss s c

theorem Agree.refl (c : Key) (s : Nat) (ss : Scopes) : Agree c s ss ss := ⟨fun _ => rfl, rfl⟩

theorem Agree_setHeld (c : Key) (s : Nat) (ss : Scopes) (x : Nat) (b : Bool) : Agree c s ss (setHeld ss x b) :=
  ⟨fun q => value_setHeld ss x q b c, dataGet_setHeld ss x s b c⟩

theorem Agree_dataSet_other (c : Key) (s : Nat) (ss : Scopes) (x : Nat) (k : Key) (v : Val) (hk : c ≠ k) :
    Agree c s ss (dataSet ss x k v) :=
  ⟨fun q => value_dataSet_other_key ss x q k c v hk, dataGet_dataSet_other ss x s k c v (Or.inr hk)⟩

/-- where a thread of the get-or-create scenario can be -/
inductive GPhase (ss : Scopes) (s : Nat) (c : Key) : Bool → Thread → Prop where
  | noise {th : Thread} (hl : th.lks = []) (hp : isKeyNoise c th.prog = true) : GPhase ss s c false th
  | idle {th : Thread} (hp : th.prog = getOrCreate s c) (hl : th.lks = []) (hw : th.walk = none) : GPhase ss s c true th
  | locked {th : Thread} (hp : th.prog = [.lget c, .lcreate c, .commit]) (hl : th.lks = [s]) (hw : th.walk = none) :
      GPhase ss s c true th
  | walking {th : Thread} (p : Nat) (hp : th.prog = [.lcreate c, .commit]) (hl : th.lks = [s])
      (hw : th.walk = some (p, c)) (hval : value ss p c = value ss s c) : GPhase ss s c true th
  | read {th : Thread} (hp : th.prog = [.lcreate c, .commit]) (hl : th.lks = [s]) (hw : th.walk = none)
      (hr : th.reg = value ss s c) : GPhase ss s c true th
  | created {th : Thread} (hp : th.prog = [.commit]) (hl : th.lks = [s]) (hw : th.walk = none)
      (hr : th.reg = value ss s c) (hne : th.reg ≠ none) : GPhase ss s c true th
  | done {th : Thread} (hp : th.prog = []) (hl : th.lks = []) (hw : th.walk = none)
      (hr : th.reg = value ss s c) (hne : th.reg ≠ none) : GPhase ss s c true th

theorem GPhase.change {ss ss' : Scopes} {s : Nat} {c : Key} {r : Bool} {th : Thread}
    (h : GPhase ss s c r th) (ha : Agree c s ss ss') : GPhase ss' s c r th := by
  cases h with
  | noise hl hp => exact .noise hl hp
  | idle hp hl hw => exact .idle hp hl hw
  | locked hp hl hw => exact .locked hp hl hw
  | walking p hp hl hw hval => exact .walking p hp hl hw (by rw [ha.1, ha.1]; exact hval)
  | read hp hl hw hr => exact .read hp hl hw (by rw [ha.1]; exact hr)
  | created hp hl hw hr hne => exact .created hp hl hw (by rw [ha.1]; exact hr) hne
  | done hp hl hw hr hne => exact .done hp hl hw (by rw [ha.1]; exact hr) hne

structure GInv (s : Nat) (c : Key) (n f0 : Nat) (st : St) : Prop where
  wf : WF st.scopes
  slt : s < st.scopes.length
  lock : LockInv st
  phase : ∀ (i : Nat) (th : Thread), st.threads[i]? = some th → GPhase st.scopes s c (decide (i < n)) th
  once : st.fresh = f0 ∨ (st.fresh = f0 + 1 ∧ value st.scopes s c ≠ none)

theorem isKeyNoise_cons {c : Key} {ins : Instr} {rest : List Instr} (h : isKeyNoise c (ins :: rest) = true) :
    keyNoiseOK c ins = true ∧ isKeyNoise c rest = true := by
  simpa [isKeyNoise] using h

/-- a step of a plain-traffic thread leaves every `Value(c)` as it was -/
theorem keyNoise_step {ss' : Scopes} {s : Nat} {c : Key} {st t : St} {i : Nat} {th : Thread}
    (hph : GPhase st.scopes s c false th) (hth : st.threads[i]? = some th) (hrel : StepRel st i t) :
    ∃ th', t.threads = st.threads.set i th' ∧ Agree c s st.scopes t.scopes ∧ t.fresh = st.fresh ∧
      GPhase ss' s c false th' := by
  cases hph with
  | noise hl hn =>
  cases hrel with
  | walkHit hth' hw hf hr =>
    rw [hth] at hth'; cases hth'
    exact ⟨_, rfl, Agree.refl .., rfl, .noise hl hn⟩
  | walkUp hth' hw hf hr =>
    rw [hth] at hth'; cases hth'
    exact ⟨_, rfl, Agree.refl .., rfl, .noise hl hn⟩
  | walkBottom hth' hw hf hr =>
    rw [hth] at hth'; cases hth'
    exact ⟨_, rfl, Agree.refl .., rfl, .noise hl hn⟩
  | set hth' hw hp hf =>
    rw [hth] at hth'; cases hth'
    rw [hp] at hn
    have ⟨h1, h2⟩ := isKeyNoise_cons hn
    simp [keyNoiseOK] at h1
    exact ⟨_, rfl, Agree_dataSet_other c s _ _ _ _ (Ne.symm h1), rfl, .noise hl h2⟩
  | getHit hth' hw hp hf hr =>
    rw [hth] at hth'; cases hth'
    rw [hp] at hn
    exact ⟨_, rfl, Agree.refl .., rfl, .noise hl (isKeyNoise_cons hn).2⟩
  | getUp hth' hw hp hf hr =>
    rw [hth] at hth'; cases hth'
    rw [hp] at hn
    exact ⟨_, rfl, Agree.refl .., rfl, .noise hl (isKeyNoise_cons hn).2⟩
  | getBottom hth' hw hp hf hr =>
    rw [hth] at hth'; cases hth'
    rw [hp] at hn
    exact ⟨_, rfl, Agree.refl .., rfl, .noise hl (isKeyNoise_cons hn).2⟩
  | keys hth' hw hp hf =>
    rw [hth] at hth'; cases hth'
    rw [hp] at hn
    exact ⟨_, rfl, Agree.refl .., rfl, .noise hl (isKeyNoise_cons hn).2⟩
  | lock hth' hw hp hf => rw [hth] at hth'; cases hth'; rw [hp] at hn; simp [isKeyNoise, keyNoiseOK] at hn
  | lgetHit hth' hw hp hl' hr => rw [hth] at hth'; cases hth'; rw [hp] at hn; simp [isKeyNoise, keyNoiseOK] at hn
  | lgetUp hth' hw hp hl' hr => rw [hth] at hth'; cases hth'; rw [hp] at hn; simp [isKeyNoise, keyNoiseOK] at hn
  | lgetBottom hth' hw hp hl' hr => rw [hth] at hth'; cases hth'; rw [hp] at hn; simp [isKeyNoise, keyNoiseOK] at hn
  | lset hth' hw hp hl' => rw [hth] at hth'; cases hth'; rw [hp] at hn; simp [isKeyNoise, keyNoiseOK] at hn
  | linc hth' hw hp hl' => rw [hth] at hth'; cases hth'; rw [hp] at hn; simp [isKeyNoise, keyNoiseOK] at hn
  | lcreateSome hth' hw hp hl' hreg => rw [hth] at hth'; cases hth'; rw [hp] at hn; simp [isKeyNoise, keyNoiseOK] at hn
  | lcreateNone hth' hw hp hl' hreg => rw [hth] at hth'; cases hth'; rw [hp] at hn; simp [isKeyNoise, keyNoiseOK] at hn
  | lkeys hth' hw hp hl' => rw [hth] at hth'; cases hth'; rw [hp] at hn; simp [isKeyNoise, keyNoiseOK] at hn
  | commit hth' hw hp hl' hh => rw [hth] at hth'; cases hth'; rw [hp] at hn; simp [isKeyNoise, keyNoiseOK] at hn

/-- a step of a caller of the idiom: either every `Value(c)` stays as it was, or the caller holds
the lock, saw nil, and stores a fresh instance -/
theorem caller_step {s : Nat} {c : Key} {st t : St} {i : Nat} {th : Thread}
    (hwf : WF st.scopes) (hslt : s < st.scopes.length)
    (hph : GPhase st.scopes s c true th) (hth : st.threads[i]? = some th) (hs : step st i = some t) :
    ∃ th', t.threads = st.threads.set i th' ∧ GPhase t.scopes s c true th' ∧
      ((Agree c s st.scopes t.scopes ∧ t.fresh = st.fresh) ∨
       (s ∈ th.lks ∧ value st.scopes s c = none ∧ t.fresh = st.fresh + 1 ∧ value t.scopes s c ≠ none ∧
        t.scopes = dataSet st.scopes s c (some st.fresh))) := by
  unfold step at hs
  simp only [hth] at hs
  cases hph with
  | idle hp hl hw =>
    simp only [hw, hp, getOrCreate, instrStep] at hs
    split at hs
    · simp only [Option.some.injEq] at hs
      subst hs
      refine ⟨_, rfl, ?_, Or.inl ⟨Agree_setHeld .., rfl⟩⟩
      exact .locked rfl (by simp [hl]) rfl
    · cases hs
  | locked hp hl hw =>
    simp only [hw, hp, instrStep, hl] at hs
    have hun := value_unfold hwf s c
    cases hr : readLevel st.scopes s c with
    | hit v =>
      simp only [hr, Option.some.injEq] at hs hun
      subst hs
      exact ⟨_, rfl, .read rfl rfl rfl hun.symm, Or.inl ⟨Agree.refl .., rfl⟩⟩
    | up p =>
      simp only [hr, Option.some.injEq] at hs hun
      subst hs
      exact ⟨_, rfl, .walking p rfl rfl rfl hun.symm, Or.inl ⟨Agree.refl .., rfl⟩⟩
    | bottom =>
      simp only [hr, Option.some.injEq] at hs hun
      subst hs
      exact ⟨_, rfl, .read rfl rfl rfl hun.symm, Or.inl ⟨Agree.refl .., rfl⟩⟩
  | walking p hp hl hw hval =>
    simp only [hw, walkStep] at hs
    split at hs
    · have hun := value_unfold hwf p c
      cases hr : readLevel st.scopes p c with
      | hit v =>
        simp only [hr, Option.some.injEq] at hs hun
        subst hs
        exact ⟨_, rfl, .read hp hl rfl (by show v = value st.scopes s c; rw [← hval, hun]), Or.inl ⟨Agree.refl .., rfl⟩⟩
      | up q =>
        simp only [hr, Option.some.injEq] at hs hun
        subst hs
        exact ⟨_, rfl, .walking q hp hl rfl (by show value st.scopes q c = value st.scopes s c; rw [← hval, hun]),
          Or.inl ⟨Agree.refl .., rfl⟩⟩
      | bottom =>
        simp only [hr, Option.some.injEq] at hs hun
        subst hs
        exact ⟨_, rfl, .read hp hl rfl (by show none = value st.scopes s c; rw [← hval, hun]), Or.inl ⟨Agree.refl .., rfl⟩⟩
    · cases hs
  | read hp hl hw hr =>
    simp only [hw, hp, instrStep, hl] at hs
    cases hreg : th.reg with
    | some x =>
      simp only [hreg, Option.some.injEq] at hs
      subst hs
      exact ⟨_, rfl, .created rfl rfl rfl (by show some x = value st.scopes s c; rw [← hreg]; exact hr) (by simp),
        Or.inl ⟨Agree.refl .., rfl⟩⟩
    | none =>
      simp only [hreg, Option.some.injEq] at hs
      subst hs
      have hnew : value (dataSet st.scopes s c (some st.fresh)) s c = some st.fresh :=
        value_dataSet_same hwf s c _ hslt
      refine ⟨_, rfl, .created rfl rfl rfl (by simp [setThread, hnew]) (by simp), Or.inr ⟨by simp [hl], ?_, rfl, ?_, rfl⟩⟩
      · rw [← hr, hreg]
      · simp [setThread, hnew]
  | created hp hl hw hr hne =>
    simp only [hw, hp, instrStep, hl] at hs
    split at hs
    · simp only [Option.some.injEq] at hs
      subst hs
      refine ⟨_, rfl, ?_, Or.inl ⟨Agree_setHeld .., rfl⟩⟩
      exact .done rfl rfl rfl (by simp [setThread, value_setHeld]; exact hr) hne
    · cases hs
  | done hp hl hw hr hne =>
    simp [hw, hp] at hs

theorem GInv_agree {s : Nat} {c : Key} {n f0 : Nat} {st t : St} {i : Nat} {th th' : Thread}
    (hinv : GInv s c n f0 st) (hrel : StepRel st i t) (hth : st.threads[i]? = some th)
    (ht : t.threads = st.threads.set i th') (ha : Agree c s st.scopes t.scopes) (hf : t.fresh = st.fresh)
    (hph : GPhase t.scopes s c (decide (i < n)) th') : GInv s c n f0 t := by
  refine ⟨step_wf hrel hinv.wf, by rw [step_length hrel]; exact hinv.slt, LockInv_step hinv.lock hrel, ?_, ?_⟩
  · intro j x hj
    rcases thread_after hth ht hj with ⟨rfl, rfl⟩ | ⟨_, hj'⟩
    · exact hph
    · exact (hinv.phase j x hj').change ha
  · rw [hf, ha.1]; exact hinv.once

theorem GInv_step {s : Nat} {c : Key} {n f0 : Nat} {st t : St} {i : Nat}
    (hinv : GInv s c n f0 st) (hs : step st i = some t) : GInv s c n f0 t := by
  have hrel := step_rel hs
  cases hth : st.threads[i]? with
  | none => simp [step, hth] at hs
  | some th =>
    have hph := hinv.phase i th hth
    by_cases hi : i < n
    · simp only [hi, decide_true] at hph
      rcases caller_step hinv.wf hinv.slt hph hth hs with ⟨th', ht, hph', ⟨ha, hf⟩ | ⟨hmem, hnil, hf, hne, hsc⟩⟩
      · exact GInv_agree hinv hrel hth ht ha hf (by simpa [hi] using hph')
      · refine ⟨step_wf hrel hinv.wf, by rw [step_length hrel]; exact hinv.slt, LockInv_step hinv.lock hrel, ?_, ?_⟩
        · intro j x hj
          rcases thread_after hth ht hj with ⟨rfl, rfl⟩ | ⟨hji, hj'⟩
          · simpa [hi] using hph'
          · have old := hinv.phase j x hj'
            have notmine : s ∉ x.lks := fun hx => hji (hinv.lock.uniq j i x th s hj' hth hx hmem)
            generalize decide (j < n) = r at old ⊢
            cases old with
            | noise hl hp => exact .noise hl hp
            | idle hp hl hw => exact .idle hp hl hw
            | locked hp hl hw => exact absurd (by simp [hl]) notmine
            | walking p hp hl hw hval => exact absurd (by simp [hl]) notmine
            | read hp hl hw hr => exact absurd (by simp [hl]) notmine
            | created hp hl hw hr hne' => exact absurd (by simp [hl]) notmine
            | done hp hl hw hr hne' => rw [hnil] at hr; exact absurd hr hne'
        · rcases hinv.once with h0 | ⟨_, h1⟩
          · exact Or.inr ⟨by rw [hf, h0], hne⟩
          · exact absurd hnil h1
    · simp only [hi, decide_false] at hph
      rcases keyNoise_step (ss' := t.scopes) hph hth hrel with ⟨th', ht, ha, hf, hph'⟩
      exact GInv_agree hinv hrel hth ht ha hf (by simpa [hi] using hph')

theorem initSt_lks' (ss : Scopes) (n : Nat) (prog : List Instr) (others : List (List Instr)) (fresh : Nat) :
    ∀ th ∈ (initSt ss n prog others fresh).threads, th.lks = [] := by
  intro th hth
  simp only [initSt, List.mem_append, List.mem_replicate, List.mem_map] at hth
  rcases hth with ⟨_, rfl⟩ | ⟨p, _, rfl⟩ <;> rfl

theorem initSt_thread' {ss : Scopes} {n : Nat} {prog : List Instr} {others : List (List Instr)} {fresh i : Nat}
    {th : Thread} (h : (initSt ss n prog others fresh).threads[i]? = some th) :
    (i < n ∧ th = Thread.start prog) ∨ (¬ i < n ∧ ∃ p ∈ others, th = Thread.start p) := by
  simp only [initSt] at h
  by_cases hi : i < n
  · rw [List.getElem?_append_left (by simpa using hi), List.getElem?_replicate] at h
    simp [hi] at h
    exact Or.inl ⟨hi, h.symm⟩
  · rw [List.getElem?_append_right (by simpa using Nat.le_of_not_lt hi)] at h
    have hm : th ∈ others.map Thread.start := List.mem_iff_getElem?.mpr ⟨_, h⟩
    rcases List.mem_map.mp hm with ⟨p, hp, rfl⟩
    exact Or.inr ⟨hi, p, hp, rfl⟩

theorem GInv_init {ss : Scopes} {s : Nat} {c : Key} {n fresh : Nat} {others : List (List Instr)}
    (hwf : WF ss) (hs : s < ss.length) (hn : ∀ p ∈ others, isKeyNoise c p = true) :
    GInv s c n fresh (initSt ss n (getOrCreate s c) others fresh) := by
  refine ⟨hwf, hs, LockInv_init (initSt_lks' _ _ _ _ _), ?_, Or.inl rfl⟩
  intro i th hth
  rcases initSt_thread' hth with ⟨hi, rfl⟩ | ⟨hi, p, hp, rfl⟩
  · simp only [hi, decide_true]
    exact .idle rfl rfl rfl
  · simp only [hi, decide_false]
    exact .noise rfl (hn p hp)

theorem GInv_run {ss : Scopes} {s : Nat} {c : Key} {n fresh : Nat} {others : List (List Instr)}
    (hwf : WF ss) (hs : s < ss.length) (hn : ∀ p ∈ others, isKeyNoise c p = true) (sched : List Nat) :
    GInv s c n fresh ((sys (initSt ss n (getOrCreate s c) others fresh)).run sched) :=
  LTS.inv_run (sys _) (GInv s c n fresh) (GInv_init hwf hs hn) (fun _ _ _ hinv h => GInv_step hinv h) sched

/-- a caller that has returned holds the instance the scope now answers with, and it is not nil -/
theorem GInv_done {s : Nat} {c : Key} {n f0 : Nat} {st : St} (hinv : GInv s c n f0 st) {i : Nat} {th : Thread}
    (hi : i < n) (hth : st.threads[i]? = some th) (hp : th.prog = []) :
    th.reg = value st.scopes s c ∧ th.reg ≠ none := by
  have := hinv.phase i th hth
  simp only [hi, decide_true] at this
  cases this with
  | idle hp' hl hw => rw [hp] at hp'; simp [getOrCreate] at hp'
  | locked hp' hl hw => rw [hp] at hp'; cases hp'
  | walking p hp' hl hw hval => rw [hp] at hp'; cases hp'
  | read hp' hl hw hr => rw [hp] at hp'; cases hp'
  | created hp' hl hw hr hne => rw [hp] at hp'; cases hp'
  | done hp' hl hw hr hne => exact ⟨hr, hne⟩

end Goat.DataScope
