/-
Proofs/DataScopeLTS — the transition system of `Goat/Model/DataScope.lean`: a relational reading
of `step` (one constructor per critical section), the lock invariant, frames.  Core Lean only.
-/
import Goat.Proofs.DataScope

namespace Goat.DataScope

/-- `step st i = some t`, one constructor per critical section of the Go code -/
inductive StepRel (st : St) (i : Nat) : St → Prop where
  | walkHit {th : Thread} {s : Nat} {k : Key} {v : Val}
      (hth : st.threads[i]? = some th) (hw : th.walk = some (s, k))
      (hf : isFree st.scopes s = true) (hr : readLevel st.scopes s k = .hit v) :
      StepRel st i (setThread st i { th with reg := v, walk := none })
  | walkUp {th : Thread} {s p : Nat} {k : Key}
      (hth : st.threads[i]? = some th) (hw : th.walk = some (s, k))
      (hf : isFree st.scopes s = true) (hr : readLevel st.scopes s k = .up p) :
      StepRel st i (setThread st i { th with walk := some (p, k) })
  | walkBottom {th : Thread} {s : Nat} {k : Key}
      (hth : st.threads[i]? = some th) (hw : th.walk = some (s, k))
      (hf : isFree st.scopes s = true) (hr : readLevel st.scopes s k = .bottom) :
      StepRel st i (setThread st i { th with reg := none, walk := none })
  | set {th : Thread} {s : Nat} {k : Key} {v : Val} {rest : List Instr}
      (hth : st.threads[i]? = some th) (hw : th.walk = none) (hp : th.prog = .set s k v :: rest)
      (hf : isFree st.scopes s = true) :
      StepRel st i (setThread { st with scopes := dataSet st.scopes s k v } i { th with prog := rest })
  | getHit {th : Thread} {s : Nat} {k : Key} {v : Val} {rest : List Instr}
      (hth : st.threads[i]? = some th) (hw : th.walk = none) (hp : th.prog = .get s k :: rest)
      (hf : isFree st.scopes s = true) (hr : readLevel st.scopes s k = .hit v) :
      StepRel st i (setThread st i { th with prog := rest, reg := v, walk := none })
  | getUp {th : Thread} {s p : Nat} {k : Key} {rest : List Instr}
      (hth : st.threads[i]? = some th) (hw : th.walk = none) (hp : th.prog = .get s k :: rest)
      (hf : isFree st.scopes s = true) (hr : readLevel st.scopes s k = .up p) :
      StepRel st i (setThread st i { th with prog := rest, walk := some (p, k) })
  | getBottom {th : Thread} {s : Nat} {k : Key} {rest : List Instr}
      (hth : st.threads[i]? = some th) (hw : th.walk = none) (hp : th.prog = .get s k :: rest)
      (hf : isFree st.scopes s = true) (hr : readLevel st.scopes s k = .bottom) :
      StepRel st i (setThread st i { th with prog := rest, reg := none, walk := none })
  | keys {th : Thread} {s : Nat} {rest : List Instr}
      (hth : st.threads[i]? = some th) (hw : th.walk = none) (hp : th.prog = .keys s :: rest)
      (hf : isFree st.scopes s = true) :
      StepRel st i (setThread st i { th with prog := rest })
  | lock {th : Thread} {s : Nat} {rest : List Instr}
      (hth : st.threads[i]? = some th) (hw : th.walk = none) (hp : th.prog = .lock s :: rest)
      (hf : isFree st.scopes s = true) :
      StepRel st i (setThread { st with scopes := setHeld st.scopes s true } i
        { th with prog := rest, lks := s :: th.lks })
  | lgetHit {th : Thread} {s : Nat} {more : List Nat} {k : Key} {v : Val} {rest : List Instr}
      (hth : st.threads[i]? = some th) (hw : th.walk = none) (hp : th.prog = .lget k :: rest)
      (hl : th.lks = s :: more) (hr : readLevel st.scopes s k = .hit v) :
      StepRel st i (setThread st i { th with prog := rest, reg := v })
  | lgetUp {th : Thread} {s p : Nat} {more : List Nat} {k : Key} {rest : List Instr}
      (hth : st.threads[i]? = some th) (hw : th.walk = none) (hp : th.prog = .lget k :: rest)
      (hl : th.lks = s :: more) (hr : readLevel st.scopes s k = .up p) :
      StepRel st i (setThread st i { th with prog := rest, walk := some (p, k) })
  | lgetBottom {th : Thread} {s : Nat} {more : List Nat} {k : Key} {rest : List Instr}
      (hth : st.threads[i]? = some th) (hw : th.walk = none) (hp : th.prog = .lget k :: rest)
      (hl : th.lks = s :: more) (hr : readLevel st.scopes s k = .bottom) :
      StepRel st i (setThread st i { th with prog := rest, reg := none })
  | lset {th : Thread} {s : Nat} {more : List Nat} {k : Key} {v : Val} {rest : List Instr}
      (hth : st.threads[i]? = some th) (hw : th.walk = none) (hp : th.prog = .lset k v :: rest)
      (hl : th.lks = s :: more) :
      StepRel st i (setThread { st with scopes := dataSet st.scopes s k v } i { th with prog := rest })
  | linc {th : Thread} {s : Nat} {more : List Nat} {k : Key} {rest : List Instr}
      (hth : st.threads[i]? = some th) (hw : th.walk = none) (hp : th.prog = .linc k :: rest)
      (hl : th.lks = s :: more) :
      StepRel st i (setThread { st with scopes := dataSet st.scopes s k (some (th.reg.getD 0 + 1)) } i
        { th with prog := rest })
  | lcreateSome {th : Thread} {s : Nat} {more : List Nat} {k : Key} {x : Nat} {rest : List Instr}
      (hth : st.threads[i]? = some th) (hw : th.walk = none) (hp : th.prog = .lcreate k :: rest)
      (hl : th.lks = s :: more) (hreg : th.reg = some x) :
      StepRel st i (setThread st i { th with prog := rest })
  | lcreateNone {th : Thread} {s : Nat} {more : List Nat} {k : Key} {rest : List Instr}
      (hth : st.threads[i]? = some th) (hw : th.walk = none) (hp : th.prog = .lcreate k :: rest)
      (hl : th.lks = s :: more) (hreg : th.reg = none) :
      StepRel st i (setThread { st with scopes := dataSet st.scopes s k (some st.fresh), fresh := st.fresh + 1 } i
        { th with prog := rest, reg := some st.fresh })
  | lkeys {th : Thread} {s : Nat} {more : List Nat} {rest : List Instr}
      (hth : st.threads[i]? = some th) (hw : th.walk = none) (hp : th.prog = .lkeys :: rest)
      (hl : th.lks = s :: more) :
      StepRel st i (setThread st i { th with prog := rest })
  | commit {th : Thread} {s : Nat} {more : List Nat} {rest : List Instr}
      (hth : st.threads[i]? = some th) (hw : th.walk = none) (hp : th.prog = .commit :: rest)
      (hl : th.lks = s :: more) (hh : isHeld st.scopes s = true) :
      StepRel st i (setThread { st with scopes := setHeld st.scopes s false } i
        { th with prog := rest, lks := more })

theorem step_rel {st t : St} {i : Nat} (h : step st i = some t) : StepRel st i t := by
  unfold step at h
  cases hth : st.threads[i]? with
  | none => simp [hth] at h
  | some th =>
    simp only [hth] at h
    cases hw : th.walk with
    | some sk =>
      obtain ⟨s, k⟩ := sk
      simp only [hw, walkStep] at h
      by_cases hf : isFree st.scopes s = true
      · simp only [hf, if_true] at h
        cases hr : readLevel st.scopes s k with
        | hit v => simp only [hr, Option.some.injEq] at h; subst h; exact .walkHit hth hw hf hr
        | up p => simp only [hr, Option.some.injEq] at h; subst h; exact .walkUp hth hw hf hr
        | bottom => simp only [hr, Option.some.injEq] at h; subst h; exact .walkBottom hth hw hf hr
      · simp [hf] at h
    | none =>
      simp only [hw] at h
      cases hp : th.prog with
      | nil => simp [hp] at h
      | cons ins rest =>
        simp only [hp, instrStep] at h
        cases ins with
        | set s k v =>
          by_cases hf : isFree st.scopes s = true
          · simp only [hf, if_true, Option.some.injEq] at h; subst h; exact .set hth hw hp hf
          · simp [hf] at h
        | get s k =>
          simp only [walkStep] at h
          by_cases hf : isFree st.scopes s = true
          · simp only [hf, if_true] at h
            cases hr : readLevel st.scopes s k with
            | hit v => simp only [hr, Option.some.injEq] at h; subst h; exact .getHit hth hw hp hf hr
            | up p => simp only [hr, Option.some.injEq] at h; subst h; exact .getUp hth hw hp hf hr
            | bottom => simp only [hr, Option.some.injEq] at h; subst h; exact .getBottom hth hw hp hf hr
          · simp [hf] at h
        | keys s =>
          by_cases hf : isFree st.scopes s = true
          · simp only [hf, if_true, Option.some.injEq] at h; subst h; exact .keys hth hw hp hf
          · simp [hf] at h
        | lock s =>
          by_cases hf : isFree st.scopes s = true
          · simp only [hf, if_true, Option.some.injEq] at h; subst h; exact .lock hth hw hp hf
          · simp [hf] at h
        | lget k =>
          cases hl : th.lks with
          | nil => simp [hl] at h
          | cons s more =>
            simp only [hl] at h
            cases hr : readLevel st.scopes s k with
            | hit v => simp only [hr, Option.some.injEq] at h; subst h; have r := StepRel.lgetHit hth hw hp hl hr; rw [hl] at r; exact r
            | up p => simp only [hr, Option.some.injEq] at h; subst h; have r := StepRel.lgetUp hth hw hp hl hr; rw [hl] at r; exact r
            | bottom => simp only [hr, Option.some.injEq] at h; subst h; have r := StepRel.lgetBottom hth hw hp hl hr; rw [hl] at r; exact r
        | lset k v =>
          cases hl : th.lks with
          | nil => simp [hl] at h
          | cons s more => simp only [hl, Option.some.injEq] at h; subst h; have r := StepRel.lset hth hw hp hl; rw [hl] at r; exact r
        | linc k =>
          cases hl : th.lks with
          | nil => simp [hl] at h
          | cons s more => simp only [hl, Option.some.injEq] at h; subst h; have r := StepRel.linc hth hw hp hl; rw [hl] at r; exact r
        | lcreate k =>
          cases hl : th.lks with
          | nil => simp [hl] at h
          | cons s more =>
            simp only [hl] at h
            cases hreg : th.reg with
            | some x => simp only [hreg, Option.some.injEq] at h; subst h; have r := StepRel.lcreateSome hth hw hp hl hreg; rw [hl, hreg] at r; exact r
            | none => simp only [hreg, Option.some.injEq] at h; subst h; have r := StepRel.lcreateNone hth hw hp hl hreg; rw [hl] at r; exact r
        | lkeys =>
          cases hl : th.lks with
          | nil => simp [hl] at h
          | cons s more => simp only [hl, Option.some.injEq] at h; subst h; have r := StepRel.lkeys hth hw hp hl; rw [hl] at r; exact r
        | commit =>
          cases hl : th.lks with
          | nil => simp [hl] at h
          | cons s more =>
            simp only [hl] at h
            by_cases hh : isHeld st.scopes s = true
            · simp only [hh, if_true, Option.some.injEq] at h; subst h; exact .commit hth hw hp hl hh
            · simp [hh] at h

/-! ### thread lookup after an update -/

theorem lt_of_thread {st : St} {i : Nat} {th : Thread} (h : st.threads[i]? = some th) : i < st.threads.length := by
  rcases List.getElem?_eq_some_iff.mp h with ⟨h', _⟩; exact h'

theorem setThread_threads (st : St) (i : Nat) (th : Thread) : (setThread st i th).threads = st.threads.set i th := rfl
theorem setThread_scopes (st : St) (i : Nat) (th : Thread) : (setThread st i th).scopes = st.scopes := rfl
theorem setThread_fresh (st : St) (i : Nat) (th : Thread) : (setThread st i th).fresh = st.fresh := rfl

/-- what a step can do to the shared state and to the stepping thread's lock stack -/
inductive Effect (st : St) (th th' : Thread) (t : St) : Prop where
  | local (hs : t.scopes = st.scopes) (hl : th'.lks = th.lks)
  | write (s : Nat) (k : Key) (v : Val) (hg : isFree st.scopes s = true ∨ s ∈ th.lks)
      (hs : t.scopes = dataSet st.scopes s k v) (hl : th'.lks = th.lks)
  | acquire (s : Nat) (hf : isFree st.scopes s = true) (hs : t.scopes = setHeld st.scopes s true)
      (hl : th'.lks = s :: th.lks)
  | release (s : Nat) (more : List Nat) (hlk : th.lks = s :: more) (hh : isHeld st.scopes s = true)
      (hs : t.scopes = setHeld st.scopes s false) (hl : th'.lks = more)

theorem step_effect {st t : St} {i : Nat} (h : StepRel st i t) :
    ∃ th th', st.threads[i]? = some th ∧ t.threads = st.threads.set i th' ∧ Effect st th th' t := by
  cases h with
  | walkHit hth hw hf hr => exact ⟨_, _, hth, rfl, .local rfl rfl⟩
  | walkUp hth hw hf hr => exact ⟨_, _, hth, rfl, .local rfl rfl⟩
  | walkBottom hth hw hf hr => exact ⟨_, _, hth, rfl, .local rfl rfl⟩
  | set hth hw hp hf => exact ⟨_, _, hth, rfl, .write _ _ _ (Or.inl hf) rfl rfl⟩
  | getHit hth hw hp hf hr => exact ⟨_, _, hth, rfl, .local rfl rfl⟩
  | getUp hth hw hp hf hr => exact ⟨_, _, hth, rfl, .local rfl rfl⟩
  | getBottom hth hw hp hf hr => exact ⟨_, _, hth, rfl, .local rfl rfl⟩
  | keys hth hw hp hf => exact ⟨_, _, hth, rfl, .local rfl rfl⟩
  | lock hth hw hp hf => exact ⟨_, _, hth, rfl, .acquire _ hf rfl rfl⟩
  | lgetHit hth hw hp hl hr => exact ⟨_, _, hth, rfl, .local rfl rfl⟩
  | lgetUp hth hw hp hl hr => exact ⟨_, _, hth, rfl, .local rfl rfl⟩
  | lgetBottom hth hw hp hl hr => exact ⟨_, _, hth, rfl, .local rfl rfl⟩
  | lset hth hw hp hl => exact ⟨_, _, hth, rfl, .write _ _ _ (Or.inr (by simp [hl])) rfl rfl⟩
  | linc hth hw hp hl => exact ⟨_, _, hth, rfl, .write _ _ _ (Or.inr (by simp [hl])) rfl rfl⟩
  | lcreateSome hth hw hp hl hreg => exact ⟨_, _, hth, rfl, .local rfl rfl⟩
  | lcreateNone hth hw hp hl hreg => exact ⟨_, _, hth, rfl, .write _ _ _ (Or.inr (by simp [hl])) rfl rfl⟩
  | lkeys hth hw hp hl => exact ⟨_, _, hth, rfl, .local rfl rfl⟩
  | commit hth hw hp hl hh => exact ⟨_, _, hth, rfl, .release _ _ hl hh rfl rfl⟩

/-! ### the lock invariant -/

/-- a scope in some thread's lock stack is write-held, by that thread only, once -/
structure LockInv (st : St) : Prop where
  held : ∀ (t : Nat) (th : Thread) (s : Nat), st.threads[t]? = some th → s ∈ th.lks → isHeld st.scopes s = true
  uniq : ∀ (t t' : Nat) (th th' : Thread) (s : Nat), st.threads[t]? = some th → st.threads[t']? = some th' →
    s ∈ th.lks → s ∈ th'.lks → t = t'
  nodup : ∀ (t : Nat) (th : Thread), st.threads[t]? = some th → th.lks.Nodup

theorem LockInv_init {st : St} (h : ∀ th ∈ st.threads, th.lks = []) : LockInv st := by
  have h' : ∀ (t : Nat) (th : Thread), st.threads[t]? = some th → th.lks = [] := by
    intro t th ht
    exact h th (List.mem_iff_getElem?.mpr ⟨t, ht⟩)
  refine ⟨?_, ?_, ?_⟩
  · intro t th s ht hs; rw [h' t th ht] at hs; cases hs
  · intro t t' th th' s ht _ hs; rw [h' t th ht] at hs; cases hs
  · intro t th ht; rw [h' t th ht]; exact List.nodup_nil

theorem thread_after {st t : St} {i j : Nat} {th th' x : Thread} (hth : st.threads[i]? = some th)
    (ht : t.threads = st.threads.set i th') (hj : t.threads[j]? = some x) :
    (j = i ∧ x = th') ∨ (j ≠ i ∧ st.threads[j]? = some x) := by
  rw [ht] at hj
  by_cases hji : j = i
  · subst hji
    rw [List.getElem?_set_self (lt_of_thread hth)] at hj
    exact Or.inl ⟨rfl, (Option.some.inj hj).symm⟩
  · rw [List.getElem?_set_ne (Ne.symm hji)] at hj
    exact Or.inr ⟨hji, hj⟩

theorem LockInv_step {st t : St} {i : Nat} (hinv : LockInv st) (h : StepRel st i t) : LockInv t := by
  rcases step_effect h with ⟨th, th', hth, ht, heff⟩
  have hnd := hinv.nodup i th hth
  cases heff with
  | «local» hs hl =>
    refine ⟨?_, ?_, ?_⟩
    · intro a x s ha hsx
      rw [hs]
      rcases thread_after hth ht ha with ⟨_, rfl⟩ | ⟨_, ha'⟩
      · exact hinv.held i th s hth (hl ▸ hsx)
      · exact hinv.held a x s ha' hsx
    · intro a b x y s ha hb hsx hsy
      rcases thread_after hth ht ha with ⟨rfl, rfl⟩ | ⟨hai, ha'⟩ <;>
        rcases thread_after hth ht hb with ⟨rfl, rfl⟩ | ⟨hbi, hb'⟩
      · rfl
      · exact hinv.uniq _ _ _ _ s hth hb' (hl ▸ hsx) hsy
      · exact hinv.uniq _ _ _ _ s ha' hth hsx (hl ▸ hsy)
      · exact hinv.uniq _ _ _ _ s ha' hb' hsx hsy
    · intro a x ha
      rcases thread_after hth ht ha with ⟨_, rfl⟩ | ⟨_, ha'⟩
      · rw [hl]; exact hnd
      · exact hinv.nodup a x ha'
  | write s0 k v hg hs hl =>
    refine ⟨?_, ?_, ?_⟩
    · intro a x s ha hsx
      rw [hs, isHeld_dataSet]
      rcases thread_after hth ht ha with ⟨_, rfl⟩ | ⟨_, ha'⟩
      · exact hinv.held i th s hth (hl ▸ hsx)
      · exact hinv.held a x s ha' hsx
    · intro a b x y s ha hb hsx hsy
      rcases thread_after hth ht ha with ⟨rfl, rfl⟩ | ⟨hai, ha'⟩ <;>
        rcases thread_after hth ht hb with ⟨rfl, rfl⟩ | ⟨hbi, hb'⟩
      · rfl
      · exact hinv.uniq _ _ _ _ s hth hb' (hl ▸ hsx) hsy
      · exact hinv.uniq _ _ _ _ s ha' hth hsx (hl ▸ hsy)
      · exact hinv.uniq _ _ _ _ s ha' hb' hsx hsy
    · intro a x ha
      rcases thread_after hth ht ha with ⟨_, rfl⟩ | ⟨_, ha'⟩
      · rw [hl]; exact hnd
      · exact hinv.nodup a x ha'
  | acquire s0 hf hs hl =>
    -- nobody holds s0: it is free
    have hnobody : ∀ (a : Nat) (x : Thread), st.threads[a]? = some x → s0 ∉ x.lks := by
      intro a x ha hmem
      exact isFree_isHeld hf (hinv.held a x s0 ha hmem)
    refine ⟨?_, ?_, ?_⟩
    · intro a x s ha hsx
      rw [hs]
      by_cases hss : s = s0
      · subst hss; exact isHeld_setHeld_self true (isFree_lt hf)
      · rw [isHeld_setHeld_ne true hss]
        rcases thread_after hth ht ha with ⟨_, rfl⟩ | ⟨_, ha'⟩
        · rw [hl] at hsx
          rcases List.mem_cons.mp hsx with hsx | hsx
          · exact absurd hsx hss
          · exact hinv.held i th s hth hsx
        · exact hinv.held a x s ha' hsx
    · intro a b x y s ha hb hsx hsy
      rcases thread_after hth ht ha with ⟨rfl, rfl⟩ | ⟨hai, ha'⟩ <;>
        rcases thread_after hth ht hb with ⟨rfl, rfl⟩ | ⟨hbi, hb'⟩
      · rfl
      · rw [hl] at hsx
        rcases List.mem_cons.mp hsx with hsx | hsx
        · subst hsx; exact absurd hsy (hnobody _ _ hb')
        · exact hinv.uniq _ _ _ _ s hth hb' hsx hsy
      · rw [hl] at hsy
        rcases List.mem_cons.mp hsy with hsy | hsy
        · subst hsy; exact absurd hsx (hnobody _ _ ha')
        · exact hinv.uniq _ _ _ _ s ha' hth hsx hsy
      · exact hinv.uniq _ _ _ _ s ha' hb' hsx hsy
    · intro a x ha
      rcases thread_after hth ht ha with ⟨_, rfl⟩ | ⟨_, ha'⟩
      · rw [hl]; exact List.nodup_cons.mpr ⟨hnobody i th hth, hnd⟩
      · exact hinv.nodup a x ha'
  | release s0 more hlk hh hs hl =>
    rw [hlk] at hnd
    have hnd' := List.nodup_cons.mp hnd
    refine ⟨?_, ?_, ?_⟩
    · intro a x s ha hsx
      rw [hs]
      rcases thread_after hth ht ha with ⟨_, rfl⟩ | ⟨hai, ha'⟩
      · rw [hl] at hsx
        have hss : s ≠ s0 := fun e => hnd'.1 (e ▸ hsx)
        rw [isHeld_setHeld_ne false hss]
        exact hinv.held i th s hth (by rw [hlk]; exact List.mem_cons_of_mem _ hsx)
      · have hss : s ≠ s0 := by
          intro e
          subst e
          exact hai (hinv.uniq a i x th s ha' hth hsx (by rw [hlk]; exact List.mem_cons_self))
        rw [isHeld_setHeld_ne false hss]
        exact hinv.held a x s ha' hsx
    · intro a b x y s ha hb hsx hsy
      rcases thread_after hth ht ha with ⟨rfl, rfl⟩ | ⟨hai, ha'⟩ <;>
        rcases thread_after hth ht hb with ⟨rfl, rfl⟩ | ⟨hbi, hb'⟩
      · rfl
      · rw [hl] at hsx
        exact hinv.uniq _ _ _ _ s hth hb' (by rw [hlk]; exact List.mem_cons_of_mem _ hsx) hsy
      · rw [hl] at hsy
        exact hinv.uniq _ _ _ _ s ha' hth hsx (by rw [hlk]; exact List.mem_cons_of_mem _ hsy)
      · exact hinv.uniq _ _ _ _ s ha' hb' hsx hsy
    · intro a x ha
      rcases thread_after hth ht ha with ⟨_, rfl⟩ | ⟨_, ha'⟩
      · rw [hl]; exact hnd'.2
      · exact hinv.nodup a x ha'

theorem LockInv_reachable {init : St} (h0 : ∀ th ∈ init.threads, th.lks = []) :
    ∀ st, LTS.Reachable (sys init) st → LockInv st :=
  LTS.inv_of_init_step (sys init) LockInv (LockInv_init h0)
    (fun _ _ _ hinv hs => LockInv_step hinv (step_rel hs))

/-! ### what an action touches -/

/-- an enabled action on scope `s` either found `s`'s mutex free or goes through the stepping
thread's own locker on `s` -/
theorem touches_guard {st t : St} {i s : Nat} (h : StepRel st i t) (hs : touches st i = some s) :
    isFree st.scopes s = true ∨ ∃ th, st.threads[i]? = some th ∧ s ∈ th.lks := by
  cases h with
  | walkHit hth hw hf hr => simp [touches, hth, hw] at hs; subst hs; exact Or.inl hf
  | walkUp hth hw hf hr => simp [touches, hth, hw] at hs; subst hs; exact Or.inl hf
  | walkBottom hth hw hf hr => simp [touches, hth, hw] at hs; subst hs; exact Or.inl hf
  | set hth hw hp hf => simp [touches, hth, hw, hp] at hs; subst hs; exact Or.inl hf
  | getHit hth hw hp hf hr => simp [touches, hth, hw, hp] at hs; subst hs; exact Or.inl hf
  | getUp hth hw hp hf hr => simp [touches, hth, hw, hp] at hs; subst hs; exact Or.inl hf
  | getBottom hth hw hp hf hr => simp [touches, hth, hw, hp] at hs; subst hs; exact Or.inl hf
  | keys hth hw hp hf => simp [touches, hth, hw, hp] at hs; subst hs; exact Or.inl hf
  | lock hth hw hp hf => simp [touches, hth, hw, hp] at hs; subst hs; exact Or.inl hf
  | lgetHit hth hw hp hl hr => simp [touches, hth, hw, hp, hl] at hs; subst hs; exact Or.inr ⟨_, hth, by simp [hl]⟩
  | lgetUp hth hw hp hl hr => simp [touches, hth, hw, hp, hl] at hs; subst hs; exact Or.inr ⟨_, hth, by simp [hl]⟩
  | lgetBottom hth hw hp hl hr => simp [touches, hth, hw, hp, hl] at hs; subst hs; exact Or.inr ⟨_, hth, by simp [hl]⟩
  | lset hth hw hp hl => simp [touches, hth, hw, hp, hl] at hs; subst hs; exact Or.inr ⟨_, hth, by simp [hl]⟩
  | linc hth hw hp hl => simp [touches, hth, hw, hp, hl] at hs; subst hs; exact Or.inr ⟨_, hth, by simp [hl]⟩
  | lcreateSome hth hw hp hl hreg => simp [touches, hth, hw, hp, hl] at hs; subst hs; exact Or.inr ⟨_, hth, by simp [hl]⟩
  | lcreateNone hth hw hp hl hreg => simp [touches, hth, hw, hp, hl] at hs; subst hs; exact Or.inr ⟨_, hth, by simp [hl]⟩
  | lkeys hth hw hp hl => simp [touches, hth, hw, hp, hl] at hs; subst hs; exact Or.inr ⟨_, hth, by simp [hl]⟩
  | commit hth hw hp hl hh => simp [touches, hth, hw, hp, hl] at hs; subst hs; exact Or.inr ⟨_, hth, by simp [hl]⟩

/-- an action changes no scope other than the one it touches -/
theorem step_frame {st t : St} {i s : Nat} (h : StepRel st i t) (hs : touches st i ≠ some s) :
    t.scopes[s]? = st.scopes[s]? := by
  cases h with
  | walkHit hth hw hf hr => rfl
  | walkUp hth hw hf hr => rfl
  | walkBottom hth hw hf hr => rfl
  | set hth hw hp hf =>
    simp [touches, hth, hw, hp] at hs
    exact dataSet_getElem?_ne _ _ (Ne.symm hs)
  | getHit hth hw hp hf hr => rfl
  | getUp hth hw hp hf hr => rfl
  | getBottom hth hw hp hf hr => rfl
  | keys hth hw hp hf => rfl
  | lock hth hw hp hf =>
    simp [touches, hth, hw, hp] at hs
    exact setHeld_getElem?_ne _ (Ne.symm hs)
  | lgetHit hth hw hp hl hr => rfl
  | lgetUp hth hw hp hl hr => rfl
  | lgetBottom hth hw hp hl hr => rfl
  | lset hth hw hp hl =>
    simp [touches, hth, hw, hp, hl] at hs
    exact dataSet_getElem?_ne _ _ (Ne.symm hs)
  | linc hth hw hp hl =>
    simp [touches, hth, hw, hp, hl] at hs
    exact dataSet_getElem?_ne _ _ (Ne.symm hs)
  | lcreateSome hth hw hp hl hreg => rfl
  | lcreateNone hth hw hp hl hreg =>
    simp [touches, hth, hw, hp, hl] at hs
    exact dataSet_getElem?_ne _ _ (Ne.symm hs)
  | lkeys hth hw hp hl => rfl
  | commit hth hw hp hl hh =>
    simp [touches, hth, hw, hp, hl] at hs
    exact setHeld_getElem?_ne _ (Ne.symm hs)

theorem holds_iff {st : St} {t s : Nat} : holds st t s = true ↔ ∃ th, st.threads[t]? = some th ∧ s ∈ th.lks := by
  unfold holds
  cases h : st.threads[t]? with
  | none => simp
  | some th => simp

/-- the core of `lock_exclusive`: in a state satisfying the lock invariant, an enabled action of
thread `i` does not touch a scope that another thread holds -/
theorem no_touch_while_held {st t : St} {i o s : Nat} (hinv : LockInv st) (h : StepRel st i t)
    (hold : holds st o s = true) (hne : o ≠ i) : touches st i ≠ some s := by
  intro hs
  rcases holds_iff.mp hold with ⟨tho, htho, hmem⟩
  rcases touches_guard h hs with hf | ⟨th, hth, hmem'⟩
  · exact isFree_isHeld hf (hinv.held o tho s htho hmem)
  · exact hne (hinv.uniq o i tho th s htho hth hmem hmem')

end Goat.DataScope
