/-
Proofs/DataScopeProgress — the locked sections of the counter scenario never deadlock: as long as
some thread has work left, some thread can move.  Core Lean only.
-/
import Goat.Proofs.DataScopeCounter
import Goat.Proofs.DataScopeCreate

namespace Goat.DataScope

/-- every write-held mutex is held on behalf of a thread that has the scope on its lock stack -/
def OwnedInv (st : St) : Prop :=
  ∀ j, isHeld st.scopes j = true → ∃ (t : Nat) (th : Thread), st.threads[t]? = some th ∧ j ∈ th.lks

theorem thread_set_self {st t : St} {i : Nat} {th th' : Thread} (hth : st.threads[i]? = some th)
    (ht : t.threads = st.threads.set i th') : t.threads[i]? = some th' := by
  rw [ht, List.getElem?_set_self (lt_of_thread hth)]

theorem thread_set_ne {st t : St} {i j : Nat} {th' : Thread} (ht : t.threads = st.threads.set i th') (h : j ≠ i) :
    t.threads[j]? = st.threads[j]? := by
  rw [ht, List.getElem?_set_ne (Ne.symm h)]

theorem OwnedInv_step {st t : St} {i : Nat} (hinv : OwnedInv st) (h : StepRel st i t) : OwnedInv t := by
  rcases step_effect h with ⟨th, th', hth, ht, heff⟩
  -- an owner in `st` whose stack keeps `j` is an owner in `t`
  have keep : ∀ j, (∃ (o : Nat) (x : Thread), st.threads[o]? = some x ∧ j ∈ x.lks) → (j ∈ th.lks → j ∈ th'.lks) →
      ∃ (o : Nat) (x : Thread), t.threads[o]? = some x ∧ j ∈ x.lks := by
    intro j ⟨o, x, ho, hj⟩ hk
    by_cases hoi : o = i
    · subst hoi
      rw [hth] at ho; cases ho
      exact ⟨o, th', thread_set_self hth ht, hk hj⟩
    · exact ⟨o, x, by rw [thread_set_ne ht hoi]; exact ho, hj⟩
  intro j hj
  cases heff with
  | «local» hs hl => rw [hs] at hj; exact keep j (hinv j hj) (fun h => hl ▸ h)
  | write s k v hg hs hl => rw [hs, isHeld_dataSet] at hj; exact keep j (hinv j hj) (fun h => hl ▸ h)
  | acquire s hf hs hl =>
    by_cases hjs : j = s
    · subst hjs
      exact ⟨i, th', thread_set_self hth ht, by rw [hl]; exact List.mem_cons_self⟩
    · rw [hs, isHeld_setHeld_ne true hjs] at hj
      exact keep j (hinv j hj) (fun h => by rw [hl]; exact List.mem_cons_of_mem _ h)
  | release s more hlk hh hs hl =>
    by_cases hjs : j = s
    · subst hjs
      rw [hs, isHeld_setHeld_self false (isHeld_lt hh)] at hj
      cases hj
    · rw [hs, isHeld_setHeld_ne false hjs] at hj
      refine keep j (hinv j hj) (fun h => ?_)
      rw [hlk] at h
      rcases List.mem_cons.mp h with h | h
      · exact absurd h hjs
      · rw [hl]; exact h

theorem readLevel_up_len {ss : Scopes} (h : WF ss) {s p : Nat} {k : Key} (hr : readLevel ss s k = .up p) :
    p < ss.length := by
  have hlt := readLevel_up_lt h hr
  have : s < ss.length := by
    unfold readLevel at hr
    cases hd : dataGet ss s k with
    | some v => simp [hd] at hr
    | none =>
      simp [hd] at hr
      unfold parentOf at hr
      cases hs : ss[s]? with
      | none => simp [hs] at hr
      | some sc => rcases List.getElem?_eq_some_iff.mp hs with ⟨h', _⟩; exact h'
  omega

/-- the thread only names scopes that exist -/
def ValidTh (len : Nat) (th : Thread) : Prop :=
  progValid len th.prog = true ∧ ∀ p k, th.walk = some (p, k) → p < len

theorem progValid_tail {len : Nat} {ins : Instr} {rest : List Instr} (h : progValid len (ins :: rest) = true) :
    instrValid len ins = true ∧ progValid len rest = true := by
  simpa [progValid] using h

/-- programs shrink and walks climb to existing parents -/
theorem ValidTh_step {st t : St} {i : Nat} {th : Thread} (hwf : WF st.scopes) (hth : st.threads[i]? = some th)
    (hv : ValidTh st.scopes.length th) (h : StepRel st i t) :
    ∃ th', t.threads = st.threads.set i th' ∧ ValidTh st.scopes.length th' := by
  cases h with
  | walkHit hth' hw hf hr => rw [hth] at hth'; cases hth'; exact ⟨_, rfl, hv.1, fun _ _ h => by cases h⟩
  | walkUp hth' hw hf hr =>
    rw [hth] at hth'; cases hth'
    exact ⟨_, rfl, hv.1, fun _ _ h => by cases h; exact readLevel_up_len hwf hr⟩
  | walkBottom hth' hw hf hr => rw [hth] at hth'; cases hth'; exact ⟨_, rfl, hv.1, fun _ _ h => by cases h⟩
  | set hth' hw hp hf =>
    rw [hth] at hth'; cases hth'
    exact ⟨_, rfl, (progValid_tail (hp ▸ hv.1)).2, fun p k h => hv.2 p k h⟩
  | getHit hth' hw hp hf hr =>
    rw [hth] at hth'; cases hth'
    exact ⟨_, rfl, (progValid_tail (hp ▸ hv.1)).2, fun _ _ h => by cases h⟩
  | getUp hth' hw hp hf hr =>
    rw [hth] at hth'; cases hth'
    exact ⟨_, rfl, (progValid_tail (hp ▸ hv.1)).2, fun _ _ h => by cases h; exact readLevel_up_len hwf hr⟩
  | getBottom hth' hw hp hf hr =>
    rw [hth] at hth'; cases hth'
    exact ⟨_, rfl, (progValid_tail (hp ▸ hv.1)).2, fun _ _ h => by cases h⟩
  | keys hth' hw hp hf =>
    rw [hth] at hth'; cases hth'
    exact ⟨_, rfl, (progValid_tail (hp ▸ hv.1)).2, fun p k h => hv.2 p k h⟩
  | lock hth' hw hp hf =>
    rw [hth] at hth'; cases hth'
    exact ⟨_, rfl, (progValid_tail (hp ▸ hv.1)).2, fun p k h => hv.2 p k h⟩
  | lgetHit hth' hw hp hl hr =>
    rw [hth] at hth'; cases hth'
    exact ⟨_, rfl, (progValid_tail (hp ▸ hv.1)).2, fun p k h => hv.2 p k h⟩
  | lgetUp hth' hw hp hl hr =>
    rw [hth] at hth'; cases hth'
    exact ⟨_, rfl, (progValid_tail (hp ▸ hv.1)).2, fun _ _ h => by cases h; exact readLevel_up_len hwf hr⟩
  | lgetBottom hth' hw hp hl hr =>
    rw [hth] at hth'; cases hth'
    exact ⟨_, rfl, (progValid_tail (hp ▸ hv.1)).2, fun p k h => hv.2 p k h⟩
  | lset hth' hw hp hl =>
    rw [hth] at hth'; cases hth'
    exact ⟨_, rfl, (progValid_tail (hp ▸ hv.1)).2, fun p k h => hv.2 p k h⟩
  | linc hth' hw hp hl =>
    rw [hth] at hth'; cases hth'
    exact ⟨_, rfl, (progValid_tail (hp ▸ hv.1)).2, fun p k h => hv.2 p k h⟩
  | lcreateSome hth' hw hp hl hreg =>
    rw [hth] at hth'; cases hth'
    exact ⟨_, rfl, (progValid_tail (hp ▸ hv.1)).2, fun p k h => hv.2 p k h⟩
  | lcreateNone hth' hw hp hl hreg =>
    rw [hth] at hth'; cases hth'
    exact ⟨_, rfl, (progValid_tail (hp ▸ hv.1)).2, fun p k h => hv.2 p k h⟩
  | lkeys hth' hw hp hl =>
    rw [hth] at hth'; cases hth'
    exact ⟨_, rfl, (progValid_tail (hp ▸ hv.1)).2, fun p k h => hv.2 p k h⟩
  | commit hth' hw hp hl hh =>
    rw [hth] at hth'; cases hth'
    exact ⟨_, rfl, (progValid_tail (hp ▸ hv.1)).2, fun p k h => hv.2 p k h⟩

structure PInv (s : Nat) (c : Key) (n total len : Nat) (st : St) : Prop where
  cinv : CInv s c n total st
  wf : WF st.scopes
  hlen : st.scopes.length = len
  owned : OwnedInv st
  valid : ∀ (i : Nat) (th : Thread), st.threads[i]? = some th → ValidTh len th

theorem PInv_step {s : Nat} {c : Key} {n total len : Nat} {st t : St} {i : Nat}
    (hinv : PInv s c n total len st) (hs : step st i = some t) : PInv s c n total len t := by
  have hrel := step_rel hs
  refine ⟨CInv_step hinv.cinv hs, step_wf hrel hinv.wf, by rw [step_length hrel]; exact hinv.hlen,
    OwnedInv_step hinv.owned hrel, ?_⟩
  cases hth : st.threads[i]? with
  | none => simp [step, hth] at hs
  | some th =>
    have hv := hinv.valid i th hth
    rw [← hinv.hlen] at hv
    rcases ValidTh_step hinv.wf hth hv hrel with ⟨th', ht, hv'⟩
    intro j x hj
    rcases thread_after hth ht hj with ⟨_, rfl⟩ | ⟨_, hj'⟩
    · rw [← hinv.hlen]; exact hv'
    · exact hinv.valid j x hj'

theorem progValid_incProg {len s : Nat} (c : Key) (hs : s < len) : ∀ k, progValid len (incProg s c k) = true := by
  intro k
  induction k with
  | zero => rfl
  | succ k ih =>
    simp only [progValid] at ih
    simp [incProg_succ, progValid, instrValid, hs, ih]

theorem PInv_init {ss : Scopes} {s : Nat} {c : Key} {v0 n k fresh : Nat} {others : List (List Instr)}
    (hwf : WF ss) (hfree : AllFree ss)
    (hv : dataGet ss s c = some (some v0)) (hn : ∀ p ∈ others, isNoise s c p = true)
    (hvalid : ∀ p ∈ others, progValid ss.length p = true) :
    PInv s c n (v0 + n * k) ss.length (initSt ss n (incProg s c k) others fresh) := by
  refine ⟨CInv_init hv hn, hwf, rfl, ?_, ?_⟩
  · intro j hj
    simp only [initSt, isHeld] at hj
    cases hsc : ss[j]? with
    | none => simp [hsc] at hj
    | some sc => simp [hsc, hfree j sc hsc] at hj
  · intro i th hth
    rcases initSt_thread hth with ⟨_, rfl⟩ | ⟨_, p, hp, rfl⟩
    · exact ⟨progValid_incProg c (dataGet_lt hv) k, fun _ _ h => by cases h⟩
    · exact ⟨hvalid p hp, fun _ _ h => by cases h⟩

theorem isFree_of_not_held {ss : Scopes} {j : Nat} (hj : j < ss.length) (h : isHeld ss j = false) : isFree ss j = true := by
  have : ∃ sc, ss[j]? = some sc := ⟨ss[j], by simp [hj]⟩
  rcases this with ⟨sc, hsc⟩
  simp [isHeld, hsc] at h
  simp [isFree, hsc, h]

theorem walkStep_some {st : St} {i : Nat} {th : Thread} {p : Nat} {k : Key} (hf : isFree st.scopes p = true) :
    ∃ t, walkStep st i th p k = some t := by
  unfold walkStep
  simp only [hf, if_true]
  cases readLevel st.scopes p k <;> exact ⟨_, rfl⟩

/-- in the counter scenario some thread can always move until every thread has finished -/
theorem counter_enabled {s : Nat} {c : Key} {n total len : Nat} {st : St}
    (hinv : PInv s c n total len st) (hnd : allDone st = false) : ∃ i t, step st i = some t := by
  have hslt : s < st.scopes.length := by
    rcases hinv.cinv.count with ⟨v, hv, _⟩
    exact dataGet_lt hv
  by_cases hold : ∃ (o : Nat) (tho : Thread), st.threads[o]? = some tho ∧ s ∈ tho.lks
  · -- the holder of `s` is never blocked: its next actions go through its locker
    rcases hold with ⟨o, tho, htho, hmem⟩
    have hph := hinv.cinv.phase o tho htho
    refine ⟨o, ?_⟩
    unfold step
    simp only [htho]
    generalize decide (o < n) = r at hph
    cases hph with
    | noise hl hp => rw [hl] at hmem; cases hmem
    | idle m hp hl hw => rw [hl] at hmem; cases hmem
    | locked m hp hl hw =>
      simp only [hw, hp, instrStep, hl]
      cases readLevel st.scopes s c <;> exact ⟨_, rfl⟩
    | read m hp hl hw hr =>
      simp only [hw, hp, instrStep, hl]
      exact ⟨_, rfl⟩
    | written m hp hl hw =>
      have hh := hinv.cinv.lock.held o tho s htho hmem
      simp only [hw, hp, instrStep, hl, hh, if_true]
      exact ⟨_, rfl⟩
  · -- nobody holds `s`, hence no mutex is taken at all
    have allfree : ∀ j, j < st.scopes.length → isFree st.scopes j = true := by
      intro j hj
      apply isFree_of_not_held hj
      cases hh : isHeld st.scopes j with
      | false => rfl
      | true =>
        exfalso
        rcases hinv.owned j hh with ⟨o, x, ho, hjx⟩
        have hph := hinv.cinv.phase o x ho
        generalize decide (o < n) = r at hph
        have hjs : j = s := by
          cases hph with
          | noise hl hp => rw [hl] at hjx; cases hjx
          | idle m hp hl hw => rw [hl] at hjx; cases hjx
          | locked m hp hl hw => rw [hl] at hjx; simpa using hjx
          | read m hp hl hw hr => rw [hl] at hjx; simpa using hjx
          | written m hp hl hw => rw [hl] at hjx; simpa using hjx
        exact hold ⟨o, x, ho, hjs ▸ hjx⟩
    -- pick an unfinished thread
    have : ∃ th ∈ st.threads, Thread.finished th = false := by
      unfold allDone at hnd
      rcases List.all_eq_false.mp hnd with ⟨th, hth, hf⟩
      exact ⟨th, hth, by simpa using hf⟩
    rcases this with ⟨th, hmem, hfin⟩
    rcases List.mem_iff_getElem?.mp hmem with ⟨i, hth⟩
    have hph := hinv.cinv.phase i th hth
    have hval := hinv.valid i th hth
    rw [← hinv.hlen] at hval
    refine ⟨i, ?_⟩
    unfold step
    simp only [hth]
    generalize decide (i < n) = r at hph
    cases hph with
    | noise hl hp =>
      cases hw : th.walk with
      | some pk =>
        obtain ⟨p, k⟩ := pk
        simp only []
        exact walkStep_some (allfree p (hval.2 p k hw))
      | none =>
        simp only []
        cases hprog : th.prog with
        | nil => simp [Thread.finished, hprog, hw] at hfin
        | cons ins rest =>
          simp only [instrStep]
          have hv1 := (progValid_tail (hprog ▸ hval.1)).1
          have hn1 := (isNoise_cons (hprog ▸ hp)).1
          cases ins with
          | set s' k' v' =>
            simp [instrValid] at hv1
            simp only [allfree s' hv1, if_true]; exact ⟨_, rfl⟩
          | get s' k' =>
            simp [instrValid] at hv1
            exact walkStep_some (allfree s' hv1)
          | keys s' =>
            simp [instrValid] at hv1
            simp only [allfree s' hv1, if_true]; exact ⟨_, rfl⟩
          | lock s' => simp [noiseOK] at hn1
          | lget k' => simp [noiseOK] at hn1
          | lset k' v' => simp [noiseOK] at hn1
          | linc k' => simp [noiseOK] at hn1
          | lcreate k' => simp [noiseOK] at hn1
          | lkeys => simp [noiseOK] at hn1
          | commit => simp [noiseOK] at hn1
    | idle m hp hl hw =>
      cases m with
      | zero => simp [Thread.finished, hp, hw, incProg] at hfin
      | succ m =>
        simp only [hw, hp, incProg_succ, instrStep, allfree s hslt, if_true]
        exact ⟨_, rfl⟩
    | locked m hp hl hw => exact absurd ⟨i, th, hth, by simp [hl]⟩ hold
    | read m hp hl hw hr => exact absurd ⟨i, th, hth, by simp [hl]⟩ hold
    | written m hp hl hw => exact absurd ⟨i, th, hth, by simp [hl]⟩ hold

theorem PInv_run {ss : Scopes} {s : Nat} {c : Key} {v0 n k fresh : Nat} {others : List (List Instr)}
    (hwf : WF ss) (hfree : AllFree ss)
    (hv : dataGet ss s c = some (some v0)) (hn : ∀ p ∈ others, isNoise s c p = true)
    (hvalid : ∀ p ∈ others, progValid ss.length p = true) (sched : List Nat) :
    PInv s c n (v0 + n * k) ss.length ((sys (initSt ss n (incProg s c k) others fresh)).run sched) :=
  LTS.inv_run (sys _) (PInv s c n (v0 + n * k) ss.length) (PInv_init hwf hfree hv hn hvalid)
    (fun _ _ _ hinv h => PInv_step hinv h) sched

/-! ### every execution is finite -/

/-- work a thread has left: instructions (each may start a walk over at most `len` scopes) and the
remaining levels of a walk in progress -/
def thMeasure (len : Nat) (th : Thread) : Nat :=
  th.prog.length * (len + 1) + (match th.walk with | some (p, _) => p + 1 | none => 0)

def stMeasure (len : Nat) (st : St) : Nat := (st.threads.map (thMeasure len)).sum

theorem sum_map_set_lt {α : Type} (f : α → Nat) {l : List α} {i : Nat} {a b : α} (h : l[i]? = some a) (hlt : f b < f a) :
    ((l.set i b).map f).sum < (l.map f).sum := by
  induction l generalizing i with
  | nil => simp at h
  | cons x rest ih =>
    cases i with
    | zero => simp at h; subst h; simp; omega
    | succ i =>
      simp at h
      have := ih h
      simp only [List.set_cons_succ, List.map_cons, List.sum_cons]
      omega

structure TInv (len : Nat) (st : St) : Prop where
  wf : WF st.scopes
  hlen : st.scopes.length = len
  valid : ∀ (i : Nat) (th : Thread), st.threads[i]? = some th → ValidTh len th

theorem TInv_step {len : Nat} {st t : St} {i : Nat} (hinv : TInv len st) (hs : step st i = some t) : TInv len t := by
  have hrel := step_rel hs
  refine ⟨step_wf hrel hinv.wf, by rw [step_length hrel]; exact hinv.hlen, ?_⟩
  cases hth : st.threads[i]? with
  | none => simp [step, hth] at hs
  | some th =>
    have hv := hinv.valid i th hth
    rw [← hinv.hlen] at hv
    rcases ValidTh_step hinv.wf hth hv hrel with ⟨th', ht, hv'⟩
    intro j x hj
    rcases thread_after hth ht hj with ⟨_, rfl⟩ | ⟨_, hj'⟩
    · rw [← hinv.hlen]; exact hv'
    · exact hinv.valid j x hj'

theorem PInv.toTInv {s : Nat} {c : Key} {n total len : Nat} {st : St} (h : PInv s c n total len st) : TInv len st :=
  ⟨h.wf, h.hlen, h.valid⟩

/-- every action strictly decreases the measure -/
theorem measure_step {len : Nat} {st t : St} {i : Nat} (hinv : TInv len st) (hs : step st i = some t) :
    stMeasure len t < stMeasure len st := by
  have hrel := step_rel hs
  have key : ∃ th th', st.threads[i]? = some th ∧ t.threads = st.threads.set i th' ∧ thMeasure len th' < thMeasure len th := by
    have hL := hinv.hlen
    cases hrel with
    | walkHit hth hw hf hr => exact ⟨_, _, hth, rfl, by simp [thMeasure, hw]⟩
    | walkUp hth hw hf hr =>
      have := readLevel_up_lt hinv.wf hr
      exact ⟨_, _, hth, rfl, by simp [thMeasure, hw]; omega⟩
    | walkBottom hth hw hf hr => exact ⟨_, _, hth, rfl, by simp [thMeasure, hw]⟩
    | set hth hw hp hf => exact ⟨_, _, hth, rfl, by simp [thMeasure, hw, hp, Nat.succ_mul]⟩
    | getHit hth hw hp hf hr => exact ⟨_, _, hth, rfl, by simp [thMeasure, hw, hp, Nat.succ_mul]⟩
    | getUp hth hw hp hf hr =>
      have := readLevel_up_len hinv.wf hr
      exact ⟨_, _, hth, rfl, by simp [thMeasure, hw, hp, Nat.succ_mul]; omega⟩
    | getBottom hth hw hp hf hr => exact ⟨_, _, hth, rfl, by simp [thMeasure, hw, hp, Nat.succ_mul]⟩
    | keys hth hw hp hf => exact ⟨_, _, hth, rfl, by simp [thMeasure, hw, hp, Nat.succ_mul]⟩
    | lock hth hw hp hf => exact ⟨_, _, hth, rfl, by simp [thMeasure, hw, hp, Nat.succ_mul]⟩
    | lgetHit hth hw hp hl hr => exact ⟨_, _, hth, rfl, by simp [thMeasure, hw, hp, Nat.succ_mul]⟩
    | lgetUp hth hw hp hl hr =>
      have := readLevel_up_len hinv.wf hr
      exact ⟨_, _, hth, rfl, by simp [thMeasure, hw, hp, Nat.succ_mul]; omega⟩
    | lgetBottom hth hw hp hl hr => exact ⟨_, _, hth, rfl, by simp [thMeasure, hw, hp, Nat.succ_mul]⟩
    | lset hth hw hp hl => exact ⟨_, _, hth, rfl, by simp [thMeasure, hw, hp, Nat.succ_mul]⟩
    | linc hth hw hp hl => exact ⟨_, _, hth, rfl, by simp [thMeasure, hw, hp, Nat.succ_mul]⟩
    | lcreateSome hth hw hp hl hreg => exact ⟨_, _, hth, rfl, by simp [thMeasure, hw, hp, Nat.succ_mul]⟩
    | lcreateNone hth hw hp hl hreg => exact ⟨_, _, hth, rfl, by simp [thMeasure, hw, hp, Nat.succ_mul]⟩
    | lkeys hth hw hp hl => exact ⟨_, _, hth, rfl, by simp [thMeasure, hw, hp, Nat.succ_mul]⟩
    | commit hth hw hp hl hh => exact ⟨_, _, hth, rfl, by simp [thMeasure, hw, hp, Nat.succ_mul]⟩
  rcases key with ⟨th, th', hth, ht, hlt⟩
  unfold stMeasure
  rw [ht]
  exact sum_map_set_lt (thMeasure len) hth hlt

/-- hence no schedule produces more actions than the initial measure -/
theorem fired_bounded {len : Nat} {init : St} :
    ∀ (sched : List Nat) (st : St), TInv len st → ((sys init).firedFrom st sched).length ≤ stMeasure len st := by
  intro sched
  induction sched with
  | nil => intro st _; simp [LTS.Sys.firedFrom]
  | cons i rest ih =>
    intro st hinv
    simp only [LTS.Sys.firedFrom]
    cases hs : (sys init).step st i with
    | none => simp only []; exact ih st hinv
    | some t =>
      simp only [List.length_cons]
      have hs' : step st i = some t := hs
      have := ih t (TInv_step hinv hs')
      have := measure_step hinv hs'
      omega

end Goat.DataScope
