/-
Helper lemmas for the service-unit reading of the data scope (`Model/DataScopeSvc.lean`, C13).
-/
import Goat.Proofs.DataScope
import Goat.Model.DataScopeSvc

namespace Goat.DataScope

/-- a node with an own slot answers with it, whatever its ancestors hold -/
theorem value_of_own {ss : Scopes} (hwf : WF ss) {n : Nat} {k : Key} {v : Val} (h : dataGet ss n k = some v) :
    value ss n k = v := by
  rw [value_unfold hwf]
  simp [readLevel, h]

theorem sectFold_WF (n : Nat) (ws : List (Key × Val)) :
    ∀ ss : Scopes, WF ss → WF (ws.foldl (fun ss w => dataSet ss n w.1 w.2) ss) := by
  induction ws with
  | nil => intro ss h; exact h
  | cons w ws ih => intro ss h; exact ih _ (WF_dataSet h n w.1 w.2)

theorem sectFold_length (n : Nat) (ws : List (Key × Val)) :
    ∀ ss : Scopes, (ws.foldl (fun ss w => dataSet ss n w.1 w.2) ss).length = ss.length := by
  induction ws with
  | nil => intro ss; rfl
  | cons w ws ih => intro ss; simp only [List.foldl_cons]; rw [ih, dataSet_length]

theorem sectFold_dataGet (n j : Nat) (k : Key) (ws : List (Key × Val))
    (h : (n == j && ws.any (fun w => w.1 == k)) = false) :
    ∀ ss : Scopes, dataGet (ws.foldl (fun ss w => dataSet ss n w.1 w.2) ss) j k = dataGet ss j k := by
  induction ws with
  | nil => intro ss; rfl
  | cons w ws ih =>
    intro ss
    simp only [List.foldl_cons]
    have h1 : (n == j && ws.any (fun w => w.1 == k)) = false := by
      simp only [List.any_cons, Bool.and_eq_false_iff, Bool.or_eq_false_iff] at h ⊢
      rcases h with h | h
      · exact Or.inl h
      · exact Or.inr h.2
    rw [ih h1, dataGet_dataSet_other]
    simp only [List.any_cons, Bool.and_eq_false_iff, Bool.or_eq_false_iff] at h
    rcases h with h | h
    · left; intro e; subst e; simp at h
    · right; intro e; have := h.1; simp [e] at this

theorem svcStep_WF {σ : Svc} (h : WF σ.ss) (op : SvcOp) : WF (svcStep σ op).ss := by
  cases op with
  | goc n k =>
    simp only [svcStep, svcGoc]
    cases value σ.ss n k with
    | some v => exact h
    | none => exact WF_dataSet h n k _
  | bind n k m => exact WF_dataSet h n k _
  | clear n k => exact WF_dataSet h n k _
  | set n k v => exact WF_dataSet h n k _
  | get n k => exact h
  | sect n ws => exact sectFold_WF n ws _ h

theorem svcStep_length (σ : Svc) (op : SvcOp) : (svcStep σ op).ss.length = σ.ss.length := by
  cases op with
  | goc n k =>
    simp only [svcStep, svcGoc]
    cases value σ.ss n k with
    | some v => rfl
    | none => exact dataSet_length _ _ _ _
  | bind n k m => exact dataSet_length _ _ _ _
  | clear n k => exact dataSet_length _ _ _ _
  | set n k v => exact dataSet_length _ _ _ _
  | get n k => rfl
  | sect n ws => exact sectFold_length n ws _

private theorem ne_of_beq_and_false {n' n : Nat} {k' k : Key} (h : (n' == n && k' == k) = false) :
    n ≠ n' ∨ k ≠ k' := by
  simp only [Bool.and_eq_false_iff, beq_eq_false_iff_ne] at h
  rcases h with h | h
  · exact Or.inl (fun e => h e.symm)
  · exact Or.inr (fun e => h e.symm)

/-- an op that does not touch the own slot `(n, k)` leaves it as it is -/
theorem svcStep_ownSlot (σ : Svc) (op : SvcOp) (n : Nat) (k : Key) (h : op.touches n k = false) :
    dataGet (svcStep σ op).ss n k = dataGet σ.ss n k := by
  cases op with
  | goc n' k' =>
    simp only [svcStep, svcGoc]
    cases value σ.ss n' k' with
    | some v => rfl
    | none => exact dataGet_dataSet_other _ _ _ _ _ _ (ne_of_beq_and_false h)
  | bind n' k' m => exact dataGet_dataSet_other _ _ _ _ _ _ (ne_of_beq_and_false h)
  | clear n' k' => exact dataGet_dataSet_other _ _ _ _ _ _ (ne_of_beq_and_false h)
  | set n' k' v => exact dataGet_dataSet_other _ _ _ _ _ _ (ne_of_beq_and_false h)
  | get n' k' => rfl
  | sect n' ws => exact sectFold_dataGet n' n k ws h _

theorem svcRun_WF (ops : List SvcOp) : ∀ σ : Svc, WF σ.ss → WF (svcRun σ ops).ss := by
  induction ops with
  | nil => intro σ h; exact h
  | cons op ops ih => intro σ h; exact ih _ (svcStep_WF h op)

theorem svcRun_ownSlot (n : Nat) (k : Key) (ops : List SvcOp) (h : ∀ op ∈ ops, op.touches n k = false) :
    ∀ σ : Svc, dataGet (svcRun σ ops).ss n k = dataGet σ.ss n k := by
  induction ops with
  | nil => intro σ; rfl
  | cons op ops ih =>
    intro σ
    simp only [svcRun, List.foldl_cons]
    have := ih (fun o ho => h o (List.mem_cons_of_mem _ ho)) (svcStep σ op)
    simp only [svcRun] at this
    rw [this, svcStep_ownSlot σ op n k (h op (List.mem_cons_self ..))]

/-- the own slot decides: as long as nothing touches slot `(n, k)`, node `n` resolves to what it holds -/
theorem svcRun_sticky {σ : Svc} (hwf : WF σ.ss) {n : Nat} {k : Key} {v : Val} (hown : dataGet σ.ss n k = some v)
    (ops : List SvcOp) (h : ∀ op ∈ ops, op.touches n k = false) :
    resolve (svcRun σ ops) n k = v := by
  unfold resolve
  apply value_of_own (svcRun_WF ops σ hwf)
  rw [svcRun_ownSlot n k ops h σ, hown]

/-! ### get-or-create through the request interpreter = `svcGoc` (nobody holds a lock) -/

theorem setHeld_setHeld_self {ss : Scopes} {s : Nat} {sc : Scope} (hsc : ss[s]? = some sc) (hh : sc.held = false) :
    setHeld (setHeld ss s true) s false = ss := by
  have hs : s < ss.length := (List.getElem?_eq_some_iff.mp hsc).1
  apply List.ext_getElem?
  intro j
  by_cases hj : j = s
  · subst hj
    rw [setHeld_getElem?_self false (setHeld_getElem?_self true hsc), hsc]
    cases sc; simp_all
  · rw [setHeld_getElem?_ne false hj, setHeld_getElem?_ne true hj]

theorem setHeld_dataSet_setHeld {ss : Scopes} {s : Nat} {sc : Scope} (hsc : ss[s]? = some sc) (hh : sc.held = false)
    (k : Key) (v : Val) :
    setHeld (dataSet (setHeld ss s true) s k v) s false = dataSet ss s k v := by
  apply List.ext_getElem?
  intro j
  by_cases hj : j = s
  · subst hj
    have h1 := setHeld_getElem?_self true hsc
    have h2 := dataSet_getElem?_self k v h1
    rw [setHeld_getElem?_self false h2, dataSet_getElem?_self k v hsc]
    cases sc; simp_all
  · rw [setHeld_getElem?_ne false hj, dataSet_getElem?_ne k v hj, setHeld_getElem?_ne true hj, dataSet_getElem?_ne k v hj]

/-- `FromScope` as the interpreter runs it (LockData, locker.Value, create + locker.SetValue when nil, Commit)
on a heap where no lock is held: it never waits, and it is `svcGoc` -/
theorem gocRun_eq {st : Store} (hwf : WF st.scopes) (hfree : AllFree st.scopes) (fresh n : Nat) (k : Key)
    (hn : n < st.scopes.length) :
    ∃ st', gocRun st fresh n k = some (st', (svcGoc ⟨st.scopes, fresh⟩ n k).1.fresh, (svcGoc ⟨st.scopes, fresh⟩ n k).2) ∧
      st'.scopes = (svcGoc ⟨st.scopes, fresh⟩ n k).1.ss := by
  have : ∃ sc, st.scopes[n]? = some sc := ⟨st.scopes[n], by simp [hn]⟩
  rcases this with ⟨sc, hsc⟩
  have hheld : sc.held = false := hfree n sc hsc
  -- the store after LockData
  let st1 : Store :=
    { scopes := setHeld st.scopes n true,
      lockers := st.lockers ++ [{ target := some n, parent := sc.parent, unlock := .scope n, held := false }] }
  have hlock : run st (.req (.lock n)) = (st1, .inl (.locker st.lockers.length)) := run_lock hfree n sc hsc
  have hwf1 : WF st1.scopes := WF_setHeld hwf n true
  have hsc1 : st1.scopes[n]? = some { sc with held := true } := setHeld_getElem?_self true hsc
  have hlk1 : st1.lockers[st.lockers.length]? =
      some { target := some n, parent := ({ sc with held := true } : Scope).parent, unlock := .scope n, held := false } := by
    simp [st1]
  have hoth1 : ∀ (i : Nat) (x : Scope), i ≠ n → st1.scopes[i]? = some x → x.held = false := by
    intro i x hi hx
    have : st.scopes[i]? = some x := by rw [← setHeld_getElem?_ne true hi]; exact hx
    exact hfree i x this
  have hval1 : value st1.scopes n k = value st.scopes n k := value_setHeld st.scopes n n true k
  have hsec := fun (v : Val) => run_locker hwf1 n st.lockers.length _ _ hsc1 hlk1 rfl rfl hoth1 k v
  unfold gocRun
  rw [hlock]
  simp only
  rw [(hsec none).1, hval1]
  unfold svcGoc
  simp only
  cases hv : value st.scopes n k with
  | some v =>
    simp only
    have h3 := (hsec none).2.2.1
    have h4 := (hsec none).2.2.2
    cases hc : run st1 (.req (.commit st.lockers.length)) with
    | mk st3 r =>
      rw [hc] at h3 h4
      simp only at h3 h4
      subst h3
      refine ⟨st3, rfl, ?_⟩
      rw [h4]
      exact setHeld_setHeld_self hsc hheld
  | none =>
    simp only
    rw [(hsec (some fresh)).2.1]
    simp only
    -- the store after locker.SetValue
    let st2 : Store := { st1 with scopes := dataSet st1.scopes n k (some fresh) }
    have hsc2 : st2.scopes[n]? = some { ({ sc with held := true } : Scope) with data := mset sc.data k (some fresh) } :=
      dataSet_getElem?_self k (some fresh) hsc1
    have hoth2 : ∀ (i : Nat) (x : Scope), i ≠ n → st2.scopes[i]? = some x → x.held = false := by
      intro i x hi hx
      have : st1.scopes[i]? = some x := by rw [← dataSet_getElem?_ne k (some fresh) hi]; exact hx
      exact hoth1 i x hi this
    have hsec2 := run_locker (st := st2) (WF_dataSet hwf1 n k (some fresh)) n st.lockers.length _ _ hsc2 hlk1 rfl rfl hoth2 k none
    have h3 := hsec2.2.2.1
    have h4 := hsec2.2.2.2
    cases hc : run st2 (.req (.commit st.lockers.length)) with
    | mk st3 r =>
      rw [hc] at h3 h4
      simp only at h3 h4
      subst h3
      refine ⟨st3, rfl, ?_⟩
      rw [h4]
      exact setHeld_dataSet_setHeld hsc hheld k (some fresh)

end Goat.DataScope
