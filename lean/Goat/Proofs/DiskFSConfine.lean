/-
Confinement to the root directory of the host (helper lemmas for C02): no call through a disk filespace
or one of its views turns an existing directory into something else unless it removes it below its own
root (`DirKeep`), so the root directory survives; with `step_clean` nothing outside the root directory
changes, over whole histories (`Conf`, `conf_run`), and no outcome of a history is a panic.
-/
import Goat.Proofs.DiskFSRefuse
import Goat.Proofs.DiskFSRun

namespace Goat
namespace DiskFS

open Path (Name norm)
open FS (Op Result Entry State TreeLike)

/-- every directory is still a directory -/
def DirKeep (H H' : Host) : Prop := ∀ q, H.get q = some .dir → H'.get q = some .dir

theorem DirKeep.refl (H : Host) : DirKeep H H := fun _ h => h

theorem DirKeep.trans {H H1 H2 : Host} (h1 : DirKeep H H1) (h2 : DirKeep H1 H2) : DirKeep H H2 :=
  fun q h => h2 q (h1 q h)

theorem dirKeep_of_eq {H H' : Host} (h : H'.get = H.get) : DirKeep H H' := fun q hq => by rw [h]; exact hq

theorem dirKeep_mkdirAll {H H' : Host} (hwf : H.WF) {p : HPath} (h : osMkdirAll H p = some H') : DirKeep H H' := by
  obtain ⟨_, _, hget⟩ := osMkdirAll_some hwf h
  intro q hq
  rw [hget]
  simp only [FS.mkdirSt]
  split
  · rfl
  · exact hq

theorem dirKeep_put {H : Host} {p : HPath} (e : Entry) (hp : p ≠ []) (hnd : H.get p ≠ some .dir) :
    DirKeep H (H.put p e) := by
  intro q hq
  rw [Host.get_put _ _ _ hp]
  have : q ≠ p := fun hc => hnd (hc ▸ hq)
  simp [this, hq]

theorem dirKeep_openTrunc {H H' : Host} {x : HP} (h : osOpenTrunc H x = some H') : DirKeep H H' := by
  obtain ⟨hne, _, hnd, rfl⟩ := osOpenTrunc_some h
  exact dirKeep_put _ hne hnd

theorem dirKeep_append {H H' : Host} {p : HPath} (hp : p ≠ []) {c : Bytes} (h : osAppend H p c = some H') :
    DirKeep H H' := by
  simp only [osAppend] at h
  cases hg : H.get p with
  | none => simp [hg] at h
  | some e =>
    cases e with
    | dir => simp [hg] at h
    | file d =>
      simp only [hg, Option.some.injEq] at h
      subst h
      exact dirKeep_put _ hp (by rw [hg]; intro hc; cases hc)

theorem dirKeep_appendAll {H H' : Host} {p : HPath} (hp : p ≠ []) {cs : List Bytes}
    (h : osAppendAll H p cs = some H') : DirKeep H H' := by
  induction cs generalizing H with
  | nil => simp only [osAppendAll, Option.some.injEq] at h; subst h; exact DirKeep.refl _
  | cons c cs ih =>
    simp only [osAppendAll] at h
    cases h1 : osAppend H p c with
    | none => simp [h1] at h
    | some H1 =>
      simp only [h1] at h
      exact (dirKeep_append hp h1).trans (ih h)

theorem dirKeep_copyFile (H : Host) (src dst : HP) : DirKeep H (copyFile H src dst).1 := by
  simp only [copyFile]
  cases hs : osStat H src with
  | none => exact DirKeep.refl _
  | some e =>
    cases e with
    | dir => exact DirKeep.refl _
    | file x =>
      simp only []
      cases ho : osOpenTrunc H dst with
      | none => exact DirKeep.refl _
      | some H1 =>
        have hk1 := dirKeep_openTrunc ho
        have hne := (osOpenTrunc_some ho).1
        simp only []
        cases hg : H1.get src.path with
        | none => exact hk1
        | some e2 =>
          cases e2 with
          | dir => exact hk1
          | file data =>
            simp only []
            cases ha : osAppend H1 dst.path data with
            | none => exact hk1
            | some H2 => exact hk1.trans (dirKeep_append hne ha)

theorem dirKeep_copyNodes (src dest : HP) (H : Host) (hwf : H.WF) (l : List (HPath × Bool)) :
    DirKeep H (copyNodes src dest H l).1 := by
  induction l generalizing H with
  | nil => exact DirKeep.refl _
  | cons x rest ih =>
    obtain ⟨sub, b⟩ := x
    cases b with
    | true =>
      simp only [copyNodes]
      cases hm : osMkdirAll H (dest.join sub).path with
      | none => exact DirKeep.refl _
      | some H1 =>
        have hwf1 := (osMkdirAll_some hwf hm).2.1
        exact (dirKeep_mkdirAll hwf hm).trans (ih H1 hwf1)
    | false =>
      simp only [copyNodes]
      have hk1 := dirKeep_copyFile H (src.join sub) (dest.join sub)
      have hwf1 := (touch_copyFile hwf (src.join sub) (dest.join sub)).1
      cases hc : copyFile H (src.join sub) (dest.join sub) with
      | mk H1 ok =>
        rw [hc] at hk1 hwf1
        cases ok with
        | false => exact hk1
        | true => exact hk1.trans (ih H1 hwf1)

theorem dirKeep_copyDirectory {H : Host} (hwf : H.WF) (src dest : HP) (e : Eff)
    (h : copyDirectory H src dest = .eff e) : DirKeep H e.1 := by
  simp only [copyDirectory] at h
  cases hs : osStat H src with
  | none => simp only [hs, EffP.eff.injEq] at h; subst h; exact DirKeep.refl _
  | some en =>
    cases en with
    | file x => simp only [hs, EffP.eff.injEq] at h; subst h; exact DirKeep.refl _
    | dir =>
      simp only [hs] at h
      cases hm : osMkdirAll H dest.dir.path with
      | none => simp only [hm, EffP.eff.injEq] at h; subst h; exact DirKeep.refl _
      | some H1 =>
        have hk1 := dirKeep_mkdirAll hwf hm
        have hwf1 := (osMkdirAll_some hwf hm).2.1
        simp only [hm] at h
        cases hc : collect (walkItems H1 src) [] with
        | panic => simp [hc] at h
        | fail => simp only [hc, EffP.eff.injEq] at h; subst h; exact hk1
        | nodes l =>
          simp only [hc, EffP.eff.injEq] at h
          subst h
          exact hk1.trans (dirKeep_copyNodes src dest H1 hwf1 l)

theorem dirKeep_copy {H : Host} (hwf : H.WF) (src dest : HP) (e : Eff) (h : copy H src dest = .eff e) :
    DirKeep H e.1 := by
  simp only [copy] at h
  split at h
  · exact dirKeep_copyDirectory hwf src dest e h
  · simp only [EffP.eff.injEq] at h; subst h; exact dirKeep_copyFile H src dest

/-- a call through the filespace rooted at `r0 ++ b` leaves the directory `r0` a directory -/
theorem step_keeps_root (r0 b : HPath) (H : Host) (hwf : H.WF) (h0 : H.get r0 = some .dir) (op : Op) :
    (step (r0 ++ b) H op).1.get r0 = some .dir := by
  have same : ∀ res : Result, ((H, Out.val res) : Host × Out).1.get r0 = some .dir := fun _ => h0
  -- a removal below the filespace's root does not reach `r0`
  have removal : ∀ (p : List Name) (H1 : Host), p ≠ [] → Touch (r0 ++ b ++ p) H H1 → H1.get r0 = some .dir := by
    intro p H1 hp ht
    rcases ht r0 with e | u | ⟨_, n, _⟩
    · rw [e]; exact h0
    · exfalso
      have := u.length_le
      simp only [List.length_append] at this
      have : p.length ≠ 0 := fun hz => hp (List.length_eq_zero_iff.mp hz)
      omega
    · rw [h0] at n; cases n
  cases op with
  | readDir raw =>
    simp only [step]
    cases norm raw with
    | none => exact h0
    | some p => simp only []; cases osReadDir H (full (r0 ++ b) p) <;> exact h0
  | isExist raw => simp only [step]; cases norm raw <;> exact h0
  | isFile raw => simp only [step]; cases norm raw <;> exact h0
  | isDir raw => simp only [step]; cases norm raw <;> exact h0
  | filespace raw => simp only [step]; cases norm raw <;> exact h0
  | readFile raw =>
    simp only [step]
    cases norm raw with
    | none => exact h0
    | some p =>
      simp only []
      cases osStat H (full (r0 ++ b) p) with
      | none => exact h0
      | some e => cases e <;> exact h0
  | lstat raw =>
    simp only [step]
    cases norm raw with
    | none => exact h0
    | some p =>
      simp only []
      cases osStat H (full (r0 ++ b) p) with
      | none => exact h0
      | some e => cases e <;> exact h0
  | reader raw sizes =>
    simp only [step]
    cases norm raw with
    | none => exact h0
    | some p =>
      simp only []
      cases osStat H (full (r0 ++ b) p) with
      | none => exact h0
      | some e =>
        cases e with
        | file d => exact h0
        | dir => simp only []; split <;> exact h0
  | mkdirAll raw =>
    simp only [step]
    cases norm raw with
    | none => exact h0
    | some p =>
      simp only []
      cases hm : osMkdirAll H (r0 ++ b ++ p) with
      | none => exact h0
      | some H1 => exact dirKeep_mkdirAll hwf hm r0 h0
  | writeFile raw data =>
    simp only [step]
    cases norm raw with
    | none => exact h0
    | some p =>
      simp only []
      cases hm : osMkdirAll H (full (r0 ++ b) p).dir.path with
      | none => exact h0
      | some H1 =>
        have hk1 := dirKeep_mkdirAll hwf hm
        simp only []
        cases ho : osOpenTrunc H1 (full (r0 ++ b) p) with
        | none => exact hk1 r0 h0
        | some H2 =>
          have hk2 := hk1.trans (dirKeep_openTrunc ho)
          have hne := (osOpenTrunc_some ho).1
          simp only []
          cases ha : osAppend H2 (r0 ++ b ++ p) data with
          | none => exact hk2 r0 h0
          | some H3 => exact (hk2.trans (dirKeep_append hne ha)) r0 h0
  | writer raw chunks =>
    simp only [step]
    cases norm raw with
    | none => exact h0
    | some p =>
      simp only []
      cases ho : osOpenTrunc H (full (r0 ++ b) p) with
      | none => exact h0
      | some H1 =>
        have hk1 := dirKeep_openTrunc ho
        have hne := (osOpenTrunc_some ho).1
        simp only []
        cases ha : osAppendAll H1 (r0 ++ b ++ p) chunks with
        | none => exact hk1 r0 h0
        | some H2 => exact (hk1.trans (dirKeep_appendAll hne ha)) r0 h0
  | remove raw =>
    simp only [step]
    cases norm raw with
    | none => exact h0
    | some p =>
      simp only []
      split
      · exact h0
      · next hp =>
        cases hr : osRemove H (full (r0 ++ b) p) with
        | none => exact h0
        | some H1 => exact removal p H1 hp (touch_remove hwf hr).2
  | removeAll raw =>
    simp only [step]
    cases norm raw with
    | none => exact h0
    | some p =>
      simp only []
      split
      · exact h0
      · next hp =>
        cases hr : osRemoveAll H (r0 ++ b ++ p) with
        | none => exact h0
        | some H1 => exact removal p H1 hp (touch_removeAll hwf (append_ne_nil hp) hr).2
  | copyFile rs rd =>
    simp only [step]
    cases norm rs with
    | none => exact h0
    | some s =>
      cases norm rd with
      | none => exact h0
      | some d => exact dirKeep_copyFile H _ _ r0 h0
  | copyDirectory rs rd =>
    simp only [step]
    cases norm rs with
    | none => exact h0
    | some s =>
      cases norm rd with
      | none => exact h0
      | some d =>
        simp only []
        obtain ⟨e, he, _, _⟩ := touch_copyDirectory hwf (full (r0 ++ b) s) (full (r0 ++ b) d)
        rw [he]
        exact dirKeep_copyDirectory hwf _ _ e he r0 h0
  | copy rs rd =>
    simp only [step]
    cases norm rs with
    | none => exact h0
    | some s =>
      cases norm rd with
      | none => exact h0
      | some d =>
        simp only []
        obtain ⟨e, he, _, _⟩ := touch_copy hwf (full (r0 ++ b) s) (full (r0 ++ b) d)
        rw [he]
        exact dirKeep_copy hwf _ _ e he r0 h0

/-- a call through the filespace rooted at `r0 ++ b` changes nothing outside `r0` -/
theorem step_outside_root (r0 b : HPath) (H : Host) (hwf : H.WF) (h0 : H.get r0 = some .dir) (op : Op)
    (q : HPath) (hq : ¬ r0 <+: q) : (step (r0 ++ b) H op).1.get q = H.get q := by
  have hT := Host.wf_treeLike hwf
  obtain ⟨_, _, hc⟩ := step_clean (r0 ++ b) H hwf op
  rcases hc with e | ⟨a, ha, ht⟩
  · rw [e]
  · have hra : r0 <+: a := by
      cases op <;> simp only [target, Option.map_eq_some_iff] at ha <;>
        obtain ⟨p, _, rfl⟩ := ha <;> rw [List.append_assoc] <;> exact List.prefix_append _ _
    rcases ht q with e | u | ⟨p, n, _⟩
    · exact e
    · exact absurd (hra.trans u) hq
    · exfalso
      rcases List.prefix_or_prefix_of_prefix hra p with h1 | h1
      · exact hq h1
      · by_cases he : q = r0
        · exact hq (he ▸ List.prefix_refl _)
        · rw [hT.prefix_dir' h1 he (by simp [h0])] at n; cases n

/-! ### histories -/

/-- invariant of a history over a disk filespace rooted at `r0` on a host that was `H0` at the start -/
structure Conf (r0 : HPath) (H0 : Host) (dw : World) : Prop where
  wf : dw.host.WF
  root : dw.host.get r0 = some .dir
  views : ∀ v ∈ dw.views, r0 <+: v
  outside : ∀ q, ¬ r0 <+: q → dw.host.get q = H0.get q

theorem conf_init (H0 : Host) (r0 : HPath) (hwf : H0.WF) (hroot : H0.get r0 = some .dir) :
    Conf r0 H0 (World.init H0 r0) :=
  ⟨hwf, hroot, by intro v hv; simp [World.init] at hv; subst hv; exact List.prefix_refl _, fun _ _ => rfl⟩

theorem conf_step (r0 : HPath) (H0 : Host) (dw : World) (hc : Conf r0 H0 dw) (h : Nat) (op : Op) :
    Conf r0 H0 (dw.step h op).1 ∧ (dw.step h op).2 ≠ .panic := by
  cases hh : dw.views[h]? with
  | none =>
    rw [world_step_none dw h op hh]
    exact ⟨hc, by simp⟩
  | some r =>
    obtain ⟨hhost, hres, hviews⟩ := world_step_some dw h op r hh
    obtain ⟨b, rfl⟩ : ∃ b, r = r0 ++ b := by
      obtain ⟨b, hb⟩ := hc.views r (List.mem_of_getElem? hh)
      exact ⟨b, hb.symm⟩
    obtain ⟨hwf', hnp, _⟩ := step_clean (r0 ++ b) dw.host hc.wf op
    refine ⟨⟨by rw [hhost]; exact hwf', ?_, ?_, ?_⟩, by rw [hres]; exact hnp⟩
    · rw [hhost]; exact step_keeps_root r0 b dw.host hc.wf hc.root op
    · intro v hv
      rw [hviews] at hv
      cases op with
      | filespace raw =>
        simp only [viewsNext, openView] at hv
        cases hn : norm raw with
        | none => simp only [hn] at hv; exact hc.views v hv
        | some p =>
          simp only [hn] at hv
          by_cases hd : isDir dw.host (full (r0 ++ b) p) = true
          · simp only [hd, if_true] at hv
            rcases List.mem_append.mp hv with h1 | h1
            · exact hc.views v h1
            · simp at h1; subst h1; exact List.prefix_append _ _
          · simp only [hd] at hv
            exact hc.views v hv
      | _ => exact hc.views v hv
    · intro q hq
      rw [hhost, step_outside_root r0 b dw.host hc.wf hc.root op q hq]
      exact hc.outside q hq

theorem conf_run (r0 : HPath) (H0 : Host) (dw : World) (hc : Conf r0 H0 dw) (ops : List (Nat × Op)) :
    Conf r0 H0 (dw.run ops).1 ∧ ∀ o ∈ (dw.run ops).2, o ≠ .panic := by
  induction ops generalizing dw with
  | nil => exact ⟨hc, by intro o ho; simp [World.run] at ho⟩
  | cons x rest ih =>
    obtain ⟨h, op⟩ := x
    obtain ⟨hc1, hn1⟩ := conf_step r0 H0 dw hc h op
    obtain ⟨hc2, hn2⟩ := ih (dw.step h op).1 hc1
    have : dw.run ((h, op) :: rest)
        = (((dw.step h op).1.run rest).1, (dw.step h op).2 :: ((dw.step h op).1.run rest).2) := rfl
    rw [this]
    refine ⟨hc2, ?_⟩
    intro o ho
    rcases List.mem_cons.mp ho with rfl | ho
    · exact hn1
    · exact hn2 o ho

/-! ### the frame in terms of the call's arguments -/

theorem target_mem_opArgs (r : HPath) (op : Op) (a : HPath) (h : target r op = some a) : a ∈ opArgs r op := by
  cases op <;> simp only [target, Option.map_eq_some_iff] at h <;> obtain ⟨p, hp, rfl⟩ := h <;>
    simp [opArgs, hp]

/-- what changes is addressed: a path that is neither at or below a normalised argument nor above one
is left as it was; a path above an argument (and not below another) is left as it was or was missing
and became a directory -/
theorem step_frame (r : HPath) (H : Host) (hwf : H.WF) (op : Op) :
    (∀ q, ¬ Addressed (opArgs r op) q → ¬ Above (opArgs r op) q → (step r H op).1.get q = H.get q)
    ∧ (∀ q, ¬ Addressed (opArgs r op) q → Above (opArgs r op) q →
        (step r H op).1.get q = H.get q ∨ (H.get q = none ∧ (step r H op).1.get q = some .dir)) := by
  obtain ⟨_, _, hc⟩ := step_clean r H hwf op
  rcases hc with e | ⟨a, ha, ht⟩
  · exact ⟨fun q _ _ => by rw [e], fun q _ _ => Or.inl (by rw [e])⟩
  · have hmem := target_mem_opArgs r op a ha
    constructor
    · intro q hna hnb
      rcases ht q with e | u | ⟨p, _, _⟩
      · exact e
      · exact absurd ⟨a, hmem, u⟩ hna
      · by_cases hqa : q = a
        · exact absurd ⟨a, hmem, hqa ▸ List.prefix_refl _⟩ hna
        · exact absurd ⟨a, hmem, p, hqa⟩ hnb
    · intro q hna _
      rcases ht q with e | u | ⟨_, n, d⟩
      · exact Or.inl e
      · exact absurd ⟨a, hmem, u⟩ hna
      · exact Or.inr ⟨n, d⟩

/-! ### what a call inside `Pre` reads -/

/-- `Pre` looks at the tree only at and below the root of the filespace -/
theorem pre_congr (b : HPath) (S1 S2 : State) (op : Op) (hsame : ∀ x, S1 (b ++ x) = S2 (b ++ x))
    (h : Pre b S1 op) : Pre b S2 op := by
  have hb : S1 b = S2 b := by simpa using hsame []
  obtain ⟨h1, h2⟩ := h
  refine ⟨by rw [← hb]; exact h1, ?_⟩
  cases op <;> simp only [] at h2 ⊢
  case writer raw cs =>
    cases hn : norm raw <;> simp only [hn] at h2 ⊢
    simpa [← hsame] using h2
  case removeAll raw =>
    cases hn : norm raw <;> simp only [hn] at h2 ⊢
    simpa [← hsame] using h2
  case reader raw ss =>
    cases hn : norm raw <;> simp only [hn] at h2 ⊢
    simpa [← hsame] using h2
  case lstat raw => exact h2
  case filespace raw =>
    cases hn : norm raw <;> simp only [hn] at h2 ⊢
    simpa [← hsame] using h2
  case copyFile rs rd =>
    cases hs : norm rs <;> cases hd : norm rd <;> simp only [hs, hd] at h2 ⊢
    simpa [FileCopyPre, ← hsame] using h2
  case copyDirectory rs rd =>
    cases hs : norm rs <;> cases hd : norm rd <;> simp only [hs, hd] at h2 ⊢
    simpa [DirCopyPre, ← hsame] using h2
  case copy rs rd =>
    cases hs : norm rs <;> cases hd : norm rd <;> simp only [hs, hd] at h2 ⊢
    simpa [FileCopyPre, DirCopyPre, ← hsame] using h2

/-- Two hosts that show the same tree below `r0`: a call inside `Pre` through a filespace rooted at
`r0 ++ b` answers alike on both and leaves the same tree below `r0` — nothing outside the root directory
is read into a result or into the tree. -/
theorem reads_confined (r0 b : HPath) (H1 H2 : Host) (hwf1 : H1.WF) (hwf2 : H2.WF)
    (hr1 : H1.get r0 = some .dir) (hsame : ∀ q, H1.get (r0 ++ q) = H2.get (r0 ++ q)) (op : Op)
    (hpre : Pre (r0 ++ b) H1.get op)
    (hl : ∀ raw p, op = .lstat raw → norm raw = some p → b ++ p ≠ []) :
    (∃ res1 res2, (step (r0 ++ b) H1 op).2 = .val res1 ∧ (step (r0 ++ b) H2 op).2 = .val res2 ∧ FS.ResEq res1 res2)
    ∧ ∀ q, (step (r0 ++ b) H1 op).1.get (r0 ++ q) = (step (r0 ++ b) H2 op).1.get (r0 ++ q) := by
  have hr2 : H2.get r0 = some .dir := by have := hsame []; simp only [List.append_nil] at this; rw [← this]; exact hr1
  have hpre2 : Pre (r0 ++ b) H2.get op :=
    pre_congr (r0 ++ b) H1.get H2.get op (fun x => by rw [List.append_assoc]; exact hsame _) hpre
  obtain ⟨_, ra, ra', hea, hqa, hsa⟩ := step_pre (r0 ++ b) H1 hwf1 op hpre
  obtain ⟨_, rb, rb', heb, hqb, hsb⟩ := step_pre (r0 ++ b) H2 hwf2 op hpre2
  have hA := FS.Step_rebase r0 b _ _ op ra' (Host.wf_treeLike hwf1) hr1 hl hsa
  have hB := FS.Step_rebase r0 b _ _ op rb' (Host.wf_treeLike hwf2) hr2 hl hsb
  have hbelow : State.below H1.get r0 = State.below H2.get r0 := by funext q; exact hsame q
  rw [hbelow] at hA
  obtain ⟨hst, hre⟩ := FS.Step_det _ _ op _ _ _ _ hA hB
  exact ⟨⟨ra, rb, hea, heb, (hqa.symm.trans hre).trans hqb⟩, fun q => congrFun hst q⟩

end DiskFS
end Goat
