/-
`disk.CopyDirectory` (helper lemmas for C02): the walk lists exactly the nodes below the source, a
directory before its content; the collecting callback never panics; the copying loop, run on a host where
the destination is absent, ends with `FS.copySt`.
-/
import Goat.Proofs.DiskFSSys

namespace Goat
namespace DiskFS

open Path (Name norm)
open FS (Op Result Entry State TreeLike)

/-! ### the walk -/

theorem prefix_drop {α} [DecidableEq α] {s k : List α} (h : s <+: k) : k = s ++ k.drop s.length := by
  obtain ⟨t, rfl⟩ := h
  simp

theorem mem_below {H : Host} (h : H.WF) (src sub : HPath) (b : Bool) :
    (sub, b) ∈ below H src ↔ sub ≠ [] ∧ (H.get (src ++ sub)).map Entry.isDir = some b := by
  simp only [below, List.mem_filterMap]
  constructor
  · rintro ⟨kv, hm, hf⟩
    by_cases hc : src <+: kv.1 ∧ kv.1 ≠ src
    · rw [if_pos hc] at hf
      simp only [Option.some.injEq, Prod.mk.injEq] at hf
      obtain ⟨rfl, rfl⟩ := hf
      have hk := prefix_drop hc.1
      have hne : kv.1.drop src.length ≠ [] := by
        intro h0; rw [h0, List.append_nil] at hk; exact hc.2 hk
      refine ⟨hne, ?_⟩
      rw [← hk, Host.get_of_ne (h.2 kv hm).1, Host.raw_of_mem h.1 (show (kv.1, kv.2) ∈ H from hm)]
      rfl
    · rw [if_neg hc] at hf; cases hf
  · rintro ⟨hne, hg⟩
    have hne2 : src ++ sub ≠ [] := by simp [hne]
    rw [Host.get_of_ne hne2] at hg
    cases hr : H.raw (src ++ sub) with
    | none => simp [hr] at hg
    | some e =>
      simp only [hr, Option.map_some, Option.some.injEq] at hg
      refine ⟨(src ++ sub, e), Host.mem_of_raw hr, ?_⟩
      have h1 : src <+: src ++ sub := List.prefix_append _ _
      have h2 : src ++ sub ≠ src := by
        intro hc
        have := congrArg List.length hc
        simp at this
        exact hne this
      rw [if_pos ⟨h1, h2⟩]
      simp [hg]

theorem below_names_mem {H : Host} (src sub : HPath) (h : sub ∈ (below H src).map (·.1)) :
    src ++ sub ∈ H.map (·.1) := by
  obtain ⟨x, hx, rfl⟩ := List.mem_map.mp h
  simp only [below, List.mem_filterMap] at hx
  obtain ⟨kv, hm, hf⟩ := hx
  by_cases hc : src <+: kv.1 ∧ kv.1 ≠ src
  · rw [if_pos hc] at hf
    simp only [Option.some.injEq] at hf
    subst hf
    simp only
    rw [← prefix_drop hc.1]
    exact List.mem_map.mpr ⟨kv, hm, rfl⟩
  · rw [if_neg hc] at hf; cases hf

theorem below_nodup {H : Host} (hn : (H.map (·.1)).Nodup) (src : HPath) :
    ((below H src).map (·.1)).Nodup := by
  induction H with
  | nil => simp [below]
  | cons kv rest ih =>
    simp only [List.map_cons, List.nodup_cons] at hn
    have ih' := ih hn.2
    simp only [below, List.filterMap_cons] at ih' ⊢
    by_cases hc : src <+: kv.1 ∧ kv.1 ≠ src
    · rw [if_pos hc]
      simp only [List.map_cons, List.nodup_cons]
      refine ⟨?_, ih'⟩
      intro hm
      have := below_names_mem (H := rest) src _ hm
      rw [← prefix_drop hc.1] at this
      exact hn.1 this
    · rw [if_neg hc]
      exact ih'

/-- the order of the walk is a linear preorder -/
theorem keyLe_trans (a b c : HPath × Bool) (h1 : keyLe a b = true) (h2 : keyLe b c = true) :
    keyLe a c = true := by
  simp only [keyLe, decide_eq_true_eq] at *
  exact List.le_trans h1 h2

theorem keyLe_total (a b : HPath × Bool) : keyLe a b = true ∨ keyLe b a = true := by
  simp only [keyLe, decide_eq_true_eq]
  exact List.le_total a.1 b.1

theorem lt_concat (p : HPath) (n : Name) : p < p ++ [n] := by
  induction p with
  | nil => exact List.Lex.nil
  | cons a t ih => exact List.Lex.cons ih

/-- a node never precedes its parent -/
theorem not_keyLe_parent (a b : HPath × Bool) (ha : a.1 ≠ []) (hb : b.1 = a.1.dropLast) :
    keyLe a b ≠ true := by
  intro hle
  have hle' : a.1 ≤ b.1 := by simpa [keyLe] using hle
  rw [hb] at hle'
  have h1 := lt_concat a.1.dropLast (a.1.getLast ha)
  rw [List.dropLast_concat_getLast ha] at h1
  exact hle' h1

/-- what the collecting callback makes of a walk without errors -/
theorem collect_nodes (items acc : List (HPath × Bool)) :
    collect (items.map fun it => ⟨it.1, some it.2, false⟩) acc = .nodes (acc.reverse ++ items) := by
  induction items generalizing acc with
  | nil => simp [collect]
  | cons it rest ih =>
    simp only [List.map_cons, collect]
    rw [ih]
    simp

/-- the collecting callback never dereferences a nil `FileInfo` -/
theorem collect_walk_no_panic (H : Host) (src : HP) : collect (walkItems H src) [] ≠ .panic := by
  simp only [walkItems]
  cases osStat H src with
  | none => simp [collect]
  | some e =>
    have := collect_nodes ((([] : HPath), e.isDir) :: sortBy keyLe (below H src.path)) []
    simp only [List.map_cons, List.reverse_nil, List.nil_append] at this
    simp only [this]
    intro hc; cases hc

theorem collect_walk_dir (H : Host) (src : HP) (hs : osStat H src = some .dir) :
    collect (walkItems H src) [] = .nodes (([], true) :: sortBy keyLe (below H src.path)) := by
  simp only [walkItems, hs, Entry.isDir]
  have := collect_nodes ((([] : HPath), true) :: sortBy keyLe (below H src.path)) []
  simpa using this

/-! ### the copying loop -/

/-- every node's parent is among `done` or earlier in the list -/
def Ordered : List HPath → List (HPath × Bool) → Prop
  | _, [] => True
  | done, x :: rest => x.1.dropLast ∈ done ∧ Ordered (x.1 :: done) rest

theorem ordered_of_sorted (done : List HPath) (L : List (HPath × Bool))
    (hs : L.Pairwise fun a b => keyLe a b = true)
    (hpar : ∀ x ∈ L, x.1 ≠ [] ∧ (x.1.dropLast ∈ done ∨ ∃ y ∈ L, y.1 = x.1.dropLast)) : Ordered done L := by
  induction L generalizing done with
  | nil => trivial
  | cons x rest ih =>
    rw [List.pairwise_cons] at hs
    obtain ⟨hx0, hx1⟩ := hpar x (by simp)
    refine ⟨?_, ih (x.1 :: done) hs.2 ?_⟩
    · rcases hx1 with h | ⟨y, hy, hyx⟩
      · exact h
      · exfalso
        rcases List.mem_cons.mp hy with rfl | hy
        · exact dropLast_ne_self hx0 hyx.symm
        · exact not_keyLe_parent x y hx0 hyx (hs.1 y hy)
    · intro z hz
      obtain ⟨hz0, hz1⟩ := hpar z (List.mem_cons_of_mem _ hz)
      refine ⟨hz0, ?_⟩
      rcases hz1 with h | ⟨y, hy, hyz⟩
      · exact Or.inl (List.mem_cons_of_mem _ h)
      · rcases List.mem_cons.mp hy with rfl | hy
        · exact Or.inl (by rw [← hyz]; simp)
        · exact Or.inr ⟨y, hy, hyz⟩

/-- the tree while the copy is under way: the nodes in `done` have arrived below `destP` -/
def Partial (S1 : State) (srcP destP : HPath) (done : List HPath) : State := fun q =>
  if destP <+: q ∧ q.drop destP.length ∈ done then S1 (srcP ++ q.drop destP.length) else S1 q

theorem partial_cons (S1 : State) (srcP destP : HPath) (done : List HPath) (sub : HPath) :
    (fun q => if q = destP ++ sub then S1 (srcP ++ sub) else Partial S1 srcP destP done q)
      = Partial S1 srcP destP (sub :: done) := by
  funext q
  simp only [Partial]
  by_cases hq : q = destP ++ sub
  · subst hq; simp
  · simp only [hq, if_false, List.mem_cons]
    by_cases hp : destP <+: q
    · have hne : q.drop destP.length ≠ sub := by
        intro hc; apply hq; rw [← hc]; exact prefix_drop hp
      simp [hp, hne]
    · simp [hp]

theorem isDir_some_true {o : Option Entry} (h : o.map Entry.isDir = some true) : o = some .dir := by
  cases o with
  | none => simp at h
  | some e => cases e <;> simp [Entry.isDir] at h ⊢

theorem isDir_some_false {o : Option Entry} (h : o.map Entry.isDir = some false) : ∃ x, o = some (.file x) := by
  cases o with
  | none => simp at h
  | some e => cases e <;> simp [Entry.isDir] at h ⊢

theorem copyNodes_spec (S1 : State) (hS1 : TreeLike S1) (src dest : HP) (hdabs : S1 dest.path = none)
    (L : List (HPath × Bool)) (done : List HPath) (H : Host) (hwf : H.WF)
    (hget : H.get = Partial S1 src.path dest.path done)
    (hL : ∀ x ∈ L, x.1 ≠ [] ∧ (S1 (src.path ++ x.1)).map Entry.isDir = some x.2)
    (hnd : (L.map (·.1)).Nodup) (hdis : ∀ x ∈ L, x.1 ∉ done) (hord : Ordered done L) :
    ∃ H', copyNodes src dest H L = (H', true) ∧ H'.WF
      ∧ H'.get = Partial S1 src.path dest.path (L.reverse.map (·.1) ++ done) := by
  induction L generalizing done H with
  | nil => exact ⟨H, rfl, hwf, by simpa using hget⟩
  | cons x rest ih =>
    obtain ⟨sub, b⟩ := x
    obtain ⟨hsub, hsb⟩ := hL (sub, b) (by simp)
    obtain ⟨hparent, hord'⟩ := hord
    simp only at hparent hord'
    simp only [List.map_cons, List.nodup_cons] at hnd
    have hsrcne : S1 (src.path ++ sub) ≠ none := by
      intro hc; rw [hc] at hsb; simp at hsb
    -- the parent has arrived and is a directory
    have hpd : H.get (dest.path ++ sub).dropLast = some .dir := by
      rw [append_dropLast _ _ hsub, hget]
      have hsp : S1 (src.path ++ sub.dropLast) = some .dir := by
        apply hS1.anc_dir (src.path ++ sub.dropLast) [sub.getLast hsub] (by simp)
        rw [List.append_assoc, List.dropLast_concat_getLast hsub]
        exact hsrcne
      simp [Partial, hparent, hsp]
    -- the node itself has not
    have hda : H.get (dest.path ++ sub) = none := by
      rw [hget]
      have : sub ∉ done := hdis (sub, b) (by simp)
      simp only [Partial, List.prefix_append, List.drop_left, this, and_false, if_false]
      exact hS1.below_none dest.path sub hsub (by rw [hdabs]; intro hc; cases hc)
    have hdne : dest.path ++ sub ≠ [] := by simp [hsub]
    -- after the step
    have hstep : ∃ H1, copyNodes src dest H ((sub, b) :: rest) = copyNodes src dest H1 rest ∧ H1.WF
        ∧ H1.get = Partial S1 src.path dest.path (sub :: done) := by
      cases b with
      | true =>
        obtain ⟨H1, h1, hwf1, hget1⟩ := osMkdirAll_leaf hwf _ hdne hpd hda
        refine ⟨H1, by simp [copyNodes, HP.join, h1], hwf1, ?_⟩
        rw [hget1, hget, ← partial_cons, isDir_some_true hsb]
      | false =>
        obtain ⟨xd, hx⟩ := isDir_some_false hsb
        have hsg : H.get (src.path ++ sub) = some (.file xd) := by
          rw [hget]
          have : ¬ dest.path <+: src.path ++ sub := by
            intro hc
            by_cases he : dest.path = src.path ++ sub
            · rw [he] at hdabs; exact hsrcne hdabs
            · have := hS1.prefix_dir' hc he hsrcne
              rw [hdabs] at this; cases this
          simp [Partial, this, hx]
        obtain ⟨H1, h1, hwf1, hget1⟩ := copyFile_ok hwf _ _ xd hsg hdne hpd hda
        refine ⟨H1, by simp [copyNodes, HP.join, h1], hwf1, ?_⟩
        rw [hget1, hget, ← partial_cons, hx]
    obtain ⟨H1, hc1, hwf1, hget1⟩ := hstep
    have hdis' : ∀ y ∈ rest, y.1 ∉ sub :: done := by
      intro y hy hm
      rcases List.mem_cons.mp hm with h | h
      · exact hnd.1 (List.mem_map.mpr ⟨y, hy, h⟩)
      · exact hdis y (List.mem_cons_of_mem _ hy) h
    obtain ⟨H', hc2, hwf2, hget2⟩ :=
      ih (sub :: done) H1 hwf1 hget1 (fun y hy => hL y (List.mem_cons_of_mem _ hy)) hnd.2 hdis' hord'
    refine ⟨H', by rw [hc1, hc2], hwf2, ?_⟩
    rw [hget2]
    simp [List.append_assoc]

theorem partial_congr (S1 : State) (srcP destP : HPath) (d1 d2 : List HPath) (h : ∀ s, s ∈ d1 ↔ s ∈ d2) :
    Partial S1 srcP destP d1 = Partial S1 srcP destP d2 := by
  funext q
  simp only [Partial, h]

/-! ### `disk.CopyDirectory` on an absent destination -/

/-- A directory copied to an absent destination whose ancestors are no files: the call succeeds and
the tree afterwards is `FS.copySt` (the destination's missing parents are created, then the source as
it is then appears below the destination). -/
theorem copyDirectory_ok {H : Host} (h : H.WF) (src : HP) (destP : HPath)
    (hs : H.get src.path = some .dir) (hne : destP ≠ []) (hok : FS.mkdirOk H.get destP.dropLast)
    (habs : H.get destP = none) :
    ∃ H', copyDirectory H src ⟨destP, false⟩ = .eff (H', true) ∧ H'.WF
      ∧ H'.get = FS.copySt H.get src.path destP := by
  have hstat : ∀ (G : Host), G.get src.path = some .dir → osStat G src = some .dir := by
    intro G hg; simp [osStat, hg]
  -- the destination's parents
  obtain ⟨H1, hm1, hwf1, hget1⟩ := osMkdirAll_ok h destP.dropLast hok
  have hT1 := Host.wf_treeLike hwf1
  have hs1 : H1.get src.path = some .dir := by
    rw [hget1]; simp only [FS.mkdirSt]; split <;> simp [hs]
  have hd1 : H1.get destP = none := by
    rw [hget1]; simp only [FS.mkdirSt]
    have : ¬ destP <+: destP.dropLast := by
      intro hc
      have := hc.length_le
      simp at this
      have : destP.length ≠ 0 := fun h0 => hne (List.length_eq_zero_iff.mp h0)
      omega
    simp [this, habs]
  have hpd1 : H1.get destP.dropLast = some .dir := by
    rw [hget1]; simp [FS.mkdirSt]
  -- the walk
  let L := sortBy keyLe (below H1 src.path)
  have hperm : L.Perm (below H1 src.path) := sortBy_perm _ _
  have hLmem : ∀ x ∈ L, x.1 ≠ [] ∧ (H1.get (src.path ++ x.1)).map Entry.isDir = some x.2 := by
    intro x hx
    exact (mem_below hwf1 src.path x.1 x.2).mp (hperm.mem_iff.mp hx)
  have hLnd : (L.map (·.1)).Nodup := (hperm.map _).nodup_iff.mpr (below_nodup hwf1.1 src.path)
  have hLsorted : L.Pairwise fun a b => keyLe a b = true := sortBy_pairwise _ keyLe_trans keyLe_total _
  have hLord : Ordered [[]] L := by
    apply ordered_of_sorted _ _ hLsorted
    intro x hx
    obtain ⟨hx0, hx1⟩ := hLmem x hx
    refine ⟨hx0, ?_⟩
    by_cases hp : x.1.dropLast = []
    · exact Or.inl (by simp [hp])
    · right
      have hpdir : H1.get (src.path ++ x.1.dropLast) = some .dir := by
        apply hT1.anc_dir _ [x.1.getLast hx0] (by simp)
        rw [List.append_assoc, List.dropLast_concat_getLast hx0]
        intro hc; rw [hc] at hx1; simp at hx1
      have := (mem_below hwf1 src.path x.1.dropLast true).mpr ⟨hp, by simp [hpdir, Entry.isDir]⟩
      exact ⟨(x.1.dropLast, true), hperm.mem_iff.mpr this, rfl⟩
  -- the destination directory itself
  obtain ⟨H2, hm2, hwf2, hget2⟩ := osMkdirAll_leaf hwf1 destP hne hpd1 hd1
  have hget2' : H2.get = Partial H1.get src.path destP [[]] := by
    rw [hget2]
    have := partial_cons H1.get src.path destP [] []
    simp only [List.append_nil, hs1] at this
    rw [← this]
    funext q
    simp [Partial]
  have hdis : ∀ x ∈ L, x.1 ∉ [([] : HPath)] := by
    intro x hx hm
    simp at hm
    exact (hLmem x hx).1 hm
  obtain ⟨H', hc, hwf', hget'⟩ :=
    copyNodes_spec H1.get hT1 src ⟨destP, false⟩ hd1 L [[]] H2 hwf2 hget2' hLmem hLnd hdis hLord
  refine ⟨H', ?_, hwf', ?_⟩
  · simp only [copyDirectory, hstat H hs]
    rw [show (HP.dir ⟨destP, false⟩).path = destP.dropLast from rfl, hm1]
    simp only []
    rw [collect_walk_dir H1 src (hstat H1 hs1)]
    simp only [copyNodes, HP.join, List.append_nil, hm2]
    exact congrArg EffP.eff hc
  · rw [hget']
    funext q
    simp only [Partial, FS.copySt, ← hget1]
    by_cases hq : destP <+: q
    · simp only [hq, true_and, if_true]
      by_cases hmem : q.drop destP.length ∈ L.reverse.map (·.1) ++ [[]]
      · rw [if_pos hmem]
      · rw [if_neg hmem]
        -- not copied: nothing stands at the source either, and nothing below the absent destination
        have hq2 := prefix_drop hq
        have hne2 : q.drop destP.length ≠ [] := by
          intro hc; apply hmem; simp [hc]
        have hsn : H1.get (src.path ++ q.drop destP.length) = none := by
          cases hg : H1.get (src.path ++ q.drop destP.length) with
          | none => rfl
          | some e =>
            exfalso; apply hmem
            have := (mem_below hwf1 src.path (q.drop destP.length) e.isDir).mpr ⟨hne2, by simp [hg]⟩
            have := hperm.mem_iff.mpr this
            simp only [List.map_reverse, List.mem_append, List.mem_reverse, List.mem_map]
            exact Or.inl ⟨_, this, rfl⟩
        rw [hsn, hq2]
        exact hT1.below_none destP _ hne2 (by rw [hd1]; intro hc; cases hc)
    · simp [hq]

end DiskFS
end Goat
