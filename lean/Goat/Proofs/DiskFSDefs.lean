/-
Vocabulary of property C02 (definitions only; the theorems are in `Goat/Props/C02.lean`).

  `TreeLike S`      an abstract state that is a tree: the root is a directory and whatever exists hangs
                    below a directory
  `S.below r`       the state seen from path `r` (`q ↦ S (r ++ q)`): what a filespace rooted at `r` shows
  `ResEq r₁ r₂`     "the same result": equal — except that two listings may differ in order (ReadDir is
                    compared as a set) and that for a `Reader` only the bytes each `Read` delivered are
                    compared (io.Reader leaves open whether io.EOF comes with the last bytes, as memfs
                    does, or with the following empty read, as an *os.File does)
  `Pre b S op`      THE PRECONDITION of the property for a call `op` through a filespace whose root is
                    `b`, in state `S` — see below
  `Tolerated …`     the calls outside `Pre` that the disk filespace nevertheless carries out
  `Addressed …`     the paths a call addresses
-/
import Goat.Model.DiskFS

namespace Goat
namespace FS

/-- the state is a tree: `[]` is a directory, and a path that exists hangs below a directory -/
def TreeLike (S : State) : Prop :=
  S [] = some .dir ∧ ∀ q n, S (q ++ [n]) ≠ none → S q = some .dir

/-- the state seen from `r` -/
def State.below (S : State) (r : Path) : State := fun q => S (r ++ q)

/-- the same result up to listing order and EOF timing -/
def ResEq : Result → Result → Prop
  | .list l₁, .list l₂ => l₁.Perm l₂
  | .chunks c₁, .chunks c₂ => c₁.map (·.1) = c₂.map (·.1)
  | r₁, r₂ => r₁ = r₂

end FS

namespace DiskFS

open Path (Name norm)
open FS (Op Result Entry State)

/-- a regular file stands there -/
def isFileE : Option Entry → Bool
  | some (.file _) => true
  | _ => false

/-- precondition of copying a *file* `s` to `d`: the destination's parent exists (as a directory) and the
destination is absent (`d = []`, the filespace's own root, is refused by both backends) -/
def FileCopyPre (b : FS.Path) (S : State) (s d : FS.Path) : Prop :=
  isFileE (S (b ++ s)) = true → d = [] ∨ (S (b ++ d.dropLast) = some .dir ∧ S (b ++ d) = none)

/-- precondition of copying a *directory* `s` to `d`: the destination is absent (missing parents are
created by both backends) -/
def DirCopyPre (b : FS.Path) (S : State) (s d : FS.Path) : Prop :=
  S (b ++ s) = some .dir → S (b ++ d) = none

/-- THE PRECONDITION of property C02 ("source exists, destination parent exists, destination of a copy
is absent"), made explicit per method.  `b` is the root of the filespace the call goes through, `S` the
tree.  A path that climbs out of the filespace is inside `Pre` (both backends refuse it alike).

  always          the filespace's own directory exists (a disk filespace is "rooted in a directory")
  Writer          the destination's parent exists                 (WriteFile creates parents on both)
  RemoveAll       the path exists
  Reader          the path is not a directory (a Reader is opened on a file)
  Lstat           not of the root filespace's own root (its name is `ROOT` in memory, the directory's on disk)
  Filespace       the path is a directory
  CopyFile        a file source has an absent destination with an existing parent
  CopyDirectory   a directory source has an absent destination
  Copy            whichever of the two applies
Calls not listed (WriteFile, MkdirAll, Remove, ReadFile, ReadDir, IsExist, IsFile, IsDir) have no further
precondition: they behave alike in every state, including their failures. -/
def Pre (b : FS.Path) (S : State) (op : Op) : Prop :=
  S b = some .dir ∧
  match op with
  | .writer raw _ =>
    match norm raw with
    | some p => p = [] ∨ S (b ++ p.dropLast) = some .dir
    | none => True
  | .removeAll raw =>
    match norm raw with
    | some p => p = [] ∨ S (b ++ p) ≠ none
    | none => True
  | .reader raw _ =>
    match norm raw with
    | some p => S (b ++ p) ≠ some .dir
    | none => True
  | .lstat raw =>
    match norm raw with
    | some p => b ++ p ≠ []
    | none => True
  | .filespace raw =>
    match norm raw with
    | some p => S (b ++ p) = some .dir
    | none => True
  | .copyFile rs rd =>
    match norm rs, norm rd with
    | some s, some d => FileCopyPre b S s d
    | _, _ => True
  | .copyDirectory rs rd =>
    match norm rs, norm rd with
    | some s, some d => DirCopyPre b S s d
    | _, _ => True
  | .copy rs rd =>
    match norm rs, norm rd with
    | some s, some d => FileCopyPre b S s d ∧ DirCopyPre b S s d
    | _, _ => True
  | _ => True

instance (b : FS.Path) (S : State) (s d : FS.Path) : Decidable (FileCopyPre b S s d) := by
  unfold FileCopyPre; exact inferInstance

instance (b : FS.Path) (S : State) (s d : FS.Path) : Decidable (DirCopyPre b S s d) := by
  unfold DirCopyPre; exact inferInstance

/-- `Pre` is decidable (for a computable state) -/
instance (b : FS.Path) (S : State) (op : Op) : Decidable (Pre b S op) := by
  unfold Pre
  cases op <;> simp only <;> try exact inferInstance
  all_goals
    first
    | (split <;> exact inferInstance)
    | exact inferInstance

/-- The calls outside `Pre` that the disk filespace carries out all the same (everything else outside
`Pre` is refused, `Props/C02.disk_refused_outside_pre_partial`):
  RemoveAll of a path that does not exist (and is not below a file)   — succeeds, changes nothing
  CopyFile / Copy of a file onto an existing file                     — overwrites it
  CopyDirectory / Copy of a directory onto an existing directory      — merges into it
  Reader of a directory that is never read from (or only with empty buffers) — hands out a handle
  Lstat of the root of a filespace rooted at the host's `/`          — answers (name `/`, not `ROOT`) -/
def Tolerated (b : FS.Path) (S : State) (op : Op) : Prop :=
  match op with
  | .lstat raw =>
    match norm raw with
    | some p => b ++ p = []
    | none => False
  | .removeAll raw =>
    match norm raw with
    | some p => S (b ++ p) = none
    | none => False
  | .reader raw sizes =>
    match norm raw with
    | some p => S (b ++ p) = some .dir ∧ sizes.all (· == 0) = true
    | none => False
  | .copyFile rs rd =>
    match norm rs, norm rd with
    | some s, some d => isFileE (S (b ++ s)) = true ∧ isFileE (S (b ++ d)) = true
    | _, _ => False
  | .copyDirectory rs rd =>
    match norm rs, norm rd with
    | some s, some d => S (b ++ s) = some .dir ∧ S (b ++ d) = some .dir
    | _, _ => False
  | .copy rs rd =>
    match norm rs, norm rd with
    | some s, some d =>
      (isFileE (S (b ++ s)) = true ∧ isFileE (S (b ++ d)) = true) ∨ (S (b ++ s) = some .dir ∧ S (b ++ d) = some .dir)
    | _, _ => False
  | _ => False

instance (b : FS.Path) (S : State) (op : Op) : Decidable (Tolerated b S op) := by
  unfold Tolerated
  cases op <;> simp only <;> try exact inferInstance
  all_goals
    first
    | (split <;> exact inferInstance)
    | exact inferInstance

instance (H : Host) : Decidable H.WF := by unfold Host.WF; exact inferInstance

/-- the normalised path arguments of a call, in the coordinates of the tree (`b` = root of the filespace) -/
def opArgs (b : FS.Path) : Op → List FS.Path
  | .copy s d | .copyDirectory s d | .copyFile s d =>
    ((norm s).toList ++ (norm d).toList).map (b ++ ·)
  | .readDir p | .isExist p | .isFile p | .isDir p | .mkdirAll p | .readFile p | .writeFile p _ | .filespace p
  | .reader p _ | .writer p _ | .remove p | .removeAll p | .lstat p => ((norm p).toList).map (b ++ ·)

/-- `q` is addressed by a call with arguments `args`: it lies at or below one of them -/
def Addressed (args : List FS.Path) (q : FS.Path) : Prop := ∃ a ∈ args, a <+: q

/-- `q` is a proper ancestor of an argument -/
def Above (args : List FS.Path) (q : FS.Path) : Prop := ∃ a ∈ args, q <+: a ∧ q ≠ a

instance (args : List FS.Path) (q : FS.Path) : Decidable (Addressed args q) := by
  unfold Addressed; exact inferInstance

instance (args : List FS.Path) (q : FS.Path) : Decidable (Above args q) := by
  unfold Above; exact inferInstance

end DiskFS
end Goat
