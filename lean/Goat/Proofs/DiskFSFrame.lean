/-
What a call of the disk filespace model may change, in ANY state and for ANY arguments (helper lemmas
for C02): `step_clean` — the host stays well formed, the call does not panic, and the host afterwards
differs from the host before only at or below one normalised argument of the call, or at missing
ancestors of it that became directories (`Touch`).
-/
import Goat.Proofs.DiskFSStepCopy

namespace Goat
namespace DiskFS

open Path (Name norm)
open FS (Op Result Entry State TreeLike)

/-- `H'` differs from `H` only at or below `a`, or at missing ancestors of `a` that became directories -/
def Touch (a : HPath) (H H' : Host) : Prop :=
  ∀ q, H'.get q = H.get q ∨ a <+: q ∨ (q <+: a ∧ H.get q = none ∧ H'.get q = some .dir)

theorem Touch.refl (a : HPath) (H : Host) : Touch a H H := fun _ => Or.inl rfl

theorem Touch.of_eq {a : HPath} {H H' : Host} (h : H'.get = H.get) : Touch a H H' :=
  fun q => Or.inl (congrFun h q)

theorem Touch.trans {a : HPath} {H H1 H2 : Host} (h1 : Touch a H H1) (h2 : Touch a H1 H2) : Touch a H H2 := by
  intro q
  rcases h2 q with e2 | u2 | ⟨p2, n2, d2⟩
  · rcases h1 q with e1 | u1 | ⟨p1, n1, d1⟩
    · exact Or.inl (e2.trans e1)
    · exact Or.inr (Or.inl u1)
    · exact Or.inr (Or.inr ⟨p1, n1, by rw [e2, d1]⟩)
  · exact Or.inr (Or.inl u2)
  · rcases h1 q with e1 | u1 | ⟨p1, n1, d1⟩
    · exact Or.inr (Or.inr ⟨p2, by rw [← e1]; exact n2, d2⟩)
    · exact Or.inr (Or.inl u1)
    · rw [d1] at n2; cases n2

/-- a change addressed below `a'` is a change addressed below any prefix `a` of `a'` -/
theorem Touch.mono {a a' : HPath} {H H' : Host} (ha : a <+: a') (h : Touch a' H H') : Touch a H H' := by
  intro q
  rcases h q with e | u | ⟨p, n, d⟩
  · exact Or.inl e
  · exact Or.inr (Or.inl (ha.trans u))
  · rcases List.prefix_or_prefix_of_prefix ha p with h1 | h1
    · exact Or.inr (Or.inl h1)
    · exact Or.inr (Or.inr ⟨h1, n, d⟩)

theorem touch_put {a p : HPath} (H : Host) (e : Entry) (hp : p ≠ []) (ha : a <+: p) : Touch a H (H.put p e) := by
  intro q
  rw [Host.get_put _ _ _ hp]
  by_cases hq : q = p
  · subst hq; exact Or.inr (Or.inl ha)
  · simp [hq]

theorem touch_del {a p : HPath} (H : Host) (hp : p ≠ []) (ha : a <+: p) : Touch a H (H.del p) := by
  intro q
  rw [Host.get_del _ _ hp]
  by_cases hq : q = p
  · subst hq; exact Or.inr (Or.inl ha)
  · simp [hq]

theorem touch_delTree {a p : HPath} (H : Host) (hp : p ≠ []) (ha : a <+: p) : Touch a H (H.delTree p) := by
  intro q
  rw [Host.get_delTree _ _ hp]
  by_cases hq : p <+: q
  · exact Or.inr (Or.inl (ha.trans hq))
  · simp [hq]

/-! ### what a successful system call did -/

theorem osMkdirAll_some {H H' : Host} (hwf : H.WF) {p : HPath} (h : osMkdirAll H p = some H') :
    FS.mkdirOk H.get p ∧ H'.WF ∧ H'.get = FS.mkdirSt H.get p := by
  by_cases hok : FS.mkdirOk H.get p
  · obtain ⟨H1, h1, hwf1, hget1⟩ := osMkdirAll_ok hwf p hok
    rw [h] at h1; cases h1
    exact ⟨hok, hwf1, hget1⟩
  · rw [osMkdirAll_fail hwf p hok] at h; cases h

theorem touch_mkdirAll {H H' : Host} (hwf : H.WF) {a p : HPath} (h : osMkdirAll H p = some H')
    (hap : p <+: a ∨ a <+: p) : H'.WF ∧ Touch a H H' := by
  obtain ⟨hok, hwf', hget'⟩ := osMkdirAll_some hwf h
  refine ⟨hwf', ?_⟩
  intro q
  rw [hget']
  simp only [FS.mkdirSt]
  by_cases hq : q <+: p
  · simp only [hq, if_true]
    cases hg : H.get q with
    | some e =>
      cases e with
      | dir => exact Or.inl rfl
      | file d => exact absurd hg (hok q hq d)
    | none =>
      rcases hap with h1 | h1
      · exact Or.inr (Or.inr ⟨hq.trans h1, by simp, by simp⟩)
      · rcases List.prefix_or_prefix_of_prefix h1 hq with h2 | h2
        · exact Or.inr (Or.inl h2)
        · exact Or.inr (Or.inr ⟨h2, by simp, by simp⟩)
  · simp [hq]

theorem osOpenTrunc_some {H H' : Host} {x : HP} (h : osOpenTrunc H x = some H') :
    x.path ≠ [] ∧ H.get x.path.dropLast = some .dir ∧ H.get x.path ≠ some .dir ∧ H' = H.put x.path (.file []) := by
  simp only [osOpenTrunc] at h
  by_cases hc : x.slash = true ∨ x.path = []
  · simp [hc] at h
  · simp only [hc, if_false] at h
    have hne : x.path ≠ [] := fun hn => hc (Or.inr hn)
    cases hpar : H.get x.path.dropLast with
    | none => simp [hpar] at h
    | some e =>
      cases e with
      | file d => simp [hpar] at h
      | dir =>
        simp only [hpar] at h
        cases hg : H.get x.path with
        | none => simp [hg] at h; exact ⟨hne, rfl, by simp, h.symm⟩
        | some e2 =>
          cases e2 with
          | dir => simp [hg] at h
          | file d => simp [hg] at h; exact ⟨hne, rfl, by simp, h.symm⟩

theorem touch_openTrunc {H H' : Host} (hwf : H.WF) {x : HP} (h : osOpenTrunc H x = some H') :
    H'.WF ∧ Touch x.path H H' ∧ H'.get x.path = some (.file []) ∧ x.path ≠ [] := by
  obtain ⟨hne, hpar, hnd, rfl⟩ := osOpenTrunc_some h
  refine ⟨Host.wf_put hwf hne hpar (fun hc => absurd hc hnd), touch_put H _ hne (List.prefix_refl _), ?_, hne⟩
  rw [Host.get_put _ _ _ hne]; simp

theorem touch_append {H H' : Host} (hwf : H.WF) {p : HPath} (hp : p ≠ []) {c : Bytes}
    (h : osAppend H p c = some H') : H'.WF ∧ Touch p H H' := by
  simp only [osAppend] at h
  cases hg : H.get p with
  | none => simp [hg] at h
  | some e =>
    cases e with
    | dir => simp [hg] at h
    | file d =>
      simp only [hg, Option.some.injEq] at h
      subst h
      exact ⟨(osAppend_ok hwf p hp d c hg).2, touch_put H _ hp (List.prefix_refl _)⟩

theorem touch_appendAll {H H' : Host} (hwf : H.WF) {p : HPath} (hp : p ≠ []) {cs : List Bytes}
    (h : osAppendAll H p cs = some H') : H'.WF ∧ Touch p H H' := by
  induction cs generalizing H with
  | nil => simp only [osAppendAll, Option.some.injEq] at h; subst h; exact ⟨hwf, Touch.refl _ _⟩
  | cons c cs ih =>
    simp only [osAppendAll] at h
    cases h1 : osAppend H p c with
    | none => simp [h1] at h
    | some H1 =>
      simp only [h1] at h
      obtain ⟨hwf1, ht1⟩ := touch_append hwf hp h1
      obtain ⟨hwf2, ht2⟩ := ih hwf1 h
      exact ⟨hwf2, ht1.trans ht2⟩

theorem touch_remove {H H' : Host} (hwf : H.WF) {x : HP} (h : osRemove H x = some H') :
    H'.WF ∧ Touch x.path H H' := by
  have hT := Host.wf_treeLike hwf
  simp only [osRemove] at h
  by_cases hne : x.path = []
  · simp [hne] at h
  · simp only [hne, if_false] at h
    cases hs : osStat H x with
    | none => simp [hs] at h
    | some e =>
      simp only [hs] at h
      have hg : H.get x.path = some e := by
        simp only [osStat] at hs
        cases hg : H.get x.path with
        | none => simp [hg] at hs
        | some e2 =>
          cases e2 with
          | dir => simpa [hg] using hs
          | file d =>
            simp only [hg] at hs
            by_cases hsl : x.slash = true
            · simp [hsl] at hs
            · simpa [hsl] using hs
      cases e with
      | file d =>
        simp only [Option.some.injEq] at h
        subst h
        have hk : ∀ n, H.get (x.path ++ [n]) = none :=
          fun n => hT.below_none x.path [n] (by simp) (by rw [hg]; intro hc; cases hc)
        exact ⟨Host.wf_del hwf hne hk, touch_del H hne (List.prefix_refl _)⟩
      | dir =>
        by_cases he : (H.children x.path).isEmpty = true
        · simp only [he, if_true, Option.some.injEq] at h
          subst h
          exact ⟨Host.wf_del hwf hne ((Host.children_isEmpty hwf _).mp he), touch_del H hne (List.prefix_refl _)⟩
        · simp [he] at h

theorem touch_removeAll {H H' : Host} (hwf : H.WF) {p : HPath} (hp : p ≠ []) (h : osRemoveAll H p = some H') :
    H'.WF ∧ Touch p H H' := by
  simp only [osRemoveAll] at h
  cases hg : H.get p with
  | some e =>
    simp only [hg, Option.some.injEq] at h
    subst h
    exact ⟨Host.wf_delTree hwf hp, touch_delTree H hp (List.prefix_refl _)⟩
  | none =>
    simp only [hg] at h
    by_cases ht : H.throughFile p = true
    · simp [ht] at h
    · simp only [ht, Bool.false_eq_true, if_false, Option.some.injEq] at h
      subst h
      exact ⟨hwf, Touch.refl _ _⟩

/-! ### the composites -/

theorem touch_copyFile {H : Host} (hwf : H.WF) (src dst : HP) :
    (copyFile H src dst).1.WF ∧ Touch dst.path H (copyFile H src dst).1 := by
  simp only [copyFile]
  cases hs : osStat H src with
  | none => exact ⟨hwf, Touch.refl _ _⟩
  | some e =>
    cases e with
    | dir => exact ⟨hwf, Touch.refl _ _⟩
    | file x =>
      simp only []
      cases ho : osOpenTrunc H dst with
      | none => exact ⟨hwf, Touch.refl _ _⟩
      | some H1 =>
        obtain ⟨hwf1, ht1, _, hne⟩ := touch_openTrunc hwf ho
        simp only []
        cases hg : H1.get src.path with
        | none => exact ⟨hwf1, ht1⟩
        | some e2 =>
          cases e2 with
          | dir => exact ⟨hwf1, ht1⟩
          | file data =>
            simp only []
            cases ha : osAppend H1 dst.path data with
            | none => exact ⟨hwf1, ht1⟩
            | some H2 =>
              obtain ⟨hwf2, ht2⟩ := touch_append hwf1 hne ha
              exact ⟨hwf2, ht1.trans ht2⟩

theorem touch_copyNodes (src dest : HP) (H : Host) (hwf : H.WF) (l : List (HPath × Bool)) :
    (copyNodes src dest H l).1.WF ∧ Touch dest.path H (copyNodes src dest H l).1 := by
  induction l generalizing H with
  | nil => exact ⟨hwf, Touch.refl _ _⟩
  | cons x rest ih =>
    obtain ⟨sub, b⟩ := x
    cases b with
    | true =>
      simp only [copyNodes]
      cases hm : osMkdirAll H (dest.join sub).path with
      | none => exact ⟨hwf, Touch.refl _ _⟩
      | some H1 =>
        obtain ⟨hwf1, ht1⟩ := touch_mkdirAll (a := dest.path) hwf hm (Or.inr (List.prefix_append _ _))
        obtain ⟨hwf2, ht2⟩ := ih H1 hwf1
        exact ⟨hwf2, ht1.trans ht2⟩
    | false =>
      simp only [copyNodes]
      obtain ⟨hwf1, ht1⟩ := touch_copyFile hwf (src.join sub) (dest.join sub)
      have ht1' : Touch dest.path H (copyFile H (src.join sub) (dest.join sub)).1 :=
        Touch.mono (List.prefix_append _ _) ht1
      cases hc : copyFile H (src.join sub) (dest.join sub) with
      | mk H1 ok =>
        rw [hc] at hwf1 ht1'
        cases ok with
        | false => exact ⟨hwf1, ht1'⟩
        | true =>
          obtain ⟨hwf2, ht2⟩ := ih H1 hwf1
          exact ⟨hwf2, ht1'.trans ht2⟩

theorem dir_path_prefix (x : HP) : x.dir.path <+: x.path := by
  simp only [HP.dir]
  split
  · exact List.prefix_refl _
  · exact List.dropLast_prefix _

theorem touch_copyDirectory {H : Host} (hwf : H.WF) (src dest : HP) :
    ∃ e, copyDirectory H src dest = .eff e ∧ e.1.WF ∧ Touch dest.path H e.1 := by
  simp only [copyDirectory]
  cases hs : osStat H src with
  | none => exact ⟨_, rfl, hwf, Touch.refl _ _⟩
  | some e =>
    cases e with
    | file x => exact ⟨_, rfl, hwf, Touch.refl _ _⟩
    | dir =>
      simp only []
      cases hm : osMkdirAll H dest.dir.path with
      | none => exact ⟨_, rfl, hwf, Touch.refl _ _⟩
      | some H1 =>
        obtain ⟨hwf1, ht1⟩ := touch_mkdirAll (a := dest.path) hwf hm (Or.inl (dir_path_prefix dest))
        simp only []
        cases hc : collect (walkItems H1 src) [] with
        | panic => exact absurd hc (collect_walk_no_panic H1 src)
        | fail => exact ⟨_, rfl, hwf1, ht1⟩
        | nodes l =>
          obtain ⟨hwf2, ht2⟩ := touch_copyNodes src dest H1 hwf1 l
          exact ⟨_, rfl, hwf2, ht1.trans ht2⟩

theorem touch_copy {H : Host} (hwf : H.WF) (src dest : HP) :
    ∃ e, copy H src dest = .eff e ∧ e.1.WF ∧ Touch dest.path H e.1 := by
  simp only [copy]
  split
  · exact touch_copyDirectory hwf src dest
  · exact ⟨_, rfl, touch_copyFile hwf src dest⟩

/-! ### every call -/

/-- the normalised argument a call may write at: the destination of a copy, the path of the others -/
def target (r : HPath) : Op → Option HPath
  | .copy _ d | .copyDirectory _ d | .copyFile _ d => (norm d).map (r ++ ·)
  | .readDir p | .isExist p | .isFile p | .isDir p | .mkdirAll p | .readFile p | .writeFile p _ | .filespace p
  | .reader p _ | .writer p _ | .remove p | .removeAll p | .lstat p => (norm p).map (r ++ ·)

/-- what `step_clean` says about an outcome -/
def Clean (r : HPath) (H : Host) (op : Op) (x : Host × Out) : Prop :=
  x.1.WF ∧ x.2 ≠ .panic ∧ (x.1.get = H.get ∨ ∃ a, target r op = some a ∧ Touch a H x.1)

theorem clean_same {r : HPath} {H : Host} {op : Op} (hwf : H.WF) (res : Result) : Clean r H op (H, .val res) :=
  ⟨hwf, by simp, Or.inl rfl⟩

theorem clean_touch {r : HPath} {H H' : Host} {op : Op} {a : HPath} (hwf : H'.WF) (res : Result)
    (ha : target r op = some a) (ht : Touch a H H') : Clean r H op (H', .val res) :=
  ⟨hwf, by simp, Or.inr ⟨a, ha, ht⟩⟩

theorem okErr_clean {r : HPath} {H : Host} {op : Op} {a : HPath} (e : Eff) (hwf : e.1.WF)
    (ha : target r op = some a) (ht : Touch a H e.1) : Clean r H op (okErr e) :=
  ⟨hwf, by simp [okErr], Or.inr ⟨a, ha, ht⟩⟩

/-- EVERY CALL, ANY STATE, ANY ARGUMENTS: well-formedness kept, no panic, only addressed paths change -/
theorem step_clean (r : HPath) (H : Host) (hwf : H.WF) (op : Op) : Clean r H op (step r H op) := by
  cases op with
  | readDir raw =>
    simp only [step]
    cases hn : norm raw with
    | none => exact clean_same hwf _
    | some p => simp only []; cases osReadDir H (full r p) <;> exact clean_same hwf _
  | isExist raw =>
    simp only [step]
    cases hn : norm raw <;> exact clean_same hwf _
  | isFile raw =>
    simp only [step]
    cases hn : norm raw <;> exact clean_same hwf _
  | isDir raw =>
    simp only [step]
    cases hn : norm raw <;> exact clean_same hwf _
  | readFile raw =>
    simp only [step]
    cases hn : norm raw with
    | none => exact clean_same hwf _
    | some p =>
      simp only []
      cases hs : osStat H (full r p) with
      | none => exact clean_same hwf _
      | some e => cases e <;> exact clean_same hwf _
  | lstat raw =>
    simp only [step]
    cases hn : norm raw with
    | none => exact clean_same hwf _
    | some p =>
      simp only []
      cases hs : osStat H (full r p) with
      | none => exact clean_same hwf _
      | some e => cases e <;> exact clean_same hwf _
  | filespace raw =>
    simp only [step]
    cases hn : norm raw <;> exact clean_same hwf _
  | reader raw sizes =>
    simp only [step]
    cases hn : norm raw with
    | none => exact clean_same hwf _
    | some p =>
      simp only []
      cases hs : osStat H (full r p) with
      | none => exact clean_same hwf _
      | some e =>
        cases e with
        | file d => exact clean_same hwf _
        | dir => simp only []; split <;> exact clean_same hwf _
  | mkdirAll raw =>
    simp only [step]
    cases hn : norm raw with
    | none => exact clean_same hwf _
    | some p =>
      simp only []
      cases hm : osMkdirAll H (r ++ p) with
      | none => exact clean_same hwf _
      | some H1 =>
        obtain ⟨hwf1, ht1⟩ := touch_mkdirAll (a := r ++ p) hwf hm (Or.inl (List.prefix_refl _))
        exact clean_touch hwf1 _ (by simp [target, hn, full_path]) ht1
  | writeFile raw data =>
    simp only [step]
    cases hn : norm raw with
    | none => exact clean_same hwf _
    | some p =>
      simp only []
      have hta : target r (.writeFile raw data) = some (r ++ p) := by simp [target, hn]
      cases hm : osMkdirAll H (full r p).dir.path with
      | none => exact clean_same hwf _
      | some H1 =>
        obtain ⟨hwf1, ht1⟩ := touch_mkdirAll (a := r ++ p) hwf hm (Or.inl (dir_path_prefix (full r p)))
        simp only []
        cases ho : osOpenTrunc H1 (full r p) with
        | none => exact clean_touch hwf1 _ hta ht1
        | some H2 =>
          obtain ⟨hwf2, ht2, _, hne⟩ := touch_openTrunc hwf1 ho
          simp only []
          cases ha : osAppend H2 (r ++ p) data with
          | none => exact clean_touch hwf2 _ hta (ht1.trans ht2)
          | some H3 =>
            obtain ⟨hwf3, ht3⟩ := touch_append hwf2 hne ha
            exact clean_touch hwf3 _ hta ((ht1.trans ht2).trans ht3)
  | writer raw chunks =>
    simp only [step]
    cases hn : norm raw with
    | none => exact clean_same hwf _
    | some p =>
      simp only []
      have hta : target r (.writer raw chunks) = some (r ++ p) := by simp [target, hn]
      cases ho : osOpenTrunc H (full r p) with
      | none => exact clean_same hwf _
      | some H1 =>
        obtain ⟨hwf1, ht1, _, hne⟩ := touch_openTrunc hwf ho
        simp only []
        cases ha : osAppendAll H1 (r ++ p) chunks with
        | none => exact clean_touch hwf1 _ hta ht1
        | some H2 =>
          obtain ⟨hwf2, ht2⟩ := touch_appendAll hwf1 hne ha
          exact clean_touch hwf2 _ hta (ht1.trans ht2)
  | remove raw =>
    simp only [step]
    cases hn : norm raw with
    | none => exact clean_same hwf _
    | some p =>
      simp only []
      split
      · exact clean_same hwf _
      · cases hr : osRemove H (full r p) with
        | none => exact clean_same hwf _
        | some H1 =>
          obtain ⟨hwf1, ht1⟩ := touch_remove hwf hr
          exact clean_touch hwf1 _ (by simp [target, hn, full_path]) ht1
  | removeAll raw =>
    simp only [step]
    cases hn : norm raw with
    | none => exact clean_same hwf _
    | some p =>
      simp only []
      split
      · exact clean_same hwf _
      · next hp =>
        cases hr : osRemoveAll H (r ++ p) with
        | none => exact clean_same hwf _
        | some H1 =>
          obtain ⟨hwf1, ht1⟩ := touch_removeAll hwf (append_ne_nil hp) hr
          exact clean_touch hwf1 _ (by simp [target, hn, full_path]) ht1
  | copyFile rs rd =>
    simp only [step]
    cases hs : norm rs with
    | none => exact clean_same hwf _
    | some s =>
      cases hd : norm rd with
      | none => exact clean_same hwf _
      | some d =>
        simp only []
        obtain ⟨hwf1, ht1⟩ := touch_copyFile hwf (full r s) (full r d)
        exact okErr_clean _ hwf1 (by simp [target, hd, full_path]) ht1
  | copyDirectory rs rd =>
    simp only [step]
    cases hs : norm rs with
    | none => exact clean_same hwf _
    | some s =>
      cases hd : norm rd with
      | none => exact clean_same hwf _
      | some d =>
        simp only []
        obtain ⟨e, he, hwf1, ht1⟩ := touch_copyDirectory hwf (full r s) (full r d)
        rw [he]
        exact okErr_clean _ hwf1 (by simp [target, hd, full_path]) ht1
  | copy rs rd =>
    simp only [step]
    cases hs : norm rs with
    | none => exact clean_same hwf _
    | some s =>
      cases hd : norm rd with
      | none => exact clean_same hwf _
      | some d =>
        simp only []
        obtain ⟨e, he, hwf1, ht1⟩ := touch_copy hwf (full r s) (full r d)
        rw [he]
        exact okErr_clean _ hwf1 (by simp [target, hd, full_path]) ht1

end DiskFS
end Goat
