/-
Lemmas about the host of `Goat/Model/DiskFS.lean` (nothing here changes a definition):
what `get` answers after `put` / `del` / `delTree`, preservation of `Host.WF`, `WF → TreeLike`,
the children of a directory, and the insertion sort (`Perm`, `Pairwise`).
-/
import Goat.Proofs.DiskFSDefs

namespace Goat
namespace DiskFS

open Path (Name norm)
open FS (Op Result Entry State TreeLike)

/-! ### sorting -/

theorem insertBy_perm {α} (le : α → α → Bool) (a : α) (l : List α) : (insertBy le a l).Perm (a :: l) := by
  induction l with
  | nil => exact List.Perm.refl _
  | cons b l ih =>
    simp only [insertBy]
    split
    · exact List.Perm.refl _
    · exact ((List.Perm.cons b ih).trans (List.Perm.swap a b l))

theorem sortBy_perm {α} (le : α → α → Bool) (l : List α) : (sortBy le l).Perm l := by
  induction l with
  | nil => exact List.Perm.refl _
  | cons a l ih => exact (insertBy_perm le a _).trans (List.Perm.cons a ih)

theorem insertBy_pairwise {α} (le : α → α → Bool)
    (trans : ∀ a b c, le a b = true → le b c = true → le a c = true)
    (total : ∀ a b, le a b = true ∨ le b a = true)
    (a : α) (l : List α) (h : l.Pairwise (fun x y => le x y = true)) :
    (insertBy le a l).Pairwise (fun x y => le x y = true) := by
  induction l with
  | nil => simp [insertBy]
  | cons b l ih =>
    rw [List.pairwise_cons] at h
    simp only [insertBy]
    split
    · next hab =>
      refine List.pairwise_cons.mpr ⟨?_, List.pairwise_cons.mpr h⟩
      intro c hc
      rcases List.mem_cons.mp hc with rfl | hc
      · exact hab
      · exact trans _ _ _ hab (h.1 c hc)
    · next hab =>
      have hba : le b a = true := by
        rcases total a b with h1 | h1
        · exact absurd h1 hab
        · exact h1
      refine List.pairwise_cons.mpr ⟨?_, ih h.2⟩
      intro c hc
      rcases List.mem_cons.mp ((insertBy_perm le a l).mem_iff.mp hc) with rfl | hc
      · exact hba
      · exact h.1 c hc

theorem sortBy_pairwise {α} (le : α → α → Bool)
    (trans : ∀ a b c, le a b = true → le b c = true → le a c = true)
    (total : ∀ a b, le a b = true ∨ le b a = true) (l : List α) :
    (sortBy le l).Pairwise (fun x y => le x y = true) := by
  induction l with
  | nil => simp [sortBy]
  | cons a l ih => exact insertBy_pairwise le trans total a _ ih

theorem eq_snoc_of_getLast? {α} {l : List α} {m : α} (h : l.getLast? = some m) : l = l.dropLast ++ [m] := by
  obtain ⟨ys, rfl⟩ := List.getLast?_eq_some_iff.mp h
  simp

theorem getLast?_ne_nil {α} {l : List α} {m : α} (h : l.getLast? = some m) : l ≠ [] := by
  intro hc; simp [hc] at h

namespace Host

/-! ### `raw`, `get` -/

theorem raw_filter (H : Host) (g : HPath → Bool) (p : HPath) :
    raw (H.filter fun kv => g kv.1) p = if g p then raw H p else none := by
  induction H with
  | nil => simp [raw]
  | cons kv rest ih =>
    obtain ⟨k, e⟩ := kv
    simp only [List.filter]
    by_cases hk : g k = true
    · simp only [hk, raw]
      by_cases hkp : k = p
      · subst hkp; simp [hk]
      · simp only [hkp, if_false]; exact ih
    · have hk' : g k = false := by simpa using hk
      simp only [hk', raw]
      by_cases hkp : k = p
      · subst hkp; simp [hk', ih]
      · simp only [hkp, if_false]; exact ih

theorem get_nil (H : Host) : H.get [] = some .dir := by simp [get]

theorem get_of_ne {H : Host} {p : HPath} (hp : p ≠ []) : H.get p = H.raw p := by simp [get, hp]

theorem get_put (H : Host) (p : HPath) (e : Entry) (hp : p ≠ []) (q : HPath) :
    (H.put p e).get q = if q = p then some e else H.get q := by
  by_cases hq : q = []
  · subst hq
    simp [get, Ne.symm hp]
  · simp only [get, hq, if_false, put, raw]
    by_cases hqp : q = p
    · subst hqp; simp
    · have : ¬ p = q := fun h => hqp h.symm
      simp only [this, if_false, hqp]
      have := raw_filter H (fun k => decide (k ≠ p)) q
      simp only [hqp, ne_eq, not_false_eq_true, decide_true, if_true] at this
      exact this

theorem get_del (H : Host) (p : HPath) (hp : p ≠ []) (q : HPath) :
    (H.del p).get q = if q = p then none else H.get q := by
  by_cases hq : q = []
  · subst hq; simp [get, Ne.symm hp]
  · simp only [get, hq, if_false, del]
    have := raw_filter H (fun k => decide (k ≠ p)) q
    rw [this]
    by_cases hqp : q = p <;> simp [hqp]

theorem get_delTree (H : Host) (p : HPath) (hp : p ≠ []) (q : HPath) :
    (H.delTree p).get q = if p <+: q then none else H.get q := by
  by_cases hq : q = []
  · subst hq
    have : ¬ p <+: [] := by simpa using hp
    simp [get, this]
  · simp only [get, hq, if_false, delTree]
    have := raw_filter H (fun k => decide (¬ p <+: k)) q
    rw [this]
    by_cases hpq : p <+: q <;> simp [hpq]

/-! ### membership and well-formedness -/

theorem mem_of_raw {H : Host} {p : HPath} {e : Entry} (h : H.raw p = some e) : (p, e) ∈ H := by
  induction H with
  | nil => simp [raw] at h
  | cons kv rest ih =>
    obtain ⟨k, e'⟩ := kv
    simp only [raw] at h
    by_cases hk : k = p
    · subst hk; simp at h; subst h; simp
    · simp only [hk, if_false] at h
      exact List.mem_cons_of_mem _ (ih h)

theorem raw_of_mem {H : Host} (hn : (H.map (·.1)).Nodup) {p : HPath} {e : Entry} (h : (p, e) ∈ H) :
    H.raw p = some e := by
  induction H with
  | nil => simp at h
  | cons kv rest ih =>
    obtain ⟨k, e'⟩ := kv
    simp only [List.map_cons, List.nodup_cons] at hn
    simp only [raw]
    rcases List.mem_cons.mp h with h1 | h1
    · cases h1; simp
    · have : k ≠ p := by
        intro hk; subst hk
        exact hn.1 (List.mem_map.mpr ⟨(k, e), h1, rfl⟩)
      simp only [this, if_false]
      exact ih hn.2 h1

theorem raw_ne_none_iff {H : Host} {p : HPath} : H.raw p ≠ none ↔ p ∈ H.map (·.1) := by
  induction H with
  | nil => simp [raw]
  | cons kv rest ih =>
    obtain ⟨k, e⟩ := kv
    simp only [raw, List.map_cons, List.mem_cons]
    by_cases hk : k = p
    · subst hk; simp
    · simp only [hk, if_false, ih]
      constructor
      · exact Or.inr
      · rintro (h | h)
        · exact absurd h.symm hk
        · exact h

theorem wf_treeLike {H : Host} (h : H.WF) : TreeLike H.get := by
  refine ⟨get_nil H, ?_⟩
  intro q n hq
  have hne : q ++ [n] ≠ [] := by simp
  rw [get_of_ne hne] at hq
  cases hr : H.raw (q ++ [n]) with
  | none => exact absurd hr hq
  | some e =>
    have := (h.2 _ (mem_of_raw hr)).2
    simpa using this

theorem wf_nil : WF ([] : Host) := by simp [WF]

/-- the parent of whatever exists is a directory -/
theorem parent_dir {H : Host} (h : H.WF) {p : HPath} (hp : p ≠ []) (he : H.get p ≠ none) :
    H.get p.dropLast = some .dir := by
  rw [get_of_ne hp] at he
  cases hr : H.raw p with
  | none => exact absurd hr he
  | some e => exact (h.2 _ (mem_of_raw hr)).2

theorem wf_put {H : Host} (h : H.WF) {p : HPath} {e : Entry} (hp : p ≠ [])
    (hpar : H.get p.dropLast = some .dir) (hold : H.get p = some .dir → e = .dir) : (H.put p e).WF := by
  constructor
  · simp only [put, List.map_cons, List.nodup_cons]
    refine ⟨?_, ?_⟩
    · intro hm
      obtain ⟨kv, hkv, hk⟩ := List.mem_map.mp hm
      have := (List.mem_filter.mp hkv).2
      simp at this
      exact this hk
    · exact (List.filter_sublist.map _).nodup h.1
  · intro kv hkv
    have hdl : p.dropLast ≠ p := by
      intro hc
      have := congrArg List.length hc
      simp at this
      have : p.length ≠ 0 := by
        intro h0; exact hp (List.length_eq_zero_iff.mp h0)
      omega
    simp only [put, List.mem_cons] at hkv
    rcases hkv with rfl | hkv
    · refine ⟨hp, ?_⟩
      rw [get_put H p e hp]
      simp [hdl, hpar]
    · obtain ⟨hm, hne⟩ := List.mem_filter.mp hkv
      have hne' : kv.1 ≠ p := by simpa using hne
      refine ⟨(h.2 kv hm).1, ?_⟩
      rw [get_put H p e hp]
      by_cases hd : kv.1.dropLast = p
      · simp only [hd, if_true]
        have := (h.2 kv hm).2
        rw [hd] at this
        rw [hold this]
      · simp only [hd, if_false]
        exact (h.2 kv hm).2

theorem wf_del {H : Host} (h : H.WF) {p : HPath} (hp : p ≠ []) (hkids : ∀ n, H.get (p ++ [n]) = none) :
    (H.del p).WF := by
  constructor
  · exact (List.filter_sublist.map _).nodup h.1
  · intro kv hkv
    obtain ⟨hm, _⟩ := List.mem_filter.mp hkv
    refine ⟨(h.2 kv hm).1, ?_⟩
    rw [get_del H p hp]
    by_cases hd : kv.1.dropLast = p
    · exfalso
      have hk := (h.2 kv hm).1
      have hk2 : kv.1 = p ++ [kv.1.getLast hk] := by
        rw [← hd]; exact (List.dropLast_concat_getLast hk).symm
      have h1 := hkids (kv.1.getLast hk)
      rw [← hk2, get_of_ne hk] at h1
      have h2 := raw_of_mem h.1 (show (kv.1, kv.2) ∈ H from hm)
      rw [h1] at h2
      cases h2
    · simp only [hd, if_false]
      exact (h.2 kv hm).2

theorem wf_delTree {H : Host} (h : H.WF) {p : HPath} (hp : p ≠ []) : (H.delTree p).WF := by
  constructor
  · exact (List.filter_sublist.map _).nodup h.1
  · intro kv hkv
    obtain ⟨hm, hf⟩ := List.mem_filter.mp hkv
    have hf' : ¬ p <+: kv.1 := by simpa using hf
    refine ⟨(h.2 kv hm).1, ?_⟩
    rw [get_delTree H p hp]
    have : ¬ p <+: kv.1.dropLast := fun hc => hf' (hc.trans (List.dropLast_prefix _))
    simp only [this, if_false]
    exact (h.2 kv hm).2

/-! ### children -/

theorem mem_children {H : Host} (h : H.WF) (p : HPath) (n : Name) (b : Bool) :
    (n, b) ∈ H.children p ↔ (H.get (p ++ [n])).map Entry.isDir = some b := by
  have hne : p ++ [n] ≠ [] := by simp
  rw [get_of_ne hne]
  simp only [children, List.mem_filterMap]
  constructor
  · rintro ⟨kv, hm, hf⟩
    have hk := (h.2 kv hm).1
    cases hl : kv.1.getLast? with
    | none => simp [hl] at hf
    | some m =>
      simp only [hl] at hf
      by_cases hd : kv.1.dropLast = p
      · simp only [hd, if_true, Option.some.injEq, Prod.mk.injEq] at hf
        obtain ⟨rfl, rfl⟩ := hf
        have hk2 : kv.1 = p ++ [m] := by
          rw [← hd]; exact eq_snoc_of_getLast? hl
        rw [← hk2, raw_of_mem h.1 (show (kv.1, kv.2) ∈ H from hm)]
        rfl
      · simp [hd] at hf
  · intro hg
    cases hr : H.raw (p ++ [n]) with
    | none => simp [hr] at hg
    | some e =>
      simp only [hr, Option.map_some, Option.some.injEq] at hg
      refine ⟨(p ++ [n], e), mem_of_raw hr, ?_⟩
      simp [hg]

theorem children_names_mem {H : Host} (p : HPath) (n : Name) (h : n ∈ (H.children p).map (·.1)) :
    p ++ [n] ∈ H.map (·.1) := by
  obtain ⟨nb, hnb, rfl⟩ := List.mem_map.mp h
  simp only [children, List.mem_filterMap] at hnb
  obtain ⟨kv, hm, hf⟩ := hnb
  cases hl : kv.1.getLast? with
  | none => simp [hl] at hf
  | some m =>
    simp only [hl] at hf
    by_cases hd : kv.1.dropLast = p
    · simp only [hd, if_true, Option.some.injEq] at hf
      subst hf
      have hk : kv.1 ≠ [] := by intro hc; simp [hc] at hl
      have hk2 : kv.1 = p ++ [m] := by
        rw [← hd]; exact eq_snoc_of_getLast? hl
      exact List.mem_map.mpr ⟨kv, hm, hk2⟩
    · simp [hd] at hf

theorem children_nodup {H : Host} (hn : (H.map (·.1)).Nodup) (p : HPath) :
    ((H.children p).map (·.1)).Nodup := by
  induction H with
  | nil => simp [children]
  | cons kv rest ih =>
    simp only [List.map_cons, List.nodup_cons] at hn
    have ih' := ih hn.2
    simp only [children, List.filterMap_cons] at ih' ⊢
    cases hl : kv.1.getLast? with
    | none => simpa [hl] using ih'
    | some m =>
      simp only [hl]
      by_cases hd : kv.1.dropLast = p
      · simp only [hd, if_true, List.map_cons, List.nodup_cons]
        refine ⟨?_, ih'⟩
        intro hm
        have := children_names_mem (H := rest) p m hm
        have hk : kv.1 ≠ [] := by intro hc; simp [hc] at hl
        have hk2 : kv.1 = p ++ [m] := by
          rw [← hd]; exact eq_snoc_of_getLast? hl
        rw [← hk2] at this
        exact hn.1 this
      · simpa [hd] using ih'

/-- no child: `children` is empty exactly when nothing stands directly below -/
theorem children_isEmpty {H : Host} (h : H.WF) (p : HPath) :
    (H.children p).isEmpty = true ↔ ∀ n, H.get (p ++ [n]) = none := by
  constructor
  · intro he n
    have hnil : H.children p = [] := List.isEmpty_iff.mp he
    cases hg : H.get (p ++ [n]) with
    | none => rfl
    | some e =>
      have := (mem_children h p n e.isDir).mpr (by simp [hg])
      simp [hnil] at this
  · intro hall
    apply List.isEmpty_iff.mpr
    apply List.eq_nil_iff_forall_not_mem.mpr
    rintro ⟨n, b⟩ hm
    have := (mem_children h p n b).mp hm
    simp [hall n] at this

end Host

/-- the sorted listing of a directory is a listing in the sense of the specification -/
theorem isListing_sorted {H : Host} (h : H.WF) (p : HPath) :
    FS.IsListing H.get p (sortBy keyLe (H.children p)) := by
  have hp := sortBy_perm (keyLe (α := UInt8) (β := Bool)) (H.children p)
  constructor
  · exact (hp.map _).nodup_iff.mpr (Host.children_nodup h.1 p)
  · intro n b
    rw [hp.mem_iff]
    exact Host.mem_children h p n b

end DiskFS
end Goat
