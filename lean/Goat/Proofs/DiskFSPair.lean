/-
Every backend pair (helper lemmas for C02): a memory handle — the root filespace or a child view at ANY
base `m0` — paired with a disk handle — a filespace rooted at ANY directory `r0` of the host, i.e. a root
or a child view — and the views opened from the two in step.  The pair shows the same tree (`SimG`): what
stands at `m0 ++ q` in memory stands at `r0 ++ q` on the host.  On every history inside the precondition
the two answer alike, with ONE exception, made explicit in `AllAgreeG`: `Lstat` of the pair's own root,
where each side reports the name of its own root directory (`ROOT` / last segment of `m0` in memory, the last
segment of `r0` on disk) — the precondition `PreN` is `Pre` without its `Lstat` clause.
-/
import Goat.Proofs.DiskFSConfine

namespace Goat
namespace DiskFS

open Path (Name norm)
open FS (Op Result Entry State TreeLike Mut Step ResEq)

/-- `Pre` without the clause about `Lstat` (which only excludes the own root of the root filespace) -/
def PreN (b : FS.Path) (S : State) (op : Op) : Prop :=
  match op with
  | .lstat _ => S b = some .dir
  | _ => Pre b S op

instance (b : FS.Path) (S : State) (op : Op) : Decidable (PreN b S op) := by
  unfold PreN; split <;> exact inferInstance

def PreAtN (w : MemFS.World) (h : Nat) (op : Op) : Prop :=
  match w.views[h]? with
  | some ref => PreN (MemFS.baseOf ref) (abs w.root) op
  | none => True

/-- every call of the history is inside `PreN` in the state in which it is made -/
def AllPreN : MemFS.World → List (Nat × Op) → Prop
  | _, [] => True
  | w, (h, op) :: rest => PreAtN w h op ∧ AllPreN (w.step h op).1 rest

instance (w : MemFS.World) (h : Nat) (op : Op) : Decidable (PreAtN w h op) := by
  unfold PreAtN; split <;> exact inferInstance

def decAllPreN : (w : MemFS.World) → (ops : List (Nat × Op)) → Decidable (AllPreN w ops)
  | _, [] => isTrue trivial
  | w, (h, op) :: rest =>
    match (inferInstance : Decidable (PreAtN w h op)), decAllPreN (w.step h op).1 rest with
    | isTrue a, isTrue b => isTrue ⟨a, b⟩
    | isFalse a, _ => isFalse fun hc => a hc.1
    | _, isFalse b => isFalse fun hc => b hc.2

instance (w : MemFS.World) (ops : List (Nat × Op)) : Decidable (AllPreN w ops) := decAllPreN w ops

/-- the call is `Lstat` of the own root `m0` of the memory side of the pair -/
def RootLstat (m0 : FS.Path) (w : MemFS.World) (h : Nat) (op : Op) : Prop :=
  match w.views[h]?, op with
  | some ref, .lstat raw =>
    match norm raw with
    | some p => MemFS.baseOf ref ++ p = m0
    | none => False
  | _, _ => False

instance (m0 : FS.Path) (w : MemFS.World) (h : Nat) (op : Op) : Decidable (RootLstat m0 w h op) := by
  unfold RootLstat; split
  · split <;> exact inferInstance
  · exact inferInstance

/-- the pair shows the same tree — memory below `m0`, the host below `r0` — and has the same views open -/
structure SimG (m0 r0 : HPath) (w : MemFS.World) (dw : World) : Prop where
  mem : MemFS.WorldOK w
  wf : dw.host.WF
  state : ∀ q, abs w.root (m0 ++ q) = dw.host.get (r0 ++ q)
  views : ∃ cs : List HPath, w.views.map MemFS.baseOf = cs.map (m0 ++ ·) ∧ dw.views = cs.map (r0 ++ ·)

/-- what the two sides answer to one call: the same (`Agree`), or the call is `Lstat` of the pair's own
root and each side names its own root directory -/
def AgreeG (m0 r0 : HPath) (w : MemFS.World) (h : Nat) (op : Op) (rm : Result) (o : Out) : Prop :=
  Agree rm o ∨ (RootLstat m0 w h op ∧ rm = .stat (FS.statName m0) true 0 ∧ o = .val (.stat (statName r0) true 0))

/-- … call by call along a history -/
def AllAgreeG (m0 r0 : HPath) : MemFS.World → List (Nat × Op) → List Result → List Out → Prop
  | _, [], [], [] => True
  | w, (h, op) :: rest, rm :: rms, o :: os =>
    AgreeG m0 r0 w h op rm o ∧ AllAgreeG m0 r0 (w.step h op).1 rest rms os
  | _, _, _, _ => False

theorem abs_treeLike {t : Node} (ht : MemFS.Inv t) : TreeLike (abs t) := by
  obtain ⟨k, hk⟩ := ht.dir
  refine ⟨by simp [abs, hk, Node.lookup, Node.entry], ?_⟩
  intro q n hq
  exact MemAbs.abs_parent_dir t q [n] (by simp) hq

/-- the converse of `pre_host`, where `Lstat` does not address the base itself -/
theorem pre_unhost (r0 b : HPath) (S : State) (op : Op) (h : Pre (r0 ++ b) S op)
    (hl : ∀ raw p, op = .lstat raw → norm raw = some p → b ++ p ≠ []) : Pre b (State.below S r0) op := by
  obtain ⟨h1, h2⟩ := h
  refine ⟨by simpa [State.below] using h1, ?_⟩
  cases op <;> simp only [] at h2 ⊢
  case writer raw cs =>
    cases hn : norm raw <;> simp only [hn] at h2 ⊢
    simpa [State.below, List.append_assoc] using h2
  case removeAll raw =>
    cases hn : norm raw <;> simp only [hn] at h2 ⊢
    simpa [State.below, List.append_assoc] using h2
  case reader raw ss =>
    cases hn : norm raw <;> simp only [hn] at h2 ⊢
    simpa [State.below, List.append_assoc] using h2
  case lstat raw =>
    cases hn : norm raw with
    | none => trivial
    | some p => exact hl raw p rfl hn
  case filespace raw =>
    cases hn : norm raw <;> simp only [hn] at h2 ⊢
    simpa [State.below, List.append_assoc] using h2
  case copyFile rs rd =>
    cases hs : norm rs <;> cases hd : norm rd <;> simp only [hs, hd] at h2 ⊢
    simpa [FileCopyPre, State.below, List.append_assoc] using h2
  case copyDirectory rs rd =>
    cases hs : norm rs <;> cases hd : norm rd <;> simp only [hs, hd] at h2 ⊢
    simpa [DirCopyPre, State.below, List.append_assoc] using h2
  case copy rs rd =>
    cases hs : norm rs <;> cases hd : norm rd <;> simp only [hs, hd] at h2 ⊢
    simpa [FileCopyPre, DirCopyPre, State.below, List.append_assoc] using h2

theorem viewsAfter_map (m0 : HPath) (cs : List HPath) (h : Nat) (op : Op) :
    FS.viewsAfter (cs.map (m0 ++ ·)) h op = (FS.viewsAfter cs h op).map (m0 ++ ·) := by
  cases op with
  | filespace raw =>
    simp only [FS.viewsAfter, List.getElem?_map]
    cases hc : cs[h]? with
    | none => simp
    | some c =>
      cases hn : norm raw with
      | none => simp [hn]
      | some q => simp [hn, List.append_assoc]
  | _ => simp [FS.viewsAfter]

/-- ONE CALL OF A PAIR -/
theorem simG_step (m0 r0 : HPath) (w : MemFS.World) (dw : World) (hsim : SimG m0 r0 w dw) (h : Nat) (op : Op)
    (hpre : PreAtN w h op) :
    SimG m0 r0 (w.step h op).1 (dw.step h op).1
    ∧ AgreeG m0 r0 w h op (w.step h op).2 (dw.step h op).2 := by
  obtain ⟨cs, hcm, hcd⟩ := hsim.views
  have hTm := abs_treeLike hsim.mem.inv
  have hTd := Host.wf_treeLike hsim.wf
  cases hh : w.views[h]? with
  | none =>
    have hc : cs[h]? = none := by
      have : (w.views.map MemFS.baseOf)[h]? = none := by simp [hh]
      rw [hcm] at this
      simpa using this
    have hd : dw.views[h]? = none := by rw [hcd]; simp [hc]
    rw [MemFS.world_step_none w h op hh, world_step_none dw h op hd]
    exact ⟨hsim, Or.inl ⟨.err, rfl, ResEq.refl _⟩⟩
  | some ref =>
    obtain ⟨c, hc, hbase⟩ : ∃ c, cs[h]? = some c ∧ MemFS.baseOf ref = m0 ++ c := by
      have : (w.views.map MemFS.baseOf)[h]? = some (MemFS.baseOf ref) := by simp [hh]
      rw [hcm, List.getElem?_map] at this
      cases hc : cs[h]? with
      | none => simp [hc] at this
      | some c => simp [hc] at this; exact ⟨c, rfl, this.symm⟩
    have hd : dw.views[h]? = some (r0 ++ c) := by rw [hcd]; simp [hc]
    obtain ⟨hmstep, hmok, hmviews, _, _⟩ := MemFS.world_step_ok w hsim.mem h op ref hh
    obtain ⟨hdhost, hdres, hdviews⟩ := world_step_some dw h op _ hd
    rw [hbase] at hmstep
    have hpreN : PreN (m0 ++ c) (abs w.root) op := by
      have := hpre; simp only [PreAtN, hh] at this; rw [hbase] at this; exact this
    -- the pair's own root is a directory on both sides
    have hbdir : abs w.root (m0 ++ c) = some .dir := by
      cases op <;> first | exact hpreN | exact hpreN.1
    have hm0 : abs w.root m0 = some .dir := by
      by_cases hce : c = []
      · subst hce; simpa using hbdir
      · exact hTm.anc_dir m0 c hce (by simp [hbdir])
    have hr0 : dw.host.get r0 = some .dir := by
      have := hsim.state []; simp only [List.append_nil] at this; rw [← this]; exact hm0
    have hbelow : State.below (abs w.root) m0 = State.below dw.host.get r0 := by
      funext q; exact hsim.state q
    by_cases hrl : RootLstat m0 w h op
    · -- Lstat of the pair's own root: each side names its own directory
      simp only [RootLstat, hh] at hrl
      cases op with
      | lstat raw =>
        simp only [] at hrl
        cases hn : norm raw with
        | none => simp [hn] at hrl
        | some p =>
          simp only [hn, hbase] at hrl
          have hcp : c ++ p = [] := by
            have := congrArg List.length hrl
            simp only [List.length_append] at this
            apply List.eq_nil_of_length_eq_zero
            simp only [List.length_append]; omega
          obtain ⟨hc0, hp0⟩ := List.append_eq_nil_iff.mp hcp
          subst hc0; subst hp0
          simp only [List.append_nil] at *
          -- memory side
          have hm : (w.step h (.lstat raw)).2 = .stat (FS.statName m0) true 0
              ∧ abs (w.step h (.lstat raw)).1.root = abs w.root := by
            simp only [Step, hn, List.append_nil, hm0] at hmstep
            exact ⟨hmstep.2, hmstep.1⟩
          -- disk side
          have hdk : step r0 dw.host (.lstat raw) = (dw.host, .val (.stat (statName r0) true 0)) := by
            simp [step, hn, osStat_full hr0, hr0]
          refine ⟨⟨hmok, by rw [hdhost, hdk]; exact hsim.wf, ?_, ?_⟩, Or.inr ⟨?_, hm.1, by rw [hdres, hdk]⟩⟩
          · intro q; rw [hdhost, hdk, hm.2]; exact hsim.state q
          · refine ⟨cs, ?_, ?_⟩
            · rw [hmviews, hcm]; simp [FS.viewsAfter]
            · rw [hdviews]; simpa [viewsNext] using hcd
          · simp [RootLstat, hh, hn, hbase]
      | _ => exact absurd hrl (by simp)
    · -- every other call: both sides are the specification's call through base `c` of the common tree
      have hl : ∀ raw p, op = .lstat raw → norm raw = some p → c ++ p ≠ [] := by
        intro raw p hop hn hcp
        apply hrl
        subst hop
        simp only [RootLstat, hh, hn, hbase, List.append_assoc, hcp, List.append_nil]
      have hpreM : Pre (m0 ++ c) (abs w.root) op := by
        cases op with
        | lstat raw =>
          refine ⟨hpreN, ?_⟩
          simp only []
          cases hn : norm raw with
          | none => trivial
          | some p =>
            simp only []
            intro hc2
            rw [List.append_assoc] at hc2
            exact hl raw p rfl hn (List.append_eq_nil_iff.mp hc2).2
        | _ => exact hpreN
      have hpre0 := pre_unhost m0 c (abs w.root) op hpreM hl
      rw [hbelow] at hpre0
      have hpreD := pre_host r0 c dw.host.get op hpre0
      obtain ⟨hwf', rd, rd', hres, heq, hstep⟩ := step_pre _ dw.host hsim.wf op hpreD
      have hrebD := FS.Step_rebase r0 c _ _ op rd' hTd hr0 hl hstep
      have hrebM := FS.Step_rebase m0 c _ _ op _ hTm hm0 hl hmstep
      rw [hbelow] at hrebM
      obtain ⟨hst, hre⟩ := FS.Step_det _ _ op _ _ _ _ hrebM hrebD
      refine ⟨⟨hmok, by rw [hdhost]; exact hwf', ?_, ?_⟩, Or.inl ⟨rd, by rw [hdres]; exact hres, hre.trans heq⟩⟩
      · intro q
        rw [hdhost]
        exact congrFun hst q
      · refine ⟨FS.viewsAfter cs h op, ?_, ?_⟩
        · rw [hmviews, hcm, viewsAfter_map]
        · rw [hdviews, hcd]
          exact views_step r0 cs h c hc dw.host op hpreD

/-- ALL HISTORIES OF A PAIR -/
theorem simG_run (m0 r0 : HPath) (w : MemFS.World) (dw : World) (hsim : SimG m0 r0 w dw)
    (ops : List (Nat × Op)) (hpre : AllPreN w ops) :
    SimG m0 r0 (w.run ops).1 (dw.run ops).1 ∧ AllAgreeG m0 r0 w ops (w.run ops).2 (dw.run ops).2 := by
  induction ops generalizing w dw with
  | nil => exact ⟨hsim, trivial⟩
  | cons x rest ih =>
    obtain ⟨h, op⟩ := x
    obtain ⟨hp1, hp2⟩ := hpre
    obtain ⟨hs1, ha1⟩ := simG_step m0 r0 w dw hsim h op hp1
    obtain ⟨hs2, ha2⟩ := ih (w.step h op).1 (dw.step h op).1 hs1 hp2
    rw [MemFS.run_cons]
    have : dw.run ((h, op) :: rest)
        = (((dw.step h op).1.run rest).1, (dw.step h op).2 :: ((dw.step h op).1.run rest).2) := rfl
    rw [this]
    exact ⟨hs2, ha1, ha2⟩

/-- when the two roots carry the same name, or no call is `Lstat` of the pair's own root, the answers agree
throughout -/
theorem allAgree_of_allAgreeG (m0 r0 : HPath) (w : MemFS.World) (ops : List (Nat × Op)) (rms : List Result)
    (os : List Out) (h : AllAgreeG m0 r0 w ops rms os)
    (hname : FS.statName m0 = statName r0 ∨ ∀ w' h' op', ¬ RootLstat m0 w' h' op') : AllAgree rms os := by
  induction ops generalizing w rms os with
  | nil =>
    cases rms <;> cases os <;> simp_all [AllAgreeG, AllAgree]
  | cons x rest ih =>
    obtain ⟨h', op⟩ := x
    cases rms with
    | nil => cases os <;> simp [AllAgreeG] at h
    | cons rm rms =>
      cases os with
      | nil => simp [AllAgreeG] at h
      | cons o os =>
        obtain ⟨h1, h2⟩ := h
        refine ⟨?_, ih _ _ _ h2⟩
        rcases h1 with a | ⟨hr, e1, e2⟩
        · exact a
        · rcases hname with hn | hn
          · exact ⟨_, e2, by rw [e1, hn]; exact ResEq.refl _⟩
          · exact absurd hr (hn _ _ _)

/-- a memory handle `ref` (root or child view) of a tree `t` and a fresh disk filespace rooted at `r0`
that show the same tree form a pair -/
theorem simG_of_handles (t : Node) (ht : MemFS.Inv t) (ref : MemFS.FSRef) (hg : MemFS.GoodRef ref)
    (H0 : Host) (r0 : HPath) (hwf : H0.WF)
    (hstate : ∀ q, abs t (MemFS.baseOf ref ++ q) = H0.get (r0 ++ q)) :
    SimG (MemFS.baseOf ref) r0 ⟨t, [ref]⟩ (World.init H0 r0) :=
  ⟨⟨ht, by intro v hv; simp at hv; subst hv; exact hg⟩, hwf, hstate, [[]], by simp, by simp [World.init]⟩

end DiskFS
end Goat
