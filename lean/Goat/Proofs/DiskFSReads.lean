/-
Read confinement for ALL calls (helper lemmas for C02).  Two well-formed hosts that carry the same entries
at every path related to the root directory `r0` (at or below it, or one of its ancestors) — `Eqv r0` —
answer every call through a filespace rooted at or below `r0` with the SAME outcome, listings in the same
order, partial effects included, and are `Eqv r0` again afterwards: nothing else of the host is read.
Every system call of the model is shown to be a function of what stands at related paths.
-/
import Goat.Proofs.DiskFSPair

namespace Goat
namespace DiskFS

open Path (Name norm)
open FS (Op Result Entry State TreeLike)

/-- `q` is at or below `r0`, or one of its ancestors -/
def Rel (r0 q : HPath) : Prop := r0 <+: q ∨ q <+: r0

theorem rel_under {r0 p : HPath} (h : r0 <+: p) : Rel r0 p := Or.inl h

theorem rel_prefix {r0 p q : HPath} (hp : r0 <+: p) (hq : q <+: p) : Rel r0 q :=
  List.prefix_or_prefix_of_prefix hp hq

theorem rel_dropLast {r0 p : HPath} (hp : r0 <+: p) : Rel r0 p.dropLast := rel_prefix hp (List.dropLast_prefix _)

theorem under_append {r0 p : HPath} (hp : r0 <+: p) (x : HPath) : r0 <+: p ++ x :=
  hp.trans (List.prefix_append _ _)

/-- the two hosts are well formed and agree at every path related to `r0` -/
structure Eqv (r0 : HPath) (A B : Host) : Prop where
  wfA : A.WF
  wfB : B.WF
  same : ∀ q, Rel r0 q → A.get q = B.get q

theorem Eqv.at {r0 : HPath} {A B : Host} (E : Eqv r0 A B) {p : HPath} (hp : r0 <+: p) : A.get p = B.get p :=
  E.same p (rel_under hp)

/-! ### sorted listings are equal -/

theorem eq_of_fst_eq {κ β} {l : List (κ × β)} (nd : (l.map (·.1)).Nodup) {a b : κ × β} (ha : a ∈ l) (hb : b ∈ l)
    (h : a.1 = b.1) : a = b := by
  induction l with
  | nil => simp at ha
  | cons x rest ih =>
    simp only [List.map_cons, List.nodup_cons] at nd
    rcases List.mem_cons.mp ha with rfl | ha' <;> rcases List.mem_cons.mp hb with rfl | hb'
    · rfl
    · exact absurd (List.mem_map.mpr ⟨b, hb', h.symm⟩) nd.1
    · exact absurd (List.mem_map.mpr ⟨a, ha', h⟩) nd.1
    · exact ih nd.2 ha' hb'

theorem sortBy_eq_of_same_mem {κ β} (le : κ × β → κ × β → Bool)
    (trans : ∀ a b c, le a b = true → le b c = true → le a c = true)
    (total : ∀ a b, le a b = true ∨ le b a = true)
    (anti : ∀ a b, le a b = true → le b a = true → a.1 = b.1)
    (l1 l2 : List (κ × β)) (nd1 : (l1.map (·.1)).Nodup) (nd2 : (l2.map (·.1)).Nodup)
    (hmem : ∀ x, x ∈ l1 ↔ x ∈ l2) : sortBy le l1 = sortBy le l2 := by
  have nd : ∀ {l : List (κ × β)}, (l.map (·.1)).Nodup → l.Nodup := fun h =>
    List.Pairwise.of_map (·.1) (fun a b hab e => hab (e ▸ rfl)) h
  have p12 : l1.Perm l2 := (List.perm_ext_iff_of_nodup (nd nd1) (nd nd2)).mpr hmem
  have ps : (sortBy le l1).Perm (sortBy le l2) :=
    ((sortBy_perm le l1).trans p12).trans (sortBy_perm le l2).symm
  apply List.Perm.eq_of_pairwise (le := fun a b => le a b = true) _
    (sortBy_pairwise le trans total l1) (sortBy_pairwise le trans total l2) ps
  intro a b ha hb hab hba
  have ha1 : a ∈ l1 := (sortBy_perm le l1).mem_iff.mp ha
  have hb1 : b ∈ l1 := (hmem b).mpr ((sortBy_perm le l2).mem_iff.mp hb)
  exact eq_of_fst_eq nd1 ha1 hb1 (anti a b hab hba)

theorem nameLe_trans (a b c : Name × Bool) (h1 : keyLe a b = true) (h2 : keyLe b c = true) : keyLe a c = true := by
  simp only [keyLe, decide_eq_true_eq] at *
  exact List.le_trans h1 h2

theorem nameLe_total (a b : Name × Bool) : keyLe a b = true ∨ keyLe b a = true := by
  simp only [keyLe, decide_eq_true_eq]
  exact List.le_total a.1 b.1

theorem nameLe_anti (a b : Name × Bool) (h1 : keyLe a b = true) (h2 : keyLe b a = true) : a.1 = b.1 := by
  simp only [keyLe, decide_eq_true_eq] at *
  exact List.le_antisymm h1 h2

theorem keyLe_anti (a b : HPath × Bool) (h1 : keyLe a b = true) (h2 : keyLe b a = true) : a.1 = b.1 := by
  simp only [keyLe, decide_eq_true_eq] at *
  exact List.le_antisymm h1 h2

section
variable {r0 : HPath} {A B : Host} (E : Eqv r0 A B)
include E

theorem children_sorted_eqv {p : HPath} (hp : r0 <+: p) :
    sortBy keyLe (A.children p) = sortBy keyLe (B.children p) := by
  apply sortBy_eq_of_same_mem keyLe nameLe_trans nameLe_total nameLe_anti _ _
    (Host.children_nodup E.wfA.1 p) (Host.children_nodup E.wfB.1 p)
  rintro ⟨n, b⟩
  rw [Host.mem_children E.wfA, Host.mem_children E.wfB, E.at (under_append hp [n])]

theorem below_sorted_eqv {p : HPath} (hp : r0 <+: p) :
    sortBy keyLe (below A p) = sortBy keyLe (below B p) := by
  apply sortBy_eq_of_same_mem keyLe keyLe_trans keyLe_total keyLe_anti _ _
    (below_nodup E.wfA.1 p) (below_nodup E.wfB.1 p)
  rintro ⟨sub, b⟩
  rw [mem_below E.wfA, mem_below E.wfB, E.at (under_append hp sub)]

theorem children_isEmpty_eqv {p : HPath} (hp : r0 <+: p) :
    (A.children p).isEmpty = (B.children p).isEmpty := by
  have h1 := Host.children_isEmpty E.wfA p
  have h2 := Host.children_isEmpty E.wfB p
  have : (∀ n, A.get (p ++ [n]) = none) ↔ (∀ n, B.get (p ++ [n]) = none) := by
    constructor <;> intro h n
    · rw [← E.at (under_append hp [n])]; exact h n
    · rw [E.at (under_append hp [n])]; exact h n
  cases ha : (A.children p).isEmpty <;> cases hb : (B.children p).isEmpty <;> simp_all

/-! ### system calls -/

theorem osStat_eqv {x : HP} (hp : r0 <+: x.path) : osStat A x = osStat B x := by
  simp only [osStat, E.at hp]

theorem mkdirOk_eqv {p : HPath} (hp : r0 <+: p) : FS.mkdirOk A.get p ↔ FS.mkdirOk B.get p := by
  constructor <;> intro h q hq d
  · rw [← E.same q (rel_prefix hp hq)]; exact h q hq d
  · rw [E.same q (rel_prefix hp hq)]; exact h q hq d

theorem mkdirAll_none {p : HPath} (hp : r0 <+: p) (h : osMkdirAll A p = none) : osMkdirAll B p = none := by
  by_cases hok : FS.mkdirOk A.get p
  · obtain ⟨A', h1, _, _⟩ := osMkdirAll_ok E.wfA p hok
    rw [h] at h1; cases h1
  · exact osMkdirAll_fail E.wfB p (fun hb => hok ((mkdirOk_eqv E hp).mpr hb))

theorem mkdirAll_some {p : HPath} {A' : Host} (hp : r0 <+: p) (h : osMkdirAll A p = some A') :
    ∃ B', osMkdirAll B p = some B' ∧ Eqv r0 A' B' := by
  obtain ⟨hok, hwfA', hgetA⟩ := osMkdirAll_some E.wfA h
  obtain ⟨B', hB, hwfB', hgetB⟩ := osMkdirAll_ok E.wfB p ((mkdirOk_eqv E hp).mp hok)
  refine ⟨B', hB, hwfA', hwfB', ?_⟩
  intro q hq
  rw [hgetA, hgetB]
  simp only [FS.mkdirSt, E.same q hq]

theorem put_eqv {p : HPath} (e : Entry) (hp : p ≠ []) (hA : (A.put p e).WF) (hB : (B.put p e).WF) :
    Eqv r0 (A.put p e) (B.put p e) := by
  refine ⟨hA, hB, ?_⟩
  intro q hq
  rw [Host.get_put _ _ _ hp, Host.get_put _ _ _ hp, E.same q hq]

omit E in
/-- `OpenFile(O_WRONLY|O_CREATE|O_TRUNC)` as a function of what stands at the path and at its parent -/
theorem osOpenTrunc_eq (H : Host) (x : HP) :
    osOpenTrunc H x =
      if x.slash = false ∧ x.path ≠ [] ∧ H.get x.path.dropLast = some .dir ∧ H.get x.path ≠ some .dir
      then some (H.put x.path (.file [])) else none := by
  simp only [osOpenTrunc]
  by_cases hc : x.slash = true ∨ x.path = []
  · have : ¬ (x.slash = false ∧ x.path ≠ [] ∧ H.get x.path.dropLast = some .dir ∧ H.get x.path ≠ some .dir) := by
      rintro ⟨h1, h2, _⟩
      rcases hc with h | h
      · rw [h] at h1; cases h1
      · exact h2 h
    rw [if_pos hc, if_neg this]
  · rw [if_neg hc]
    have h1 : x.slash = false := by
      cases hs : x.slash with
      | false => rfl
      | true => exact absurd (Or.inl hs) hc
    have h2 : x.path ≠ [] := fun h => hc (Or.inr h)
    cases hpar : H.get x.path.dropLast with
    | none => simp
    | some e =>
      cases e with
      | file d => simp
      | dir =>
        cases hg : H.get x.path with
        | none => simp [h1, h2]
        | some e2 => cases e2 <;> simp [h1, h2]

theorem openTrunc_none {x : HP} (hp : r0 <+: x.path) (h : osOpenTrunc A x = none) : osOpenTrunc B x = none := by
  rw [osOpenTrunc_eq] at h ⊢
  rw [← E.at hp, ← E.same _ (rel_dropLast hp)]
  split at h
  · cases h
  · next hc => rw [if_neg hc]

theorem openTrunc_some {x : HP} {A' : Host} (hp : r0 <+: x.path) (h : osOpenTrunc A x = some A') :
    ∃ B', osOpenTrunc B x = some B' ∧ Eqv r0 A' B' := by
  obtain ⟨hne, _, _, hA'⟩ := osOpenTrunc_some h
  have hB : osOpenTrunc B x = some (B.put x.path (.file [])) := by
    have h' := h
    rw [osOpenTrunc_eq] at h' ⊢
    rw [← E.at hp, ← E.same _ (rel_dropLast hp)]
    split at h'
    · next hc => rw [if_pos hc]
    · cases h'
  subst hA'
  exact ⟨_, hB, put_eqv E _ hne (touch_openTrunc E.wfA h).1 (touch_openTrunc E.wfB hB).1⟩

theorem append_none {p : HPath} {c : Bytes} (hp : r0 <+: p) (h : osAppend A p c = none) : osAppend B p c = none := by
  simp only [osAppend] at h ⊢
  rw [← E.at hp]
  cases hg : A.get p with
  | none => rfl
  | some e =>
    cases e with
    | dir => rfl
    | file d => simp [hg] at h

theorem append_some {p : HPath} {c : Bytes} {A' : Host} (hp : r0 <+: p) (hne : p ≠ [])
    (h : osAppend A p c = some A') : ∃ B', osAppend B p c = some B' ∧ Eqv r0 A' B' := by
  have hwfA' := (touch_append E.wfA hne h).1
  simp only [osAppend] at h
  cases hg : A.get p with
  | none => simp [hg] at h
  | some e =>
    cases e with
    | dir => simp [hg] at h
    | file d =>
      simp only [hg, Option.some.injEq] at h
      subst h
      have hgB : B.get p = some (.file d) := by rw [← E.at hp]; exact hg
      have hB : osAppend B p c = some (B.put p (.file (d ++ c))) := by simp [osAppend, hgB]
      exact ⟨_, hB, put_eqv E _ hne hwfA' (touch_append E.wfB hne hB).1⟩

end

theorem appendAll_eqv {r0 : HPath} {A B : Host} (E : Eqv r0 A B) {p : HPath} (hp : r0 <+: p) (hne : p ≠ [])
    (cs : List Bytes) :
    (osAppendAll A p cs = none ∧ osAppendAll B p cs = none)
    ∨ ∃ A' B', osAppendAll A p cs = some A' ∧ osAppendAll B p cs = some B' ∧ Eqv r0 A' B' := by
  induction cs generalizing A B with
  | nil => exact Or.inr ⟨A, B, rfl, rfl, E⟩
  | cons c cs ih =>
    simp only [osAppendAll]
    cases hA : osAppend A p c with
    | none => rw [append_none E hp hA]; exact Or.inl ⟨rfl, rfl⟩
    | some A1 =>
      obtain ⟨B1, hB, E1⟩ := append_some E hp hne hA
      rw [hB]
      exact ih E1

section
variable {r0 : HPath} {A B : Host} (E : Eqv r0 A B)
include E

theorem del_eqv {p : HPath} (hne : p ≠ []) (hA : (A.del p).WF) (hB : (B.del p).WF) : Eqv r0 (A.del p) (B.del p) := by
  refine ⟨hA, hB, ?_⟩
  intro q hq
  rw [Host.get_del _ _ hne, Host.get_del _ _ hne, E.same q hq]

theorem remove_eqv {x : HP} (hp : r0 <+: x.path) :
    (osRemove A x = none ∧ osRemove B x = none)
    ∨ ∃ A' B', osRemove A x = some A' ∧ osRemove B x = some B' ∧ Eqv r0 A' B' := by
  cases hA : osRemove A x with
  | none =>
    left; refine ⟨rfl, ?_⟩
    simp only [osRemove, ← osStat_eqv E hp, ← children_isEmpty_eqv E hp] at hA ⊢
    by_cases hne : x.path = []
    · simp [hne]
    · simp only [hne, if_false] at hA ⊢
      cases hs : osStat A x with
      | none => rfl
      | some e =>
        cases e with
        | file d => simp [hs] at hA
        | dir =>
          simp only [hs] at hA ⊢
          by_cases he : (A.children x.path).isEmpty = true
          · simp [he] at hA
          · simp [he]
  | some A' =>
    right
    have hwfA' := (touch_remove E.wfA hA).1
    have hB : osRemove B x = some (B.del x.path) ∧ A' = A.del x.path ∧ x.path ≠ [] := by
      simp only [osRemove, ← osStat_eqv E hp, ← children_isEmpty_eqv E hp] at hA ⊢
      by_cases hne : x.path = []
      · simp [hne] at hA
      · simp only [hne, if_false] at hA ⊢
        cases hs : osStat A x with
        | none => simp [hs] at hA
        | some e =>
          cases e with
          | file d => simp only [hs, Option.some.injEq] at hA ⊢; exact ⟨trivial, hA.symm, hne⟩
          | dir =>
            simp only [hs] at hA ⊢
            by_cases he : (A.children x.path).isEmpty = true
            · simp only [he, if_true, Option.some.injEq] at hA ⊢; exact ⟨trivial, hA.symm, hne⟩
            · simp [he] at hA
    obtain ⟨hB1, rfl, hne⟩ := hB
    exact ⟨_, _, rfl, hB1, del_eqv E hne hwfA' (touch_remove E.wfB hB1).1⟩

theorem throughFileFrom_eqv (cur rest : HPath) (h : ∀ q, q <+: cur ++ rest → A.get q = B.get q) :
    A.throughFileFrom cur rest = B.throughFileFrom cur rest := by
  induction rest generalizing cur with
  | nil => simp [Host.throughFileFrom, Host.fileAt, h cur (by simp)]
  | cons n rest ih =>
    simp only [Host.throughFileFrom, Host.fileAt, h cur (List.prefix_append _ _)]
    rw [ih (cur ++ [n]) (by intro q hq; apply h; simpa using hq)]

theorem removeAll_eqv {p : HPath} (hp : r0 <+: p) (hne : p ≠ []) :
    (osRemoveAll A p = none ∧ osRemoveAll B p = none)
    ∨ ∃ A' B', osRemoveAll A p = some A' ∧ osRemoveAll B p = some B' ∧ Eqv r0 A' B' := by
  have htf : A.throughFile p = B.throughFile p :=
    throughFileFrom_eqv E [] p (fun q hq => E.same q (rel_prefix hp (by simpa using hq)))
  simp only [osRemoveAll, ← E.at hp, ← htf]
  cases hg : A.get p with
  | some e =>
    right
    refine ⟨_, _, rfl, rfl, Host.wf_delTree E.wfA hne, Host.wf_delTree E.wfB hne, ?_⟩
    intro q hq
    rw [Host.get_delTree _ _ hne, Host.get_delTree _ _ hne, E.same q hq]
  | none =>
    simp only []
    by_cases ht : A.throughFile p = true
    · simp [ht]
    · right; simp only [ht, Bool.false_eq_true, if_false]; exact ⟨A, B, rfl, rfl, E⟩

theorem readDir_eqv {x : HP} (hp : r0 <+: x.path) : osReadDir A x = osReadDir B x := by
  simp only [osReadDir, osStat_eqv E hp, children_sorted_eqv E hp]

theorem walkItems_eqv {x : HP} (hp : r0 <+: x.path) : walkItems A x = walkItems B x := by
  simp only [walkItems, osStat_eqv E hp, below_sorted_eqv E hp]

/-- a composite's effect on the two hosts: same verdict, hosts equivalent again -/
def EffEqv (r0 : HPath) (x y : Eff) : Prop := x.2 = y.2 ∧ Eqv r0 x.1 y.1

theorem copyFile_eqv {src dst : HP} (hs : r0 <+: src.path) (hd : r0 <+: dst.path) :
    EffEqv r0 (copyFile A src dst) (copyFile B src dst) := by
  simp only [copyFile, ← osStat_eqv E hs]
  cases hst : osStat A src with
  | none => exact ⟨rfl, E⟩
  | some e =>
    cases e with
    | dir => exact ⟨rfl, E⟩
    | file x =>
      simp only []
      cases hA : osOpenTrunc A dst with
      | none => rw [openTrunc_none E hd hA]; exact ⟨rfl, E⟩
      | some A1 =>
        obtain ⟨B1, hB, E1⟩ := openTrunc_some E hd hA
        have hne := (osOpenTrunc_some hA).1
        rw [hB]
        simp only [← E1.at hs]
        cases hg : A1.get src.path with
        | none => exact ⟨rfl, E1⟩
        | some e2 =>
          cases e2 with
          | dir => exact ⟨rfl, E1⟩
          | file data =>
            simp only []
            cases hA2 : osAppend A1 dst.path data with
            | none => rw [append_none E1 hd hA2]; exact ⟨rfl, E1⟩
            | some A2 =>
              obtain ⟨B2, hB2, E2⟩ := append_some E1 hd hne hA2
              rw [hB2]; exact ⟨rfl, E2⟩

end

theorem copyNodes_eqv {r0 : HPath} {A B : Host} (E : Eqv r0 A B) (src dest : HP) (hs : r0 <+: src.path)
    (hd : r0 <+: dest.path) (l : List (HPath × Bool)) :
    EffEqv r0 (copyNodes src dest A l) (copyNodes src dest B l) := by
  induction l generalizing A B with
  | nil => exact ⟨rfl, E⟩
  | cons x rest ih =>
    obtain ⟨sub, b⟩ := x
    cases b with
    | true =>
      simp only [copyNodes]
      have hp : r0 <+: (dest.join sub).path := under_append hd sub
      cases hA : osMkdirAll A (dest.join sub).path with
      | none => rw [mkdirAll_none E hp hA]; exact ⟨rfl, E⟩
      | some A1 =>
        obtain ⟨B1, hB, E1⟩ := mkdirAll_some E hp hA
        rw [hB]; exact ih E1
    | false =>
      simp only [copyNodes]
      obtain ⟨hf, E1⟩ := copyFile_eqv E (src := src.join sub) (dst := dest.join sub)
        (under_append hs sub) (under_append hd sub)
      cases hcA : copyFile A (src.join sub) (dest.join sub) with
      | mk A1 okA =>
        cases hcB : copyFile B (src.join sub) (dest.join sub) with
        | mk B1 okB =>
          rw [hcA, hcB] at hf E1
          simp only at hf E1
          subst hf
          cases okA with
          | false => exact ⟨rfl, E1⟩
          | true => exact ih E1

/-- outcomes of composites that may panic -/
def EffPEqv (r0 : HPath) : EffP → EffP → Prop
  | .eff x, .eff y => EffEqv r0 x y
  | .panic, .panic => True
  | _, _ => False

section
variable {r0 : HPath} {A B : Host} (E : Eqv r0 A B)
include E

theorem dir_under {x : HP} (hp : r0 <+: x.path) (hne : x.slash = true ∨ r0 <+: x.path.dropLast) :
    r0 <+: x.dir.path := by
  simp only [HP.dir]
  split
  · exact hp
  · next hs => rcases hne with h | h
               · exact absurd h hs
               · exact h

theorem copyDirectory_eqv {src dest : HP} (hs : r0 <+: src.path) (hd : r0 <+: dest.path)
    (hdd : r0 <+: dest.dir.path) :
    EffPEqv r0 (copyDirectory A src dest) (copyDirectory B src dest) := by
  simp only [copyDirectory, ← osStat_eqv E hs]
  cases hst : osStat A src with
  | none => exact ⟨rfl, E⟩
  | some e =>
    cases e with
    | file x => exact ⟨rfl, E⟩
    | dir =>
      simp only []
      cases hA : osMkdirAll A dest.dir.path with
      | none => rw [mkdirAll_none E hdd hA]; exact ⟨rfl, E⟩
      | some A1 =>
        obtain ⟨B1, hB, E1⟩ := mkdirAll_some E hdd hA
        rw [hB]
        simp only [← walkItems_eqv E1 hs]
        cases hc : collect (walkItems A1 src) [] with
        | panic => trivial
        | fail => exact ⟨rfl, E1⟩
        | nodes l => exact copyNodes_eqv E1 src dest hs hd l

theorem copy_eqv {src dest : HP} (hs : r0 <+: src.path) (hd : r0 <+: dest.path) (hdd : r0 <+: dest.dir.path) :
    EffPEqv r0 (copy A src dest) (copy B src dest) := by
  have hi : isDir B src = isDir A src := by simp only [isDir, osStat_eqv E hs]
  unfold copy
  rw [hi]
  cases isDir A src with
  | true => simp only [if_true]; exact copyDirectory_eqv E hs hd hdd
  | false => simp only [Bool.false_eq_true, if_false]; exact copyFile_eqv E hs hd

end

/-! ### every call -/

/-- the two outcomes of a call: same answer, hosts equivalent again -/
def Same (r0 : HPath) (x y : Host × Out) : Prop := x.2 = y.2 ∧ Eqv r0 x.1 y.1

theorem full_under (r0 b : HPath) (p : List Name) : r0 <+: (full (r0 ++ b) p).path := by
  simp only [full_path, List.append_assoc]; exact List.prefix_append _ _

theorem full_dir_under (r0 b : HPath) (p : List Name) : r0 <+: (full (r0 ++ b) p).dir.path := by
  by_cases hp : p = []
  · subst hp; rw [full_nil_dir_path]; exact List.prefix_append _ _
  · rw [full_dir_path _ _ hp, List.append_assoc]; exact List.prefix_append _ _

theorem okErr_same {r0 : HPath} {x y : Eff} (h : EffEqv r0 x y) : Same r0 (okErr x) (okErr y) := by
  obtain ⟨h1, h2⟩ := h
  exact ⟨by simp [okErr, h1], h2⟩

theorem okErrP_same {r0 : HPath} {A B : Host} (E : Eqv r0 A B) {x y : EffP} (h : EffPEqv r0 x y) :
    Same r0 (okErrP x A) (okErrP y B) := by
  cases x <;> cases y <;> simp only [EffPEqv] at h
  · exact okErr_same h
  · exact ⟨rfl, E⟩

/-- EVERY CALL reads the host only at paths related to the root directory -/
theorem step_eqv (r0 b : HPath) (A B : Host) (E : Eqv r0 A B) (op : Op) :
    Same r0 (step (r0 ++ b) A op) (step (r0 ++ b) B op) := by
  have same : ∀ res : Result, Same r0 (A, Out.val res) (B, Out.val res) := fun _ => ⟨rfl, E⟩
  have hu : ∀ p : List Name, r0 <+: r0 ++ b ++ p := fun p => by
    rw [List.append_assoc]; exact List.prefix_append _ _
  cases op with
  | readDir raw =>
    simp only [step]
    cases norm raw with
    | none => exact same _
    | some p =>
      simp only [← readDir_eqv E (full_under r0 b p)]
      cases osReadDir A (full (r0 ++ b) p) <;> exact same _
  | isExist raw =>
    simp only [step]
    cases norm raw with
    | none => exact same _
    | some p => simp only [isExist, ← osStat_eqv E (full_under r0 b p)]; exact same _
  | isFile raw =>
    simp only [step]
    cases norm raw with
    | none => exact same _
    | some p => simp only [isFile, ← osStat_eqv E (full_under r0 b p)]; exact same _
  | isDir raw =>
    simp only [step]
    cases norm raw with
    | none => exact same _
    | some p => simp only [isDir, ← osStat_eqv E (full_under r0 b p)]; exact same _
  | filespace raw =>
    simp only [step]
    cases norm raw with
    | none => exact same _
    | some p => simp only [isDir, ← osStat_eqv E (full_under r0 b p)]; exact same _
  | readFile raw =>
    simp only [step]
    cases norm raw with
    | none => exact same _
    | some p =>
      simp only [← osStat_eqv E (full_under r0 b p)]
      cases osStat A (full (r0 ++ b) p) with
      | none => exact same _
      | some e => cases e <;> exact same _
  | lstat raw =>
    simp only [step]
    cases norm raw with
    | none => exact same _
    | some p =>
      simp only [← osStat_eqv E (full_under r0 b p)]
      cases osStat A (full (r0 ++ b) p) with
      | none => exact same _
      | some e => cases e <;> exact same _
  | reader raw sizes =>
    simp only [step]
    cases norm raw with
    | none => exact same _
    | some p =>
      simp only [← osStat_eqv E (full_under r0 b p)]
      cases osStat A (full (r0 ++ b) p) with
      | none => exact same _
      | some e =>
        cases e with
        | file d => exact same _
        | dir => simp only []; split <;> exact same _
  | mkdirAll raw =>
    simp only [step]
    cases norm raw with
    | none => exact same _
    | some p =>
      simp only []
      cases hA : osMkdirAll A (r0 ++ b ++ p) with
      | none => rw [mkdirAll_none E (hu p) hA]; exact same _
      | some A1 =>
        obtain ⟨B1, hB, E1⟩ := mkdirAll_some E (hu p) hA
        rw [hB]; exact ⟨rfl, E1⟩
  | writeFile raw data =>
    simp only [step]
    cases norm raw with
    | none => exact same _
    | some p =>
      simp only []
      cases hA : osMkdirAll A (full (r0 ++ b) p).dir.path with
      | none => rw [mkdirAll_none E (full_dir_under r0 b p) hA]; exact same _
      | some A1 =>
        obtain ⟨B1, hB, E1⟩ := mkdirAll_some E (full_dir_under r0 b p) hA
        rw [hB]
        simp only []
        cases hA2 : osOpenTrunc A1 (full (r0 ++ b) p) with
        | none => rw [openTrunc_none E1 (full_under r0 b p) hA2]; exact ⟨rfl, E1⟩
        | some A2 =>
          obtain ⟨B2, hB2, E2⟩ := openTrunc_some E1 (full_under r0 b p) hA2
          have hne := (osOpenTrunc_some hA2).1
          rw [hB2]
          simp only []
          cases hA3 : osAppend A2 (r0 ++ b ++ p) data with
          | none => rw [append_none E2 (hu p) hA3]; exact ⟨rfl, E2⟩
          | some A3 =>
            obtain ⟨B3, hB3, E3⟩ := append_some E2 (hu p) hne hA3
            rw [hB3]; exact ⟨rfl, E3⟩
  | writer raw chunks =>
    simp only [step]
    cases norm raw with
    | none => exact same _
    | some p =>
      simp only []
      cases hA : osOpenTrunc A (full (r0 ++ b) p) with
      | none => rw [openTrunc_none E (full_under r0 b p) hA]; exact same _
      | some A1 =>
        obtain ⟨B1, hB, E1⟩ := openTrunc_some E (full_under r0 b p) hA
        have hne := (osOpenTrunc_some hA).1
        rw [hB]
        simp only []
        rcases appendAll_eqv E1 (hu p) hne chunks with ⟨h1, h2⟩ | ⟨A2, B2, h1, h2, E2⟩
        · rw [h1, h2]; exact ⟨rfl, E1⟩
        · rw [h1, h2]; exact ⟨rfl, E2⟩
  | remove raw =>
    simp only [step]
    cases norm raw with
    | none => exact same _
    | some p =>
      simp only []
      split
      · exact same _
      · rcases remove_eqv E (full_under r0 b p) with ⟨h1, h2⟩ | ⟨A1, B1, h1, h2, E1⟩
        · rw [h1, h2]; exact same _
        · rw [h1, h2]; exact ⟨rfl, E1⟩
  | removeAll raw =>
    simp only [step]
    cases norm raw with
    | none => exact same _
    | some p =>
      simp only []
      split
      · exact same _
      · next hp =>
        rcases removeAll_eqv E (hu p) (append_ne_nil hp) with ⟨h1, h2⟩ | ⟨A1, B1, h1, h2, E1⟩
        · rw [h1, h2]; exact same _
        · rw [h1, h2]; exact ⟨rfl, E1⟩
  | copyFile rs rd =>
    simp only [step]
    cases norm rs with
    | none => exact same _
    | some s =>
      cases norm rd with
      | none => exact same _
      | some d => exact okErr_same (copyFile_eqv E (full_under r0 b s) (full_under r0 b d))
  | copyDirectory rs rd =>
    simp only [step]
    cases norm rs with
    | none => exact same _
    | some s =>
      cases norm rd with
      | none => exact same _
      | some d =>
        exact okErrP_same E (copyDirectory_eqv E (full_under r0 b s) (full_under r0 b d) (full_dir_under r0 b d))
  | copy rs rd =>
    simp only [step]
    cases norm rs with
    | none => exact same _
    | some s =>
      cases norm rd with
      | none => exact same _
      | some d =>
        exact okErrP_same E (copy_eqv E (full_under r0 b s) (full_under r0 b d) (full_dir_under r0 b d))

/-- two well-formed hosts that have the directory `r0` and agree below it are equivalent -/
theorem eqv_of_below (r0 : HPath) (A B : Host) (hwfA : A.WF) (hwfB : B.WF) (hr : A.get r0 = some .dir)
    (hsame : ∀ q, A.get (r0 ++ q) = B.get (r0 ++ q)) : Eqv r0 A B := by
  have hrB : B.get r0 = some .dir := by
    have := hsame []; simp only [List.append_nil] at this; rw [← this]; exact hr
  refine ⟨hwfA, hwfB, ?_⟩
  intro q hq
  rcases hq with h | h
  · obtain ⟨t, rfl⟩ := h; exact hsame t
  · by_cases he : q = r0
    · rw [he, hr, hrB]
    · rw [(Host.wf_treeLike hwfA).prefix_dir' h he (by simp [hr]),
        (Host.wf_treeLike hwfB).prefix_dir' h he (by simp [hrB])]

/-! ### histories -/

theorem openView_eqv {r0 : HPath} {A B : Host} (E : Eqv r0 A B) (b : HPath) (raw : Bytes) :
    openView (r0 ++ b) A raw = openView (r0 ++ b) B raw := by
  simp only [openView]
  cases norm raw with
  | none => rfl
  | some p =>
    have : isDir A (full (r0 ++ b) p) = isDir B (full (r0 ++ b) p) := by
      simp only [isDir, osStat_eqv E (full_under r0 b p)]
    simp only [this]

/-- two runs of the same history on equivalent hosts: same outcomes, equivalent hosts, same views -/
theorem run_eqv (r0 : HPath) (dw1 dw2 : World) (E : Eqv r0 dw1.host dw2.host) (hv : dw1.views = dw2.views)
    (hu : ∀ v ∈ dw1.views, r0 <+: v) (ops : List (Nat × Op)) :
    (dw1.run ops).2 = (dw2.run ops).2 ∧ Eqv r0 (dw1.run ops).1.host (dw2.run ops).1.host
    ∧ (dw1.run ops).1.views = (dw2.run ops).1.views := by
  induction ops generalizing dw1 dw2 with
  | nil => exact ⟨rfl, E, hv⟩
  | cons x rest ih =>
    obtain ⟨h, op⟩ := x
    have hrun : ∀ dw : World, dw.run ((h, op) :: rest)
        = (((dw.step h op).1.run rest).1, (dw.step h op).2 :: ((dw.step h op).1.run rest).2) := fun _ => rfl
    rw [hrun dw1, hrun dw2]
    have hstep : (dw1.step h op).2 = (dw2.step h op).2 ∧ Eqv r0 (dw1.step h op).1.host (dw2.step h op).1.host
        ∧ (dw1.step h op).1.views = (dw2.step h op).1.views ∧ ∀ v ∈ (dw1.step h op).1.views, r0 <+: v := by
      cases hh : dw1.views[h]? with
      | none =>
        have hh2 : dw2.views[h]? = none := by rw [← hv]; exact hh
        rw [world_step_none dw1 h op hh, world_step_none dw2 h op hh2]
        exact ⟨rfl, E, hv, hu⟩
      | some r =>
        have hh2 : dw2.views[h]? = some r := by rw [← hv]; exact hh
        obtain ⟨b, rfl⟩ : ∃ b, r = r0 ++ b := by
          obtain ⟨b, hb⟩ := hu r (List.mem_of_getElem? hh)
          exact ⟨b, hb.symm⟩
        obtain ⟨h1a, h1b, h1c⟩ := world_step_some dw1 h op _ hh
        obtain ⟨h2a, h2b, h2c⟩ := world_step_some dw2 h op _ hh2
        obtain ⟨hs1, hs2⟩ := step_eqv r0 b dw1.host dw2.host E op
        have hviews : viewsNext (r0 ++ b) dw1.host dw1.views op = viewsNext (r0 ++ b) dw2.host dw2.views op := by
          cases op with
          | filespace raw => simp only [viewsNext, openView_eqv E b raw, hv]
          | _ => simp only [viewsNext, hv]
        refine ⟨by rw [h1b, h2b]; exact hs1, by rw [h1a, h2a]; exact hs2, by rw [h1c, h2c]; exact hviews, ?_⟩
        intro v hvm
        rw [h1c] at hvm
        cases op with
        | filespace raw =>
          simp only [viewsNext, openView] at hvm
          cases hn : norm raw with
          | none => simp only [hn] at hvm; exact hu v hvm
          | some p =>
            simp only [hn] at hvm
            by_cases hd : isDir dw1.host (full (r0 ++ b) p) = true
            · simp only [hd, if_true] at hvm
              rcases List.mem_append.mp hvm with m | m
              · exact hu v m
              · simp at m; subst m; exact List.prefix_append _ _
            · simp only [hd] at hvm
              exact hu v hvm
        | _ => exact hu v hvm
    obtain ⟨e1, E1, v1, u1⟩ := hstep
    obtain ⟨e2, E2, v2⟩ := ih (dw1.step h op).1 (dw2.step h op).1 E1 v1 u1
    exact ⟨by rw [e1, e2], E2, v2⟩

end DiskFS
end Goat
