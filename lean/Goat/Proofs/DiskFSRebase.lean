/-
Rebasing of the point-wise filespace specification (`Goat/Spec/FS.lean`), core Lean only.

  `Step_det`      the specification is deterministic up to the order of a listing
  `Step_rebase`   a call through a filespace rooted at `r0 ++ b` of a tree in which `r0` is a directory is
                  the same call through a filespace rooted at `b` of the tree seen from `r0`
  `Step_outside`  … and it changes nothing outside `r0`
-/
import Goat.Proofs.DiskFSDefs

namespace Goat
namespace FS

open Path (Name norm)

/-! ### `ResEq` is an equivalence -/

theorem ResEq.refl (r : Result) : ResEq r r := by
  cases r <;> simp [ResEq]

theorem ResEq.of_eq {r₁ r₂ : Result} (h : r₁ = r₂) : ResEq r₁ r₂ := h ▸ ResEq.refl r₁

theorem ResEq.symm {r₁ r₂ : Result} (h : ResEq r₁ r₂) : ResEq r₂ r₁ := by
  cases r₁ <;> cases r₂ <;> simp_all [ResEq]
  · exact h.symm

theorem ResEq.trans {r₁ r₂ r₃ : Result} (h₁ : ResEq r₁ r₂) (h₂ : ResEq r₂ r₃) : ResEq r₁ r₃ := by
  cases r₁ <;> cases r₂ <;> cases r₃ <;> simp_all [ResEq]
  · exact h₁.trans h₂

/-! ### Trees -/

theorem State.below_apply (S : State) (r q : Path) : S.below r q = S (r ++ q) := rfl

/-- in a tree, whatever has something below it is a directory -/
theorem TreeLike.dir_of_append {S : State} (h : TreeLike S) (q : Path) :
    ∀ (n : Nat) (t : Path), t.length = n → t ≠ [] → S (q ++ t) ≠ none → S q = some .dir := by
  intro n
  induction n with
  | zero =>
    intro t ht hne
    exact absurd (List.length_eq_zero_iff.mp ht) hne
  | succ n ih =>
    intro t ht hne hp
    rcases List.eq_nil_or_concat t with rfl | ⟨t', a, rfl⟩
    · exact absurd rfl hne
    · rw [List.concat_eq_append] at hp ht
      rw [← List.append_assoc] at hp
      have hd : S (q ++ t') = some .dir := h.2 _ _ hp
      by_cases ht' : t' = []
      · subst ht'; simpa using hd
      · refine ih t' ?_ ht' (by rw [hd]; exact Option.some_ne_none _)
        simpa using ht

/-- in a tree, every proper prefix of an existing path is a directory -/
theorem TreeLike.prefix_dir {S : State} (h : TreeLike S) {q p : Path} (hq : q <+: p) (hne : q ≠ p)
    (hp : S p ≠ none) : S q = some .dir := by
  obtain ⟨t, rfl⟩ := hq
  refine h.dir_of_append q t.length t rfl ?_ hp
  intro ht; subst ht; exact hne (by simp)

/-- in a tree, every prefix of a directory is a directory -/
theorem TreeLike.prefix_of_dir {S : State} (h : TreeLike S) {q r0 : Path} (hr : S r0 = some .dir)
    (hq : q <+: r0) : S q = some .dir := by
  by_cases e : q = r0
  · subst e; exact hr
  · exact h.prefix_dir hq e (by rw [hr]; exact Option.some_ne_none _)

/-- a prefix of `r0 ++ z` is a prefix of `r0` or `r0 ++ q'` with `q'` a prefix of `z` -/
theorem prefix_append_cases {r0 z q : Path} (h : q <+: r0 ++ z) :
    q <+: r0 ∨ ∃ q', q = r0 ++ q' ∧ q' <+: z := by
  rcases List.prefix_or_prefix_of_prefix h (List.prefix_append r0 z) with h1 | h1
  · exact .inl h1
  · obtain ⟨q', rfl⟩ := h1
    exact .inr ⟨q', rfl, (List.prefix_append_right_inj r0).mp h⟩

theorem not_prefix_of_append {r0 x q : Path} (hq : ¬ r0 <+: q) : ¬ (r0 ++ x) <+: q :=
  fun h => hq ((List.prefix_append r0 x).trans h)

theorem ne_append_of_not_prefix {r0 x q : Path} (hq : ¬ r0 <+: q) : q ≠ r0 ++ x :=
  fun h => hq (h ▸ List.prefix_append r0 x)

/-! ### The predicates and post-states of the specification, seen from `r0` -/

section
variable {S : State} {r0 : Path}

theorem mkdirOk_below (hT : TreeLike S) (hr : S r0 = some .dir) (z : Path) :
    mkdirOk S (r0 ++ z) ↔ mkdirOk (S.below r0) z := by
  constructor
  · intro h q hq d
    exact h (r0 ++ q) ((List.prefix_append_right_inj r0).mpr hq) d
  · intro h q hq d
    rcases prefix_append_cases hq with h1 | ⟨q', rfl, h1⟩
    · rw [hT.prefix_of_dir hr h1]; intro e; cases e
    · exact h q' h1 d

theorem mkdirSt_below (S : State) (r0 z q : Path) :
    mkdirSt S (r0 ++ z) (r0 ++ q) = mkdirSt (S.below r0) z q := by
  simp only [mkdirSt, List.prefix_append_right_inj, State.below]

theorem mkdirSt_outside (hT : TreeLike S) (hr : S r0 = some .dir) (z : Path) {q : Path}
    (hq : ¬ r0 <+: q) : mkdirSt S (r0 ++ z) q = S q := by
  unfold mkdirSt
  split
  · next h =>
    rcases prefix_append_cases h with h1 | ⟨q', rfl, _⟩
    · exact (hT.prefix_of_dir hr h1).symm
    · exact absurd (List.prefix_append r0 q') hq
  · rfl

theorem writeOk_below (hT : TreeLike S) (hr : S r0 = some .dir) (x : Path) :
    writeOk S (r0 ++ x) ↔ writeOk (S.below r0) x := by
  by_cases hx : x = []
  · subst hx
    simp [writeOk, hr]
  · simp only [writeOk, List.dropLast_append_of_ne_nil hx, mkdirOk_below hT hr, State.below_apply]
    constructor
    · rintro ⟨_, h2, h3⟩; exact ⟨hx, h2, h3⟩
    · rintro ⟨_, h2, h3⟩; exact ⟨by simp [hx], h2, h3⟩

theorem writeSt_below (S : State) (r0 : Path) {x : Path} (hx : x ≠ []) (d : Bytes) (q : Path) :
    writeSt S (r0 ++ x) d (r0 ++ q) = writeSt (S.below r0) x d q := by
  simp only [writeSt, List.dropLast_append_of_ne_nil hx, mkdirSt_below, List.append_right_inj]

theorem writeSt_outside (hT : TreeLike S) (hr : S r0 = some .dir) {x : Path} (hx : x ≠ []) (d : Bytes)
    {q : Path} (hq : ¬ r0 <+: q) : writeSt S (r0 ++ x) d q = S q := by
  simp only [writeSt, List.dropLast_append_of_ne_nil hx, if_neg (ne_append_of_not_prefix hq),
    mkdirSt_outside hT hr _ hq]

theorem removeOk_below (S : State) (r0 : Path) {x : Path} (hx : x ≠ []) :
    removeOk S (r0 ++ x) ↔ removeOk (S.below r0) x := by
  have h1 : r0 ++ x ≠ [] := by simp [hx]
  simp only [removeOk, State.below_apply, List.append_assoc, ne_eq, h1, hx, not_false_eq_true, true_and]

theorem removeSt_below (S : State) (r0 x q : Path) :
    removeSt S (r0 ++ x) (r0 ++ q) = removeSt (S.below r0) x q := by
  simp only [removeSt, List.append_right_inj, State.below_apply]

theorem removeSt_outside (S : State) (x : Path) {q : Path} (hq : ¬ r0 <+: q) :
    removeSt S (r0 ++ x) q = S q := by
  simp only [removeSt, if_neg (ne_append_of_not_prefix hq)]

theorem removeAllOk_below (S : State) (r0 : Path) {x : Path} (hx : x ≠ []) :
    removeAllOk S (r0 ++ x) ↔ removeAllOk (S.below r0) x := by
  have h1 : r0 ++ x ≠ [] := by simp [hx]
  simp only [removeAllOk, State.below_apply, ne_eq, h1, hx, not_false_eq_true, true_and]

theorem removeAllSt_below (S : State) (r0 x q : Path) :
    removeAllSt S (r0 ++ x) (r0 ++ q) = removeAllSt (S.below r0) x q := by
  simp only [removeAllSt, List.prefix_append_right_inj, State.below_apply]

theorem removeAllSt_outside (S : State) (x : Path) {q : Path} (hq : ¬ r0 <+: q) :
    removeAllSt S (r0 ++ x) q = S q := by
  simp only [removeAllSt, if_neg (not_prefix_of_append hq)]

theorem copyOk_below (hT : TreeLike S) (hr : S r0 = some .dir) (kind : CopyKind) (s d : Path) :
    copyOk kind S (r0 ++ s) (r0 ++ d) ↔ copyOk kind (S.below r0) s d := by
  by_cases hd : d = []
  · subst hd
    simp [copyOk, hr]
  · simp only [copyOk, List.dropLast_append_of_ne_nil hd, mkdirOk_below hT hr, State.below_apply]
    constructor
    · rintro ⟨_, h2, h3⟩; exact ⟨hd, h2, h3⟩
    · rintro ⟨_, h2, h3⟩; exact ⟨by simp [hd], h2, h3⟩

theorem copySt_below (S : State) (r0 s : Path) {d : Path} (hd : d ≠ []) (q : Path) :
    copySt S (r0 ++ s) (r0 ++ d) (r0 ++ q) = copySt (S.below r0) s d q := by
  simp only [copySt, List.dropLast_append_of_ne_nil hd, List.prefix_append_right_inj,
    List.length_append, List.drop_length_add_append, List.append_assoc, mkdirSt_below]

theorem copySt_outside (hT : TreeLike S) (hr : S r0 = some .dir) (s : Path) {d : Path} (hd : d ≠ [])
    {q : Path} (hq : ¬ r0 <+: q) : copySt S (r0 ++ s) (r0 ++ d) q = S q := by
  simp only [copySt, List.dropLast_append_of_ne_nil hd, if_neg (not_prefix_of_append hq),
    mkdirSt_outside hT hr _ hq]

theorem isListing_below (S : State) (r0 x : Path) (l : List (Name × Bool)) :
    IsListing S (r0 ++ x) l ↔ IsListing (S.below r0) x l := by
  simp only [IsListing, State.below_apply, List.append_assoc]

theorem statName_append (r0 : Path) {x : Path} (hx : x ≠ []) : statName (r0 ++ x) = statName x := by
  unfold statName
  rw [List.getLast?_append]
  cases h : x.getLast? with
  | none => exact absurd (List.getLast?_eq_none_iff.mp h) hx
  | some n => rfl

end

/-! ### `Mut` -/

theorem Mut_det {pre : Prop} {post S S₁ S₂ : State} {r₁ r₂ : Result}
    (h₁ : Mut pre post S r₁ S₁) (h₂ : Mut pre post S r₂ S₂) : S₁ = S₂ ∧ ResEq r₁ r₂ := by
  rcases h₁ with ⟨p1, rfl, rfl⟩ | ⟨p1, rfl, rfl⟩ <;> rcases h₂ with ⟨p2, rfl, rfl⟩ | ⟨p2, rfl, rfl⟩
  · exact ⟨rfl, ResEq.refl _⟩
  · exact absurd p1 p2
  · exact absurd p2 p1
  · exact ⟨rfl, ResEq.refl _⟩

theorem Mut_below {pre pre' : Prop} {post post' S S' : State} {r : Result} (r0 : Path)
    (hpre : pre ↔ pre') (hpost : pre → ∀ q, post (r0 ++ q) = post' q)
    (h : Mut pre post S r S') : Mut pre' post' (S.below r0) r (S'.below r0) := by
  rcases h with ⟨p, rfl, rfl⟩ | ⟨p, rfl, rfl⟩
  · exact .inl ⟨hpre.mp p, rfl, funext (hpost p)⟩
  · exact .inr ⟨fun p' => p (hpre.mpr p'), rfl, rfl⟩

theorem Mut_outside {pre : Prop} {post S S' : State} {r : Result} (r0 : Path)
    (hpost : pre → ∀ q, ¬ r0 <+: q → post q = S q)
    (h : Mut pre post S r S') : ∀ q, ¬ r0 <+: q → S' q = S q := by
  rcases h with ⟨p, rfl, rfl⟩ | ⟨_, rfl, rfl⟩
  · exact hpost p
  · intro _ _; rfl

/-! ### Determinism -/

theorem IsListing.perm {S : State} {p : Path} {l₁ l₂ : List (Name × Bool)}
    (h₁ : IsListing S p l₁) (h₂ : IsListing S p l₂) : l₁.Perm l₂ := by
  have nd : ∀ {l : List (Name × Bool)}, (l.map Prod.fst).Nodup → l.Nodup := fun h =>
    List.Pairwise.of_map Prod.fst (fun a b hab e => hab (e ▸ rfl)) h
  refine (List.perm_ext_iff_of_nodup (nd h₁.1) (nd h₂.1)).mpr ?_
  rintro ⟨n, b⟩
  rw [h₁.2, h₂.2]

/-- the specification is deterministic up to the order of a listing -/
theorem Step_det (b : Path) (S : State) (op : Op) (r₁ r₂ : Result) (S₁ S₂ : State)
    (h₁ : Step b S op r₁ S₁) (h₂ : Step b S op r₂ S₂) : S₁ = S₂ ∧ ResEq r₁ r₂ := by
  cases op <;> simp only [Step] at h₁ h₂
  case writeFile raw data =>
    cases hn : norm raw <;> rw [hn] at h₁ h₂ <;> simp only at h₁ h₂
    · obtain ⟨rfl, rfl⟩ := h₁; obtain ⟨rfl, rfl⟩ := h₂; exact ⟨rfl, ResEq.refl _⟩
    · exact Mut_det h₁ h₂
  case writer raw chunks =>
    cases hn : norm raw <;> rw [hn] at h₁ h₂ <;> simp only at h₁ h₂
    · obtain ⟨rfl, rfl⟩ := h₁; obtain ⟨rfl, rfl⟩ := h₂; exact ⟨rfl, ResEq.refl _⟩
    · exact Mut_det h₁ h₂
  case mkdirAll raw =>
    cases hn : norm raw <;> rw [hn] at h₁ h₂ <;> simp only at h₁ h₂
    · obtain ⟨rfl, rfl⟩ := h₁; obtain ⟨rfl, rfl⟩ := h₂; exact ⟨rfl, ResEq.refl _⟩
    · exact Mut_det h₁ h₂
  case remove raw =>
    cases hn : norm raw <;> rw [hn] at h₁ h₂ <;> simp only at h₁ h₂
    · obtain ⟨rfl, rfl⟩ := h₁; obtain ⟨rfl, rfl⟩ := h₂; exact ⟨rfl, ResEq.refl _⟩
    · exact Mut_det h₁ h₂
  case removeAll raw =>
    cases hn : norm raw <;> rw [hn] at h₁ h₂ <;> simp only at h₁ h₂
    · obtain ⟨rfl, rfl⟩ := h₁; obtain ⟨rfl, rfl⟩ := h₂; exact ⟨rfl, ResEq.refl _⟩
    · exact Mut_det h₁ h₂
  case copy rs rd =>
    cases hs : norm rs <;> cases hd : norm rd <;> rw [hs, hd] at h₁ h₂ <;> simp only at h₁ h₂
    case some.some => exact Mut_det h₁ h₂
    all_goals (obtain ⟨rfl, rfl⟩ := h₁; obtain ⟨rfl, rfl⟩ := h₂; exact ⟨rfl, ResEq.refl _⟩)
  case copyDirectory rs rd =>
    cases hs : norm rs <;> cases hd : norm rd <;> rw [hs, hd] at h₁ h₂ <;> simp only at h₁ h₂
    case some.some => exact Mut_det h₁ h₂
    all_goals (obtain ⟨rfl, rfl⟩ := h₁; obtain ⟨rfl, rfl⟩ := h₂; exact ⟨rfl, ResEq.refl _⟩)
  case copyFile rs rd =>
    cases hs : norm rs <;> cases hd : norm rd <;> rw [hs, hd] at h₁ h₂ <;> simp only at h₁ h₂
    case some.some => exact Mut_det h₁ h₂
    all_goals (obtain ⟨rfl, rfl⟩ := h₁; obtain ⟨rfl, rfl⟩ := h₂; exact ⟨rfl, ResEq.refl _⟩)
  case readDir raw =>
    obtain ⟨e₁, h₁⟩ := h₁; obtain ⟨e₂, h₂⟩ := h₂
    refine ⟨e₁.trans e₂.symm, ?_⟩
    cases hn : norm raw <;> rw [hn] at h₁ h₂ <;> simp only at h₁ h₂
    · exact ResEq.of_eq (h₁.trans h₂.symm)
    · next p =>
      rcases hs : S (b ++ p) with _ | (_ | _) <;> rw [hs] at h₁ h₂ <;> simp only at h₁ h₂
      · exact ResEq.of_eq (h₁.trans h₂.symm)
      · exact ResEq.of_eq (h₁.trans h₂.symm)
      · obtain ⟨l₁, rfl, hl₁⟩ := h₁; obtain ⟨l₂, rfl, hl₂⟩ := h₂
        exact hl₁.perm hl₂
  all_goals
    obtain ⟨e₁, h₁⟩ := h₁; obtain ⟨e₂, h₂⟩ := h₂
    refine ⟨e₁.trans e₂.symm, ?_⟩
    cases hn : norm ‹Bytes› <;> rw [hn] at h₁ h₂ <;> simp only at h₁ h₂
    · exact ResEq.of_eq (h₁.trans h₂.symm)
    · first
      | exact ResEq.of_eq (h₁.trans h₂.symm)
      | (split at h₁ <;> simp_all [ResEq.refl])

/-! ### Rebasing -/

theorem writeOk_ne_nil {S : State} {r0 x : Path} (hr : S r0 = some .dir) (h : writeOk S (r0 ++ x)) :
    x ≠ [] := by
  intro e; subst e; exact h.2.2 (by simpa using hr)

theorem copyOk_ne_nil {S : State} {r0 s d : Path} {kind : CopyKind} (hr : S r0 = some .dir)
    (h : copyOk kind S s (r0 ++ d)) : d ≠ [] := by
  intro e; subst e
  have := h.2.2.2
  rw [List.append_nil, hr] at this
  cases this

theorem ne_nil_append {b p : Path} (hp : p ≠ []) : b ++ p ≠ [] := by
  simp [hp]

/-- REBASING: a call through a filespace rooted at `r0 ++ b` of a tree `S` in which `r0` is a directory is
the same call through a filespace rooted at `b` of the tree seen from `r0` -/
theorem Step_rebase (r0 b : Path) (S S' : State) (op : Op) (res : Result)
    (hT : TreeLike S) (hr : S r0 = some .dir)
    (hl : ∀ raw p, op = .lstat raw → norm raw = some p → b ++ p ≠ [])
    (h : Step (r0 ++ b) S op res S') :
    Step b (S.below r0) op res (S'.below r0) := by
  cases op <;> simp only [Step, List.append_assoc] at h ⊢
  case writeFile raw data =>
    cases hn : norm raw <;> rw [hn] at h <;> simp only at h ⊢
    · exact ⟨h.1, by rw [h.2]⟩
    · exact Mut_below r0 (writeOk_below hT hr _)
        (fun hp q => writeSt_below S r0 (writeOk_ne_nil hr hp) _ q) h
  case writer raw chunks =>
    cases hn : norm raw <;> rw [hn] at h <;> simp only at h ⊢
    · exact ⟨h.1, by rw [h.2]⟩
    · exact Mut_below r0 (writeOk_below hT hr _)
        (fun hp q => writeSt_below S r0 (writeOk_ne_nil hr hp) _ q) h
  case mkdirAll raw =>
    cases hn : norm raw <;> rw [hn] at h <;> simp only at h ⊢
    · exact ⟨h.1, by rw [h.2]⟩
    · exact Mut_below r0 (mkdirOk_below hT hr _) (fun _ q => mkdirSt_below S r0 _ q) h
  case remove raw =>
    cases hn : norm raw <;> rw [hn] at h <;> simp only at h ⊢
    · exact ⟨h.1, by rw [h.2]⟩
    · refine Mut_below r0 ?_ (fun _ q => removeSt_below S r0 _ q) h
      exact and_congr_right fun hp => removeOk_below S r0 (ne_nil_append hp)
  case removeAll raw =>
    cases hn : norm raw <;> rw [hn] at h <;> simp only at h ⊢
    · exact ⟨h.1, by rw [h.2]⟩
    · refine Mut_below r0 ?_ (fun _ q => removeAllSt_below S r0 _ q) h
      exact and_congr_right fun hp => removeAllOk_below S r0 (ne_nil_append hp)
  case copy rs rd =>
    cases hs : norm rs <;> cases hd : norm rd <;> rw [hs, hd] at h <;> simp only at h ⊢
    case some.some =>
      exact Mut_below r0 (copyOk_below hT hr _ _ _)
        (fun hp q => copySt_below S r0 _ (copyOk_ne_nil hr hp) q) h
    all_goals exact ⟨h.1, by rw [h.2]⟩
  case copyDirectory rs rd =>
    cases hs : norm rs <;> cases hd : norm rd <;> rw [hs, hd] at h <;> simp only at h ⊢
    case some.some =>
      exact Mut_below r0 (copyOk_below hT hr _ _ _)
        (fun hp q => copySt_below S r0 _ (copyOk_ne_nil hr hp) q) h
    all_goals exact ⟨h.1, by rw [h.2]⟩
  case copyFile rs rd =>
    cases hs : norm rs <;> cases hd : norm rd <;> rw [hs, hd] at h <;> simp only at h ⊢
    case some.some =>
      exact Mut_below r0 (copyOk_below hT hr _ _ _)
        (fun hp q => copySt_below S r0 _ (copyOk_ne_nil hr hp) q) h
    all_goals exact ⟨h.1, by rw [h.2]⟩
  case readDir raw =>
    obtain ⟨e, h⟩ := h
    refine ⟨by rw [e], ?_⟩
    cases hn : norm raw <;> rw [hn] at h <;> simp only at h ⊢
    · exact h
    · next p =>
      rw [State.below_apply]
      rcases hs : S (r0 ++ (b ++ p)) with _ | (_ | _) <;> rw [hs] at h <;> simp only at h ⊢
      · exact h
      · exact h
      · obtain ⟨l, rfl, hl'⟩ := h
        exact ⟨l, rfl, (isListing_below S r0 _ l).mp hl'⟩
  case lstat raw =>
    obtain ⟨e, h⟩ := h
    refine ⟨by rw [e], ?_⟩
    cases hn : norm raw <;> rw [hn] at h <;> simp only at h ⊢
    · exact h
    · next p =>
      rw [State.below_apply]
      rw [statName_append r0 (hl raw p rfl hn)] at h
      exact h
  all_goals
    obtain ⟨e, h⟩ := h
    refine ⟨by rw [e], ?_⟩
    cases hn : norm ‹Bytes› <;> rw [hn] at h <;> simp only at h ⊢
    · exact h
    · first
      | exact h
      | (rw [State.below_apply]; exact h)

/-- … and it changes nothing outside `r0` -/
theorem Step_outside (r0 b : Path) (S S' : State) (op : Op) (res : Result)
    (hT : TreeLike S) (hr : S r0 = some .dir)
    (h : Step (r0 ++ b) S op res S') :
    ∀ q, ¬ r0 <+: q → S' q = S q := by
  cases op <;> simp only [Step, List.append_assoc] at h
  case writeFile raw data =>
    cases hn : norm raw <;> rw [hn] at h <;> simp only at h
    · intro q _; rw [h.2]
    · exact Mut_outside r0 (fun hp q hq => writeSt_outside hT hr (writeOk_ne_nil hr hp) _ hq) h
  case writer raw chunks =>
    cases hn : norm raw <;> rw [hn] at h <;> simp only at h
    · intro q _; rw [h.2]
    · exact Mut_outside r0 (fun hp q hq => writeSt_outside hT hr (writeOk_ne_nil hr hp) _ hq) h
  case mkdirAll raw =>
    cases hn : norm raw <;> rw [hn] at h <;> simp only at h
    · intro q _; rw [h.2]
    · exact Mut_outside r0 (fun _ q hq => mkdirSt_outside hT hr _ hq) h
  case remove raw =>
    cases hn : norm raw <;> rw [hn] at h <;> simp only at h
    · intro q _; rw [h.2]
    · exact Mut_outside r0 (fun _ q hq => removeSt_outside S _ hq) h
  case removeAll raw =>
    cases hn : norm raw <;> rw [hn] at h <;> simp only at h
    · intro q _; rw [h.2]
    · exact Mut_outside r0 (fun _ q hq => removeAllSt_outside S _ hq) h
  case copy rs rd =>
    cases hs : norm rs <;> cases hd : norm rd <;> rw [hs, hd] at h <;> simp only at h
    case some.some =>
      exact Mut_outside r0 (fun hp q hq => copySt_outside hT hr _ (copyOk_ne_nil hr hp) hq) h
    all_goals (intro q _; rw [h.2])
  case copyDirectory rs rd =>
    cases hs : norm rs <;> cases hd : norm rd <;> rw [hs, hd] at h <;> simp only at h
    case some.some =>
      exact Mut_outside r0 (fun hp q hq => copySt_outside hT hr _ (copyOk_ne_nil hr hp) hq) h
    all_goals (intro q _; rw [h.2])
  case copyFile rs rd =>
    cases hs : norm rs <;> cases hd : norm rd <;> rw [hs, hd] at h <;> simp only at h
    case some.some =>
      exact Mut_outside r0 (fun hp q hq => copySt_outside hT hr _ (copyOk_ne_nil hr hp) hq) h
    all_goals (intro q _; rw [h.2])
  all_goals (intro q _; rw [h.1])

end FS
end Goat
