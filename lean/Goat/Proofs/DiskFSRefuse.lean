/-
Outside the precondition the disk filespace model refuses (helper lemmas for C02): `step_refused` — with
the filespace's directory in place, a call outside `Pre` that is not one of the `Tolerated` ones answers
`err` and leaves every path as it was.
-/
import Goat.Proofs.DiskFSFrame

namespace Goat
namespace DiskFS

open Path (Name norm)
open FS (Op Result Entry State TreeLike)

section
variable {r : HPath} {H : Host} (hwf : H.WF) (hroot : H.get r = some .dir)
include hwf hroot

omit hwf in
/-- `CopyFile` of a file whose destination cannot be created -/
theorem copyFile_refused (s d : List Name) (x : Bytes) (hs : H.get (r ++ s) = some (.file x))
    (hd : d ≠ []) (hno : ¬ (H.get (r ++ d.dropLast) = some .dir ∧ H.get (r ++ d) = none))
    (hnf : isFileE (H.get (r ++ d)) = false) :
    copyFile H (full r s) (full r d) = (H, false) := by
  have hne : r ++ d ≠ [] := append_ne_nil hd
  have hdl : (r ++ d).dropLast = r ++ d.dropLast := append_dropLast r d hd
  have ho : osOpenTrunc H (full r d) = none := by
    rw [full_eq r d hd]
    simp only [osOpenTrunc, hne, hdl]
    cases hp : H.get (r ++ d.dropLast) with
    | none => simp
    | some e =>
      cases e with
      | file y => simp
      | dir =>
        cases hg : H.get (r ++ d) with
        | none => exact absurd ⟨hp, hg⟩ hno
        | some e2 =>
          cases e2 with
          | dir => simp
          | file y => simp [hg, isFileE] at hnf
  simp [copyFile, osStat_full hroot, hs, ho]

/-- `CopyDirectory` of a directory onto an existing file -/
theorem copyDirectory_refused (s d : List Name) (y : Bytes) (hs : H.get (r ++ s) = some .dir)
    (hd : H.get (r ++ d) = some (.file y)) :
    ∃ H1, copyDirectory H (full r s) (full r d) = .eff (H1, false) ∧ H1.get = H.get := by
  have hT := Host.wf_treeLike hwf
  have hdne : d ≠ [] := by
    intro hc; subst hc; rw [List.append_nil, hroot] at hd; cases hd
  have hne : r ++ d ≠ [] := append_ne_nil hdne
  have hpar : H.get (r ++ d).dropLast = some .dir :=
    hT.prefix_dir' (List.dropLast_prefix _) (dropLast_ne_self hne) (by simp [hd])
  obtain ⟨H1, hm1, hwf1, hget1⟩ := osMkdirAll_dir hwf _ hpar
  have hst : osStat H (full r s) = some .dir := by rw [osStat_full hroot, hs]
  have hst1 : osStat H1 (full r s) = some .dir := by
    have : H1.get r = some .dir := by rw [hget1]; exact hroot
    rw [osStat_full this, hget1, hs]
  have hno : ¬ FS.mkdirOk H1.get (r ++ d) := by
    intro hok
    exact hok _ (List.prefix_refl _) y (by rw [hget1]; exact hd)
  refine ⟨H1, ?_, hget1⟩
  rw [full_eq r d hdne]
  simp only [copyDirectory, hst]
  rw [show (HP.dir ⟨r ++ d, false⟩).path = (r ++ d).dropLast from rfl, hm1]
  simp only []
  rw [collect_walk_dir H1 _ hst1]
  simp only [copyNodes, HP.join, List.append_nil, osMkdirAll_fail hwf1 _ hno]

end

/-- OUTSIDE `Pre`: refused, unless tolerated -/
theorem step_refused (r : HPath) (H : Host) (hwf : H.WF) (hroot : H.get r = some .dir) (op : Op)
    (hnp : ¬ Pre r H.get op) (hnt : ¬ Tolerated r H.get op) :
    (step r H op).2 = .val .err ∧ (step r H op).1.get = H.get := by
  have hT := Host.wf_treeLike hwf
  cases op with
  | writer raw chunks =>
    simp only [Pre, hroot, true_and] at hnp
    simp only [step]
    cases hn : norm raw with
    | none => simp [hn] at hnp
    | some p =>
      simp only [hn, not_or] at hnp
      obtain ⟨hp, hpar⟩ := hnp
      have hne : r ++ p ≠ [] := append_ne_nil hp
      have : osOpenTrunc H (full r p) = none := by
        rw [full_eq r p hp]
        simp only [osOpenTrunc, hne, append_dropLast r p hp]
        cases hg : H.get (r ++ p.dropLast) with
        | none => simp
        | some e =>
          cases e with
          | file y => simp
          | dir => exact absurd hg hpar
      simp [this]
  | removeAll raw =>
    exfalso
    simp only [Pre, hroot, true_and] at hnp
    simp only [Tolerated] at hnt
    cases hn : norm raw with
    | none => simp [hn] at hnp
    | some p =>
      simp only [hn, not_or] at hnp hnt
      exact hnp.2 hnt
  | reader raw sizes =>
    simp only [Pre, hroot, true_and] at hnp
    simp only [Tolerated] at hnt
    simp only [step]
    cases hn : norm raw with
    | none => simp [hn] at hnp
    | some p =>
      simp only [hn] at hnp hnt
      have hdir : H.get (r ++ p) = some .dir := Classical.not_not.mp hnp
      simp only [osStat_full hroot, hdir]
      have : ¬ sizes.all (· == 0) = true := fun hc => hnt ⟨hdir, hc⟩
      simp [this]
  | lstat raw =>
    exfalso
    simp only [Pre, hroot, true_and] at hnp
    simp only [Tolerated] at hnt
    cases hn : norm raw with
    | none => simp [hn] at hnp
    | some p =>
      simp only [hn] at hnp hnt
      exact hnp hnt
  | filespace raw =>
    simp only [Pre, hroot, true_and] at hnp
    simp only [step]
    cases hn : norm raw with
    | none => simp [hn] at hnp
    | some p =>
      simp only [hn] at hnp
      have : isDir H (full r p) = false := by
        cases hd : isDir H (full r p) with
        | false => rfl
        | true => exact absurd ((isDir_full hroot p).mp hd) hnp
      simp [this]
  | copyFile rs rd =>
    simp only [Pre, hroot, true_and] at hnp
    simp only [Tolerated] at hnt
    simp only [step]
    cases hs : norm rs with
    | none => simp [hs] at hnp
    | some s =>
      cases hd : norm rd with
      | none => simp [hs, hd] at hnp
      | some d =>
        simp only [hs, hd, FileCopyPre, Classical.not_imp, not_or] at hnp hnt
        obtain ⟨hsf, hdne, hno⟩ := hnp
        cases hg : H.get (r ++ s) with
        | none => simp [hg, isFileE] at hsf
        | some e =>
          cases e with
          | dir => simp [hg, isFileE] at hsf
          | file x =>
            have hnf : isFileE (H.get (r ++ d)) = false := by
              cases hf : isFileE (H.get (r ++ d)) with
              | false => rfl
              | true => exact absurd ⟨hsf, hf⟩ hnt
            simp only []
            rw [copyFile_refused hroot s d x hg hdne hno hnf]
            simp [okErr]
  | copyDirectory rs rd =>
    simp only [Pre, hroot, true_and] at hnp
    simp only [Tolerated] at hnt
    simp only [step]
    cases hs : norm rs with
    | none => simp [hs] at hnp
    | some s =>
      cases hd : norm rd with
      | none => simp [hs, hd] at hnp
      | some d =>
        simp only [hs, hd, DirCopyPre, Classical.not_imp] at hnp hnt
        obtain ⟨hsd, hex⟩ := hnp
        cases hg : H.get (r ++ d) with
        | none => exact absurd hg hex
        | some e =>
          cases e with
          | dir => exact absurd ⟨hsd, hg⟩ hnt
          | file y =>
            obtain ⟨H1, hc, hget1⟩ := copyDirectory_refused hwf hroot s d y hsd hg
            simp only []
            rw [hc]
            simp [okErrP, okErr, hget1]
  | copy rs rd =>
    simp only [Pre, hroot, true_and] at hnp
    simp only [Tolerated] at hnt
    simp only [step]
    cases hs : norm rs with
    | none => simp [hs] at hnp
    | some s =>
      cases hd : norm rd with
      | none => simp [hs, hd] at hnp
      | some d =>
        simp only [hs, hd, not_or] at hnp hnt
        simp only [copy]
        cases hg : H.get (r ++ s) with
        | none =>
          exfalso
          exact hnp ⟨by simp [FileCopyPre, hg, isFileE], by simp [DirCopyPre, hg]⟩
        | some e =>
          cases e with
          | file x =>
            have h1 : isDir H (full r s) = false := by simp [isDir, osStat_full hroot, hg]
            have hnp' : ¬ FileCopyPre r H.get s d :=
              fun h => hnp ⟨h, by simp [DirCopyPre, hg]⟩
            simp only [FileCopyPre, hg, isFileE, forall_const, not_or] at hnp'
            obtain ⟨hdne, hno⟩ := hnp'
            have hnf : isFileE (H.get (r ++ d)) = false := by
              cases hf : isFileE (H.get (r ++ d)) with
              | false => rfl
              | true => exact absurd hf (by have := hnt.1; simpa [hg, isFileE] using this)
            simp only [h1]
            rw [copyFile_refused hroot s d x hg hdne hno hnf]
            simp [okErrP, okErr]
          | dir =>
            have h1 : isDir H (full r s) = true := (isDir_full hroot s).mpr hg
            have hnp' : ¬ DirCopyPre r H.get s d :=
              fun h => hnp ⟨by simp [FileCopyPre, hg, isFileE], h⟩
            simp only [DirCopyPre, hg, forall_const] at hnp'
            cases hgd : H.get (r ++ d) with
            | none => exact absurd hgd hnp'
            | some e2 =>
              cases e2 with
              | dir => exact absurd hgd (by have := hnt.2; simpa [hg] using this)
              | file y =>
                obtain ⟨H1, hc, hget1⟩ := copyDirectory_refused hwf hroot s d y hg hgd
                simp only [h1, if_true]
                rw [hc]
                simp [okErrP, okErr, hget1]
  | readDir raw => exact absurd ⟨hroot, trivial⟩ hnp
  | isExist raw => exact absurd ⟨hroot, trivial⟩ hnp
  | isFile raw => exact absurd ⟨hroot, trivial⟩ hnp
  | isDir raw => exact absurd ⟨hroot, trivial⟩ hnp
  | mkdirAll raw => exact absurd ⟨hroot, trivial⟩ hnp
  | readFile raw => exact absurd ⟨hroot, trivial⟩ hnp
  | writeFile raw data => exact absurd ⟨hroot, trivial⟩ hnp
  | remove raw => exact absurd ⟨hroot, trivial⟩ hnp

end DiskFS
end Goat
