/-
Whole histories (helper lemmas for C02): the memory model (`Goat.MemFS.World`, C01) and the disk model
(`Goat.DiskFS.World`) run side by side on the same calls stay in the simulation relation `Sim` as long as
every call is inside `Pre`, and answer alike.
-/
import Goat.Proofs.DiskFSStepCopy
import Goat.Proofs.MemFSRun

namespace Goat
namespace DiskFS

open Path (Name norm)
open FS (Op Result Entry State TreeLike Mut Step ResEq)

/-- every call of the history meets the precondition of the property, in the state in which it is made
(the state of the memory model, which by C01 is the state the specification prescribes) -/
def PreAt (w : MemFS.World) (h : Nat) (op : Op) : Prop :=
  match w.views[h]? with
  | some ref => Pre (MemFS.baseOf ref) (abs w.root) op
  | none => True

def AllPre : MemFS.World → List (Nat × Op) → Prop
  | _, [] => True
  | w, (h, op) :: rest => PreAt w h op ∧ AllPre (w.step h op).1 rest

instance (w : MemFS.World) (h : Nat) (op : Op) : Decidable (PreAt w h op) := by
  unfold PreAt; split <;> exact inferInstance

/-- `AllPre` is decidable: the precondition of a concrete history can be evaluated -/
def decAllPre : (w : MemFS.World) → (ops : List (Nat × Op)) → Decidable (AllPre w ops)
  | _, [] => isTrue trivial
  | w, (h, op) :: rest =>
    match (inferInstance : Decidable (PreAt w h op)), decAllPre (w.step h op).1 rest with
    | isTrue a, isTrue b => isTrue ⟨a, b⟩
    | isFalse a, _ => isFalse fun hc => a hc.1
    | _, isFalse b => isFalse fun hc => b hc.2

instance (w : MemFS.World) (ops : List (Nat × Op)) : Decidable (AllPre w ops) := decAllPre w ops

theorem preAt_iff (w : MemFS.World) (h : Nat) (op : Op) :
    PreAt w h op ↔ ∀ ref, w.views[h]? = some ref → Pre (MemFS.baseOf ref) (abs w.root) op := by
  unfold PreAt
  cases hv : w.views[h]? with
  | none => simp
  | some ref => simp

/-- the two worlds show the same tree (the disk one below its root `r0`) and have the same views open -/
structure Sim (r0 : HPath) (w : MemFS.World) (dw : World) : Prop where
  mem : MemFS.WorldOK w
  wf : dw.host.WF
  state : ∀ q, abs w.root q = dw.host.get (r0 ++ q)
  views : dw.views = (w.views.map MemFS.baseOf).map (r0 ++ ·)

/-- two outcomes agree: the disk call did not panic and returned the same result (up to `ResEq`) -/
def Agree (rm : Result) (o : Out) : Prop := ∃ rd, o = .val rd ∧ ResEq rm rd

/-- the two result streams agree call by call (and have the same length) -/
def AllAgree : List Result → List Out → Prop
  | [], [] => True
  | rm :: rms, o :: os => Agree rm o ∧ AllAgree rms os
  | _, _ => False

/-- the disk-side views after a call through the filespace rooted at `r` -/
def viewsNext (r : HPath) (H : Host) (views : List HPath) (op : Op) : List HPath :=
  match op with
  | .filespace raw =>
    match openView r H raw with
    | some v => views ++ [v]
    | none => views
  | _ => views

theorem Sim.root {r0 : HPath} {w : MemFS.World} {dw : World} (h : Sim r0 w dw) : dw.host.get r0 = some .dir := by
  have := h.state []
  rw [List.append_nil] at this
  rw [← this]
  obtain ⟨k, hk⟩ := h.mem.inv.dir
  simp [abs, hk, Node.lookup, Node.entry]

theorem Sim.below {r0 : HPath} {w : MemFS.World} {dw : World} (h : Sim r0 w dw) :
    abs w.root = State.below dw.host.get r0 := by
  funext q; exact h.state q

/-- the precondition seen from the host: `Pre` of a call through base `b` of the tree seen from `r0` is
`Pre` of the call through base `r0 ++ b` -/
theorem pre_host (r0 b : HPath) (S : State) (op : Op) (h : Pre b (S.below r0) op) : Pre (r0 ++ b) S op := by
  obtain ⟨h1, h2⟩ := h
  refine ⟨by simpa [State.below] using h1, ?_⟩
  cases op <;> simp only [] at h2 ⊢
  case writer raw cs =>
    cases hn : norm raw <;> simp only [hn] at h2 ⊢
    simpa [State.below, List.append_assoc] using h2
  case removeAll raw =>
    cases hn : norm raw <;> simp only [hn] at h2 ⊢
    simpa [State.below, List.append_assoc] using h2
  case reader raw ss =>
    cases hn : norm raw <;> simp only [hn] at h2 ⊢
    simpa [State.below, List.append_assoc] using h2
  case lstat raw =>
    cases hn : norm raw <;> simp only [hn] at h2 ⊢
    intro hc
    apply h2
    simp only [List.append_assoc, List.append_eq_nil_iff] at hc
    simp [hc.2.1, hc.2.2]
  case filespace raw =>
    cases hn : norm raw <;> simp only [hn] at h2 ⊢
    simpa [State.below, List.append_assoc] using h2
  case copyFile rs rd =>
    cases hs : norm rs <;> cases hd : norm rd <;> simp only [hs, hd] at h2 ⊢
    simpa [FileCopyPre, State.below, List.append_assoc] using h2
  case copyDirectory rs rd =>
    cases hs : norm rs <;> cases hd : norm rd <;> simp only [hs, hd] at h2 ⊢
    simpa [DirCopyPre, State.below, List.append_assoc] using h2
  case copy rs rd =>
    cases hs : norm rs <;> cases hd : norm rd <;> simp only [hs, hd] at h2 ⊢
    simpa [FileCopyPre, DirCopyPre, State.below, List.append_assoc] using h2

theorem pre_lstat {b : HPath} {S : State} {op : Op} (h : Pre b S op) :
    ∀ raw p, op = .lstat raw → norm raw = some p → b ++ p ≠ [] := by
  intro raw p hop hn
  subst hop
  have := h.2
  simpa [hn] using this

theorem world_step_none (dw : World) (h : Nat) (op : Op) (hh : dw.views[h]? = none) :
    dw.step h op = (dw, .val .err) := by
  simp [World.step, hh]

theorem world_step_some (dw : World) (h : Nat) (op : Op) (r : HPath) (hh : dw.views[h]? = some r) :
    (dw.step h op).1.host = (step r dw.host op).1 ∧ (dw.step h op).2 = (step r dw.host op).2
    ∧ (dw.step h op).1.views = viewsNext r dw.host dw.views op := by
  simp only [World.step, hh, viewsNext]
  cases op with
  | filespace raw => cases hv : openView r dw.host raw <;> simp [hv]
  | _ => exact ⟨rfl, rfl, rfl⟩

/-- the views opened on the two sides stay in step -/
theorem views_step (r0 : HPath) (mviews : List HPath) (h : Nat) (b : HPath) (hb : mviews[h]? = some b)
    (H : Host) (op : Op) (hpre : Pre (r0 ++ b) H.get op) :
    viewsNext (r0 ++ b) H (mviews.map (r0 ++ ·)) op = (FS.viewsAfter mviews h op).map (r0 ++ ·) := by
  cases op with
  | filespace raw =>
    simp only [viewsNext, FS.viewsAfter, hb, openView]
    cases hn : norm raw with
    | none => simp
    | some q =>
      have hdir : H.get (r0 ++ b ++ q) = some .dir := by
        have := hpre.2
        simpa [hn] using this
      have : isDir H (full (r0 ++ b) q) = true := (isDir_full hpre.1 q).mpr hdir
      simp [this, List.append_assoc]
  | _ => simp [viewsNext, FS.viewsAfter]

/-- ONE CALL, SIDE BY SIDE -/
theorem sim_step (r0 : HPath) (w : MemFS.World) (dw : World) (hsim : Sim r0 w dw) (h : Nat) (op : Op)
    (hpre : ∀ ref, w.views[h]? = some ref → Pre (MemFS.baseOf ref) (abs w.root) op) :
    Sim r0 (w.step h op).1 (dw.step h op).1 ∧ Agree (w.step h op).2 (dw.step h op).2 := by
  cases hh : w.views[h]? with
  | none =>
    have hd : dw.views[h]? = none := by rw [hsim.views]; simp [hh]
    rw [MemFS.world_step_none w h op hh, world_step_none dw h op hd]
    exact ⟨hsim, .err, rfl, ResEq.refl _⟩
  | some ref =>
    have hb : (w.views.map MemFS.baseOf)[h]? = some (MemFS.baseOf ref) := by simp [hh]
    have hd : dw.views[h]? = some (r0 ++ MemFS.baseOf ref) := by rw [hsim.views]; simp [hh]
    obtain ⟨hmstep, hmok, hmviews, _, _⟩ := MemFS.world_step_ok w hsim.mem h op ref hh
    obtain ⟨hdhost, hdres, hdviews⟩ := world_step_some dw h op _ hd
    have hpre0 := hpre ref hh
    rw [hsim.below] at hpre0
    have hpreD := pre_host r0 (MemFS.baseOf ref) dw.host.get op hpre0
    obtain ⟨hwf', rd, rd', hres, heq, hstep⟩ := step_pre _ dw.host hsim.wf op hpreD
    have hT := Host.wf_treeLike hsim.wf
    have hreb := FS.Step_rebase r0 (MemFS.baseOf ref) _ _ op rd' hT hsim.root (pre_lstat hpre0) hstep
    rw [hsim.below] at hmstep
    obtain ⟨hst, hre⟩ := FS.Step_det _ _ op _ _ _ _ hmstep hreb
    refine ⟨⟨hmok, by rw [hdhost]; exact hwf', ?_, ?_⟩, ⟨rd, by rw [hdres]; exact hres, hre.trans heq⟩⟩
    · intro q
      rw [hdhost]
      exact congrFun hst q
    · rw [hdviews, hmviews, hsim.views]
      exact views_step r0 _ h _ hb dw.host op hpreD

/-- ALL HISTORIES, SIDE BY SIDE -/
theorem sim_run (r0 : HPath) (w : MemFS.World) (dw : World) (hsim : Sim r0 w dw) (ops : List (Nat × Op))
    (hpre : AllPre w ops) :
    Sim r0 (w.run ops).1 (dw.run ops).1 ∧ AllAgree (w.run ops).2 (dw.run ops).2 := by
  induction ops generalizing w dw with
  | nil => exact ⟨hsim, trivial⟩
  | cons x rest ih =>
    obtain ⟨h, op⟩ := x
    obtain ⟨hp1, hp2⟩ := hpre
    obtain ⟨hs1, ha1⟩ := sim_step r0 w dw hsim h op ((preAt_iff w h op).mp hp1)
    obtain ⟨hs2, ha2⟩ := ih (w.step h op).1 (dw.step h op).1 hs1 hp2
    rw [MemFS.run_cons]
    have : dw.run ((h, op) :: rest)
        = (((dw.step h op).1.run rest).1, (dw.step h op).2 :: ((dw.step h op).1.run rest).2) := rfl
    rw [this]
    exact ⟨hs2, ha1, ha2⟩

/-- the starting point: an empty memory filespace and a disk filespace whose directory is empty -/
theorem sim_init (H0 : Host) (r0 : HPath) (hwf : H0.WF) (hroot : H0.get r0 = some .dir)
    (hempty : ∀ q, q ≠ [] → H0.get (r0 ++ q) = none) : Sim r0 MemFS.World.init (World.init H0 r0) := by
  refine ⟨MemFS.worldOK_init, hwf, ?_, ?_⟩
  · intro q
    show abs Node.empty q = H0.get (r0 ++ q)
    rw [MemFS.abs_empty]
    by_cases hq : q = []
    · subst hq; simp [FS.State.empty, hroot]
    · simp [FS.State.empty, hq, hempty q hq]
  · simp [World.init, MemFS.World.init, MemFS.baseOf]

end DiskFS
end Goat
