/-
One call of the disk filespace model inside the property's precondition refines the specification
(helper lemmas for C02): `step_pre`, one lemma per method.
-/
import Goat.Proofs.DiskFSCopy
import Goat.Proofs.DiskFSRebase

namespace Goat
namespace DiskFS

open Path (Name norm)
open FS (Op Result Entry State TreeLike Mut Step ResEq)

/-- what refinement says of the outcome `x` of a call `op` on host `H` through the filespace rooted at
`r`: the host stays well formed, the call did not panic, and result and tree afterwards are those the
specification prescribes (the result up to `ResEq`) -/
def Refines (r : HPath) (H : Host) (op : Op) (x : Host × Out) : Prop :=
  x.1.WF ∧ ∃ res res', x.2 = .val res ∧ ResEq res' res ∧ Step r H.get op res' x.1.get

theorem refines_of {r : HPath} {H : Host} {op : Op} {H' : Host} {res : Result} (hwf : H'.WF)
    (hstep : Step r H.get op res H'.get) : Refines r H op (H', .val res) :=
  ⟨hwf, res, res, rfl, ResEq.refl res, hstep⟩

theorem mut_ok {pre : Prop} {post S : State} (h : pre) : Mut pre post S .ok post := Or.inl ⟨h, rfl, rfl⟩
theorem mut_err {pre : Prop} {post S : State} (h : ¬ pre) : Mut pre post S .err S := Or.inr ⟨h, rfl, rfl⟩

theorem full_path (r : HPath) (p : List Name) : (full r p).path = r ++ p := rfl

theorem full_dir_path (r : HPath) (p : List Name) (hp : p ≠ []) : (full r p).dir.path = r ++ p.dropLast := by
  have : p.isEmpty = false := by cases p <;> simp_all
  simp [full, HP.dir, this, append_dropLast r p hp]

theorem full_nil_dir_path (r : HPath) : (full r []).dir.path = r := by simp [full, HP.dir]

theorem full_eq (r : HPath) (p : List Name) (hp : p ≠ []) : full r p = ⟨r ++ p, false⟩ := by
  have : p.isEmpty = false := by cases p <;> simp_all
  simp [full, this]

theorem full_nil (r : HPath) : full r [] = ⟨r, true⟩ := by simp [full]

theorem append_ne_nil {r p : List Name} (hp : p ≠ []) : r ++ p ≠ [] := by simp [hp]

theorem statName_eq {p : HPath} (hp : p ≠ []) : statName p = FS.statName p := by
  simp only [statName, FS.statName]
  cases h : p.getLast? with
  | none => simp at h; exact absurd h hp
  | some n => rfl

theorem readLoop_fst (d : Bytes) (sizes : List Nat) :
    (readLoop d sizes).map (·.1) = (FS.readChunks d sizes).map (·.1) := by
  induction sizes generalizing d with
  | nil => rfl
  | cons n rest ih => simp [readLoop, FS.readChunks, ih]

/-! ### queries -/

section
variable {r : HPath} {H : Host} (hwf : H.WF) (hroot : H.get r = some .dir)
include hwf hroot

theorem step_readDir (raw : Bytes) : Refines r H (.readDir raw) (step r H (.readDir raw)) := by
  simp only [step]
  cases hn : norm raw with
  | none => exact refines_of hwf (by simp [Step, hn])
  | some p =>
    simp only [osReadDir, osStat_full hroot, full_path]
    cases hg : H.get (r ++ p) with
    | none => exact refines_of hwf (by simp [Step, hn, hg])
    | some e =>
      cases e with
      | file d => exact refines_of hwf (by simp [Step, hn, hg])
      | dir =>
        exact refines_of hwf (by simp only [Step, hn, hg]; exact ⟨trivial, _, rfl, isListing_sorted hwf _⟩)

theorem step_isExist (raw : Bytes) : Refines r H (.isExist raw) (step r H (.isExist raw)) := by
  simp only [step]
  cases hn : norm raw with
  | none => exact refines_of hwf (by simp [Step, hn])
  | some p =>
    exact refines_of hwf (by simp [Step, hn, isExist, osStat_full hroot])

theorem step_isFile (raw : Bytes) : Refines r H (.isFile raw) (step r H (.isFile raw)) := by
  simp only [step]
  cases hn : norm raw with
  | none => exact refines_of hwf (by simp [Step, hn])
  | some p =>
    apply refines_of hwf
    simp only [Step, hn, isFile, osStat_full hroot]
    cases hg : H.get (r ++ p) with
    | none => simp
    | some e => cases e <;> simp

theorem step_isDir (raw : Bytes) : Refines r H (.isDir raw) (step r H (.isDir raw)) := by
  simp only [step]
  cases hn : norm raw with
  | none => exact refines_of hwf (by simp [Step, hn])
  | some p =>
    apply refines_of hwf
    simp only [Step, hn, isDir, osStat_full hroot]
    cases hg : H.get (r ++ p) with
    | none => simp
    | some e => cases e <;> simp

theorem step_readFile (raw : Bytes) : Refines r H (.readFile raw) (step r H (.readFile raw)) := by
  simp only [step]
  cases hn : norm raw with
  | none => exact refines_of hwf (by simp [Step, hn])
  | some p =>
    simp only [osStat_full hroot]
    cases hg : H.get (r ++ p) with
    | none => exact refines_of hwf (by simp [Step, hn, hg])
    | some e =>
      cases e with
      | file d => exact refines_of hwf (by simp [Step, hn, hg])
      | dir => exact refines_of hwf (by simp [Step, hn, hg])

theorem step_lstat (raw : Bytes) (hpre : ∀ p, norm raw = some p → r ++ p ≠ []) :
    Refines r H (.lstat raw) (step r H (.lstat raw)) := by
  simp only [step]
  cases hn : norm raw with
  | none => exact refines_of hwf (by simp [Step, hn])
  | some p =>
    simp only [osStat_full hroot]
    have hname := statName_eq (hpre p hn)
    cases hg : H.get (r ++ p) with
    | none => exact refines_of hwf (by simp [Step, hn, hg])
    | some e =>
      cases e with
      | file d => exact refines_of hwf (by simp [Step, hn, hg, hname])
      | dir => exact refines_of hwf (by simp [Step, hn, hg, hname])

theorem step_reader (raw : Bytes) (sizes : List Nat)
    (hpre : ∀ p, norm raw = some p → H.get (r ++ p) ≠ some .dir) :
    Refines r H (.reader raw sizes) (step r H (.reader raw sizes)) := by
  simp only [step]
  cases hn : norm raw with
  | none => exact refines_of hwf (by simp [Step, hn])
  | some p =>
    simp only [osStat_full hroot]
    cases hg : H.get (r ++ p) with
    | none => exact refines_of hwf (by simp [Step, hn, hg])
    | some e =>
      cases e with
      | dir => exact absurd hg (hpre p hn)
      | file d =>
        refine ⟨hwf, _, .chunks (FS.readChunks d sizes), rfl, ?_, ?_⟩
        · exact (readLoop_fst d sizes).symm
        · simp [Step, hn, hg]

theorem step_filespace (raw : Bytes) (hpre : ∀ p, norm raw = some p → H.get (r ++ p) = some .dir) :
    Refines r H (.filespace raw) (step r H (.filespace raw)) := by
  simp only [step]
  cases hn : norm raw with
  | none => exact refines_of hwf (by simp [Step, hn])
  | some p =>
    have : isDir H (full r p) = true := (isDir_full hroot p).mpr (hpre p hn)
    simp only [this, if_true]
    exact refines_of hwf (by simp [Step, hn])

/-! ### mutations -/

omit hroot in
theorem step_mkdirAll (raw : Bytes) : Refines r H (.mkdirAll raw) (step r H (.mkdirAll raw)) := by
  simp only [step]
  cases hn : norm raw with
  | none => exact refines_of hwf (by simp [Step, hn])
  | some p =>
    by_cases hok : FS.mkdirOk H.get (r ++ p)
    · obtain ⟨H1, h1, hwf1, hget1⟩ := osMkdirAll_ok hwf _ hok
      simp only [h1]
      apply refines_of hwf1
      simp only [Step, hn, hget1]
      exact mut_ok hok
    · simp only [osMkdirAll_fail hwf _ hok]
      apply refines_of hwf
      simp only [Step, hn]
      exact mut_err hok

omit hwf in
theorem not_writeOk_root : ¬ FS.writeOk H.get (r ++ []) := by
  intro h
  rw [List.append_nil] at h
  exact h.2.2 hroot

theorem step_writeFile (raw data : Bytes) :
    Refines r H (.writeFile raw data) (step r H (.writeFile raw data)) := by
  have hT := Host.wf_treeLike hwf
  simp only [step]
  cases hn : norm raw with
  | none => exact refines_of hwf (by simp [Step, hn])
  | some p =>
    simp only []
    by_cases hp : p = []
    · subst hp
      obtain ⟨H1, h1, hwf1, hget1⟩ := osMkdirAll_dir hwf r hroot
      rw [full_nil_dir_path, h1]
      simp only [full_nil, osOpenTrunc, true_or, if_true]
      apply refines_of hwf1
      simp only [Step, hn, hget1]
      exact mut_err (not_writeOk_root hroot)
    · have hne : r ++ p ≠ [] := append_ne_nil hp
      have hdl : (r ++ p).dropLast = r ++ p.dropLast := append_dropLast r p hp
      rw [full_dir_path r p hp, full_eq r p hp]
      by_cases hok : FS.mkdirOk H.get (r ++ p.dropLast)
      · obtain ⟨H1, h1, hwf1, hget1⟩ := osMkdirAll_ok hwf _ hok
        simp only [h1]
        have hpar : H1.get (r ++ p).dropLast = some .dir := by
          rw [hdl, hget1]; simp [FS.mkdirSt]
        have hsame : H1.get (r ++ p) = H.get (r ++ p) := by
          rw [hget1]
          have : ¬ r ++ p <+: r ++ p.dropLast := by
            intro hc
            have h1 := hc.length_le
            simp only [List.length_append, List.length_dropLast] at h1
            have : p.length ≠ 0 := fun h0 => hp (List.length_eq_zero_iff.mp h0)
            omega
          simp [FS.mkdirSt, this]
        by_cases hd : H.get (r ++ p) = some .dir
        · -- the target is a directory: the open fails, and `MkdirAll` had nothing to do
          have : osOpenTrunc H1 ⟨r ++ p, false⟩ = none := by
            simp [osOpenTrunc, hne, hpar, hsame, hd]
          simp only [this]
          apply refines_of hwf1
          simp only [Step, hn]
          have hparent : H.get (r ++ p.dropLast) = some .dir := by
            rw [← hdl]
            exact hT.prefix_dir' (List.dropLast_prefix _) (dropLast_ne_self hne) (by simp [hd])
          rw [hget1, FS.mkdirSt_of_dir hT hparent]
          exact mut_err (fun h => h.2.2 hd)
        · obtain ⟨h2, hwf2⟩ := osOpenTrunc_ok hwf1 (r ++ p) hne hpar (by rw [hsame]; exact hd)
          have hf2 : (H1.put (r ++ p) (.file [])).get (r ++ p) = some (.file []) := by
            rw [Host.get_put _ _ _ hne]; simp
          obtain ⟨h3, hwf3⟩ := osAppend_ok hwf2 (r ++ p) hne [] data hf2
          simp only [h2, h3]
          apply refines_of hwf3
          simp only [Step, hn]
          have : ((H1.put (r ++ p) (.file [])).put (r ++ p) (.file ([] ++ data))).get
              = FS.writeSt H.get (r ++ p) data := by
            funext q
            rw [Host.get_put _ _ _ hne, Host.get_put _ _ _ hne, hget1]
            simp only [FS.writeSt, hdl, List.nil_append]
            by_cases hq : q = r ++ p <;> simp [hq]
          rw [this]
          exact mut_ok ⟨hne, by rw [hdl]; exact hok, hd⟩
      · simp only [osMkdirAll_fail hwf _ hok]
        apply refines_of hwf
        simp only [Step, hn]
        exact mut_err (fun h => hok (by rw [← hdl]; exact h.2.1))

theorem step_writer (raw : Bytes) (chunks : List Bytes)
    (hpre : ∀ p, norm raw = some p → p = [] ∨ H.get (r ++ p.dropLast) = some .dir) :
    Refines r H (.writer raw chunks) (step r H (.writer raw chunks)) := by
  have hT := Host.wf_treeLike hwf
  simp only [step]
  cases hn : norm raw with
  | none => exact refines_of hwf (by simp [Step, hn])
  | some p =>
    by_cases hp : p = []
    · subst hp
      simp only [full_nil, osOpenTrunc, true_or, if_true]
      apply refines_of hwf
      simp only [Step, hn]
      exact mut_err (not_writeOk_root hroot)
    · have hne : r ++ p ≠ [] := append_ne_nil hp
      have hdl : (r ++ p).dropLast = r ++ p.dropLast := append_dropLast r p hp
      have hpar : H.get (r ++ p).dropLast = some .dir := by
        rw [hdl]
        rcases hpre p hn with h | h
        · exact absurd h hp
        · exact h
      simp only [full_eq r p hp]
      by_cases hd : H.get (r ++ p) = some .dir
      · have : osOpenTrunc H ⟨r ++ p, false⟩ = none := by simp [osOpenTrunc, hne, hpar, hd]
        simp only [this]
        apply refines_of hwf
        simp only [Step, hn]
        exact mut_err (fun h => h.2.2 hd)
      · obtain ⟨h2, hwf2⟩ := osOpenTrunc_ok hwf (r ++ p) hne hpar hd
        have hf2 : (H.put (r ++ p) (.file [])).get (r ++ p) = some (.file []) := by
          rw [Host.get_put _ _ _ hne]; simp
        obtain ⟨H3, h3, hwf3, hget3⟩ := osAppendAll_ok hwf2 (r ++ p) hne [] chunks hf2
        simp only [h2, h3]
        apply refines_of hwf3
        simp only [Step, hn]
        have : H3.get = FS.writeSt H.get (r ++ p) chunks.flatten := by
          rw [hget3]
          funext q
          rw [Host.get_put _ _ _ hne]
          simp only [FS.writeSt, List.nil_append, FS.mkdirSt_of_dir hT hpar]
          by_cases hq : q = r ++ p <;> simp [hq]
        rw [this]
        exact mut_ok ⟨hne, FS.mkdirOk_of_dir hT hpar, hd⟩

theorem step_remove (raw : Bytes) : Refines r H (.remove raw) (step r H (.remove raw)) := by
  have hT := Host.wf_treeLike hwf
  simp only [step]
  cases hn : norm raw with
  | none => exact refines_of hwf (by simp [Step, hn])
  | some p =>
    by_cases hp : p = []
    · simp only [hp, if_true]
      apply refines_of hwf
      simp only [Step, hn]
      exact mut_err (fun h => h.1 hp)
    · have hne : r ++ p ≠ [] := append_ne_nil hp
      simp only [hp, if_false, osRemove, full_path, hne, osStat_full hroot]
      have hget_del : (H.del (r ++ p)).get = FS.removeSt H.get (r ++ p) := by
        funext q; rw [Host.get_del _ _ hne]; rfl
      cases hg : H.get (r ++ p) with
      | none =>
        apply refines_of hwf
        simp only [Step, hn]
        refine mut_err ?_
        rintro ⟨_, _, h | h⟩
        · obtain ⟨d, hd⟩ := h; rw [hg] at hd; cases hd
        · rw [hg] at h; cases h.1
      | some e =>
        cases e with
        | file d =>
          have hk : ∀ n, H.get (r ++ p ++ [n]) = none :=
            fun n => hT.below_none (r ++ p) [n] (by simp) (by rw [hg]; intro hc; cases hc)
          apply refines_of (Host.wf_del hwf hne hk)
          simp only [Step, hn, hget_del]
          exact mut_ok ⟨hp, hne, Or.inl ⟨d, hg⟩⟩
        | dir =>
          by_cases he : (H.children (r ++ p)).isEmpty = true
          · have hk := (Host.children_isEmpty hwf (r ++ p)).mp he
            simp only [he, if_true]
            apply refines_of (Host.wf_del hwf hne hk)
            simp only [Step, hn, hget_del]
            exact mut_ok ⟨hp, hne, Or.inr ⟨hg, hk⟩⟩
          · simp only [he]
            apply refines_of hwf
            simp only [Step, hn]
            refine mut_err ?_
            rintro ⟨_, _, h | h⟩
            · obtain ⟨d, hd⟩ := h; rw [hg] at hd; cases hd
            · exact he ((Host.children_isEmpty hwf (r ++ p)).mpr h.2)

omit hroot in
theorem step_removeAll (raw : Bytes) (hpre : ∀ p, norm raw = some p → p = [] ∨ H.get (r ++ p) ≠ none) :
    Refines r H (.removeAll raw) (step r H (.removeAll raw)) := by
  simp only [step]
  cases hn : norm raw with
  | none => exact refines_of hwf (by simp [Step, hn])
  | some p =>
    by_cases hp : p = []
    · simp only [hp, if_true]
      apply refines_of hwf
      simp only [Step, hn]
      exact mut_err (fun h => h.1 hp)
    · have hne : r ++ p ≠ [] := append_ne_nil hp
      have hex : H.get (r ++ p) ≠ none := by
        rcases hpre p hn with h | h
        · exact absurd h hp
        · exact h
      simp only [hp, if_false, osRemoveAll]
      cases hg : H.get (r ++ p) with
      | none => exact absurd hg hex
      | some e =>
        simp only []
        apply refines_of (Host.wf_delTree hwf hne)
        simp only [Step, hn]
        have : (H.delTree (r ++ p)).get = FS.removeAllSt H.get (r ++ p) := by
          funext q; rw [Host.get_delTree _ _ hne]; rfl
        rw [this]
        exact mut_ok ⟨hp, hne, hex⟩

end

end DiskFS
end Goat
