/-
The three copy methods inside the precondition, and `step_pre`: every call of the disk filespace model
inside `Pre` refines the specification (helper lemmas for C02).
-/
import Goat.Proofs.DiskFSStep

namespace Goat
namespace DiskFS

open Path (Name norm)
open FS (Op Result Entry State TreeLike Mut Step ResEq CopyKind)

section
variable {r : HPath} {H : Host} (hwf : H.WF) (hroot : H.get r = some .dir)
include hwf hroot

/-- copying a file: the branch of `Copy`/`CopyFile` taken when the source is a file -/
theorem fileCopy_mut (kind : CopyKind) (hacc : ∀ x, kind.accepts (some (.file x))) (s d : List Name) (x : Bytes)
    (hs : H.get (r ++ s) = some (.file x))
    (hpre : d = [] ∨ (H.get (r ++ d.dropLast) = some .dir ∧ H.get (r ++ d) = none)) :
    (copyFile H (full r s) (full r d)).1.WF ∧
    Mut (FS.copyOk kind H.get (r ++ s) (r ++ d)) (FS.copySt H.get (r ++ s) (r ++ d)) H.get
      (if (copyFile H (full r s) (full r d)).2 then .ok else .err) (copyFile H (full r s) (full r d)).1.get := by
  have hT := Host.wf_treeLike hwf
  have hsne : s ≠ [] := by
    intro hc; subst hc; rw [List.append_nil, hroot] at hs; cases hs
  by_cases hd : d = []
  · subst hd
    have : copyFile H (full r s) (full r []) = (H, false) := by
      simp [copyFile, osStat_full hroot, hs, full_nil, osOpenTrunc]
    rw [this]
    refine ⟨hwf, mut_err ?_⟩
    intro hok
    have := hok.2.2.2
    rw [List.append_nil, hroot] at this; cases this
  · obtain ⟨hpar, habs⟩ : H.get (r ++ d.dropLast) = some .dir ∧ H.get (r ++ d) = none := by
      rcases hpre with h | h
      · exact absurd h hd
      · exact h
    have hne : r ++ d ≠ [] := append_ne_nil hd
    have hdl : (r ++ d).dropLast = r ++ d.dropLast := append_dropLast r d hd
    obtain ⟨H', hc, hwf', hget'⟩ := copyFile_ok hwf (r ++ s) (r ++ d) x hs hne (by rw [hdl]; exact hpar) habs
    rw [full_eq r s hsne, full_eq r d hd, hc]
    refine ⟨hwf', ?_⟩
    have : H'.get = FS.copySt H.get (r ++ s) (r ++ d) := by
      rw [hget']
      funext q
      simp only [FS.copySt, hdl, FS.mkdirSt_of_dir hT hpar]
      by_cases hq : r ++ d <+: q
      · simp only [hq, if_true]
        by_cases hqd : q = r ++ d
        · subst hqd; simp [hs]
        · simp only [hqd, if_false]
          have hq2 := prefix_drop hq
          have hne2 : q.drop (r ++ d).length ≠ [] := by
            intro hc2; rw [hc2, List.append_nil] at hq2; exact hqd hq2
          rw [hT.below_none (r ++ s) _ hne2 (by rw [hs]; intro hc2; cases hc2)]
          rw [hq2]
          exact hT.below_none (r ++ d) _ hne2 (by rw [habs]; intro hc2; cases hc2)
      · have hqd : q ≠ r ++ d := fun hc2 => hq (by rw [hc2]; exact List.prefix_refl _)
        simp [hq, hqd]
    rw [this]
    simp only [if_true]
    refine mut_ok ⟨hne, ?_, ?_, habs⟩
    · rw [hs]; exact hacc x
    · rw [hdl]; exact FS.mkdirOk_of_dir hT hpar

/-- copying a directory: the branch of `Copy`/`CopyDirectory` taken when the source is a directory -/
theorem dirCopy_mut (kind : CopyKind) (hacc : kind.accepts (some .dir)) (s d : List Name)
    (hs : H.get (r ++ s) = some .dir) (habs : H.get (r ++ d) = none) :
    ∃ H' b, copyDirectory H (full r s) (full r d) = .eff (H', b) ∧ H'.WF ∧
      Mut (FS.copyOk kind H.get (r ++ s) (r ++ d)) (FS.copySt H.get (r ++ s) (r ++ d)) H.get
        (if b then .ok else .err) H'.get := by
  have hd : d ≠ [] := by
    intro hc; subst hc; rw [List.append_nil, hroot] at habs; cases habs
  have hne : r ++ d ≠ [] := append_ne_nil hd
  rw [full_eq r d hd]
  by_cases hok : FS.mkdirOk H.get (r ++ d).dropLast
  · obtain ⟨H', hc, hwf', hget'⟩ := copyDirectory_ok hwf (full r s) (r ++ d) hs hne hok habs
    refine ⟨H', true, hc, hwf', ?_⟩
    rw [hget', full_path]
    simp only [if_true]
    refine mut_ok ⟨hne, ?_, hok, habs⟩
    rw [hs]; exact hacc
  · refine ⟨H, false, ?_, hwf, mut_err (fun h => hok h.2.2.1)⟩
    have hst : osStat H (full r s) = some .dir := by rw [osStat_full hroot, hs]
    simp only [copyDirectory, hst]
    rw [show (HP.dir ⟨r ++ d, false⟩).path = (r ++ d).dropLast from rfl, osMkdirAll_fail hwf _ hok]

theorem step_copyFile (rs rd : Bytes)
    (hpre : ∀ s d, norm rs = some s → norm rd = some d → FileCopyPre r H.get s d) :
    Refines r H (.copyFile rs rd) (step r H (.copyFile rs rd)) := by
  simp only [step]
  cases hs : norm rs with
  | none => exact refines_of hwf (by simp [Step, hs])
  | some s =>
    cases hd : norm rd with
    | none => exact refines_of hwf (by simp [Step, hs, hd])
    | some d =>
      simp only [okErr]
      cases hg : H.get (r ++ s) with
      | none =>
        have : copyFile H (full r s) (full r d) = (H, false) := by
          simp [copyFile, osStat_full hroot, hg]
        rw [this]
        apply refines_of hwf
        simp only [Step, hs, hd]
        exact mut_err (fun h => by have := h.2.1; rw [hg] at this; exact this)
      | some e =>
        cases e with
        | dir =>
          have : copyFile H (full r s) (full r d) = (H, false) := by
            simp [copyFile, osStat_full hroot, hg]
          rw [this]
          apply refines_of hwf
          simp only [Step, hs, hd]
          refine mut_err (fun h => ?_)
          have := h.2.1; rw [hg] at this
          obtain ⟨x, hx⟩ := this; cases hx
        | file x =>
          have hp := hpre s d hs hd
          simp only [FileCopyPre, hg, isFileE, forall_const] at hp
          obtain ⟨hwf', hmut⟩ := fileCopy_mut hwf hroot .fileOnly (fun x => ⟨x, rfl⟩) s d x hg hp
          apply refines_of hwf'
          simp only [Step, hs, hd]
          exact hmut

theorem step_copyDirectory (rs rd : Bytes)
    (hpre : ∀ s d, norm rs = some s → norm rd = some d → DirCopyPre r H.get s d) :
    Refines r H (.copyDirectory rs rd) (step r H (.copyDirectory rs rd)) := by
  simp only [step]
  cases hs : norm rs with
  | none => exact refines_of hwf (by simp [Step, hs])
  | some s =>
    cases hd : norm rd with
    | none => exact refines_of hwf (by simp [Step, hs, hd])
    | some d =>
      simp only []
      cases hg : H.get (r ++ s) with
      | none =>
        have : copyDirectory H (full r s) (full r d) = .eff (H, false) := by
          simp [copyDirectory, osStat_full hroot, hg]
        rw [this]
        simp only [okErrP, okErr]
        apply refines_of hwf
        simp only [Step, hs, hd]
        exact mut_err (fun h => by have := h.2.1; rw [hg] at this; exact this)
      | some e =>
        cases e with
        | file x =>
          have : copyDirectory H (full r s) (full r d) = .eff (H, false) := by
            simp [copyDirectory, osStat_full hroot, hg]
          rw [this]
          simp only [okErrP, okErr]
          apply refines_of hwf
          simp only [Step, hs, hd]
          refine mut_err (fun h => ?_)
          have := h.2.1; rw [hg] at this; cases this
        | dir =>
          obtain ⟨H', b, hc, hwf', hmut⟩ := dirCopy_mut hwf hroot .dirOnly rfl s d hg (hpre s d hs hd hg)
          rw [hc]
          simp only [okErrP, okErr]
          apply refines_of hwf'
          simp only [Step, hs, hd]
          exact hmut

theorem step_copy (rs rd : Bytes)
    (hpre : ∀ s d, norm rs = some s → norm rd = some d → FileCopyPre r H.get s d ∧ DirCopyPre r H.get s d) :
    Refines r H (.copy rs rd) (step r H (.copy rs rd)) := by
  simp only [step]
  cases hs : norm rs with
  | none => exact refines_of hwf (by simp [Step, hs])
  | some s =>
    cases hd : norm rd with
    | none => exact refines_of hwf (by simp [Step, hs, hd])
    | some d =>
      simp only [copy]
      cases hg : H.get (r ++ s) with
      | none =>
        have h1 : isDir H (full r s) = false := by simp [isDir, osStat_full hroot, hg]
        have : copyFile H (full r s) (full r d) = (H, false) := by
          simp [copyFile, osStat_full hroot, hg]
        simp only [h1, this, okErrP, okErr]
        apply refines_of hwf
        simp only [Step, hs, hd]
        exact mut_err (fun h => by have := h.2.1; rw [hg] at this; exact this)
      | some e =>
        cases e with
        | file x =>
          have h1 : isDir H (full r s) = false := by simp [isDir, osStat_full hroot, hg]
          have hp := (hpre s d hs hd).1
          simp only [FileCopyPre, hg, isFileE, forall_const] at hp
          obtain ⟨hwf', hmut⟩ := fileCopy_mut hwf hroot .any (fun _ => trivial) s d x hg hp
          simp only [h1, okErrP, okErr]
          apply refines_of hwf'
          simp only [Step, hs, hd]
          exact hmut
        | dir =>
          have h1 : isDir H (full r s) = true := (isDir_full hroot s).mpr hg
          obtain ⟨H', b, hc, hwf', hmut⟩ := dirCopy_mut hwf hroot .any trivial s d hg ((hpre s d hs hd).2 hg)
          simp only [h1, if_true, hc, okErrP, okErr]
          apply refines_of hwf'
          simp only [Step, hs, hd]
          exact hmut

end

/-- DISK REFINES THE SPECIFICATION INSIDE `Pre`: any of the 16 methods, any spelling, through a disk
filespace rooted at `r` on a well-formed host -/
theorem step_pre (r : HPath) (H : Host) (hwf : H.WF) (op : Op) (hpre : Pre r H.get op) :
    Refines r H op (step r H op) := by
  obtain ⟨hroot, hp⟩ := hpre
  cases op with
  | copy rs rd =>
    apply step_copy hwf hroot
    intro s d hs hd; simpa [hs, hd] using hp
  | copyDirectory rs rd =>
    apply step_copyDirectory hwf hroot
    intro s d hs hd; simpa [hs, hd] using hp
  | copyFile rs rd =>
    apply step_copyFile hwf hroot
    intro s d hs hd; simpa [hs, hd] using hp
  | readDir raw => exact step_readDir hwf hroot raw
  | isExist raw => exact step_isExist hwf hroot raw
  | isFile raw => exact step_isFile hwf hroot raw
  | isDir raw => exact step_isDir hwf hroot raw
  | mkdirAll raw => exact step_mkdirAll hwf raw
  | readFile raw => exact step_readFile hwf hroot raw
  | writeFile raw data => exact step_writeFile hwf hroot raw data
  | filespace raw =>
    apply step_filespace hwf hroot
    intro p hn; simpa [hn] using hp
  | reader raw sizes =>
    apply step_reader hwf hroot
    intro p hn; simpa [hn] using hp
  | writer raw chunks =>
    apply step_writer hwf hroot
    intro p hn; simpa [hn] using hp
  | remove raw => exact step_remove hwf hroot raw
  | removeAll raw =>
    apply step_removeAll hwf
    intro p hn; simpa [hn] using hp
  | lstat raw =>
    apply step_lstat hwf hroot
    intro p hn; simpa [hn] using hp

end DiskFS
end Goat
