/-
What the system calls of the host model do, expressed through `Host.get` (helper lemmas for C02):
`os.MkdirAll` is `FS.mkdirSt` exactly when `FS.mkdirOk`, `OpenFile(O_TRUNC)` + `Write`s put a file,
`disk.CopyFile` onto an absent destination below an existing directory puts a copy.
-/
import Goat.Proofs.DiskFSHost

namespace Goat
namespace FS

open Path (Name norm)

/-- in a tree, whatever has something below it is a directory -/
theorem TreeLike.anc_dir {S : State} (h : TreeLike S) (q t : Path) (ht : t ≠ []) (hp : S (q ++ t) ≠ none) :
    S q = some .dir := by
  induction t generalizing q with
  | nil => exact absurd rfl ht
  | cons a t ih =>
    by_cases ht' : t = []
    · subst ht'; exact h.2 q a hp
    · have h1 : S ((q ++ [a]) ++ t) ≠ none := by simpa using hp
      have h2 := ih (q ++ [a]) ht' h1
      exact h.2 q a (by rw [h2]; simp)

/-- … in prefix form -/
theorem TreeLike.prefix_dir' {S : State} (h : TreeLike S) {q p : Path} (hq : q <+: p) (hne : q ≠ p)
    (hp : S p ≠ none) : S q = some .dir := by
  obtain ⟨t, rfl⟩ := hq
  apply h.anc_dir q t _ hp
  intro ht; subst ht; simp at hne

/-- nothing exists below a file or below nothing -/
theorem TreeLike.below_none {S : State} (h : TreeLike S) (q t : Path) (ht : t ≠ []) (hq : S q ≠ some .dir) :
    S (q ++ t) = none := by
  cases hs : S (q ++ t) with
  | none => rfl
  | some e => exact absurd (h.anc_dir q t ht (by simp [hs])) hq

/-- when the path is a directory already, `mkdir -p` changes nothing -/
theorem mkdirSt_of_dir {S : State} (h : TreeLike S) {p : Path} (hp : S p = some .dir) : mkdirSt S p = S := by
  funext q
  simp only [mkdirSt]
  split
  · next hq =>
    by_cases hqp : q = p
    · rw [hqp, hp]
    · exact (h.prefix_dir' hq hqp (by simp [hp])).symm
  · rfl

theorem mkdirOk_of_dir {S : State} (h : TreeLike S) {p : Path} (hp : S p = some .dir) : mkdirOk S p := by
  intro q hq d hd
  by_cases hqp : q = p
  · rw [hqp, hp] at hd; cases hd
  · rw [h.prefix_dir' hq hqp (by simp [hp])] at hd; cases hd

theorem prefix_concat {α} {q p : List α} {n : α} : q <+: p ++ [n] ↔ q <+: p ∨ q = p ++ [n] := by
  rw [List.prefix_concat_iff]
  constructor
  · rintro (h | h)
    · exact Or.inr h
    · exact Or.inl h
  · rintro (h | h)
    · exact Or.inr h
    · exact Or.inl h

theorem mkdirOk_concat {S : State} {p : Path} {n : Name} :
    mkdirOk S (p ++ [n]) ↔ mkdirOk S p ∧ ∀ d, S (p ++ [n]) ≠ some (.file d) := by
  constructor
  · intro h
    exact ⟨fun q hq => h q (prefix_concat.mpr (Or.inl hq)), h _ (List.prefix_refl _)⟩
  · rintro ⟨h1, h2⟩ q hq
    rcases prefix_concat.mp hq with h | h
    · exact h1 q h
    · rw [h]; exact h2

theorem mkdirSt_concat {S : State} {p : Path} {n : Name} :
    mkdirSt S (p ++ [n]) = fun q => if q = p ++ [n] then some .dir else mkdirSt S p q := by
  funext q
  simp only [mkdirSt]
  by_cases h1 : q = p ++ [n]
  · simp [h1]
  · by_cases h2 : q <+: p
    · simp [h1, h2, prefix_concat.mpr (Or.inl h2)]
    · have : ¬ q <+: p ++ [n] := fun h => by
        rcases prefix_concat.mp h with h | h
        · exact h2 h
        · exact h1 h
      simp [h1, h2, this]

end FS

namespace DiskFS

open Path (Name norm)
open FS (Op Result Entry State TreeLike)

theorem dropLast_ne_self {α} {p : List α} (hp : p ≠ []) : p.dropLast ≠ p := by
  intro hc
  have := congrArg List.length hc
  simp at this
  have : p.length ≠ 0 := fun h0 => hp (List.length_eq_zero_iff.mp h0)
  omega

theorem append_dropLast {α} (r p : List α) (hp : p ≠ []) : (r ++ p).dropLast = r ++ p.dropLast := by
  obtain ⟨init, a, rfl⟩ : ∃ init a, p = init ++ [a] := ⟨p.dropLast, p.getLast hp, (List.dropLast_concat_getLast hp).symm⟩
  rw [← List.append_assoc]
  simp

/-! ### `os.Stat` through `fs.path + p` -/

/-- with the filespace's directory in place, `Stat(fs.path + p)` is what stands at `r ++ p` (the trailing
slash of `fs.path + ""` asks for a directory, and finds one) -/
theorem osStat_full {H : Host} {r : HPath} (hroot : H.get r = some .dir) (p : List Name) :
    osStat H (full r p) = H.get (r ++ p) := by
  simp only [osStat, full]
  cases p with
  | nil => simp [hroot]
  | cons a t =>
    cases hg : H.get (r ++ a :: t) with
    | none => rfl
    | some e => cases e <;> simp

theorem isDir_full {H : Host} {r : HPath} (hroot : H.get r = some .dir) (p : List Name) :
    isDir H (full r p) = true ↔ H.get (r ++ p) = some .dir := by
  simp [isDir, osStat_full hroot]

/-! ### `os.MkdirAll` -/

theorem mkdirAllRev_spec {H : Host} (h : H.WF) (rp : List Name) :
    (FS.mkdirOk H.get rp.reverse →
        ∃ H', mkdirAllRev H rp = some H' ∧ H'.WF ∧ H'.get = FS.mkdirSt H.get rp.reverse)
    ∧ (¬ FS.mkdirOk H.get rp.reverse → mkdirAllRev H rp = none) := by
  have hT := Host.wf_treeLike h
  induction rp with
  | nil =>
    refine ⟨fun _ => ⟨H, rfl, h, ?_⟩, fun hno => ?_⟩
    · funext q
      show H.get q = if q <+: [] then some Entry.dir else H.get q
      by_cases hq : q <+: []
      · rw [if_pos hq, List.prefix_nil.mp hq]; exact Host.get_nil H
      · rw [if_neg hq]
    · exfalso; apply hno
      intro q hq d hd
      rw [List.reverse_nil, List.prefix_nil] at hq
      rw [hq, Host.get_nil] at hd; cases hd
  | cons n up ih =>
    have hrev : (n :: up).reverse = up.reverse ++ [n] := by simp
    simp only [mkdirAllRev]
    rw [hrev]
    cases hg : H.get (up.reverse ++ [n]) with
    | some e =>
      cases e with
      | dir =>
        refine ⟨fun _ => ⟨H, rfl, h, (FS.mkdirSt_of_dir hT hg).symm⟩, fun hno => ?_⟩
        exact absurd (FS.mkdirOk_of_dir hT hg) hno
      | file d =>
        refine ⟨fun hok => ?_, fun _ => rfl⟩
        exact absurd hg (hok _ (List.prefix_refl _) d)
    | none =>
      simp only []
      rw [FS.mkdirOk_concat]
      constructor
      · rintro ⟨hok, _⟩
        obtain ⟨H1, h1, hwf1, hget1⟩ := ih.1 hok
        rw [h1]
        simp only []
        have hne : up.reverse ++ [n] ≠ [] := by simp
        have hpar : H1.get (up.reverse ++ [n]).dropLast = some .dir := by
          rw [List.dropLast_concat, hget1]
          simp [FS.mkdirSt]
        have habs : H1.get (up.reverse ++ [n]) = none := by
          rw [hget1]
          simp only [FS.mkdirSt]
          have : ¬ up.reverse ++ [n] <+: up.reverse := by
            intro hc
            have := hc.length_le
            simp at this
            omega
          simp [this, hg]
        simp only [osMkdir, hne, if_false, hpar, habs]
        refine ⟨_, rfl, Host.wf_put hwf1 hne hpar (by rw [habs]; intro hc; cases hc), ?_⟩
        rw [FS.mkdirSt_concat]
        funext q
        rw [Host.get_put _ _ _ hne, hget1]
      · intro hno
        have hno' : ¬ FS.mkdirOk H.get up.reverse := by
          intro hok; apply hno
          exact ⟨hok, fun d => by rw [hg]; intro hc; cases hc⟩
        rw [ih.2 hno']

theorem osMkdirAll_ok {H : Host} (h : H.WF) (p : HPath) (hok : FS.mkdirOk H.get p) :
    ∃ H', osMkdirAll H p = some H' ∧ H'.WF ∧ H'.get = FS.mkdirSt H.get p := by
  have := (mkdirAllRev_spec h p.reverse).1
  rw [List.reverse_reverse] at this
  exact this hok

theorem osMkdirAll_fail {H : Host} (h : H.WF) (p : HPath) (hno : ¬ FS.mkdirOk H.get p) :
    osMkdirAll H p = none := by
  have := (mkdirAllRev_spec h p.reverse).2
  rw [List.reverse_reverse] at this
  exact this hno

/-- `MkdirAll` of an existing directory changes nothing -/
theorem osMkdirAll_dir {H : Host} (h : H.WF) (p : HPath) (hp : H.get p = some .dir) :
    ∃ H', osMkdirAll H p = some H' ∧ H'.WF ∧ H'.get = H.get := by
  obtain ⟨H', h1, h2, h3⟩ := osMkdirAll_ok h p (FS.mkdirOk_of_dir (Host.wf_treeLike h) hp)
  exact ⟨H', h1, h2, by rw [h3, FS.mkdirSt_of_dir (Host.wf_treeLike h) hp]⟩

/-- `MkdirAll` of an absent path whose parent is a directory creates exactly that directory -/
theorem osMkdirAll_leaf {H : Host} (h : H.WF) (p : HPath) (hne : p ≠ [])
    (hpar : H.get p.dropLast = some .dir) (habs : H.get p = none) :
    ∃ H', osMkdirAll H p = some H' ∧ H'.WF ∧ H'.get = fun q => if q = p then some .dir else H.get q := by
  have hT := Host.wf_treeLike h
  obtain ⟨init, n, rfl⟩ : ∃ init n, p = init ++ [n] :=
    ⟨p.dropLast, p.getLast hne, (List.dropLast_concat_getLast hne).symm⟩
  rw [List.dropLast_concat] at hpar
  have hok : FS.mkdirOk H.get (init ++ [n]) :=
    FS.mkdirOk_concat.mpr ⟨FS.mkdirOk_of_dir hT hpar, fun d => by rw [habs]; intro hc; cases hc⟩
  obtain ⟨H', h1, h2, h3⟩ := osMkdirAll_ok h _ hok
  refine ⟨H', h1, h2, ?_⟩
  rw [h3, FS.mkdirSt_concat, FS.mkdirSt_of_dir hT hpar]

/-! ### opening for writing, writing -/

theorem osOpenTrunc_ok {H : Host} (h : H.WF) (p : HPath) (hne : p ≠ [])
    (hpar : H.get p.dropLast = some .dir) (hnd : H.get p ≠ some .dir) :
    osOpenTrunc H ⟨p, false⟩ = some (H.put p (.file [])) ∧ (H.put p (.file [])).WF := by
  refine ⟨?_, Host.wf_put h hne hpar (fun hc => absurd hc hnd)⟩
  simp only [osOpenTrunc, hne, hpar]
  cases hg : H.get p with
  | none => simp
  | some e =>
    cases e with
    | dir => exact absurd hg hnd
    | file d => simp

theorem osAppend_ok {H : Host} (h : H.WF) (p : HPath) (hne : p ≠ []) (d c : Bytes)
    (hf : H.get p = some (.file d)) :
    osAppend H p c = some (H.put p (.file (d ++ c))) ∧ (H.put p (.file (d ++ c))).WF := by
  refine ⟨by simp [osAppend, hf], ?_⟩
  exact Host.wf_put h hne (Host.parent_dir h hne (by simp [hf])) (fun hc => by rw [hf] at hc; cases hc)

theorem osAppendAll_ok {H : Host} (h : H.WF) (p : HPath) (hne : p ≠ []) (d : Bytes) (cs : List Bytes)
    (hf : H.get p = some (.file d)) :
    ∃ H', osAppendAll H p cs = some H' ∧ H'.WF
      ∧ H'.get = fun q => if q = p then some (.file (d ++ cs.flatten)) else H.get q := by
  induction cs generalizing H d with
  | nil =>
    refine ⟨H, rfl, h, ?_⟩
    funext q
    by_cases hq : q = p
    · simp [hq, hf]
    · simp [hq]
  | cons c cs ih =>
    obtain ⟨h1, hwf1⟩ := osAppend_ok h p hne d c hf
    simp only [osAppendAll, h1]
    have hf1 : (H.put p (.file (d ++ c))).get p = some (.file (d ++ c)) := by
      rw [Host.get_put _ _ _ hne]; simp
    obtain ⟨H', h2, hwf2, hget2⟩ := ih hwf1 (d ++ c) hf1
    refine ⟨H', h2, hwf2, ?_⟩
    rw [hget2]
    funext q
    by_cases hq : q = p
    · simp [hq, List.append_assoc]
    · simp [hq, Host.get_put _ _ _ hne]

/-! ### `disk.CopyFile` -/

/-- a file copied to an absent destination whose parent directory exists -/
theorem copyFile_ok {H : Host} (h : H.WF) (src dst : HPath) (x : Bytes) (hs : H.get src = some (.file x))
    (hne : dst ≠ []) (hpar : H.get dst.dropLast = some .dir) (habs : H.get dst = none) :
    ∃ H', copyFile H ⟨src, false⟩ ⟨dst, false⟩ = (H', true) ∧ H'.WF
      ∧ H'.get = fun q => if q = dst then some (.file x) else H.get q := by
  have hsd : src ≠ dst := by intro hc; rw [hc, habs] at hs; cases hs
  obtain ⟨ho, hwf1⟩ := osOpenTrunc_ok h dst hne hpar (by rw [habs]; intro hc; cases hc)
  have hs1 : (H.put dst (.file [])).get src = some (.file x) := by
    rw [Host.get_put _ _ _ hne]; simp [hsd, hs]
  have hd1 : (H.put dst (.file [])).get dst = some (.file []) := by
    rw [Host.get_put _ _ _ hne]; simp
  obtain ⟨ha, hwf2⟩ := osAppend_ok hwf1 dst hne [] x hd1
  refine ⟨_, ?_, hwf2, ?_⟩
  · simp only [copyFile, osStat, hs, ho, hs1, ha]
    rfl
  · funext q
    rw [Host.get_put _ _ _ hne, Host.get_put _ _ _ hne]
    by_cases hq : q = dst <;> simp [hq]

end DiskFS
end Goat
