/-
Helper lemmas for the handle histories of `Goat/Model/EncHandles.lean` (property C05, family `hist`):
a step that does not address handle `h` leaves the object behind `h` untouched.
-/
import Goat.Model.EncHandles
import Goat.Proofs.Encrypt

namespace Goat.Enc

theorem lookup_filter_ne {α : Type} (h h' : Nat) (hne : h ≠ h') (l : List (Nat × α)) :
    (l.filter (fun e => e.1 != h')).lookup h = l.lookup h := by
  induction l with
  | nil => rfl
  | cons e rest ih =>
    obtain ⟨k, v⟩ := e
    by_cases hk : k = h'
    · subst hk
      have hkh : (h == k) = false := by simpa using hne
      simp [List.filter, List.lookup, hkh, ih]
    · have : (k != h') = true := by simpa using hk
      simp only [List.filter, this, List.lookup]
      cases h == k <;> simp [ih]

theorem handle_setHandle_ne (s : HState) (h h' : Nat) (x : Handle) (hne : h ≠ h') :
    (s.setHandle h' x).handle h = s.handle h := by
  have hb : (h == h') = false := by simpa using hne
  simp [HState.setHandle, HState.handle, List.lookup, hb, lookup_filter_ne h h' hne]

theorem handle_setHandle_self (s : HState) (h : Nat) (x : Handle) :
    (s.setHandle h x).handle h = some x := by
  simp [HState.setHandle, HState.handle]

theorem handle_setFile (s : HState) (h f : Nat) (d : Bytes) : (s.setFile f d).handle h = s.handle h := rfl

/-- one step that does not address `h` -/
theorem hstep_frame (c : Cipher) (kms : List Bytes) (ent : Bytes) (s s' : HState) (st : HStep) (o : HOut) (h : Nat)
    (hst : st.handle? ≠ some h) (hs : hstep c kms ent s st = some (s', o)) : s'.handle h = s.handle h := by
  cases st with
  | writeFile fs file pt =>
    simp only [hstep, bind, Option.bind] at hs
    split at hs
    · simp at hs
    · dsimp only at hs
      split at hs
      · simp at hs
      · split at hs <;> simp [pure] at hs <;> obtain ⟨rfl, _⟩ := hs <;> simp [handle_setFile]
  | readFile fs file =>
    simp only [hstep, bind, Option.bind] at hs
    split at hs
    · simp at hs
    · dsimp only at hs
      split at hs
      · simp at hs
      · split at hs
        · simp [pure] at hs; obtain ⟨rfl, _⟩ := hs; rfl
        · split at hs <;> simp [pure] at hs <;> obtain ⟨rfl, _⟩ := hs <;> rfl
  | openReader fs file h' =>
    have hne : h ≠ h' := fun e => hst (by simp [HStep.handle?, e])
    simp only [hstep, bind, Option.bind] at hs
    split at hs
    · simp at hs
    · dsimp only at hs
      split at hs
      · simp at hs
      · split at hs
        · simp at hs
        · split at hs
          · simp [pure] at hs; obtain ⟨rfl, _⟩ := hs; exact handle_setHandle_ne s h h' _ hne
          · split at hs <;> simp [pure] at hs <;> obtain ⟨rfl, _⟩ := hs <;> exact handle_setHandle_ne s h h' _ hne
  | read h' n =>
    have hne : h ≠ h' := fun e => hst (by simp [HStep.handle?, e])
    simp only [hstep] at hs
    split at hs
    · split at hs <;> simp at hs <;> obtain ⟨rfl, _⟩ := hs
      · exact handle_setHandle_ne s h h' _ hne
      · rfl
    · simp at hs; obtain ⟨rfl, _⟩ := hs; rfl
    · simp at hs
  | readAll h' =>
    have hne : h ≠ h' := fun e => hst (by simp [HStep.handle?, e])
    simp only [hstep] at hs
    split at hs <;> simp at hs <;> obtain ⟨rfl, _⟩ := hs
    · exact handle_setHandle_ne s h h' _ hne
    · rfl
  | closeReader h' =>
    have hne : h ≠ h' := fun e => hst (by simp [HStep.handle?, e])
    simp only [hstep] at hs
    split at hs <;> simp at hs <;> obtain ⟨rfl, _⟩ := hs
    · exact handle_setHandle_ne s h h' _ hne
    · rfl
  | openWriter fs file h' =>
    have hne : h ≠ h' := fun e => hst (by simp [HStep.handle?, e])
    simp only [hstep, bind, Option.bind] at hs
    split at hs
    · simp at hs
    · dsimp only at hs
      split at hs
      · simp at hs
      · split at hs
        · simp at hs
        · split at hs <;> simp [pure] at hs <;> obtain ⟨rfl, _⟩ := hs <;> exact handle_setHandle_ne s h h' _ hne
  | write h' p =>
    have hne : h ≠ h' := fun e => hst (by simp [HStep.handle?, e])
    simp only [hstep] at hs
    split at hs <;> simp at hs <;> obtain ⟨rfl, _⟩ := hs
    · exact handle_setHandle_ne s h h' _ hne
    · rfl
  | closeWriter h' =>
    have hne : h ≠ h' := fun e => hst (by simp [HStep.handle?, e])
    simp only [hstep] at hs
    split at hs
    · split at hs <;> simp at hs <;> obtain ⟨rfl, _⟩ := hs
      · simp [handle_setFile, handle_setHandle_ne s h h' _ hne]
      · exact handle_setHandle_ne s h h' _ hne
      · exact handle_setHandle_ne s h h' _ hne
    · simp at hs; obtain ⟨rfl, _⟩ := hs; rfl
    · simp at hs

/-- a whole history none of whose steps addresses `h` -/
theorem hrun_frame (c : Cipher) (kms : List Bytes) (ent : Bytes) (h : Nat) :
    ∀ (steps : List HStep) (s s' : HState) (outs : List HOut),
      (∀ st ∈ steps, st.handle? ≠ some h) → hrun c kms ent s steps = some (s', outs) → s'.handle h = s.handle h
  | [], s, s', outs, _, hr => by
    simp [hrun] at hr; obtain ⟨rfl, _⟩ := hr; rfl
  | st :: rest, s, s', outs, hall, hr => by
    simp only [hrun] at hr
    cases h1 : hstep c kms ent s st with
    | none => simp [h1] at hr
    | some p =>
      obtain ⟨s1, o⟩ := p
      simp only [h1] at hr
      cases h2 : hrun c kms ent s1 rest with
      | none => simp [h2] at hr
      | some q =>
        obtain ⟨s2, os⟩ := q
        simp only [h2] at hr
        simp at hr
        obtain ⟨rfl, _⟩ := hr
        have := hrun_frame c kms ent h rest s1 s2 os (fun st' hm => hall st' (List.mem_cons_of_mem _ hm)) h2
        rw [this]
        exact hstep_frame c kms ent s s1 st o h (hall st (List.mem_cons_self ..)) h1

/-- a history followed by one more step -/
theorem hrun_append_one (c : Cipher) (kms : List Bytes) (ent : Bytes) (steps : List HStep) (s s' s'' : HState)
    (outs : List HOut) (st : HStep) (o : HOut) (hr : hrun c kms ent s steps = some (s', outs))
    (hs : hstep c kms ent s' st = some (s'', o)) :
    hrun c kms ent s (steps ++ [st]) = some (s'', outs ++ [o]) := by
  induction steps generalizing s outs with
  | nil =>
    simp [hrun] at hr
    obtain ⟨rfl, rfl⟩ := hr
    simp [hrun, hs]
  | cons st1 rest ih =>
    simp only [hrun] at hr
    cases h1 : hstep c kms ent s st1 with
    | none => simp [h1] at hr
    | some p =>
      obtain ⟨s1, o1⟩ := p
      simp only [h1] at hr
      cases h2 : hrun c kms ent s1 rest with
      | none => simp [h2] at hr
      | some q =>
        obtain ⟨s2, os⟩ := q
        simp only [h2] at hr
        simp at hr
        obtain ⟨rfl, rfl⟩ := hr
        simp [hrun, h1, ih s1 os h2]

/-- opening a reader on a file that holds what `writeVia` stored: the reader object holds the content written -/
theorem openReader_on_written {c : Cipher} {ns : Nat} (hs : c.Sound) (hi : c.Invertible ns)
    (wp : Path2) (kms : List Bytes) (fs file h : Nat) (km ent ent' : Bytes) (chunks : List Bytes) (s : HState)
    (stored : Bytes) (hkm : kms[fs]? = some km) (hent : ns ≤ ent.length)
    (hw : c.writeVia wp km ent chunks = .ok stored) (hfile : s.file file = some stored)
    (hfree : s.busy file = false) (hfresh : s.handle h = none) :
    hstep c kms ent' s (.openReader fs file h) = some (s.setHandle h (.reader chunks.flatten), .ok) := by
  obtain ⟨st', cs, hw', hr, hc⟩ := roundtrip_of hs hi wp .stream km ent chunks [] hent
  rw [hw] at hw'
  cases hw'
  have hres := congrArg ReadOut.res hr
  simp only [Cipher.readVia] at hres
  cases hd : (c.decryptReader km { data := stored, bad := false, closed := false }).res with
  | ok d =>
    rw [hd] at hres
    simp [Res.bind, serve, Res.map] at hres
    subst hres
    simp [content] at hc
    simp [hstep, hkm, hfree, hfresh, hfile, hd, hc, bind, pure]
  | err e => rw [hd] at hres; simp [Res.bind] at hres
  | panic => rw [hd] at hres; simp [Res.bind] at hres

end Goat.Enc
