/-
Helper lemmas for property C05 (encrypted filespace).  The model is `Goat/Model/Encrypt.lean`; nothing
here changes a definition of the model.  The property statements are in `Goat/Props/C05.lean`.

Organisation: a cipher is `Sound` (total, reader = decrypt, writer = encrypt, source always closed; needs NO
law of the AEAD) and `Invertible` (decrypt ∘ encrypt = id; needs `AEAD.Lawful`).  Both are proved for the
raw cipher and shown to be preserved by the tag dispatch of `extcfs` for ANY mapping and default tag; the
four write/read path pairs then follow generically.
-/
import Goat.Model.Encrypt

namespace Goat.Enc

/-! ### Res -/

@[simp] theorem Res.map_ok {α β : Type} (f : α → β) (v : α) : (Res.ok v).map f = .ok (f v) := rfl
@[simp] theorem Res.map_err {α β : Type} (f : α → β) (k : ErrKind) : (Res.err k : Res α).map f = .err k := rfl
@[simp] theorem Res.map_panic {α β : Type} (f : α → β) : (Res.panic : Res α).map f = .panic := rfl
@[simp] theorem Res.bind_ok {α β : Type} (f : α → Res β) (v : α) : (Res.ok v).bind f = f v := rfl
@[simp] theorem Res.bind_err {α β : Type} (f : α → Res β) (k : ErrKind) : (Res.err k : Res α).bind f = .err k := rfl
@[simp] theorem Res.bind_panic {α β : Type} (f : α → Res β) : (Res.panic : Res α).bind f = .panic := rfl

theorem Res.map_map {α β γ : Type} (f : α → β) (g : β → γ) (r : Res α) : (r.map f).map g = r.map (g ∘ f) := by
  cases r <;> rfl

theorem Res.map_ne_panic {α β : Type} {f : α → β} {r : Res α} (h : r ≠ .panic) : r.map f ≠ .panic := by
  cases r <;> simp_all [Res.map]

theorem Res.map_eq_ok {α β : Type} {f : α → β} {r : Res α} {w : β} (h : r.map f = .ok w) :
    ∃ v, r = .ok v ∧ f v = w := by
  cases r with
  | ok v => exact ⟨v, rfl, by simpa [Res.map] using h⟩
  | err k => simp [Res.map] at h
  | panic => simp [Res.map] at h

/-! ### Slices -/

theorem sliceTo_ok {d : Bytes} {n : Nat} (h : n ≤ d.length) : sliceTo d n = some (d.take n) := by
  simp [sliceTo, h]

theorem sliceFrom_ok {d : Bytes} {n : Nat} (h : n ≤ d.length) : sliceFrom d n = some (d.drop n) := by
  simp [sliceFrom, h]

/-! ### The decrypting reader serves exactly its content, whatever the buffer sizes -/

theorem readerRead_ok (data : Bytes) (n : Nat) :
    readerRead data n
      = .ok (data.take (min n data.length), (data.drop (min n data.length)).isEmpty,
             data.drop (min n data.length)) := by
  unfold readerRead
  simp only []
  rw [sliceFrom_ok (Nat.min_le_right _ _)]

theorem serve_ok : ∀ (sizes : List Nat) (data : Bytes),
    ∃ cs rest, serve data sizes = .ok (cs, rest) ∧ content cs ++ rest = data
  | [], data => ⟨[], data, rfl, by simp [content]⟩
  | n :: ns, data => by
    obtain ⟨cs, rest, h1, h2⟩ := serve_ok ns (data.drop (min n data.length))
    refine ⟨(data.take (min n data.length), (data.drop (min n data.length)).isEmpty) :: cs, rest, ?_, ?_⟩
    · simp only [serve, readerRead_ok, h1]
    · simp only [content, List.map_cons, List.flatten_cons, List.append_assoc] at h2 ⊢
      rw [h2, List.take_append_drop]

/-- what a successful read of content `d` delivers -/
def deliver (rp : Path2) (d : Bytes) (sizes : List Nat) : Res (List (Bytes × Bool)) :=
  match rp with
  | .whole => .ok [(d, true)]
  | .stream => (serve d sizes).map fun (cs, rest) => cs ++ [(rest, true)]

theorem deliver_ok (rp : Path2) (d : Bytes) (sizes : List Nat) :
    ∃ cs, deliver rp d sizes = .ok cs ∧ content cs = d := by
  cases rp with
  | whole => exact ⟨[(d, true)], rfl, by simp [content]⟩
  | stream =>
    obtain ⟨cs, rest, h1, h2⟩ := serve_ok sizes d
    refine ⟨cs ++ [(rest, true)], by simp [deliver, h1], ?_⟩
    simpa [content] using h2

/-! ### The toy AEAD is lawful -/

theorem toyAEAD_lawful : toyAEAD.Lawful where
  open_seal := by
    intro k n p _
    have hl : (p ++ toyTag k n p).length - 4 = p.length := by simp [toyTag]
    have h4 : ¬ (p ++ toyTag k n p).length < 4 := by simp [toyTag]
    show (if (p ++ toyTag k n p).length < 4 then none else
          if (p ++ toyTag k n p).drop ((p ++ toyTag k n p).length - 4)
              = toyTag k n ((p ++ toyTag k n p).take ((p ++ toyTag k n p).length - 4))
          then some ((p ++ toyTag k n p).take ((p ++ toyTag k n p).length - 4)) else none) = some p
    rw [if_neg h4, hl, List.take_left', List.drop_left']
    · simp
    · rfl
    · rfl
  len_seal := by
    intro k n p
    show (p ++ toyTag k n p).length = p.length + 4
    simp [toyTag]

/-! ### Cipher tags -/

theorem tagBytes_length (t : UInt32) : (tagBytes t).length = 4 := rfl

theorem tagOf_tagBytes_append (t : UInt32) (x : Bytes) : tagOf (tagBytes t ++ x) = some t := by
  have hlt : t.toNat < 4294967296 := t.toNat_lt
  simp only [tagBytes, List.cons_append, List.nil_append, tagOf, UInt8.toNat_ofNat']
  congr 1
  have e : t.toNat % 256 % 256 + 256 * (t.toNat / 256 % 256 % 256) + 65536 * (t.toNat / 65536 % 256 % 256)
      + 16777216 * (t.toNat / 16777216 % 256 % 256) = t.toNat := by omega
  rw [e]
  exact UInt32.ofNat_toNat

theorem tagOf_tagBytes (t : UInt32) : tagOf (tagBytes t) = some t := by
  simpa using tagOf_tagBytes_append t []

theorem tagOf_of_length {p : Bytes} (h : 4 ≤ p.length) : ∃ t, tagOf p = some t := by
  match p, h with
  | a :: b :: c :: d :: _, _ => exact ⟨_, rfl⟩

/-! ### Soundness and invertibility of a cipher -/

/-- No law of the AEAD is needed for any of these. -/
structure Cipher.Sound (c : Cipher) : Prop where
  dec_total : ∀ km d, c.decrypt km d ≠ .panic
  enc_total : ∀ km ent pt, c.encrypt km ent pt ≠ .panic
  reader_closed : ∀ km s, (c.decryptReader km s).src.closed = true
  reader_eq : ∀ km s, s.bad = false → (c.decryptReader km s).res = c.decrypt km s.data
  reader_bad : ∀ km s, s.bad = true → ∃ e, (c.decryptReader km s).res = .err e
  writer_eq : ∀ (km : Bytes) (sink : Sink) (ent : Bytes) (chunks : List Bytes), ∃ w, c.encryptWriter km sink = .ok w ∧
    c.closeWriter (chunks.foldl WriterSt.write w) ent
      = (c.encrypt km ent chunks.flatten).map (fun st => ({ data := sink.data ++ st, closed := true } : Sink))

structure Cipher.Invertible (c : Cipher) (ns : Nat) : Prop where
  enc_ok : ∀ km ent pt, ns ≤ ent.length → ∃ st, c.encrypt km ent pt = .ok st
  dec_enc : ∀ km ent pt st, c.encrypt km ent pt = .ok st → c.decrypt km st = .ok pt

theorem foldl_write (chunks : List Bytes) (w : WriterSt) :
    chunks.foldl WriterSt.write w = { w with buf := w.buf ++ chunks.flatten } := by
  induction chunks generalizing w with
  | nil => simp
  | cons c cs ih => simp [ih, WriterSt.write, List.append_assoc]

/-! #### the raw cipher -/

theorem aesEncrypt_shape (a : AEAD) (H : Bytes → Bytes) (km ent pt : Bytes) (h : a.nonceSize ≤ ent.length) :
    aesEncrypt a H km ent pt
      = .ok (ent.take a.nonceSize ++ a.seal (H km) (ent.take a.nonceSize) pt) := by
  have hl : (ent.take a.nonceSize).length = a.nonceSize := by simp [List.length_take, Nat.min_eq_left h]
  simp [aesEncrypt, Nat.not_lt.mpr h, AEAD.sealGo, hl]

theorem aesEncrypt_ne_panic (a : AEAD) (H : Bytes → Bytes) (km ent pt : Bytes) :
    aesEncrypt a H km ent pt ≠ .panic := by
  by_cases h : a.nonceSize ≤ ent.length
  · rw [aesEncrypt_shape a H km ent pt h]; exact fun h => by cases h
  · simp [aesEncrypt, Nat.lt_of_not_le h]

/-- With the guard, `Decrypt` is: too short → error; otherwise exactly one call of `open` on the split. -/
theorem aesDecrypt_fixed (a : AEAD) (H : Bytes → Bytes) (km data : Bytes) :
    aesDecrypt Rev.fixed a H km data
      = if data.length < a.nonceSize then .err .short
        else ofOpen (a.open (H km) (data.take a.nonceSize) (data.drop a.nonceSize)) := by
  by_cases h : data.length < a.nonceSize
  · simp [aesDecrypt, Rev.fixed, h]
  · have hle : a.nonceSize ≤ data.length := Nat.le_of_not_lt h
    have hl : (data.take a.nonceSize).length = a.nonceSize := by simp [List.length_take, Nat.min_eq_left hle]
    simp only [aesDecrypt, Rev.fixed, h, decide_false, Bool.and_false, Bool.false_eq_true, if_false,
      sliceTo_ok hle, sliceFrom_ok hle, AEAD.openGo, hl, if_true]

theorem aesDecrypt_frame (a : AEAD) (H : Bytes → Bytes) (km n c : Bytes) (hn : n.length = a.nonceSize) :
    aesDecrypt Rev.fixed a H km (n ++ c)
      = ofOpen (a.open (H km) n c) := by
  rw [aesDecrypt_fixed]
  have h : ¬ (n ++ c).length < a.nonceSize := by simp [hn]
  rw [if_neg h, ← hn, List.take_left', List.drop_left'] <;> rfl

theorem aes_sound (a : AEAD) (H : Bytes → Bytes) : (aesCipher Rev.fixed a H).Sound where
  dec_total := by
    intro km d
    show aesDecrypt Rev.fixed a H km d ≠ .panic
    rw [aesDecrypt_fixed]
    split
    · exact fun h => by cases h
    · cases a.open (H km) (d.take a.nonceSize) (d.drop a.nonceSize) <;> exact fun h => by cases h
  enc_total := fun km ent pt => aesEncrypt_ne_panic a H km ent pt
  reader_closed := by
    intro km s
    show (aesNewReader Rev.fixed a H km s).src.closed = true
    unfold aesNewReader Src.readAll
    by_cases hb : s.bad = true <;> simp [hb, Rev.fixed, Src.close]
  reader_eq := by
    intro km s hb
    show (aesNewReader Rev.fixed a H km s).res = aesDecrypt Rev.fixed a H km s.data
    simp [aesNewReader, Src.readAll, hb]
  reader_bad := by
    intro km s hb
    refine ⟨.io, ?_⟩
    show (aesNewReader Rev.fixed a H km s).res = .err .io
    simp [aesNewReader, Src.readAll, hb]
  writer_eq := by
    intro km sink ent chunks
    refine ⟨aesNewWriter km sink, rfl, ?_⟩
    show aesCloseWriter a H (chunks.foldl WriterSt.write (aesNewWriter km sink)) ent = _
    rw [foldl_write]
    simp [aesCloseWriter, aesNewWriter, aesCipher, Sink.write, Sink.close]

theorem aes_invertible (a : AEAD) (hl : a.Lawful) (H : Bytes → Bytes) :
    (aesCipher Rev.fixed a H).Invertible a.nonceSize where
  enc_ok := fun km ent pt h => ⟨_, aesEncrypt_shape a H km ent pt h⟩
  dec_enc := by
    intro km ent pt st h
    change aesEncrypt a H km ent pt = .ok st at h
    show aesDecrypt Rev.fixed a H km st = .ok pt
    by_cases hle : a.nonceSize ≤ ent.length
    · rw [aesEncrypt_shape a H km ent pt hle] at h
      injection h with h
      subst h
      have hn : (ent.take a.nonceSize).length = a.nonceSize := by
        simp [List.length_take, Nat.min_eq_left hle]
      rw [aesDecrypt_frame a H km _ _ hn, hl.open_seal _ _ _ hn]; rfl
    · simp [aesEncrypt, Nat.lt_of_not_le hle] at h

/-! #### the tag dispatch, for any mapping -/

section ext
variable {dflt : UInt32} {d : Cipher} {mapping : List (UInt32 × Cipher)}

theorem ext_decrypt_fixed (km data : Bytes) :
    (extCipherOf Rev.fixed dflt d mapping).decrypt km data
      = if data.length < 4 then .err .short
        else match tagOf (data.take 4) with
          | none => .panic
          | some t =>
            match lookupTag t mapping with
            | none => .err .unknownTag
            | some c => c.decrypt km (data.drop 4) := by
  by_cases h : data.length < 4
  · simp [extCipherOf, Rev.fixed, h]
  · have hle : 4 ≤ data.length := Nat.le_of_not_lt h
    simp only [extCipherOf, Rev.fixed, h, decide_false, Bool.and_false, Bool.false_eq_true, if_false,
      sliceTo_ok hle, sliceFrom_ok hle]
    cases tagOf (data.take 4) with
    | none => rfl
    | some t => cases lookupTag t mapping <;> rfl

/-- a known tag in front: the rest goes to that cipher -/
theorem ext_decrypt_tag (km x : Bytes) (t : UInt32) :
    (extCipherOf Rev.fixed dflt d mapping).decrypt km (tagBytes t ++ x)
      = match lookupTag t mapping with
        | none => .err .unknownTag
        | some c => c.decrypt km x := by
  rw [ext_decrypt_fixed]
  have h : ¬ (tagBytes t ++ x).length < 4 := by simp [tagBytes_length]
  have e1 : (tagBytes t ++ x).take 4 = tagBytes t := List.take_left' (tagBytes_length t)
  have e2 : (tagBytes t ++ x).drop 4 = x := List.drop_left' (tagBytes_length t)
  rw [if_neg h, e1, e2, tagOf_tagBytes]

theorem ext_reader_fixed (km : Bytes) (s : Src) :
    (extCipherOf Rev.fixed dflt d mapping).decryptReader km s
      = if s.data.length < 4 then
          { res := .err (if s.bad then .io else .short), src := { s with data := [], closed := true } }
        else match tagOf (s.data.take 4) with
          | none => { res := .panic, src := { s with data := s.data.drop 4 } }
          | some t =>
            match lookupTag t mapping with
            | none => { res := .err .unknownTag, src := { s with data := s.data.drop 4, closed := true } }
            | some c => c.decryptReader km { s with data := s.data.drop 4 } := by
  by_cases h : s.data.length < 4
  · have : ¬ 4 ≤ s.data.length := Nat.not_le.mpr h
    simp [extCipherOf, Src.readFull, this, h, Rev.fixed, Src.close]
  · have hle : 4 ≤ s.data.length := Nat.le_of_not_lt h
    simp only [extCipherOf, Src.readFull, hle, if_true, h, if_false, Rev.fixed, Src.close]
    cases tagOf (s.data.take 4) with
    | none => rfl
    | some t => cases lookupTag t mapping <;> rfl

theorem ext_sound (hd : d.Sound) (hm : ∀ t c, lookupTag t mapping = some c → c.Sound) :
    (extCipherOf Rev.fixed dflt d mapping).Sound where
  dec_total := by
    intro km data
    rw [ext_decrypt_fixed]
    split
    · exact fun h => by cases h
    · rename_i hlen
      obtain ⟨t, ht⟩ := tagOf_of_length (p := data.take 4)
        (by simp [List.length_take]; omega)
      rw [ht]; dsimp only
      cases hc : lookupTag t mapping with
      | none => exact fun h => by cases h
      | some c => exact (hm t c hc).dec_total _ _
  enc_total := by
    intro km ent pt
    exact Res.map_ne_panic (hd.enc_total km ent pt)
  reader_closed := by
    intro km s
    rw [ext_reader_fixed]
    split
    · rfl
    · rename_i hlen
      obtain ⟨t, ht⟩ := tagOf_of_length (p := s.data.take 4)
        (by simp [List.length_take]; omega)
      rw [ht]; dsimp only
      cases hc : lookupTag t mapping with
      | none => rfl
      | some c => exact (hm t c hc).reader_closed _ _
  reader_eq := by
    intro km s hb
    rw [ext_reader_fixed, ext_decrypt_fixed]
    split
    · simp [hb]
    · cases tagOf (s.data.take 4) with
      | none => rfl
      | some t =>
        dsimp only
        cases hc : lookupTag t mapping with
        | none => rfl
        | some c => exact (hm t c hc).reader_eq km _ hb
  reader_bad := by
    intro km s hb
    rw [ext_reader_fixed]
    split
    · exact ⟨_, rfl⟩
    · rename_i hlen
      obtain ⟨t, ht⟩ := tagOf_of_length (p := s.data.take 4)
        (by simp [List.length_take]; omega)
      rw [ht]; dsimp only
      cases hc : lookupTag t mapping with
      | none => exact ⟨_, rfl⟩
      | some c => exact (hm t c hc).reader_bad km _ hb
  writer_eq := by
    intro km sink ent chunks
    obtain ⟨w, h1, h2⟩ := hd.writer_eq km (sink.write (tagBytes dflt)) ent chunks
    refine ⟨w, h1, ?_⟩
    show d.closeWriter (chunks.foldl WriterSt.write w) ent
      = ((d.encrypt km ent chunks.flatten).map (fun c => tagBytes dflt ++ c)).map _
    rw [h2, Res.map_map]
    congr 1
    funext st
    simp [Sink.write, List.append_assoc]

theorem ext_invertible {ns : Nat} (hl : lookupTag dflt mapping = some d) (hd : d.Invertible ns) :
    (extCipherOf Rev.fixed dflt d mapping).Invertible ns where
  enc_ok := by
    intro km ent pt h
    obtain ⟨st, hst⟩ := hd.enc_ok km ent pt h
    exact ⟨tagBytes dflt ++ st, by show (d.encrypt km ent pt).map _ = _; rw [hst]; rfl⟩
  dec_enc := by
    intro km ent pt st h
    change (d.encrypt km ent pt).map (fun c => tagBytes dflt ++ c) = .ok st at h
    obtain ⟨st', h1, h2⟩ := Res.map_eq_ok h
    subst h2
    rw [ext_decrypt_tag, hl]
    exact hd.dec_enc km ent pt st' h1

end ext

/-! #### the two ciphers of the code base -/

theorem lookup_std (a : AEAD) (H : Bytes → Bytes) (t : UInt32) (c : Cipher)
    (h : lookupTag t (stdMapping Rev.fixed a H) = some c) : t = 0 ∧ c = aesCipher Rev.fixed a H := by
  simp only [stdMapping, lookupTag] at h
  split at h
  · rename_i h0; injection h with h; exact ⟨h0.symm, h.symm⟩
  · cases h

theorem lookup_std_zero (a : AEAD) (H : Bytes → Bytes) :
    lookupTag 0 (stdMapping Rev.fixed a H) = some (aesCipher Rev.fixed a H) := by
  simp [stdMapping, lookupTag]

theorem extCipher_std (a : AEAD) (H : Bytes → Bytes) :
    extCipher Rev.fixed 0 (stdMapping Rev.fixed a H) = some (mkCipher a H .tagged) := by
  simp [extCipher, lookup_std_zero, mkCipher, mkCipherRev]

theorem mk_sound (a : AEAD) (H : Bytes → Bytes) (k : Kind) : (mkCipher a H k).Sound := by
  cases k with
  | raw => exact aes_sound a H
  | tagged =>
    refine ext_sound (aes_sound a H) ?_
    intro t c h
    rw [(lookup_std a H t c h).2]
    exact aes_sound a H

theorem mk_invertible (a : AEAD) (hl : a.Lawful) (H : Bytes → Bytes) (k : Kind) :
    (mkCipher a H k).Invertible a.nonceSize := by
  cases k with
  | raw => exact aes_invertible a hl H
  | tagged => exact ext_invertible (lookup_std_zero a H) (aes_invertible a hl H)

/-! ### Generic consequences: the four path pairs -/

/-- the stream writer stores what the whole-file write stores -/
theorem writeVia_eq {c : Cipher} (hs : c.Sound) (wp : Path2) (km ent : Bytes) (chunks : List Bytes) :
    c.writeVia wp km ent chunks = c.encrypt km ent chunks.flatten := by
  cases wp with
  | whole => rfl
  | stream =>
    obtain ⟨w, h1, h2⟩ := hs.writer_eq km { data := [], closed := false } ent chunks
    simp only [Cipher.writeVia, h1, Res.bind_ok, h2, Res.map_map]
    cases c.encrypt km ent chunks.flatten <;> simp [Res.map]

/-- a read through either path is the whole-file decrypt followed by delivery, and never leaks -/
theorem readVia_eq {c : Cipher} (hs : c.Sound) (rp : Path2) (km stored : Bytes) (sizes : List Nat) :
    c.readVia rp km stored false sizes
      = { res := (c.decrypt km stored).bind fun d => deliver rp d sizes, leak := false } := by
  cases rp with
  | whole =>
    simp only [Cipher.readVia, deliver]
    cases c.decrypt km stored <;> rfl
  | stream =>
    have h1 := hs.reader_eq km { data := stored, bad := false, closed := false } rfl
    have h2 := hs.reader_closed km { data := stored, bad := false, closed := false }
    simp only [Cipher.readVia, h1, Opened.leak, h2, deliver]
    rfl

theorem readVia_total {c : Cipher} (hs : c.Sound) (rp : Path2) (km stored : Bytes) (bad : Bool)
    (sizes : List Nat) :
    (c.readVia rp km stored bad sizes).res ≠ .panic ∧ (c.readVia rp km stored bad sizes).leak = false := by
  cases bad with
  | false =>
    rw [readVia_eq hs]
    refine ⟨?_, rfl⟩
    have := hs.dec_total km stored
    cases hd : c.decrypt km stored with
    | ok d =>
      obtain ⟨cs, h, _⟩ := deliver_ok rp d sizes
      simp [h]
    | err k => simp
    | panic => exact absurd hd this
  | true =>
    cases rp with
    | whole =>
      refine ⟨?_, rfl⟩
      exact Res.map_ne_panic (hs.dec_total km stored)
    | stream =>
      obtain ⟨e, he⟩ := hs.reader_bad km { data := stored, bad := true, closed := false } rfl
      have h2 := hs.reader_closed km { data := stored, bad := true, closed := false }
      simp [Cipher.readVia, he, Opened.leak, h2]

theorem roundtrip_of {c : Cipher} {ns : Nat} (hs : c.Sound) (hi : c.Invertible ns)
    (wp rp : Path2) (km ent : Bytes) (chunks : List Bytes) (sizes : List Nat) (hent : ns ≤ ent.length) :
    ∃ stored cs, c.writeVia wp km ent chunks = .ok stored ∧
      c.readVia rp km stored false sizes = { res := .ok cs, leak := false } ∧
      content cs = chunks.flatten := by
  obtain ⟨st, hst⟩ := hi.enc_ok km ent chunks.flatten hent
  obtain ⟨cs, hcs, hcont⟩ := deliver_ok rp chunks.flatten sizes
  refine ⟨st, cs, by rw [writeVia_eq hs, hst], ?_, hcont⟩
  rw [readVia_eq hs, hi.dec_enc km ent _ st hst, Res.bind_ok, hcs]

/-! ### Shape of the stored bytes -/

theorem encrypt_shape (a : AEAD) (H : Bytes → Bytes) (k : Kind) (km ent pt : Bytes)
    (h : a.nonceSize ≤ ent.length) :
    (mkCipher a H k).encrypt km ent pt
      = .ok (k.header ++ (ent.take a.nonceSize ++ a.seal (H km) (ent.take a.nonceSize) pt)) := by
  cases k with
  | raw => exact aesEncrypt_shape a H km ent pt h
  | tagged =>
    show (aesEncrypt a H km ent pt).map _ = _
    rw [aesEncrypt_shape a H km ent pt h]
    rfl

theorem write_shape (a : AEAD) (H : Bytes → Bytes) (k : Kind) (wp : Path2) (km ent : Bytes)
    (chunks : List Bytes) (h : a.nonceSize ≤ ent.length) :
    (mkCipher a H k).writeVia wp km ent chunks
      = .ok (k.header ++ (ent.take a.nonceSize ++ a.seal (H km) (ent.take a.nonceSize) chunks.flatten)) := by
  rw [writeVia_eq (mk_sound a H k), encrypt_shape a H k km ent _ h]

/-- what a stored file of the expected shape decrypts to: one call of `open` -/
theorem decrypt_frame (a : AEAD) (H : Bytes → Bytes) (k : Kind) (km n c : Bytes) (hn : n.length = a.nonceSize) :
    (mkCipher a H k).decrypt km (k.header ++ (n ++ c))
      = ofOpen (a.open (H km) n c) := by
  cases k with
  | raw => exact aesDecrypt_frame a H km n c hn
  | tagged =>
    show (extCipherOf Rev.fixed 0 _ _).decrypt km (tagBytes 0 ++ (n ++ c)) = _
    rw [ext_decrypt_tag, lookup_std_zero]
    exact aesDecrypt_frame a H km n c hn

theorem read_frame (a : AEAD) (H : Bytes → Bytes) (k : Kind) (rp : Path2) (km n c : Bytes)
    (sizes : List Nat) (hn : n.length = a.nonceSize) :
    (mkCipher a H k).readVia rp km (k.header ++ (n ++ c)) false sizes
      = { res := (ofOpen (a.open (H km) n c)).bind fun p => deliver rp p sizes,
          leak := false } := by
  rw [readVia_eq (mk_sound a H k), decrypt_frame a H k km n c hn]

theorem take_length_of_le {n : Nat} {l : Bytes} (h : n ≤ l.length) : (l.take n).length = n := by
  simp [List.length_take, Nat.min_eq_left h]

/-- stored bytes shorter than header + nonce are answered with an error by `Decrypt` -/
theorem decrypt_short (a : AEAD) (H : Bytes → Bytes) (k : Kind) (km data : Bytes)
    (h : data.length < k.header.length + a.nonceSize) :
    ∃ e, (mkCipher a H k).decrypt km data = .err e := by
  cases k with
  | raw =>
    have h' : data.length < a.nonceSize := by simpa [Kind.header] using h
    exact ⟨.short, by show aesDecrypt Rev.fixed a H km data = _; rw [aesDecrypt_fixed, if_pos h']⟩
  | tagged =>
    have h' : data.length < 4 + a.nonceSize := by simpa [Kind.header, tagBytes_length] using h
    show ∃ e, (extCipherOf Rev.fixed 0 _ _).decrypt km data = .err e
    rw [ext_decrypt_fixed]
    by_cases h4 : data.length < 4
    · exact ⟨.short, by rw [if_pos h4]⟩
    · rw [if_neg h4]
      obtain ⟨t, ht⟩ := tagOf_of_length (p := data.take 4) (by simp [List.length_take]; omega)
      rw [ht]; dsimp only
      cases hc : lookupTag t (stdMapping Rev.fixed a H) with
      | none => exact ⟨_, rfl⟩
      | some c =>
        rw [(lookup_std a H t c hc).2]
        refine ⟨.short, ?_⟩
        show aesDecrypt Rev.fixed a H km (data.drop 4) = _
        rw [aesDecrypt_fixed, if_pos (by simp [List.length_drop]; omega)]

/-- a tag that is not registered is answered with an error -/
theorem decrypt_unknown_tag (a : AEAD) (H : Bytes → Bytes) (km x : Bytes) (t : UInt32) (ht : t ≠ 0) :
    (mkCipher a H .tagged).decrypt km (tagBytes t ++ x) = .err .unknownTag := by
  show (extCipherOf Rev.fixed 0 _ _).decrypt km (tagBytes t ++ x) = _
  rw [ext_decrypt_tag]
  have : lookupTag t (stdMapping Rev.fixed a H) = none := by
    simp [stdMapping, lookupTag, Ne.symm ht]
  rw [this]

/-! ### The pinned base really has the two defects (the `panic` and `leak` outcomes are reachable) -/

theorem pinned_aes_panics :
    aesDecrypt Rev.pinned toyAEAD id [] [1, 2, 3, 4, 5] = .panic := by decide

theorem pinned_ext_panics :
    (mkCipherRev Rev.pinned toyAEAD id .tagged).decrypt [] [0, 0] = .panic := by decide

theorem pinned_ext_reader_leaks :
    ((mkCipherRev Rev.pinned toyAEAD id .tagged).decryptReader [] { data := [], bad := false, closed := false }).leak
      = true := by decide

end Goat.Enc
