/-
Helper lemmas for property C05, part 2: the `EncryptFS` layer (key material, delegation to the underlying
filespace) on top of the cipher lemmas of `Goat/Proofs/Encrypt.lean`.
-/
import Goat.Proofs.Encrypt

namespace Goat.Enc

variable {β σ ρ : Type}

/-- the one law assumed of the underlying filespace: what was stored under a path is what is loaded from it
(property C01/C02/C04 territory; a hypothesis here) -/
def BaseOps.LoadStore (O : BaseOps β σ ρ) : Prop :=
  ∀ b p d s s', O.store b p d s = some s' → O.load b p s' = some d

/-- Two encrypted filespaces over the same base with the same cipher and EQUAL KEY MATERIAL (in particular:
equal settings) — what one writes through either path the other reads through either path. -/
theorem fs_roundtrip (O : BaseOps β σ ρ) (hO : O.LoadStore) {c : Cipher} {ns : Nat}
    (hs : c.Sound) (hi : c.Invertible ns) (host : Bytes) (base : β) (set₁ set₂ : Settings)
    (hkm : keyMaterial host set₁ = keyMaterial host set₂)
    (wp rp : Path2) (p ent : Bytes) (chunks : List Bytes) (sizes : List Nat) (s : σ)
    (hent : ns ≤ ent.length) (hacc : ∀ d, ∃ s', O.store base p d s = some s') :
    ∃ s' cs, (newEncryptFS host base set₁ c).write O wp p ent chunks s = .ok s' ∧
      (newEncryptFS host base set₂ c).read O rp p sizes s' = { res := .ok cs, leak := false } ∧
      content cs = chunks.flatten := by
  obtain ⟨stored, cs, hw, hr, hc⟩ := roundtrip_of hs hi wp rp (keyMaterial host set₁) ent chunks sizes hent
  obtain ⟨s', hs'⟩ := hacc stored
  refine ⟨s', cs, ?_, ?_, hc⟩
  · simp [EncFS.write, newEncryptFS, hw, hs']
  · simp [EncFS.read, newEncryptFS, hO _ _ _ _ _ hs', ← hkm, hr]

/-- a read through the filespace never panics and never leaves the source handle open -/
theorem fs_read_total (O : BaseOps β σ ρ) {c : Cipher} (hs : c.Sound) (fs : EncFS β) (hc : fs.cipher = c)
    (rp : Path2) (p : Bytes) (sizes : List Nat) (s : σ) :
    (fs.read O rp p sizes s).res ≠ .panic ∧ (fs.read O rp p sizes s).leak = false := by
  unfold EncFS.read
  cases O.load fs.base p s with
  | none => exact ⟨(fun h => by cases h), rfl⟩
  | some stored => subst hc; exact readVia_total hs rp fs.hash stored false sizes

/-- the byte strings behind the known finding: `"st"`, `""`, `"s"`, `"t"` -/
def kfA : Settings := { secret := [115, 116], salt := [], hostOnly := false }
def kfB : Settings := { secret := [115], salt := [116], hostOnly := false }

theorem kf_settings_differ : kfA ≠ kfB := by decide

theorem kf_same_material (host : Bytes) : keyMaterial host kfA = keyMaterial host kfB := rfl

theorem append_left_ne {h x y : Bytes} (hne : x ≠ y) : h ++ x ≠ h ++ y :=
  fun e => hne (List.append_cancel_left e)

theorem nonce_prefix_ne {n₁ n₂ c₁ c₂ : Bytes} (hl : n₁.length = n₂.length) (hne : n₁ ≠ n₂) :
    n₁ ++ c₁ ≠ n₂ ++ c₂ :=
  fun e => hne (List.append_inj e hl).1

end Goat.Enc
