/-
Helper lemmas for property C18 (Goat/Props/C18.lean) about Goat/Model/EnvScript.lean.
Core Lean only.
-/
import Goat.Model.EnvScript

namespace Goat.EnvScript

/-! ### the property's vocabulary -/

/-- a plain identifier in the sense of the property: a letter, then letters or underscores -/
def Ident (k : Bytes) : Prop :=
  ∃ b rest, k = b :: rest ∧ isAlpha b = true ∧ ∀ c ∈ rest, isAlphaU c = true

/-- the language of `^[a-zA-Z]+([_a-zA-Z]+)?$`, read off the expression -/
def RegexLang (k : Bytes) : Prop :=
  ∃ a r, k = a ++ r ∧ a ≠ [] ∧ (∀ b ∈ a, isAlpha b = true) ∧ (∀ b ∈ r, isAlphaU b = true)

/-- a here-document delimiter the builders can produce: non-empty, letters/digits/underscore -/
def TagOk (tag : Bytes) : Prop := tag ≠ [] ∧ ∀ b ∈ tag, isNameChar b = true

/-- keys as they come out of `Environments` (every one passed `Set`), minus the two names whose
assignment changes how the shell itself runs the script -/
def ValidKeys (envs : Env) : Prop := ∀ kv ∈ envs, Ident kv.1 ∧ kv.1 ∉ reserved

/-- "the tag is not a line of the value" -/
def TagFree (tag : Bytes) (envs : Env) : Prop := ∀ kv ∈ envs, tag ∉ splitLines kv.2

def NoNul (envs : Env) : Prop := ∀ kv ∈ envs, (0 : Byte) ∉ kv.2

/-- the defect class of KF-C18-1 is avoided: dash keeps every line of every value -/
def DashSafe (tag : Bytes) (envs : Env) : Prop := ∀ kv ∈ envs, ∀ l ∈ splitLines kv.2, dashLine tag l = l

/-! ### character classes -/

theorem isAlpha_isAlphaU {b : Byte} (h : isAlpha b = true) : isAlphaU b = true := by
  simp [isAlphaU, h]

theorem isAlphaU_isNameChar {b : Byte} (h : isAlphaU b = true) : isNameChar b = true := by
  simp only [isAlphaU, Bool.or_eq_true] at h
  simp only [isNameChar, Bool.or_eq_true]
  cases h with
  | inl h => exact Or.inl (Or.inl h)
  | inr h => exact Or.inr h

theorem isAlpha_not_digit {b : Byte} (h : isAlpha b = true) : isDigit b = false := by
  simp only [isAlpha, isDigit, Bool.or_eq_true, Bool.and_eq_true, decide_eq_true_eq] at *
  rcases h with ⟨h1, _⟩ | ⟨h1, _⟩
  · have : ¬ (b ≤ 57) := by
      intro h3
      have := UInt8.le_trans h1 h3
      exact absurd this (by decide)
    simp [this]
  · have : ¬ (b ≤ 57) := by
      intro h3
      have := UInt8.le_trans h1 h3
      exact absurd this (by decide)
    simp [this]

theorem not_mem_of_all {p : Byte → Bool} {l : Bytes} {c : Byte}
    (h : ∀ b ∈ l, p b = true) (hc : p c = false) : c ∉ l := by
  intro hm
  have := h c hm
  rw [hc] at this
  cases this

/-! ### names -/

theorem takeWhile_append_stop {p : Byte → Bool} {k : Bytes} {c : Byte} {r : Bytes}
    (h : ∀ b ∈ k, p b = true) (hc : p c = false) : (k ++ c :: r).takeWhile p = k := by
  rw [List.takeWhile_append_of_pos h]
  simp [List.takeWhile, hc]

theorem dropWhile_append_stop {p : Byte → Bool} {k : Bytes} {c : Byte} {r : Bytes}
    (h : ∀ b ∈ k, p b = true) (hc : p c = false) : (k ++ c :: r).dropWhile p = c :: r := by
  rw [List.dropWhile_append_of_pos h]
  simp [List.dropWhile, hc]

theorem takeWhile_all {p : Byte → Bool} {k : Bytes} (h : ∀ b ∈ k, p b = true) : k.takeWhile p = k := by
  have := List.takeWhile_append_of_pos (l₂ := []) h
  simpa using this

theorem dropWhile_all {p : Byte → Bool} {k : Bytes} (h : ∀ b ∈ k, p b = true) : k.dropWhile p = [] := by
  have := List.dropWhile_append_of_pos (l₂ := []) h
  simpa using this

theorem takeWhile_append_dropWhile' (p : Byte → Bool) (l : Bytes) : l.takeWhile p ++ l.dropWhile p = l :=
  List.takeWhile_append_dropWhile

theorem mem_takeWhile_imp {p : Byte → Bool} {l : Bytes} {b : Byte} (h : b ∈ l.takeWhile p) : p b = true := by
  induction l with
  | nil => simp at h
  | cons a l ih =>
    simp only [List.takeWhile] at h
    split at h
    · rename_i hp
      simp only [List.mem_cons] at h
      cases h with
      | inl h => rw [h]; exact hp
      | inr h => exact ih h
    · simp at h

theorem regexLang_iff_ident (k : Bytes) : RegexLang k ↔ Ident k := by
  constructor
  · rintro ⟨a, r, rfl, hne, ha, hr⟩
    cases a with
    | nil => exact absurd rfl hne
    | cons b a' =>
      refine ⟨b, a' ++ r, rfl, ha b (by simp), ?_⟩
      intro c hc
      simp only [List.mem_append] at hc
      cases hc with
      | inl h => exact isAlpha_isAlphaU (ha c (by simp [h]))
      | inr h => exact hr c h
  · rintro ⟨b, rest, rfl, hb, hrest⟩
    exact ⟨[b], rest, rfl, by simp, by simpa using hb, hrest⟩

theorem nameOk_iff_ident (k : Bytes) : nameOk k = true ↔ Ident k := by
  unfold nameOk
  simp only [Bool.and_eq_true, Bool.not_eq_true', Bool.or_eq_true, List.all_eq_true]
  constructor
  · rintro ⟨hne, hr⟩
    have hk := takeWhile_append_dropWhile' isAlpha k
    cases hta : k.takeWhile isAlpha with
    | nil => rw [hta] at hne; simp at hne
    | cons b a' =>
      have hall : ∀ c ∈ k.takeWhile isAlpha, isAlpha c = true := fun c hc => mem_takeWhile_imp hc
      have hrest : ∀ c ∈ k.dropWhile isAlpha, isAlphaU c = true := by
        cases hr with
        | inl h =>
          have : k.dropWhile isAlpha = [] := by simpa using h
          rw [this]; simp
        | inr h => exact h
      refine ⟨b, a' ++ k.dropWhile isAlpha, ?_, hall b (by rw [hta]; simp), ?_⟩
      · have hk' := hk
        rw [hta] at hk'
        simpa using hk'.symm
      · intro c hc
        simp only [List.mem_append] at hc
        cases hc with
        | inl h => exact isAlpha_isAlphaU (hall c (by rw [hta]; simp [h]))
        | inr h => exact hrest c h
  · rintro ⟨b, rest, rfl, hb, hrest⟩
    constructor
    · simp [List.takeWhile, hb]
    · right
      intro c hc
      have hmem : c ∈ b :: rest := by
        have := takeWhile_append_dropWhile' isAlpha (b :: rest)
        rw [← this]
        exact List.mem_append_right _ hc
      simp only [List.mem_cons] at hmem
      cases hmem with
      | inl h => rw [h]; exact isAlpha_isAlphaU hb
      | inr h => exact hrest c h

theorem ident_all_nameChar {k : Bytes} (h : Ident k) : ∀ b ∈ k, isNameChar b = true := by
  obtain ⟨b, rest, rfl, hb, hrest⟩ := h
  intro c hc
  simp only [List.mem_cons] at hc
  cases hc with
  | inl h => rw [h]; exact isAlphaU_isNameChar (isAlpha_isAlphaU hb)
  | inr h => exact isAlphaU_isNameChar (hrest c h)

theorem ident_isShellName {k : Bytes} (h : Ident k) : isShellName k = true := by
  have hall := ident_all_nameChar h
  obtain ⟨b, rest, rfl, hb, _⟩ := h
  simp only [isShellName, Bool.and_eq_true, Bool.not_eq_true', List.all_eq_true]
  exact ⟨isAlpha_not_digit hb, hall⟩

theorem ident_ne_nil {k : Bytes} (h : Ident k) : k ≠ [] := by
  obtain ⟨b, rest, rfl, _, _⟩ := h
  simp

/-! ### lines -/

theorem splitLines_ne_nil (s : Bytes) : splitLines s ≠ [] := by
  cases s with
  | nil => simp [splitLines]
  | cons b rest =>
    simp only [splitLines]
    split <;> simp

theorem splitLines_append_nl (a rest : Bytes) :
    splitLines (a ++ nl :: rest) = splitLines a ++ splitLines rest := by
  induction a with
  | nil => simp [splitLines]
  | cons b a ih =>
    simp only [List.cons_append, splitLines, ih]
    have hne := splitLines_ne_nil a
    cases hs : splitLines a with
    | nil => exact absurd hs hne
    | cons l ls =>
      split <;> simp

theorem splitLines_no_nl {l : Bytes} (h : nl ∉ l) : splitLines l = [l] := by
  induction l with
  | nil => simp [splitLines]
  | cons b l ih =>
    have hb : b ≠ nl := fun e => h (by simp [e])
    have hl : nl ∉ l := fun m => h (by simp [m])
    simp [splitLines, ih hl, hb]

theorem splitLines_line {l : Bytes} (h : nl ∉ l) (rest : Bytes) :
    splitLines (l ++ nl :: rest) = l :: splitLines rest := by
  rw [splitLines_append_nl, splitLines_no_nl h]
  rfl

theorem catLines_splitLines (v : Bytes) : catLines (splitLines v) = v ++ [nl] := by
  induction v with
  | nil => simp [splitLines, catLines]
  | cons b v ih =>
    have hne := splitLines_ne_nil v
    simp only [splitLines]
    cases hs : splitLines v with
    | nil => exact absurd hs hne
    | cons l ls =>
      rw [hs] at ih
      simp only [catLines] at ih
      split
      · rename_i hb
        simp only [catLines, List.nil_append, ih, hb, List.cons_append]
      · simp only [List.headD_cons, List.tail_cons, catLines, List.cons_append, ih]

theorem joinLines_splitLines (s : Bytes) : joinLines (splitLines s) = s := by
  induction s with
  | nil => simp [splitLines, joinLines]
  | cons b s ih =>
    have hne := splitLines_ne_nil s
    simp only [splitLines]
    cases hs : splitLines s with
    | nil => exact absurd hs hne
    | cons l ls =>
      rw [hs] at ih
      split
      · rename_i hb
        simp only [joinLines, List.nil_append, ih, hb]
      · cases ls with
        | nil =>
          simp only [joinLines] at ih
          simp [joinLines, ih]
        | cons l2 ls2 =>
          simp only [joinLines] at ih
          simp only [List.headD_cons, List.tail_cons, joinLines, List.cons_append, ih]

theorem strip_append_nl (v : Bytes) : stripTrailingNewlines (v ++ [nl]) = stripTrailingNewlines v := by
  simp [stripTrailingNewlines]

theorem strip_cat_split (v : Bytes) :
    stripTrailingNewlines (catLines (splitLines v)) = stripTrailingNewlines v := by
  rw [catLines_splitLines, strip_append_nl]

theorem strip_idem (v : Bytes) : stripTrailingNewlines (stripTrailingNewlines v) = stripTrailingNewlines v := by
  simp only [stripTrailingNewlines, List.reverse_reverse]
  congr 1
  induction v.reverse with
  | nil => simp
  | cons b l ih =>
    simp only [List.dropWhile]
    split
    · exact ih
    · rename_i hb
      simp [List.dropWhile, hb]

theorem mem_catLines {b : Byte} {ls : List Bytes} (h : b ∈ catLines ls) : b = nl ∨ ∃ l ∈ ls, b ∈ l := by
  induction ls with
  | nil => simp [catLines] at h
  | cons l ls ih =>
    simp only [catLines, List.mem_append, List.mem_cons] at h
    rcases h with h | h | h
    · exact Or.inr ⟨l, by simp, h⟩
    · exact Or.inl h
    · rcases ih h with h | ⟨l', hl', hb⟩
      · exact Or.inl h
      · exact Or.inr ⟨l', by simp [hl'], hb⟩

/-! ### classification of the lines the builders emit -/

theorem classify_blank : classify [] = .blank := by decide
theorem classify_setE : classify (setKw ++ space :: dashE) = .setE := by decide
theorem classify_setPlusX : classify (setKw ++ space :: plusX) = .setPlusX := by decide

theorem dropPrefix?_append (p r : Bytes) : dropPrefix? p (p ++ r) = some r := by
  induction p with
  | nil => cases r <;> simp [dropPrefix?]
  | cons a p ih => simp [dropPrefix?, ih]

theorem classify_exportLine {k : Bytes} (hk : isShellName k = true) :
    classify (exportLine k) = .export k := by
  have h1 : (exportLine k).takeWhile isNameChar = exportKw := by
    unfold exportLine
    exact takeWhile_append_stop (by decide) (by decide)
  have h2 : (exportLine k).dropWhile isNameChar = space :: k := by
    unfold exportLine
    exact dropWhile_append_stop (by decide) (by decide)
  unfold classify
  simp only [h1, h2]
  have : exportKw ≠ setKw := by decide
  simp [this, hk]

theorem classify_assignLine {k tag : Bytes} (hk : Ident k) (ht : TagOk tag) :
    classify (assignLine k tag) = .assign k tag true := by
  have hkn := ident_all_nameChar hk
  have h1 : (assignLine k tag).takeWhile isNameChar = k := by
    unfold assignLine assignMid
    exact takeWhile_append_stop hkn (by decide)
  have h2 : (assignLine k tag).dropWhile isNameChar
      = eqSign :: ([36, 40, 99, 97, 116, 32, 60, 60] ++ (squote :: (tag ++ [squote]))) := by
    unfold assignLine assignMid
    exact dropWhile_append_stop hkn (by decide)
  have h3 : (tag ++ [squote]).takeWhile isNameChar = tag := takeWhile_append_stop ht.2 (by decide)
  have h4 : (tag ++ [squote]).dropWhile isNameChar = [squote] := dropWhile_append_stop ht.2 (by decide)
  unfold classify
  simp only [h1, h2]
  have e1 : eqSign ≠ space := by decide
  simp only [e1, if_false, if_true, ident_isShellName hk, dropPrefix?_append, h3, h4]
  have : tag.isEmpty = false := by
    cases tag with
    | nil => exact absurd rfl ht.1
    | cons _ _ => rfl
  simp [this]

/-! ### no newline inside the emitted command lines -/

theorem ident_no_nl {k : Bytes} (h : Ident k) : nl ∉ k :=
  not_mem_of_all (ident_all_nameChar h) (by decide)

theorem tag_no_nl {tag : Bytes} (h : TagOk tag) : nl ∉ tag :=
  not_mem_of_all h.2 (by decide)

theorem assignLine_no_nl {k tag : Bytes} (hk : Ident k) (ht : TagOk tag) : nl ∉ assignLine k tag := by
  unfold assignLine assignMid
  simp only [List.mem_append, List.mem_cons, not_or]
  refine ⟨ident_no_nl hk, by decide, by decide, tag_no_nl ht, by decide, by simp⟩

theorem exportLine_no_nl {k : Bytes} (hk : Ident k) : nl ∉ exportLine k := by
  unfold exportLine
  simp only [List.mem_append, List.mem_cons, not_or]
  exact ⟨by decide, by decide, ident_no_nl hk⟩

/-- the lines of one variable block -/
theorem splitLines_varBlock {tag : Bytes} {kv : Bytes × Bytes} (hk : Ident kv.1) (ht : TagOk tag) (rest : Bytes) :
    splitLines (varBlock tag kv ++ rest)
      = assignLine kv.1 tag :: (splitLines kv.2 ++ (tag :: rparenLine :: exportLine kv.1 :: splitLines rest)) := by
  unfold varBlock
  simp only [List.append_assoc, List.cons_append, List.nil_append]
  rw [splitLines_line (assignLine_no_nl hk ht), splitLines_append_nl, splitLines_line (tag_no_nl ht),
    splitLines_line (by decide : nl ∉ rparenLine), splitLines_line (exportLine_no_nl hk)]

theorem splitLines_header (rest : Bytes) :
    splitLines (header ++ rest) = [] :: (setKw ++ space :: dashE) :: (setKw ++ space :: plusX) :: splitLines rest := by
  have : header ++ rest = [] ++ nl :: ((setKw ++ space :: dashE) ++ nl :: ((setKw ++ space :: plusX) ++ nl :: rest)) := by
    simp [header, setKw, dashE, plusX, nl, space]
  rw [this, splitLines_line (by simp), splitLines_line (by decide), splitLines_line (by decide)]

/-! ### the mini-shell on a variable block -/

theorem go_body (d : Dialect) (k tag : Bytes) (q : Bool) (st : State) (rest : List Bytes) :
    ∀ (ls acc : List Bytes), tag ∉ ls →
      go d (.body k tag q acc) st (ls ++ tag :: rest)
        = go d (.close k q (acc ++ ls.map (fixLine d tag))) st rest := by
  intro ls
  induction ls with
  | nil => intro acc _; simp [go]
  | cons l ls ih =>
    intro acc h
    have hl : l ≠ tag := fun e => h (by simp [e])
    have hls : tag ∉ ls := fun m => h (by simp [m])
    simp only [List.cons_append, go, hl, if_false]
    rw [ih _ hls]
    simp

theorem map_fixLine_posix (tag : Bytes) (ls : List Bytes) : ls.map (fixLine .posix tag) = ls := by
  induction ls with
  | nil => rfl
  | cons l ls ih => simp only [List.map, fixLine, ih]

theorem map_fixLine_safe (d : Dialect) (tag : Bytes) (ls : List Bytes) (h : ∀ l ∈ ls, dashLine tag l = l) :
    ls.map (fixLine d tag) = ls := by
  induction ls with
  | nil => rfl
  | cons l ls ih =>
    have h1 := h l (by simp)
    have h2 := ih (fun l' hl' => h l' (by simp [hl']))
    cases d with
    | posix => simp [fixLine, map_fixLine_posix]
    | dash => simp only [List.map, fixLine, h1, h2]

theorem heredocValue_quoted {v : Bytes} (st : State) (h0 : (0 : Byte) ∉ v) :
    heredocValue st true (splitLines v) = some (stripTrailingNewlines v) := by
  have hmem : (0 : Byte) ∉ catLines (splitLines v) := by
    rw [catLines_splitLines]
    simp only [List.mem_append, List.mem_cons, List.not_mem_nil, or_false, not_or]
    exact ⟨h0, by decide⟩
  simp [heredocValue, hmem, strip_cat_split]

/-- one variable block, in any dialect that keeps the value's lines, is exactly the state change
`deliver`; whatever follows is interpreted afterwards. -/
theorem go_varBlock (d : Dialect) {tag : Bytes} {kv : Bytes × Bytes} (st : State) (rest : Bytes)
    (hk : Ident kv.1) (hr : kv.1 ∉ reserved) (ht : TagOk tag) (hfree : tag ∉ splitLines kv.2)
    (h0 : (0 : Byte) ∉ kv.2) (hsafe : d = .posix ∨ ∀ l ∈ splitLines kv.2, dashLine tag l = l) :
    go d .normal st (splitLines (varBlock tag kv ++ rest)) = go d .normal (st.deliver kv) (splitLines rest) := by
  rw [splitLines_varBlock hk ht]
  have hfix : (splitLines kv.2).map (fixLine d tag) = splitLines kv.2 := by
    cases hsafe with
    | inl h => rw [h]; exact map_fixLine_posix _ _
    | inr h => exact map_fixLine_safe d tag _ h
  have hres : reserved.contains kv.1 = false := by
    simpa using hr
  simp only [go, classify_assignLine hk ht]
  rw [go_body d _ _ _ _ _ _ _ hfree]
  simp only [List.nil_append, hfix, go, if_true, hres, heredocValue_quoted st h0,
    classify_exportLine (ident_isShellName hk)]
  rfl

theorem go_blocks (d : Dialect) {tag : Bytes} (ht : TagOk tag) :
    ∀ (envs : Env) (st : State) (rest : Bytes), ValidKeys envs → TagFree tag envs → NoNul envs →
      (d = .posix ∨ DashSafe tag envs) →
      go d .normal st (splitLines (blocks tag envs ++ rest))
        = go d .normal (st.deliverAll envs) (splitLines rest) := by
  intro envs
  induction envs with
  | nil => intro st rest _ _ _ _; simp [blocks, State.deliverAll]
  | cons kv envs ih =>
    intro st rest hv hf h0 hs
    have hv1 := hv kv (by simp)
    simp only [blocks, List.append_assoc, State.deliverAll]
    rw [go_varBlock d st _ hv1.1 hv1.2 ht (hf kv (by simp)) (h0 kv (by simp))
      (hs.elim Or.inl (fun h => Or.inr (h kv (by simp))))]
    exact ih _ _ (fun x hx => hv x (by simp [hx])) (fun x hx => hf x (by simp [hx]))
      (fun x hx => h0 x (by simp [hx])) (hs.elim Or.inl (fun h => Or.inr (fun x hx => h x (by simp [hx]))))

theorem go_header (d : Dialect) (st : State) (rest : Bytes) :
    go d .normal st (splitLines (header ++ rest)) = go d .normal st.afterHeader (splitLines rest) := by
  rw [splitLines_header]
  simp only [go, classify_blank, classify_setE, classify_setPlusX]
  rfl

/-- both builders: header, blocks, then anything -/
theorem sh_prefix (d : Dialect) {tag : Bytes} (envs : Env) (st : State) (rest : Bytes)
    (ht : TagOk tag) (hv : ValidKeys envs) (hf : TagFree tag envs) (h0 : NoNul envs)
    (hs : d = .posix ∨ DashSafe tag envs) :
    sh d st (header ++ (blocks tag envs ++ rest)) = sh d (st.afterHeader.deliverAll envs) rest := by
  unfold sh
  rw [go_header, go_blocks d ht envs _ _ hv hf h0 hs]

/-! ### the state after delivery -/

theorem get_assign_same (st : State) (k v : Bytes) : (st.assign k v).get k = some v := by
  simp [State.get, State.assign]

theorem find?_filter_ne (l : Env) (k k' : Bytes) (h : k' ≠ k) :
    (l.filter (fun kv => kv.1 != k)).find? (fun kv => kv.1 == k') = l.find? (fun kv => kv.1 == k') := by
  induction l with
  | nil => rfl
  | cons a l ih =>
    by_cases ha : a.1 = k
    · have h1 : (a.1 != k) = false := by simp [ha]
      have h2 : (a.1 == k') = false := by
        simp only [beq_eq_false_iff_ne, ne_eq, ha]
        exact fun e => h e.symm
      simp only [List.filter, h1, List.find?, h2]
      exact ih
    · have h1 : (a.1 != k) = true := by simp [ha]
      simp only [List.filter, h1, List.find?]
      split
      · rfl
      · exact ih

theorem get_assign_other (st : State) (k k' v : Bytes) (h : k' ≠ k) : (st.assign k v).get k' = st.get k' := by
  have h2 : ((k, v).1 == k') = false := by
    simp only [beq_eq_false_iff_ne, ne_eq]
    exact fun e => h e.symm
  simp only [State.get, State.assign, List.find?, h2]
  rw [find?_filter_ne _ _ _ h]

theorem get_export (st : State) (k k' : Bytes) : (st.export k).get k' = st.get k' := by
  simp [State.get, State.export]

theorem exported_export_self (st : State) (k : Bytes) : (st.export k).exported.contains k = true := by
  simp only [State.export]
  split
  · assumption
  · simp

theorem exported_export_mono (st : State) (k k' : Bytes) (h : st.exported.contains k' = true) :
    (st.export k).exported.contains k' = true := by
  simp only [State.export]
  split
  · exact h
  · simp only [List.contains_eq_mem, List.mem_cons, decide_eq_true_eq] at h ⊢
    exact Or.inr h

theorem exported_export_other (st : State) (k k' : Bytes) (h : k' ≠ k) :
    (st.export k).exported.contains k' = st.exported.contains k' := by
  simp only [State.export]
  split
  · rfl
  · simp [h]

theorem exported_assign (st : State) (k v : Bytes) : (st.assign k v).exported = st.exported := rfl

theorem deliver_get_same (st : State) (kv : Bytes × Bytes) :
    (st.deliver kv).get kv.1 = some (stripTrailingNewlines kv.2) := by
  simp [State.deliver, get_export, get_assign_same]

theorem deliver_get_other (st : State) (kv : Bytes × Bytes) (k' : Bytes) (h : k' ≠ kv.1) :
    (st.deliver kv).get k' = st.get k' := by
  simp [State.deliver, get_export, get_assign_other _ _ _ _ h]

theorem deliver_exported_other (st : State) (kv : Bytes × Bytes) (k' : Bytes) (h : k' ≠ kv.1) :
    (st.deliver kv).exported.contains k' = st.exported.contains k' := by
  simp only [State.deliver]
  rw [exported_export_other _ _ _ h, exported_assign]

theorem deliver_exported_self (st : State) (kv : Bytes × Bytes) :
    (st.deliver kv).exported.contains kv.1 = true := by
  simp only [State.deliver]
  exact exported_export_self _ _

theorem deliverAll_get_other (envs : Env) : ∀ (st : State) (k' : Bytes), (∀ kv ∈ envs, kv.1 ≠ k') →
    (st.deliverAll envs).get k' = st.get k' ∧
    (st.deliverAll envs).exported.contains k' = st.exported.contains k' := by
  induction envs with
  | nil => intro st k' _; exact ⟨rfl, rfl⟩
  | cons kv envs ih =>
    intro st k' h
    have h1 : k' ≠ kv.1 := fun e => h kv (by simp) e.symm
    have := ih (st.deliver kv) k' (fun x hx => h x (by simp [hx]))
    simp only [State.deliverAll]
    rw [this.1, this.2, deliver_get_other _ _ _ h1, deliver_exported_other _ _ _ h1]
    exact ⟨rfl, rfl⟩

/-- with pairwise distinct keys, every variable ends up exported with exactly its own value -/
theorem deliverAll_environ (envs : Env) : ∀ (st : State), (envs.map (·.1)).Nodup →
    ∀ kv ∈ envs, (st.deliverAll envs).environ kv.1 = some (stripTrailingNewlines kv.2) := by
  induction envs with
  | nil => intro _ _ kv h; simp at h
  | cons a envs ih =>
    intro st hnd kv hkv
    simp only [List.map, List.nodup_cons] at hnd
    simp only [State.deliverAll]
    simp only [List.mem_cons] at hkv
    cases hkv with
    | inl h =>
      subst h
      have hne : ∀ x ∈ envs, x.1 ≠ kv.1 := by
        intro x hx e
        exact hnd.1 (by rw [← e]; exact List.mem_map_of_mem hx)
      have := deliverAll_get_other envs (st.deliver kv) kv.1 hne
      simp only [State.environ, this.1, this.2, deliver_exported_self, deliver_get_same, if_true]
    | inr h => exact ih _ hnd.2 kv h

/-! ### the dash defect class -/

theorem dashLineAux_ascii : ∀ (l t : Bytes) (m : Bool), (∀ b ∈ l, b < 128) → dashLineAux l t m = l := by
  intro l
  induction l with
  | nil => intro t m _; cases t <;> rfl
  | cons c r ih =>
    intro t m h
    have hc : ¬ (c ≥ 128) := by
      have := h c (by simp)
      exact UInt8.not_le.mpr this
    have hr : ∀ b ∈ r, b < 128 := fun b hb => h b (by simp [hb])
    cases t with
    | nil => simp [dashLineAux, hc]
    | cons t ts =>
      simp only [dashLineAux]
      split
      · rw [ih _ _ hr]
      · simp [hc]

/-- a value line of ASCII bytes only is outside the defect class -/
theorem dashLine_ascii (tag l : Bytes) (h : ∀ b ∈ l, b < 128) : dashLine tag l = l :=
  dashLineAux_ascii l tag false h

/-- a line that does not start with the first byte of the tag is outside the defect class -/
theorem dashLine_head_ne (tag l : Bytes) (h : l.head? ≠ tag.head? ∨ tag = []) : dashLine tag l = l := by
  unfold dashLine
  cases l with
  | nil => cases tag <;> rfl
  | cons c r =>
    cases tag with
    | nil => simp [dashLineAux]
    | cons t ts =>
      have : c ≠ t := by
        cases h with
        | inl h => intro e; apply h; simp [e]
        | inr h => cases h
      simp [dashLineAux, this]

end Goat.EnvScript
