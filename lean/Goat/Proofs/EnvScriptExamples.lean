/-
Concrete witnesses used by Goat/Props/C18.lean: a non-trivial environment that satisfies the
hypotheses of the C18 theorems (non-vacuity), and the counterexamples for the old SSH builder
and for the dash dialect.  Core Lean only.
-/
import Goat.Proofs.EnvScript

namespace Goat.EnvScript

/-- `EOFABCDEFGHIJ` -/
def exTag : Bytes := goTag [65, 66, 67, 68, 69, 70, 71, 72, 73, 74]

/-- `env -0` -/
def exEntry : Bytes := [101, 110, 118, 32, 45, 48]

/-- `A` = ``$HOME `id` "q" 'r' \`` newline `)` newline `EOF` newline newline ;  `B_c` = `$(rm -rf /)` -/
def exEnvs : Env :=
  [ ([65], [36, 72, 79, 77, 69, 32, 96, 105, 100, 96, 32, 34, 113, 34, 32, 39, 114, 39, 32, 92, 10, 41, 10, 69, 79, 70, 10, 10]),
    ([66, 95, 99], [36, 40, 114, 109, 32, 45, 114, 102, 32, 47, 41]) ]

theorem exTag_ok : TagOk exTag := ⟨by decide, by decide⟩

theorem validKeys_of_nameOk {envs : Env}
    (h : ∀ kv ∈ envs, nameOk kv.1 = true ∧ kv.1 ∉ reserved) : ValidKeys envs :=
  fun kv hkv => ⟨(nameOk_iff_ident _).mp (h kv hkv).1, (h kv hkv).2⟩

theorem exEnvs_valid : ValidKeys exEnvs := validKeys_of_nameOk (by decide)
theorem exEnvs_tagFree : TagFree exTag exEnvs := by unfold TagFree; decide
theorem exEnvs_noNul : NoNul exEnvs := by unfold NoNul; decide
theorem exEnvs_nodup : (exEnvs.map (·.1)).Nodup := by decide
theorem exEnvs_dashSafe : DashSafe exTag exEnvs := by unfold DashSafe; decide

/-- `X=1`, `A=$X`: with the unquoted here-document of the old SSH builder `A` receives `1` -/
def oldEnvs : Env := [([88], [49]), ([65], [36, 88])]

theorem oldEnvs_valid : ValidKeys oldEnvs := validKeys_of_nameOk (by decide)
theorem oldEnvs_tagFree : TagFree exTag oldEnvs := by unfold TagFree; decide
theorem oldEnvs_noNul : NoNul oldEnvs := by unfold NoNul; decide

/-- `A` = `E` followed by U+00E9 in UTF-8: dash 0.5.12 loses the byte 0xC3 (KF-C18-1) -/
def dashEnvs : Env := [([65], [69, 195, 169])]

theorem dashEnvs_valid : ValidKeys dashEnvs := validKeys_of_nameOk (by decide)
theorem dashEnvs_tagFree : TagFree exTag dashEnvs := by unfold TagFree; decide
theorem dashEnvs_noNul : NoNul dashEnvs := by unfold NoNul; decide

end Goat.EnvScript
