/-
Proofs/LoopCor — consequences of the fsloop invariant (`LoopInv`), in the form used by
`Goat/Props/C08.lean`.
-/
import Goat.Proofs.LoopInv

namespace Goat.Loop
open Goat.LTS

def AllExited (s : St) : Prop := ∀ pc ∈ s.cons, pc = PC.exited

theorem allExited_of_wait {P : Params} {prog : List PAct} {n : Nat} {s : St} (hI : Inv P prog n s)
    (hw : waitEnabled s) : AllExited s := by
  intro pc hpc
  have h0 : lsum liveW s.cons = 0 := by rw [← hI.pool]; exact hw
  have := lsum_eq_zero liveW s.cons h0 pc hpc
  unfold liveW at this
  split at this
  · assumption
  · cases this

theorem wait_of_allExited {P : Params} {prog : List PAct} {n : Nat} {s : St} (hI : Inv P prog n s)
    (h : AllExited s) : waitEnabled s := by
  unfold waitEnabled
  rw [hI.pool]
  exact lsum_all_zero liveW s.cons (fun pc hpc => by rw [h pc hpc]; simp [liveW])

theorem lsum_allExited (f : PC → Nat) (hf : f .exited = 0) (l : List PC) (h : ∀ pc ∈ l, pc = PC.exited) :
    lsum f l = 0 :=
  lsum_all_zero f l (fun pc hpc => by rw [h pc hpc]; exact hf)

theorem inflight_allExited (l : List PC) (h : ∀ pc ∈ l, pc = PC.exited) : inflight l = [] := by
  induction l with
  | nil => rfl
  | cons a r ih =>
    have ha := h a (by simp)
    subst ha
    simp [inflight]
    exact ih (fun pc hpc => h pc (by simp [hpc]))

theorem reporting_allExited (l : List PC) (h : ∀ pc ∈ l, pc = PC.exited) : reporting l = [] := by
  induction l with
  | nil => rfl
  | cons a r ih =>
    have ha := h a (by simp)
    subst ha
    simp [reporting]
    exact ih (fun pc hpc => h pc (by simp [hpc]))

/-- every producer has signed off: nothing is left to send, to list or to report -/
theorem gone_of_ppool {P : Params} {prog : List PAct} {n : Nat} {s : St} (hI : Inv P prog n s)
    (h0 : s.ppool = 0) : ∀ pr ∈ s.prods, pr = Prod.gone := by
  intro pr hpr
  have := lsum_eq_zero liveP s.prods (by rw [← hI.ppool]; exact h0) pr hpr
  cases pr <;> simp [liveP] at this ⊢

theorem lsum_gone (f : Prod → Nat) (hf : f .gone = 0) (l : List Prod) (h : ∀ pr ∈ l, pr = Prod.gone) :
    lsum f l = 0 :=
  lsum_all_zero f l (fun pr hpr => by rw [h pr hpr]; exact hf)

theorem errorsOf_nil {s : St} : errorsOf s = [] ↔ s.errors = [] ∧ s.killed = false := by
  unfold errorsOf St.killed
  cases s.ctx <;> simp [Ctx.err, Ctx.dead]

theorem killed_iff_ctxerr {s : St} : s.killed = true ↔ s.ctx.err ≠ [] := by
  unfold St.killed
  cases s.ctx <;> simp [Ctx.err, Ctx.dead]

/-- when some consumer has left the loop without a kill, every producer has signed off and both
queues are empty -/
theorem drained_of_exit {P : Params} {prog : List PAct} {n : Nat} {s : St} (hI : Inv P prog n s)
    (hk : s.killed = false) {pc : PC} (hpc : pc ∈ s.cons) (he : pc = .exiting ∨ pc = .exited) :
    s.ppool = 0 ∧ s.qd = [] ∧ s.qf = [] ∧ s.closed = true := by
  have hg := hI.good pc hpc
  have : ExitOK s := by rcases he with rfl | rfl <;> exact hg
  rcases this with h | ⟨h1, h2, h3⟩
  · rw [hk] at h; cases h
  · exact ⟨closed_ppool hI.closer h3, h1, h2, h3⟩

theorem exists_cons {P : Params} {prog : List PAct} {n : Nat} {s : St} (hI : Inv P prog n s) (hn : 0 < n) :
    ∃ pc, pc ∈ s.cons := by
  have hl := hI.len
  cases hc : s.cons with
  | nil => rw [hc] at hl; simp at hl; omega
  | cons a r => exact ⟨a, by simp⟩

/-- `Wait` returned and `Errors()` is empty: the finished callbacks are exactly the sends of the program -/
theorem done_perm_of_wait {P : Params} {prog : List PAct} {n : Nat} {s : St} (hI : Inv P prog n s)
    (hn : 0 < n) (hw : waitEnabled s) (he : errorsOf s = []) : s.done.Perm (sendsL prog) := by
  have hall := allExited_of_wait hI hw
  have hk : s.killed = false := (errorsOf_nil.mp he).2
  obtain ⟨pc, hpc⟩ := exists_cons hI hn
  obtain ⟨h1, h2, h3, _⟩ := drained_of_exit hI hk hpc (Or.inr (hall pc hpc))
  rw [List.perm_iff_count]
  intro x
  have := hI.items x
  rw [lsum_gone (unsentC x) rfl s.prods (gone_of_ppool hI h1), hI.dropped hk,
    lsum_allExited (cbW x) (by simp [cbW]) s.cons hall] at this
  simp [qItems, h2, h3] at this
  exact this

/-- nothing is ever repeated (with or without errors, kills, timeouts) -/
theorem done_count_le {P : Params} {prog : List PAct} {n : Nat} {s : St} (hI : Inv P prog n s) (x : Item) :
    s.done.count x + (inflight s.cons).count x ≤ (sendsL prog).count x := by
  have := hI.items x
  rw [count_inflight]
  omega

theorem inflight_length_le {P : Params} {prog : List PAct} {n : Nat} {s : St} (hI : Inv P prog n s) :
    (inflight s.cons).length ≤ n := by
  rw [length_inflight, ← hI.len]
  apply lsum_le_length
  intro pc; cases pc <;> simp [anyCbW]

theorem inflight_exited_aux (l : List PC) :
    (inflight l).length + l.countP (fun pc => pc == .exiting || pc == .exited) ≤ l.length := by
  induction l with
  | nil => simp [inflight]
  | cons a r ih => cases a <;> simp [inflight, List.countP_cons] <;> omega

theorem inflight_exited_le {P : Params} {prog : List PAct} {n : Nat} {s : St} (hI : Inv P prog n s) :
    (inflight s.cons).length + s.cons.countP (fun pc => pc == .exiting || pc == .exited) ≤ n := by
  rw [← hI.len]; exact inflight_exited_aux s.cons

/-- when the program sends every item once, the finished and the running callbacks are pairwise distinct -/
theorem nodup_done_inflight {P : Params} {prog : List PAct} {n : Nat} {s : St} (hI : Inv P prog n s)
    (hnd : (sendsL prog).Nodup) : (s.done ++ inflight s.cons).Nodup := by
  rw [List.nodup_iff_count]
  intro x
  rw [List.count_append]
  have := done_count_le hI x
  have := List.nodup_iff_count.mp hnd x
  omega

/-- a listing that failed is in the error list, or its producer's very next action puts it there -/
theorem listing_recorded_or_reporting {P : Params} {prog : List PAct} {n : Nat} {s : St} (hI : Inv P prog n s)
    (p : Path) (hp : p ∈ s.lfailed) : Err.listing p ∈ s.errors ∨ p ∈ reportingP s.prods := by
  have h := hI.lrep p
  have hpos : 0 < s.lfailed.count p := List.count_pos_iff.mpr hp
  rw [← count_reportingP] at h
  by_cases he : 0 < s.errors.count (.listing p)
  · exact Or.inl (List.count_pos_iff.mp he)
  · exact Or.inr (List.count_pos_iff.mp (by omega))

/-- a producer that is about to report has not signed off -/
theorem ppool_of_reporting {P : Params} {prog : List PAct} {n : Nat} {s : St} (hI : Inv P prog n s)
    (p : Path) (hp : p ∈ reportingP s.prods) : s.ppool ≠ 0 := by
  have hpos : 0 < (reportingP s.prods).count p := List.count_pos_iff.mpr hp
  rw [count_reportingP] at hpos
  intro h0
  have := lsum_gone (lrepW p) rfl s.prods (gone_of_ppool hI h0)
  omega

/-! ### after `Wait` nothing happens to the callbacks any more -/

theorem prodStep_cons_done {P : Params} {s t : St} {j : Nat} (hs : prodStep P s j = some t) :
    t.cons = s.cons ∧ t.done = s.done := by
  unfold prodStep at hs
  split at hs
  · cases hs
  · cases hs
  · cases hs; exact ⟨rfl, rfl⟩
  · cases hs; exact ⟨rfl, rfl⟩
  · rename_i a rest _
    cases a with
    | send d p => cases d <;> simp only [prodAct] at hs <;> split at hs <;> cases hs <;> exact ⟨rfl, rfl⟩
    | list p sl ok k => cases ok <;> simp only [prodAct] at hs <;> cases hs <;> exact ⟨rfl, rfl⟩
    | filtD _ _ => simp only [prodAct] at hs; cases hs; exact ⟨rfl, rfl⟩
    | filtF _ _ => simp only [prodAct] at hs; cases hs; exact ⟨rfl, rfl⟩
    | add _ => simp only [prodAct] at hs; cases hs; exact ⟨rfl, rfl⟩
    | spawn _ _ => simp only [prodAct] at hs; cases hs; exact ⟨rfl, rfl⟩
    | chk _ => simp only [prodAct] at hs; split at hs <;> cases hs <;> exact ⟨rfl, rfl⟩

theorem closerStep_cons_done {s t : St} (hs : closerStep s = some t) :
    t.cons = s.cons ∧ t.done = s.done ∧ t.ctx = s.ctx ∧ t.qd = s.qd ∧ t.qf = s.qf ∧ t.prods = s.prods := by
  unfold closerStep at hs
  split at hs
  · split at hs
    · cases hs; simp
    · cases hs
  all_goals first | (cases hs; simp) | cases hs

theorem allExited_step {P : Params} {s t : St} (h : AllExited s) (l : Label) (hs : step P s l = some t) :
    AllExited t ∧ t.done = s.done := by
  cases l with
  | prod j =>
    have := prodStep_cons_done (P := P) hs
    exact ⟨by unfold AllExited; rw [this.1]; exact h, this.2⟩
  | closer =>
    have := closerStep_cons_done hs
    exact ⟨by unfold AllExited; rw [this.1]; exact h, this.2.1⟩
  | cons i =>
    simp only [step, consStep] at hs
    split at hs
    · cases hs
    · rename_i pc hpc
      have := h pc (List.mem_of_getElem? hpc)
      simp [this] at hs
  | kill => simp only [step] at hs; cases hs; exact ⟨h, rfl⟩
  | errEvent => simp only [step] at hs; cases hs; exact ⟨h, rfl⟩
  | timeout => simp only [step] at hs; cases hs; exact ⟨h, rfl⟩

theorem allExited_runFrom {P : Params} {prog : List PAct} {n : Nat} {s : St} (h : AllExited s)
    (sched : List Label) :
    AllExited ((sys P prog n).runFrom s sched) ∧ ((sys P prog n).runFrom s sched).done = s.done := by
  induction sched generalizing s with
  | nil => exact ⟨h, rfl⟩
  | cons l rest ih =>
    rw [runFrom_cons]
    unfold Sys.next
    cases hs : (sys P prog n).step s l with
    | none => exact ih h
    | some t =>
      have := allExited_step h l hs
      have r := ih this.1
      exact ⟨r.1, r.2.trans this.2⟩

/-! ### progress -/

/-- a consumer that has not executed `pool.Done()` can always move -/
theorem cons_enabled (P : Params) (s : St) (i : Nat) (pc : PC) (h : s.cons[i]? = some pc)
    (hne : pc ≠ .exited) : ∃ t, step P s (.cons i) = some t := by
  simp [step, consStep, h, hne]

theorem exists_index_of_mem {α : Type} {l : List α} {a : α} (h : a ∈ l) : ∃ i : Nat, l[i]? = some a := by
  exact List.mem_iff_getElem?.mp h

theorem exists_live_cons {s : St} (hall : ¬ AllExited s) : ∃ pc, pc ∈ s.cons ∧ pc ≠ PC.exited := by
  apply Classical.byContradiction
  intro hcon
  apply hall
  intro pc hpc
  apply Classical.byContradiction
  intro hne
  exact hcon ⟨pc, hpc, hne⟩

/-- without a kill, some goroutine of the loop can move until every goroutine has finished -/
theorem progress {P : Params} {prog : List PAct} {n : Nat} {s : St} (hI : Inv P prog n s) (hn : 0 < n)
    (hk : s.killed = false) (hnf : ¬ (AllExited s ∧ s.closer = .fin)) :
    ∃ l t, l.isProg = true ∧ step P s l = some t := by
  by_cases hall : AllExited s
  · -- all consumers gone: the close was announced, the closer still has channels to close
    obtain ⟨pc, hpc⟩ := exists_cons hI hn
    obtain ⟨h1, _, _, h4⟩ := drained_of_exit hI hk hpc (Or.inr (hall pc hpc))
    have hcl := hI.closer
    unfold CloserOK at hcl
    refine ⟨.closer, ?_⟩
    cases hc : s.closer <;> simp [hc, h4] at hcl
    · simp [step, closerStep, hc, Label.isProg]
    · simp [step, closerStep, hc, Label.isProg]
    · exact absurd ⟨hall, hc⟩ hnf
  · obtain ⟨pc, hpc, hne⟩ := exists_live_cons hall
    obtain ⟨i, hi⟩ := exists_index_of_mem hpc
    obtain ⟨t, ht⟩ := cons_enabled P s i pc hi hne
    exact ⟨.cons i, t, rfl, ht⟩

/-- without a kill, producers that have not signed off are never left without a consumer inside its loop -/
theorem consumer_remains {P : Params} {prog : List PAct} {n : Nat} {s : St} (hI : Inv P prog n s)
    (hk : s.killed = false) (hp : s.ppool ≠ 0) :
    ∀ pc ∈ s.cons, pc ≠ .exiting ∧ pc ≠ .exited := by
  intro pc hpc
  refine ⟨fun e => ?_, fun e => ?_⟩
  · exact hp (drained_of_exit hI hk hpc (Or.inl e)).1
  · exact hp (drained_of_exit hI hk hpc (Or.inr e)).1

/-! ### `Pool.Add` arithmetic: the number of consumers -/

theorem consumerCount_le (configured maxJob : Nat) : consumerCount configured maxJob ≤ maxJob := by
  simp only [consumerCount, poolAdd]
  split <;> omega

theorem consumerCount_eq (configured maxJob : Nat) (h1 : 1 ≤ configured) (h2 : configured ≤ maxJob) :
    consumerCount configured maxJob = configured := by
  simp only [consumerCount, poolAdd]
  split <;> omega

theorem consumerCount_zero (maxJob : Nat) : consumerCount 0 maxJob = maxJob := by
  simp [consumerCount, poolAdd]

theorem consumerCount_pos (configured maxJob : Nat) (h : 0 < maxJob) : 0 < consumerCount configured maxJob := by
  simp only [consumerCount, poolAdd]
  split <;> omega

end Goat.Loop
