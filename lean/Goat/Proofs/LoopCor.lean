/-
Proofs/LoopCor — consequences of the fsloop invariant (`LoopInv`), in the form used by
`Goat/Props/C08.lean`.
-/
import Goat.Proofs.LoopInv

namespace Goat.Loop
open Goat.LTS

def AllExited (s : St) : Prop := ∀ pc ∈ s.cons, pc = PC.exited

theorem allExited_of_wait {P : Params} {acts : List PAct} {n : Nat} {s : St} (hI : Inv P acts n s)
    (hw : waitEnabled s) : AllExited s := by
  intro pc hpc
  have h0 : msum liveW s.cons = 0 := by rw [← hI.pool]; exact hw
  have := msum_eq_zero liveW s.cons h0 pc hpc
  unfold liveW at this
  split at this
  · assumption
  · cases this

theorem msum_allExited (f : PC → Nat) (hf : f .exited = 0) (l : List PC) (h : ∀ pc ∈ l, pc = PC.exited) :
    msum f l = 0 := by
  induction l with
  | nil => rfl
  | cons a r ih =>
    have ha := h a (by simp)
    subst ha
    simp [msum, hf]
    exact ih (fun pc hpc => h pc (by simp [hpc]))

theorem inflight_allExited (l : List PC) (h : ∀ pc ∈ l, pc = PC.exited) : inflight l = [] := by
  induction l with
  | nil => rfl
  | cons a r ih =>
    have ha := h a (by simp)
    subst ha
    simp [inflight]
    exact ih (fun pc hpc => h pc (by simp [hpc]))

theorem reporting_allExited (l : List PC) (h : ∀ pc ∈ l, pc = PC.exited) : reporting l = [] := by
  induction l with
  | nil => rfl
  | cons a r ih =>
    have ha := h a (by simp)
    subst ha
    simp [reporting]
    exact ih (fun pc hpc => h pc (by simp [hpc]))

/-- when some consumer has left the loop without a kill, everything has been produced and both
queues are empty -/
theorem drained_of_exit {P : Params} {acts : List PAct} {n : Nat} {s : St} (hI : Inv P acts n s)
    (hk : s.killed = false) {pc : PC} (hpc : pc ∈ s.cons) (he : pc = .exiting ∨ pc = .exited) :
    s.pending = [] ∧ s.qd = [] ∧ s.qf = [] ∧ s.closed = true := by
  have hg := hI.good pc hpc
  have : ExitOK s := by rcases he with rfl | rfl <;> exact hg
  rcases this with h | ⟨h1, h2, h3⟩
  · rw [hk] at h; cases h
  · exact ⟨closed_pending hI.closer h3, h1, h2, h3⟩

/-- `Wait` returned and the error list is empty: the finished callbacks are exactly the sends -/
theorem done_perm_of_wait {P : Params} {acts : List PAct} {n : Nat} {s : St} (hI : Inv P acts n s)
    (hn : 0 < n) (hw : waitEnabled s) (he : s.errors = []) : s.done.Perm (sends acts) := by
  have hall := allExited_of_wait hI hw
  have hk : s.killed = false := by
    cases hs : s.killed
    · rfl
    · have := hI.killed.mp hs; exact absurd he this
  have hne : ∃ pc, pc ∈ s.cons := by
    have hl := hI.len
    cases hc : s.cons with
    | nil => rw [hc] at hl; simp at hl; omega
    | cons a r => exact ⟨a, by simp⟩
  obtain ⟨pc, hpc⟩ := hne
  obtain ⟨h1, h2, h3, _⟩ := drained_of_exit hI hk hpc (Or.inr (hall pc hpc))
  rw [List.perm_iff_count]
  intro x
  have := hI.items x
  rw [h1, hI.dropped hk, msum_allExited (cbW x) (by simp [cbW]) s.cons hall] at this
  simp [qItems, h2, h3, sends] at this
  exact this

/-- nothing is ever repeated (with or without errors) -/
theorem done_count_le {P : Params} {acts : List PAct} {n : Nat} {s : St} (hI : Inv P acts n s) (x : Item) :
    s.done.count x + (inflight s.cons).count x ≤ (sends acts).count x := by
  have := hI.items x
  rw [count_inflight]
  omega

theorem inflight_length_le {P : Params} {acts : List PAct} {n : Nat} {s : St} (hI : Inv P acts n s) :
    (inflight s.cons).length ≤ n := by
  rw [length_inflight, ← hI.len]
  apply msum_le_length
  intro pc; cases pc <;> simp [anyCbW]

/-! ### after `Wait` nothing happens any more -/

theorem allExited_step {P : Params} {s t : St} (h : AllExited s) (l : Label) (hs : step P s l = some t) :
    AllExited t ∧ t.done = s.done := by
  cases l with
  | prod =>
    simp only [step, prodStep] at hs
    cases hp : s.pending with
    | nil => simp [hp] at hs
    | cons a rest =>
      simp only [hp] at hs
      cases a with
      | send d p => cases d <;> simp only [prodAct] at hs <;> split at hs <;> cases hs <;> exact ⟨h, rfl⟩
      | list p sl ok => cases ok <;> simp only [prodAct] at hs <;> cases hs <;> exact ⟨h, rfl⟩
      | filtD _ _ => simp only [prodAct] at hs; cases hs; exact ⟨h, rfl⟩
      | filtF _ _ => simp only [prodAct] at hs; cases hs; exact ⟨h, rfl⟩
      | add _ _ => simp only [prodAct] at hs; cases hs; exact ⟨h, rfl⟩
  | abandon =>
    simp only [step, abandonStep] at hs
    split at hs
    · split at hs
      · cases hs
      · cases hs; exact ⟨h, rfl⟩
    · cases hs
  | closer =>
    simp only [step, closerStep] at hs
    split at hs
    · split at hs
      · cases hs; exact ⟨h, rfl⟩
      · cases hs
    all_goals first | (cases hs; exact ⟨h, rfl⟩) | cases hs
  | cons i =>
    simp only [step, consStep] at hs
    split at hs
    · cases hs
    · rename_i pc hpc
      have := h pc (List.mem_of_getElem? hpc)
      simp [this] at hs

theorem allExited_runFrom {P : Params} {acts : List PAct} {n : Nat} {s : St} (h : AllExited s)
    (sched : List Label) :
    AllExited ((sys P acts n).runFrom s sched) ∧ ((sys P acts n).runFrom s sched).done = s.done := by
  induction sched generalizing s with
  | nil => exact ⟨h, rfl⟩
  | cons l rest ih =>
    rw [runFrom_cons]
    unfold Sys.next
    cases hs : (sys P acts n).step s l with
    | none => exact ih h
    | some t =>
      have := allExited_step h l hs
      have r := ih this.1
      exact ⟨r.1, r.2.trans this.2⟩

/-! ### progress -/

/-- a consumer that has not executed `pool.Done()` can always move -/
theorem cons_enabled (P : Params) (s : St) (i : Nat) (pc : PC) (h : s.cons[i]? = some pc)
    (hne : pc ≠ .exited) : ∃ t, step P s (.cons i) = some t := by
  simp [step, consStep, h, hne]

theorem exists_index_of_mem {α : Type} {l : List α} {a : α} (h : a ∈ l) : ∃ i : Nat, l[i]? = some a := by
  exact List.mem_iff_getElem?.mp h

/-- without a kill, something is enabled until every goroutine has finished -/
theorem progress {P : Params} {acts : List PAct} {n : Nat} {s : St} (hI : Inv P acts n s) (hn : 0 < n)
    (hk : s.killed = false) (hnf : ¬ (AllExited s ∧ s.closer = .fin)) :
    ∃ l t, step P s l = some t := by
  by_cases hall : AllExited s
  · -- all consumers gone: the close was announced, the closer still has channels to close
    have hne : ∃ pc, pc ∈ s.cons := by
      have hl := hI.len
      cases hc : s.cons with
      | nil => rw [hc] at hl; simp at hl; omega
      | cons a r => exact ⟨a, by simp⟩
    obtain ⟨pc, hpc⟩ := hne
    obtain ⟨h1, _, _, h4⟩ := drained_of_exit hI hk hpc (Or.inr (hall pc hpc))
    have hcl := hI.closer
    unfold CloserOK at hcl
    refine ⟨.closer, ?_⟩
    cases hc : s.closer <;> simp [hc, h4] at hcl
    · simp [step, closerStep, hc]
    · simp [step, closerStep, hc]
    · exact absurd ⟨hall, hc⟩ hnf
  · have : ∃ pc, pc ∈ s.cons ∧ pc ≠ .exited := by
      apply Classical.byContradiction
      intro hcon
      apply hall
      intro pc hpc
      apply Classical.byContradiction
      intro hne
      exact hcon ⟨pc, hpc, hne⟩
    obtain ⟨pc, hpc, hne⟩ := this
    obtain ⟨i, hi⟩ := exists_index_of_mem hpc
    obtain ⟨t, ht⟩ := cons_enabled P s i pc hi hne
    exact ⟨.cons i, t, ht⟩

/-- without a kill, producers that still have something to send are never left without a
consumer inside its loop -/
theorem consumer_remains {P : Params} {acts : List PAct} {n : Nat} {s : St} (hI : Inv P acts n s)
    (hk : s.killed = false) (hp : s.pending ≠ []) :
    ∀ pc ∈ s.cons, pc ≠ .exiting ∧ pc ≠ .exited := by
  intro pc hpc
  refine ⟨fun e => ?_, fun e => ?_⟩
  · exact hp (drained_of_exit hI hk hpc (Or.inl e)).1
  · exact hp (drained_of_exit hI hk hpc (Or.inr e)).1

/-! ### `Pool.Add` arithmetic: the number of consumers -/

theorem consumerCount_le (configured maxJob : Nat) : consumerCount configured maxJob ≤ maxJob := by
  simp only [consumerCount, poolAdd]
  split <;> omega

theorem consumerCount_eq (configured maxJob : Nat) (h1 : 1 ≤ configured) (h2 : configured ≤ maxJob) :
    consumerCount configured maxJob = configured := by
  simp only [consumerCount, poolAdd]
  split <;> omega

theorem consumerCount_zero (maxJob : Nat) : consumerCount 0 maxJob = maxJob := by
  simp [consumerCount, poolAdd]

theorem consumerCount_pos (configured maxJob : Nat) (h : 0 < maxJob) : 0 < consumerCount configured maxJob := by
  simp only [consumerCount, poolAdd]
  split <;> omega

end Goat.Loop
