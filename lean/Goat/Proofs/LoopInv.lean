/-
Proofs/LoopInv — the invariant of the repaired fsloop protocol (queues + n consumers + closer),
for every number of consumers, every channel capacity and every schedule.  Helper lemmas for
`Goat/Props/C08.lean`.
-/
import Goat.Model.Loop
import Goat.Proofs.LoopWalk

namespace Goat.Loop
open Goat.LTS

/-! ### additive measures over the consumers' program counters -/

def msum (f : PC → Nat) : List PC → Nat
  | [] => 0
  | pc :: r => f pc + msum f r

theorem msum_set (f : PC → Nat) : ∀ (l : List PC) (i : Nat) (pc pc' : PC), l[i]? = some pc →
    msum f (l.set i pc') + f pc = msum f l + f pc'
  | [], _, _, _, h => by simp at h
  | a :: r, 0, pc, pc', h => by
    simp at h; subst h; simp [msum]; omega
  | a :: r, i + 1, pc, pc', h => by
    simp at h
    have := msum_set f r i pc pc' h
    simp [msum]; omega

theorem msum_replicate (f : PC → Nat) (n : Nat) (pc : PC) : msum f (List.replicate n pc) = n * f pc := by
  induction n with
  | zero => simp [msum]
  | succ k ih => simp [List.replicate_succ, msum, ih, Nat.succ_mul]; omega

theorem msum_eq_zero (f : PC → Nat) (l : List PC) (h : msum f l = 0) : ∀ pc ∈ l, f pc = 0 := by
  induction l with
  | nil => simp
  | cons a r ih =>
    simp [msum] at h
    intro pc hpc
    cases hpc with
    | head => exact h.1
    | tail _ hm => exact ih h.2 pc hm

theorem msum_le_length (f : PC → Nat) (hf : ∀ pc, f pc ≤ 1) (l : List PC) : msum f l ≤ l.length := by
  induction l with
  | nil => simp [msum]
  | cons a r ih => have := hf a; simp [msum]; omega

/-- weight of a consumer that is inside the callback on `x` -/
def cbW (x : Item) (pc : PC) : Nat := if pc = .inCb x.1 x.2 then 1 else 0
/-- weight of a consumer that is about to report the failure of the callback on `x` -/
def repW (x : Item) (pc : PC) : Nat := if pc = .rep x.1 x.2 then 1 else 0
/-- weight of a consumer goroutine that has not executed `pool.Done()` -/
def liveW (pc : PC) : Nat := if pc = .exited then 0 else 1
/-- weight of a consumer inside any callback -/
def anyCbW (pc : PC) : Nat := match pc with | .inCb _ _ => 1 | _ => 0

theorem count_inflight (x : Item) (l : List PC) : (inflight l).count x = msum (cbW x) l := by
  induction l with
  | nil => simp [inflight, msum]
  | cons a r ih =>
    cases a <;> simp [inflight, msum, cbW, ih, List.count_cons]
    rename_i d p
    obtain ⟨x1, x2⟩ := x
    by_cases h : d = x1 ∧ p = x2
    · obtain ⟨rfl, rfl⟩ := h; simp; omega
    · have h' : ¬ ((d, p) = (x1, x2)) := by simpa using h
      simp [h]

theorem count_reporting (x : Item) (l : List PC) : (reporting l).count (.cb x.1 x.2) = msum (repW x) l := by
  induction l with
  | nil => simp [reporting, msum]
  | cons a r ih =>
    cases a <;> simp [reporting, msum, repW, ih, List.count_cons]
    rename_i d p
    by_cases h : d = x.1 ∧ p = x.2
    · obtain ⟨rfl, rfl⟩ := h; simp; omega
    · simp [h]

theorem count_reporting_listing (p : Path) (l : List PC) : (reporting l).count (.listing p) = 0 := by
  induction l with
  | nil => simp [reporting]
  | cons a r ih => cases a <;> simp [reporting, ih]

theorem length_inflight (l : List PC) : (inflight l).length = msum anyCbW l := by
  induction l with
  | nil => simp [inflight, msum]
  | cons a r ih => cases a <;> simp [inflight, msum, anyCbW, ih]; omega

/-! ### the invariant -/

/-- what an exit of a consumer is justified by: the lifecycle was killed, or the close had been
announced and both queues are empty -/
def ExitOK (s : St) : Prop := s.killed = true ∨ (s.qd = [] ∧ s.qf = [] ∧ s.closed = true)

/-- the part of the invariant that speaks about one consumer -/
def Good (s : St) : PC → Prop
  | .lenD b => b = true → s.closed = true
  | .lenF b => b = true → s.closed = true ∧ s.qd = []
  | .exiting => ExitOK s
  | .exited => ExitOK s
  | _ => True

/-- the closer's program counter determines the announcement and the channel states; it leaves
`waiting` only when all producers are done -/
def CloserOK (s : St) : Prop :=
  match s.closer with
  | .waiting => s.closed = false ∧ s.dClosed = false ∧ s.fClosed = false
  | .waited => s.pending = [] ∧ s.closed = false ∧ s.dClosed = false ∧ s.fClosed = false
  | .announced => s.pending = [] ∧ s.closed = true ∧ s.dClosed = false ∧ s.fClosed = false
  | .closedD => s.pending = [] ∧ s.closed = true ∧ s.dClosed = true ∧ s.fClosed = false
  | .fin => s.pending = [] ∧ s.closed = true ∧ s.dClosed = true ∧ s.fClosed = true

structure Inv (P : Params) (acts : List PAct) (n : Nat) (s : St) : Prop where
  closer : CloserOK s
  good : ∀ pc ∈ s.cons, Good s pc
  len : s.cons.length = n
  /-- the wait-group counter is the number of consumer goroutines that have not called `Done` -/
  pool : s.poolCtr = msum liveW s.cons
  /-- conservation of items: not yet sent + queued + in a callback + done + never sent = all -/
  items : ∀ x, (sends s.pending).count x + (qItems s).count x + msum (cbW x) s.cons + s.done.count x
      + (sends s.dropped).count x = (sends acts).count x
  /-- failing listings: reported + not yet executed + never executed = all -/
  lfail : ∀ p, s.errors.count (.listing p) + (lists s.pending).count (p, false)
      + (lists s.dropped).count (p, false) = (lists acts).count (p, false)
  /-- failing callbacks: reported + about to be reported = finished callbacks that fail -/
  cbfail : ∀ x : Item, s.errors.count (.cb x.1 x.2) + msum (repW x) s.cons
      = if P.failCb x.1 x.2 then s.done.count x else 0
  dropped : s.killed = false → s.dropped = []
  killed : s.killed = true ↔ s.errors ≠ []
  capD : s.qd.length ≤ P.capD
  capF : s.qf.length ≤ P.capF

theorem closed_pending {s : St} (h : CloserOK s) (hc : s.closed = true) : s.pending = [] := by
  unfold CloserOK at h
  cases hcl : s.closer <;> simp [hcl] at h <;> simp_all

theorem chClosed_closed {s : St} (h : CloserOK s) (hc : s.dClosed = true ∨ s.fClosed = true) :
    s.closed = true := by
  unfold CloserOK at h
  cases hcl : s.closer <;> simp [hcl] at h <;> simp_all

theorem Good_mono {s t : St} {pc : PC}
    (hk : s.killed = true → t.killed = true) (hc : s.closed = true → t.closed = true)
    (hqd : s.closed = true → s.qd = [] → t.qd = []) (hqf : s.closed = true → s.qf = [] → t.qf = [])
    (h : Good s pc) : Good t pc := by
  cases pc <;> simp only [Good, ExitOK] at h ⊢
  · intro hb; exact hc (h hb)
  · intro hb; exact ⟨hc (h hb).1, hqd (h hb).1 (h hb).2⟩
  all_goals
    rcases h with h | ⟨h1, h2, h3⟩
    · exact Or.inl (hk h)
    · exact Or.inr ⟨hqd h3 h1, hqf h3 h2, hc h3⟩

/-! ### the initial state -/

theorem inv_init (P : Params) (acts : List PAct) (n : Nat) : Inv P acts n (init acts n) := by
  refine ⟨?_, ?_, ?_, ?_, ?_, ?_, ?_, ?_, ?_, ?_, ?_⟩
  · simp [CloserOK, init]
  · intro pc hpc
    simp [init] at hpc
    rw [hpc.2]; simp [Good]
  · simp [init]
  · simp [init, msum_replicate, liveW]
  · intro x; simp [init, qItems, msum_replicate, cbW, sends]
  · intro p; simp [init, lists]
  · intro x; simp [init, msum_replicate, repW]
  · intro _; rfl
  · simp [init]
  · simp [init]
  · simp [init]

/-! ### consumer actions -/

/-- what a consumer action leaves alone -/
theorem consAct_frame (P : Params) (s : St) (pc : PC) :
    let r := consAct P s pc
    r.2.pending = s.pending ∧ r.2.closer = s.closer ∧ r.2.closed = s.closed
    ∧ r.2.dClosed = s.dClosed ∧ r.2.fClosed = s.fClosed ∧ r.2.dropped = s.dropped
    ∧ r.2.cons = s.cons
    ∧ (s.killed = true → r.2.killed = true)
    ∧ r.2.qd.length ≤ s.qd.length ∧ r.2.qf.length ≤ s.qf.length := by
  cases pc <;> simp only [consAct] <;> (repeat' split) <;> simp_all

/-- a consumer action keeps what the invariant says about the other consumers -/
theorem consAct_others (P : Params) (s : St) (pc q : PC) (h : Good s q) : Good (consAct P s pc).2 q := by
  have key : ∀ t : St, (s.killed = true → t.killed = true) → t.closed = s.closed →
      (s.qd = [] → t.qd = []) → (s.qf = [] → t.qf = []) → Good t q :=
    fun t hk hc hd hf => Good_mono hk (by intro h; rw [hc]; exact h) (fun _ => hd) (fun _ => hf) h
  cases pc <;> simp only [consAct] <;> (repeat' split) <;> apply key <;> simp_all

/-- after its action the consumer itself satisfies the invariant (repaired order) -/
theorem consAct_self (P : Params) (hP : P.fixedOrder = true) (s : St) (pc : PC) (hg : Good s pc) :
    Good (consAct P s pc).2 (consAct P s pc).1 := by
  cases pc with
  | top => simp only [consAct, hP]; cases hk : s.killed <;> simp [Good, ExitOK, hk]
  | rdStep => simp [consAct, hP, Good]
  | lenD b =>
    simp only [consAct]
    cases hq : s.qd <;> simp [Good] at hg ⊢
    exact fun hb => ⟨hg hb, hq⟩
  | lenF b =>
    simp only [consAct, hP]
    cases hq : s.qf <;> cases b <;> simp [Good, ExitOK] at hg ⊢
    exact Or.inr ⟨hg.2, hq, hg.1⟩
  | work => simp only [consAct]; cases hq : s.qd <;> simp [Good]
  | workF => simp only [consAct]; cases hq : s.qf <;> simp [Good]
  | selD => simp only [consAct]; cases hq : s.qd <;> simp [Good]
  | selF => simp only [consAct]; cases hq : s.qf <;> simp [Good]
  | inCb d x => simp only [consAct]; cases P.failCb d x <;> cases d <;> simp [Good, afterCb]
  | rep d x => simp only [consAct]; cases d <;> simp [Good, afterCb]
  | exiting =>
    simp only [consAct]
    exact Good_mono (pc := .exiting) id id (fun _ h => h) (fun _ h => h) hg
  | exited => simpa [consAct] using hg

/-- item accounting of one consumer action -/
theorem consAct_items (P : Params) (s : St) (pc : PC) (x : Item) :
    let r := consAct P s pc
    (qItems r.2).count x + cbW x r.1 + r.2.done.count x = (qItems s).count x + cbW x pc + s.done.count x := by
  obtain ⟨x1, x2⟩ := x
  cases pc with
  | selD =>
    simp only [consAct]
    cases hq : s.qd with
    | nil => simp [qItems, hq, cbW]
    | cons y r =>
      simp [qItems, hq, cbW, List.count_cons, List.count_append]
  | selF =>
    simp only [consAct]
    cases hq : s.qf with
    | nil => simp [qItems, hq, cbW]
    | cons y r =>
      simp [qItems, hq, cbW, List.count_cons, List.count_append]
      omega
  | inCb d y =>
    simp only [consAct]
    by_cases h : d = x1 ∧ y = x2
    · obtain ⟨rfl, rfl⟩ := h
      cases P.failCb d y <;> cases d <;> simp [qItems, cbW, afterCb] <;> omega
    · have h' : ((d, y) == (x1, x2)) = false := by simpa using h
      cases P.failCb d y <;> cases d <;> simp [qItems, cbW, afterCb, List.count_cons, h'] <;>
        exact fun e hy => h ⟨e.symm, hy⟩
  | rep d y => simp only [consAct]; cases d <;> simp [qItems, cbW, afterCb]
  | top => simp only [consAct]; (repeat' split) <;> simp [cbW]
  | rdStep => simp only [consAct]; (repeat' split) <;> simp [cbW]
  | lenD b => simp only [consAct]; (repeat' split) <;> simp [cbW]
  | lenF b => simp only [consAct]; (repeat' split) <;> simp [cbW]
  | work => simp only [consAct]; (repeat' split) <;> simp [cbW]
  | workF => simp only [consAct]; (repeat' split) <;> simp [cbW]
  | exiting => simp [consAct, cbW, qItems]
  | exited => simp [consAct]

/-- error accounting of one consumer action -/
theorem consAct_errs (P : Params) (s : St) (pc : PC) (x : Item) :
    let r := consAct P s pc
    (r.2.errors.count (.cb x.1 x.2) + repW x r.1 + (if P.failCb x.1 x.2 then s.done.count x else 0)
      = s.errors.count (.cb x.1 x.2) + repW x pc + (if P.failCb x.1 x.2 then r.2.done.count x else 0))
    ∧ (∀ p, r.2.errors.count (.listing p) = s.errors.count (.listing p))
    ∧ (r.2.errors = s.errors ∧ r.2.killed = s.killed ∨ r.2.errors ≠ [] ∧ r.2.killed = true) := by
  obtain ⟨x1, x2⟩ := x
  cases pc with
  | inCb d y =>
    simp only [consAct]
    by_cases h : d = x1 ∧ y = x2
    · obtain ⟨rfl, rfl⟩ := h
      cases hf : P.failCb d y <;> cases d <;> simp [repW, afterCb] <;> omega
    · have h' : ((d, y) == (x1, x2)) = false := by simpa using h
      cases hf : P.failCb d y <;> cases d <;> simp [repW, afterCb, List.count_cons, h'] <;>
        try exact fun e hy => h ⟨e.symm, hy⟩
  | rep d y =>
    simp only [consAct]
    by_cases h : d = x1 ∧ y = x2
    · obtain ⟨rfl, rfl⟩ := h
      cases d <;> simp [repW, afterCb, List.count_append] <;> omega
    · cases d <;> simp [repW, afterCb, List.count_append, List.count_cons]
  | selD => simp only [consAct]; split <;> simp [repW]
  | selF => simp only [consAct]; split <;> simp [repW]
  | top => simp only [consAct]; (repeat' split) <;> simp [repW]
  | rdStep => simp only [consAct]; (repeat' split) <;> simp [repW]
  | lenD b => simp only [consAct]; (repeat' split) <;> simp [repW]
  | lenF b => simp only [consAct]; (repeat' split) <;> simp [repW]
  | work => simp only [consAct]; (repeat' split) <;> simp [repW]
  | workF => simp only [consAct]; (repeat' split) <;> simp [repW]
  | exiting => simp [consAct, repW]
  | exited => simp [consAct]

/-- wait-group accounting of one consumer action -/
theorem consAct_pool (P : Params) (s : St) (pc : PC) (hpc : pc ≠ .exited) :
    let r := consAct P s pc
    r.2.poolCtr + liveW pc = s.poolCtr + liveW r.1 ∨ (s.poolCtr = 0 ∧ pc = .exiting) := by
  cases pc with
  | exited => exact absurd rfl hpc
  | exiting => simp only [consAct, liveW]; simp; omega
  | selD => simp only [consAct]; split <;> simp [liveW]
  | selF => simp only [consAct]; split <;> simp [liveW]
  | inCb d y => simp only [consAct]; cases P.failCb d y <;> cases d <;> simp [liveW, afterCb]
  | rep d y => simp only [consAct]; cases d <;> simp [liveW, afterCb]
  | top => simp only [consAct]; (repeat' split) <;> simp [liveW]
  | rdStep => simp only [consAct]; (repeat' split) <;> simp [liveW]
  | lenD b => simp only [consAct]; (repeat' split) <;> simp [liveW]
  | lenF b => simp only [consAct]; (repeat' split) <;> simp [liveW]
  | work => simp only [consAct]; (repeat' split) <;> simp [liveW]
  | workF => simp only [consAct]; (repeat' split) <;> simp [liveW]

/-! ### the step lemma -/

theorem CloserOK_congr {s t : St} (h1 : t.pending = s.pending) (h2 : t.closer = s.closer)
    (h3 : t.closed = s.closed) (h4 : t.dClosed = s.dClosed) (h5 : t.fClosed = s.fClosed)
    (h : CloserOK s) : CloserOK t := by
  unfold CloserOK at h ⊢
  rw [h1, h2, h3, h4, h5]; exact h

theorem msum_ge (f : PC → Nat) (l : List PC) (i : Nat) (pc : PC) (h : l[i]? = some pc) : f pc ≤ msum f l := by
  induction l generalizing i with
  | nil => simp at h
  | cons a r ih =>
    cases i with
    | zero => simp at h; subst h; simp [msum]
    | succ j => simp at h; have := ih j h; simp [msum]; omega

theorem inv_cons {P : Params} (hP : P.fixedOrder = true) {acts : List PAct} {n : Nat} {s t : St}
    (hI : Inv P acts n s) (i : Nat) (h : consStep P s i = some t) : Inv P acts n t := by
  unfold consStep at h
  cases hpc : s.cons[i]? with
  | none => simp [hpc] at h
  | some pc =>
    simp only [hpc] at h
    split at h
    · cases h
    · rename_i hne
      cases h
      have hmem : pc ∈ s.cons := List.mem_of_getElem? hpc
      have hg := hI.good pc hmem
      obtain ⟨f1, f2, f3, f4, f5, f6, _, f8, f9, f10⟩ := consAct_frame P s pc
      refine ⟨?_, ?_, ?_, ?_, ?_, ?_, ?_, ?_, ?_, ?_, ?_⟩
      · exact CloserOK_congr f1 f2 f3 f4 f5 hI.closer
      · intro q hq
        have hq' : Good (consAct P s pc).2 q := by
          rcases List.mem_or_eq_of_mem_set hq with hq | rfl
          · exact consAct_others P s pc q (hI.good q hq)
          · exact consAct_self P hP s pc hg
        cases q <;> exact hq'
      · simp [hI.len]
      · have h1 := msum_set liveW s.cons i pc (consAct P s pc).1 hpc
        have h2 := msum_ge liveW s.cons i pc hpc
        have h3 := hI.pool
        rcases consAct_pool P s pc hne with h4 | ⟨h4, rfl⟩
        · show (consAct P s pc).2.poolCtr = msum liveW (s.cons.set i (consAct P s pc).1)
          omega
        · simp [liveW] at h2; omega
      · intro x
        have h1 := msum_set (cbW x) s.cons i pc (consAct P s pc).1 hpc
        have h2 := consAct_items P s pc x
        have h3 := hI.items x
        show (sends (consAct P s pc).2.pending).count x + (qItems (consAct P s pc).2).count x
          + msum (cbW x) (s.cons.set i (consAct P s pc).1) + (consAct P s pc).2.done.count x
          + (sends (consAct P s pc).2.dropped).count x = _
        rw [f1, f6]
        omega
      · intro p
        have h3 := hI.lfail p
        show (consAct P s pc).2.errors.count (.listing p) + (lists (consAct P s pc).2.pending).count (p, false)
          + (lists (consAct P s pc).2.dropped).count (p, false) = _
        rw [f1, f6, (consAct_errs P s pc (true, p)).2.1 p]
        exact h3
      · intro x
        have h1 := msum_set (repW x) s.cons i pc (consAct P s pc).1 hpc
        have h2 := (consAct_errs P s pc x).1
        have h3 := hI.cbfail x
        show (consAct P s pc).2.errors.count (.cb x.1 x.2) + msum (repW x) (s.cons.set i (consAct P s pc).1)
          = if P.failCb x.1 x.2 then (consAct P s pc).2.done.count x else 0
        omega
      · intro hk
        show (consAct P s pc).2.dropped = []
        rw [f6]
        apply hI.dropped
        cases hs : s.killed
        · rfl
        · have := f8 hs
          have hk' : (consAct P s pc).2.killed = false := hk
          rw [this] at hk'; cases hk'
      · show (consAct P s pc).2.killed = true ↔ (consAct P s pc).2.errors ≠ []
        rcases (consAct_errs P s pc (true, "")).2.2 with ⟨h1, h2⟩ | ⟨h1, h2⟩
        · rw [h1, h2]; exact hI.killed
        · simp [h1, h2]
      · have := hI.capD
        show (consAct P s pc).2.qd.length ≤ _
        omega
      · have := hI.capF
        show (consAct P s pc).2.qf.length ≤ _
        omega

/-- a producer action (executed or abandoned): common part of the proof -/
theorem inv_prod_aux {P : Params} {acts : List PAct} {n : Nat} {s t : St} {a : PAct} {rest : List PAct}
    (hI : Inv P acts n s) (hp : s.pending = a :: rest)
    (hpend : t.pending = rest) (hcons : t.cons = s.cons) (hcloser : t.closer = s.closer)
    (hclosed : t.closed = s.closed) (hd : t.dClosed = s.dClosed) (hf : t.fClosed = s.fClosed)
    (hpool : t.poolCtr = s.poolCtr) (hdone : t.done = s.done)
    (hk : s.killed = true → t.killed = true)
    (hitems : ∀ x, (sends [a]).count x + (qItems s).count x + (sends s.dropped).count x
      = (qItems t).count x + (sends t.dropped).count x)
    (hlf : ∀ p, s.errors.count (.listing p) + (lists [a]).count (p, false) + (lists s.dropped).count (p, false)
      = t.errors.count (.listing p) + (lists t.dropped).count (p, false))
    (hcb : ∀ x : Item, t.errors.count (.cb x.1 x.2) = s.errors.count (.cb x.1 x.2))
    (hdrop : t.killed = false → t.dropped = [])
    (hkill : t.killed = true ↔ t.errors ≠ [])
    (hcapD : t.qd.length ≤ P.capD) (hcapF : t.qf.length ≤ P.capF) : Inv P acts n t := by
  have hncl : s.closed = false := by
    cases hc : s.closed
    · rfl
    · have := closed_pending hI.closer hc; simp [hp] at this
  have hw : s.closer = .waiting := by
    have := hI.closer
    unfold CloserOK at this
    cases hcl : s.closer <;> simp [hcl, hp] at this ⊢
  refine ⟨?_, ?_, ?_, ?_, ?_, ?_, ?_, hdrop, hkill, hcapD, hcapF⟩
  · have := hI.closer
    unfold CloserOK at this ⊢
    rw [hcloser, hclosed, hd, hf, hw]
    rw [hw] at this
    exact this
  · intro q hq
    rw [hcons] at hq
    refine Good_mono hk ?_ ?_ ?_ (hI.good q hq) <;> (intro h; rw [hncl] at h; cases h)
  · rw [hcons]; exact hI.len
  · rw [hpool, hcons]; exact hI.pool
  · intro x
    have h1 := hI.items x
    have h2 := hitems x
    have h3 : sends s.pending = sends [a] ++ sends rest := by rw [hp, ← sends_append]; rfl
    rw [h3, List.count_append] at h1
    rw [hpend, hcons, hdone]
    omega
  · intro p
    have h1 := hI.lfail p
    have h2 := hlf p
    have h3 : lists s.pending = lists [a] ++ lists rest := by rw [hp, ← lists_append]; rfl
    rw [h3, List.count_append] at h1
    rw [hpend]
    omega
  · intro x
    rw [hcb x, hcons, hdone]
    exact hI.cbfail x

theorem inv_prod {P : Params} {acts : List PAct} {n : Nat} {s t : St}
    (hI : Inv P acts n s) (h : prodStep P s = some t) : Inv P acts n t := by
  unfold prodStep at h
  cases hp : s.pending with
  | nil => simp [hp] at h
  | cons a rest =>
    simp only [hp] at h
    have hcapD := hI.capD
    have hcapF := hI.capF
    have hdr := hI.dropped
    have hkl := hI.killed
    cases a with
    | send d p =>
      cases d <;> simp only [prodAct] at h <;> split at h <;> cases h <;> rename_i hcap <;>
        refine inv_prod_aux hI hp rfl rfl rfl rfl rfl rfl rfl rfl id ?_ ?_ ?_ hdr hkl ?_ ?_ <;>
        first
        | (intro x; simp [sends, qItems, List.count_append, List.count_cons]; omega)
        | (intro x; simp [lists])
        | (intro x; rfl)
        | (simp; omega)
        | exact hcapD
        | exact hcapF
    | list p sl ok =>
      cases ok <;> simp only [prodAct] at h <;> cases h
      · refine inv_prod_aux hI hp rfl rfl rfl rfl rfl rfl rfl rfl (fun _ => rfl) ?_ ?_ ?_ ?_ ?_ hcapD hcapF
        · intro x; simp [sends, qItems]
        · intro q; simp [lists, List.count_append, List.count_cons]
        · intro x; simp [List.count_append]
        · intro hk; cases hk
        · simp
      · refine inv_prod_aux hI hp rfl rfl rfl rfl rfl rfl rfl rfl id ?_ ?_ ?_ hdr hkl hcapD hcapF
        · intro x; simp [sends, qItems]
        · intro q; simp [lists]
        · intro x; rfl
    | filtD p acc =>
      simp only [prodAct] at h; cases h
      refine inv_prod_aux hI hp rfl rfl rfl rfl rfl rfl rfl rfl id ?_ ?_ ?_ hdr hkl hcapD hcapF
      · intro x; simp [sends, qItems]
      · intro q; simp [lists]
      · intro x; rfl
    | filtF p acc =>
      simp only [prodAct] at h; cases h
      refine inv_prod_aux hI hp rfl rfl rfl rfl rfl rfl rfl rfl id ?_ ?_ ?_ hdr hkl hcapD hcapF
      · intro x; simp [sends, qItems]
      · intro q; simp [lists]
      · intro x; rfl
    | add p got =>
      simp only [prodAct] at h; cases h
      refine inv_prod_aux hI hp rfl rfl rfl rfl rfl rfl rfl rfl id ?_ ?_ ?_ hdr hkl hcapD hcapF
      · intro x; simp [sends, qItems]
      · intro q; simp [lists]
      · intro x; rfl

theorem inv_abandon {P : Params} {acts : List PAct} {n : Nat} {s t : St}
    (hI : Inv P acts n s) (h : abandonStep s = some t) : Inv P acts n t := by
  unfold abandonStep at h
  split at h
  · rename_i hk
    cases hp : s.pending with
    | nil => simp [hp] at h
    | cons a rest =>
      simp only [hp] at h
      cases h
      refine inv_prod_aux hI hp rfl rfl rfl rfl rfl rfl rfl rfl id ?_ ?_ (fun _ => rfl) ?_ hI.killed hI.capD hI.capF
      · intro x
        have : sends (a :: s.dropped) = sends [a] ++ sends s.dropped := by rw [← sends_append]; rfl
        show _ = (qItems s).count x + (sends (a :: s.dropped)).count x
        rw [this, List.count_append]; omega
      · intro p
        have : lists (a :: s.dropped) = lists [a] ++ lists s.dropped := by rw [← lists_append]; rfl
        show _ = s.errors.count (.listing p) + (lists (a :: s.dropped)).count (p, false)
        rw [this, List.count_append]; omega
      · intro hk'
        have hk'' : s.killed = false := hk'
        rw [hk] at hk''; cases hk''
  · cases h

theorem inv_closer {P : Params} {acts : List PAct} {n : Nat} {s t : St}
    (hI : Inv P acts n s) (h : closerStep s = some t) : Inv P acts n t := by
  have hcl := hI.closer
  unfold closerStep at h
  unfold CloserOK at hcl
  have key : ∀ t : St, t.cons = s.cons → t.killed = s.killed → t.qd = s.qd → t.qf = s.qf →
      (s.closed = true → t.closed = true) → ∀ q ∈ t.cons, Good t q := by
    intro t h1 h2 h3 h4 h5 q hq
    rw [h1] at hq
    exact Good_mono (by rw [h2]; exact id) h5 (by rw [h3]; exact fun _ h => h) (by rw [h4]; exact fun _ h => h)
      (hI.good q hq)
  cases hc : s.closer <;> simp only [hc] at h hcl
  · split at h
    · cases h
      rename_i hpe
      refine ⟨?_, key _ rfl rfl rfl rfl id, hI.len, hI.pool, hI.items, hI.lfail, hI.cbfail, hI.dropped,
        hI.killed, hI.capD, hI.capF⟩
      simp [CloserOK, hcl]
      simpa using hpe
    · cases h
  · cases h
    refine ⟨?_, key _ rfl rfl rfl rfl (fun _ => rfl), hI.len, hI.pool, hI.items, hI.lfail, hI.cbfail,
      hI.dropped, hI.killed, hI.capD, hI.capF⟩
    simp [CloserOK, hcl]
  · cases h
    refine ⟨?_, key _ rfl rfl rfl rfl id, hI.len, hI.pool, hI.items, hI.lfail, hI.cbfail, hI.dropped,
      hI.killed, hI.capD, hI.capF⟩
    simp [CloserOK, hcl]
  · cases h
    refine ⟨?_, key _ rfl rfl rfl rfl id, hI.len, hI.pool, hI.items, hI.lfail, hI.cbfail, hI.dropped,
      hI.killed, hI.capD, hI.capF⟩
    simp [CloserOK, hcl]
  · cases h

/-- the step lemma of the repaired protocol -/
theorem inv_step {P : Params} (hP : P.fixedOrder = true) {acts : List PAct} {n : Nat} {s t : St}
    (hI : Inv P acts n s) (l : Label) (h : step P s l = some t) : Inv P acts n t := by
  cases l with
  | prod => exact inv_prod hI h
  | abandon => exact inv_abandon hI h
  | closer => exact inv_closer hI h
  | cons i => exact inv_cons hP hI i h

theorem inv_reachable {P : Params} (hP : P.fixedOrder = true) (acts : List PAct) (n : Nat) (s : St)
    (h : Reachable (sys P acts n) s) : Inv P acts n s :=
  inv_of_init_step (sys P acts n) (Inv P acts n) (inv_init P acts n)
    (fun _ l _ hI hs => inv_step hP hI l hs) s h

end Goat.Loop
