/-
Proofs/LoopInv — the invariant of the repaired fsloop protocol (producers + queues + n consumers +
closer + lifecycle + environment acts), for every number of consumers, every channel capacity and
every schedule, including kills / error events / the deadline at any moment.  Helper lemmas for
`Goat/Props/C08.lean`.
-/
import Goat.Model.Loop
import Goat.Proofs.LoopWalk

namespace Goat.Loop
open Goat.LTS

/-! ### additive measures over lists (consumers' program counters, producers) -/

def lsum {α : Type} (f : α → Nat) : List α → Nat
  | [] => 0
  | a :: r => f a + lsum f r

theorem lsum_set {α : Type} (f : α → Nat) : ∀ (l : List α) (i : Nat) (a a' : α), l[i]? = some a →
    lsum f (l.set i a') + f a = lsum f l + f a'
  | [], _, _, _, h => by simp at h
  | b :: r, 0, a, a', h => by
    simp at h; subst h; simp [lsum]; omega
  | b :: r, i + 1, a, a', h => by
    simp at h
    have := lsum_set f r i a a' h
    simp [lsum]; omega

theorem lsum_append {α : Type} (f : α → Nat) (a b : List α) : lsum f (a ++ b) = lsum f a + lsum f b := by
  induction a with
  | nil => simp [lsum]
  | cons x r ih => simp [lsum, ih]; omega

theorem lsum_replicate {α : Type} (f : α → Nat) (n : Nat) (a : α) : lsum f (List.replicate n a) = n * f a := by
  induction n with
  | zero => simp [lsum]
  | succ k ih => simp [List.replicate_succ, lsum, ih, Nat.succ_mul]; omega

theorem lsum_eq_zero {α : Type} (f : α → Nat) (l : List α) (h : lsum f l = 0) : ∀ a ∈ l, f a = 0 := by
  induction l with
  | nil => simp
  | cons a r ih =>
    simp [lsum] at h
    intro b hb
    cases hb with
    | head => exact h.1
    | tail _ hm => exact ih h.2 b hm

theorem lsum_le_length {α : Type} (f : α → Nat) (hf : ∀ a, f a ≤ 1) (l : List α) : lsum f l ≤ l.length := by
  induction l with
  | nil => simp [lsum]
  | cons a r ih => have := hf a; simp [lsum]; omega

theorem lsum_ge {α : Type} (f : α → Nat) (l : List α) (i : Nat) (a : α) (h : l[i]? = some a) : f a ≤ lsum f l := by
  induction l generalizing i with
  | nil => simp at h
  | cons b r ih =>
    cases i with
    | zero => simp at h; subst h; simp [lsum]
    | succ j => simp at h; have := ih j h; simp [lsum]; omega

theorem lsum_all_zero {α : Type} (f : α → Nat) (l : List α) (h : ∀ a ∈ l, f a = 0) : lsum f l = 0 := by
  induction l with
  | nil => rfl
  | cons a r ih =>
    simp [lsum, h a (by simp)]
    exact ih (fun b hb => h b (by simp [hb]))

/-- weight of a consumer that is inside the callback on `x` -/
def cbW (x : Item) (pc : PC) : Nat := if pc = .inCb x.1 x.2 then 1 else 0
/-- weight of a consumer that is about to report the failure of the callback on `x` -/
def repW (x : Item) (pc : PC) : Nat := if pc = .rep x.1 x.2 then 1 else 0
/-- weight of a consumer goroutine that has not executed `pool.Done()` -/
def liveW (pc : PC) : Nat := if pc = .exited then 0 else 1
/-- weight of a consumer inside any callback -/
def anyCbW (pc : PC) : Nat := match pc with | .inCb _ _ => 1 | _ => 0

/-- a producer goroutine that has not executed `pool.Done()` -/
def liveP : Prod → Nat
  | .gone => 0
  | _ => 1
/-- how often the rest of a producer's program (and of the producers it will start) sends `x` -/
def unsentC (x : Item) : Prod → Nat
  | .run acts => (sendsL acts).count x
  | .rep _ _ rest => (sendsL rest).count x
  | .gone => 0
/-- weight of a producer that is about to report the failed listing of `p` -/
def lrepW (p : Path) : Prod → Nat
  | .rep q _ _ => if q = p then 1 else 0
  | _ => 0
/-- how many failing listings of `p` the rest of a producer's program contains -/
def lpendC (p : Path) : Prod → Nat
  | .run acts => (listsL acts).count (p, false)
  | .rep _ _ rest => (listsL rest).count (p, false)
  | .gone => 0

/-- directory items the rest of a producer's program (and of the producers it will start) sends -/
def unsentD : Prod → Nat
  | .run acts => (sendsL acts).countP (fun x => x.1)
  | .rep _ _ rest => (sendsL rest).countP (fun x => x.1)
  | .gone => 0
/-- file items the rest of a producer's program (and of the producers it will start) sends -/
def unsentF : Prod → Nat
  | .run acts => (sendsL acts).countP (fun x => !x.1)
  | .rep _ _ rest => (sendsL rest).countP (fun x => !x.1)
  | .gone => 0

theorem countP_sendsL_drop_le (f : Item → Bool) (k : Nat) (l : List PAct) :
    (sendsL (l.drop k)).countP f ≤ (sendsL l).countP f := by
  have := congrArg (fun l => l.countP f) (sendsL_take_drop k l)
  simp [List.countP_append] at this
  omega

theorem count_inflight (x : Item) (l : List PC) : (inflight l).count x = lsum (cbW x) l := by
  induction l with
  | nil => simp [inflight, lsum]
  | cons a r ih =>
    cases a <;> simp [inflight, lsum, cbW, ih, List.count_cons]
    rename_i d p
    obtain ⟨x1, x2⟩ := x
    by_cases h : d = x1 ∧ p = x2
    · obtain ⟨rfl, rfl⟩ := h; simp; omega
    · have h' : ¬ ((d, p) = (x1, x2)) := by simpa using h
      simp [h]

theorem count_reporting (x : Item) (l : List PC) : (reporting l).count (.cb x.1 x.2) = lsum (repW x) l := by
  induction l with
  | nil => simp [reporting, lsum]
  | cons a r ih =>
    cases a <;> simp [reporting, lsum, repW, ih, List.count_cons]
    rename_i d p
    by_cases h : d = x.1 ∧ p = x.2
    · obtain ⟨rfl, rfl⟩ := h; simp; omega
    · simp [h]

theorem count_reportingP (p : Path) (l : List Prod) : (reportingP l).count p = lsum (lrepW p) l := by
  induction l with
  | nil => simp [reportingP, lsum]
  | cons a r ih =>
    cases a <;> simp [reportingP, lsum, lrepW, ih, List.count_cons]
    rename_i q _ _
    by_cases h : q = p
    · subst h; simp; omega
    · simp [h]

theorem liveProds_eq (l : List Prod) : liveProds l = lsum liveP l := by
  induction l with
  | nil => simp [liveProds, lsum]
  | cons a r ih => cases a <;> simp [liveProds, lsum, liveP, ih] <;> omega

theorem length_inflight (l : List PC) : (inflight l).length = lsum anyCbW l := by
  induction l with
  | nil => simp [inflight, lsum]
  | cons a r ih => cases a <;> simp [inflight, lsum, anyCbW, ih]; omega

/-! ### the lifecycle's context -/

@[simp] theorem Ctx.dead_kill (c : Ctx) : c.kill.dead = true := by cases c <;> rfl
@[simp] theorem Ctx.dead_expire (c : Ctx) : c.expire.dead = true := by cases c <;> rfl
theorem Ctx.kill_of_dead {c : Ctx} (h : c.dead = true) : c.kill = c := by cases c <;> simp_all [Ctx.dead, Ctx.kill]
theorem Ctx.expire_of_dead {c : Ctx} (h : c.dead = true) : c.expire = c := by cases c <;> simp_all [Ctx.dead, Ctx.expire]
theorem Ctx.err_ne_nil {c : Ctx} : c.err ≠ [] ↔ c.dead = true := by cases c <;> simp [Ctx.err, Ctx.dead]

/-! ### the invariant -/

/-- what an exit of a consumer is justified by: the lifecycle was killed, or the close had been
announced and both queues are empty -/
def ExitOK (s : St) : Prop := s.killed = true ∨ (s.qd = [] ∧ s.qf = [] ∧ s.closed = true)

/-- the part of the invariant that speaks about one consumer -/
def Good (s : St) : PC → Prop
  | .lenD b => b = true → s.closed = true
  | .lenF b => b = true → s.closed = true ∧ s.qd = []
  | .exiting => ExitOK s
  | .exited => ExitOK s
  | _ => True

/-- the closer's program counter determines the announcement and the channel states; it leaves
`waiting` only when every producer has signed off -/
def CloserOK (s : St) : Prop :=
  match s.closer with
  | .waiting => s.closed = false ∧ s.dClosed = false ∧ s.fClosed = false
  | .waited => s.ppool = 0 ∧ s.closed = false ∧ s.dClosed = false ∧ s.fClosed = false
  | .announced => s.ppool = 0 ∧ s.closed = true ∧ s.dClosed = false ∧ s.fClosed = false
  | .closedD => s.ppool = 0 ∧ s.closed = true ∧ s.dClosed = true ∧ s.fClosed = false
  | .fin => s.ppool = 0 ∧ s.closed = true ∧ s.dClosed = true ∧ s.fClosed = true

structure Inv (P : Params) (prog : List PAct) (n : Nat) (s : St) : Prop where
  closer : CloserOK s
  good : ∀ pc ∈ s.cons, Good s pc
  len : s.cons.length = n
  /-- the wait-group counter is the number of consumer goroutines that have not called `Done` -/
  pool : s.poolCtr = lsum liveW s.cons
  /-- the producer pool's counter is the number of producer goroutines that have not called `Done` -/
  ppool : s.ppool = lsum liveP s.prods
  /-- conservation of items: not yet sent + queued + in a callback + done + never sent = all -/
  items : ∀ x, lsum (unsentC x) s.prods + (qItems s).count x + lsum (cbW x) s.cons + s.done.count x
      + (sendsL s.dropped).count x = (sendsL prog).count x
  /-- failed listings: reported + about to be reported = failed -/
  lrep : ∀ p, s.errors.count (.listing p) + lsum (lrepW p) s.prods = s.lfailed.count p
  /-- failing listings: executed + not yet executed + never executed = all -/
  lfail : ∀ p, s.lfailed.count p + lsum (lpendC p) s.prods + (listsL s.dropped).count (p, false)
      = (listsL prog).count (p, false)
  /-- failing callbacks: reported + about to be reported = finished callbacks that fail -/
  cbfail : ∀ x : Item, s.errors.count (.cb x.1 x.2) + lsum (repW x) s.cons
      = if P.failCb x.1 x.2 then s.done.count x else 0
  dropped : s.killed = false → s.dropped = []
  /-- strict lifecycle: an entry in the error list means the context is cancelled -/
  strict : s.errors ≠ [] → s.killed = true
  capD : s.qd.length ≤ P.capD
  capF : s.qf.length ≤ P.capF
  /-- what is queued and what is still to be sent never exceeds what the program sends in total -/
  lenD : s.qd.length + lsum unsentD s.prods ≤ (sendsL prog).countP (fun x => x.1)
  lenF : s.qf.length + lsum unsentF s.prods ≤ (sendsL prog).countP (fun x => !x.1)

theorem closed_ppool {s : St} (h : CloserOK s) (hc : s.closed = true) : s.ppool = 0 := by
  unfold CloserOK at h
  cases hcl : s.closer <;> simp [hcl] at h <;> simp_all

theorem chClosed_closed {s : St} (h : CloserOK s) (hc : s.dClosed = true ∨ s.fClosed = true) :
    s.closed = true := by
  unfold CloserOK at h
  cases hcl : s.closer <;> simp [hcl] at h <;> simp_all

theorem waiting_of_ppool {s : St} (h : CloserOK s) (hp : s.ppool ≠ 0) :
    s.closer = .waiting ∧ s.closed = false ∧ s.dClosed = false ∧ s.fClosed = false := by
  unfold CloserOK at h
  cases hcl : s.closer <;> simp [hcl] at h <;> simp_all

theorem Good_mono {s t : St} {pc : PC}
    (hk : s.killed = true → t.killed = true) (hc : s.closed = true → t.closed = true)
    (hqd : s.closed = true → s.qd = [] → t.qd = []) (hqf : s.closed = true → s.qf = [] → t.qf = [])
    (h : Good s pc) : Good t pc := by
  cases pc <;> simp only [Good, ExitOK] at h ⊢
  · intro hb; exact hc (h hb)
  · intro hb; exact ⟨hc (h hb).1, hqd (h hb).1 (h hb).2⟩
  all_goals
    rcases h with h | ⟨h1, h2, h3⟩
    · exact Or.inl (hk h)
    · exact Or.inr ⟨hqd h3 h1, hqf h3 h2, hc h3⟩

/-! ### the initial state -/

theorem inv_init (P : Params) (prog : List PAct) (n : Nat) : Inv P prog n (init prog n) := by
  refine ⟨?_, ?_, ?_, ?_, ?_, ?_, ?_, ?_, ?_, ?_, ?_, ?_, ?_, ?_, ?_⟩
  · simp [CloserOK, init]
  · intro pc hpc
    simp [init] at hpc
    rw [hpc.2]; simp [Good]
  · simp [init]
  · simp [init, lsum_replicate, liveW]
  · simp [init, lsum, liveP]
  · intro x; simp [init, qItems, lsum_replicate, cbW, lsum, unsentC]
  · intro p; simp [init, lsum, lrepW]
  · intro p; simp [init, lsum, lpendC]
  · intro x; simp [init, lsum_replicate, repW]
  · intro _; rfl
  · simp [init]
  · simp [init]
  · simp [init]
  · simp [init, lsum, unsentD]
  · simp [init, lsum, unsentF]

/-! ### consumer actions -/

/-- what a consumer action leaves alone -/
theorem consAct_frame (P : Params) (s : St) (pc : PC) :
    let r := consAct P s pc
    r.2.prods = s.prods ∧ r.2.ppool = s.ppool ∧ r.2.closer = s.closer ∧ r.2.closed = s.closed
    ∧ r.2.dClosed = s.dClosed ∧ r.2.fClosed = s.fClosed ∧ r.2.dropped = s.dropped
    ∧ r.2.lfailed = s.lfailed
    ∧ r.2.cons = s.cons
    ∧ (s.killed = true → r.2.killed = true)
    ∧ r.2.qd.length ≤ s.qd.length ∧ r.2.qf.length ≤ s.qf.length := by
  cases pc <;> simp only [consAct] <;> (repeat' split) <;> simp_all [St.killed]

/-- a consumer action keeps what the invariant says about the other consumers -/
theorem consAct_others (P : Params) (s : St) (pc q : PC) (h : Good s q) : Good (consAct P s pc).2 q := by
  have key : ∀ t : St, (s.killed = true → t.killed = true) → t.closed = s.closed →
      (s.qd = [] → t.qd = []) → (s.qf = [] → t.qf = []) → Good t q :=
    fun t hk hc hd hf => Good_mono hk (by intro h; rw [hc]; exact h) (fun _ => hd) (fun _ => hf) h
  cases pc <;> simp only [consAct] <;> (repeat' split) <;> apply key <;> simp_all [St.killed]

/-- after its action the consumer itself satisfies the invariant (repaired order) -/
theorem consAct_self (P : Params) (hP : P.fixedOrder = true) (s : St) (pc : PC) (hg : Good s pc) :
    Good (consAct P s pc).2 (consAct P s pc).1 := by
  cases pc with
  | top => simp only [consAct, hP]; cases hk : s.killed <;> simp [Good, ExitOK, hk]
  | rdStep => simp [consAct, hP, Good]
  | lenD b =>
    simp only [consAct]
    cases hq : s.qd <;> simp [Good] at hg ⊢
    exact fun hb => ⟨hg hb, hq⟩
  | lenF b =>
    simp only [consAct, hP]
    cases hq : s.qf <;> cases b <;> simp [Good, ExitOK] at hg ⊢
    exact Or.inr ⟨hg.2, hq, hg.1⟩
  | work => simp only [consAct]; cases hq : s.qd <;> simp [Good]
  | workF => simp only [consAct]; cases hq : s.qf <;> simp [Good]
  | selD => simp only [consAct]; cases hq : s.qd <;> simp [Good]
  | selF => simp only [consAct]; cases hq : s.qf <;> simp [Good]
  | inCb d x => simp only [consAct]; cases P.failCb d x <;> cases d <;> simp [Good, afterCb]
  | rep d x => simp only [consAct]; cases d <;> simp [Good, afterCb]
  | exiting =>
    simp only [consAct]
    exact Good_mono (pc := .exiting) id id (fun _ h => h) (fun _ h => h) hg
  | exited => simpa [consAct] using hg

/-- item accounting of one consumer action -/
theorem consAct_items (P : Params) (s : St) (pc : PC) (x : Item) :
    let r := consAct P s pc
    (qItems r.2).count x + cbW x r.1 + r.2.done.count x = (qItems s).count x + cbW x pc + s.done.count x := by
  obtain ⟨x1, x2⟩ := x
  cases pc with
  | selD =>
    simp only [consAct]
    cases hq : s.qd with
    | nil => simp [qItems, hq, cbW]
    | cons y r =>
      simp [qItems, hq, cbW, List.count_cons, List.count_append]
  | selF =>
    simp only [consAct]
    cases hq : s.qf with
    | nil => simp [qItems, hq, cbW]
    | cons y r =>
      simp [qItems, hq, cbW, List.count_cons, List.count_append]
      omega
  | inCb d y =>
    simp only [consAct]
    by_cases h : d = x1 ∧ y = x2
    · obtain ⟨rfl, rfl⟩ := h
      cases P.failCb d y <;> cases d <;> simp [qItems, cbW, afterCb] <;> omega
    · have h' : ((d, y) == (x1, x2)) = false := by simpa using h
      cases P.failCb d y <;> cases d <;> simp [qItems, cbW, afterCb, List.count_cons, h'] <;>
        exact fun e hy => h ⟨e.symm, hy⟩
  | rep d y => simp only [consAct]; cases d <;> simp [qItems, cbW, afterCb]
  | top => simp only [consAct]; (repeat' split) <;> simp [cbW]
  | rdStep => simp only [consAct]; (repeat' split) <;> simp [cbW]
  | lenD b => simp only [consAct]; (repeat' split) <;> simp [cbW]
  | lenF b => simp only [consAct]; (repeat' split) <;> simp [cbW]
  | work => simp only [consAct]; (repeat' split) <;> simp [cbW]
  | workF => simp only [consAct]; (repeat' split) <;> simp [cbW]
  | exiting => simp [consAct, cbW, qItems]
  | exited => simp [consAct]

/-- error accounting of one consumer action -/
theorem consAct_errs (P : Params) (s : St) (pc : PC) (x : Item) :
    let r := consAct P s pc
    (r.2.errors.count (.cb x.1 x.2) + repW x r.1 + (if P.failCb x.1 x.2 then s.done.count x else 0)
      = s.errors.count (.cb x.1 x.2) + repW x pc + (if P.failCb x.1 x.2 then r.2.done.count x else 0))
    ∧ (∀ p, r.2.errors.count (.listing p) = s.errors.count (.listing p))
    ∧ (r.2.errors = s.errors ∧ r.2.ctx = s.ctx ∨ r.2.killed = true) := by
  obtain ⟨x1, x2⟩ := x
  cases pc with
  | inCb d y =>
    simp only [consAct]
    by_cases h : d = x1 ∧ y = x2
    · obtain ⟨rfl, rfl⟩ := h
      cases hf : P.failCb d y <;> cases d <;> simp [repW, afterCb] <;> omega
    · have h' : ((d, y) == (x1, x2)) = false := by simpa using h
      cases hf : P.failCb d y <;> cases d <;> simp [repW, afterCb, List.count_cons, h'] <;>
        try exact fun e hy => h ⟨e.symm, hy⟩
  | rep d y =>
    simp only [consAct]
    by_cases h : d = x1 ∧ y = x2
    · obtain ⟨rfl, rfl⟩ := h
      cases d <;> simp [repW, afterCb, List.count_append, St.killed] <;> omega
    · cases d <;> simp [repW, afterCb, List.count_append, List.count_cons, St.killed]
  | selD => simp only [consAct]; split <;> simp [repW]
  | selF => simp only [consAct]; split <;> simp [repW]
  | top => simp only [consAct]; (repeat' split) <;> simp [repW]
  | rdStep => simp only [consAct]; (repeat' split) <;> simp [repW]
  | lenD b => simp only [consAct]; (repeat' split) <;> simp [repW]
  | lenF b => simp only [consAct]; (repeat' split) <;> simp [repW]
  | work => simp only [consAct]; (repeat' split) <;> simp [repW]
  | workF => simp only [consAct]; (repeat' split) <;> simp [repW]
  | exiting => simp [consAct, repW]
  | exited => simp [consAct]

/-- wait-group accounting of one consumer action -/
theorem consAct_pool (P : Params) (s : St) (pc : PC) (hpc : pc ≠ .exited) :
    let r := consAct P s pc
    r.2.poolCtr + liveW pc = s.poolCtr + liveW r.1 ∨ (s.poolCtr = 0 ∧ pc = .exiting) := by
  cases pc with
  | exited => exact absurd rfl hpc
  | exiting => simp only [consAct, liveW]; simp; omega
  | selD => simp only [consAct]; split <;> simp [liveW]
  | selF => simp only [consAct]; split <;> simp [liveW]
  | inCb d y => simp only [consAct]; cases P.failCb d y <;> cases d <;> simp [liveW, afterCb]
  | rep d y => simp only [consAct]; cases d <;> simp [liveW, afterCb]
  | top => simp only [consAct]; (repeat' split) <;> simp [liveW]
  | rdStep => simp only [consAct]; (repeat' split) <;> simp [liveW]
  | lenD b => simp only [consAct]; (repeat' split) <;> simp [liveW]
  | lenF b => simp only [consAct]; (repeat' split) <;> simp [liveW]
  | work => simp only [consAct]; (repeat' split) <;> simp [liveW]
  | workF => simp only [consAct]; (repeat' split) <;> simp [liveW]

/-! ### the step lemma -/

theorem CloserOK_congr {s t : St} (h1 : t.ppool = s.ppool) (h2 : t.closer = s.closer)
    (h3 : t.closed = s.closed) (h4 : t.dClosed = s.dClosed) (h5 : t.fClosed = s.fClosed)
    (h : CloserOK s) : CloserOK t := by
  unfold CloserOK at h ⊢
  rw [h1, h2, h3, h4, h5]; exact h

theorem inv_cons {P : Params} (hP : P.fixedOrder = true) {prog : List PAct} {n : Nat} {s t : St}
    (hI : Inv P prog n s) (i : Nat) (h : consStep P s i = some t) : Inv P prog n t := by
  unfold consStep at h
  cases hpc : s.cons[i]? with
  | none => simp [hpc] at h
  | some pc =>
    simp only [hpc] at h
    split at h
    · cases h
    · rename_i hne
      cases h
      have hmem : pc ∈ s.cons := List.mem_of_getElem? hpc
      have hg := hI.good pc hmem
      obtain ⟨f1, f1', f2, f3, f4, f5, f6, f6', _, f8, f9, f10⟩ := consAct_frame P s pc
      refine ⟨?_, ?_, ?_, ?_, ?_, ?_, ?_, ?_, ?_, ?_, ?_, ?_, ?_, ?_, ?_⟩
      · exact CloserOK_congr f1' f2 f3 f4 f5 hI.closer
      · intro q hq
        have hq' : Good (consAct P s pc).2 q := by
          rcases List.mem_or_eq_of_mem_set hq with hq | rfl
          · exact consAct_others P s pc q (hI.good q hq)
          · exact consAct_self P hP s pc hg
        cases q <;> exact hq'
      · simp [hI.len]
      · have h1 := lsum_set liveW s.cons i pc (consAct P s pc).1 hpc
        have h2 := lsum_ge liveW s.cons i pc hpc
        have h3 := hI.pool
        rcases consAct_pool P s pc hne with h4 | ⟨h4, rfl⟩
        · show (consAct P s pc).2.poolCtr = lsum liveW (s.cons.set i (consAct P s pc).1)
          omega
        · simp [liveW] at h2; omega
      · show (consAct P s pc).2.ppool = lsum liveP (consAct P s pc).2.prods
        rw [f1, f1']; exact hI.ppool
      · intro x
        have h1 := lsum_set (cbW x) s.cons i pc (consAct P s pc).1 hpc
        have h2 := consAct_items P s pc x
        have h3 := hI.items x
        show lsum (unsentC x) (consAct P s pc).2.prods + (qItems (consAct P s pc).2).count x
          + lsum (cbW x) (s.cons.set i (consAct P s pc).1) + (consAct P s pc).2.done.count x
          + (sendsL (consAct P s pc).2.dropped).count x = _
        rw [f1, f6]
        omega
      · intro p
        show (consAct P s pc).2.errors.count (.listing p) + lsum (lrepW p) (consAct P s pc).2.prods
          = (consAct P s pc).2.lfailed.count p
        rw [f1, f6', (consAct_errs P s pc (true, p)).2.1 p]
        exact hI.lrep p
      · intro p
        show (consAct P s pc).2.lfailed.count p + lsum (lpendC p) (consAct P s pc).2.prods
          + (listsL (consAct P s pc).2.dropped).count (p, false) = _
        rw [f1, f6, f6']
        exact hI.lfail p
      · intro x
        have h1 := lsum_set (repW x) s.cons i pc (consAct P s pc).1 hpc
        have h2 := (consAct_errs P s pc x).1
        have h3 := hI.cbfail x
        show (consAct P s pc).2.errors.count (.cb x.1 x.2) + lsum (repW x) (s.cons.set i (consAct P s pc).1)
          = if P.failCb x.1 x.2 then (consAct P s pc).2.done.count x else 0
        omega
      · intro hk
        show (consAct P s pc).2.dropped = []
        rw [f6]
        apply hI.dropped
        cases hs : s.killed
        · rfl
        · have := f8 hs
          have hk' : (consAct P s pc).2.killed = false := hk
          rw [this] at hk'; cases hk'
      · show (consAct P s pc).2.errors ≠ [] → (consAct P s pc).2.killed = true
        rcases (consAct_errs P s pc (true, "")).2.2 with ⟨h1, h2⟩ | h1
        · intro he
          rw [h1] at he
          have := hI.strict he
          simp only [St.killed] at this ⊢
          rw [h2]; exact this
        · exact fun _ => h1
      · have := hI.capD
        show (consAct P s pc).2.qd.length ≤ _
        omega
      · have := hI.capF
        show (consAct P s pc).2.qf.length ≤ _
        omega
      · have := hI.lenD
        show (consAct P s pc).2.qd.length + lsum unsentD (consAct P s pc).2.prods ≤ _
        rw [f1]; omega
      · have := hI.lenF
        show (consAct P s pc).2.qf.length + lsum unsentF (consAct P s pc).2.prods ≤ _
        rw [f1]; omega

/-- a producer action: common part of the proof.  `pr` is the producer before, `pr'` after, `extra`
the producers it started -/
theorem inv_prod_aux {P : Params} {prog : List PAct} {n : Nat} {s t : St} {j : Nat} {pr pr' : Prod}
    {extra : List Prod}
    (hI : Inv P prog n s) (hj : s.prods[j]? = some pr) (hlive : liveP pr = 1)
    (hprods : t.prods = s.prods.set j pr' ++ extra)
    (hcons : t.cons = s.cons) (hcloser : t.closer = s.closer)
    (hclosed : t.closed = s.closed) (hd : t.dClosed = s.dClosed) (hf : t.fClosed = s.fClosed)
    (hpool : t.poolCtr = s.poolCtr) (hdone : t.done = s.done)
    (hk : s.killed = true → t.killed = true)
    (hppool : t.ppool + 1 = s.ppool + liveP pr' + lsum liveP extra)
    (hitems : ∀ x, unsentC x pr + (qItems s).count x + (sendsL s.dropped).count x
      = unsentC x pr' + lsum (unsentC x) extra + (qItems t).count x + (sendsL t.dropped).count x)
    (hlrep : ∀ p, s.errors.count (.listing p) + lrepW p pr + t.lfailed.count p
      = t.errors.count (.listing p) + lrepW p pr' + lsum (lrepW p) extra + s.lfailed.count p)
    (hlfail : ∀ p, s.lfailed.count p + lpendC p pr + (listsL s.dropped).count (p, false)
      = t.lfailed.count p + lpendC p pr' + lsum (lpendC p) extra + (listsL t.dropped).count (p, false))
    (hcb : ∀ x : Item, t.errors.count (.cb x.1 x.2) = s.errors.count (.cb x.1 x.2))
    (hdrop : t.killed = false → t.dropped = [])
    (hstrict : t.errors ≠ [] → t.killed = true)
    (hcapD : t.qd.length ≤ P.capD) (hcapF : t.qf.length ≤ P.capF)
    (hlenD : t.qd.length + unsentD pr' + lsum unsentD extra ≤ s.qd.length + unsentD pr)
    (hlenF : t.qf.length + unsentF pr' + lsum unsentF extra ≤ s.qf.length + unsentF pr) : Inv P prog n t := by
  have hge := lsum_ge liveP s.prods j pr hj
  have hpp : s.ppool ≠ 0 := by have := hI.ppool; omega
  obtain ⟨hw, hncl, hnd, hnf⟩ := waiting_of_ppool hI.closer hpp
  have hset : ∀ f : Prod → Nat, lsum f t.prods + f pr = lsum f s.prods + f pr' + lsum f extra := by
    intro f
    rw [hprods, lsum_append]
    have := lsum_set f s.prods j pr pr' hj
    omega
  refine ⟨?_, ?_, ?_, ?_, ?_, ?_, ?_, ?_, ?_, hdrop, hstrict, hcapD, hcapF, ?_, ?_⟩
  · unfold CloserOK
    rw [hcloser, hclosed, hd, hf, hw]
    exact ⟨hncl, hnd, hnf⟩
  · intro q hq
    rw [hcons] at hq
    refine Good_mono hk ?_ ?_ ?_ (hI.good q hq) <;> (intro h; rw [hncl] at h; cases h)
  · rw [hcons]; exact hI.len
  · rw [hpool, hcons]; exact hI.pool
  · have := hset liveP
    have := hI.ppool
    omega
  · intro x
    have h1 := hI.items x
    have h2 := hitems x
    have h3 := hset (unsentC x)
    rw [hcons, hdone]
    omega
  · intro p
    have h1 := hI.lrep p
    have h2 := hlrep p
    have h3 := hset (lrepW p)
    omega
  · intro p
    have h1 := hI.lfail p
    have h2 := hlfail p
    have h3 := hset (lpendC p)
    omega
  · intro x
    rw [hcb x, hcons, hdone]
    exact hI.cbfail x
  · have := hI.lenD
    have := hset unsentD
    omega
  · have := hI.lenF
    have := hset unsentF
    omega

macro "len_tac" : tactic =>
  `(tactic| (simp [unsentD, unsentF, lsum, List.countP_cons, List.countP_append, sendsL_append] <;> omega))

theorem inv_prod {P : Params} {prog : List PAct} {n : Nat} {s t : St}
    (hI : Inv P prog n s) (j : Nat) (h : prodStep P s j = some t) : Inv P prog n t := by
  unfold prodStep at h
  have hcapD := hI.capD
  have hcapF := hI.capF
  have hdr := hI.dropped
  have hst := hI.strict
  cases hj : s.prods[j]? with
  | none => simp [hj] at h
  | some pr =>
    simp only [hj] at h
    cases pr with
    | gone => cases h
    | rep p k rest =>
      cases h
      refine inv_prod_aux (pr' := .run (rest.drop k)) (extra := []) hI hj rfl (by simp) rfl rfl rfl rfl rfl rfl rfl
        (fun _ => by simp [St.killed]) ?_ ?_ ?_ ?_ ?_ ?_ ?_ hcapD hcapF
        (by have := countP_sendsL_drop_le (fun x => x.1) k rest; simp [unsentD, lsum]; omega)
        (by have := countP_sendsL_drop_le (fun x => !x.1) k rest; simp [unsentF, lsum]; omega)
      · simp [liveP, lsum]
      · intro x
        have := congrArg (fun l => l.count x) (sendsL_take_drop k rest)
        simp [List.count_append] at this
        simp [unsentC, lsum, qItems, sendsL_append, List.count_append]
        omega
      · intro q
        simp [lrepW, lsum, List.count_append, List.count_cons]
      · intro q
        have := congrArg (fun l => l.count (q, false)) (listsL_take_drop k rest)
        simp [List.count_append] at this
        simp [lpendC, lsum, listsL_append, List.count_append]
        omega
      · intro x; simp [List.count_append]
      · intro hk; simp [St.killed] at hk
      · intro _; simp [St.killed]
    | run acts =>
      cases acts with
      | nil =>
        cases h
        have hge := lsum_ge liveP s.prods j _ hj
        have hpp := hI.ppool
        simp only [liveP] at hge
        refine inv_prod_aux (pr' := .gone) (extra := []) hI hj rfl (by simp) rfl rfl rfl rfl rfl rfl rfl id
          ?_ ?_ ?_ ?_ (fun _ => rfl) hdr hst hcapD hcapF (by len_tac) (by len_tac)
        · simp [liveP, lsum]; omega
        · intro x; simp [unsentC, lsum, qItems]
        · intro q; simp [lrepW, lsum]
        · intro q; simp [lpendC, lsum]
      | cons a rest =>
        simp only [] at h
        cases a with
        | send d p =>
          cases d <;> simp only [prodAct] at h <;> split at h <;> cases h <;> rename_i hcap <;>
            refine inv_prod_aux (pr' := .run rest) (extra := []) hI hj rfl (by simp) rfl rfl rfl rfl rfl rfl rfl id
              ?_ ?_ ?_ ?_ (fun _ => rfl) hdr hst ?_ ?_ ?_ ?_ <;>
            first
            | (simp [liveP, lsum]; done)
            | (intro x; simp [unsentC, lsum, qItems, List.count_append, List.count_cons]; omega)
            | (intro x; simp [lrepW, lsum]; done)
            | (intro x; simp [lpendC, lsum]; done)
            | (simp; omega)
            | exact hcapD
            | exact hcapF
            | len_tac
        | list p sl ok k =>
          cases ok <;> simp only [prodAct] at h <;> cases h
          · refine inv_prod_aux (pr' := .rep p k rest) (extra := []) hI hj rfl (by simp) rfl rfl rfl rfl rfl rfl rfl id
              ?_ ?_ ?_ ?_ (fun _ => rfl) hdr hst hcapD hcapF (by len_tac) (by len_tac)
            · simp [liveP, lsum]
            · intro x; simp [unsentC, lsum, qItems]
            · intro q
              simp [lrepW, lsum, List.count_cons]
              by_cases hq : p = q <;> simp [hq]; omega
            · intro q
              simp [lpendC, lsum, List.count_cons]
              by_cases hq : p = q <;> simp [hq]; omega
          · refine inv_prod_aux (pr' := .run rest) (extra := []) hI hj rfl (by simp) rfl rfl rfl rfl rfl rfl rfl id
              ?_ ?_ ?_ ?_ (fun _ => rfl) hdr hst hcapD hcapF (by len_tac) (by len_tac)
            · simp [liveP, lsum]
            · intro x; simp [unsentC, lsum, qItems]
            · intro q; simp [lrepW, lsum]
            · intro q; simp [lpendC, lsum]
        | filtD p acc =>
          simp only [prodAct] at h; cases h
          refine inv_prod_aux (pr' := .run rest) (extra := []) hI hj rfl (by simp) rfl rfl rfl rfl rfl rfl rfl id
            ?_ ?_ ?_ ?_ (fun _ => rfl) hdr hst hcapD hcapF (by len_tac) (by len_tac)
          · simp [liveP, lsum]
          · intro x; simp [unsentC, lsum, qItems]
          · intro q; simp [lrepW, lsum]
          · intro q; simp [lpendC, lsum]
        | filtF p acc =>
          simp only [prodAct] at h; cases h
          refine inv_prod_aux (pr' := .run rest) (extra := []) hI hj rfl (by simp) rfl rfl rfl rfl rfl rfl rfl id
            ?_ ?_ ?_ ?_ (fun _ => rfl) hdr hst hcapD hcapF (by len_tac) (by len_tac)
          · simp [liveP, lsum]
          · intro x; simp [unsentC, lsum, qItems]
          · intro q; simp [lrepW, lsum]
          · intro q; simp [lpendC, lsum]
        | add p =>
          simp only [prodAct] at h; cases h
          refine inv_prod_aux (pr' := .run rest) (extra := []) hI hj rfl (by simp) rfl rfl rfl rfl rfl rfl rfl id
            ?_ ?_ ?_ ?_ (fun _ => rfl) hdr hst hcapD hcapF (by len_tac) (by len_tac)
          · simp [liveP, lsum]
          · intro x; simp [unsentC, lsum, qItems]
          · intro q; simp [lrepW, lsum]
          · intro q; simp [lpendC, lsum]
        | spawn p body =>
          simp only [prodAct] at h; cases h
          refine inv_prod_aux (pr' := .run rest) (extra := [.run body]) hI hj rfl rfl rfl rfl rfl rfl rfl rfl rfl id
            ?_ ?_ ?_ ?_ (fun _ => rfl) hdr hst hcapD hcapF (by len_tac) (by len_tac)
          · simp [liveP, lsum]
          · intro x; simp [unsentC, lsum, qItems, List.count_append]; omega
          · intro q; simp [lrepW, lsum]
          · intro q; simp [lpendC, lsum, List.count_append]; omega
        | chk k =>
          simp only [prodAct] at h
          split at h
          · rename_i hkl
            cases h
            refine inv_prod_aux (pr' := .run (rest.drop k)) (extra := []) hI hj rfl (by simp) rfl rfl rfl rfl rfl rfl rfl id
              ?_ ?_ ?_ ?_ (fun _ => rfl) ?_ hst hcapD hcapF
              (by have := countP_sendsL_drop_le (fun x => x.1) k rest; simp [unsentD, lsum]; omega)
              (by have := countP_sendsL_drop_le (fun x => !x.1) k rest; simp [unsentF, lsum]; omega)
            · simp [liveP, lsum]
            · intro x
              have := congrArg (fun l => l.count x) (sendsL_take_drop k rest)
              simp [List.count_append] at this
              simp [unsentC, lsum, qItems, sendsL_append, List.count_append]
              omega
            · intro q; simp [lrepW, lsum]
            · intro q
              have := congrArg (fun l => l.count (q, false)) (listsL_take_drop k rest)
              simp [List.count_append] at this
              simp [lpendC, lsum, listsL_append, List.count_append]
              omega
            · intro hk'
              have hk'' : s.killed = false := hk'
              rw [hkl] at hk''; cases hk''
          · cases h
            refine inv_prod_aux (pr' := .run rest) (extra := []) hI hj rfl (by simp) rfl rfl rfl rfl rfl rfl rfl id
              ?_ ?_ ?_ ?_ (fun _ => rfl) hdr hst hcapD hcapF (by len_tac) (by len_tac)
            · simp [liveP, lsum]
            · intro x; simp [unsentC, lsum, qItems]
            · intro q; simp [lrepW, lsum]
            · intro q; simp [lpendC, lsum]

theorem inv_closer {P : Params} {prog : List PAct} {n : Nat} {s t : St}
    (hI : Inv P prog n s) (h : closerStep s = some t) : Inv P prog n t := by
  have hcl := hI.closer
  unfold closerStep at h
  unfold CloserOK at hcl
  have key : ∀ t : St, t.cons = s.cons → t.ctx = s.ctx → t.qd = s.qd → t.qf = s.qf →
      (s.closed = true → t.closed = true) → ∀ q ∈ t.cons, Good t q := by
    intro t h1 h2 h3 h4 h5 q hq
    rw [h1] at hq
    exact Good_mono (by simp only [St.killed]; rw [h2]; exact id) h5 (by rw [h3]; exact fun _ h => h)
      (by rw [h4]; exact fun _ h => h) (hI.good q hq)
  cases hc : s.closer <;> simp only [hc] at h hcl
  · split at h
    · cases h
      rename_i hpe
      refine ⟨?_, key _ rfl rfl rfl rfl id, hI.len, hI.pool, hI.ppool, hI.items, hI.lrep, hI.lfail, hI.cbfail,
        hI.dropped, hI.strict, hI.capD, hI.capF, hI.lenD, hI.lenF⟩
      simp [CloserOK, hcl]
      exact hpe
    · cases h
  · cases h
    refine ⟨?_, key _ rfl rfl rfl rfl (fun _ => rfl), hI.len, hI.pool, hI.ppool, hI.items, hI.lrep, hI.lfail,
      hI.cbfail, hI.dropped, hI.strict, hI.capD, hI.capF, hI.lenD, hI.lenF⟩
    simp [CloserOK, hcl]
  · cases h
    refine ⟨?_, key _ rfl rfl rfl rfl id, hI.len, hI.pool, hI.ppool, hI.items, hI.lrep, hI.lfail, hI.cbfail,
      hI.dropped, hI.strict, hI.capD, hI.capF, hI.lenD, hI.lenF⟩
    simp [CloserOK, hcl]
  · cases h
    refine ⟨?_, key _ rfl rfl rfl rfl id, hI.len, hI.pool, hI.ppool, hI.items, hI.lrep, hI.lfail, hI.cbfail,
      hI.dropped, hI.strict, hI.capD, hI.capF, hI.lenD, hI.lenF⟩
    simp [CloserOK, hcl]
  · cases h

/-- an environment act (kill / error event / deadline): only the context changes, and a dead context
stays dead -/
theorem inv_env {P : Params} {prog : List PAct} {n : Nat} {s : St} (hI : Inv P prog n s) (c : Ctx)
    (hk : s.ctx.dead = true → c.dead = true) (hd : c.dead = false → c = s.ctx) :
    Inv P prog n { s with ctx := c } := by
  refine ⟨CloserOK_congr rfl rfl rfl rfl rfl hI.closer, ?_, hI.len, hI.pool, hI.ppool, hI.items, hI.lrep,
    hI.lfail, hI.cbfail, ?_, ?_, hI.capD, hI.capF, hI.lenD, hI.lenF⟩
  · intro q hq
    exact Good_mono (s := s) (by simpa [St.killed] using hk) id (fun _ h => h) (fun _ h => h) (hI.good q hq)
  · intro hk'
    have : c = s.ctx := hd (by simpa [St.killed] using hk')
    apply hI.dropped
    simp only [St.killed] at hk' ⊢
    rw [← this]; exact hk'
  · intro he
    have := hI.strict he
    simp only [St.killed] at this ⊢
    exact hk this

/-- the step lemma of the repaired protocol -/
theorem inv_step {P : Params} (hP : P.fixedOrder = true) {prog : List PAct} {n : Nat} {s t : St}
    (hI : Inv P prog n s) (l : Label) (h : step P s l = some t) : Inv P prog n t := by
  cases l with
  | prod j => exact inv_prod hI j h
  | closer => exact inv_closer hI h
  | cons i => exact inv_cons hP hI i h
  | kill =>
    simp only [step] at h; cases h
    exact inv_env hI _ (fun _ => by simp) (fun h => by simp at h)
  | errEvent =>
    simp only [step] at h; cases h
    exact inv_env hI _ (fun _ => by simp) (fun h => by simp at h)
  | timeout =>
    simp only [step] at h; cases h
    exact inv_env hI _ (fun _ => by simp) (fun h => by simp at h)

theorem inv_reachable {P : Params} (hP : P.fixedOrder = true) (prog : List PAct) (n : Nat) (s : St)
    (h : Reachable (sys P prog n) s) : Inv P prog n s :=
  inv_of_init_step (sys P prog n) (Inv P prog n) (inv_init P prog n)
    (fun _ l _ hI hs => inv_step hP hI l hs) s h

end Goat.Loop
