/-
Proofs/LoopOld — the consumer order of the tree tagged `pinned-base` (emptiness test first, step
read second) loses the last item: an explicit schedule for one consumer.
-/
import Goat.Proofs.LoopCor

namespace Goat.Loop
open Goat.LTS

/-- the pinned order, channel capacity 1000, no failing callback -/
def oldParams : Params := { capD := 1000, capF := 1000, failCb := fun _ _ => false, fixedOrder := false }

/-- the repaired order, same parameters -/
def newParams : Params := { oldParams with fixedOrder := true }

/-- one producer, one file -/
def oneFile : List PAct := [.list "./" false true, .send false "./a"]

/-- the consumer finds both queues empty (3 actions) and is then held in the gap before its step
read; the producer lists the root and sends the file; the closer sees the producers done and
announces; the consumer reads the step, sees `StepClose`, returns and signs off -/
def lostSchedule : List Label :=
  [.cons 0, .cons 0, .cons 0, .prod, .prod, .closer, .closer, .cons 0, .cons 0]

theorem lost_item_state :
    let s := (sys oldParams oneFile 1).run lostSchedule
    s.poolCtr = 0 ∧ s.cons = [PC.exited] ∧ s.qf = ["./a"] ∧ s.done = [] ∧ s.errors = [] ∧ s.killed = false := by
  decide

/-- the same schedule under the repaired order: the consumer is held after its step read (which
saw "not closed"), then finds the file -/
theorem same_schedule_repaired :
    let s := (sys newParams oneFile 1).run (lostSchedule ++ List.replicate 12 (.cons 0))
    s.poolCtr = 0 ∧ s.cons = [PC.exited] ∧ s.qf = [] ∧ s.done = [(false, "./a")] ∧ s.errors = [] := by
  decide

end Goat.Loop
