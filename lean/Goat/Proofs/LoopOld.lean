/-
Proofs/LoopOld — two explicit schedules.

1. The consumer order of the tree tagged `pinned-base` (emptiness test first, step read second) loses
   the last item: a schedule for one consumer.
2. The current code after a kill: with a full channel and every consumer gone, a producer stays
   blocked in its send for ever (a goroutine leak; `Wait` has returned): a schedule for one
   consumer, three files and channel capacity 1.
-/
import Goat.Proofs.LoopTerm

namespace Goat.Loop
open Goat.LTS

/-- the pinned order, channel capacity 1000, no failing callback -/
def oldParams : Params := { capD := 1000, capF := 1000, failCb := fun _ _ => false, fixedOrder := false }

/-- the repaired order, same parameters -/
def newParams : Params := { oldParams with fixedOrder := true }

/-- no filters, both callbacks set -/
def plainCfg : WalkCfg := { fileFilter := none, dirFilter := none, onFile := true, onDir := true }

/-- one producer, one file: `ReadDir("./")`, send, kill test -/
def oneFile : List PAct := [.list "./" false true 0, .send false "./a", .chk 0]

theorem oneFile_eq : rootProg plainCfg (fun _ => false) "./" true (.cons "a" .file .nil) = oneFile := by
  rfl

/-- the consumer finds both queues empty (3 actions) and is then held in the gap before its step
read; the producer lists the root, sends the file, tests the kill flag and signs off; the closer
sees the producer pool empty and announces; the consumer reads the step, sees `StepClose`, returns
and signs off -/
def lostSchedule : List Label :=
  [.cons 0, .cons 0, .cons 0, .prod 0, .prod 0, .prod 0, .prod 0, .closer, .closer, .cons 0, .cons 0]

theorem lost_item_state :
    let s := (sys oldParams oneFile 1).run lostSchedule
    s.poolCtr = 0 ∧ s.cons = [PC.exited] ∧ s.qf = ["./a"] ∧ s.done = [] ∧ errorsOf s = [] ∧ s.killed = false := by
  decide

/-- the same schedule under the repaired order: the consumer is held after its step read (which
saw "not closed"), then finds the file -/
theorem same_schedule_repaired :
    let s := (sys newParams oneFile 1).run (lostSchedule ++ List.replicate 12 (.cons 0))
    s.poolCtr = 0 ∧ s.cons = [PC.exited] ∧ s.qf = [] ∧ s.done = [(false, "./a")] ∧ errorsOf s = [] := by
  decide

/-! ### a producer left behind after a kill -/

/-- capacity 1, the callback on `./a` fails -/
def tinyParams : Params := { capD := 1, capF := 1, failCb := fun _ p => p == "./a", fixedOrder := true }

/-- three files -/
def threeFiles : List PAct :=
  [.list "./" false true 0, .send false "./a", .chk 4, .send false "./b", .chk 2, .send false "./c", .chk 0]

theorem threeFiles_eq : rootProg plainCfg (fun _ => false) "./" true
    (.cons "a" .file (.cons "b" .file (.cons "c" .file .nil))) = threeFiles := by
  rfl

/-- the producer lists the root and sends `a`; the consumer receives it and is inside the callback;
the producer sends `b` (the channel is full again) and blocks sending `c`; the callback fails, the
consumer reports the error (which kills the lifecycle), sees the kill at the top of its loop,
leaves and signs off -/
def stuckSchedule : List Label :=
  [.prod 0, .prod 0, .prod 0] ++ List.replicate 7 (.cons 0) ++ [.prod 0, .prod 0, .prod 0]
    ++ List.replicate 4 (.cons 0)

/-- `Bool` form of `BlockedSend` on the head of producer `j` -/
def blockedB (P : Params) (s : St) (j : Nat) : Bool :=
  match s.prods[j]? with
  | some (.run (.send true _ :: _)) => decide (P.capD ≤ s.qd.length)
  | some (.run (.send false _ :: _)) => decide (P.capF ≤ s.qf.length)
  | _ => false

theorem blockedB_spec {P : Params} {s : St} {j : Nat} (h : blockedB P s j = true) :
    ∃ pr, s.prods[j]? = some pr ∧ BlockedSend P s pr := by
  unfold blockedB at h
  split at h
  · rename_i p r heq; exact ⟨_, heq, by simpa [BlockedSend] using h⟩
  · rename_i p r heq; exact ⟨_, heq, by simpa [BlockedSend] using h⟩
  · cases h

theorem stuck_state :
    let s := (sys tinyParams threeFiles 1).run stuckSchedule
    s.poolCtr = 0 ∧ s.cons = [PC.exited] ∧ s.killed = true ∧ s.qf = ["./b"] ∧ s.done = [(false, "./a")]
      ∧ errorsOf s = [.cb false "./a", .canceled] ∧ s.closer = .waiting ∧ s.ppool = 1
      ∧ blockedB tinyParams s 0 = true := by
  decide

/-- from that state on, whatever happens: producer 0 stays blocked in its send, the producer pool
never empties, the closer never leaves `producerPool.Wait()` -/
theorem stuck_forever (more : List Label) :
    let t := (sys tinyParams threeFiles 1).runFrom ((sys tinyParams threeFiles 1).run stuckSchedule) more
    (∃ pr, t.prods[0]? = some pr ∧ BlockedSend tinyParams t pr) ∧ t.ppool ≠ 0 ∧ t.closer = .waiting := by
  intro t
  have hs := stuck_state
  obtain ⟨pr, hj, hb⟩ := blockedB_spec hs.2.2.2.2.2.2.2.2
  have hall : AllExited ((sys tinyParams threeFiles 1).run stuckSchedule) := by
    intro pc hpc; rw [hs.2.1] at hpc; simpa using hpc
  obtain ⟨h1, h2, _⟩ := blocked_forever (P := tinyParams) (prog := threeFiles) (n := 1) _ hall 0 pr hj hb more
  have hI : Inv tinyParams threeFiles 1 t :=
    inv_reachable rfl _ _ _ (runFrom_reachable _ (run_reachable _ stuckSchedule) more)
  have hlive : liveP pr = 1 := by cases pr <;> simp [BlockedSend] at hb ⊢ <;> rfl
  have hge := lsum_ge liveP t.prods 0 pr h1
  have hpp : t.ppool ≠ 0 := by have := hI.ppool; omega
  exact ⟨⟨pr, h1, h2⟩, hpp, (waiting_of_ppool hI.closer hpp).1⟩

end Goat.Loop
