/-
Proofs/LoopTerm — what happens after the lifecycle has been killed (callback / listing error, scope
Kill or Error event, deadline): every action of a goroutine of the loop strictly decreases a
measure, every consumer leaves within a fixed number of its own steps, `Wait` becomes enabled; a
state in which no goroutine can move is either the regular end or has every remaining producer
blocked in a send on a full channel (nobody receives any more).  Helper lemmas for
`Goat/Props/C08.lean`.
-/
import Goat.Proofs.LoopCor

namespace Goat.Loop
open Goat.LTS

/-! ### the measure -/

/-- how many of its own actions a consumer at this program counter can still execute once the
lifecycle is killed (repaired order) -/
def rank : PC → Nat
  | .exited => 0
  | .exiting => 1
  | .top => 2
  | .rep false _ => 3
  | .inCb false _ => 4
  | .selF => 5
  | .workF => 6
  | .rep true _ => 7
  | .inCb true _ => 8
  | .selD => 9
  | .work => 10
  | .lenF _ => 11
  | .lenD _ => 12
  | .rdStep => 13

theorem rank_le (pc : PC) : rank pc ≤ 13 := by
  cases pc <;> simp [rank] <;> (rename_i d _; cases d <;> simp)

theorem rank_zero {pc : PC} (h : rank pc = 0) : pc = .exited := by
  cases pc <;> simp [rank] at h ⊢ <;> (rename_i d _; cases d <;> simp at h)

/-- the actions a producer goroutine can still execute (its program, the programs of the producers
it will start, and the final `pool.Done()`) -/
def prodSize : Prod → Nat
  | .run acts => 1 + sizeL acts
  | .rep _ _ rest => 2 + sizeL rest
  | .gone => 0

def closerRank : CPC → Nat
  | .waiting => 4
  | .waited => 3
  | .announced => 2
  | .closedD => 1
  | .fin => 0

/-- an upper bound for the number of actions the goroutines of a killed loop can still execute -/
def measure (s : St) : Nat := lsum rank s.cons + lsum prodSize s.prods + closerRank s.closer

/-! ### a killed lifecycle stays killed -/

theorem prodStep_killed {P : Params} {s t : St} {j : Nat} (hs : prodStep P s j = some t)
    (hk : s.killed = true) : t.killed = true := by
  unfold prodStep at hs
  split at hs
  · cases hs
  · cases hs
  · cases hs; simp [St.killed]
  · cases hs; exact hk
  · rename_i a rest _
    cases a with
    | send d p => cases d <;> simp only [prodAct] at hs <;> split at hs <;> cases hs <;> exact hk
    | list p sl ok k => cases ok <;> simp only [prodAct] at hs <;> cases hs <;> exact hk
    | filtD _ _ => simp only [prodAct] at hs; cases hs; exact hk
    | filtF _ _ => simp only [prodAct] at hs; cases hs; exact hk
    | add _ => simp only [prodAct] at hs; cases hs; exact hk
    | spawn _ _ => simp only [prodAct] at hs; cases hs; exact hk
    | chk _ => simp only [prodAct] at hs; split at hs <;> cases hs <;> exact hk

theorem step_killed {P : Params} {s t : St} (l : Label) (hs : step P s l = some t)
    (hk : s.killed = true) : t.killed = true := by
  cases l with
  | prod j => exact prodStep_killed hs hk
  | closer =>
    have := (closerStep_cons_done hs).2.2.1
    simp only [St.killed] at hk ⊢; rw [this]; exact hk
  | cons i =>
    simp only [step, consStep] at hs
    split at hs
    · cases hs
    · split at hs
      · cases hs
      · cases hs
        rename_i pc _ _
        exact (consAct_frame P s pc).2.2.2.2.2.2.2.2.2.1 hk
  | kill => simp only [step] at hs; cases hs; simp [St.killed]
  | errEvent => simp only [step] at hs; cases hs; simp [St.killed]
  | timeout => simp only [step] at hs; cases hs; simp [St.killed]

/-- an environment act on a killed lifecycle changes nothing -/
theorem env_step_killed {P : Params} {s t : St} (l : Label) (hl : l.isProg = false)
    (hs : step P s l = some t) (hk : s.killed = true) : t = s := by
  have h1 := Ctx.kill_of_dead (c := s.ctx) hk
  have h2 := Ctx.expire_of_dead (c := s.ctx) hk
  cases l <;> simp [Label.isProg] at hl <;> simp only [step] at hs <;> cases hs
  · rw [h1]
  · rw [h1]
  · rw [h2]

/-! ### every action of a goroutine of a killed loop decreases the measure -/

theorem consAct_rank (P : Params) (hP : P.fixedOrder = true) (s : St) (hk : s.killed = true) (pc : PC)
    (hne : pc ≠ .exited) : rank (consAct P s pc).1 < rank pc := by
  cases pc with
  | exited => exact absurd rfl hne
  | top => simp [consAct, hk, rank]
  | rdStep => simp [consAct, hP, rank]
  | lenD b => simp only [consAct]; split <;> simp [rank]
  | lenF b => simp only [consAct, hP]; (repeat' split) <;> simp_all [rank]
  | work => simp only [consAct]; split <;> simp [rank]
  | selD => simp only [consAct]; split <;> simp [rank]
  | workF => simp only [consAct]; split <;> simp [rank]
  | selF => simp only [consAct]; split <;> simp [rank]
  | inCb d x => simp only [consAct]; cases d <;> split <;> simp [rank, afterCb]
  | rep d x => cases d <;> simp [consAct, rank, afterCb]
  | exiting => simp [consAct, rank]

theorem consStep_measure {P : Params} (hP : P.fixedOrder = true) {s t : St} {i : Nat}
    (hs : consStep P s i = some t) (hk : s.killed = true) : measure t < measure s := by
  unfold consStep at hs
  cases hpc : s.cons[i]? with
  | none => simp [hpc] at hs
  | some pc =>
    simp only [hpc] at hs
    split at hs
    · cases hs
    · rename_i hne
      cases hs
      obtain ⟨f1, _, f2, _⟩ := consAct_frame P s pc
      have h1 := lsum_set rank s.cons i pc (consAct P s pc).1 hpc
      have h2 := consAct_rank P hP s hk pc hne
      have h3 := lsum_ge rank s.cons i pc hpc
      show lsum rank (s.cons.set i (consAct P s pc).1) + lsum prodSize (consAct P s pc).2.prods
        + closerRank (consAct P s pc).2.closer < _
      rw [f1, f2]
      unfold measure
      omega

theorem prodStep_measure {P : Params} {s t : St} {j : Nat} (hs : prodStep P s j = some t) :
    measure t < measure s := by
  have hcd := prodStep_cons_done hs
  unfold prodStep at hs
  cases hj : s.prods[j]? with
  | none => simp [hj] at hs
  | some pr =>
    have key : ∀ (pr' : Prod) (extra : List Prod), t.prods = s.prods.set j pr' ++ extra → t.closer = s.closer →
        prodSize pr' + lsum prodSize extra < prodSize pr → measure t < measure s := by
      intro pr' extra h1 h2 h3
      have := lsum_set prodSize s.prods j pr pr' hj
      unfold measure
      rw [h1, h2, hcd.1, lsum_append]
      omega
    simp only [hj] at hs
    cases pr with
    | gone => cases hs
    | rep p k rest =>
      cases hs
      refine key (.run (rest.drop k)) [] (by simp) rfl ?_
      have := sizeL_drop_le k rest
      simp [prodSize, lsum]; omega
    | run acts =>
      cases acts with
      | nil => cases hs; exact key .gone [] (by simp) rfl (by simp [prodSize, lsum])
      | cons a rest =>
        simp only [] at hs
        cases a with
        | send d p =>
          cases d <;> simp only [prodAct] at hs <;> split at hs <;> cases hs <;>
            exact key (.run rest) [] (by simp) rfl (by simp [prodSize, lsum, PAct.size])
        | list p sl ok k =>
          cases ok <;> simp only [prodAct] at hs <;> cases hs
          · exact key (.rep p k rest) [] (by simp) rfl (by simp [prodSize, lsum, PAct.size])
          · exact key (.run rest) [] (by simp) rfl (by simp [prodSize, lsum, PAct.size])
        | filtD _ _ =>
          simp only [prodAct] at hs; cases hs
          exact key (.run rest) [] (by simp) rfl (by simp [prodSize, lsum, PAct.size])
        | filtF _ _ =>
          simp only [prodAct] at hs; cases hs
          exact key (.run rest) [] (by simp) rfl (by simp [prodSize, lsum, PAct.size])
        | add _ =>
          simp only [prodAct] at hs; cases hs
          exact key (.run rest) [] (by simp) rfl (by simp [prodSize, lsum, PAct.size])
        | spawn _ body =>
          simp only [prodAct] at hs; cases hs
          exact key (.run rest) [.run body] rfl rfl (by simp [prodSize, lsum, PAct.size]; omega)
        | chk k =>
          simp only [prodAct] at hs
          split at hs <;> cases hs
          · refine key (.run (rest.drop k)) [] (by simp) rfl ?_
            have := sizeL_drop_le k rest
            simp [prodSize, lsum, PAct.size]; omega
          · exact key (.run rest) [] (by simp) rfl (by simp [prodSize, lsum, PAct.size])

theorem closerStep_measure {s t : St} (hs : closerStep s = some t) : measure t < measure s := by
  have h := closerStep_cons_done hs
  unfold closerStep at hs
  unfold measure
  rw [h.1, h.2.2.2.2.2]
  cases hc : s.closer <;> simp only [hc] at hs
  · split at hs <;> cases hs; simp [closerRank]
  all_goals first | (cases hs; simp [closerRank]) | cases hs

/-- after a kill every action of a goroutine of the loop strictly decreases the measure -/
theorem prog_step_measure {P : Params} (hP : P.fixedOrder = true) {s t : St} (l : Label)
    (hl : l.isProg = true) (hs : step P s l = some t) (hk : s.killed = true) : measure t < measure s := by
  cases l with
  | prod j => exact prodStep_measure hs
  | closer => exact closerStep_measure hs
  | cons i => exact consStep_measure hP hs hk
  | kill => cases hl
  | errEvent => cases hl
  | timeout => cases hl

/-- after a kill, whatever the schedule, the goroutines of the loop execute at most `measure s` more
actions: no infinite run -/
theorem fired_prog_bound {P : Params} (hP : P.fixedOrder = true) {prog : List PAct} {n : Nat} (s : St)
    (hk : s.killed = true) (more : List Label) :
    ((sys P prog n).firedFrom s more).countP (fun p => p.2.isProg) ≤ measure s := by
  induction more generalizing s with
  | nil => simp [Sys.firedFrom]
  | cons l rest ih =>
    simp only [Sys.firedFrom]
    cases hs : (sys P prog n).step s l with
    | none => exact ih s hk
    | some t =>
      simp only []
      have hkt := step_killed l hs hk
      cases hl : l.isProg
      · have := env_step_killed l hl hs hk
        subst this
        have := ih t hk
        simp [hl]
        exact this
      · have h1 := prog_step_measure hP l hl hs hk
        have h2 := ih t hkt
        simp [hl]
        omega

/-! ### every consumer leaves within 13 of its own steps -/

theorem cons_of_other_step {P : Params} {s t : St} (l : Label) (i : Nat) (hl : l ≠ .cons i)
    (hs : step P s l = some t) : t.cons[i]? = s.cons[i]? := by
  cases l with
  | prod j => rw [(prodStep_cons_done hs).1]
  | closer => rw [(closerStep_cons_done hs).1]
  | cons i' =>
    have hne : i' ≠ i := fun e => hl (by rw [e])
    simp only [step, consStep] at hs
    split at hs
    · cases hs
    · split at hs
      · cases hs
      · cases hs
        simp [hne]
  | kill => simp only [step] at hs; cases hs; rfl
  | errEvent => simp only [step] at hs; cases hs; rfl
  | timeout => simp only [step] at hs; cases hs; rfl

/-- after a kill, consumer `i` at `pc` is, after any schedule containing `k` entries `cons i`, at a
program counter of rank at most `rank pc - k` -/
theorem rank_after {P : Params} (hP : P.fixedOrder = true) {prog : List PAct} {n : Nat} (i : Nat) (s : St)
    (hk : s.killed = true) (pc : PC) (hpc : s.cons[i]? = some pc) (more : List Label) :
    ∃ pc', ((sys P prog n).runFrom s more).cons[i]? = some pc' ∧
      rank pc' ≤ rank pc - more.count (.cons i) := by
  induction more generalizing s pc with
  | nil => exact ⟨pc, hpc, by simp⟩
  | cons l rest ih =>
    rw [runFrom_cons]
    unfold Sys.next
    cases hs : (sys P prog n).step s l with
    | none =>
      simp only [Option.getD]
      obtain ⟨pc', h1, h2⟩ := ih s hk pc hpc
      refine ⟨pc', h1, ?_⟩
      by_cases hl : l = .cons i
      · subst hl
        -- disabled: the consumer has exited
        have : pc = .exited := by
          apply Classical.byContradiction
          intro hne
          obtain ⟨t, ht⟩ := cons_enabled P s i pc hpc hne
          have hs' : step P s (.cons i) = none := hs
          rw [ht] at hs'; cases hs'
        subst this
        have : rank pc' = 0 := by simp [rank] at h2; exact h2
        omega
      · simp [hl]
        have : (l == Label.cons i) = false := by simpa using hl
        simp
        exact h2
    | some t =>
      simp only [Option.getD]
      have hkt := step_killed l hs hk
      by_cases hl : l = .cons i
      · subst hl
        have hs' : consStep P s i = some t := hs
        unfold consStep at hs'
        simp only [hpc] at hs'
        split at hs'
        · cases hs'
        · rename_i hne
          cases hs'
          have hr := consAct_rank P hP s hk pc hne
          have hlen : i < s.cons.length := by
            have := List.getElem?_eq_some_iff.mp hpc
            exact this.1
          obtain ⟨pc', h1, h2⟩ := ih _ hkt (consAct P s pc).1 (by simp [hlen])
          refine ⟨pc', h1, ?_⟩
          simp
          omega
      · have hsame := cons_of_other_step l i hl hs
        obtain ⟨pc', h1, h2⟩ := ih t hkt pc (by rw [hsame]; exact hpc)
        refine ⟨pc', h1, ?_⟩
        have : (l == Label.cons i) = false := by simpa using hl
        simp [List.count_cons, this]
        exact h2

/-- after a kill, a schedule that gives consumer `i` 13 turns makes it leave and sign off -/
theorem cons_exits_after_kill {P : Params} (hP : P.fixedOrder = true) {prog : List PAct} {n : Nat} (i : Nat)
    (s : St) (hk : s.killed = true) (pc : PC) (hpc : s.cons[i]? = some pc) (more : List Label)
    (hm : 13 ≤ more.count (.cons i)) :
    ((sys P prog n).runFrom s more).cons[i]? = some .exited := by
  obtain ⟨pc', h1, h2⟩ := rank_after hP (prog := prog) (n := n) i s hk pc hpc more
  have := rank_le pc
  have : rank pc' = 0 := by omega
  rw [h1, rank_zero this]

/-- after a kill, a schedule that gives every consumer 13 turns ends with `Wait` enabled -/
theorem wait_after_kill {P : Params} (hP : P.fixedOrder = true) {prog : List PAct} {n : Nat} (s : St)
    (hr : Reachable (sys P prog n) s) (hk : s.killed = true) (more : List Label)
    (hm : ∀ i, i < n → 13 ≤ more.count (.cons i)) : waitEnabled ((sys P prog n).runFrom s more) := by
  have hI := inv_reachable hP prog n s hr
  have hIt := inv_reachable hP prog n _ (runFrom_reachable _ hr more)
  apply wait_of_allExited hIt
  intro pc hpc
  obtain ⟨i, hi⟩ := exists_index_of_mem hpc
  have hlt : i < n := by
    have := (List.getElem?_eq_some_iff.mp hi).1
    rw [hIt.len] at this; exact this
  have : i < s.cons.length := by rw [hI.len]; exact hlt
  have hsi : s.cons[i]? = some s.cons[i] := by simp [this]
  have := cons_exits_after_kill hP (prog := prog) (n := n) i s hk _ hsi more (hm i hlt)
  rw [hi] at this
  cases this; rfl

/-! ### states in which no goroutine of the loop can move -/

/-- producer blocked in a send on a full channel -/
def BlockedSend (P : Params) (s : St) : Prod → Prop
  | .run (.send true _ :: _) => P.capD ≤ s.qd.length
  | .run (.send false _ :: _) => P.capF ≤ s.qf.length
  | _ => False

/-- a producer that has not signed off and is not blocked in a send on a full channel can move -/
theorem prod_enabled {P : Params} {prog : List PAct} {n : Nat} {s : St} (hI : Inv P prog n s) (j : Nat)
    (pr : Prod) (hj : s.prods[j]? = some pr) (hl : pr ≠ .gone) (hb : ¬ BlockedSend P s pr) :
    ∃ t, step P s (.prod j) = some t := by
  have hge := lsum_ge liveP s.prods j pr hj
  have hlive : liveP pr = 1 := by cases pr <;> simp [liveP] at hl ⊢
  have hpp : s.ppool ≠ 0 := by have := hI.ppool; omega
  obtain ⟨_, _, hnd, hnf⟩ := waiting_of_ppool hI.closer hpp
  simp only [step, prodStep, hj]
  cases pr with
  | gone => exact absurd rfl hl
  | rep p k rest => exact ⟨_, rfl⟩
  | run acts =>
    cases acts with
    | nil => exact ⟨_, rfl⟩
    | cons a rest =>
      cases a with
      | send d p =>
        cases d <;> simp only [BlockedSend, Nat.not_le] at hb <;> simp [prodAct, hb, hnd, hnf]
      | list p sl ok k => cases ok <;> exact ⟨_, rfl⟩
      | filtD _ _ => exact ⟨_, rfl⟩
      | filtF _ _ => exact ⟨_, rfl⟩
      | add _ => exact ⟨_, rfl⟩
      | spawn _ _ => exact ⟨_, rfl⟩
      | chk k => simp only [prodAct]; split <;> exact ⟨_, rfl⟩

/-- if no goroutine of the loop can move, every consumer has signed off, every producer has signed
off or is blocked in a send on a full channel, and if all producers have signed off the closer has
finished -/
theorem stuck_shape {P : Params} {prog : List PAct} {n : Nat} {s : St} (hI : Inv P prog n s)
    (hstuck : ∀ l, l.isProg = true → step P s l = none) :
    AllExited s ∧ (∀ (j : Nat) (pr : Prod), s.prods[j]? = some pr → pr = .gone ∨ BlockedSend P s pr)
      ∧ (s.ppool = 0 → s.closer = .fin) := by
  refine ⟨?_, ?_, ?_⟩
  · apply Classical.byContradiction
    intro hall
    obtain ⟨pc, hpc, hne⟩ := exists_live_cons hall
    obtain ⟨i, hi⟩ := exists_index_of_mem hpc
    obtain ⟨t, ht⟩ := cons_enabled P s i pc hi hne
    have := hstuck (.cons i) rfl
    rw [ht] at this; cases this
  · intro j pr hj
    apply Classical.byContradiction
    intro hcon
    have h1 : pr ≠ .gone := fun e => hcon (Or.inl e)
    have h2 : ¬ BlockedSend P s pr := fun e => hcon (Or.inr e)
    obtain ⟨t, ht⟩ := prod_enabled hI j pr hj h1 h2
    have := hstuck (.prod j) rfl
    rw [ht] at this; cases this
  · intro h0
    have := hstuck .closer rfl
    simp only [step, closerStep] at this
    cases hc : s.closer <;> simp [hc, h0] at this ⊢

/-- the capacities cover everything the program sends: a send never finds its channel full -/
theorem not_blocked_of_capacity {P : Params} {prog : List PAct} {n : Nat} {s : St} (hI : Inv P prog n s)
    (hD : (sendsL prog).countP (fun x => x.1) ≤ P.capD) (hF : (sendsL prog).countP (fun x => !x.1) ≤ P.capF)
    (j : Nat) (pr : Prod) (hj : s.prods[j]? = some pr) : ¬ BlockedSend P s pr := by
  have h1 := lsum_ge unsentD s.prods j pr hj
  have h2 := lsum_ge unsentF s.prods j pr hj
  have h3 := hI.lenD
  have h4 := hI.lenF
  cases pr with
  | gone => simp [BlockedSend]
  | rep _ _ _ => simp [BlockedSend]
  | run acts =>
    cases acts with
    | nil => simp [BlockedSend]
    | cons a rest =>
      cases a with
      | send d p =>
        cases d <;> simp only [BlockedSend, Nat.not_le] <;>
          simp [unsentD, unsentF] at h1 h2 <;> omega
      | _ => simp [BlockedSend]

/-- with capacities that cover everything the program sends, a state in which no goroutine of the
loop can move is the regular end: everybody has signed off, both channels are closed -/
theorem terminal_of_capacity {P : Params} {prog : List PAct} {n : Nat} {s : St} (hI : Inv P prog n s)
    (hD : (sendsL prog).countP (fun x => x.1) ≤ P.capD) (hF : (sendsL prog).countP (fun x => !x.1) ≤ P.capF)
    (hstuck : ∀ l, l.isProg = true → step P s l = none) :
    AllExited s ∧ (∀ pr ∈ s.prods, pr = Prod.gone) ∧ s.closer = .fin := by
  obtain ⟨h1, h2, h3⟩ := stuck_shape hI hstuck
  have hg : ∀ pr ∈ s.prods, pr = Prod.gone := by
    intro pr hpr
    obtain ⟨j, hj⟩ := exists_index_of_mem hpr
    rcases h2 j pr hj with h | h
    · exact h
    · exact absurd h (not_blocked_of_capacity hI hD hF j pr hj)
  refine ⟨h1, hg, h3 ?_⟩
  rw [hI.ppool]
  exact lsum_gone liveP rfl s.prods hg

/-! ### once every consumer has signed off, a producer blocked on a full channel stays blocked -/

theorem blocked_step {P : Params} {s t : St} (hall : AllExited s) (l : Label) (hs : step P s l = some t) :
    (P.capD ≤ s.qd.length → t.qd = s.qd) ∧ (P.capF ≤ s.qf.length → t.qf = s.qf)
    ∧ (∀ (j : Nat) (pr : Prod), s.prods[j]? = some pr → BlockedSend P s pr → t.prods[j]? = some pr) := by
  cases l with
  | closer =>
    have := closerStep_cons_done hs
    exact ⟨fun _ => this.2.2.2.1, fun _ => this.2.2.2.2.1, fun j pr hj _ => by rw [this.2.2.2.2.2]; exact hj⟩
  | cons i =>
    simp only [step, consStep] at hs
    split at hs
    · cases hs
    · rename_i pc hpc
      have := hall pc (List.mem_of_getElem? hpc)
      simp [this] at hs
  | kill => simp only [step] at hs; cases hs; exact ⟨fun _ => rfl, fun _ => rfl, fun _ _ hj _ => hj⟩
  | errEvent => simp only [step] at hs; cases hs; exact ⟨fun _ => rfl, fun _ => rfl, fun _ _ hj _ => hj⟩
  | timeout => simp only [step] at hs; cases hs; exact ⟨fun _ => rfl, fun _ => rfl, fun _ _ hj _ => hj⟩
  | prod j' =>
    simp only [step] at hs
    unfold prodStep at hs
    cases hj' : s.prods[j']? with
    | none => simp [hj'] at hs
    | some pr' =>
      simp only [hj'] at hs
      have hlt : j' < s.prods.length := (List.getElem?_eq_some_iff.mp hj').1
      -- the acting producer is not a blocked one; every other entry keeps its place
      have keep : ∀ (pr'' : Prod) (extra : List Prod) (j : Nat) (pr : Prod), ¬ BlockedSend P s pr' →
          s.prods[j]? = some pr → BlockedSend P s pr → (s.prods.set j' pr'' ++ extra)[j]? = some pr := by
        intro pr'' extra j pr hnb hj hb
        have hne : j' ≠ j := by
          intro e; subst e
          rw [hj'] at hj; cases hj; exact hnb hb
        have hjlt : j < s.prods.length := (List.getElem?_eq_some_iff.mp hj).1
        rw [List.getElem?_append_left (by simpa using hjlt)]
        simp [hne, hj]
      cases pr' with
      | gone => cases hs
      | rep p k rest =>
        cases hs
        exact ⟨fun _ => rfl, fun _ => rfl, fun j pr hj hb => by
          have := keep (.run (rest.drop k)) [] j pr (by simp [BlockedSend]) hj hb
          simpa using this⟩
      | run acts =>
        cases acts with
        | nil =>
          cases hs
          exact ⟨fun _ => rfl, fun _ => rfl, fun j pr hj hb => by
            have := keep .gone [] j pr (by simp [BlockedSend]) hj hb
            simpa using this⟩
        | cons a rest =>
          simp only [] at hs
          cases a with
          | send d p =>
            cases d <;> simp only [prodAct] at hs <;> split at hs <;> cases hs <;> rename_i hcap
            · refine ⟨fun _ => rfl, fun hfull => absurd hfull (by omega), fun j pr hj hb => ?_⟩
              have := keep (.run rest) [] j pr (by simp only [BlockedSend]; omega) hj hb
              cases pr with
              | run acts' =>
                cases acts' with
                | cons a' r' => cases a' <;> simp_all [BlockedSend]
                | nil => simp [BlockedSend] at hb
              | _ => simp [BlockedSend] at hb
            · refine ⟨fun hfull => absurd hfull (by omega), fun _ => rfl, fun j pr hj hb => ?_⟩
              have := keep (.run rest) [] j pr (by simp only [BlockedSend]; omega) hj hb
              cases pr with
              | run acts' =>
                cases acts' with
                | cons a' r' => cases a' <;> simp_all [BlockedSend]
                | nil => simp [BlockedSend] at hb
              | _ => simp [BlockedSend] at hb
          | list p sl ok k =>
            cases ok <;> simp only [prodAct] at hs <;> cases hs
            · exact ⟨fun _ => rfl, fun _ => rfl, fun j pr hj hb => by
                have := keep (.rep p k rest) [] j pr (by simp [BlockedSend]) hj hb
                simpa using this⟩
            · exact ⟨fun _ => rfl, fun _ => rfl, fun j pr hj hb => by
                have := keep (.run rest) [] j pr (by simp [BlockedSend]) hj hb
                simpa using this⟩
          | filtD _ _ =>
            simp only [prodAct] at hs; cases hs
            exact ⟨fun _ => rfl, fun _ => rfl, fun j pr hj hb => by
              have := keep (.run rest) [] j pr (by simp [BlockedSend]) hj hb
              simpa using this⟩
          | filtF _ _ =>
            simp only [prodAct] at hs; cases hs
            exact ⟨fun _ => rfl, fun _ => rfl, fun j pr hj hb => by
              have := keep (.run rest) [] j pr (by simp [BlockedSend]) hj hb
              simpa using this⟩
          | add _ =>
            simp only [prodAct] at hs; cases hs
            exact ⟨fun _ => rfl, fun _ => rfl, fun j pr hj hb => by
              have := keep (.run rest) [] j pr (by simp [BlockedSend]) hj hb
              simpa using this⟩
          | spawn _ body =>
            simp only [prodAct] at hs; cases hs
            exact ⟨fun _ => rfl, fun _ => rfl, fun j pr hj hb =>
              keep (.run rest) [.run body] j pr (by simp [BlockedSend]) hj hb⟩
          | chk k =>
            simp only [prodAct] at hs
            split at hs <;> cases hs
            · exact ⟨fun _ => rfl, fun _ => rfl, fun j pr hj hb => by
                have := keep (.run (rest.drop k)) [] j pr (by simp [BlockedSend]) hj hb
                simpa using this⟩
            · exact ⟨fun _ => rfl, fun _ => rfl, fun j pr hj hb => by
                have := keep (.run rest) [] j pr (by simp [BlockedSend]) hj hb
                simpa using this⟩

theorem blockedSend_congr {P : Params} {s t : St} {pr : Prod} (hb : BlockedSend P s pr)
    (hd : P.capD ≤ s.qd.length → t.qd = s.qd) (hf : P.capF ≤ s.qf.length → t.qf = s.qf) :
    BlockedSend P t pr := by
  cases pr with
  | run acts =>
    cases acts with
    | nil => simp [BlockedSend] at hb
    | cons a r =>
      cases a with
      | send d p =>
        cases d <;> simp only [BlockedSend] at hb ⊢
        · rw [hf hb]; exact hb
        · rw [hd hb]; exact hb
      | _ => simp [BlockedSend] at hb
  | _ => simp [BlockedSend] at hb

/-- every consumer has signed off and producer `j` is blocked in a send on a full channel: whatever
happens afterwards it stays there (nobody receives any more) and `producerPool.Wait()` never returns -/
theorem blocked_forever {P : Params} {prog : List PAct} {n : Nat} (s : St) (hall : AllExited s) (j : Nat) (pr : Prod)
    (hj : s.prods[j]? = some pr) (hb : BlockedSend P s pr) (more : List Label) :
    let t := (sys P prog n).runFrom s more
    t.prods[j]? = some pr ∧ BlockedSend P t pr ∧ AllExited t := by
  induction more generalizing s with
  | nil => exact ⟨hj, hb, hall⟩
  | cons l rest ih =>
    rw [runFrom_cons]
    unfold Sys.next
    cases hs : (sys P prog n).step s l with
    | none => exact ih s hall hj hb
    | some t =>
      simp only [Option.getD]
      have h1 := blocked_step (P := P) hall l hs
      have h2 := allExited_step hall l hs
      exact ih t h2.1 (h1.2.2 j pr hj hb) (blockedSend_congr hb h1.1 h1.2.1)

end Goat.Loop
