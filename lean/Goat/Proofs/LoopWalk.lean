/-
Proofs/LoopWalk — the producer programs of `fsloop` send exactly the selected nodes and list exactly
the accepted directories, whatever the oracle (fresh producer or inline) decides.  Helper lemmas
for `Goat/Props/C08.lean`.
-/
import Goat.Model.Loop

namespace Goat.Loop

/-! ### `sendsL`, `listsL`, `sizeL` are list homomorphisms -/

@[simp] theorem sendsL_nil : sendsL [] = [] := by simp [sendsL]
@[simp] theorem sendsL_cons (a : PAct) (r : List PAct) : sendsL (a :: r) = a.sends ++ sendsL r := by
  simp [sendsL]
@[simp] theorem listsL_nil : listsL [] = [] := by simp [listsL]
@[simp] theorem listsL_cons (a : PAct) (r : List PAct) : listsL (a :: r) = a.lists ++ listsL r := by
  simp [listsL]
@[simp] theorem sizeL_nil : sizeL [] = 0 := by simp [sizeL]
@[simp] theorem sizeL_cons (a : PAct) (r : List PAct) : sizeL (a :: r) = a.size + sizeL r := by
  simp [sizeL]

theorem sendsL_append (a b : List PAct) : sendsL (a ++ b) = sendsL a ++ sendsL b := by
  induction a with
  | nil => simp
  | cons x r ih => simp [ih]

theorem listsL_append (a b : List PAct) : listsL (a ++ b) = listsL a ++ listsL b := by
  induction a with
  | nil => simp
  | cons x r ih => simp [ih]

theorem sizeL_append (a b : List PAct) : sizeL (a ++ b) = sizeL a + sizeL b := by
  induction a with
  | nil => simp
  | cons x r ih => simp [ih]; omega

theorem sendsL_take_drop (k : Nat) (l : List PAct) : sendsL (l.take k) ++ sendsL (l.drop k) = sendsL l := by
  rw [← sendsL_append, List.take_append_drop]

theorem listsL_take_drop (k : Nat) (l : List PAct) : listsL (l.take k) ++ listsL (l.drop k) = listsL l := by
  rw [← listsL_append, List.take_append_drop]

theorem sizeL_drop_le (k : Nat) (l : List PAct) : sizeL (l.drop k) ≤ sizeL l := by
  have h := sizeL_append (l.take k) (l.drop k)
  rw [List.take_append_drop] at h
  omega

@[simp] theorem sends_send (d : Bool) (p : Path) : (PAct.send d p).sends = [(d, p)] := by simp [PAct.sends]
@[simp] theorem sends_spawn (p : Path) (b : List PAct) : (PAct.spawn p b).sends = sendsL b := by simp [PAct.sends]
@[simp] theorem sends_list (p : Path) (a b : Bool) (k : Nat) : (PAct.list p a b k).sends = [] := by simp [PAct.sends]
@[simp] theorem sends_filtD (p : Path) (a : Bool) : (PAct.filtD p a).sends = [] := by simp [PAct.sends]
@[simp] theorem sends_filtF (p : Path) (a : Bool) : (PAct.filtF p a).sends = [] := by simp [PAct.sends]
@[simp] theorem sends_add (p : Path) : (PAct.add p).sends = [] := by simp [PAct.sends]
@[simp] theorem sends_chk (k : Nat) : (PAct.chk k).sends = [] := by simp [PAct.sends]

@[simp] theorem lists_send (d : Bool) (p : Path) : (PAct.send d p).lists = [] := by simp [PAct.lists]
@[simp] theorem lists_spawn (p : Path) (b : List PAct) : (PAct.spawn p b).lists = listsL b := by simp [PAct.lists]
@[simp] theorem lists_list (p : Path) (a b : Bool) (k : Nat) : (PAct.list p a b k).lists = [(p, b)] := by simp [PAct.lists]
@[simp] theorem lists_filtD (p : Path) (a : Bool) : (PAct.filtD p a).lists = [] := by simp [PAct.lists]
@[simp] theorem lists_filtF (p : Path) (a : Bool) : (PAct.filtF p a).lists = [] := by simp [PAct.lists]
@[simp] theorem lists_add (p : Path) : (PAct.add p).lists = [] := by simp [PAct.lists]
@[simp] theorem lists_chk (k : Nat) : (PAct.chk k).lists = [] := by simp [PAct.lists]

/-! ### The program sends the selected nodes (as a multiset: equal counts) -/

mutual
theorem walkNode_sends_count (c : WalkCfg) (oracle : Path → Bool) (x : Item) (p : Path) (after : Nat) :
    (n : Node) → (sendsL (walkNode c oracle p after n)).count x = (selNode c p n).count x
  | .file => by
    unfold walkNode selNode WalkCfg.accF
    cases c.onFile <;> cases hf : c.fileFilter <;> simp
    split <;> simp
  | .dir l k => by
    have ih := walkKids_sends_count c oracle x (p ++ "/") k
    unfold walkNode selNode
    cases hacc : c.accD p
    · cases c.dirFilter <;> simp
    · cases ho : oracle p <;> cases l <;> cases c.onDir <;> cases c.dirFilter <;>
        simp [sendsL_append, List.count_cons] at ih ⊢ <;> omega
theorem walkKids_sends_count (c : WalkCfg) (oracle : Path → Bool) (x : Item) (base : Path) :
    (k : Kids) → (sendsL (walkKids c oracle base k)).count x = (selKids c base k).count x
  | .nil => by simp [walkKids, selKids]
  | .cons name n rest => by
    have ih1 := walkNode_sends_count c oracle x (base ++ name) (walkKids c oracle base rest).length n
    have ih2 := walkKids_sends_count c oracle x base rest
    unfold walkKids selKids
    cases skipName name
    · simp [sendsL_append, List.count_append, ih1, ih2]
    · simpa using ih2
end

mutual
theorem walkNode_lists_count (c : WalkCfg) (oracle : Path → Bool) (x : Path × Bool) (p : Path) (after : Nat) :
    (n : Node) → (listsL (walkNode c oracle p after n)).count x = (lstNode c p n).count x
  | .file => by
    unfold walkNode lstNode
    cases c.onFile <;> cases hf : c.fileFilter <;> simp
    split <;> simp
  | .dir l k => by
    have ih := walkKids_lists_count c oracle x (p ++ "/") k
    unfold walkNode lstNode
    cases hacc : c.accD p
    · cases c.dirFilter <;> simp
    · cases ho : oracle p <;> cases l <;> cases c.onDir <;> cases c.dirFilter <;>
        simp [listsL_append, List.count_cons] at ih ⊢ <;> omega
theorem walkKids_lists_count (c : WalkCfg) (oracle : Path → Bool) (x : Path × Bool) (base : Path) :
    (k : Kids) → (listsL (walkKids c oracle base k)).count x = (lstKids c base k).count x
  | .nil => by simp [walkKids, lstKids]
  | .cons name n rest => by
    have ih1 := walkNode_lists_count c oracle x (base ++ name) (walkKids c oracle base rest).length n
    have ih2 := walkKids_lists_count c oracle x base rest
    unfold walkKids lstKids
    cases skipName name
    · simp [listsL_append, List.count_append, ih1, ih2]
    · simpa using ih2
end

theorem rootProg_sends_perm (c : WalkCfg) (oracle : Path → Bool) (root : Path) (l : Bool) (k : Kids) :
    (sendsL (rootProg c oracle root l k)).Perm (selected c root l k) := by
  rw [List.perm_iff_count]
  intro x
  have h := walkKids_sends_count c oracle x root k
  unfold rootProg selected
  cases l <;> simp [h]

theorem rootProg_lists_perm (c : WalkCfg) (oracle : Path → Bool) (root : Path) (l : Bool) (k : Kids) :
    (listsL (rootProg c oracle root l k)).Perm (listed c root l k) := by
  rw [List.perm_iff_count]
  intro x
  have h := walkKids_lists_count c oracle x root k
  unfold rootProg listed
  cases l <;> simp [List.count_cons, h]

end Goat.Loop
