/-
Proofs/LoopWalk — the producers of `fsloop` enqueue exactly the selected nodes and list exactly
the accepted directories, whatever the oracle (fresh producer or inline) decides.  Helper lemmas
for `Goat/Props/C08.lean`.
-/
import Goat.Model.Loop

namespace Goat.Loop

/-! ### `sends`, `lists` are list homomorphisms -/

theorem sends_append (a b : List PAct) : sends (a ++ b) = sends a ++ sends b := by
  induction a with
  | nil => rfl
  | cons x r ih => cases x <;> simp [sends, ih]

theorem lists_append (a b : List PAct) : lists (a ++ b) = lists a ++ lists b := by
  induction a with
  | nil => rfl
  | cons x r ih => cases x <;> simp [lists, ih]

theorem sends_flatten_cons (a : List PAct) (ls : List (List PAct)) :
    sends (a :: ls).flatten = sends a ++ sends ls.flatten := by
  simp [sends_append]

theorem sends_flatten_append (a b : List (List PAct)) :
    sends (a ++ b).flatten = sends a.flatten ++ sends b.flatten := by
  simp [sends_append]

theorem lists_flatten_append (a b : List (List PAct)) :
    lists (a ++ b).flatten = lists a.flatten ++ lists b.flatten := by
  simp [lists_append]

/-- everything a (sub)walk sends, by whichever producer -/
def Out.sends (o : Out) : List Item := Loop.sends o.own ++ Loop.sends o.spawned.flatten

/-- every `ReadDir` of a (sub)walk, by whichever producer -/
def Out.lists (o : Out) : List (Path × Bool) := Loop.lists o.own ++ Loop.lists o.spawned.flatten

theorem Out.sends_append (a b : Out) (x : Item) :
    (a.append b).sends.count x = a.sends.count x + b.sends.count x := by
  simp [Out.sends, Out.append, Loop.sends_append, List.count_append]
  omega

theorem Out.lists_append (a b : Out) (x : Path × Bool) :
    (a.append b).lists.count x = a.lists.count x + b.lists.count x := by
  simp [Out.lists, Out.append, Loop.lists_append, List.count_append]
  omega

/-! ### The walk sends the selected nodes (as a multiset: equal counts) -/

mutual
theorem walkNode_sends_count (c : WalkCfg) (oracle : Path → Bool) (x : Item) (p : Path) :
    (n : Node) → (walkNode c oracle p n).sends.count x = (selNode c p n).count x
  | .file => by
    unfold walkNode selNode WalkCfg.accF
    cases c.onFile <;> cases hf : c.fileFilter <;> simp [Out.sends, Loop.sends]
    split <;> simp [Loop.sends]
  | .dir l k => by
    have ih := walkKids_sends_count c oracle x (p ++ "/") k
    unfold walkNode selNode
    simp only [Out.sends] at ih ⊢
    cases hacc : c.accD p
    · cases c.dirFilter <;> simp [Loop.sends]
    · cases ho : oracle p <;> cases l <;> cases c.onDir <;> cases c.dirFilter <;>
        simp [Loop.sends, Loop.sends_append, List.count_append, List.count_cons] at ih ⊢ <;> omega
theorem walkKids_sends_count (c : WalkCfg) (oracle : Path → Bool) (x : Item) (base : Path) :
    (k : Kids) → (walkKids c oracle base k).sends.count x = (selKids c base k).count x
  | .nil => by simp [walkKids, selKids, Out.sends, Loop.sends]
  | .cons name n rest => by
    have ih1 := walkNode_sends_count c oracle x (base ++ name) n
    have ih2 := walkKids_sends_count c oracle x base rest
    unfold walkKids selKids
    cases skipName name
    · simp [Out.sends_append, List.count_append, ih1, ih2]
    · simpa using ih2
end

mutual
theorem walkNode_lists_count (c : WalkCfg) (oracle : Path → Bool) (x : Path × Bool) (p : Path) :
    (n : Node) → (walkNode c oracle p n).lists.count x = (lstNode c p n).count x
  | .file => by
    unfold walkNode lstNode
    cases c.onFile <;> cases hf : c.fileFilter <;> simp [Out.lists, Loop.lists]
    split <;> simp [Loop.lists]
  | .dir l k => by
    have ih := walkKids_lists_count c oracle x (p ++ "/") k
    unfold walkNode lstNode
    simp only [Out.lists] at ih ⊢
    cases hacc : c.accD p
    · cases c.dirFilter <;> simp [Loop.lists]
    · cases ho : oracle p <;> cases l <;> cases c.onDir <;> cases c.dirFilter <;>
        simp [Loop.lists, Loop.lists_append, List.count_append, List.count_cons] at ih ⊢ <;> omega
theorem walkKids_lists_count (c : WalkCfg) (oracle : Path → Bool) (x : Path × Bool) (base : Path) :
    (k : Kids) → (walkKids c oracle base k).lists.count x = (lstKids c base k).count x
  | .nil => by simp [walkKids, lstKids, Out.lists, Loop.lists]
  | .cons name n rest => by
    have ih1 := walkNode_lists_count c oracle x (base ++ name) n
    have ih2 := walkKids_lists_count c oracle x base rest
    unfold walkKids lstKids
    cases skipName name
    · simp [Out.lists_append, List.count_append, ih1, ih2]
    · simpa using ih2
end

theorem walkRoot_sends_perm (c : WalkCfg) (oracle : Path → Bool) (root : Path) (l : Bool) (k : Kids) :
    (sends (producerSeqs c oracle root l k).flatten).Perm (selected c root l k) := by
  rw [List.perm_iff_count]
  intro x
  have h := walkKids_sends_count c oracle x root k
  unfold producerSeqs walkRoot selected
  cases l <;> simp [Out.sends, Loop.sends, Loop.sends_append, List.count_append] at h ⊢
  omega

theorem walkRoot_lists_perm (c : WalkCfg) (oracle : Path → Bool) (root : Path) (l : Bool) (k : Kids) :
    (lists (producerSeqs c oracle root l k).flatten).Perm (listed c root l k) := by
  rw [List.perm_iff_count]
  intro x
  have h := walkKids_lists_count c oracle x root k
  unfold producerSeqs walkRoot listed
  cases l <;> simp [Out.lists, Loop.lists, Loop.lists_append, List.count_append, List.count_cons] at h ⊢
  omega

/-! ### Interleavings are permutations of the concatenation -/

theorem interleave_perm {α : Type} {ls : List (List α)} {l : List α} (h : Interleave ls l) :
    l.Perm ls.flatten := by
  induction h with
  | done => simp
  | dropNil _ ih => simpa using ih
  | @take pre x xs post l _ ih =>
    have h1 : (pre ++ (x :: xs) :: post).flatten = pre.flatten ++ x :: (xs ++ post.flatten) := by simp
    have h2 : (pre ++ xs :: post).flatten = pre.flatten ++ (xs ++ post.flatten) := by simp
    rw [h1]
    rw [h2] at ih
    exact (List.Perm.cons x ih).trans List.perm_middle.symm

/-- the concatenation itself is an interleaving (producers run one after the other) -/
theorem interleave_flatten {α : Type} (ls : List (List α)) : Interleave ls ls.flatten := by
  induction ls with
  | nil => exact .done
  | cons a r ih =>
    induction a with
    | nil => simpa using Interleave.dropNil ih
    | cons x xs ihx => exact Interleave.take (pre := []) ihx

theorem sends_perm {a b : List PAct} (h : a.Perm b) : (sends a).Perm (sends b) := by
  induction h with
  | nil => exact .nil
  | cons x _ ih => cases x <;> simp [sends, ih]
  | swap x y l => cases x <;> cases y <;> simp [sends] <;> exact List.Perm.swap ..
  | trans _ _ ih1 ih2 => exact ih1.trans ih2

theorem lists_perm {a b : List PAct} (h : a.Perm b) : (lists a).Perm (lists b) := by
  induction h with
  | nil => exact .nil
  | cons x _ ih => cases x <;> simp [lists, ih]
  | swap x y l => cases x <;> cases y <;> simp [lists] <;> exact List.Perm.swap ..
  | trans _ _ ih1 ih2 => exact ih1.trans ih2

end Goat.Loop
