/-
Refinement of every method of the root memory filespace (`MemFS.Root.*`) to the point-wise
specification `Goat/Spec/FS.lean`, on a raw path whose normal form is known.  (Helper lemmas for
C01; the property statements are in `Goat/Props/C01.lean`.)

Every mutating method `m` gets a lemma `root_m`:
    `FS.Mut pre post (abs t) result (abs t')  ∧  Keeps t t' segs  ∧  (result = err → t' = t)`
and every query a lemma giving its answer in terms of `abs t`.
-/
import Goat.Proofs.MemFSBridge

namespace Goat
namespace MemFS

open Path (Name split join reduceAbsPath norm Reduced Plain NoSlash dotSeg slash)
open FS (Entry State Result Mut)
open MemAbs

/-- what every call preserves: the root stays a directory, sibling names stay unique, and any
predicate that holds for all names of the tree and for the names the call was given still holds for
all names of the tree -/
structure Keeps (t t' : Node) (segs : List Name) : Prop where
  isDir : t'.isDir = true
  nodup : t'.NoDup
  all : ∀ P : Name → Prop, t.All P → (∀ s ∈ segs, P s) → t'.All P

theorem Keeps.refl {t : Node} (h : Inv t) (segs : List Name) : Keeps t t segs :=
  ⟨h.isDir, h.wf.1, fun _ hP _ => hP⟩

theorem Keeps.inv {t t' : Node} {segs : List Name} (h : Inv t) (k : Keeps t t' segs)
    (hs : ∀ s ∈ segs, Plain s) : Inv t' :=
  ⟨k.isDir, k.nodup, k.all Plain h.wf.2 hs⟩

theorem Keeps.mono {t t' : Node} {segs segs' : List Name} (k : Keeps t t' segs)
    (h : ∀ s ∈ segs, s ∈ segs') : Keeps t t' segs' :=
  ⟨k.isDir, k.nodup, fun P hP hs => k.all P hP (fun s m => hs s (h s m))⟩

theorem mkdirs_isDir (t t' : Node) (p : List Name) (h : t.mkdirs p = some t') : t'.isDir = true := by
  cases t with
  | file d => simp [Node.mkdirs_file] at h
  | dir k =>
    cases p with
    | nil => simp [Node.mkdirs_dir_nil] at h; subst h; rfl
    | cons s rest =>
      rw [Node.mkdirs_dir_cons] at h
      cases hc : (Node.childOr k s).mkdirs rest with
      | none => simp [hc] at h
      | some c => simp [hc] at h; subst h; rfl

theorem update_isDir (t t' : Node) (p : List Name) (f : Kids → Option Kids)
    (h : t.update p f = some t') : t'.isDir = true := by
  obtain ⟨k, k', _, _, h3⟩ := Node.update_eq_some t t' p f h
  cases p with
  | nil => simp at h3; subst h3; rfl
  | cons s rest =>
    cases t with
    | file d => simp [Node.update_file] at h
    | dir k0 =>
      rw [Node.update_dir_cons] at h
      cases hf : k0.find s with
      | none => simp [hf] at h
      | some c =>
        simp only [hf, Option.bind_some] at h
        cases hu : c.update rest f with
        | none => simp [hu] at h
        | some c' => simp [hu] at h; subst h; rfl

theorem keeps_mkdirs {t t' : Node} (ht : Inv t) (p : List Name) (h : t.mkdirs p = some t') :
    Keeps t t' p :=
  ⟨mkdirs_isDir t t' p h, Node.mkdirs_nodup t t' p ht.wf.1 h,
   fun _ hP hs => Node.mkdirs_all t t' p hP hs h⟩

/-! ### MkdirAll -/

theorem root_mkdirAll (t : Node) (ht : Inv t) (raw : Bytes) (p : List Name) (hn : norm raw = some p) :
    Mut (FS.mkdirOk (abs t) p) (FS.mkdirSt (abs t) p) (abs t)
        (Root.mkdirAll t raw).2 (abs (Root.mkdirAll t raw).1)
    ∧ Keeps t (Root.mkdirAll t raw).1 p
    ∧ ((Root.mkdirAll t raw).2 = .err → (Root.mkdirAll t raw).1 = t) := by
  have hp := Path.norm_reduced raw p hn
  simp only [Root.mkdirAll, reduceAbsPath_of_norm hn, mkdirAll_join t ht hp]
  cases hm : t.mkdirs p with
  | none =>
    refine ⟨Or.inr ⟨?_, rfl, rfl⟩, Keeps.refl ht p, fun _ => rfl⟩
    intro hok
    have := (mkdirs_ok_iff t p).mpr hok
    simp [hm] at this
  | some t' =>
    refine ⟨Or.inl ⟨?_, rfl, abs_mkdirs t t' p hm⟩, keeps_mkdirs ht p hm, fun h => by cases h⟩
    exact (mkdirs_ok_iff t p).mp (by simp [hm])

/-! ### the second stage of a put: bind one name in the (now existing) parent directory -/

theorem lookup_concat_after_mkdirs (t t1 : Node) (init : List Name) (name : Name)
    (h1 : t.mkdirs init = some t1) : t1.lookup (init ++ [name]) = t.lookup (init ++ [name]) := by
  apply Node.lookup_mkdirs_other t t1 init _ h1
  intro hp
  have := hp.length_le
  simp at this
  omega

theorem find_after_mkdirs (t t1 : Node) (init : List Name) (name : Name) (k1 : Kids)
    (h1 : t.mkdirs init = some t1) (hk : t1.lookup init = some (.dir k1)) :
    k1.find name = t.lookup (init ++ [name]) := by
  rw [← lookup_concat_after_mkdirs t t1 init name h1, Node.lookup_append, hk]
  simp only [Option.bind_some, Node.lookup_dir_cons]
  cases k1.find name <;> simp

theorem parent_exists_of_child (t : Node) (init : List Name) (name : Name) (n : Node)
    (h : t.lookup (init ++ [name]) = some n) : ∃ k, t.lookup init = some (.dir k) := by
  rw [Node.lookup_append] at h
  cases hl : t.lookup init with
  | none => simp [hl] at h
  | some m =>
    cases m with
    | file d => simp [hl] at h
    | dir k => exact ⟨k, rfl⟩

/-- stage 2 fails exactly when the occupant of the name is not acceptable, and then stage 1 had
changed nothing -/
theorem put_none (t t1 : Node) (init : List Name) (name : Name) (x : Node)
    (f : Kids → Option Kids) (C : Option Node → Bool) (hf : PutLike f name x C) (hC : C none = true)
    (h1 : t.mkdirs init = some t1) (h2 : t1.update init f = none) :
    C (t.lookup (init ++ [name])) = false ∧ t1 = t := by
  obtain ⟨k1, hk1⟩ := Node.lookup_mkdirs_prefix t t1 init init h1 List.prefix_rfl
  have hfk := Node.update_eq_none t1 init f h2 k1 hk1
  rw [hf k1, find_after_mkdirs t t1 init name k1 h1 hk1] at hfk
  have hc : C (t.lookup (init ++ [name])) = false := by
    cases hcc : C (t.lookup (init ++ [name])) with
    | false => rfl
    | true => simp [hcc] at hfk
  refine ⟨hc, ?_⟩
  cases hl : t.lookup (init ++ [name]) with
  | none => rw [hl, hC] at hc; cases hc
  | some n =>
    obtain ⟨k, hk⟩ := parent_exists_of_child t init name n hl
    have := Node.mkdirs_eq_self t init k hk
    rw [h1] at this
    exact Option.some.inj this

theorem put_some (t t1 t2 : Node) (_ht : Inv t) (init : List Name) (name : Name) (x : Node)
    (f : Kids → Option Kids) (C : Option Node → Bool) (hf : PutLike f name x C)
    (h1 : t.mkdirs init = some t1) (h2 : t1.update init f = some t2) :
    C (t.lookup (init ++ [name])) = true := by
  obtain ⟨k1, k', hk1, hfk, _⟩ := Node.update_eq_some t1 t2 init f h2
  rw [hf k1, find_after_mkdirs t t1 init name k1 h1 hk1] at hfk
  cases hcc : C (t.lookup (init ++ [name])) with
  | true => rfl
  | false => simp [hcc] at hfk

theorem keeps_put (t t1 t2 : Node) (ht : Inv t) (init : List Name) (name : Name) (x : Node)
    (f : Kids → Option Kids) (C : Option Node → Bool) (hf : PutLike f name x C)
    (hx : x.NoDup) (extra : List Name)
    (hxall : ∀ P : Name → Prop, t.All P → (∀ s ∈ init ++ [name] ++ extra, P s) → x.All P)
    (h1 : t.mkdirs init = some t1) (h2 : t1.update init f = some t2) :
    Keeps t t2 (init ++ [name] ++ extra) := by
  have k1 := keeps_mkdirs ht init h1
  have hset : ∀ k k', f k = some k' → k' = k.set name x := by
    intro k k' hk
    rw [hf k] at hk
    split at hk
    · exact (Option.some.inj hk).symm
    · cases hk
  refine ⟨update_isDir t1 t2 init f h2, ?_, ?_⟩
  · apply Node.update_nodup t1 t2 init f k1.nodup _ h2
    intro k k' hk hfk
    rw [hset k k' hfk]
    exact Kids.nodup_set k name x hk hx
  · intro P hP hs
    have h1all := k1.all P hP (fun s m => hs s (by simp [m]))
    apply Node.update_all t1 t2 init f h1all _ h2
    intro k k' hk hfk
    rw [hset k k' hfk]
    exact Kids.all_set k name x hk (hs name (by simp)) (hxall P hP hs)

/-! ### WriteFile -/

/-- acceptance test of `WriteFile`/`Writer`: anything but a directory -/
def notDir : Option Node → Bool
  | some (.dir _) => false
  | _ => true

theorem writeIn_putLike (name : Name) (data : Bytes) :
    PutLike (Root.writeIn name data) name (.file data) notDir := by
  intro k
  simp only [Root.writeIn, Kids.add]
  cases hfind : k.find name with
  | none => simp [notDir]
  | some n => cases n <;> simp [notDir]

theorem openIn_putLike (name : Name) : PutLike (Root.openIn name) name (.file []) notDir := by
  intro k
  simp only [Root.openIn, Kids.add]
  cases hfind : k.find name with
  | none => simp [notDir]
  | some n => cases n <;> simp [notDir]

theorem notDir_iff (t : Node) (p : List Name) :
    notDir (t.lookup p) = true ↔ abs t p ≠ some .dir := by
  simp only [abs]
  cases t.lookup p with
  | none => simp [notDir]
  | some n => cases n <;> simp [notDir, Node.entry]

theorem dropLast_concat {α} (l : List α) (a : α) : (l ++ [a]).dropLast = l := by simp

theorem eq_nil_or_snoc {α} (l : List α) : l = [] ∨ ∃ init a, l = init ++ [a] := by
  rcases List.eq_nil_or_concat l with h | ⟨L, b, h⟩
  · exact Or.inl h
  · exact Or.inr ⟨L, b, by simpa using h⟩

/-- the two-stage put with a `notDir` test yields exactly `writeSt` -/
theorem writeSt_of_put (t t2 : Node) (init : List Name) (name : Name) (data : Bytes)
    (hnd : abs t (init ++ [name]) ≠ some .dir)
    (h : ∀ q, abs t2 q = if init ++ [name] <+: q then abs (.file data) (q.drop (init.length + 1))
                          else FS.mkdirSt (abs t) init q) :
    abs t2 = FS.writeSt (abs t) (init ++ [name]) data := by
  funext q
  rw [h q]
  simp only [FS.writeSt, dropLast_concat]
  by_cases hq : q = init ++ [name]
  · subst hq
    simp [abs, Node.entry]
  · simp only [hq, if_false]
    split
    · next hp =>
      obtain ⟨r, rfl⟩ := hp
      have hr : r ≠ [] := fun e => hq (by simp [e])
      have hd : (init ++ [name] ++ r).drop (init.length + 1) = r :=
        List.drop_left' (by simp)
      rw [hd]
      have h1 : abs (.file data) r = none := by
        cases r with
        | nil => exact absurd rfl hr
        | cons a b => exact abs_file_cons data a b
      have h2 : ¬ (init ++ [name] ++ r <+: init) := by
        intro hp; have := hp.length_le; simp at this; omega
      rw [h1]
      simp only [FS.mkdirSt, h2, if_false]
      exact (abs_below t (init ++ [name]) r hr hnd).symm
    · rfl

theorem writeOk_concat (S : State) (init : List Name) (name : Name) :
    FS.writeOk S (init ++ [name]) ↔ FS.mkdirOk S init ∧ S (init ++ [name]) ≠ some .dir := by
  simp [FS.writeOk]

theorem not_writeOk_nil (S : State) : ¬ FS.writeOk S [] := by simp [FS.writeOk]

/-- common proof of `WriteFile` and of opening a `Writer`: stage 1 fails -/
theorem put_write_none1 (t : Node) (init : List Name) (name : Name)
    (h1 : t.mkdirs init = none) : ¬ FS.writeOk (abs t) (init ++ [name]) := by
  intro hok
  have := (mkdirs_ok_iff t init).mpr ((writeOk_concat ..).mp hok).1
  simp [h1] at this

/-- … stage 2 fails -/
theorem put_write_none2 (t t1 : Node) (init : List Name) (name : Name) (data : Bytes)
    (f : Kids → Option Kids) (hf : PutLike f name (.file data) notDir)
    (h1 : t.mkdirs init = some t1) (h2 : t1.update init f = none) :
    ¬ FS.writeOk (abs t) (init ++ [name]) ∧ t1 = t := by
  obtain ⟨hc, e⟩ := put_none t t1 init name _ f notDir hf rfl h1 h2
  refine ⟨?_, e⟩
  intro hok
  have := (notDir_iff t (init ++ [name])).mpr ((writeOk_concat ..).mp hok).2
  rw [hc] at this; cases this

/-- … both stages succeed -/
theorem put_write_some (t t1 t2 : Node) (ht : Inv t) (init : List Name) (name : Name) (data : Bytes)
    (f : Kids → Option Kids) (hf : PutLike f name (.file data) notDir)
    (h1 : t.mkdirs init = some t1) (h2 : t1.update init f = some t2) :
    FS.writeOk (abs t) (init ++ [name])
    ∧ abs t2 = FS.writeSt (abs t) (init ++ [name]) data
    ∧ Keeps t t2 (init ++ [name])
    ∧ t2.lookup (init ++ [name]) = some (.file data) := by
  have hc := put_some t t1 t2 ht init name _ f notDir hf h1 h2
  have hnd := (notDir_iff t (init ++ [name])).mp hc
  have hmk : FS.mkdirOk (abs t) init := (mkdirs_ok_iff t init).mp (by simp [h1])
  refine ⟨(writeOk_concat ..).mpr ⟨hmk, hnd⟩, ?_, ?_, ?_⟩
  · exact writeSt_of_put t t2 init name data hnd
      (abs_put t t1 t2 init name _ f notDir hf h1 h2)
  · have := keeps_put t t1 t2 ht init name (.file data) f notDir hf (by simp) []
      (fun P _ _ => by simp) h1 h2
    simpa using this
  · obtain ⟨k1, k', hk1, hfk, hk'⟩ := Node.update_eq_some t1 t2 init f h2
    rw [hf k1] at hfk
    split at hfk
    · have := (Option.some.inj hfk).symm; subst this
      rw [Node.lookup_append, hk']
      simp [Node.lookup_dir_cons, Kids.find_set_same]
    · cases hfk

theorem root_writeFile (t : Node) (ht : Inv t) (raw data : Bytes) (p : List Name)
    (hn : norm raw = some p) :
    Mut (FS.writeOk (abs t) p) (FS.writeSt (abs t) p data) (abs t)
        (Root.writeFile t raw data).2 (abs (Root.writeFile t raw data).1)
    ∧ Keeps t (Root.writeFile t raw data).1 p
    ∧ ((Root.writeFile t raw data).2 = .err → (Root.writeFile t raw data).1 = t) := by
  have hp := Path.norm_reduced raw p hn
  simp only [Root.writeFile, reduceAbsPath_of_norm hn]
  rcases eq_nil_or_snoc p with rfl | ⟨init, name, rfl⟩
  · simp only [splitContainsPath_nil]
    exact ⟨Or.inr ⟨not_writeOk_nil _, rfl, rfl⟩, Keeps.refl ht _, by simp⟩
  · simp only [splitContainsPath_concat hp]
    cases h1 : t.mkdirs init with
    | none =>
      dsimp only
      exact ⟨Or.inr ⟨put_write_none1 t init name h1, rfl, rfl⟩, Keeps.refl ht _, by simp⟩
    | some t1 =>
      dsimp only
      cases h2 : t1.update init (Root.writeIn name data) with
      | none =>
        dsimp only
        obtain ⟨hno, e⟩ := put_write_none2 t t1 init name data _ (writeIn_putLike name data) h1 h2
        rw [e]
        exact ⟨Or.inr ⟨hno, rfl, rfl⟩, Keeps.refl ht _, by simp⟩
      | some t2 =>
        dsimp only
        have key := put_write_some t t1 t2 ht init name data _ (writeIn_putLike name data) h1 h2
        exact ⟨Or.inl ⟨key.1, rfl, key.2.1⟩, key.2.2.1, by simp⟩

end MemFS
end Goat
