/-
The abstraction from the concrete tree to the point-wise specification state, and how the two tree
primitives `mkdirs` / `update` look through it.  (Helper lemmas for C01; no model definition is
changed here.)

  `abs t : FS.State`   `abs t q` = the entry found by walking `q` from `t`
  `abs_mkdirs`         `mkdirs` is `FS.mkdirSt`
  `mkdirs_ok_iff`      … and succeeds exactly under `FS.mkdirOk`
  `abs_update`         `update p f` replaces the subtree at `p` and nothing else
  `abs_put`            the pattern shared by WriteFile / Writer / Copy*: create the parents, then
                       bind one name in the parent directory
-/
import Goat.Proofs.Tree
import Goat.Proofs.Path
import Goat.Spec.FS

namespace Goat

open Path (Name)
open FS (Entry State)

def Node.entry : Node → Entry
  | .file d => .file d
  | .dir _ => .dir

/-- abstraction of a concrete tree: what stands at each path -/
def abs (t : Node) : State := fun q => (t.lookup q).map Node.entry

namespace MemAbs

theorem entry_isDir (n : Node) : n.entry.isDir = n.isDir := by cases n <;> rfl

theorem abs_nil (t : Node) : abs t [] = some t.entry := by simp [abs]

theorem abs_eq_file (t : Node) (q : List Name) (d : Bytes) :
    abs t q = some (.file d) ↔ t.lookup q = some (.file d) := by
  simp only [abs]
  cases h : t.lookup q with
  | none => simp
  | some n => cases n <;> simp [Node.entry]

theorem abs_eq_dir (t : Node) (q : List Name) :
    abs t q = some .dir ↔ ∃ k, t.lookup q = some (.dir k) := by
  simp only [abs]
  cases h : t.lookup q with
  | none => simp
  | some n => cases n <;> simp [Node.entry]

theorem abs_eq_none (t : Node) (q : List Name) : abs t q = none ↔ t.lookup q = none := by
  simp [abs]

theorem abs_append (t : Node) (p r : List Name) :
    abs t (p ++ r) = (t.lookup p).bind fun n => abs n r := by
  simp only [abs, Node.lookup_append]
  cases t.lookup p <;> simp

theorem abs_file_cons (d : Bytes) (s : Name) (r : List Name) : abs (.file d) (s :: r) = none := by
  simp [abs]

theorem abs_dir_cons (k : Kids) (s : Name) (r : List Name) :
    abs (.dir k) (s :: r) = (k.find s).bind fun c => abs c r := by
  simp only [abs, Node.lookup_dir_cons]
  cases k.find s <;> simp

/-- the abstract state of a tree is prefix-closed: below anything that is not a directory there is
nothing -/
theorem abs_below (t : Node) (q r : List Name) (hr : r ≠ []) (h : abs t q ≠ some .dir) :
    abs t (q ++ r) = none := by
  rw [abs_append]
  cases hl : t.lookup q with
  | none => simp
  | some n =>
    cases n with
    | file d => cases r with
      | nil => exact absurd rfl hr
      | cons a b => simp [abs_file_cons]
    | dir k => exact absurd (by simp [abs, hl, Node.entry]) h

theorem abs_parent_dir (t : Node) (q r : List Name) (hr : r ≠ []) (h : abs t (q ++ r) ≠ none) :
    abs t q = some .dir := by
  cases hq : abs t q with
  | none => exact absurd (abs_below t q r hr (by simp [hq])) h
  | some e =>
    cases e with
    | dir => rfl
    | file d => exact absurd (abs_below t q r hr (by simp [hq])) h

/-! ### mkdirs -/

theorem abs_mkdirs (t t' : Node) (p : List Name) (h : t.mkdirs p = some t') :
    abs t' = FS.mkdirSt (abs t) p := by
  funext q
  simp only [FS.mkdirSt]
  split
  · next hq =>
    obtain ⟨k', hk'⟩ := Node.lookup_mkdirs_prefix t t' p q h hq
    simp [abs, hk', Node.entry]
  · next hq => simp [abs, Node.lookup_mkdirs_other t t' p q h hq]

theorem mkdirs_ok_iff (t : Node) (p : List Name) : (t.mkdirs p).isSome ↔ FS.mkdirOk (abs t) p := by
  rw [Node.mkdirs_isSome_iff]
  simp only [FS.mkdirOk, ne_eq, abs_eq_file]

/-! ### update -/

theorem abs_update (t t' : Node) (p : List Name) (f : Kids → Option Kids) (k' : Kids)
    (h : t.update p f = some t') (hk' : t'.lookup p = some (.dir k')) (q : List Name) :
    abs t' q = if p <+: q then abs (.dir k') (q.drop p.length) else abs t q := by
  split
  · next hq =>
    obtain ⟨r, rfl⟩ := hq
    simp only [List.drop_left']
    rw [abs_append, hk']; rfl
  · next hq =>
    by_cases hqp : q <+: p
    · obtain ⟨k1, k2, h1, h2⟩ := Node.lookup_update_prefix t t' p q f h hqp
      simp [abs, h1, h2, Node.entry]
    · simp [abs, Node.lookup_update_other t t' p q f h hq hqp]

/-! ### put: create the parents, bind one name -/

/-- the shape of what WriteFile, Writer and the copies do inside the destination directory: bind
`name` to `x` when the current occupant is acceptable -/
def PutLike (f : Kids → Option Kids) (name : Name) (x : Node) (C : Option Node → Bool) : Prop :=
  ∀ k, f k = if C (k.find name) then some (k.set name x) else none

theorem abs_set (k : Kids) (name : Name) (x : Node) (r : List Name) :
    abs (.dir (k.set name x)) r =
      match r with
      | [] => some .dir
      | m :: r' => if name = m then abs x r' else abs (.dir k) (m :: r') := by
  cases r with
  | nil => simp [abs, Node.entry]
  | cons m r' =>
    simp only [abs_dir_cons, Kids.find_set]
    split <;> simp

/-- result of `mkdirs init` followed by `update init f` for a `PutLike` function -/
theorem abs_put (t t1 t2 : Node) (init : List Name) (name : Name) (x : Node)
    (f : Kids → Option Kids) (C : Option Node → Bool) (hf : PutLike f name x C)
    (h1 : t.mkdirs init = some t1) (h2 : t1.update init f = some t2) (q : List Name) :
    abs t2 q = if init ++ [name] <+: q then abs x (q.drop (init.length + 1))
               else FS.mkdirSt (abs t) init q := by
  obtain ⟨k, k', hk, hfk, hk'⟩ := Node.update_eq_some t1 t2 init f h2
  have hk'eq : k' = k.set name x := by
    rw [hf k] at hfk
    split at hfk
    · exact (Option.some.inj hfk).symm
    · cases hfk
  subst hk'eq
  rw [abs_update t1 t2 init f _ h2 hk' q]
  by_cases hq : init <+: q
  · obtain ⟨r, rfl⟩ := hq
    simp only [List.prefix_append, if_true, List.drop_left', abs_set]
    cases r with
    | nil =>
      have : ¬ (init ++ [name] <+: init) := by
        intro hp
        have := hp.length_le
        simp at this
        omega
      simp [this, FS.mkdirSt]
    | cons m r' =>
      by_cases e : name = m
      · subst e
        have hp : init ++ [name] <+: init ++ name :: r' := ⟨r', by simp⟩
        have hd : (init ++ name :: r').drop (init.length + 1) = r' := by
          rw [← List.drop_drop]; simp
        simp [hp, hd]
      · have hp : ¬ (init ++ [name] <+: init ++ m :: r') := by
          rintro ⟨z, hz⟩
          simp only [List.append_assoc, List.append_cancel_left_eq, List.cons_append,
            List.nil_append, List.cons.injEq] at hz
          exact e hz.1
        simp only [e, if_false, hp]
        rw [← abs_mkdirs t t1 init h1, abs_append, hk]; rfl
  · have hp : ¬ (init ++ [name] <+: q) := fun hp => hq ((List.prefix_append init [name]).trans hp)
    simp only [hq, hp, if_false]
    rw [← abs_mkdirs t t1 init h1]

end MemAbs
end Goat
