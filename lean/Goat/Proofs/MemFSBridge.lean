/-
From path *strings* to path *segments*: what the byte-level helpers of the memfs model
(`reduceAbsPath`, `split`, `splitContainsPath`, `getNodeByPath…`, `mkdirAll`, `removeNodeByPath`)
compute on a string whose normal form is known.  (Helper lemmas for C01.)
-/
import Goat.Model.MemFS
import Goat.Proofs.MemFSAbs

namespace Goat
namespace MemFS

open Path (Name split join reduceAbsPath norm Reduced Plain NoSlash dotSeg slash)

/-- the invariant of a memory filespace's root: a directory, sibling names unique, every name real -/
structure Inv (t : Node) : Prop where
  isDir : t.isDir = true
  wf : t.WF

theorem Inv.dir {t : Node} (h : Inv t) : ∃ k, t = .dir k := by
  cases t with
  | file d => have := h.isDir; simp [Node.isDir] at this
  | dir k => exact ⟨k, rfl⟩

theorem inv_empty : Inv Node.empty := ⟨rfl, by simp [Node.WF]⟩

theorem reduceAbsPath_of_norm {raw : Bytes} {q : List Name} (h : norm raw = some q) :
    reduceAbsPath raw = some (join q) := by simp [reduceAbsPath, h]

theorem reduceAbsPath_none {raw : Bytes} (h : norm raw = none) : reduceAbsPath raw = none := by
  simp [reduceAbsPath, h]

theorem realPath_reduced {q : List Name} (h : Reduced q) : realPath q = q := by
  unfold realPath
  rw [List.filter_eq_self]
  intro s hs
  simpa using (h s hs).1.1

theorem realPath_split_join {q : List Name} (h : Reduced q) : realPath (split (join q)) = q := by
  rw [Path.split_join' q (fun s hs => (h s hs).2)]
  split
  · next e => subst e; rfl
  · exact realPath_reduced h

theorem getNodeByPathNodes_eq (t : Node) (segs : List Name) :
    getNodeByPathNodes t segs = t.lookup (realPath segs) := by
  induction segs generalizing t with
  | nil => simp [getNodeByPathNodes, realPath]
  | cons s rest ih =>
    simp only [getNodeByPathNodes, realPath]
    split
    · next e => subst e; simpa [realPath] using ih t
    · next e =>
      have : (List.filter (fun s => decide (s ≠ [])) (s :: rest)) = s :: realPath rest := by
        simp [List.filter, e, realPath]
      rw [this]
      cases t with
      | file d => simp
      | dir k =>
        rw [Node.lookup_dir_cons]
        cases hf : k.find s with
        | none => simp [hf]
        | some c => simpa [hf] using ih c

theorem join_eq_nil {q : List Name} (h : Reduced q) : join q = [] ↔ q = [] := by
  constructor
  · intro e
    cases q with
    | nil => rfl
    | cons s rest =>
      exfalso
      have hs := (h s (by simp)).1.1
      cases rest with
      | nil => exact hs (by simpa [join] using e)
      | cons s' r => simp [join] at e
  · intro e; subst e; rfl

theorem join_ne_dot {q : List Name} (h : Reduced q) : join q ≠ dotSeg := by
  intro e
  cases q with
  | nil => simp [join, dotSeg] at e
  | cons s rest =>
    cases rest with
    | nil => exact (h s (by simp)).1.2.1 (by simpa [join] using e)
    | cons s' r =>
      have hs := (h s (by simp)).1.1
      simp only [join, dotSeg] at e
      cases s with
      | nil => exact hs rfl
      | cons a as => simp at e

theorem getNodeByPath_join (t : Node) {q : List Name} (h : Reduced q) :
    getNodeByPath t (join q) = t.lookup q := by
  simp only [getNodeByPath, if_neg (join_ne_dot h), getNodeByPathNodes_eq, realPath_split_join h]

/-- the children when the node is a directory -/
def asDir : Option Node → Option Kids
  | some (.dir k) => some k
  | _ => none

/-- the data when the node is a file -/
def asFile : Option Node → Option Bytes
  | some (.file d) => some d
  | _ => none

theorem getDirByPath_join (t : Node) {q : List Name} (h : Reduced q) :
    getDirByPath t (join q) = asDir (t.lookup q) := by
  simp only [getDirByPath, getNodeByPath_join t h]
  cases t.lookup q with
  | none => rfl
  | some n => cases n <;> rfl

theorem getFileByPath_join (t : Node) {q : List Name} (h : Reduced q) :
    getFileByPath t (join q) = asFile (t.lookup q) := by
  simp only [getFileByPath, if_neg (join_ne_dot h), getNodeByPathNodes_eq, realPath_split_join h]
  cases t.lookup q with
  | none => rfl
  | some n => cases n <;> rfl

theorem splitContainsPath_nil : splitContainsPath (join []) = none := by
  simp [splitContainsPath, join, Path.split_nil]

theorem splitContainsPath_concat {init : List Name} {name : Name} (h : Reduced (init ++ [name])) :
    splitContainsPath (join (init ++ [name])) = some (init, name) := by
  have hne : name ≠ [] := (h name (by simp)).1.1
  simp only [splitContainsPath]
  rw [Path.split_join _ (fun s hs => (h s hs).2) (by simp)]
  simp [hne]

theorem mkdirAll_join (t : Node) (ht : Inv t) {q : List Name} (h : Reduced q) :
    mkdirAll t (join q) = t.mkdirs q := by
  obtain ⟨k, rfl⟩ := ht.dir
  simp only [mkdirAll, reduceAbsPath_of_norm (Path.norm_join q h)]
  split
  · next e =>
    have := (join_eq_nil h).mp e
    subst this; rfl
  · next e =>
    rw [Path.split_join q (fun s hs => (h s hs).2) (fun e' => e ((join_eq_nil h).mpr e'))]

theorem removeNodeByPath_nil (t : Node) (ht : Inv t) (eo : Bool) :
    removeNodeByPath t (join []) eo = none := by
  obtain ⟨k, rfl⟩ := ht.dir
  have hk : k.find [] = none := by
    cases hf : k.find [] with
    | none => rfl
    | some c =>
      have := (Kids.all_find k [] c ((Node.all_dir ..).mp ht.wf.2) hf).1
      exact absurd rfl this.1
  simp [removeNodeByPath, join, Path.split_nil, realPath, Node.update_dir_nil, removeIn, hk,
    removeNodeByName]

theorem removeNodeByPath_concat (t : Node) {init : List Name} {name : Name}
    (h : Reduced (init ++ [name])) (eo : Bool) :
    removeNodeByPath t (join (init ++ [name])) eo = t.update init (removeIn name eo) := by
  have hi : Reduced init := fun s hs => h s (List.mem_append_left _ hs)
  simp only [removeNodeByPath]
  rw [Path.split_join _ (fun s hs => (h s hs).2) (by simp)]
  simp [realPath_reduced hi]

end MemFS
end Goat
