/-
Helper lemmas for property C09, part 6: operations on unrelated paths commute.
Every heap-mutating critical section of the model is, seen from the root, one *micro effect* on the
path map `Path → Option Entry`:
  `ensureDir p`  – the locked part of `mkdir` at `p` (create the directory unless a node exists),
  `graft p sub`  – `addNode` / `setData` / handle close / `removeNodeByName` at `p`: afterwards the
                   subtree at `p` is `sub` (a file, a copied tree, or nothing).
An operation with target path `p` performs `ensureDir` on the proper prefixes of `p` and then its
final effect at `p`.
-/
import Goat.Model.MemFSConc
import Goat.Spec.FS

set_option linter.unusedSimpArgs false

namespace Goat.MemFSConc

/-- the abstract tree is the one of the sequential specification (`Goat/Spec/FS.lean`): what stands at
each path, `none` = nothing -/
abbrev Entry := Goat.FS.Entry

abbrev Tree := Goat.FS.State

inductive Eff1 where
  | ensureDir (p : Path)
  | graft (p : Path) (sub : Tree)

def Eff1.apply (T : Tree) : Eff1 → Tree
  | .ensureDir p => fun q => if q = p then (match T p with | none => some .dir | some e => some e) else T q
  | .graft p sub => fun q => if p.isPrefixOf q then sub (q.drop p.length) else T q

def runEffs (T : Tree) (l : List Eff1) : Tree := l.foldl Eff1.apply T

def Eff1.path : Eff1 → Path
  | .ensureDir p => p
  | .graft p _ => p

/-- two micro effects that do not disturb each other: nothing happens at or below a grafted path -/
def Indep : Eff1 → Eff1 → Prop
  | .ensureDir _, .ensureDir _ => True
  | .ensureDir p', .graft p _ => p.isPrefixOf p' = false
  | .graft p _, .ensureDir p' => p.isPrefixOf p' = false
  | .graft p _, .graft p' _ => p.isPrefixOf p' = false ∧ p'.isPrefixOf p = false

theorem indep_symm {a b : Eff1} (h : Indep a b) : Indep b a := by
  cases a <;> cases b <;> simp only [Indep] at h ⊢
  · exact h
  · exact h
  · exact ⟨h.2, h.1⟩

theorem isPrefixOf_self (p : Path) : p.isPrefixOf p = true := by
  rw [List.isPrefixOf_iff_prefix]; exact List.prefix_refl p

theorem isPrefixOf_trans {a b c : Path} (h1 : a.isPrefixOf b = true) (h2 : b.isPrefixOf c = true) :
    a.isPrefixOf c = true := by
  exact List.isPrefixOf_iff_prefix.2
    (List.IsPrefix.trans (List.isPrefixOf_iff_prefix.1 h1) (List.isPrefixOf_iff_prefix.1 h2))

/-- two prefixes of one path are comparable -/
theorem isPrefixOf_comparable {a b c : Path} (h1 : a.isPrefixOf c = true) (h2 : b.isPrefixOf c = true) :
    a.isPrefixOf b = true ∨ b.isPrefixOf a = true := by
  have h1' := List.isPrefixOf_iff_prefix.1 h1
  have h2' := List.isPrefixOf_iff_prefix.1 h2
  rcases Nat.le_total a.length b.length with h | h
  · exact Or.inl (List.isPrefixOf_iff_prefix.2 (List.prefix_of_prefix_length_le h1' h2' h))
  · exact Or.inr (List.isPrefixOf_iff_prefix.2 (List.prefix_of_prefix_length_le h2' h1' h))

theorem apply_comm {a b : Eff1} (h : Indep a b) (T : Tree) :
    b.apply (a.apply T) = a.apply (b.apply T) := by
  funext q
  cases a with
  | ensureDir p =>
    cases b with
    | ensureDir p' =>
      simp only [Eff1.apply]
      by_cases h1 : q = p <;> by_cases h2 : q = p'
      · subst h1; subst h2; simp
      · subst h1
        have : ¬ p' = q := fun e => h2 e.symm
        simp [h2, this]
      · subst h2
        have : ¬ p = q := fun e => h1 e.symm
        simp [h1, this]
      · simp [h1, h2]
    | graft p' sub =>
      simp only [Indep] at h
      simp only [Eff1.apply]
      by_cases h1 : p'.isPrefixOf q = true
      · simp only [h1, if_true]
        by_cases h2 : q = p
        · subst h2; rw [h] at h1; cases h1
        · simp [h2]
      · simp only [h1, if_false]
        by_cases h2 : q = p
        · subst h2; simp [h]
        · simp [h2]
  | graft p sub =>
    cases b with
    | ensureDir p' =>
      simp only [Indep] at h
      simp only [Eff1.apply]
      by_cases h1 : p.isPrefixOf q = true
      · simp only [h1, if_true]
        by_cases h2 : q = p'
        · subst h2; rw [h] at h1; cases h1
        · simp [h2]
      · simp only [h1, if_false]
        by_cases h2 : q = p'
        · subst h2; simp [h]
        · simp [h2]
    | graft p' sub' =>
      simp only [Indep] at h
      simp only [Eff1.apply]
      by_cases h1 : p.isPrefixOf q = true <;> by_cases h2 : p'.isPrefixOf q = true
      · rcases isPrefixOf_comparable h1 h2 with hx | hx
        · rw [h.1] at hx; cases hx
        · rw [h.2] at hx; cases hx
      · simp [h1, h2]
      · simp [h1, h2]
      · simp [h1, h2]

/-- the result of a list of pairwise independent micro effects does not depend on their order -/
theorem runEffs_perm {l l' : List Eff1} (hp : l.Perm l') (hind : l.Pairwise Indep) (T : Tree) :
    runEffs T l = runEffs T l' := by
  induction hp generalizing T with
  | nil => rfl
  | cons x _ ih =>
    simp only [runEffs, List.foldl_cons]
    exact ih (List.pairwise_cons.1 hind).2 _
  | swap x y l =>
    simp only [runEffs, List.foldl_cons]
    have hxy : Indep y x := (List.pairwise_cons.1 hind).1 x (by simp)
    rw [apply_comm hxy]
  | trans h1 _ ih1 ih2 =>
    rw [ih1 hind, ih2 ((h1.pairwise_iff (fun h => indep_symm h)).1 hind)]

/-! ### operations -/

/-- an operation as seen from the root: its target path and what is at the target afterwards
(`none`: `MkdirAll`, the target itself is only ensured) -/
structure AOp where
  target : Path
  sub : Option Tree

/-- nonempty proper prefixes of a path -/
def properPrefixes : Path → List Path
  | [] => []
  | [_] => []
  | a :: b :: rest => [a] :: (properPrefixes (b :: rest)).map (a :: ·)

def AOp.effects (op : AOp) : List Eff1 :=
  (properPrefixes op.target).map .ensureDir ++
    [match op.sub with | none => .ensureDir op.target | some sub => .graft op.target sub]

/-- neither path is an ancestor of (or equal to) the other -/
def Unrelated (p q : Path) : Prop := p.isPrefixOf q = false ∧ q.isPrefixOf p = false

theorem properPrefixes_prefix {p q : Path} (h : q ∈ properPrefixes p) :
    q.isPrefixOf p = true ∧ q.length < p.length := by
  induction p generalizing q with
  | nil => simp [properPrefixes] at h
  | cons a rest ih =>
    cases rest with
    | nil => simp [properPrefixes] at h
    | cons b rest' =>
      simp only [properPrefixes, List.mem_cons, List.mem_map] at h
      rcases h with rfl | ⟨q', hq', rfl⟩
      · simp [List.isPrefixOf]
      · obtain ⟨h1, h2⟩ := ih hq'
        simp only [List.isPrefixOf, beq_self_eq_true, Bool.true_and, List.length_cons]
        exact ⟨h1, by simp only [List.length_cons] at h2; omega⟩

theorem not_prefix_of_longer {p q : Path} (h : q.length < p.length) : p.isPrefixOf q = false := by
  cases hx : p.isPrefixOf q with
  | false => rfl
  | true =>
    rw [List.isPrefixOf_iff_prefix] at hx
    have := hx.length_le
    omega

/-- every effect of an operation lies on the way to its target -/
theorem effects_path {op : AOp} {e : Eff1} (h : e ∈ op.effects) : e.path.isPrefixOf op.target = true := by
  simp only [AOp.effects, List.mem_append, List.mem_map, List.mem_singleton] at h
  rcases h with ⟨q, hq, rfl⟩ | rfl
  · exact (properPrefixes_prefix hq).1
  · cases op.sub <;> exact isPrefixOf_self _

/-- a graft happens only at the target itself -/
theorem effects_graft {op : AOp} {p : Path} {sub : Tree} (h : Eff1.graft p sub ∈ op.effects) : p = op.target := by
  simp only [AOp.effects, List.mem_append, List.mem_map, List.mem_singleton] at h
  rcases h with ⟨q, _, hq⟩ | h
  · cases hq
  · cases hs : op.sub <;> rw [hs] at h <;> simp at h
    exact h.1

theorem indep_within (op : AOp) : op.effects.Pairwise Indep := by
  simp only [AOp.effects]
  rw [List.pairwise_append]
  refine ⟨?_, by simp, ?_⟩
  · rw [List.pairwise_map]
    exact List.pairwise_of_forall (fun _ _ => trivial)
  · intro a ha b hb
    simp only [List.mem_map] at ha
    obtain ⟨q, hq, rfl⟩ := ha
    simp only [List.mem_singleton] at hb
    subst hb
    cases op.sub with
    | none => trivial
    | some sub =>
      simp only [Indep]
      exact not_prefix_of_longer (properPrefixes_prefix hq).2

theorem indep_between {op1 op2 : AOp} (hu : Unrelated op1.target op2.target) {a b : Eff1}
    (ha : a ∈ op1.effects) (hb : b ∈ op2.effects) : Indep a b := by
  have pa := effects_path ha
  have pb := effects_path hb
  cases a with
  | ensureDir p =>
    cases b with
    | ensureDir p' => trivial
    | graft p' sub =>
      have := effects_graft hb; subst this
      simp only [Indep]
      cases hx : op2.target.isPrefixOf p with
      | false => rfl
      | true =>
        have := isPrefixOf_trans hx pa
        rw [hu.2] at this; cases this
  | graft p sub =>
    have := effects_graft ha; subst this
    cases b with
    | ensureDir p' =>
      simp only [Indep]
      cases hx : op1.target.isPrefixOf p' with
      | false => rfl
      | true =>
        have := isPrefixOf_trans hx pb
        rw [hu.1] at this; cases this
    | graft p' sub' =>
      have := effects_graft hb; subst this
      exact hu

theorem indep_all {ops : List AOp} (hu : ops.Pairwise (fun a b => Unrelated a.target b.target)) :
    (ops.flatMap AOp.effects).Pairwise Indep := by
  induction ops with
  | nil => simp
  | cons op rest ih =>
    rw [List.pairwise_cons] at hu
    simp only [List.flatMap_cons]
    rw [List.pairwise_append]
    refine ⟨indep_within op, ih hu.2, ?_⟩
    intro a ha b hb
    simp only [List.mem_flatMap] at hb
    obtain ⟨op2, hop2, hb⟩ := hb
    exact indep_between (hu.1 op2 hop2) ha hb

end Goat.MemFSConc
