/-
Helper lemmas for property C09, part 5: absence of deadlock in the repaired lock order.
-/
import Goat.Proofs.MemFSConcLock

set_option linter.unusedSimpArgs false

namespace Goat.MemFSConc

/-- the file whose `dataMU` an act has to acquire -/
def dataAct : Act → Option Oid
  | .getData f => some f
  | .setData f _ => some f
  | .copyFile f => some f
  | .openH f _ => some f
  | _ => none

/-- The discipline: a thread that requests a file's data lock holds (through open handles) only
files with a smaller object id (in particular not that file; "holds no handle" is the special case). -/
def Ordered (v : Variant) (s : State) : Prop :=
  ∀ t th f, s.threads[t]? = some th → dataAct (actOf v th.pc) = some f →
    ∀ g gg, getFile s.heap g = some gg → gg.lock = some t → g < f

/-- a thread that has run to completion has closed its handles -/
def NoLeak (s : State) : Prop :=
  ∀ g gg t, getFile s.heap g = some gg → gg.lock = some t → unfinished s t = true

/-- why a critical section has to wait (all `mu` free): the directory lock or a file's data lock is
held -/
theorem applyAct_blocked {h : Heap} {t : Tid} {a : Act}
    (hmu : ∀ d dd, getDir h d = some dd → dd.muR = []) (hn : applyAct h t a = none) :
    (∃ d dd t2, a = .outerLock d ∧ getDir h d = some dd ∧ dd.outer = some t2) ∨
    (∃ f ff t2, dataAct a = some f ∧ getFile h f = some ff ∧ ff.lock = some t2) := by
  unfold applyAct at hn
  rw [Option.map_eq_none_iff] at hn
  cases a <;> simp only [actEff] at hn <;> (repeat' split at hn) <;>
    simp only [reduceCtorEq] at hn
  all_goals first
    | (rename_i dd hdd hfree
       have := hmu _ dd hdd
       simp [muFree, this] at hfree; done)
    | exact Or.inl ⟨_, _, _, rfl, ‹_›, ‹_›⟩
    | exact Or.inr ⟨_, _, _, rfl, ‹_›, ‹_›⟩

theorem step_none {v : Variant} {s : State} {t : Tid} {th : Thread} (hth : s.threads[t]? = some th)
    (hs : step v s t = none) : th.finished = true ∨ applyAct s.heap t (actOf v th.pc) = none := by
  unfold step at hs
  simp only [hth] at hs
  cases hst : stepThread v s.heap t th with
  | some res => simp [hst] at hs
  | none =>
    unfold stepThread at hst
    split at hst
    · rename_i hpc
      split at hst
      · rename_i hprog
        left; simp [Thread.finished, hpc, hprog]
      · cases hst
    · cases hst
    · cases hap : applyAct s.heap t (actOf v th.pc) with
      | none => exact Or.inr rfl
      | some x => simp [hap] at hst

/-- inside a directory's outer critical section the repaired code never waits -/
theorem holds_act {v : Variant} {pc : Pc} {d : Oid} (hw : v.writerUnderDir = false)
    (hf : v.writeFileUnderDir = false) (ho : oldPc v pc) (h : holdsOuter pc = some d) :
    (∀ x, actOf v pc ≠ .outerLock x) ∧ dataAct (actOf v pc) = none := by
  cases pc <;> simp only [holdsOuter, reduceCtorEq] at h <;> simp only [oldPc, hw, hf, Bool.false_eq_true] at ho <;>
    simp [actOf, dataAct]

theorem getFile_lt {h : Heap} {f : Nat} {ff : FileObj} (hg : getFile h f = some ff) : f < List.length h := by
  unfold getFile at hg
  cases hx : h[f]? with
  | none => simp [hx] at hg
  | some _ => exact (List.getElem?_eq_some_iff.1 hx).1

theorem unfinished_thread {s : State} {t : Tid} (h : unfinished s t = true) :
    ∃ th, s.threads[t]? = some th ∧ th.finished = false := by
  unfold unfinished at h
  cases hth : s.threads[t]? with
  | none => simp [hth] at h
  | some th => simp [hth] at h; exact ⟨th, rfl, h⟩

/-- In the repaired lock order a state in which some thread has work left is never stuck, provided
the discipline holds in it. -/
theorem no_deadlock_core {v : Variant} {s : State} (hi : LInv v s)
    (hw : v.writerUnderDir = false) (hf : v.writeFileUnderDir = false) (hc : v.copyDirHoldsMu = false)
    (hord : Ordered v s) (hleak : NoLeak s) {t0 : Tid} (hun : unfinished s t0 = true) :
    ∃ t, (step v s t).isSome = true := by
  apply Classical.byContradiction
  intro hne
  have hall : ∀ t, step v s t = none := by
    intro t
    cases hst : step v s t with
    | none => rfl
    | some x => exact absurd ⟨t, by simp [hst]⟩ hne
  have hmu := hi.mu hc
  -- 1. no directory lock is held
  have houter : ∀ d dd t, getDir s.heap d = some dd → dd.outer = some t → False := by
    intro d dd t hg ho
    obtain ⟨th, hth, hh⟩ := hi.outer d dd t hg ho
    have hold := hi.old th (List.mem_of_getElem? hth)
    obtain ⟨h1, h2⟩ := holds_act hw hf hold hh
    rcases step_none hth (hall t) with hfin | hblk
    · unfold Thread.finished at hfin
      split at hfin
      · rename_i hpc _
        rw [hpc] at hh; cases hh
      · cases hfin
    · rcases applyAct_blocked hmu hblk with ⟨x, _, _, ha, _, _⟩ | ⟨f, _, _, ha, _, _⟩
      · exact h1 x ha
      · rw [h2] at ha; cases ha
  -- 2. an unfinished thread waits for a file's data lock
  have hwait : ∀ (t : Tid) (th : Thread), s.threads[t]? = some th → th.finished = false →
      ∃ f ff t2, dataAct (actOf v th.pc) = some f ∧ getFile s.heap f = some ff ∧ ff.lock = some t2 := by
    intro t th hth hnf
    rcases step_none hth (hall t) with hfin | hblk
    · rw [hnf] at hfin; cases hfin
    · rcases applyAct_blocked hmu hblk with ⟨d, dd, t2, _, hg, ho⟩ | hx
      · exact absurd ho (fun ho => houter d dd t2 hg ho)
      · exact hx
  -- 3. follow the holders: the awaited object ids increase for ever
  have chain : ∀ (k : Nat) (f : Nat) (t : Tid) (th : Thread), s.threads[t]? = some th → th.finished = false →
      dataAct (actOf v th.pc) = some f → s.heap.length - f ≤ k → False := by
    intro k
    induction k with
    | zero =>
      intro f t th hth hnf hda hk
      obtain ⟨f', ff, t2, hda', hg, _⟩ := hwait t th hth hnf
      rw [hda] at hda'; cases hda'
      have := getFile_lt hg
      omega
    | succ k ih =>
      intro f t th hth hnf hda hk
      obtain ⟨f', ff, t2, hda', hg, hl⟩ := hwait t th hth hnf
      rw [hda] at hda'; cases hda'
      obtain ⟨th2, hth2, hnf2⟩ := unfinished_thread (hleak f ff t2 hg hl)
      obtain ⟨g, gg, t3, hda2, hg2, _⟩ := hwait t2 th2 hth2 hnf2
      have hlt : f < g := hord t2 th2 g hth2 hda2 f ff hg hl
      have hgl : g < s.heap.length := getFile_lt hg2
      have hfl : f < s.heap.length := getFile_lt hg
      exact ih g t2 th2 hth2 hnf2 hda2 (by omega)
  obtain ⟨th0, hth0, hnf0⟩ := unfinished_thread hun
  obtain ⟨f, _, _, hda, _, _⟩ := hwait t0 th0 hth0 hnf0
  exact chain s.heap.length f t0 th0 hth0 hnf0 hda (by omega)

/-! ### decidable versions of the notions above, for the concrete witnesses -/

def stuckB (v : Variant) (s : State) : Bool :=
  (List.range s.threads.length).all fun t => (step v s t).isNone

theorem stuck_of_stuckB {v : Variant} {s : State} (h : stuckB v s = true) : ∀ t, step v s t = none := by
  intro t
  by_cases ht : t < s.threads.length
  · have := List.all_eq_true.1 h t (List.mem_range.2 ht)
    simpa using this
  · unfold step
    rw [List.getElem?_eq_none (Nat.le_of_not_lt ht)]

def lockedBy (h : Heap) (t : Tid) (g : Nat) : Bool :=
  match getFile h g with
  | some gg => gg.lock == some t
  | none => false

def orderedB (v : Variant) (s : State) : Bool :=
  (List.range s.threads.length).all fun t =>
    match s.threads[t]? with
    | none => true
    | some th =>
      match dataAct (actOf v th.pc) with
      | none => true
      | some f => (List.range s.heap.length).all fun g => !(lockedBy s.heap t g) || decide (g < f)

theorem ordered_of_orderedB {v : Variant} {s : State} (h : orderedB v s = true) : Ordered v s := by
  intro t th f hth hda g gg hg hl
  have ht : t < s.threads.length := (List.getElem?_eq_some_iff.1 hth).1
  have h1 := List.all_eq_true.1 h t (List.mem_range.2 ht)
  simp only [hth, hda] at h1
  have h2 := List.all_eq_true.1 h1 g (List.mem_range.2 (getFile_lt hg))
  simp only [lockedBy, hg, hl, beq_self_eq_true, Bool.not_true, Bool.false_or, decide_eq_true_eq] at h2
  exact h2

def noLeakB (s : State) : Bool :=
  (List.range s.heap.length).all fun g =>
    match getFile s.heap g with
    | some gg =>
      match gg.lock with
      | some t => unfinished s t
      | none => true
    | none => true

theorem noLeak_of_noLeakB {s : State} (h : noLeakB s = true) : NoLeak s := by
  intro g gg t hg hl
  have h1 := List.all_eq_true.1 h g (List.mem_range.2 (getFile_lt hg))
  simpa only [hg, hl] using h1

/-- a reachable deadlock that respects the discipline -/
def Deadlock (v : Variant) (progs : List (List Op)) (sched : List Tid) : Prop :=
  let s := (sys v progs).run sched
  (∀ t, step v s t = none) ∧ (∃ t, unfinished s t = true) ∧ Ordered v s ∧ NoLeak s

def deadlockB (v : Variant) (progs : List (List Op)) (sched : List Tid) : Bool :=
  let s := (sys v progs).run sched
  stuckB v s && (List.range s.threads.length).any (unfinished s) && orderedB v s && noLeakB s

theorem deadlock_of_deadlockB {v : Variant} {progs : List (List Op)} {sched : List Tid}
    (h : deadlockB v progs sched = true) : Deadlock v progs sched := by
  simp only [deadlockB, Bool.and_eq_true] at h
  obtain ⟨⟨⟨h1, h2⟩, h3⟩, h4⟩ := h
  refine ⟨stuck_of_stuckB h1, ?_, ordered_of_orderedB h3, noLeak_of_noLeakB h4⟩
  obtain ⟨t, _, ht⟩ := List.any_eq_true.1 h2
  exact ⟨t, ht⟩

/-! ### the three old lock orders deadlock -/

/-- thread 0 opens a writer on d/f and, still holding it, touches directory d; thread 1 (`other`)
works on d/f or d concurrently -/
def wit_progs (other : Op) : List (List Op) :=
  [ [.openW 1 [[100], [102]], .writeFile [[100], [103]] [1], .close 1], [other] ]

def wit_sched : List Tid := List.replicate 9 0 ++ List.replicate 10 1 ++ List.replicate 10 0

/-- two threads stream a -> b and b -> a -/
def cross_progs : List (List Op) :=
  [ [.writeFile [[97]] [1], .writeFile [[98]] [2], .openR 1 [[97]], .openW 2 [[98]], .close 2, .close 1],
    [.openR 1 [[98]], .openW 2 [[97]], .close 2, .close 1] ]

def cross_sched : List Tid :=
  List.replicate 16 0 ++ List.replicate 4 1 ++ List.replicate 12 0 ++ List.replicate 12 1

/-- the literally stated discipline: nobody waits for a file whose handle he holds himself -/
def selfFreeB (v : Variant) (s : State) : Bool :=
  (List.range s.threads.length).all fun t =>
    match s.threads[t]? with
    | none => true
    | some th =>
      match dataAct (actOf v th.pc) with
      | none => true
      | some f => !(lockedBy s.heap t f)

end Goat.MemFSConc
