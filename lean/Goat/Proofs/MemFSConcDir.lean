/-
Helper lemmas for property C09, part 1: one directory object.
`DirInv` (names unique, index ↔ nodes) is preserved by each critical section of `memfs.Dir`, and the
behaviour of arbitrary sequences of critical sections on one directory (`DAct` traces).
The model is `Goat/Model/MemFSConc.lean`; nothing here changes a definition of the model.
-/
import Goat.Model.MemFSConc

set_option linter.unusedSimpArgs false

namespace Goat.MemFSConc

/-- the directory invariant: names in `nodes` are unique and `index` is exactly `nodes` -/
def DirInv (d : DirObj) : Prop :=
  (d.nodes.map Prod.fst).Nodup ∧ ∀ n o, d.index n = some o ↔ (n, o) ∈ d.nodes

theorem dirInv_empty : DirInv {} := by
  constructor <;> simp

theorem index_none_of_not_mem {d : DirObj} (h : DirInv d) {n : Name}
    (hn : n ∉ d.nodes.map Prod.fst) : d.index n = none := by
  cases hi : d.index n with
  | none => rfl
  | some o =>
    have := (h.2 n o).1 hi
    exact absurd (List.mem_map.2 ⟨(n, o), this, rfl⟩) hn

theorem not_mem_of_index_none {d : DirObj} (h : DirInv d) {n : Name}
    (hn : d.index n = none) : n ∉ d.nodes.map Prod.fst := by
  intro hm
  obtain ⟨⟨m, o⟩, hmem, rfl⟩ := List.mem_map.1 hm
  have := (h.2 m o).2 hmem
  simp [hn] at this

/-! ### addNode -/

theorem add_inv {d d' : DirObj} {n : Name} {o : Oid} (h : DirInv d) (ha : d.add n o = some d') :
    DirInv d' := by
  unfold DirObj.add at ha
  split at ha
  · cases ha
  · rename_i hnone
    cases ha
    have hnm := not_mem_of_index_none h hnone
    constructor
    · simp only [List.map_append, List.map_cons, List.map_nil]
      rw [List.nodup_append]
      refine ⟨h.1, by simp, ?_⟩
      intro a ha b hb
      simp at hb
      subst hb
      intro hab
      subst hab
      exact hnm ha
    · intro m p
      simp only [setIdx, List.mem_append, List.mem_singleton, Prod.mk.injEq]
      by_cases hm : m = n
      · subst hm
        simp only [if_true, Option.some.injEq, true_and]
        constructor
        · intro hp; exact Or.inr hp.symm
        · rintro (hp | hp)
          · exact absurd (List.mem_map.2 ⟨(m, p), hp, rfl⟩) hnm
          · exact hp.symm
      · simp only [hm, if_false, false_and, or_false]
        exact h.2 m p

theorem add_index {d d' : DirObj} {n : Name} {o : Oid} (ha : d.add n o = some d') :
    d.index n = none ∧ d'.index = setIdx d.index n (some o) ∧ d'.nodes = d.nodes ++ [(n, o)]
      ∧ d'.outer = d.outer ∧ d'.muR = d.muR := by
  unfold DirObj.add at ha
  split at ha
  · cases ha
  · rename_i hnone
    cases ha
    exact ⟨hnone, rfl, rfl, rfl, rfl⟩

theorem add_none_iff {d : DirObj} {n : Name} {o : Oid} : d.add n o = none ↔ (d.index n).isSome := by
  unfold DirObj.add
  cases d.index n <;> simp

/-! ### removeNodeByName -/

theorem removeFirst_mem {n : Name} {l ns : List (Name × Oid)} (hr : removeFirst n l = some ns)
    (hnd : (l.map Prod.fst).Nodup) :
    (ns.map Prod.fst).Nodup ∧ (∀ m o, (m, o) ∈ ns ↔ m ≠ n ∧ (m, o) ∈ l) := by
  induction l generalizing ns with
  | nil => simp [removeFirst] at hr
  | cons x xs ih =>
    obtain ⟨m0, o0⟩ := x
    simp only [List.map_cons, List.nodup_cons] at hnd
    unfold removeFirst at hr
    split at hr
    · rename_i hm
      cases hr
      subst hm
      refine ⟨hnd.2, ?_⟩
      intro m o
      constructor
      · intro hmem
        refine ⟨?_, List.mem_cons_of_mem _ hmem⟩
        intro hmn
        subst hmn
        exact hnd.1 (List.mem_map.2 ⟨(m, o), hmem, rfl⟩)
      · rintro ⟨hne, hmem⟩
        rcases List.mem_cons.1 hmem with h | h
        · cases h; exact absurd rfl hne
        · exact h
    · rename_i hm
      cases hrec : removeFirst n xs with
      | none => simp [hrec] at hr
      | some ns' =>
        simp [hrec] at hr
        subst hr
        obtain ⟨ih1, ih2⟩ := ih hrec hnd.2
        constructor
        · simp only [List.map_cons, List.nodup_cons]
          refine ⟨?_, ih1⟩
          intro hmem
          obtain ⟨⟨a, b⟩, hab, rfl⟩ := List.mem_map.1 hmem
          exact hnd.1 (List.mem_map.2 ⟨(a, b), ((ih2 a b).1 hab).2, rfl⟩)
        · intro m o
          simp only [List.mem_cons, Prod.mk.injEq]
          constructor
          · rintro (⟨h1, h2⟩ | h)
            · subst h1; subst h2
              exact ⟨hm, Or.inl ⟨rfl, rfl⟩⟩
            · exact ⟨((ih2 m o).1 h).1, Or.inr ((ih2 m o).1 h).2⟩
          · rintro ⟨hne, (⟨h1, h2⟩ | h)⟩
            · exact Or.inl ⟨h1, h2⟩
            · exact Or.inr ((ih2 m o).2 ⟨hne, h⟩)

theorem removeFirst_none_iff {n : Name} {l : List (Name × Oid)} :
    removeFirst n l = none ↔ n ∉ l.map Prod.fst := by
  induction l with
  | nil => simp [removeFirst]
  | cons x xs ih =>
    obtain ⟨m0, o0⟩ := x
    unfold removeFirst
    by_cases hm : m0 = n
    · simp [hm]
    · simp only [hm, if_false, Option.map_eq_none_iff, ih, List.map_cons, List.mem_cons, not_or]
      constructor
      · intro h; exact ⟨fun e => hm e.symm, h⟩
      · intro h; exact h.2

theorem remove_inv {d d' : DirObj} {n : Name} (h : DirInv d) (hr : d.remove n = some d') : DirInv d' := by
  unfold DirObj.remove at hr
  cases hrf : removeFirst n d.nodes with
  | none => simp [hrf] at hr
  | some ns =>
    simp [hrf] at hr
    subst hr
    obtain ⟨h1, h2⟩ := removeFirst_mem hrf h.1
    refine ⟨h1, ?_⟩
    intro m o
    simp only [setIdx]
    by_cases hm : m = n
    · subst hm
      simp only [if_true]
      constructor
      · intro hx; cases hx
      · intro hx; exact absurd rfl ((h2 m o).1 hx).1
    · simp only [hm, if_false]
      rw [h2 m o, h.2 m o]
      simp [hm]

theorem remove_index {d d' : DirObj} {n : Name} (hr : d.remove n = some d') :
    d'.index = setIdx d.index n none ∧ d'.outer = d.outer ∧ d'.muR = d.muR := by
  unfold DirObj.remove at hr
  cases hrf : removeFirst n d.nodes with
  | none => simp [hrf] at hr
  | some ns =>
    simp [hrf] at hr
    subst hr
    exact ⟨rfl, rfl, rfl⟩

/-! ### NewDir -/

theorem indexOf_foldl (l : List (Name × Oid)) (idx : Name → Option Oid) (n : Name) (o : Oid)
    (hnd : (l.map Prod.fst).Nodup) :
    (l.foldl (fun idx p => setIdx idx p.1 (some p.2)) idx) n = some o ↔
      ((n, o) ∈ l ∨ (n ∉ l.map Prod.fst ∧ idx n = some o)) := by
  induction l generalizing idx with
  | nil => simp
  | cons x xs ih =>
    obtain ⟨m0, o0⟩ := x
    simp only [List.map_cons, List.nodup_cons] at hnd
    simp only [List.foldl_cons]
    rw [ih _ hnd.2]
    simp only [setIdx, List.mem_cons, Prod.mk.injEq, List.map_cons, not_or]
    by_cases hm : n = m0
    · subst hm
      simp only [if_true, Option.some.injEq, true_and, not_true_eq_false, false_and, or_false]
      constructor
      · rintro (h | ⟨_, h⟩)
        · exact absurd (List.mem_map.2 ⟨(n, o), h, rfl⟩) hnd.1
        · exact Or.inl h.symm
      · rintro (h | h)
        · exact Or.inr ⟨hnd.1, h.symm⟩
        · exact absurd (List.mem_map.2 ⟨(n, o), h, rfl⟩) hnd.1
    · simp only [hm, if_false, false_and, false_or, not_false_eq_true, true_and]

theorem newDirObj_inv {nodes : List (Name × Oid)} (hnd : (nodes.map Prod.fst).Nodup) :
    DirInv (newDirObj nodes) := by
  refine ⟨hnd, ?_⟩
  intro n o
  show indexOf nodes n = some o ↔ _
  unfold indexOf
  rw [indexOf_foldl nodes _ n o hnd]
  simp only [reduceCtorEq, and_false, or_false]
  exact Iff.rfl

/-! ### Traces of critical sections on one directory -/

/-- the critical sections of one `Dir` (object level; `fresh` is the node a creating call brings) -/
inductive DAct where
  | lookup (n : Name)
  | mkdir (n : Name) (fresh : Oid)     -- locked part of `mkdir`
  | add (n : Name) (o : Oid)           -- `addNode`
  | remove (n : Name)
  | snapshot

inductive DRet where
  | found (o : Option Oid)
  | created (o : Oid)        -- this call made the node
  | existing (o : Oid)       -- `mkdir` found the node made by someone else
  | refused                  -- `addNode`: name exists / `remove`: no such node
  | removed
  | listing (l : List (Name × Oid))
  deriving DecidableEq

def DirObj.act (d : DirObj) : DAct → DirObj × DRet
  | .lookup n => (d, .found (d.index n))
  | .mkdir n fresh =>
    match d.index n with
    | some o => (d, .existing o)
    | none =>
      match d.add n fresh with
      | some d' => (d', .created fresh)
      | none => (d, .refused)
  | .add n o =>
    match d.add n o with
    | some d' => (d', .created o)
    | none => (d, .refused)
  | .remove n =>
    match d.remove n with
    | some d' => (d', .removed)
    | none => (d, .refused)
  | .snapshot => (d, .listing d.nodes)

/-- run a trace, collecting the results -/
def DirObj.runTrace : DirObj → List DAct → DirObj × List DRet
  | d, [] => (d, [])
  | d, a :: rest =>
    let (d1, r) := d.act a
    let (d2, rs) := d1.runTrace rest
    (d2, r :: rs)

theorem act_inv {d : DirObj} (h : DirInv d) (a : DAct) : DirInv (d.act a).1 := by
  cases a with
  | lookup n => exact h
  | mkdir n fresh =>
    simp only [DirObj.act]
    split
    · exact h
    · split
      · rename_i ha; exact add_inv h ha
      · exact h
  | add n o =>
    simp only [DirObj.act]
    split
    · rename_i ha; exact add_inv h ha
    · exact h
  | remove n =>
    simp only [DirObj.act]
    split
    · rename_i hr; exact remove_inv h hr
    · exact h
  | snapshot => exact h

theorem runTrace_inv {d : DirObj} (h : DirInv d) (tr : List DAct) : DirInv (d.runTrace tr).1 := by
  induction tr generalizing d with
  | nil => exact h
  | cons a rest ih =>
    simp only [DirObj.runTrace]
    exact ih (act_inv h a)

/-- number of nodes carrying a name -/
def countName (d : DirObj) (n : Name) : Nat := (d.nodes.filter fun p => p.1 == n).length

theorem countName_le_one {d : DirObj} (h : DirInv d) (n : Name) : countName d n ≤ 1 := by
  unfold countName
  have hnd := h.1
  generalize d.nodes = l at hnd
  induction l with
  | nil => simp
  | cons x xs ih =>
    simp only [List.map_cons, List.nodup_cons] at hnd
    simp only [List.filter_cons]
    split
    · rename_i hx
      have hx' : x.1 = n := by simpa using hx
      have : xs.filter (fun p => p.1 == n) = [] := by
        rw [List.filter_eq_nil_iff]
        intro p hp hpn
        have : p.1 = n := by simpa using hpn
        exact hnd.1 (List.mem_map.2 ⟨p, hp, by rw [this, hx']⟩)
      simp [this]
    · exact ih hnd.2

theorem countName_eq_one_iff {d : DirObj} (h : DirInv d) (n : Name) :
    countName d n = 1 ↔ (d.index n).isSome := by
  have hle := countName_le_one h n
  constructor
  · intro h1
    unfold countName at h1
    have : ∃ p, p ∈ d.nodes.filter (fun p => p.1 == n) := by
      cases hf : d.nodes.filter (fun p => p.1 == n) with
      | nil => simp [hf] at h1
      | cons p _ => exact ⟨p, by simp⟩
    obtain ⟨⟨m, o⟩, hp⟩ := this
    rw [List.mem_filter] at hp
    have hm : m = n := by simpa using hp.2
    subst hm
    rw [(h.2 m o).2 hp.1]; rfl
  · intro hs
    obtain ⟨o, ho⟩ := Option.isSome_iff_exists.1 hs
    have hmem := (h.2 n o).1 ho
    have : (n, o) ∈ d.nodes.filter (fun p => p.1 == n) := by
      rw [List.mem_filter]; exact ⟨hmem, by simp⟩
    have : 0 < countName d n := by
      unfold countName
      exact List.length_pos_of_mem this
    omega

/-! ### Concurrent creations of one name: exactly one winner -/

def DAct.creates (n : Name) : DAct → Bool
  | .mkdir m _ => m == n
  | .add m _ => m == n
  | _ => false

def DAct.removes (n : Name) : DAct → Bool
  | .remove m => m == n
  | _ => false

def DRet.isCreated : DRet → Bool
  | .created _ => true
  | _ => false

/-- number of creating calls on `n` in a trace that actually made a node -/
def winners (n : Name) : List DAct → List DRet → Nat
  | a :: tr, r :: rs => (if a.creates n && r.isCreated then 1 else 0) + winners n tr rs
  | _, _ => 0

/-- what a creating call on `n` may answer once the node `o` exists -/
def loserAnswer (o : Oid) (a : DAct) (r : DRet) : Prop :=
  match a with
  | .mkdir _ _ => r = .existing o
  | .add _ _ => r = .refused
  | _ => True

/-- every creating call on `n` in the trace answered as a loser w.r.t. node `o` -/
def AllLosers (n : Name) (o : Oid) : List DAct → List DRet → Prop
  | a :: tr, r :: rs => (a.creates n → loserAnswer o a r) ∧ AllLosers n o tr rs
  | _, _ => True

theorem act_stable {d : DirObj} {n : Name} {o : Oid} (hi : d.index n = some o) (a : DAct)
    (hr : a.removes n = false) :
    (d.act a).1.index n = some o ∧ (a.creates n → loserAnswer o a (d.act a).2)
      ∧ ((a.creates n && (d.act a).2.isCreated) = false) := by
  cases a with
  | lookup m => simp [DirObj.act, hi, DAct.creates]
  | snapshot => simp [DirObj.act, hi, DAct.creates]
  | mkdir m fresh =>
    by_cases hm : m = n
    · subst hm
      simp [DirObj.act, hi, DAct.creates, loserAnswer, DRet.isCreated]
    · have hmb : (m == n) = false := by simpa using hm
      simp only [DirObj.act, DAct.creates, hmb, Bool.false_and, and_true, Bool.false_eq_true,
        false_implies, true_and]
      split
      · exact hi
      · split
        · rename_i ha
          have := (add_index ha).2.1
          rw [this]; simp only [setIdx]
          rw [if_neg (fun e => hm e.symm)]; exact hi
        · exact hi
  | add m o' =>
    by_cases hm : m = n
    · subst hm
      have : d.add m o' = none := add_none_iff.2 (by simp [hi])
      simp [DirObj.act, this, hi, DAct.creates, loserAnswer, DRet.isCreated]
    · have hmb : (m == n) = false := by simpa using hm
      simp only [DirObj.act, DAct.creates, hmb, Bool.false_and, and_true, Bool.false_eq_true,
        false_implies, true_and]
      split
      · rename_i ha
        have := (add_index ha).2.1
        rw [this]; simp only [setIdx]
        rw [if_neg (fun e => hm e.symm)]; exact hi
      · exact hi
  | remove m =>
    have hm : ¬ m = n := by simpa [DAct.removes] using hr
    simp only [DirObj.act, DAct.creates, Bool.false_and, and_true, Bool.false_eq_true,
      false_implies, true_and]
    split
    · rename_i hrm
      have := (remove_index hrm).1
      rw [this]; simp only [setIdx]
      rw [if_neg (fun e => hm e.symm)]; exact hi
    · exact hi

theorem stable_trace {n : Name} {o : Oid} (tr : List DAct) {d : DirObj} (hi : d.index n = some o)
    (hno : ∀ a ∈ tr, a.removes n = false) :
    (d.runTrace tr).1.index n = some o ∧ winners n tr (d.runTrace tr).2 = 0
      ∧ AllLosers n o tr (d.runTrace tr).2 := by
  induction tr generalizing d with
  | nil => simp [DirObj.runTrace, hi, winners, AllLosers]
  | cons a rest ih =>
    obtain ⟨h1, h2, h3⟩ := act_stable hi a (hno a (by simp))
    obtain ⟨i1, i2, i3⟩ := ih h1 (fun b hb => hno b (by simp [hb]))
    simp only [DirObj.runTrace, winners, AllLosers]
    refine ⟨i1, ?_, h2, i3⟩
    rw [h3, i2]; simp

theorem act_first_create {d : DirObj} {n : Name} (hi : d.index n = none) (a : DAct)
    (hr : a.removes n = false) :
    (a.creates n = false → (d.act a).1.index n = none) ∧
    (a.creates n = true → ∃ o, (d.act a).2 = .created o ∧ (d.act a).1.index n = some o) := by
  cases a with
  | lookup m => simp [DirObj.act, hi, DAct.creates]
  | snapshot => simp [DirObj.act, hi, DAct.creates]
  | mkdir m fresh =>
    by_cases hm : m = n
    · subst hm
      have hadd : ∃ d', d.add m fresh = some d' := by
        cases h : d.add m fresh with
        | none => rw [add_none_iff, hi] at h; cases h
        | some d' => exact ⟨d', rfl⟩
      obtain ⟨d', hd'⟩ := hadd
      have := (add_index hd').2.1
      simp [DirObj.act, hi, DAct.creates, hd', this, setIdx]
    · have hmb : (m == n) = false := by simpa using hm
      simp only [DAct.creates, hmb, forall_const, Bool.false_eq_true, false_implies, and_true, DirObj.act]
      split
      · exact hi
      · split
        · rename_i ha
          rw [(add_index ha).2.1]; simp only [setIdx]
          rw [if_neg (fun e => hm e.symm)]; exact hi
        · exact hi
  | add m o' =>
    by_cases hm : m = n
    · subst hm
      have hadd : ∃ d', d.add m o' = some d' := by
        cases h : d.add m o' with
        | none => rw [add_none_iff, hi] at h; cases h
        | some d' => exact ⟨d', rfl⟩
      obtain ⟨d', hd'⟩ := hadd
      have := (add_index hd').2.1
      simp [DirObj.act, DAct.creates, hd', this, setIdx]
    · have hmb : (m == n) = false := by simpa using hm
      simp only [DAct.creates, hmb, forall_const, Bool.false_eq_true, false_implies, and_true, DirObj.act]
      split
      · rename_i ha
        rw [(add_index ha).2.1]; simp only [setIdx]
        rw [if_neg (fun e => hm e.symm)]; exact hi
      · exact hi
  | remove m =>
    have hm : ¬ m = n := by simpa [DAct.removes] using hr
    simp only [DAct.creates, forall_const, Bool.false_eq_true, false_implies, and_true, DirObj.act]
    split
    · rename_i hrm
      rw [(remove_index hrm).1]; simp only [setIdx]
      rw [if_neg (fun e => hm e.symm)]; exact hi
    · exact hi

/-- Any trace of critical sections on one directory that starts without the name `n`, never removes
`n`, and contains at least one creating call on `n`: exactly one call made the node, the node is in
the directory exactly once afterwards, and every other creating call answered with that node
(`mkdir`) or with an error (`addNode`). -/
theorem create_once_trace {n : Name} (tr : List DAct) {d : DirObj} (hinv : DirInv d)
    (hi : d.index n = none) (hno : ∀ a ∈ tr, a.removes n = false)
    (hany : tr.any (DAct.creates n) = true) :
    winners n tr (d.runTrace tr).2 = 1 ∧ countName (d.runTrace tr).1 n = 1 ∧
    ∃ o, (d.runTrace tr).1.index n = some o ∧
      ∃ pre post rpre rpost a, tr = pre ++ a :: post ∧ (d.runTrace tr).2 = rpre ++ DRet.created o :: rpost
        ∧ rpre.length = pre.length ∧ a.creates n = true
        ∧ (∀ b ∈ pre, b.creates n = false) ∧ AllLosers n o post rpost := by
  induction tr generalizing d with
  | nil => simp at hany
  | cons a rest ih =>
    have hra := hno a (by simp)
    have hrest : ∀ b ∈ rest, b.removes n = false := fun b hb => hno b (by simp [hb])
    obtain ⟨hA, hB⟩ := act_first_create hi a hra
    cases hc : a.creates n with
    | true =>
      obtain ⟨o, hro, hio⟩ := hB hc
      obtain ⟨s1, s2, s3⟩ := stable_trace (n := n) (o := o) rest hio hrest
      have hinv' := runTrace_inv hinv (a :: rest)
      simp only [DirObj.runTrace] at hinv' ⊢
      refine ⟨?_, ?_, o, s1, [], rest, [], ((d.act a).1.runTrace rest).2, a, rfl, ?_, rfl, hc, by simp, s3⟩
      · simp [winners, hc, hro, DRet.isCreated, s2]
      · rw [countName_eq_one_iff hinv', s1]; rfl
      · simp [hro]
    | false =>
      have hany' : rest.any (DAct.creates n) = true := by
        simpa [List.any_cons, hc] using hany
      obtain ⟨w, c, o, hio, pre, post, rpre, rpost, b, e1, e2, e3, e4, e5, e6⟩ :=
        ih (act_inv hinv a) (hA hc) hrest hany'
      simp only [DirObj.runTrace]
      refine ⟨?_, c, o, hio, a :: pre, post, (d.act a).2 :: rpre, rpost, b, by simp [e1], by simp [e2],
        by simp [e3], e4, ?_, e6⟩
      · simp [winners, hc, w]
      · intro x hx
        rcases List.mem_cons.1 hx with h | h
        · subst h; exact hc
        · exact e5 x h

end Goat.MemFSConc
