/-
Helper lemmas for property C09, part 8: what each critical section (`applyAct`) does to the heap, in the
vocabulary of `MemFSConcShape`: edges, kinds, entries; and that every one of them preserves `Shape`.
Only the critical sections of MkdirAll / WriteFile / Remove / RemoveAll / reads are analysed in detail
(`lookup`, `mkdirLocked`, `addNewFile`, `removeNode`, `setData`, `getData`, `snapshot`, `readLen`, the outer
lock); the allocation steps of Copy are in `MemFSConcCopy`.
-/
import Goat.Proofs.MemFSConcShape

set_option linter.unusedSimpArgs false
set_option linter.unusedVariables false

namespace Goat.MemFSConc

/-! ### get/set plumbing -/

theorem getElem?_set' (h : Heap) (o : Nat) (x : Obj) (a : Nat) :
    (h.set o x)[a]? = if a = o ∧ o < h.length then some x else h[a]? := by
  rw [List.getElem?_set]
  by_cases hao : o = a
  · subst hao
    by_cases hl : o < h.length
    · simp [hl]
    · simp [hl]
  · have : ¬ a = o := fun e => hao e.symm
    simp [hao, this]

theorem getElem?_append' (h : Heap) (x : Obj) (a : Nat) :
    (h ++ [x])[a]? = if a = h.length then some x else h[a]? := by
  by_cases hlt : a < h.length
  · rw [List.getElem?_append_left hlt]
    have : ¬ a = h.length := Nat.ne_of_lt hlt
    simp [this]
  · have hge : h.length ≤ a := Nat.le_of_not_lt hlt
    rw [List.getElem?_append_right hge]
    by_cases he : a = h.length
    · subst he; simp
    · simp only [he, if_false]
      rw [List.getElem?_eq_none hge]
      have : 1 ≤ a - h.length := by omega
      exact List.getElem?_eq_none (by simpa using this)

/-- `edge`, `okind`, `entryOf` only look at the object itself -/
def edgeObj : Option Obj → Name → Option Oid
  | some (.dir d), n => d.index n
  | _, _ => none

def kindObj : Option Obj → Option Bool
  | some (.dir _) => some true
  | some (.file _) => some false
  | none => none

def entryObj : Option Obj → Option Entry
  | some (.dir _) => some .dir
  | some (.file f) => some (.file f.data)
  | none => none

theorem edge_eq (h : Heap) (a : Oid) (n : Name) : edge h a n = edgeObj h[a]? n := by
  unfold edge getDir edgeObj
  cases h[a]? with
  | none => rfl
  | some x => cases x <;> rfl

theorem okind_eq (h : Heap) (a : Oid) : okind h a = kindObj h[a]? := by
  unfold okind kindObj
  cases h[a]? with
  | none => rfl
  | some x => cases x <;> rfl

theorem entryOf_eq (h : Heap) (a : Oid) : entryOf h a = entryObj h[a]? := by
  unfold entryOf entryObj
  cases h[a]? with
  | none => rfl
  | some x => cases x <;> rfl

theorem getDir_eq_some {h : Heap} {a : Oid} {d : DirObj} : getDir h a = some d ↔ h[a]? = some (.dir d) := by
  unfold getDir
  cases h[a]? with
  | none => simp
  | some x => cases x <;> simp

theorem getFile_eq_some {h : Heap} {a : Oid} {f : FileObj} : getFile h a = some f ↔ h[a]? = some (.file f) := by
  unfold getFile
  cases h[a]? with
  | none => simp
  | some x => cases x <;> simp

theorem getDir_lt_len {h : Heap} {a : Oid} {d : DirObj} (hd : getDir h a = some d) : a < h.length :=
  (List.getElem?_eq_some_iff.1 (getDir_eq_some.1 hd)).1

theorem getFile_lt_len {h : Heap} {a : Oid} {f : FileObj} (hd : getFile h a = some f) : a < h.length :=
  (List.getElem?_eq_some_iff.1 (getFile_eq_some.1 hd)).1

/-! ### the four kinds of change -/

/-- a directory object replaced by one with the same index (lock fields only) -/
theorem same_of_set_dir {h : Heap} {o : Oid} {d d' : DirObj} (hd : getDir h o = some d) (hi : d'.index = d.index) :
    EdgeEq h (h.set o (.dir d')) ∧ EntKept h (h.set o (.dir d')) none := by
  have hx := getDir_eq_some.1 hd
  constructor
  · intro a n
    rw [edge_eq, edge_eq, getElem?_set']
    by_cases ha : a = o ∧ o < h.length
    · simp only [ha, and_self, if_true]
      rw [hx]; simp [edgeObj, hi]
    · simp [ha]
  · intro a _
    rw [okind_eq, okind_eq, entryOf_eq, entryOf_eq, getElem?_set']
    by_cases ha : a = o ∧ o < h.length
    · simp only [ha, and_self, if_true]
      rw [hx]; simp [kindObj, entryObj]
    · simp [ha]

/-- new data in a file object -/
theorem data_of_set_file {h : Heap} {o : Oid} {f f' : FileObj} (hf : getFile h o = some f) :
    EdgeEq h (h.set o (.file f')) ∧ EntKept h (h.set o (.file f')) (some o)
      ∧ entryOf (h.set o (.file f')) o = some (.file f'.data) := by
  have hx := getFile_eq_some.1 hf
  have hl := getFile_lt_len hf
  refine ⟨?_, ?_, ?_⟩
  · intro a n
    rw [edge_eq, edge_eq, getElem?_set']
    by_cases ha : a = o ∧ o < h.length
    · simp only [ha, and_self, if_true]
      rw [hx]; simp [edgeObj]
    · simp [ha]
  · intro a _
    rw [okind_eq, okind_eq, entryOf_eq, entryOf_eq, getElem?_set']
    by_cases ha : a = o ∧ o < h.length
    · simp only [ha, and_self, if_true]
      rw [hx]
      refine ⟨by simp [kindObj], fun hne => absurd rfl hne⟩
    · have : ¬ a = o := fun e => ha ⟨e, hl⟩
      simp [ha]
  · rw [entryOf_eq, getElem?_set']; simp [hl, entryObj]

/-- a fresh leaf linked below a directory -/
theorem addLeaf_of {h : Heap} (hs : Shape h) {o : Oid} {d d' : DirObj} {n : Name} {x : Obj}
    (hd : getDir h o = some d) (ha : d.add n h.length = some d') (hx : ∀ m, edgeObj (some x) m = none) :
    AddLeaf h (h.set o (.dir d') ++ [x]) o n h.length
      ∧ EntKept h (h.set o (.dir d') ++ [x]) none
      ∧ entryOf (h.set o (.dir d') ++ [x]) h.length = entryObj (some x) := by
  have hl := getDir_lt_len hd
  have hgx := getDir_eq_some.1 hd
  obtain ⟨hnone, hidx, _, _, _⟩ := add_index ha
  have hlen : (h.set o (.dir d')).length = h.length := by simp
  refine ⟨⟨?_, ?_, ?_, ?_, ?_⟩, ?_, ?_⟩
  · intro a m
    rw [edge_eq, getElem?_append', hlen, getElem?_set']
    by_cases haN : a = h.length
    · subst haN
      have h1 : ¬ (h.length = o ∧ m = n) := fun hh => absurd hh.1 (Nat.ne_of_gt hl)
      simp only [if_true, h1, if_false, hx]
      rw [edge_eq, List.getElem?_eq_none (Nat.le_refl _)]; rfl
    · simp only [haN, if_false]
      by_cases hao : a = o
      · subst hao
        simp only [hl, and_self, if_true, edgeObj, hidx, setIdx, true_and]
        by_cases hm : m = n
        · simp [hm]
        · simp only [hm, if_false]
          rw [edge_eq, hgx]; rfl
      · simp only [hao, false_and, if_false]
        rw [edge_eq]
  · unfold edge; rw [hd]; exact hnone
  · intro a m he
    exact absurd (hs.closed _ _ _ he).1 (Nat.lt_irrefl _)
  · intro m
    rw [edge_eq, List.getElem?_eq_none (Nat.le_refl _)]; rfl
  · exact Nat.ne_of_gt hl
  · intro a hal
    rw [okind_eq, okind_eq, entryOf_eq, entryOf_eq, getElem?_append', hlen, getElem?_set']
    have h1 : ¬ a = h.length := Nat.ne_of_lt hal
    simp only [h1, if_false]
    by_cases hao : a = o
    · subst hao
      simp only [hl, and_self, if_true, hgx]
      exact ⟨rfl, fun _ => rfl⟩
    · simp [hao]
  · rw [entryOf_eq, getElem?_append', hlen]; simp

/-- one entry removed from a directory -/
theorem remEdge_of {h : Heap} {o : Oid} {d d' : DirObj} {n : Name}
    (hd : getDir h o = some d) (hr : d.remove n = some d') :
    RemEdge h (h.set o (.dir d')) o n ∧ EntKept h (h.set o (.dir d')) none := by
  have hl := getDir_lt_len hd
  have hgx := getDir_eq_some.1 hd
  obtain ⟨hidx, _, _⟩ := remove_index hr
  constructor
  · constructor
    intro a m
    rw [edge_eq, getElem?_set']
    by_cases hao : a = o
    · subst hao
      simp only [hl, and_self, if_true, edgeObj, hidx, setIdx, true_and]
      by_cases hm : m = n
      · simp [hm]
      · simp only [hm, if_false]
        rw [edge_eq, hgx]; rfl
    · simp only [hao, false_and, if_false]
      rw [edge_eq]
  · intro a _
    rw [okind_eq, okind_eq, entryOf_eq, entryOf_eq, getElem?_set']
    by_cases hao : a = o
    · subst hao
      simp only [hl, and_self, if_true, hgx]
      exact ⟨rfl, fun _ => rfl⟩
    · simp [hao]

/-! ### `Shape` is kept -/

theorem shape_same {h h' : Heap} (hs : Shape h) (hi : HeapInv h') (he : EdgeEq h h') (hk : EntKept h h' none)
    (hl : h.length ≤ h'.length) : Shape h' := by
  refine ⟨hi, ?_, ?_, ?_⟩
  · rw [(hk 0 hs.length_pos).1]; exact hs.root
  · intro a n c hc
    rw [he] at hc
    exact ⟨Nat.lt_of_lt_of_le (hs.closed _ _ _ hc).1 hl, (hs.closed _ _ _ hc).2⟩
  · intro a n a' n' c h1 h2
    rw [he] at h1 h2
    exact hs.up _ _ _ _ _ h1 h2

theorem shape_data {h h' : Heap} {f : Oid} (hs : Shape h) (hi : HeapInv h') (he : EdgeEq h h')
    (hk : EntKept h h' (some f)) (hl : h.length ≤ h'.length) : Shape h' := by
  refine ⟨hi, ?_, ?_, ?_⟩
  · rw [(hk 0 hs.length_pos).1]; exact hs.root
  · intro a n c hc
    rw [he] at hc
    exact ⟨Nat.lt_of_lt_of_le (hs.closed _ _ _ hc).1 hl, (hs.closed _ _ _ hc).2⟩
  · intro a n a' n' c h1 h2
    rw [he] at h1 h2
    exact hs.up _ _ _ _ _ h1 h2

theorem shape_addLeaf {h h' : Heap} {od : Oid} {n : Name} (hs : Shape h) (hi : HeapInv h')
    (ha : AddLeaf h h' od n h.length) (hk : EntKept h h' none) (hl : h.length < h'.length) : Shape h' := by
  refine ⟨hi, ?_, ?_, ?_⟩
  · rw [(hk 0 hs.length_pos).1]; exact hs.root
  · intro a m c hc
    rw [ha.edges] at hc
    split at hc
    · cases hc; exact ⟨hl, Nat.ne_of_gt hs.length_pos⟩
    · exact ⟨Nat.lt_trans (hs.closed _ _ _ hc).1 hl, (hs.closed _ _ _ hc).2⟩
  · intro a m a' m' c h1 h2
    rw [ha.edges] at h1 h2
    by_cases x1 : a = od ∧ m = n <;> by_cases x2 : a' = od ∧ m' = n
    · exact ⟨x1.1.trans x2.1.symm, x1.2.trans x2.2.symm⟩
    · simp only [x1, and_self, if_true, Option.some.injEq, x2, if_false] at h1 h2
      subst h1
      exact absurd h2 (ha.fresh_in _ _)
    · simp only [x1, if_false, x2, and_self, if_true, Option.some.injEq] at h1 h2
      subst h2
      exact absurd h1 (ha.fresh_in _ _)
    · simp only [x1, x2, if_false] at h1 h2
      exact hs.up _ _ _ _ _ h1 h2

theorem shape_remEdge {h h' : Heap} {od : Oid} {n : Name} (hs : Shape h) (hi : HeapInv h')
    (hr : RemEdge h h' od n) (hk : EntKept h h' none) (hl : h.length ≤ h'.length) : Shape h' := by
  refine ⟨hi, ?_, ?_, ?_⟩
  · rw [(hk 0 hs.length_pos).1]; exact hs.root
  · intro a m c hc
    rw [hr.edges] at hc
    split at hc
    · cases hc
    · exact ⟨Nat.lt_of_lt_of_le (hs.closed _ _ _ hc).1 hl, (hs.closed _ _ _ hc).2⟩
  · intro a m a' m' c h1 h2
    rw [hr.edges] at h1 h2
    split at h1
    · cases h1
    · split at h2
      · cases h2
      · exact hs.up _ _ _ _ _ h1 h2

/-! ### the critical sections, one by one -/

theorem applyAct_some {h h' : Heap} {t : Tid} {a : Act} {r : Ret} (hs : applyAct h t a = some (h', r)) :
    ∃ e, actEff h t a = some e ∧ (applyEff h e).1 = h' ∧ e.ret = r := by
  unfold applyAct at hs
  cases he : actEff h t a with
  | none => simp [he] at hs
  | some e =>
    simp only [he, Option.map_some, Option.some.injEq] at hs
    refine ⟨e, rfl, by rw [hs], ?_⟩
    have := congrArg Prod.snd hs
    simpa [applyEff] using this

/-- `getNode` / `getDir`: no change, answers the edge -/
theorem act_lookup {h h' : Heap} {t : Tid} {d : Oid} {n : Name} {r : Ret}
    (hs : applyAct h t (.lookup d n) = some (h', r)) :
    h' = h ∧ r = .node ((edge h d n).map fun o => (o, kindOf h o)) := by
  obtain ⟨e, he, hh, hr⟩ := applyAct_some hs
  simp only [actEff] at he
  unfold edge
  cases hd : getDir h d with
  | none => simp [hd] at he; subst he; exact ⟨hh.symm, hr.symm⟩
  | some dd => simp [hd] at he; subst he; exact ⟨hh.symm, hr.symm⟩

theorem act_tau {h h' : Heap} {t : Tid} {r : Ret} (hs : applyAct h t .tau = some (h', r)) : h' = h := by
  obtain ⟨e, he, hh, _⟩ := applyAct_some hs
  simp only [actEff, Option.some.injEq] at he
  subst he; exact hh.symm

/-- the locked part of `mkdir` -/
theorem act_mkdirLocked {h h' : Heap} {t : Tid} {d : Oid} {n : Name} {r : Ret} {dd : DirObj}
    (hd : getDir h d = some dd) (hs : applyAct h t (.mkdirLocked d n) = some (h', r)) :
    (∃ o, dd.index n = some o ∧ kindOf h o = true ∧ h' = h ∧ r = .oid o) ∨
    (∃ o, dd.index n = some o ∧ kindOf h o = false ∧ h' = h ∧ r = .err) ∨
    (dd.index n = none ∧ ∃ dd', dd.add n h.length = some dd' ∧ h' = h.set d (.dir dd') ++ [.dir {}] ∧ r = .oid h.length) := by
  obtain ⟨e, he, hh, hr⟩ := applyAct_some hs
  simp only [actEff, hd] at he
  split at he
  · cases hi : dd.index n with
    | some o =>
      simp only [hi] at he
      by_cases hk : kindOf h o = true
      · simp [hk] at he; subst he
        exact Or.inl ⟨o, rfl, hk, hh.symm, hr.symm⟩
      · simp [hk] at he; subst he
        exact Or.inr (Or.inl ⟨o, rfl, by simpa using hk, hh.symm, hr.symm⟩)
    | none =>
      simp only [hi] at he
      cases ha : dd.add n h.length with
      | none => rw [add_none_iff] at ha; simp [hi] at ha
      | some dd' =>
        simp [ha] at he; subst he
        exact Or.inr (Or.inr ⟨rfl, dd', rfl, by rw [← hh]; rfl, hr.symm⟩)
  · cases he

/-- `NewFile` + `addNode` -/
theorem act_addNewFile {h h' : Heap} {t : Tid} {d : Oid} {n : Name} {v : Data} {r : Ret} {dd : DirObj}
    (hd : getDir h d = some dd) (hs : applyAct h t (.addNewFile d n v) = some (h', r)) :
    (dd.index n ≠ none ∧ h' = h ∧ r = .err) ∨
    (dd.index n = none ∧ ∃ dd', dd.add n h.length = some dd' ∧
      h' = h.set d (.dir dd') ++ [.file { data := v, committed := [v] }] ∧ r = .oid h.length) := by
  obtain ⟨e, he, hh, hr⟩ := applyAct_some hs
  simp only [actEff, hd] at he
  split at he
  · cases ha : dd.add n h.length with
    | none =>
      simp [ha] at he; subst he
      rw [add_none_iff] at ha
      left
      refine ⟨?_, hh.symm, hr.symm⟩
      intro hn; simp [hn] at ha
    | some dd' =>
      simp [ha] at he; subst he
      right
      exact ⟨(add_index ha).1, dd', rfl, by rw [← hh]; rfl, hr.symm⟩
  · cases he

/-- `removeNodeByName` -/
theorem act_removeNode {h h' : Heap} {t : Tid} {d : Oid} {n : Name} {r : Ret} {dd : DirObj}
    (hi : DirInv dd) (hd : getDir h d = some dd) (hs : applyAct h t (.removeNode d n) = some (h', r)) :
    (dd.index n = none ∧ h' = h ∧ r = .err) ∨
    (dd.index n ≠ none ∧ ∃ dd', dd.remove n = some dd' ∧ h' = h.set d (.dir dd') ∧ r = .unit) := by
  obtain ⟨e, he, hh, hr⟩ := applyAct_some hs
  simp only [actEff, hd] at he
  split at he
  · cases ha : dd.remove n with
    | none =>
      simp [ha] at he; subst he
      left
      refine ⟨?_, hh.symm, hr.symm⟩
      unfold DirObj.remove at ha
      simp only [Option.map_eq_none_iff] at ha
      rw [removeFirst_none_iff] at ha
      exact index_none_of_not_mem hi ha
    | some dd' =>
      simp [ha] at he; subst he
      right
      refine ⟨?_, dd', rfl, by rw [← hh]; rfl, hr.symm⟩
      intro hn
      have := not_mem_of_index_none hi hn
      rw [← removeFirst_none_iff] at this
      unfold DirObj.remove at ha
      simp [this] at ha
  · cases he

/-- `getNodes`: the listing -/
theorem act_snapshot {h h' : Heap} {t : Tid} {d : Oid} {r : Ret} {dd : DirObj}
    (hd : getDir h d = some dd) (hs : applyAct h t (.snapshot d false) = some (h', r)) :
    h' = h ∧ r = .nodes (dd.nodes.map fun p => (p.1, p.2, kindOf h p.2)) := by
  obtain ⟨e, he, hh, hr⟩ := applyAct_some hs
  simp [actEff, hd] at he
  subst he
  exact ⟨hh.symm, hr.symm⟩

theorem act_readLen {h h' : Heap} {t : Tid} {d : Oid} {r : Ret} {dd : DirObj}
    (hd : getDir h d = some dd) (hs : applyAct h t (.readLen d) = some (h', r)) :
    h' = h ∧ r = .len dd.nodes.length := by
  obtain ⟨e, he, hh, hr⟩ := applyAct_some hs
  simp [actEff, hd] at he
  subst he
  exact ⟨hh.symm, hr.symm⟩

theorem act_getData {h h' : Heap} {t : Tid} {f : Oid} {r : Ret} {ff : FileObj}
    (hf : getFile h f = some ff) (hs : applyAct h t (.getData f) = some (h', r)) :
    h' = h ∧ r = .data ff.data := by
  obtain ⟨e, he, hh, hr⟩ := applyAct_some hs
  simp only [actEff, hf] at he
  split at he
  · simp at he; subst he; exact ⟨hh.symm, hr.symm⟩
  · cases he

theorem act_setData {h h' : Heap} {t : Tid} {f : Oid} {v : Data} {r : Ret} {ff : FileObj}
    (hf : getFile h f = some ff) (hs : applyAct h t (.setData f v) = some (h', r)) :
    (∃ ff' : FileObj, ff'.data = v ∧ h' = h.set f (.file ff')) ∧ r = .unit := by
  obtain ⟨e, he, hh, hr⟩ := applyAct_some hs
  simp only [actEff, hf] at he
  split at he
  · simp at he; subst he
    exact ⟨⟨_, rfl, by rw [← hh]; rfl⟩, hr.symm⟩
  · cases he

/-- the embedded lock of a directory: only the `outer` field changes -/
theorem act_outer {h h' : Heap} {t : Tid} {d : Oid} {r : Ret} {a : Act} (ha : a = .outerLock d ∨ a = .outerUnlock d)
    (hs : applyAct h t a = some (h', r)) :
    h' = h ∨ ∃ dd dd', getDir h d = some dd ∧ dd'.index = dd.index ∧ h' = h.set d (.dir dd') := by
  obtain ⟨e, he, hh, hr⟩ := applyAct_some hs
  rcases ha with rfl | rfl
  · simp only [actEff] at he
    cases hd : getDir h d with
    | none => simp [hd] at he; subst he; exact Or.inl hh.symm
    | some dd =>
      simp only [hd] at he
      split at he
      · simp at he; subst he
        exact Or.inr ⟨dd, { dd with outer := some t }, rfl, rfl, by rw [← hh]; rfl⟩
      · cases he
  · simp only [actEff] at he
    cases hd : getDir h d with
    | none => simp [hd] at he; subst he; exact Or.inl hh.symm
    | some dd =>
      simp only [hd] at he
      split at he
      · simp at he; subst he
        exact Or.inr ⟨dd, { dd with outer := none }, rfl, rfl, by rw [← hh]; rfl⟩
      · simp at he; subst he; exact Or.inl hh.symm

end Goat.MemFSConc
