/-
Helper lemmas for property C09, part 7: one file object.  While a stream handle of thread `t` holds
the file (`lock = some t`) the only possible changes are `t`'s own `hwrite`s and `t`'s `Close`, and the
value committed at `Close` is exactly what was there at open plus `t`'s chunks.
-/
import Goat.Proofs.MemFSConcSys

set_option linter.unusedSimpArgs false

namespace Goat.MemFSConc

/-- a sequence of changes of one file object (by any threads, any acts) -/
inductive FileRun : FileObj → List (Tid × Act × Oid) → FileObj → Prop where
  | nil (f : FileObj) : FileRun f [] f
  | cons {f f1 f2 : FileObj} {t : Tid} {a : Act} {o : Oid} {rest : List (Tid × Act × Oid)} :
      FileChange t a o f f1 → FileRun f1 rest f2 → FileRun f ((t, a, o) :: rest) f2

def isClose : Act → Bool
  | .closeH _ _ => true
  | _ => false

/-- the chunks written by `hwrite` acts of a run -/
def chunksOf : List (Tid × Act × Oid) → Data
  | [] => []
  | (_, .hwrite _ c, _) :: rest => c ++ chunksOf rest
  | _ :: rest => chunksOf rest

/-- while `t` holds the file, a change is `t`'s own `hwrite` or `t`'s `Close` -/
theorem held_change {t t' : Tid} {a : Act} {o : Oid} {f f' : FileObj} (hl : f.lock = some t)
    (hc : FileChange t' a o f f') :
    t' = t ∧ ((∃ x c, a = .hwrite x c ∧ f'.data = f.data ++ c ∧ f'.lock = some t ∧ f'.committed = f.committed) ∨
      (∃ x w, a = .closeH x w ∧ f'.lock = none ∧ f'.committed = f.committed ++ [f.data] ∧ f'.data = f.data)) := by
  cases a <;> simp only [FileChange] at hc
  case setData x v => rw [hl] at hc; simp at hc
  case openH x tr => rw [hl] at hc; simp at hc
  case hwrite x c =>
    obtain ⟨_, h2, h3⟩ := hc
    rw [hl] at h2; cases h2
    exact ⟨rfl, Or.inl ⟨x, c, rfl, by rw [h3], by rw [h3]; exact hl, by rw [h3]⟩⟩
  case closeH x w =>
    obtain ⟨_, h2, h3⟩ := hc
    rw [hl] at h2; cases h2
    exact ⟨rfl, Or.inr ⟨x, w, rfl, by rw [h3], by rw [h3], by rw [h3]⟩⟩

/-- a `Writer` opens the file empty and holds it -/
theorem open_change {t : Tid} {x o : Oid} {f f' : FileObj} (hc : FileChange t (.openH x true) o f f') :
    f.lock = none ∧ f'.lock = some t ∧ f'.data = [] ∧ f'.committed = f.committed := by
  simp only [FileChange] at hc
  obtain ⟨_, h2, h3⟩ := hc
  exact ⟨h2, by rw [h3], by rw [h3]; rfl, by rw [h3]⟩

/-- From a state in which `t` holds the file: every run whose last act is the first `Close` consists of
acts of `t` only, and the value committed by that `Close` is the held content plus `t`'s chunks, in
order.  (With `open_change`: a writer's committed value is exactly the concatenation of its chunks.) -/
theorem held_run_commits {t : Tid} {f f' : FileObj} {run : List (Tid × Act × Oid)} {last : Tid × Act × Oid}
    (hl : f.lock = some t) (hr : FileRun f (run ++ [last]) f')
    (hno : ∀ s ∈ run, isClose s.2.1 = false) (hlast : isClose last.2.1 = true) :
    (∀ s ∈ run ++ [last], s.1 = t) ∧ f'.lock = none ∧
      f'.committed = f.committed ++ [f.data ++ chunksOf run] ∧ f'.data = f.data ++ chunksOf run := by
  induction run generalizing f with
  | nil =>
    simp only [List.nil_append] at hr
    cases hr with
    | cons hc hrest =>
      cases hrest
      obtain ⟨ht, hx⟩ := held_change hl hc
      rcases hx with ⟨x, c, ha, _⟩ | ⟨x, w, ha, h1, h2, h3⟩
      · rw [ha] at hlast; cases hlast
      · refine ⟨?_, h1, by simpa [chunksOf] using h2, by simpa [chunksOf] using h3⟩
        intro s hs
        simp only [List.nil_append, List.mem_singleton] at hs
        subst hs; exact ht
  | cons s rest ih =>
    obtain ⟨t', a, o⟩ := s
    simp only [List.cons_append] at hr
    cases hr with
    | cons hc hrest =>
      obtain ⟨ht, hx⟩ := held_change hl hc
      have hnc : isClose a = false := hno (t', a, o) (by simp)
      rcases hx with ⟨x, c, ha, hd, hl1, hcm⟩ | ⟨x, w, ha, _⟩
      · obtain ⟨i1, i2, i3, i4⟩ := ih hl1 hrest (fun s hs => hno s (by simp [hs]))
        subst ha
        refine ⟨?_, i2, ?_, ?_⟩
        · intro s hs
          simp only [List.cons_append, List.mem_cons] at hs
          rcases hs with rfl | hs
          · exact ht
          · exact i1 s hs
        · rw [i3, hcm, hd]; simp [chunksOf, List.append_assoc]
        · rw [i4, hd]; simp [chunksOf, List.append_assoc]
      · rw [ha] at hnc; cases hnc

/-! ### the history of one file object along a run of the thread system -/

theorem getFile_getDir_excl {h : Heap} {o : Oid} {f : FileObj} {d : DirObj} (hf : getFile h o = some f)
    (hd : getDir h o = some d) : False := by
  unfold getFile at hf; unfold getDir at hd
  cases hx : h[o]? with
  | none => simp [hx] at hf
  | some x => cases x <;> simp [hx] at hf hd

theorem getFile_lt' {h : Heap} {o : Nat} {f : FileObj} (hg : getFile h o = some f) : o < List.length h := by
  unfold getFile at hg
  cases hx : h[o]? with
  | none => simp [hx] at hg
  | some _ => exact (List.getElem?_eq_some_iff.1 hx).1

/-- forward: a file object persists; a critical section leaves it unchanged or changes it by a
`FileChange` -/
theorem applyAct_file_fwd {h h' : Heap} {t : Tid} {a : Act} {r : Ret} (hs : applyAct h t a = some (h', r))
    {o : Oid} {f : FileObj} (hg : getFile h o = some f) :
    ∃ f', getFile h' o = some f' ∧ (f' = f ∨ FileChange t a o f f') := by
  unfold applyAct at hs
  cases he : actEff h t a with
  | none => simp [he] at hs
  | some e =>
    simp [he] at hs
    have hh : (applyEff h e).1 = h' := by rw [hs]
    rw [← hh, applyEff_fst]
    have hlt := getFile_lt' hg
    -- the update
    have hupd : ∃ f', getFile (updHeap h e.upd) o = some f' ∧ (f' = f ∨ FileChange t a o f f') := by
      cases hu : e.upd with
      | none => exact ⟨f, hg, Or.inl rfl⟩
      | setDir o1 d1 =>
        by_cases ho : o1 = o
        · subst ho
          obtain ⟨d, hd, _⟩ := actEff_upd_dir he hu
          exact absurd hd (fun hd => getFile_getDir_excl hg hd)
        · refine ⟨f, ?_, Or.inl rfl⟩
          simp only [updHeap]
          unfold getFile at hg ⊢
          rw [List.getElem?_set_ne ho]; exact hg
      | setFile o1 f1 =>
        by_cases ho : o1 = o
        · subst ho
          obtain ⟨f0, hf0, hc⟩ := actEff_upd_file he hu
          rw [hg] at hf0; cases hf0
          refine ⟨f1, ?_, Or.inr hc⟩
          simp only [updHeap]
          unfold getFile
          rw [List.getElem?_set_self hlt]
        · refine ⟨f, ?_, Or.inl rfl⟩
          simp only [updHeap]
          unfold getFile at hg ⊢
          rw [List.getElem?_set_ne ho]; exact hg
    obtain ⟨f', hf', hch⟩ := hupd
    refine ⟨f', ?_, hch⟩
    cases e.alloc with
    | none => exact hf'
    | some x =>
      simp only [allocHeap]
      unfold getFile at hf' ⊢
      have : o < (updHeap h e.upd).length := by rw [updHeap_length]; exact hlt
      rw [List.getElem?_append_left this]; exact hf'

theorem step_file_fwd {v : Variant} {s s' : State} {t : Tid} (hs : step v s t = some s')
    {o : Oid} {f : FileObj} (hg : getFile s.heap o = some f) :
    ∃ f', getFile s'.heap o = some f' ∧ (f' = f ∨ ∃ a, FileChange t a o f f') := by
  obtain ⟨th, _, hk⟩ := step_cases hs
  cases hk with
  | start op rest _ _ => exact ⟨f, hg, Or.inl rfl⟩
  | fin r _ => exact ⟨f, hg, Or.inl rfl⟩
  | act h' r _ _ hap =>
    obtain ⟨f', hf', hc⟩ := applyAct_file_fwd hap hg
    refine ⟨f', hf', ?_⟩
    rcases hc with h | h
    · exact Or.inl h
    · exact Or.inr ⟨_, h⟩

theorem fileRun_snoc {f f1 f2 : FileObj} {run : List (Tid × Act × Oid)} {t : Tid} {a : Act} {o : Oid}
    (hr : FileRun f run f1) (hc : FileChange t a o f1 f2) : FileRun f (run ++ [(t, a, o)]) f2 := by
  induction hr with
  | nil f => exact FileRun.cons hc (FileRun.nil _)
  | cons hc0 _ ih => exact FileRun.cons hc0 (ih hc)

/-- along every schedule the successive states of one file object form a `FileRun` -/
theorem file_history_from {v : Variant} {progs : List (List Op)} (sched : List Tid) {s : State} {o : Oid}
    {f : FileObj} (hg : getFile s.heap o = some f) :
    ∃ f' run, getFile ((sys v progs).runFrom s sched).heap o = some f' ∧ FileRun f run f' := by
  induction sched generalizing s f with
  | nil => exact ⟨f, [], hg, FileRun.nil f⟩
  | cons t rest ih =>
    rw [LTS.runFrom_cons]
    unfold LTS.Sys.next
    cases hst : (sys v progs).step s t with
    | none => simpa using ih hg
    | some s1 =>
      simp only [Option.getD_some]
      have hst' : step v s t = some s1 := hst
      obtain ⟨f1, hf1, hc⟩ := step_file_fwd hst' hg
      obtain ⟨f', run, hf', hrun⟩ := ih hf1
      rcases hc with rfl | ⟨a, hc⟩
      · exact ⟨f', run, hf', hrun⟩
      · exact ⟨f', (t, a, o) :: run, hf', FileRun.cons hc hrun⟩

end Goat.MemFSConc
