/-
Helper lemmas for property C09, part 17: the two sides put together.

`commute_core`: threads running pairwise independent operations from a forest-shaped heap `h0` that
represents the tree `t0`; after ANY schedule that lets every thread finish, the abstract tree of the heap
is the abstract tree of the sequential model run over the same operations in ANY order `σ`, and both the
concurrent and the sequential results are the results the operations have in the initial tree.
`created_core`: the shared-ancestor creation race.
-/
import Goat.Proofs.MemFSConcSimMain
import Goat.Proofs.MemFSConcSeq
import Goat.Proofs.MemFSConcDeadlock

set_option linter.unusedSimpArgs false
set_option linter.unusedVariables false

namespace Goat.MemFSConc
open Goat.FS (Entry)

/-- the operations a batch may consist of: supported (`Op.ok`), on reduced paths -/
def Op.fine (op : Op) : Prop := op.ok ∧ op.reduced

theorem hyp_of {h0 : Heap} (hsh : Shape h0) {progs : List (List Op)}
    (hok : ∀ P ∈ progs, ∀ op ∈ P, op.fine) (hind : progs.flatten.Pairwise IndepOp) : Hyp (absT h0) progs :=
  { wf := treeWF_absT hsh, ok := fun P hP op hop => (hok P hP op hop).1, indep := hind }

theorem commute_core {h0 : Heap} (hsh : Shape h0) {t0 : Node} (ht0 : MemFS.Inv t0) (habs : absT h0 = abs t0)
    {progs : List (List Op)} (hok : ∀ P ∈ progs, ∀ op ∈ P, op.fine)
    (hind : progs.flatten.Pairwise IndepOp) (sched : List Tid)
    (hfin : ∀ t, unfinished ((sys .fixed progs).runFrom (startState h0 progs) sched) t = false)
    (σ : List Op) (hσ : σ.Perm progs.flatten) :
    abs (seqRun t0 σ).1 = absT ((sys .fixed progs).runFrom (startState h0 progs) sched).heap ∧
    (∀ τ P, progs[τ]? = some P →
      ResList (absT h0) P (resultsOf ((sys .fixed progs).runFrom (startState h0 progs) sched) τ)) ∧
    (seqRun t0 σ).2.length = σ.length ∧
    (∀ (k : Nat) op r, σ[k]? = some op → (seqRun t0 σ).2[k]? = some r → ResOKfs (absT h0) op r) ∧
    MemFS.Inv (seqRun t0 σ).1 ∧ Shape ((sys .fixed progs).runFrom (startState h0 progs) sched).heap := by
  have hyp := hyp_of hsh hok hind
  have hsim := sim_runFrom hyp sched (sim_start_state hsh progs)
  obtain ⟨hA, hR⟩ := sim_final hyp hsim hfin
  have hσind : σ.Pairwise IndepOp :=
    (hσ.pairwise_iff (fun h => IndepOp.symm h)).2 hind
  have hσok : ∀ j ∈ σ, j.ok ∧ j.reduced := by
    intro j hj
    have := hσ.subset hj
    rw [List.mem_flatten] at this
    obtain ⟨P, hP, hjP⟩ := this
    exact ⟨(hok P hP j hjP).1, (hok P hP j hjP).2⟩
  obtain ⟨h1, h2, h3, h4⟩ := seqRun_closed (T0 := absT h0) hyp.wf σ [] t0 ht0 (by rw [← habs]; rfl)
    (by simpa using hσok) (by simpa using hσind)
  refine ⟨?_, hR, h3, h4, h1, hsim.shape⟩
  rw [h2, hA]
  simp only [List.nil_append]
  exact SD_perm hσ (fun op hop => (hσok op hop).1) hσind

/-- results allowed by `ResOK` are unique, except for the order of a directory listing -/
theorem resOK_det {T : Tree} {op : Op} {r r' : Res} (h : ResOK T op r) (h' : ResOK T op r')
    (hnl : ∀ p, op ≠ .readDir p) : r = r' := by
  cases op with
  | readDir p => exact absurd rfl (hnl p)
  | readFile p =>
    simp only [ResOK] at h h'
    cases hT : T p with
    | none => rw [hT] at h h'; rw [h, h']
    | some e => cases e <;> rw [hT] at h h' <;> simp at h h' <;> rw [h, h']
  | probe p want => simp only [ResOK] at h h'; rw [h, h']
  | mkdirAll p => rcases h with ⟨a, rfl⟩ | ⟨a, rfl⟩ <;> rcases h' with ⟨b, rfl⟩ | ⟨b, rfl⟩ <;> first | rfl | exact absurd a b | exact absurd b a
  | writeFile p v => rcases h with ⟨a, rfl⟩ | ⟨a, rfl⟩ <;> rcases h' with ⟨b, rfl⟩ | ⟨b, rfl⟩ <;> first | rfl | exact absurd a b | exact absurd b a
  | remove p => rcases h with ⟨a, rfl⟩ | ⟨a, rfl⟩ <;> rcases h' with ⟨b, rfl⟩ | ⟨b, rfl⟩ <;> first | rfl | exact absurd a b | exact absurd b a
  | removeAll p => rcases h with ⟨a, rfl⟩ | ⟨a, rfl⟩ <;> rcases h' with ⟨b, rfl⟩ | ⟨b, rfl⟩ <;> first | rfl | exact absurd a b | exact absurd b a
  | copy s d => rcases h with ⟨a, rfl⟩ | ⟨a, rfl⟩ <;> rcases h' with ⟨b, rfl⟩ | ⟨b, rfl⟩ <;> first | rfl | exact absurd a b | exact absurd b a
  | openW _ _ => rcases h with ⟨a, rfl⟩ | ⟨a, rfl⟩ <;> rcases h' with ⟨b, rfl⟩ | ⟨b, rfl⟩ <;> first | rfl | exact absurd a b | exact absurd b a
  | openR _ _ => rcases h with ⟨a, rfl⟩ | ⟨a, rfl⟩ <;> rcases h' with ⟨b, rfl⟩ | ⟨b, rfl⟩ <;> first | rfl | exact absurd a b | exact absurd b a
  | hwrite _ _ => rcases h with ⟨a, rfl⟩ | ⟨a, rfl⟩ <;> rcases h' with ⟨b, rfl⟩ | ⟨b, rfl⟩ <;> first | rfl | exact absurd a b | exact absurd b a
  | hread _ => rcases h with ⟨a, rfl⟩ | ⟨a, rfl⟩ <;> rcases h' with ⟨b, rfl⟩ | ⟨b, rfl⟩ <;> first | rfl | exact absurd a b | exact absurd b a
  | close _ => rcases h with ⟨a, rfl⟩ | ⟨a, rfl⟩ <;> rcases h' with ⟨b, rfl⟩ | ⟨b, rfl⟩ <;> first | rfl | exact absurd a b | exact absurd b a

/-- two listings `ResOK` allows for a directory have the same entries -/
theorem resOK_listing {T : Tree} {p : Path} {r r' : Res} (h : ResOK T (.readDir p) r) (h' : ResOK T (.readDir p) r') :
    (r = .err ∧ r' = .err) ∨ ∃ l l', r = .list l ∧ r' = .list l' ∧ FS.IsListing T p l ∧ FS.IsListing T p l' ∧
      ∀ x, x ∈ l ↔ x ∈ l' := by
  simp only [ResOK] at h h'
  cases hT : T p with
  | none => rw [hT] at h h'; exact Or.inl ⟨h, h'⟩
  | some e =>
    cases e with
    | file d => rw [hT] at h h'; exact Or.inl ⟨h, h'⟩
    | dir =>
      rw [hT] at h h'
      obtain ⟨l, rfl, hl⟩ := h
      obtain ⟨l', rfl, hl'⟩ := h'
      refine Or.inr ⟨l, l', rfl, rfl, hl, hl', ?_⟩
      rintro ⟨n, b⟩
      rw [hl.2 n b, hl'.2 n b]

/-! ### the shared-ancestor creation race -/

/-- where a successful creating operation of an independent family has been, there are directories (and
the file, for `WriteFile`) in the tree of all effects -/
theorem SD_created {T : Tree} (hw : TreeWF T) {D : List Op} (hok : ∀ j ∈ D, j.ok) (hind : D.Pairwise IndepOp)
    {op : Op} (hop : op ∈ D) (hs : succ T op) :
    (∀ p, op = .mkdirAll p → ∀ q, q ≠ [] → q <+: p → SD T D q = some .dir) ∧
    (∀ p v, op = .writeFile p v → SD T D p = some (.file v) ∧
      ∀ q, q ≠ [] → q <+: p → q ≠ p → SD T D q = some .dir) := by
  obtain ⟨D1, D2, rfl⟩ := List.append_of_mem hop
  have hperm : (D1 ++ op :: D2).Perm ((D1 ++ D2) ++ [op]) := by
    have := List.perm_middle (a := op) (l₁ := D1) (l₂ := D2)
    exact this.trans (List.perm_append_comm (l₁ := [op]) (l₂ := D1 ++ D2))
  have hSD : SD T (D1 ++ op :: D2) = runEffs (SD T (D1 ++ D2)) (effOf T op) := by
    rw [SD_perm hperm hok hind, SD_snoc]
  have hpw' : ((D1 ++ D2) ++ [op]).Pairwise IndepOp := (hperm.pairwise_iff (fun h => IndepOp.symm h)).1 hind
  have hindep : ∀ j ∈ D1 ++ D2, IndepOp op j := fun j hj => ((List.pairwise_append.1 hpw').2.2 j hj op (by simp)).symm
  have hok' : ∀ j ∈ D1 ++ D2, j.ok := fun j hj => hok j (by simp at hj ⊢; rcases hj with h | h <;> simp [h])
  have hokop := hok op (by simp)
  constructor
  · rintro p rfl q hq hqp
    rw [hSD, effOf_succ_aop hs rfl, runEffs_aop_mk _ p hokop q]
    rcases SD_prefix (T := T) hok' hindep (x := p) (by simp [Op.paths, Op.C]) hqp with h1 | ⟨h1, h2⟩
    · cases hT : T q with
      | none => rw [hT] at h1; simp [hq, hqp, h1]
      | some e =>
        cases e with
        | dir => rw [hT] at h1; simp [h1]
        | file d => exact absurd hT (hs q hqp d)
    · simp [h2]
  · rintro p v rfl
    constructor
    · rw [hSD, effOf_succ_aop hs rfl, runEffs_aop_graft]
      simp
    · intro q hq hqp hne
      have hnb : ¬ p <+: q := fun h => hne (hqp.eq_of_length (Nat.le_antisymm hqp.length_le h.length_le))
      rw [hSD, effOf_succ_aop hs rfl, runEffs_aop_graft]
      simp only [hnb, if_false]
      have hq' := pfx_dropLast_of_ne hqp hne
      rcases SD_prefix (T := T) hok' hindep (x := p.dropLast) (by simp [Op.paths, Op.C]) hq' with h1 | ⟨h1, h2⟩
      · cases hT : T q with
        | none => rw [hT] at h1; simp [hq, hqp, h1]
        | some e =>
          cases e with
          | dir => rw [hT] at h1; simp [h1]
          | file d => exact absurd hT (hs.2.1 q hq' d)
      · simp [h2]

/-- everything below a missing path is creatable -/
theorem mkdirOk_below_missing {T : Tree} (hw : TreeWF T) {a : Path} (hmiss : T a = none) (hnf : FS.mkdirOk T a)
    (r : Path) : FS.mkdirOk T (a ++ r) := by
  intro q hq d hT
  rcases pfx_comparable hq (List.prefix_append a r) with h | ⟨x, rfl⟩
  · exact hnf q h d hT
  · cases x with
    | nil => simp [hmiss] at hT
    | cons m x' => rw [hw.below (by rw [hmiss]; simp) (by simp)] at hT; cases hT

end Goat.MemFSConc

namespace Goat.MemFSConc
open Goat.FS (Entry)

/-! ### the empty filespace, and the specification run -/

theorem edge_init (a : Oid) (n : Name) : edge [Obj.dir {}] a n = none := by
  rw [edge_eq]
  cases a with
  | zero => rfl
  | succ k => rfl

/-- the heap of a new filespace (one empty root directory) has the shape -/
theorem shape_init : Shape [Obj.dir {}] := by
  refine ⟨(inv_init []).heap, rfl, ?_, ?_⟩
  · intro a n c h; rw [edge_init] at h; cases h
  · intro a n a' n' c h; rw [edge_init] at h; cases h

theorem absT_init : absT [Obj.dir {}] = abs Node.empty := by
  funext q
  cases q with
  | nil => rfl
  | cons n r =>
    unfold absT absAt
    rw [resolve_cons, edge_init]
    rfl

theorem startState_init (progs : List (List Op)) : startState [Obj.dir {}] progs = init progs := rfl

/-- the sequential run is a run of the abstract specification (C01's refinement, call by call) -/
theorem seqRun_run (σ : List Op) (hok : ∀ op ∈ σ, op.ok) : ∀ (t : Node), MemFS.Inv t →
    FS.Run [[]] (abs t) (σ.map fun op => (0, toFS op)) (seqRun t σ).2 (abs (seqRun t σ).1) := by
  induction σ with
  | nil => intro t _; exact ⟨rfl, rfl⟩
  | cons i rest ih =>
    intro t ht
    have href := MemFS.step_refines .root [] rfl t ht (toFS i)
    have ht' : MemFS.Inv (MemFS.step .root t (toFS i)).1 :=
      href.2.1.inv ht (by intro s hs; exact MemFS.opSegs_plain _ s (by simpa using hs))
    have hviews : FS.viewsAfter [[]] 0 (toFS i) = [[]] := by
      have := hok i (by simp)
      cases i <;> first | rfl | (simp [Op.ok] at this)
      case probe p w => cases w with
        | none => rfl
        | some b => cases b <;> rfl
    simp only [List.map_cons, seqRun, FS.Run, List.getElem?_cons_zero]
    refine ⟨_, _, _, rfl, href.1, ?_⟩
    rw [hviews]
    exact ih (fun op hop => hok op (by simp [hop])) _ ht'

end Goat.MemFSConc

namespace Goat.MemFSConc
open Goat.FS (Entry)

/-- a creating operation below the common ancestor `a` -/
def Op.below (a : Path) (op : Op) : Prop :=
  (∃ r, r ≠ [] ∧ op = .mkdirAll (a ++ r)) ∨ (∃ r v, r ≠ [] ∧ op = .writeFile (a ++ r) v)

theorem Op.below_ok {a : Path} {op : Op} (h : op.below a) : op.ok := by
  rcases h with ⟨r, hr, rfl⟩ | ⟨r, v, hr, rfl⟩
  · simp [Op.ok, hr]
  · simp [Op.ok, hr]

theorem Op.below_succ {T : Tree} (hw : TreeWF T) {a : Path} (hmiss : T a = none) (hnf : FS.mkdirOk T a)
    {op : Op} (h : op.below a) : succ T op := by
  rcases h with ⟨r, hr, rfl⟩ | ⟨r, v, hr, rfl⟩
  · exact mkdirOk_below_missing hw hmiss hnf r
  · refine ⟨by simp [hr], ?_, ?_⟩
    · obtain ⟨r', n, rfl⟩ : ∃ r' n, r = r' ++ [n] := by
        rcases List.eq_nil_or_concat r with e | ⟨r', n, e⟩
        · exact absurd e hr
        · exact ⟨r', n, by rw [e, List.concat_eq_append]⟩
      rw [← List.append_assoc, List.dropLast_concat]
      exact mkdirOk_below_missing hw hmiss hnf r'
    · rw [hw.below (p := a) (by rw [hmiss]; simp) hr]; simp

/-- THE SHARED-ANCESTOR CREATION RACE: any number of threads, each running `MkdirAll` / `WriteFile`
operations below a common ancestor `a` that does not exist (and that no file is in the way of), the
operations pairwise independent (leaves unrelated; `MkdirAll`s may even coincide): after every schedule
that lets all threads finish, nobody has failed, the ancestor chain exists, every leaf exists. -/
theorem created_core {h0 : Heap} (hsh : Shape h0) {a : Path} {progs : List (List Op)}
    (hops : ∀ P ∈ progs, ∀ op ∈ P, op.below a) (hsome : ∃ P ∈ progs, P ≠ [])
    (hmiss : absT h0 a = none) (hnf : FS.mkdirOk (absT h0) a)
    (hind : progs.flatten.Pairwise IndepOp) (sched : List Tid)
    (hfin : ∀ t, unfinished ((sys .fixed progs).runFrom (startState h0 progs) sched) t = false) :
    (∀ τ P, progs[τ]? = some P →
      resultsOf ((sys .fixed progs).runFrom (startState h0 progs) sched) τ = P.map fun _ => Res.ok) ∧
    (∀ q, q <+: a → absT ((sys .fixed progs).runFrom (startState h0 progs) sched).heap q = some .dir) ∧
    (∀ P ∈ progs, ∀ op ∈ P,
      (∀ p, op = .mkdirAll p → ∀ q, q <+: p →
        absT ((sys .fixed progs).runFrom (startState h0 progs) sched).heap q = some .dir) ∧
      (∀ p v, op = .writeFile p v →
        absT ((sys .fixed progs).runFrom (startState h0 progs) sched).heap p = some (.file v))) ∧
    Shape ((sys .fixed progs).runFrom (startState h0 progs) sched).heap := by
  have hwf := treeWF_absT hsh
  have hyp : Hyp (absT h0) progs :=
    { wf := hwf, ok := fun P hP op hop => Op.below_ok (hops P hP op hop), indep := hind }
  have hsim := sim_runFrom hyp sched (sim_start_state hsh progs)
  obtain ⟨hA, hR⟩ := sim_final hyp hsim hfin
  have hsucc : ∀ P ∈ progs, ∀ op ∈ P, succ (absT h0) op :=
    fun P hP op hop => Op.below_succ hwf hmiss hnf (hops P hP op hop)
  have hokflat : ∀ j ∈ progs.flatten, j.ok := by
    intro j hj
    rw [List.mem_flatten] at hj
    obtain ⟨P, hP, hjP⟩ := hj
    exact hyp.ok P hP j hjP
  have hroot : absT ((sys .fixed progs).runFrom (startState h0 progs) sched).heap [] = some .dir :=
    absT_root hsim.shape
  -- the tree at the places a given operation has been
  have hcreated : ∀ P ∈ progs, ∀ op ∈ P,
      (∀ p, op = .mkdirAll p → ∀ q, q <+: p →
        absT ((sys .fixed progs).runFrom (startState h0 progs) sched).heap q = some .dir) ∧
      (∀ p v, op = .writeFile p v →
        absT ((sys .fixed progs).runFrom (startState h0 progs) sched).heap p = some (.file v) ∧
        ∀ q, q <+: p → q ≠ p →
          absT ((sys .fixed progs).runFrom (startState h0 progs) sched).heap q = some .dir) := by
    intro P hP op hop
    have hmem : op ∈ progs.flatten := List.mem_flatten.2 ⟨P, hP, hop⟩
    obtain ⟨h1, h2⟩ := SD_created hwf hokflat hind hmem (hsucc P hP op hop)
    constructor
    · intro p hp q hq
      by_cases hq0 : q = []
      · rw [hq0]; exact hroot
      · rw [hA]; exact h1 p hp q hq0 hq
    · intro p v hp
      obtain ⟨h3, h4⟩ := h2 p v hp
      refine ⟨by rw [hA]; exact h3, ?_⟩
      intro q hq hne
      by_cases hq0 : q = []
      · rw [hq0]; exact hroot
      · rw [hA]; exact h4 q hq0 hq hne
  refine ⟨?_, ?_, ?_, hsim.shape⟩
  · intro τ P hP
    have hPm : P ∈ progs := List.mem_of_getElem? hP
    obtain ⟨hl, hr⟩ := hR τ P hP
    apply List.ext_getElem?
    intro k
    by_cases hk : k < P.length
    · have hk' : k < (resultsOf ((sys .fixed progs).runFrom (startState h0 progs) sched) τ).length := by rw [hl]; exact hk
      rw [List.getElem?_eq_getElem hk', List.getElem?_map, List.getElem?_eq_getElem hk]
      have hop : P[k] ∈ P := List.getElem_mem hk
      have := hr k P[k] _ (List.getElem?_eq_getElem hk) (List.getElem?_eq_getElem hk')
      have hs := hsucc P hPm _ hop
      rcases hops P hPm _ hop with ⟨r, _, he⟩ | ⟨r, v, _, he⟩
      · rw [he] at this hs
        rcases this with ⟨_, h⟩ | ⟨h, _⟩
        · simp [h]
        · exact absurd hs h
      · rw [he] at this hs
        rcases this with ⟨_, h⟩ | ⟨h, _⟩
        · simp [h]
        · exact absurd hs h
    · have hk' : (resultsOf ((sys .fixed progs).runFrom (startState h0 progs) sched) τ).length ≤ k := by
        rw [hl]; exact Nat.le_of_not_lt hk
      rw [List.getElem?_eq_none hk', List.getElem?_eq_none (by simpa using Nat.le_of_not_lt hk)]
  · intro q hq
    obtain ⟨P, hP, hne⟩ := hsome
    obtain ⟨op, hop⟩ := List.exists_mem_of_ne_nil P hne
    rcases hops P hP op hop with ⟨r, hr, he⟩ | ⟨r, v, hr, he⟩
    · exact (hcreated P hP op hop).1 _ he q (hq.trans (List.prefix_append _ _))
    · refine ((hcreated P hP op hop).2 _ v he).2 q (hq.trans (List.prefix_append _ _)) ?_
      intro e
      have := hq.length_le
      rw [e] at this
      have h0 : 0 < r.length := List.length_pos_iff.2 hr
      simp at this; omega
  · intro P hP op hop
    exact ⟨(hcreated P hP op hop).1, fun p v he => ((hcreated P hP op hop).2 p v he).1⟩

end Goat.MemFSConc

namespace Goat.MemFSConc
open Goat.FS (Entry)

/-! ### progress: a batch of independent operations never gets stuck -/

/-- no lock of the heap is held -/
def NoLocks (h : Heap) : Prop :=
  (∀ d dd, getDir h d = some dd → dd.outer = none ∧ dd.muR = []) ∧ (∀ f ff, getFile h f = some ff → ff.lock = none)

theorem noLocks_init : NoLocks [Obj.dir {}] := by
  constructor
  · intro d dd hg
    cases d with
    | zero => simp [getDir] at hg; rw [← hg]; exact ⟨rfl, rfl⟩
    | succ k => simp [getDir] at hg
  · intro f ff hg
    cases f with
    | zero => simp [getFile] at hg
    | succ k => simp [getFile] at hg

theorem linv_startState (v : Variant) {h0 : Heap} (hq : NoLocks h0) (progs : List (List Op)) :
    LInv v (startState h0 progs) := by
  refine ⟨?_, ?_, ?_⟩
  · intro d dd t hg ho
    rw [(hq.1 d dd hg).1] at ho; cases ho
  · intro th hth
    simp only [startState, List.mem_map] at hth
    obtain ⟨p, _, rfl⟩ := hth
    trivial
  · intro _ d dd hg
    exact (hq.1 d dd hg).2

theorem actOf_ne_openH {pc : Pc} (h1 : ∀ h f, pc ≠ .oOpen h f) (h2 : ∀ d h f, pc ≠ .oOpenLocked d h f)
    (h3 : ∀ h f, pc ≠ .rOpen h f) (f : Oid) (tr : Bool) : actOf .fixed pc ≠ .openH f tr := by
  cases pc with
  | walk cur rest k => cases rest <;> simp [actOf]
  | mk cur rest k => cases rest <;> simp [actOf]
  | cDir d n stack =>
    cases stack with
    | nil => simp [actOf]
    | cons fr rest =>
      simp only [actOf]
      split <;> simp
  | oOpen h f' => exact absurd rfl (h1 h f')
  | oOpenLocked d h f' => exact absurd rfl (h2 d h f')
  | rOpen h f' => exact absurd rfl (h3 h f')
  | _ => simp [actOf]

/-- the operations of a batch never open a stream handle: every file stays unlocked -/
theorem unlocked_step {T0 : Tree} {progs : List (List Op)} {s s' : State} {t : Tid} (hs : Sim T0 progs s)
    (hu : ∀ f ff, getFile s.heap f = some ff → ff.lock = none) (hst : step .fixed s t = some s') :
    ∀ f ff, getFile s'.heap f = some ff → ff.lock = none := by
  obtain ⟨th, hth, hk⟩ := step_cases hst
  cases hk with
  | start op rest hpc hprog => exact hu
  | fin r hpc => exact hu
  | act h' r hni hnf hap =>
    have hlt : t < progs.length := by rw [← hs.len]; exact (List.getElem?_eq_some_iff.1 hth).1
    obtain ⟨i, _, hinv, _⟩ := (hs.thr t _ th (List.getElem?_eq_getElem hlt) hth).busy hni
    have hnot : ∀ f tr, actOf .fixed th.pc ≠ .openH f tr := by
      intro f tr
      apply actOf_ne_openH
      · intro h f' e; rw [e] at hinv; simp [PcInv] at hinv
      · intro d h f' e; rw [e] at hinv; simp [PcInv] at hinv
      · intro h f' e; rw [e] at hinv; simp [PcInv] at hinv
    intro f ff hg
    simp only at hg
    rcases applyAct_file hap hg with h1 | ⟨f0, hf0, hc⟩ | ⟨_, h1, _⟩
    · exact hu f ff h1
    · have hl := hu f f0 hf0
      cases ha : actOf .fixed th.pc <;> rw [ha] at hc <;> simp only [FileChange] at hc
      · rw [hc.2.2]; exact hl
      · exact absurd ha (hnot _ _)
      · rw [hc.2.2]; exact hl
      · rw [hc.2.2]
    · exact h1

/-- NOTHING GETS STUCK: in every state of every schedule of a batch of independent operations started on a
heap without held locks, if some thread has not finished then some thread can take a step. -/
theorem progress_core {h0 : Heap} (hsh : Shape h0) (hq : NoLocks h0) {progs : List (List Op)}
    (hok : ∀ P ∈ progs, ∀ op ∈ P, op.ok) (hind : progs.flatten.Pairwise IndepOp) (sched : List Tid)
    (hun : ∃ t, unfinished ((sys .fixed progs).runFrom (startState h0 progs) sched) t = true) :
    ∃ t, (step .fixed ((sys .fixed progs).runFrom (startState h0 progs) sched) t).isSome = true := by
  have hyp : Hyp (absT h0) progs := { wf := treeWF_absT hsh, ok := hok, indep := hind }
  have key : ∀ (sched : List Tid) (s : State), Sim (absT h0) progs s → LInv .fixed s →
      (∀ f ff, getFile s.heap f = some ff → ff.lock = none) →
      Sim (absT h0) progs ((sys .fixed progs).runFrom s sched) ∧ LInv .fixed ((sys .fixed progs).runFrom s sched) ∧
      (∀ f ff, getFile ((sys .fixed progs).runFrom s sched).heap f = some ff → ff.lock = none) := by
    intro sched
    induction sched with
    | nil => intro s h1 h2 h3; exact ⟨h1, h2, h3⟩
    | cons t rest ih =>
      intro s h1 h2 h3
      rw [LTS.runFrom_cons]
      apply ih
      · unfold LTS.Sys.next
        cases hst : (sys .fixed progs).step s t with
        | none => exact h1
        | some s' => exact sim_step hyp h1 hst
      · unfold LTS.Sys.next
        cases hst : (sys .fixed progs).step s t with
        | none => exact h2
        | some s' => exact linv_step h2 hst
      · unfold LTS.Sys.next
        cases hst : (sys .fixed progs).step s t with
        | none => exact h3
        | some s' => exact unlocked_step h1 h3 hst
  obtain ⟨_, hl, hu⟩ := key sched _ (sim_start_state hsh progs) (linv_startState .fixed hq progs)
    (by intro f ff hg; exact hq.2 f ff hg)
  obtain ⟨t0, ht0⟩ := hun
  refine no_deadlock_core hl rfl rfl rfl ?_ ?_ ht0
  · intro t th f _ _ g gg hg hlock
    rw [hu g gg hg] at hlock; cases hlock
  · intro g gg t hg hlock
    rw [hu g gg hg] at hlock; cases hlock

end Goat.MemFSConc
