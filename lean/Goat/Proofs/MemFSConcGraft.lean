/-
Helper lemmas for property C09, part 18: the heap changes of `Copy`: allocation of an unlinked file
(`copyFile`), allocation of an unlinked directory over private trees (`NewDir` at the end of `copyDir`),
and the linking of a private tree below a directory (`addNode`).
-/
import Goat.Proofs.MemFSConcSimCore

set_option linter.unusedSimpArgs false
set_option linter.unusedVariables false

namespace Goat.MemFSConc
open Goat.FS (Entry)

/-! ### the critical sections -/

theorem act_copyFile {h h' : Heap} {t : Tid} {f : Oid} {r : Ret} {ff : FileObj}
    (hf : getFile h f = some ff) (hs : applyAct h t (.copyFile f) = some (h', r)) :
    h' = h ++ [.file { data := ff.data, committed := [ff.data] }] ∧ r = .oid h.length := by
  obtain ⟨e, he, hh, hr⟩ := applyAct_some hs
  simp only [actEff, hf] at he
  split at he
  · simp at he; subst he
    exact ⟨by rw [← hh]; rfl, hr.symm⟩
  · cases he

theorem act_newDir {h h' : Heap} {t : Tid} {nodes : List (Name × Oid)} {r : Ret}
    (hs : applyAct h t (.newDir nodes none) = some (h', r)) :
    h' = h ++ [.dir (newDirObj nodes)] ∧ r = .oid h.length := by
  obtain ⟨e, he, hh, hr⟩ := applyAct_some hs
  simp only [actEff, Option.some.injEq] at he
  subst he
  exact ⟨by rw [← hh]; rfl, hr.symm⟩

theorem act_addNode {h h' : Heap} {t : Tid} {d : Oid} {n : Name} {c : Oid} {r : Ret} {dd : DirObj}
    (hd : getDir h d = some dd) (hs : applyAct h t (.addNode d n c) = some (h', r)) :
    (dd.index n ≠ none ∧ h' = h ∧ r = .err) ∨
    (dd.index n = none ∧ ∃ dd', dd.add n c = some dd' ∧ h' = h.set d (.dir dd') ∧ r = .unit) := by
  obtain ⟨e, he, hh, hr⟩ := applyAct_some hs
  simp only [actEff, hd] at he
  split at he
  · cases ha : dd.add n c with
    | none =>
      simp [ha] at he; subst he
      rw [add_none_iff] at ha
      left
      refine ⟨?_, hh.symm, hr.symm⟩
      intro hn; simp [hn] at ha
    | some dd' =>
      simp [ha] at he; subst he
      right
      exact ⟨(add_index ha).1, dd', rfl, by rw [← hh]; rfl, hr.symm⟩
  · cases he

/-! ### allocation of an unlinked file -/

theorem alloc_file {h : Heap} (f : FileObj) :
    EdgeEq h (h ++ [.file f]) ∧ EntKept h (h ++ [.file f]) none ∧
      entryOf (h ++ [.file f]) h.length = some (.file f.data) ∧ okind (h ++ [.file f]) h.length = some false := by
  refine ⟨?_, ?_, ?_, ?_⟩
  · intro a m
    rw [edge_eq, edge_eq, getElem?_append']
    by_cases ha : a = h.length
    · subst ha
      simp only [if_true, edgeObj]
      rw [List.getElem?_eq_none (Nat.le_refl _)]
    · simp [ha]
  · intro a ha
    rw [okind_eq, okind_eq, entryOf_eq, entryOf_eq, getElem?_append']
    have : ¬ a = h.length := Nat.ne_of_lt ha
    simp [this]
  · rw [entryOf_eq, getElem?_append']; simp [entryObj]
  · rw [okind_eq, getElem?_append']; simp [kindObj]

/-! ### allocation of an unlinked directory over private trees -/

theorem eq_of_nodup_map {α β : Type} {f : α → β} {l : List α} (h : (l.map f).Nodup) {x y : α}
    (hx : x ∈ l) (hy : y ∈ l) (he : f x = f y) : x = y := by
  induction l with
  | nil => cases hx
  | cons a rest ih =>
    simp only [List.map_cons, List.nodup_cons] at h
    rcases List.mem_cons.1 hx with rfl | hx' <;> rcases List.mem_cons.1 hy with rfl | hy'
    · rfl
    · exact absurd (List.mem_map.2 ⟨y, hy', he.symm⟩) h.1
    · exact absurd (List.mem_map.2 ⟨x, hx', he⟩) h.1
    · exact ih h.2 hx' hy'

theorem edge_alloc_dir (h : Heap) (nodes : List (Name × Oid)) (a : Oid) (m : Name) :
    edge (h ++ [.dir (newDirObj nodes)]) a m = if a = h.length then indexOf nodes m else edge h a m := by
  rw [edge_eq, getElem?_append']
  by_cases ha : a = h.length
  · simp [ha, edgeObj, newDirObj]
  · simp only [ha, if_false]; rw [edge_eq]

/-- walks that start at an allocated object never see the new directory -/
theorem resolve_alloc_dir {h : Heap} (hs : Shape h) (nodes : List (Name × Oid)) :
    ∀ (q : Path) (a : Oid), a < h.length → resolve (h ++ [.dir (newDirObj nodes)]) a q = resolve h a q := by
  intro q
  induction q with
  | nil => intro a _; simp [resolve_nil]
  | cons m r ih =>
    intro a ha
    rw [resolve_cons, resolve_cons, edge_alloc_dir]
    have : ¬ a = h.length := Nat.ne_of_lt ha
    simp only [this, if_false]
    cases he : edge h a m with
    | none => rfl
    | some b => simp only [Option.bind_some]; exact ih b (hs.closed _ _ _ he).1

theorem entKept_append (h : Heap) (x : Obj) : EntKept h (h ++ [x]) none := by
  intro a ha
  rw [okind_eq, okind_eq, entryOf_eq, entryOf_eq, getElem?_append']
  have : ¬ a = h.length := Nat.ne_of_lt ha
  simp [this]

theorem absAt_alloc_dir {h : Heap} (hs : Shape h) (nodes : List (Name × Oid)) (a : Oid) (ha : a < h.length) :
    absAt (h ++ [.dir (newDirObj nodes)]) a = absAt h a := by
  funext q
  unfold absAt
  rw [resolve_alloc_dir hs nodes q a ha]
  cases hr : resolve h a q with
  | none => rfl
  | some x =>
    simp only [Option.bind_some]
    exact ((entKept_append h _) x (resolve_lt hs ha hr)).2 (by simp)

theorem indexOf_spec {nodes : List (Name × Oid)} (hnd : (nodes.map Prod.fst).Nodup) (n : Name) (o : Oid) :
    indexOf nodes n = some o ↔ (n, o) ∈ nodes := by
  unfold indexOf
  rw [indexOf_foldl nodes _ n o hnd]
  simp

/-- the heap with the new directory `N = h.length` over the private trees `nodes` -/
theorem alloc_dir {h : Heap} (hs : Shape h) {nodes : List (Name × Oid)}
    (hnames : (nodes.map Prod.fst).Nodup) (hids : (nodes.map Prod.snd).Nodup)
    (hpriv : ∀ p ∈ nodes, p.2 ≠ 0 ∧ p.2 < h.length ∧ ∀ a m, edge h a m ≠ some p.2) :
    Shape (h ++ [.dir (newDirObj nodes)]) ∧ StepFrame h (h ++ [.dir (newDirObj nodes)]) (nodes.map Prod.snd) ∧
    absT (h ++ [.dir (newDirObj nodes)]) = absT h ∧
    (∀ π o, resolve h 0 π = some o → resolve (h ++ [.dir (newDirObj nodes)]) 0 π = some o) ∧
    (∀ a m, edge (h ++ [.dir (newDirObj nodes)]) a m ≠ some h.length) := by
  have hlen : (h ++ [Obj.dir (newDirObj nodes)]).length = h.length + 1 := by simp
  have hkept := entKept_append h (.dir (newDirObj nodes))
  have hinv : HeapInv (h ++ [.dir (newDirObj nodes)]) :=
    heapInv_append hs.inv (by intro d hd; cases hd; exact newDirObj_inv hnames)
  have hroot : okind (h ++ [.dir (newDirObj nodes)]) 0 = some true := by
    rw [(hkept 0 hs.length_pos).1]; exact hs.root
  have hnoN : ∀ a m, edge (h ++ [.dir (newDirObj nodes)]) a m ≠ some h.length := by
    intro a m
    rw [edge_alloc_dir]
    split
    · intro e
      have := (indexOf_spec hnames m h.length).1 e
      exact absurd (hpriv _ this).2.1 (Nat.lt_irrefl _)
    · intro e
      exact absurd (hs.closed _ _ _ e).1 (Nat.lt_irrefl _)
  refine ⟨⟨hinv, hroot, ?_, ?_⟩, ⟨by simp, fun o ho => (hkept o ho).1, ?_, ?_⟩, ?_, ?_, hnoN⟩
  · intro a m c hc
    rw [edge_alloc_dir] at hc
    split at hc
    · have := (indexOf_spec hnames m c).1 hc
      exact ⟨by rw [hlen]; exact Nat.lt_succ_of_lt (hpriv _ this).2.1, (hpriv _ this).1⟩
    · exact ⟨by rw [hlen]; exact Nat.lt_succ_of_lt (hs.closed _ _ _ hc).1, (hs.closed _ _ _ hc).2⟩
  · intro a m a' m' c h1 h2
    rw [edge_alloc_dir] at h1 h2
    by_cases x1 : a = h.length <;> by_cases x2 : a' = h.length
    · simp only [x1, x2, if_true] at h1 h2
      have e1 := (indexOf_spec hnames m c).1 h1
      have e2 := (indexOf_spec hnames m' c).1 h2
      refine ⟨x1.trans x2.symm, ?_⟩
      -- two nodes with the same id are the same node
      have := eq_of_nodup_map hids e1 e2 rfl
      exact (Prod.mk.inj this).1
    · simp only [x1, if_true, x2, if_false] at h1 h2
      exact absurd h2 ((hpriv _ ((indexOf_spec hnames m c).1 h1)).2.2 a' m')
    · simp only [x1, if_false, x2, if_true] at h1 h2
      exact absurd h1 ((hpriv _ ((indexOf_spec hnames m' c).1 h2)).2.2 a m)
    · simp only [x1, x2, if_false] at h1 h2
      exact hs.up _ _ _ _ _ h1 h2
  · intro a ha _
    refine ⟨fun m => ?_, (hkept a ha).2 (by simp)⟩
    rw [edge_alloc_dir]
    simp [Nat.ne_of_lt ha]
  · intro c hc hpar hcL a m
    rw [edge_alloc_dir]
    split
    · intro e
      apply hcL
      exact List.mem_map.2 ⟨(m, c), (indexOf_spec hnames m c).1 e, rfl⟩
    · exact hpar a m
  · funext q
    exact congrFun (absAt_alloc_dir hs nodes 0 hs.length_pos) q
  · intro π o hr
    rw [resolve_alloc_dir hs nodes π 0 hs.length_pos]; exact hr

/-- the tree below the new directory -/
theorem absAt_new_dir {h : Heap} (hs : Shape h) {nodes : List (Name × Oid)}
    (hnames : (nodes.map Prod.fst).Nodup) (hlt : ∀ p ∈ nodes, p.2 < h.length) (q : Path) :
    absAt (h ++ [.dir (newDirObj nodes)]) h.length q =
      match q with
      | [] => some .dir
      | m :: r => match nodes.find? (fun p => p.1 == m) with
        | some p => absAt h p.2 r
        | none => none := by
  cases q with
  | nil =>
    simp only [absAt, resolve_nil, Option.bind_some]
    rw [entryOf_eq, getElem?_append']; simp [entryObj]
  | cons m r =>
    simp only [absAt, resolve_cons, edge_alloc_dir, if_true]
    cases hf : nodes.find? (fun p => p.1 == m) with
    | none =>
      have : indexOf nodes m = none := by
        cases hx : indexOf nodes m with
        | none => rfl
        | some o =>
          have := (indexOf_spec hnames m o).1 hx
          have := List.find?_eq_none.1 hf _ this
          simp at this
      simp [this]
    | some p =>
      have hmem := List.mem_of_find?_eq_some hf
      have hpm : p.1 = m := by simpa using List.find?_some hf
      have : indexOf nodes m = some p.2 := (indexOf_spec hnames m p.2).2 (by rw [← hpm]; exact hmem)
      simp only [this, Option.bind_some]
      exact congrFun (absAt_alloc_dir hs nodes p.2 (hlt p hmem)) r

/-! ### linking a private tree -/

/-- `h'` is `h` with one more edge `od —n→ c` to the root `c` of a private tree -/
structure AddTree (h h' : Heap) (od : Oid) (n : Name) (c : Oid) : Prop where
  edges : ∀ a m, edge h' a m = if a = od ∧ m = n then some c else edge h a m
  absent : edge h od n = none
  noparent : ∀ a m, edge h a m ≠ some c
  ne0 : c ≠ 0
  lt : c < h.length

theorem addTree_of {h : Heap} {o : Oid} {d d' : DirObj} {n : Name} {c : Oid}
    (hd : getDir h o = some d) (ha : d.add n c = some d') (hpar : ∀ a m, edge h a m ≠ some c) (h0 : c ≠ 0)
    (hlt : c < h.length) :
    AddTree h (h.set o (.dir d')) o n c ∧ EntKept h (h.set o (.dir d')) none := by
  have hl := getDir_lt_len hd
  have hgx := getDir_eq_some.1 hd
  obtain ⟨hnone, hidx, _, _, _⟩ := add_index ha
  refine ⟨⟨?_, by unfold edge; rw [hd]; exact hnone, hpar, h0, hlt⟩, ?_⟩
  · intro a m
    rw [edge_eq, getElem?_set']
    by_cases hao : a = o
    · subst hao
      simp only [hl, and_self, if_true, edgeObj, hidx, setIdx, true_and]
      by_cases hm : m = n
      · simp [hm]
      · simp only [hm, if_false]
        rw [edge_eq, hgx]; rfl
    · simp only [hao, false_and, if_false]
      rw [edge_eq]
  · intro a _
    rw [okind_eq, okind_eq, entryOf_eq, entryOf_eq, getElem?_set']
    by_cases hao : a = o
    · subst hao
      simp only [hl, and_self, if_true, hgx]
      exact ⟨rfl, fun _ => rfl⟩
    · simp [hao]

theorem AddTree.mono {h h' : Heap} {od : Oid} {n : Name} {c : Oid} (ha : AddTree h h' od n c)
    {a : Oid} {q : Path} {x : Oid} (hr : resolve h a q = some x) : resolve h' a q = some x := by
  induction q generalizing a with
  | nil => rw [resolve_nil] at hr ⊢; exact hr
  | cons m rest ih =>
    obtain ⟨_, b, he, hb⟩ := resolve_cons_some hr
    rw [resolve_cons, ha.edges]
    have : ¬ (a = od ∧ m = n) := by
      rintro ⟨rfl, rfl⟩
      rw [ha.absent] at he; cases he
    simp only [this, if_false, he, Option.bind_some]
    exact ih hb

/-- inside the private tree nothing changes: the directory that got the new entry is not in it -/
theorem AddTree.inside {h h' : Heap} {od : Oid} {n : Name} {c : Oid} (hs : Shape h) (ha : AddTree h h' od n c)
    {p : Path} (hp : resolve h 0 p = some od) :
    ∀ (q : Path) (a : Oid), (∀ π, resolve h 0 π ≠ some a) → resolve h' a q = resolve h a q := by
  intro q
  induction q with
  | nil => intro a _; simp [resolve_nil]
  | cons m r ih =>
    intro a hu
    rw [resolve_cons, resolve_cons, ha.edges]
    have : ¬ (a = od ∧ m = n) := fun hh => hu p (hh.1 ▸ hp)
    simp only [this, if_false]
    cases he : edge h a m with
    | none => rfl
    | some b => simp only [Option.bind_some]; exact ih b (unr_child hs hu he)

theorem AddTree.inv {h h' : Heap} {od : Oid} {n : Name} {c : Oid} (ha : AddTree h h' od n c)
    {a : Oid} {q : Path} {x : Oid} (hr : resolve h' a q = some x) :
    resolve h a q = some x ∨ ∃ p r, q = p ++ n :: r ∧ resolve h a p = some od := by
  induction q generalizing a with
  | nil => left; rw [resolve_nil] at hr ⊢; exact hr
  | cons m rest ih =>
    obtain ⟨_, b, he, hb⟩ := resolve_cons_some hr
    rw [ha.edges] at he
    by_cases hx : a = od ∧ m = n
    · obtain ⟨rfl, rfl⟩ := hx
      exact Or.inr ⟨[], rest, rfl, resolve_nil _ _⟩
    · simp only [hx, if_false] at he
      rcases ih hb with h1 | ⟨p, r, h2, h3⟩
      · left; rw [resolve_cons, he]; exact h1
      · right
        refine ⟨m :: p, r, by rw [h2]; rfl, ?_⟩
        rw [resolve_cons, he]; exact h3

/-- the abstract tree after the private tree `c` was linked as `n` below the directory at `p` -/
theorem absT_addTree {h h' : Heap} {od : Oid} {n : Name} {c : Oid} (hs : Shape h) (ha : AddTree h h' od n c)
    (hk : EntKept h h' none) {p : Path} (hp : resolve h 0 p = some od) :
    absT h' = (Eff1.graft (p ++ [n]) (absAt h c)).apply (absT h) := by
  have hcu : ∀ π, resolve h 0 π ≠ some c := unr_of_parentless ha.ne0 ha.noparent
  funext q
  simp only [Eff1.apply]
  by_cases hpq : (p ++ [n]).isPrefixOf q = true
  · simp only [hpq, if_true]
    obtain ⟨r, rfl⟩ := List.isPrefixOf_iff_prefix.1 hpq
    simp only [List.drop_left']
    have h1 : resolve h' 0 (p ++ [n] ++ r) = resolve h c r := by
      rw [resolve_append, resolve_snoc, ha.mono hp]
      simp only [Option.bind_some, ha.edges, and_self, if_true]
      exact ha.inside hs hp r c hcu
    unfold absT absAt
    rw [h1]
    cases hr : resolve h c r with
    | none => rfl
    | some x =>
      simp only [Option.bind_some]
      exact (hk x (resolve_lt hs ha.lt hr)).2 (by simp)
  · simp only [hpq, Bool.false_eq_true, if_false]
    have hres : resolve h' 0 q = resolve h 0 q := by
      cases hr : resolve h 0 q with
      | some x => exact ha.mono hr
      | none =>
        cases hr' : resolve h' 0 q with
        | none => rfl
        | some x =>
          exfalso
          rcases ha.inv hr' with h1 | ⟨p', r, h2, h3⟩
          · rw [hr] at h1; cases h1
          · have := resolve_inj hs _ _ _ h3 hp
            subst this
            apply hpq
            rw [h2, List.isPrefixOf_iff_prefix]
            exact ⟨r, by simp⟩
    unfold absT absAt
    rw [hres]
    cases hr : resolve h 0 q with
    | none => rfl
    | some x =>
      simp only [Option.bind_some]
      exact (hk x (resolve_lt hs hs.length_pos hr)).2 (by simp)

theorem shape_addTree {h h' : Heap} {od : Oid} {n : Name} {c : Oid} (hs : Shape h) (hi : HeapInv h')
    (ha : AddTree h h' od n c) (hk : EntKept h h' none) (hl : h.length ≤ h'.length) : Shape h' := by
  refine ⟨hi, ?_, ?_, ?_⟩
  · rw [(hk 0 hs.length_pos).1]; exact hs.root
  · intro a m x hx
    rw [ha.edges] at hx
    split at hx
    · cases hx; exact ⟨Nat.lt_of_lt_of_le ha.lt hl, ha.ne0⟩
    · exact ⟨Nat.lt_of_lt_of_le (hs.closed _ _ _ hx).1 hl, (hs.closed _ _ _ hx).2⟩
  · intro a m a' m' x h1 h2
    rw [ha.edges] at h1 h2
    by_cases x1 : a = od ∧ m = n <;> by_cases x2 : a' = od ∧ m' = n
    · exact ⟨x1.1.trans x2.1.symm, x1.2.trans x2.2.symm⟩
    · simp only [x1, and_self, if_true, Option.some.injEq, x2, if_false] at h1 h2
      subst h1
      exact absurd h2 (ha.noparent _ _)
    · simp only [x1, if_false, x2, and_self, if_true, Option.some.injEq] at h1 h2
      subst h2
      exact absurd h1 (ha.noparent _ _)
    · simp only [x1, x2, if_false] at h1 h2
      exact hs.up _ _ _ _ _ h1 h2

theorem StepFrame.of_addTree {h h' : Heap} {od : Oid} {n : Name} {c : Oid} (ha : AddTree h h' od n c)
    (hk : EntKept h h' none) (hl : h.length ≤ h'.length) {p : Path} (hp : resolve h 0 p = some od) :
    StepFrame h h' [c] := by
  refine ⟨hl, fun o ho => (hk o ho).1, ?_, ?_⟩
  · intro a hal hu
    refine ⟨fun m => ?_, (hk a hal).2 (by simp)⟩
    rw [ha.edges]
    have : ¬ (a = od ∧ m = n) := fun hh => hu p (hh.1 ▸ hp)
    simp [this]
  · intro c' _ hpar hcL a m
    rw [ha.edges]
    split
    · intro e; cases e; exact hcL (by simp)
    · exact hpar a m

end Goat.MemFSConc
