/-
Helper lemmas for property C09, part 2: the heap.  Every critical section (`applyAct`) preserves
the directory invariant of every directory object and the file invariant of every file object.
-/
import Goat.Proofs.MemFSConcDir

set_option linter.unusedSimpArgs false

namespace Goat.MemFSConc

def HeapInv (h : Heap) : Prop := ∀ o d, getDir h o = some d → DirInv d

/-- a file that is not held by a stream handle holds a complete value -/
def FileInv (f : FileObj) : Prop := f.lock = none → f.data ∈ f.committed

def FilesInv (h : Heap) : Prop := ∀ o f, getFile h o = some f → FileInv f

/-- side condition of `NewDir(nodes)`: the node list has unique names -/
def ActOK : Act → Prop
  | .newDir nodes _ => (nodes.map Prod.fst).Nodup
  | _ => True

/-- listings returned by a critical section have unique names -/
def RetOK : Ret → Prop
  | .nodes l => (l.map (·.1)).Nodup
  | _ => True

/-! ### get/set plumbing -/

theorem getDir_set {h : Heap} {o o' : Oid} {x : Obj} {d : DirObj} (hg : getDir (h.set o x) o' = some d) :
    (o' = o ∧ x = .dir d) ∨ (o' ≠ o ∧ getDir h o' = some d) := by
  unfold getDir at hg ⊢
  rw [List.getElem?_set] at hg
  by_cases ho : o = o'
  · subst ho
    simp only [if_true] at hg
    split at hg <;> simp_all
  · simp only [ho, if_false] at hg
    right; exact ⟨fun e => ho e.symm, hg⟩

theorem getFile_set {h : Heap} {o o' : Oid} {x : Obj} {f : FileObj} (hg : getFile (h.set o x) o' = some f) :
    (o' = o ∧ x = .file f) ∨ (o' ≠ o ∧ getFile h o' = some f) := by
  unfold getFile at hg ⊢
  rw [List.getElem?_set] at hg
  by_cases ho : o = o'
  · subst ho
    simp only [if_true] at hg
    split at hg <;> simp_all
  · simp only [ho, if_false] at hg
    right; exact ⟨fun e => ho e.symm, hg⟩

theorem getDir_append {h : Heap} {o' : Oid} {x : Obj} {d : DirObj} (hg : getDir (h ++ [x]) o' = some d) :
    (o' = h.length ∧ x = .dir d) ∨ (o' < h.length ∧ getDir h o' = some d) := by
  unfold getDir at hg ⊢
  by_cases hlt : o' < h.length
  · rw [List.getElem?_append_left hlt] at hg
    right; exact ⟨hlt, hg⟩
  · have hge : h.length ≤ o' := Nat.le_of_not_lt hlt
    rw [List.getElem?_append_right hge] at hg
    by_cases he : o' = h.length
    · subst he
      simp at hg
      split at hg <;> simp_all
    · have hlen : [x].length ≤ o' - h.length :=
        Nat.sub_pos_of_lt (Nat.lt_of_le_of_ne hge (fun e => he e.symm))
      rw [List.getElem?_eq_none hlen] at hg
      simp at hg

theorem getFile_append {h : Heap} {o' : Oid} {x : Obj} {f : FileObj} (hg : getFile (h ++ [x]) o' = some f) :
    (o' = h.length ∧ x = .file f) ∨ (o' < h.length ∧ getFile h o' = some f) := by
  unfold getFile at hg ⊢
  by_cases hlt : o' < h.length
  · rw [List.getElem?_append_left hlt] at hg
    right; exact ⟨hlt, hg⟩
  · have hge : h.length ≤ o' := Nat.le_of_not_lt hlt
    rw [List.getElem?_append_right hge] at hg
    by_cases he : o' = h.length
    · subst he
      simp at hg
      split at hg <;> simp_all
    · have hlen : [x].length ≤ o' - h.length :=
        Nat.sub_pos_of_lt (Nat.lt_of_le_of_ne hge (fun e => he e.symm))
      rw [List.getElem?_eq_none hlen] at hg
      simp at hg

theorem heapInv_set {h : Heap} (hi : HeapInv h) (o : Oid) {x : Obj} (hx : ∀ d, x = .dir d → DirInv d) :
    HeapInv (h.set o x) := by
  intro o' d hg
  rcases getDir_set hg with ⟨_, h2⟩ | ⟨_, h2⟩
  · exact hx d h2
  · exact hi o' d h2

theorem heapInv_append {h : Heap} (hi : HeapInv h) {x : Obj} (hx : ∀ d, x = .dir d → DirInv d) :
    HeapInv (h ++ [x]) := by
  intro o' d hg
  rcases getDir_append hg with ⟨_, h2⟩ | ⟨_, h2⟩
  · exact hx d h2
  · exact hi o' d h2

theorem filesInv_set {h : Heap} (hi : FilesInv h) (o : Oid) {x : Obj} (hx : ∀ f, x = .file f → FileInv f) :
    FilesInv (h.set o x) := by
  intro o' f hg
  rcases getFile_set hg with ⟨_, h2⟩ | ⟨_, h2⟩
  · exact hx f h2
  · exact hi o' f h2

theorem filesInv_append {h : Heap} (hi : FilesInv h) {x : Obj} (hx : ∀ f, x = .file f → FileInv f) :
    FilesInv (h ++ [x]) := by
  intro o' f hg
  rcases getFile_append hg with ⟨_, h2⟩ | ⟨_, h2⟩
  · exact hx f h2
  · exact hi o' f h2

theorem dirInv_of_fields {d d' : DirObj} (h : DirInv d) (hn : d'.nodes = d.nodes) (hx : d'.index = d.index) :
    DirInv d' := by
  unfold DirInv; rw [hn, hx]; exact h

/-! ### what a critical section can do to an object -/

/-- the possible changes of an existing directory object by the act `a` of thread `t` -/
def DirChange (t : Tid) (a : Act) (o : Oid) (d d' : DirObj) : Prop :=
  match a with
  | .outerLock x => x = o ∧ d.outer = none ∧ d' = { d with outer := some t }
  | .outerUnlock x => x = o ∧ d.outer = some t ∧ d' = { d with outer := none }
  | .snapshot x true => x = o ∧ d' = { d with muR := t :: d.muR }
  | .newDir _ (some x) => x = o ∧ d' = { d with muR := d.muR.erase t }
  | .mkdirLocked x n => x = o ∧ muFree d = true ∧ ∃ c, d.add n c = some d'
  | .addNode x n c => x = o ∧ muFree d = true ∧ d.add n c = some d'
  | .addNewFile x n _ => x = o ∧ muFree d = true ∧ ∃ c, d.add n c = some d'
  | .removeNode x n => x = o ∧ muFree d = true ∧ d.remove n = some d'
  | _ => False

/-- the possible changes of an existing file object by the act `a` of thread `t` -/
def FileChange (t : Tid) (a : Act) (o : Oid) (f f' : FileObj) : Prop :=
  match a with
  | .setData x v => x = o ∧ f.lock = none ∧ f' = { f with data := v, committed := f.committed ++ [v] }
  | .openH x trunc => x = o ∧ f.lock = none ∧ f' = { f with lock := some t, data := if trunc then [] else f.data }
  | .hwrite x chunk => x = o ∧ f.lock = some t ∧ f' = { f with data := f.data ++ chunk }
  | .closeH x _ => x = o ∧ f.lock = some t ∧ f' = { f with lock := none, committed := f.committed ++ [f.data] }
  | _ => False

theorem actEff_upd_dir {h : Heap} {t : Tid} {a : Act} {e : Eff} {o : Oid} {d' : DirObj}
    (he : actEff h t a = some e) (hu : e.upd = .setDir o d') :
    ∃ d, getDir h o = some d ∧ DirChange t a o d d' := by
  cases a <;> simp only [actEff] at he <;> (repeat' split at he) <;>
    simp only [Option.some.injEq, reduceCtorEq] at he <;> subst he <;>
    simp only [reduceCtorEq, Upd.setDir.injEq] at hu
  all_goals (obtain ⟨rfl, rfl⟩ := hu)
  all_goals (refine ⟨_, ‹_›, ?_⟩)
  all_goals (first
    | (simp only [DirChange, true_and]; exact ⟨‹_›, ⟨_, ‹_›⟩⟩)
    | (simp only [DirChange, true_and]; refine ⟨?_, ?_⟩ <;> assumption)
    | (simp_all [DirChange]; done))

theorem actEff_upd_file {h : Heap} {t : Tid} {a : Act} {e : Eff} {o : Oid} {f' : FileObj}
    (he : actEff h t a = some e) (hu : e.upd = .setFile o f') :
    ∃ f, getFile h o = some f ∧ FileChange t a o f f' := by
  cases a <;> simp only [actEff] at he <;> (repeat' split at he) <;>
    simp only [Option.some.injEq, reduceCtorEq] at he <;> subst he <;>
    simp only [reduceCtorEq, Upd.setFile.injEq] at hu
  all_goals (obtain ⟨rfl, rfl⟩ := hu)
  all_goals (refine ⟨_, ‹_›, ?_⟩)
  all_goals (first
    | (simp only [FileChange, true_and]; exact ⟨‹_›, rfl⟩)
    | (simp_all [FileChange]; done))

theorem actEff_alloc_dir {h : Heap} {t : Tid} {a : Act} {e : Eff} {d' : DirObj}
    (he : actEff h t a = some e) (ha : e.alloc = some (.dir d')) :
    (d'.outer = none ∧ d'.muR = []) ∧
      ((d'.nodes = [] ∧ d'.index = fun _ => none) ∨ ∃ nodes rel, a = .newDir nodes rel ∧ d' = newDirObj nodes) := by
  cases a <;> simp only [actEff] at he <;> (repeat' split at he) <;>
    simp only [Option.some.injEq, reduceCtorEq] at he <;> subst he <;>
    simp only [reduceCtorEq, Option.some.injEq, Obj.dir.injEq] at ha
  all_goals subst ha
  all_goals (first
    | exact ⟨⟨rfl, rfl⟩, Or.inl ⟨rfl, rfl⟩⟩
    | exact ⟨⟨rfl, rfl⟩, Or.inr ⟨_, _, rfl, rfl⟩⟩)

theorem actEff_alloc_file {h : Heap} {t : Tid} {a : Act} {e : Eff} {f' : FileObj}
    (he : actEff h t a = some e) (ha : e.alloc = some (.file f')) :
    f'.lock = none ∧ f'.committed = [f'.data] := by
  cases a <;> simp only [actEff] at he <;> (repeat' split at he) <;>
    simp only [Option.some.injEq, reduceCtorEq] at he <;> subst he <;>
    simp only [reduceCtorEq, Option.some.injEq, Obj.file.injEq] at ha
  all_goals subst ha
  all_goals exact ⟨rfl, rfl⟩

/-! ### generic consequences of the effect form -/


def updHeap (h : Heap) : Upd → Heap
  | .none => h
  | .setDir o d => h.set o (.dir d)
  | .setFile o f => h.set o (.file f)

def allocHeap (h : Heap) : Option Obj → Heap
  | none => h
  | some x => h ++ [x]

theorem applyEff_fst (h : Heap) (e : Eff) : (applyEff h e).1 = allocHeap (updHeap h e.upd) e.alloc := by
  obtain ⟨upd, alloc, ret⟩ := e
  cases upd <;> cases alloc <;> rfl

theorem updHeap_length (h : Heap) (u : Upd) : (updHeap h u).length = h.length := by
  cases u <;> simp [updHeap]

theorem updHeap_getDir {h : Heap} {u : Upd} {o : Oid} {d' : DirObj} (hx : getDir (updHeap h u) o = some d') :
    getDir h o = some d' ∨ u = .setDir o d' := by
  cases u with
  | none => exact Or.inl hx
  | setDir o1 d1 =>
    rcases getDir_set hx with ⟨h1, h2⟩ | ⟨_, h2⟩
    · cases h2; subst h1; exact Or.inr rfl
    · exact Or.inl h2
  | setFile o1 f1 =>
    rcases getDir_set hx with ⟨_, h2⟩ | ⟨_, h2⟩
    · cases h2
    · exact Or.inl h2

theorem updHeap_getFile {h : Heap} {u : Upd} {o : Oid} {f' : FileObj} (hx : getFile (updHeap h u) o = some f') :
    getFile h o = some f' ∨ u = .setFile o f' := by
  cases u with
  | none => exact Or.inl hx
  | setFile o1 d1 =>
    rcases getFile_set hx with ⟨h1, h2⟩ | ⟨_, h2⟩
    · cases h2; subst h1; exact Or.inr rfl
    · exact Or.inl h2
  | setDir o1 f1 =>
    rcases getFile_set hx with ⟨_, h2⟩ | ⟨_, h2⟩
    · cases h2
    · exact Or.inl h2

theorem applyEff_getDir {h : Heap} {e : Eff} {o : Oid} {d' : DirObj}
    (hg : getDir (applyEff h e).1 o = some d') :
    getDir h o = some d' ∨ e.upd = .setDir o d' ∨ (h.length ≤ o ∧ e.alloc = some (.dir d')) := by
  rw [applyEff_fst] at hg
  cases ha : e.alloc with
  | none =>
    rw [ha] at hg
    rcases updHeap_getDir hg with x | x
    · exact Or.inl x
    · exact Or.inr (Or.inl x)
  | some x =>
    rw [ha] at hg
    rcases getDir_append hg with ⟨h1', h2⟩ | ⟨_, h2⟩
    · right; right
      exact ⟨by rw [h1', updHeap_length]; exact Nat.le_refl _, by rw [h2]⟩
    · rcases updHeap_getDir h2 with x | x
      · exact Or.inl x
      · exact Or.inr (Or.inl x)

theorem applyEff_getFile {h : Heap} {e : Eff} {o : Oid} {f' : FileObj}
    (hg : getFile (applyEff h e).1 o = some f') :
    getFile h o = some f' ∨ e.upd = .setFile o f' ∨ (h.length ≤ o ∧ e.alloc = some (.file f')) := by
  rw [applyEff_fst] at hg
  cases ha : e.alloc with
  | none =>
    rw [ha] at hg
    rcases updHeap_getFile hg with x | x
    · exact Or.inl x
    · exact Or.inr (Or.inl x)
  | some x =>
    rw [ha] at hg
    rcases getFile_append hg with ⟨h1', h2⟩ | ⟨_, h2⟩
    · right; right
      exact ⟨by rw [h1', updHeap_length]; exact Nat.le_refl _, by rw [h2]⟩
    · rcases updHeap_getFile h2 with x | x
      · exact Or.inl x
      · exact Or.inr (Or.inl x)

/-- Backward characterisation for directories: a directory object of the new heap is an unchanged
old one, a changed old one, or a freshly allocated one. -/
theorem applyAct_dir {h h' : Heap} {t : Tid} {a : Act} {r : Ret} (hs : applyAct h t a = some (h', r))
    {o : Oid} {d' : DirObj} (hg : getDir h' o = some d') :
    getDir h o = some d' ∨ (∃ d, getDir h o = some d ∧ DirChange t a o d d') ∨
    (h.length ≤ o ∧ (d'.outer = none ∧ d'.muR = []) ∧
      ((d'.nodes = [] ∧ d'.index = fun _ => none) ∨ ∃ nodes rel, a = .newDir nodes rel ∧ d' = newDirObj nodes)) := by
  unfold applyAct at hs
  cases he : actEff h t a with
  | none => simp [he] at hs
  | some e =>
    simp [he] at hs
    have hh : (applyEff h e).1 = h' := by rw [hs]
    rw [← hh] at hg
    rcases applyEff_getDir hg with x | x | ⟨x1, x2⟩
    · exact Or.inl x
    · exact Or.inr (Or.inl (actEff_upd_dir he x))
    · exact Or.inr (Or.inr ⟨x1, actEff_alloc_dir he x2⟩)

theorem applyAct_file {h h' : Heap} {t : Tid} {a : Act} {r : Ret} (hs : applyAct h t a = some (h', r))
    {o : Oid} {f' : FileObj} (hg : getFile h' o = some f') :
    getFile h o = some f' ∨ (∃ f, getFile h o = some f ∧ FileChange t a o f f') ∨
    (h.length ≤ o ∧ f'.lock = none ∧ f'.committed = [f'.data]) := by
  unfold applyAct at hs
  cases he : actEff h t a with
  | none => simp [he] at hs
  | some e =>
    simp [he] at hs
    have hh : (applyEff h e).1 = h' := by rw [hs]
    rw [← hh] at hg
    rcases applyEff_getFile hg with x | x | ⟨x1, x2⟩
    · exact Or.inl x
    · exact Or.inr (Or.inl (actEff_upd_file he x))
    · exact Or.inr (Or.inr ⟨x1, actEff_alloc_file he x2⟩)

theorem applyAct_length {h h' : Heap} {t : Tid} {a : Act} {r : Ret} (hs : applyAct h t a = some (h', r)) :
    h.length ≤ h'.length := by
  unfold applyAct at hs
  cases he : actEff h t a with
  | none => simp [he] at hs
  | some e =>
    simp [he] at hs
    have hh : (applyEff h e).1 = h' := by rw [hs]
    rw [← hh, applyEff_fst]
    cases e.alloc <;> simp [allocHeap, updHeap_length]

/-! ### every critical section preserves the directory and the file invariant -/

theorem dirChange_inv {t : Tid} {a : Act} {o : Oid} {d d' : DirObj} (hi : DirInv d)
    (hc : DirChange t a o d d') : DirInv d' := by
  cases a <;> simp only [DirChange] at hc
  case mkdirLocked x n => obtain ⟨_, _, c, hc⟩ := hc; exact add_inv hi hc
  case addNode x n c => exact add_inv hi hc.2.2
  case addNewFile x n v => obtain ⟨_, _, c, hc⟩ := hc; exact add_inv hi hc
  case removeNode x n => exact remove_inv hi hc.2.2
  case outerLock x => rw [hc.2.2]; exact dirInv_of_fields hi rfl rfl
  case outerUnlock x => rw [hc.2.2]; exact dirInv_of_fields hi rfl rfl
  case snapshot x hold =>
    cases hold <;> simp only at hc
    rw [hc.2]; exact dirInv_of_fields hi rfl rfl
  case newDir nodes rel =>
    cases rel <;> simp only at hc
    rw [hc.2]; exact dirInv_of_fields hi rfl rfl

theorem applyAct_heapInv {h h' : Heap} {t : Tid} {a : Act} {r : Ret} (hi : HeapInv h) (hok : ActOK a)
    (hs : applyAct h t a = some (h', r)) : HeapInv h' := by
  intro o d' hg
  rcases applyAct_dir hs hg with x | ⟨d, hd, hc⟩ | ⟨_, _, hnew⟩
  · exact hi o d' x
  · exact dirChange_inv (hi o d hd) hc
  · rcases hnew with ⟨hn, hx⟩ | ⟨nodes, rel, rfl, rfl⟩
    · constructor
      · rw [hn]; simp
      · intro n c; rw [hn, hx]; simp
    · exact newDirObj_inv hok

theorem fileChange_inv {t : Tid} {a : Act} {o : Oid} {f f' : FileObj} (hc : FileChange t a o f f') :
    FileInv f' := by
  cases a <;> simp only [FileChange] at hc
  case setData x v => rw [hc.2.2]; intro _; simp
  case openH x trunc => rw [hc.2.2]; intro hl; simp at hl
  case hwrite x chunk => rw [hc.2.2]; intro hl; simp [hc.2.1] at hl
  case closeH x w => rw [hc.2.2]; intro _; simp

theorem applyAct_filesInv {h h' : Heap} {t : Tid} {a : Act} {r : Ret} (hi : FilesInv h)
    (hs : applyAct h t a = some (h', r)) : FilesInv h' := by
  intro o f' hg
  rcases applyAct_file hs hg with x | ⟨f, _, hc⟩ | ⟨_, _, hnew⟩
  · exact hi o f' x
  · exact fileChange_inv hc
  · intro _; rw [hnew]; simp

/-- values read under `dataMU` are complete values -/
theorem applyAct_getData {h h' : Heap} {t : Tid} {f : Oid} {v : Data} (hi : FilesInv h)
    (hs : applyAct h t (.getData f) = some (h', .data v)) :
    h' = h ∧ ∃ ff, getFile h f = some ff ∧ ff.lock = none ∧ v ∈ ff.committed := by
  unfold applyAct at hs
  simp only [actEff] at hs
  split at hs
  · simp [applyEff] at hs
  · rename_i ff hff
    split at hs
    · rename_i hl
      simp [applyEff] at hs
      refine ⟨hs.1.symm, ff, hff, hl, ?_⟩
      rw [← hs.2]; exact hi f ff hff hl
    · simp at hs

/-- listings have unique names -/
theorem applyAct_retOK {h h' : Heap} {t : Tid} {a : Act} {r : Ret} (hi : HeapInv h)
    (hs : applyAct h t a = some (h', r)) : RetOK r := by
  unfold applyAct at hs
  cases he : actEff h t a with
  | none => simp [he] at hs
  | some e =>
    simp [he] at hs
    have hr : e.ret = r := by
      have := congrArg Prod.snd hs
      simpa [applyEff] using this
    subst hr
    clear hs
    cases a <;> simp only [actEff] at he <;> (repeat' split at he) <;>
      simp only [Option.some.injEq, reduceCtorEq] at he <;> subst he <;> simp only [RetOK]
    all_goals (first
      | (simp; done)
      | (have := (hi _ _ ‹getDir h _ = some _›).1
         rw [List.map_map]
         exact this))

end Goat.MemFSConc
