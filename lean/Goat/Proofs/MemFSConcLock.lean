/-
Helper lemmas for property C09, part 4: the lock graph.  Which program counters are inside a
directory's outer critical section, the invariants tying lock holders to program counters, and the
enabledness analysis behind `no_deadlock`.
-/
import Goat.Proofs.MemFSConcSys

set_option linter.unusedSimpArgs false

namespace Goat.MemFSConc

/-- the directory whose outer lock (`Dir.Lock`) a program counter is inside -/
def holdsOuter : Pc → Option Oid
  | .wLook d _ _ => some d
  | .wAdd d _ _ => some d
  | .wUnlockFin d _ => some d
  | .wUnlockSet d _ _ => some d
  | .wSetLocked d _ _ => some d
  | .oLook d _ _ => some d
  | .oAdd d _ _ => some d
  | .oUnlockOpen d _ _ => some d
  | .oOpenLocked d _ _ => some d
  | _ => none

/-- program counters that exist only in the old lock orders -/
def oldPc (v : Variant) : Pc → Prop
  | .wSetLocked _ _ _ => v.writeFileUnderDir = true
  | .oOpenLocked _ _ _ => v.writerUnderDir = true
  | _ => True

@[simp] theorem afterMk_holds (k : MK) (d : Oid) : holdsOuter (afterMk k d) = none := by
  cases k <;> simp only [afterMk] <;> (try split) <;> rfl

@[simp] theorem mkStart_holds (p : Path) (k : MK) : holdsOuter (mkStart p k) = none := by
  cases p <;> simp only [mkStart, afterMk_holds] <;> rfl

@[simp] theorem mkOn_holds (o : Oid) (p : Path) (k : MK) : holdsOuter (mkOn o p k) = none := by
  cases p <;> simp only [mkOn, afterMk_holds] <;> rfl

@[simp] theorem afterWalk_holds (k : WK) (o : Oid) (b : Bool) : holdsOuter (afterWalk k o b) = none := by
  cases k <;> simp only [afterWalk, mkStart_holds] <;> (repeat' split) <;> rfl

@[simp] theorem walkStart_holds (p : Path) (k : WK) : holdsOuter (walkStart p k) = none := by
  cases p <;> simp only [walkStart, afterWalk_holds] <;> rfl

@[simp] theorem walkOn_holds (o : Oid) (b : Bool) (p : Path) (k : WK) : holdsOuter (walkOn o b p k) = none := by
  cases p <;> simp only [walkOn, afterWalk_holds] <;> (repeat' split) <;> rfl

@[simp] theorem start_holds (hs : List Handle) (op : Op) : holdsOuter (start hs op) = none := by
  cases op <;> simp only [start] <;> (repeat' split) <;>
    first | rfl | simp only [mkStart_holds, walkStart_holds]

theorem afterMk_old (v : Variant) (k : MK) (d : Oid) : oldPc v (afterMk k d) := by
  cases k <;> simp only [afterMk] <;> (try split) <;> trivial

theorem mkStart_old (v : Variant) (p : Path) (k : MK) : oldPc v (mkStart p k) := by
  cases p <;> simp only [mkStart] <;> first | exact afterMk_old v _ _ | trivial

theorem mkOn_old (v : Variant) (o : Oid) (p : Path) (k : MK) : oldPc v (mkOn o p k) := by
  cases p <;> simp only [mkOn] <;> first | exact afterMk_old v _ _ | trivial

theorem afterWalk_old (v : Variant) (k : WK) (o : Oid) (b : Bool) : oldPc v (afterWalk k o b) := by
  cases k <;> simp only [afterWalk] <;> (repeat' split) <;> first | exact mkStart_old v _ _ | trivial

theorem walkStart_old (v : Variant) (p : Path) (k : WK) : oldPc v (walkStart p k) := by
  cases p <;> simp only [walkStart] <;> first | exact afterWalk_old v _ _ _ | trivial

theorem walkOn_old (v : Variant) (o : Oid) (b : Bool) (p : Path) (k : WK) : oldPc v (walkOn o b p k) := by
  cases p <;> simp only [walkOn] <;> (repeat' split) <;> first | exact afterWalk_old v _ _ _ | trivial

theorem start_old (v : Variant) (hs : List Handle) (op : Op) : oldPc v (start hs op) := by
  cases op <;> simp only [start] <;> (repeat' split) <;>
    first | exact mkStart_old v _ _ | exact walkStart_old v _ _ | trivial

theorem copyStep_holds (d : Oid) (n : Name) (fr : Frame) (stack : List Frame) (r : Ret) :
    holdsOuter (copyStep d n fr stack r) = none := by
  unfold copyStep
  (repeat' split) <;> rfl

theorem copyStep_old (v : Variant) (d : Oid) (n : Name) (fr : Frame) (stack : List Frame) (r : Ret) :
    oldPc v (copyStep d n fr stack r) := by
  unfold copyStep
  (repeat' split) <;> trivial

theorem resume_old (v : Variant) (pc : Pc) (r : Ret) : oldPc v (resume v pc r) := by
  cases pc <;> simp only [resume] <;> (repeat' split) <;>
    first
    | trivial
    | exact walkOn_old v _ _ _ _
    | exact mkOn_old v _ _ _
    | exact copyStep_old v _ _ _ _ _
    | (simp only [oldPc]; assumption)

/-- leaving an outer critical section happens only through `outerUnlock` -/
theorem holds_resume (v : Variant) {pc : Pc} {d : Oid} (r : Ret) (h : holdsOuter pc = some d) :
    holdsOuter (resume v pc r) = some d ∨ actOf v pc = .outerUnlock d := by
  cases pc <;> simp only [holdsOuter, reduceCtorEq, Option.some.injEq] at h <;> subst h <;>
    simp only [actOf, resume, or_true] <;> (repeat' split) <;> simp [holdsOuter]

/-- entering one happens only through a successful `outerLock` -/
theorem holds_resume_none (v : Variant) {pc : Pc} {d : Oid} (r : Ret) (h : holdsOuter pc = none)
    (h' : holdsOuter (resume v pc r) = some d) : actOf v pc = .outerLock d ∧ r = .unit := by
  cases pc <;> simp only [holdsOuter, reduceCtorEq] at h <;> simp only [resume] at h' <;>
    (repeat' split at h') <;>
    (try simp only [walkOn_holds, mkOn_holds, copyStep_holds, reduceCtorEq] at h') <;>
    (try simp only [holdsOuter, reduceCtorEq, Option.some.injEq] at h') <;>
    (subst h'; exact ⟨rfl, rfl⟩)

/-! ### lock holders and program counters -/

theorem dirChange_outer {t : Tid} {a : Act} {o : Oid} {d d' : DirObj} (hc : DirChange t a o d d') :
    d'.outer = d.outer ∨ (a = .outerLock o ∧ d'.outer = some t) ∨ (a = .outerUnlock o ∧ d'.outer = none) := by
  cases a <;> simp only [DirChange] at hc
  case mkdirLocked x n => obtain ⟨_, _, c, hc⟩ := hc; exact Or.inl (add_index hc).2.2.2.1
  case addNode x n c => exact Or.inl (add_index hc.2.2).2.2.2.1
  case addNewFile x n v => obtain ⟨_, _, c, hc⟩ := hc; exact Or.inl (add_index hc).2.2.2.1
  case removeNode x n => exact Or.inl (remove_index hc.2.2).2.1
  case outerLock x => obtain ⟨rfl, _, rfl⟩ := hc; exact Or.inr (Or.inl ⟨rfl, rfl⟩)
  case outerUnlock x => obtain ⟨rfl, _, rfl⟩ := hc; exact Or.inr (Or.inr ⟨rfl, rfl⟩)
  case snapshot x hold =>
    cases hold <;> simp only at hc
    rw [hc.2]; exact Or.inl rfl
  case newDir nodes rel =>
    cases rel <;> simp only at hc
    rw [hc.2]; exact Or.inl rfl

theorem dirChange_muR {t : Tid} {a : Act} {o : Oid} {d d' : DirObj} (hc : DirChange t a o d d')
    (hm : d.muR = []) : d'.muR = [] ∨ ∃ x, a = .snapshot x true := by
  cases a <;> simp only [DirChange] at hc
  case mkdirLocked x n => obtain ⟨_, _, c, hc⟩ := hc; left; rw [(add_index hc).2.2.2.2, hm]
  case addNode x n c => left; rw [(add_index hc.2.2).2.2.2.2, hm]
  case addNewFile x n v => obtain ⟨_, _, c, hc⟩ := hc; left; rw [(add_index hc).2.2.2.2, hm]
  case removeNode x n => left; rw [(remove_index hc.2.2).2.2, hm]
  case outerLock x => left; rw [hc.2.2]; exact hm
  case outerUnlock x => left; rw [hc.2.2]; exact hm
  case snapshot x hold =>
    cases hold <;> simp only at hc
    exact Or.inr ⟨x, rfl⟩
  case newDir nodes rel =>
    cases rel <;> simp only at hc
    left; rw [hc.2]; simp [hm]

theorem actOf_snapshot {v : Variant} {pc : Pc} {x : Oid} (h : actOf v pc = .snapshot x true) :
    v.copyDirHoldsMu = true := by
  cases pc <;> simp only [actOf] at h <;> (repeat' split at h) <;>
    simp only [reduceCtorEq, Act.snapshot.injEq, Bool.false_eq_true, and_false] at h <;> exact h.2

theorem outerUnlock_fwd {h h' : Heap} {t : Tid} {d : Oid} {r : Ret} {dd : DirObj}
    (hs : applyAct h t (.outerUnlock d) = some (h', r)) (hd : getDir h d = some dd) (ho : dd.outer = some t) :
    ∃ dd', getDir h' d = some dd' ∧ dd'.outer = none := by
  unfold applyAct at hs
  simp only [actEff, hd, ho, if_true, Option.map_some, Option.some.injEq] at hs
  have : h' = h.set d (.dir { dd with outer := none }) := by
    have := congrArg Prod.fst hs
    simpa [applyEff] using this.symm
  refine ⟨{ dd with outer := none }, ?_, rfl⟩
  rw [this]
  unfold getDir at hd ⊢
  have hlt : d < h.length := by
    cases hx : h[d]? with
    | none => simp [hx] at hd
    | some _ => exact (List.getElem?_eq_some_iff.1 hx).1
  rw [List.getElem?_set_self hlt]

theorem outerLock_ret {h h' : Heap} {t : Tid} {d : Oid} {r : Ret} {dd : DirObj}
    (hs : applyAct h t (.outerLock d) = some (h', r)) (hd : getDir h d = some dd) : r = .unit := by
  unfold applyAct at hs
  simp only [actEff, hd] at hs
  split at hs
  · simp only [Option.map_some, Option.some.injEq] at hs
    have := congrArg Prod.snd hs
    simpa [applyEff] using this.symm
  · simp at hs

theorem actOf_outerLock {v : Variant} {pc : Pc} {d : Oid} (h : actOf v pc = .outerLock d) :
    holdsOuter (resume v pc .unit) = some d := by
  cases pc with
  | wLock d' n vv => simp only [actOf, Act.outerLock.injEq] at h; subst h; rfl
  | oLock d' hh n => simp only [actOf, Act.outerLock.injEq] at h; subst h; rfl
  | walk cur rest k => cases rest <;> simp [actOf] at h
  | mk cur rest k => cases rest <;> simp [actOf] at h
  | cDir d' n st =>
    cases st with
    | nil => simp [actOf] at h
    | cons fr st' =>
      simp only [actOf] at h
      split at h <;> simp at h
  | _ => simp [actOf] at h

structure LInv (v : Variant) (s : State) : Prop where
  outer : ∀ d dd t, getDir s.heap d = some dd → dd.outer = some t →
    ∃ th, s.threads[t]? = some th ∧ holdsOuter th.pc = some d
  old : ∀ th ∈ s.threads, oldPc v th.pc
  mu : v.copyDirHoldsMu = false → ∀ d dd, getDir s.heap d = some dd → dd.muR = []

theorem linv_init (v : Variant) (progs : List (List Op)) : LInv v (init progs) := by
  have hroot : ∀ d dd, getDir (init progs).heap d = some dd → dd.outer = none ∧ dd.muR = [] := by
    intro d dd hg
    unfold init getDir at hg
    cases d with
    | zero => simp at hg; rw [← hg]; exact ⟨rfl, rfl⟩
    | succ k => simp at hg
  refine ⟨?_, ?_, ?_⟩
  · intro d dd t hg ho
    rw [(hroot d dd hg).1] at ho; cases ho
  · intro th hth
    simp only [init, List.mem_map] at hth
    obtain ⟨p, _, rfl⟩ := hth
    trivial
  · intro _ d dd hg
    exact (hroot d dd hg).2

theorem getElem?_set_thread {ths : List Thread} {t t2 : Tid} {th' th2 : Thread} (hne : t2 ≠ t)
    (h : ths[t2]? = some th2) : (ths.set t th')[t2]? = some th2 := by
  rw [List.getElem?_set_ne (fun e => hne e.symm)]; exact h

theorem getElem?_set_self_thread {ths : List Thread} {t : Tid} {th th' : Thread}
    (h : ths[t]? = some th) : (ths.set t th')[t]? = some th' := by
  have hlt : t < ths.length := (List.getElem?_eq_some_iff.1 h).1
  rw [List.getElem?_set_self hlt]

theorem linv_step {v : Variant} {s s' : State} {t : Tid} (hi : LInv v s) (hs : step v s t = some s') :
    LInv v s' := by
  obtain ⟨th, hth, hk⟩ := step_cases hs
  have hmem : th ∈ s.threads := List.mem_of_getElem? hth
  -- threads other than `t` keep their program counter; `t` gets `pc'`
  have other : ∀ (pc' : Pc) (th' : Thread), th'.pc = pc' →
      (∀ d, holdsOuter th.pc = some d → holdsOuter pc' = some d) →
      ∀ d dd t2, getDir s.heap d = some dd → dd.outer = some t2 →
        ∃ x, (s.threads.set t th')[t2]? = some x ∧ holdsOuter x.pc = some d := by
    intro pc' th' hpc' hkeep d dd t2 hg ho
    obtain ⟨th2, hth2, hh2⟩ := hi.outer d dd t2 hg ho
    by_cases ht : t2 = t
    · subst ht
      rw [hth] at hth2; cases hth2
      exact ⟨th', getElem?_set_self_thread hth, by rw [hpc']; exact hkeep d hh2⟩
    · exact ⟨th2, getElem?_set_thread ht hth2, hh2⟩
  cases hk with
  | start op rest hpc hprog =>
    refine ⟨?_, ?_, hi.mu⟩
    · exact other _ _ rfl (by intro d hd; rw [hpc] at hd; cases hd)
    · intro x hx
      rcases mem_set_thread hx with rfl | hx
      · exact start_old v _ _
      · exact hi.old x hx
  | fin r hpc =>
    refine ⟨?_, ?_, hi.mu⟩
    · exact other _ _ rfl (by intro d hd; rw [hpc] at hd; cases hd)
    · intro x hx
      rcases mem_set_thread hx with rfl | hx
      · trivial
      · exact hi.old x hx
  | act h' r hni hnf hap =>
    refine ⟨?_, ?_, ?_⟩
    · intro d dd' t2 hg ho
      simp only at hg ⊢
      rcases applyAct_dir hap hg with hun | ⟨dd, hdd, hc⟩ | ⟨_, hnew, _⟩
      · -- unchanged object
        obtain ⟨th2, hth2, hh2⟩ := hi.outer d dd' t2 hun ho
        by_cases ht : t2 = t
        · subst ht
          rw [hth] at hth2; cases hth2
          refine ⟨_, getElem?_set_self_thread hth, ?_⟩
          rcases holds_resume v r hh2 with hh | hh
          · exact hh
          · rw [hh] at hap
            obtain ⟨dd2, hg2, ho2⟩ := outerUnlock_fwd hap hun ho
            rw [hg] at hg2; cases hg2
            rw [ho] at ho2; cases ho2
        · exact ⟨th2, getElem?_set_thread ht hth2, hh2⟩
      · rcases dirChange_outer hc with hsame | ⟨ha, hto⟩ | ⟨_, hnone⟩
        · rw [hsame] at ho
          obtain ⟨th2, hth2, hh2⟩ := hi.outer d dd t2 hdd ho
          by_cases ht : t2 = t
          · subst ht
            rw [hth] at hth2; cases hth2
            refine ⟨_, getElem?_set_self_thread hth, ?_⟩
            rcases holds_resume v r hh2 with hh | hh
            · exact hh
            · -- the act is outerUnlock: then the new outer is none, not some
              rw [hh] at hc
              simp only [DirChange] at hc
              have hn : dd'.outer = none := by rw [hc.2.2]
              rw [hsame, ho] at hn
              cases hn
          · exact ⟨th2, getElem?_set_thread ht hth2, hh2⟩
        · rw [hto] at ho; cases ho
          refine ⟨_, getElem?_set_self_thread hth, ?_⟩
          have hr : r = .unit := outerLock_ret (by rw [← ha]; exact hap) hdd
          subst hr
          exact actOf_outerLock ha
        · rw [hnone] at ho; cases ho
      · rw [hnew.1] at ho; cases ho
    · intro x hx
      rcases mem_set_thread hx with rfl | hx
      · exact resume_old v _ _
      · exact hi.old x hx
    · intro hv d dd' hg
      simp only at hg
      rcases applyAct_dir hap hg with hun | ⟨dd, hdd, hc⟩ | ⟨_, hnew, _⟩
      · exact hi.mu hv d dd' hun
      · rcases dirChange_muR hc (hi.mu hv d dd hdd) with hm | ⟨x, hx⟩
        · exact hm
        · rw [actOf_snapshot hx] at hv; cases hv
      · exact hnew.2

theorem linv_reachable (v : Variant) (progs : List (List Op)) {s : State}
    (h : LTS.Reachable (sys v progs) s) : LInv v s :=
  LTS.inv_of_init_step (sys v progs) (LInv v) (linv_init v progs) (fun _ _ _ hi hs => linv_step hi hs) s h

end Goat.MemFSConc
