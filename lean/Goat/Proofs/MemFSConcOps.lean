/-
Helper lemmas for property C09, part 9: operations seen from the root.

Footprints of an operation (`Op.W` the path whose subtree it replaces, `Op.C` the path it creates
directories along, `Op.R` the path it reads), the independence relation `IndepOp` between two operations,
success / result of an operation as a function of the INITIAL abstract tree (`succ`, `ResOK`), its micro
effects (`effOf`, in the vocabulary of `MemFSConcCommute`), their closed forms, and the frame lemmas:
what a list of independent operations can have changed at a path that lies on the way to, or below, a
path of another operation.
-/
import Goat.Proofs.MemFSConcCommute

set_option linter.unusedSimpArgs false
set_option linter.unusedVariables false

namespace Goat.MemFSConc
open Goat.FS (Entry)

/-! ### prefixes -/

theorem pfx_iff {p q : Path} : p.isPrefixOf q = true ↔ p <+: q := List.isPrefixOf_iff_prefix

theorem pfx_false_iff {p q : Path} : p.isPrefixOf q = false ↔ ¬ p <+: q := by
  rw [← pfx_iff]; cases p.isPrefixOf q <;> simp

theorem pfx_comparable {a b c : Path} (h1 : a <+: c) (h2 : b <+: c) : a <+: b ∨ b <+: a := by
  rcases Nat.le_total a.length b.length with h | h
  · exact Or.inl (List.prefix_of_prefix_length_le h1 h2 h)
  · exact Or.inr (List.prefix_of_prefix_length_le h2 h1 h)

theorem dropLast_pfx (p : Path) : p.dropLast <+: p := List.dropLast_prefix p

theorem pfx_dropLast_of_ne {q p : Path} (h : q <+: p) (hne : q ≠ p) : q <+: p.dropLast := by
  obtain ⟨r, rfl⟩ := h
  rcases List.eq_nil_or_concat r with rfl | ⟨r', x, hr⟩
  · simp at hne
  · rw [List.concat_eq_append] at hr; subst hr
    rw [← List.append_assoc, List.dropLast_concat]
    exact List.prefix_append _ _

theorem mem_properPrefixes {p q : Path} : q ∈ properPrefixes p ↔ q ≠ [] ∧ q <+: p ∧ q ≠ p := by
  induction p generalizing q with
  | nil =>
    simp only [properPrefixes, List.not_mem_nil, List.prefix_nil, false_iff]
    rintro ⟨h1, h2, _⟩; exact h1 h2
  | cons a rest ih =>
    cases rest with
    | nil =>
      simp only [properPrefixes, List.not_mem_nil, false_iff]
      rintro ⟨h1, h2, h3⟩
      cases q with
      | nil => exact h1 rfl
      | cons c q' =>
        rw [List.cons_prefix_cons] at h2
        obtain ⟨rfl, h2⟩ := h2
        have : q' = [] := List.prefix_nil.1 h2
        subst this
        exact h3 rfl
    | cons b rest' =>
      simp only [properPrefixes, List.mem_cons, List.mem_map]
      constructor
      · rintro (rfl | ⟨q', hq', rfl⟩)
        · refine ⟨by simp, ?_, by simp⟩
          rw [List.cons_prefix_cons]; exact ⟨rfl, List.nil_prefix⟩
        · obtain ⟨h1, h2, h3⟩ := ih.1 hq'
          refine ⟨by simp, ?_, ?_⟩
          · rw [List.cons_prefix_cons]; exact ⟨rfl, h2⟩
          · intro e; exact h3 (List.cons.inj e).2
      · rintro ⟨h1, h2, h3⟩
        cases q with
        | nil => exact absurd rfl h1
        | cons c q' =>
          rw [List.cons_prefix_cons] at h2
          obtain ⟨rfl, h2⟩ := h2
          by_cases hq' : q' = []
          · left; rw [hq']
          · right
            exact ⟨q', ih.2 ⟨hq', h2, fun e => h3 (by rw [e])⟩, rfl⟩

/-- a well-formed abstract tree: the root is a directory and what has a child is a directory -/
def TreeWF (T : Tree) : Prop := T [] = some .dir ∧ ∀ p n, T (p ++ [n]) ≠ none → T p = some .dir

theorem TreeWF.pfx {T : Tree} (hw : TreeWF T) {p q : Path} (hne : T (p ++ q) ≠ none) (hq : q ≠ []) :
    T p = some .dir := by
  induction q generalizing p with
  | nil => exact absurd rfl hq
  | cons n q' ih =>
    by_cases hq' : q' = []
    · subst hq'; exact hw.2 p n hne
    · have h1 : T ((p ++ [n]) ++ q') ≠ none := by simpa using hne
      have h2 := ih h1 hq'
      exact hw.2 p n (by rw [h2]; simp)

theorem TreeWF.pfx' {T : Tree} (hw : TreeWF T) {q p : Path} (hp : T p ≠ none) (hq : q <+: p) (hne : q ≠ p) :
    T q = some .dir := by
  obtain ⟨r, rfl⟩ := hq
  exact hw.pfx hp (by intro e; apply hne; simp [e])

theorem TreeWF.below {T : Tree} (hw : TreeWF T) {p q : Path} (hp : T p ≠ some .dir) (hq : q ≠ []) :
    T (p ++ q) = none := by
  cases hx : T (p ++ q) with
  | none => rfl
  | some e => exact absurd (hw.pfx (by rw [hx]; simp) hq) hp

/-! ### closed forms of micro-effect lists -/

theorem runEffs_append (T : Tree) (l1 l2 : List Eff1) : runEffs T (l1 ++ l2) = runEffs (runEffs T l1) l2 := by
  simp [runEffs, List.foldl_append]

theorem runEffs_ensures (S : Tree) (l : List Path) (q : Path) :
    runEffs S (l.map .ensureDir) q = if q ∈ l ∧ S q = none then some .dir else S q := by
  induction l generalizing S with
  | nil => simp [runEffs]
  | cons x l ih =>
    simp only [List.map_cons, runEffs, List.foldl_cons]
    have := ih ((Eff1.ensureDir x).apply S)
    simp only [runEffs] at this
    rw [this]
    simp only [Eff1.apply, List.mem_cons]
    by_cases hqx : q = x
    · subst hqx
      simp only [if_true, true_or, true_and]
      cases hS : S q with
      | none => simp
      | some e => simp
    · simp [hqx]

/-- one operation that replaces the subtree at `p` by `sub` -/
theorem runEffs_aop_graft (S : Tree) (p : Path) (sub : Tree) (q : Path) :
    runEffs S (AOp.effects ⟨p, some sub⟩) q =
      if p <+: q then sub (q.drop p.length)
      else if q ≠ [] ∧ q <+: p ∧ S q = none then some .dir else S q := by
  simp only [AOp.effects, runEffs_append]
  simp only [runEffs, List.foldl_cons, List.foldl_nil, Eff1.apply]
  have := runEffs_ensures S (properPrefixes p) q
  simp only [runEffs] at this
  rw [this]
  by_cases hpq : p <+: q
  · simp [pfx_iff.2 hpq, hpq]
  · have h1 : p.isPrefixOf q = false := pfx_false_iff.2 hpq
    simp only [h1, Bool.false_eq_true, if_false, hpq, mem_properPrefixes]
    have : ∀ (hq : q <+: p), q ≠ p := by
      intro _ e; apply hpq; rw [e]; exact List.prefix_refl _
    by_cases hx : q ≠ [] ∧ q <+: p ∧ S q = none
    · have : (q ≠ [] ∧ q <+: p ∧ q ≠ p) ∧ S q = none := ⟨⟨hx.1, hx.2.1, this hx.2.1⟩, hx.2.2⟩
      simp [hx, this]
    · have : ¬ ((q ≠ [] ∧ q <+: p ∧ q ≠ p) ∧ S q = none) := fun hh => hx ⟨hh.1.1, hh.1.2.1, hh.2⟩
      simp [hx, this]

/-- one operation that only makes sure that `p` and the directories on the way exist -/
theorem runEffs_aop_mk (S : Tree) (p : Path) (hp : p ≠ []) (q : Path) :
    runEffs S (AOp.effects ⟨p, none⟩) q = if q ≠ [] ∧ q <+: p ∧ S q = none then some .dir else S q := by
  have he : AOp.effects ⟨p, none⟩ = (properPrefixes p ++ [p]).map .ensureDir := by
    simp [AOp.effects]
  rw [he, runEffs_ensures]
  simp only [List.mem_append, mem_properPrefixes, List.mem_singleton]
  by_cases hx : q ≠ [] ∧ q <+: p ∧ S q = none
  · have : ((q ≠ [] ∧ q <+: p ∧ q ≠ p) ∨ q = p) ∧ S q = none := by
      refine ⟨?_, hx.2.2⟩
      by_cases e : q = p
      · exact Or.inr e
      · exact Or.inl ⟨hx.1, hx.2.1, e⟩
    simp [hx, this]
  · have : ¬ (((q ≠ [] ∧ q <+: p ∧ q ≠ p) ∨ q = p) ∧ S q = none) := by
      rintro ⟨h1 | h1, h2⟩
      · exact hx ⟨h1.1, h1.2.1, h2⟩
      · exact hx ⟨by rw [h1]; exact hp, by rw [h1]; exact List.prefix_refl _, h2⟩
    simp [hx, this]

/-! ### what a list of effects can have done at a path -/

/-- the effect does not replace anything at or above `q` -/
def Eff1.harmless (q : Path) : Eff1 → Prop
  | .ensureDir _ => True
  | .graft w _ => ¬ w <+: q

/-- the effect does nothing at `q` -/
def Eff1.untouched (q : Path) : Eff1 → Prop
  | .ensureDir x => x ≠ q
  | .graft w _ => ¬ w <+: q

theorem runEffs_harmless {l : List Eff1} {q : Path} (hl : ∀ e ∈ l, e.harmless q) (S : Tree) :
    runEffs S l q = S q ∨ (S q = none ∧ runEffs S l q = some .dir) := by
  induction l generalizing S with
  | nil => left; rfl
  | cons e l ih =>
    have he := hl e (by simp)
    have hstep : (e.apply S) q = S q ∨ (S q = none ∧ (e.apply S) q = some .dir) := by
      cases e with
      | ensureDir x =>
        simp only [Eff1.apply]
        by_cases hqx : q = x
        · subst hqx
          cases hS : S q with
          | none => right; simp
          | some v => left; simp
        · left; simp [hqx]
      | graft w sub =>
        simp only [Eff1.harmless] at he
        left
        simp [Eff1.apply, pfx_false_iff.2 he]
    have := ih (fun e' he' => hl e' (by simp [he'])) (e.apply S)
    simp only [runEffs, List.foldl_cons] at this ⊢
    rcases this with h1 | ⟨h1, h2⟩
    · rcases hstep with h3 | ⟨h3, h4⟩
      · left; rw [h1, h3]
      · right; exact ⟨h3, by rw [h1, h4]⟩
    · rcases hstep with h3 | ⟨h3, h4⟩
      · right; exact ⟨by rw [← h3]; exact h1, h2⟩
      · rw [h4] at h1; cases h1

theorem runEffs_untouched {l : List Eff1} {q : Path} (hl : ∀ e ∈ l, e.untouched q) (S : Tree) :
    runEffs S l q = S q := by
  induction l generalizing S with
  | nil => rfl
  | cons e l ih =>
    have he := hl e (by simp)
    have hstep : (e.apply S) q = S q := by
      cases e with
      | ensureDir x =>
        simp only [Eff1.untouched] at he
        have : ¬ q = x := fun h => he h.symm
        simp [Eff1.apply, this]
      | graft w sub =>
        simp only [Eff1.untouched] at he
        simp [Eff1.apply, pfx_false_iff.2 he]
    have := ih (fun e' he' => hl e' (by simp [he'])) (e.apply S)
    simp only [runEffs, List.foldl_cons] at this ⊢
    rw [this, hstep]

/-! ### footprints -/

/-- the path whose subtree the operation replaces -/
def Op.W : Op → Option Path
  | .writeFile p _ => some p
  | .remove p => some p
  | .removeAll p => some p
  | .copy _ d => some d
  | _ => none

/-- the path along which the operation creates missing directories -/
def Op.C : Op → Option Path
  | .mkdirAll p => some p
  | .writeFile p _ => some p.dropLast
  | .copy _ d => some d.dropLast
  | _ => none

/-- the path whose subtree the operation reads -/
def Op.R : Op → Option Path
  | .readFile p => some p
  | .readDir p => some p
  | .probe p _ => some p
  | .copy s _ => some s
  | _ => none

def Op.paths (op : Op) : List Path := op.W.toList ++ op.C.toList ++ op.R.toList

def Op.owned (op : Op) : List Path := op.W.toList ++ op.R.toList

/-- operations covered by `distinct_paths_commute`: no stream handles, no operation on the root path
itself, a copy's source and destination unrelated -/
def Op.ok : Op → Prop
  | .mkdirAll p => p ≠ []
  | .writeFile p _ => p ≠ []
  | .readFile p => p ≠ []
  | .readDir p => p ≠ []
  | .probe p _ => p ≠ []
  | .remove p => p ≠ []
  | .removeAll p => p ≠ []
  | .copy s d => s ≠ [] ∧ d ≠ [] ∧ ¬ s <+: d ∧ ¬ d <+: s
  | _ => False

/-- two operations that may run concurrently: nothing of `b` lies at or below a path `a` replaces, `a`
replaces nothing at or above a path `b` owns, and `a` reads nothing on the way `b` creates directories
along (and the same with `a` and `b` exchanged).  Creating operations may share ancestors, and two
`MkdirAll` are always independent. -/
def IndepOp (a b : Op) : Prop :=
  (∀ w ∈ a.W, ∀ x ∈ b.paths, ¬ w <+: x) ∧ (∀ w ∈ b.W, ∀ x ∈ a.paths, ¬ w <+: x) ∧
  (∀ r ∈ a.R, ∀ c ∈ b.C, ¬ r <+: c) ∧ (∀ r ∈ b.R, ∀ c ∈ a.C, ¬ r <+: c) ∧
  (∀ w ∈ a.W, ∀ x ∈ b.owned, ¬ x <+: w) ∧ (∀ w ∈ b.W, ∀ x ∈ a.owned, ¬ x <+: w)

theorem IndepOp.symm {a b : Op} (h : IndepOp a b) : IndepOp b a :=
  ⟨h.2.1, h.1, h.2.2.2.1, h.2.2.1, h.2.2.2.2.2, h.2.2.2.2.1⟩

/-- the paths an operation names -/
def Op.mains : Op → List Path
  | .mkdirAll p => [p]
  | .writeFile p _ => [p]
  | .readFile p => [p]
  | .readDir p => [p]
  | .probe p _ => [p]
  | .remove p => [p]
  | .removeAll p => [p]
  | .copy s d => [s, d]
  | _ => []

theorem Op.W_mem_mains {op : Op} {w : Path} (h : w ∈ op.W) : w ∈ op.mains := by
  cases op <;> simp [Op.W] at h <;> simp [Op.mains, h]

theorem Op.R_mem_mains {op : Op} {w : Path} (h : w ∈ op.R) : w ∈ op.mains := by
  cases op <;> simp [Op.R] at h <;> simp [Op.mains, h]

theorem Op.C_pfx_mains {op : Op} {c : Path} (h : c ∈ op.C) : ∃ m ∈ op.mains, c <+: m := by
  cases op <;> simp [Op.C] at h <;> subst h <;> simp [Op.mains, dropLast_pfx]

theorem Op.paths_pfx_mains {op : Op} {x : Path} (h : x ∈ op.paths) : ∃ m ∈ op.mains, x <+: m := by
  simp only [Op.paths, List.mem_append, Option.mem_toList] at h
  rcases h with (h | h) | h
  · exact ⟨x, Op.W_mem_mains h, List.prefix_refl _⟩
  · exact Op.C_pfx_mains h
  · exact ⟨x, Op.R_mem_mains h, List.prefix_refl _⟩

theorem Op.owned_mem_mains {op : Op} {x : Path} (h : x ∈ op.owned) : x ∈ op.mains := by
  simp only [Op.owned, List.mem_append, Option.mem_toList] at h
  rcases h with h | h
  · exact Op.W_mem_mains h
  · exact Op.R_mem_mains h

/-- operations on pairwise unrelated paths are independent -/
theorem indepOp_of_unrelated {a b : Op}
    (h : ∀ x ∈ a.mains, ∀ y ∈ b.mains, ¬ x <+: y ∧ ¬ y <+: x) : IndepOp a b := by
  refine ⟨?_, ?_, ?_, ?_, ?_, ?_⟩
  · intro w hw x hx hwx
    obtain ⟨m, hm, hxm⟩ := Op.paths_pfx_mains hx
    exact (h w (Op.W_mem_mains hw) m hm).1 (hwx.trans hxm)
  · intro w hw x hx hwx
    obtain ⟨m, hm, hxm⟩ := Op.paths_pfx_mains hx
    exact (h m hm w (Op.W_mem_mains hw)).2 (hwx.trans hxm)
  · intro r hr c hc hrc
    obtain ⟨m, hm, hcm⟩ := Op.C_pfx_mains hc
    exact (h r (Op.R_mem_mains hr) m hm).1 (hrc.trans hcm)
  · intro r hr c hc hrc
    obtain ⟨m, hm, hcm⟩ := Op.C_pfx_mains hc
    exact (h m hm r (Op.R_mem_mains hr)).2 (hrc.trans hcm)
  · intro w hw x hx hxw
    exact (h w (Op.W_mem_mains hw) x (Op.owned_mem_mains hx)).2 hxw
  · intro w hw x hx hxw
    exact (h x (Op.owned_mem_mains hx) w (Op.W_mem_mains hw)).1 hxw

/-! ### success, result and effects as functions of the initial tree -/

/-- the operation's precondition (the one of the sequential specification) in the tree `T` -/
def succ (T : Tree) : Op → Prop
  | .mkdirAll p => FS.mkdirOk T p
  | .writeFile p _ => FS.writeOk T p
  | .remove p => FS.removeOk T p
  | .removeAll p => FS.removeAllOk T p
  | .copy s d => FS.copyOk .any T s d
  | _ => True

/-- the operation as seen from the root -/
def Op.aop (T : Tree) : Op → Option AOp
  | .mkdirAll p => some ⟨p, none⟩
  | .writeFile p v => some ⟨p, some (fun q => if q = [] then some (.file v) else none)⟩
  | .remove p => some ⟨p, some (fun _ => none)⟩
  | .removeAll p => some ⟨p, some (fun _ => none)⟩
  | .copy s d => some ⟨d, some (fun q => T (s ++ q))⟩
  | _ => none

open Classical in
/-- the micro effects of an operation: none when it fails (or only reads) -/
noncomputable def effOf (T : Tree) (op : Op) : List Eff1 :=
  if succ T op then (match op.aop T with | some a => a.effects | none => []) else []

/-- what `probe` answers -/
def probeVal (e : Option Entry) (want : Option Bool) : Bool :=
  match e with
  | none => false
  | some e => match want with | none => true | some w => w == e.isDir

/-- the result of an operation, as a function of the initial tree -/
def ResOK (T : Tree) : Op → Res → Prop
  | .readFile p, r => match T p with | some (.file d) => r = .data d | _ => r = .err
  | .readDir p, r => match T p with | some .dir => ∃ l, r = .list l ∧ FS.IsListing T p l | _ => r = .err
  | .probe p want, r => r = .bool (probeVal (T p) want)
  | op, r => (succ T op ∧ r = .ok) ∨ (¬ succ T op ∧ r = .err)

/-- the target of the micro effects: ensures happen on the way to it -/
def Op.target (op : Op) : Option Path :=
  match op.W with
  | some w => some w
  | none => op.C

theorem Op.target_mem_paths {op : Op} {t : Path} (h : op.target = some t) : t ∈ op.paths := by
  unfold Op.target at h
  simp only [Op.paths, List.mem_append, Option.mem_toList]
  cases hw : op.W with
  | some w => simp [hw] at h; subst h; exact Or.inl (Or.inl rfl)
  | none => simp [hw] at h; exact Or.inl (Or.inr h)

theorem aop_target {T : Tree} {op : Op} {a : AOp} (h : op.aop T = some a) : op.target = some a.target := by
  cases op <;> simp [Op.aop] at h <;> subst h <;> rfl

theorem aop_graft {T : Tree} {op : Op} {a : AOp} {sub : Tree} (h : op.aop T = some a) (hs : a.sub = some sub) :
    op.W = some a.target := by
  cases op <;> simp [Op.aop] at h <;> subst h <;> first | rfl | (simp at hs)

/-- where the micro effects of an operation are -/
theorem effOf_located {T : Tree} {op : Op} (hok : op.ok) {e : Eff1} (he : e ∈ effOf T op) :
    (∃ x t, e = .ensureDir x ∧ x ≠ [] ∧ op.target = some t ∧ x <+: t) ∨
    (∃ w sub, e = .graft w sub ∧ op.W = some w) := by
  unfold effOf at he
  split at he
  · cases ha : op.aop T with
    | none => simp [ha] at he
    | some a =>
      simp only [ha] at he
      have ht := aop_target ha
      have hne : a.target ≠ [] := by
        cases op <;> simp [Op.aop] at ha <;> subst ha <;> simp only [Op.ok] at hok <;>
          first | exact hok | exact hok.2.1
      simp only [AOp.effects, List.mem_append, List.mem_map, List.mem_singleton] at he
      rcases he with ⟨x, hx, rfl⟩ | he
      · left
        obtain ⟨h1, h2, _⟩ := mem_properPrefixes.1 hx
        exact ⟨x, a.target, rfl, h1, ht, h2⟩
      · cases hs : a.sub with
        | none =>
          rw [hs] at he
          left
          exact ⟨a.target, a.target, he, hne, ht, List.prefix_refl _⟩
        | some sub =>
          rw [hs] at he
          right
          exact ⟨a.target, sub, he, aop_graft ha hs⟩
  · simp at he

theorem effOf_within (T : Tree) (op : Op) : (effOf T op).Pairwise Indep := by
  unfold effOf
  split
  · cases op.aop T with
    | none => simp
    | some a => exact indep_within a
  · simp

theorem effOf_harmless {T : Tree} {i j : Op} (hok : j.ok) (hi : IndepOp i j) {x q : Path} (hx : x ∈ i.paths)
    (hq : q <+: x) : ∀ e ∈ effOf T j, e.harmless q := by
  intro e he
  rcases effOf_located hok he with ⟨y, t, rfl, _, _, _⟩ | ⟨w, sub, rfl, hw⟩
  · trivial
  · simp only [Eff1.harmless]
    intro hwq
    exact hi.2.1 w (by simp [hw]) x hx (hwq.trans hq)

theorem effOf_untouched {T : Tree} {i j : Op} (hok : j.ok) (hi : IndepOp i j) {x q : Path} (hx : x ∈ i.owned)
    (hq : x <+: q) : ∀ e ∈ effOf T j, e.untouched q := by
  have hxp : x ∈ i.paths := by
    simp only [Op.owned, List.mem_append, Option.mem_toList] at hx
    simp only [Op.paths, List.mem_append, Option.mem_toList]
    rcases hx with h | h
    · exact Or.inl (Or.inl h)
    · exact Or.inr h
  intro e he
  rcases effOf_located hok he with ⟨y, t, rfl, _, ht, hyt⟩ | ⟨w, sub, rfl, hw⟩
  · simp only [Eff1.untouched]
    intro hyq
    subst hyq
    -- x <+: y <+: t, t is the target of j
    have hxt : x <+: t := hq.trans hyt
    unfold Op.target at ht
    cases hjw : j.W with
    | some w =>
      simp [hjw] at ht; subst ht
      exact hi.2.2.2.2.2 w (by simp [hjw]) x hx hxt
    | none =>
      simp [hjw] at ht
      simp only [Op.owned, List.mem_append, Option.mem_toList] at hx
      rcases hx with h | h
      · exact hi.1 x h t (by simp [Op.paths, ht]) hxt
      · exact hi.2.2.1 x h t ht hxt
  · simp only [Eff1.untouched]
    intro hwq
    rcases pfx_comparable hwq hq with h | h
    · exact hi.2.1 w (by simp [hw]) x hxp h
    · exact hi.2.2.2.2.2 w (by simp [hw]) x hx h

theorem effOf_indep {T : Tree} {i j : Op} (hoi : i.ok) (hoj : j.ok) (hi : IndepOp i j) :
    ∀ e ∈ effOf T i, ∀ e' ∈ effOf T j, Indep e e' := by
  intro e he e' he'
  rcases effOf_located hoi he with ⟨y, t, rfl, _, ht, hyt⟩ | ⟨w, sub, rfl, hw⟩
  · rcases effOf_located hoj he' with ⟨y', t', rfl, _, _, _⟩ | ⟨w', sub', rfl, hw'⟩
    · trivial
    · simp only [Indep]
      rw [pfx_false_iff]
      intro h
      exact hi.2.1 w' (by simp [hw']) t (Op.target_mem_paths ht) (h.trans hyt)
  · rcases effOf_located hoj he' with ⟨y', t', rfl, _, ht', hyt'⟩ | ⟨w', sub', rfl, hw'⟩
    · simp only [Indep]
      rw [pfx_false_iff]
      intro h
      exact hi.1 w (by simp [hw]) t' (Op.target_mem_paths ht') (h.trans hyt')
    · simp only [Indep]
      rw [pfx_false_iff, pfx_false_iff]
      constructor
      · intro h; exact hi.1 w (by simp [hw]) w' (by simp [Op.paths, hw']) h
      · intro h; exact hi.2.1 w' (by simp [hw']) w (by simp [Op.paths, hw]) h

theorem effs_pairwise {T : Tree} {ops : List Op} (hok : ∀ op ∈ ops, op.ok) (hp : ops.Pairwise IndepOp) :
    (ops.flatMap (effOf T)).Pairwise Indep := by
  induction ops with
  | nil => simp
  | cons op rest ih =>
    rw [List.pairwise_cons] at hp
    simp only [List.flatMap_cons]
    rw [List.pairwise_append]
    refine ⟨effOf_within T op, ih (fun o ho => hok o (by simp [ho])) hp.2, ?_⟩
    intro a ha b hb
    simp only [List.mem_flatMap] at hb
    obtain ⟨op2, hop2, hb⟩ := hb
    exact effOf_indep (hok op (by simp)) (hok op2 (by simp [hop2])) (hp.1 op2 hop2) a ha b hb

/-! ### the tree after a list of decided operations -/

/-- the initial tree with the effects of the operations of `D` -/
noncomputable def SD (T : Tree) (D : List Op) : Tree := runEffs T (D.flatMap (effOf T))

theorem SD_snoc (T : Tree) (D : List Op) (op : Op) : SD T (D ++ [op]) = runEffs (SD T D) (effOf T op) := by
  simp [SD, List.flatMap_append, runEffs_append]

theorem SD_perm {T : Tree} {D D' : List Op} (hp : D.Perm D') (hok : ∀ op ∈ D, op.ok) (hi : D.Pairwise IndepOp) :
    SD T D = SD T D' :=
  runEffs_perm (hp.flatMap_right _) (effs_pairwise hok hi) T

/-- on the way to a path of an independent operation: entries stay, missing directories may appear -/
theorem SD_prefix {T : Tree} {D : List Op} {i : Op} (hok : ∀ j ∈ D, j.ok) (hi : ∀ j ∈ D, IndepOp i j)
    {x q : Path} (hx : x ∈ i.paths) (hq : q <+: x) :
    SD T D q = T q ∨ (T q = none ∧ SD T D q = some .dir) := by
  apply runEffs_harmless
  intro e he
  simp only [List.mem_flatMap] at he
  obtain ⟨j, hj, he⟩ := he
  exact effOf_harmless (hok j hj) (hi j hj) hx hq e he

/-- at and below a path an independent operation owns: nothing changed -/
theorem SD_below {T : Tree} {D : List Op} {i : Op} (hok : ∀ j ∈ D, j.ok) (hi : ∀ j ∈ D, IndepOp i j)
    {x q : Path} (hx : x ∈ i.owned) (hq : x <+: q) : SD T D q = T q := by
  apply runEffs_untouched
  intro e he
  simp only [List.mem_flatMap] at he
  obtain ⟨j, hj, he⟩ := he
  exact effOf_untouched (hok j hj) (hi j hj) hx hq e he

end Goat.MemFSConc
