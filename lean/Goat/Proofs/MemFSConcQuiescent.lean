/-
Helper lemmas for property C09, part 18: locks and quiescence.  A directory's writer lock (`Dir.Lock`, the
field `outer`) is held only by a thread that is inside a `WriteFile` / `Writer` critical section on that
directory; a thread between two operations, and a thread that has finished, holds none.  Hence a state in
which every thread has finished has every directory lock free, and - when the finished threads have
closed their stream handles (`NoLeak`) - no lock at all (`NoLocks`: the starting condition of
`distinct_paths_commute` / `distinct_paths_progress`).
-/
import Goat.Proofs.MemFSConcDeadlock
import Goat.Proofs.MemFSConcFinal

namespace Goat.MemFSConc

/-- a program counter inside a directory's outer critical section is not the one between two operations -/
theorem holdsOuter_ne_idle {pc : Pc} {d : Oid} (h : holdsOuter pc = some d) : pc ≠ .idle := by
  intro hi
  rw [hi] at h
  cases h

/-- a thread inside a directory's outer critical section has not finished -/
theorem holdsOuter_unfinished {s : State} {t : Tid} {th : Thread} {d : Oid}
    (hth : s.threads[t]? = some th) (hh : holdsOuter th.pc = some d) : unfinished s t = true := by
  unfold unfinished
  rw [hth]
  have hne := holdsOuter_ne_idle hh
  unfold Thread.finished
  cases hpc : th.pc <;> simp_all

/-- every directory lock of a state with the lock invariant is held by an unfinished thread that is
inside a critical section on that directory -/
theorem outer_holder {v : Variant} {s : State} (hi : LInv v s) {d : Oid} {dd : DirObj} {t : Tid}
    (hg : getDir s.heap d = some dd) (ho : dd.outer = some t) :
    ∃ th, s.threads[t]? = some th ∧ th.pc ≠ .idle ∧ holdsOuter th.pc = some d ∧ unfinished s t = true := by
  obtain ⟨th, hth, hh⟩ := hi.outer d dd t hg ho
  exact ⟨th, hth, holdsOuter_ne_idle hh, hh, holdsOuter_unfinished hth hh⟩

/-- all threads finished: every directory lock is free (and in the repaired `copyDir` nobody holds `mu`
across a wait); with `NoLeak` no file lock is held either -/
theorem quiescent_noLocks {v : Variant} {s : State} (hi : LInv v s) (hv : v.copyDirHoldsMu = false)
    (hq : ∀ t, unfinished s t = false) (hleak : NoLeak s) : NoLocks s.heap := by
  constructor
  · intro d dd hg
    refine ⟨?_, hi.mu hv d dd hg⟩
    cases ho : dd.outer with
    | none => rfl
    | some t =>
      obtain ⟨_, _, _, _, hu⟩ := outer_holder hi hg ho
      rw [hq t] at hu
      cases hu
  · intro f ff hg
    cases hl : ff.lock with
    | none => rfl
    | some t =>
      have hu := hleak f ff t hg hl
      rw [hq t] at hu
      cases hu

end Goat.MemFSConc
