/-
Helper lemmas for property C09, part 16: the SEQUENTIAL side.  Operations of the lock-granular model
as calls of the sequential model `Goat.MemFS.step` (`toFS`), and: running independent operations one
after the other in ANY order from a tree `t0` yields a tree whose abstract state is `SD (abs t0) ops`
(the initial tree with the micro effects of the operations), each call answering what `ResOK` prescribes.
The link is C01's refinement `step_refines` (model ⊑ `FS.Step`) and the point-wise post-states of the
specification.
-/
import Goat.Proofs.MemFSConcOps
import Goat.Proofs.MemFSStep

set_option linter.unusedSimpArgs false
set_option linter.unusedVariables false

namespace Goat.MemFSConc
open Goat.FS (Entry)
open Goat.Path (Reduced norm join)

/-- an operation of the concurrent model as a call of the sequential model (reduced segment lists travel
as `/`-joined byte strings) -/
def toFS : Op → FS.Op
  | .mkdirAll p => .mkdirAll (join p)
  | .writeFile p v => .writeFile (join p) v
  | .readFile p => .readFile (join p)
  | .readDir p => .readDir (join p)
  | .probe p none => .isExist (join p)
  | .probe p (some true) => .isDir (join p)
  | .probe p (some false) => .isFile (join p)
  | .remove p => .remove (join p)
  | .removeAll p => .removeAll (join p)
  | .copy s d => .copy (join s) (join d)
  | _ => .filespace []

def resFS : Res → FS.Result
  | .ok => .ok
  | .err => .err
  | .bool b => .bool b
  | .data v => .data v
  | .list l => .list l

/-- every path the operation names is a reduced path (real names without `/`) -/
def Op.reduced (op : Op) : Prop := ∀ p ∈ op.mains, Reduced p

/-- the sequential result `r` is a result `ResOK` allows -/
def ResOKfs (T : Tree) (op : Op) (r : FS.Result) : Prop := ∃ r', r = resFS r' ∧ ResOK T op r'

/-- what is known about the current abstract state `S` relative to the initial tree, seen from `i` -/
structure SeqFrame (T0 S : Tree) (i : Op) : Prop where
  wf : TreeWF T0
  root : S [] = some .dir
  pfx : ∀ x ∈ i.paths, ∀ q, q <+: x → S q = T0 q ∨ (T0 q = none ∧ S q = some .dir)
  below : ∀ x ∈ i.owned, ∀ q, x <+: q → S q = T0 q

variable {T0 S S' : Tree} {i : Op}

theorem SeqFrame.mkdirOk_iff (hf : SeqFrame T0 S i) {c : Path} (hc : c ∈ i.paths) : FS.mkdirOk S c ↔ FS.mkdirOk T0 c := by
  constructor
  · intro h q hq d hT
    rcases hf.pfx c hc q hq with h1 | ⟨h1, _⟩
    · exact h q hq d (by rw [h1, hT])
    · rw [hT] at h1; cases h1
  · intro h q hq d hS
    rcases hf.pfx c hc q hq with h1 | ⟨_, h1⟩
    · exact h q hq d (by rw [← h1, hS])
    · rw [hS] at h1; cases h1

/-- `mkdirSt` under its precondition, point by point -/
theorem mkdirSt_closed (hroot : S [] = some .dir) {c : Path} (hok : FS.mkdirOk S c) (q : Path) :
    FS.mkdirSt S c q = if q ≠ [] ∧ q <+: c ∧ S q = none then some .dir else S q := by
  unfold FS.mkdirSt
  by_cases hq : q <+: c
  · simp only [hq, if_true, true_and]
    cases hS : S q with
    | none =>
      have : q ≠ [] := by intro e; rw [e, hroot] at hS; cases hS
      simp [this]
    | some e =>
      cases e with
      | dir => simp
      | file d => exact absurd hS (hok q hq d)
  · simp [hq]

theorem effOf_succ_aop {T : Tree} {op : Op} {a : AOp} (hs : succ T op) (ha : op.aop T = some a) :
    effOf T op = a.effects := by
  unfold effOf; rw [if_pos hs, ha]

theorem effOf_fail {T : Tree} {op : Op} (hs : ¬ succ T op) : effOf T op = [] := by
  unfold effOf; rw [if_neg hs]

theorem runEffs_nil (S : Tree) : runEffs S [] = S := rfl

/-- a mutating call: result and post-state from the precondition in the initial tree -/
theorem mut_closed {op : Op} {pre : Prop} {post : Tree} {r : FS.Result}
    (hm : FS.Mut pre post S r S') (hiff : pre ↔ succ T0 op) (hres : ∀ r', ResOK T0 op r' ↔ ((succ T0 op ∧ r' = .ok) ∨ (¬ succ T0 op ∧ r' = .err)))
    (hpost : pre → succ T0 op → post = runEffs S (effOf T0 op)) :
    ResOKfs T0 op r ∧ S' = runEffs S (effOf T0 op) := by
  rcases hm with ⟨h1, h2, h3⟩ | ⟨h1, h2, h3⟩
  · have hs := hiff.1 h1
    exact ⟨⟨.ok, h2, (hres _).2 (Or.inl ⟨hs, rfl⟩)⟩, by rw [h3]; exact hpost h1 hs⟩
  · have hs : ¬ succ T0 op := fun h => h1 (hiff.2 h)
    exact ⟨⟨.err, h2, (hres _).2 (Or.inr ⟨hs, rfl⟩)⟩, by rw [h3, effOf_fail hs]; rfl⟩

theorem spec_mkdirAll {p : Path} (hf : SeqFrame T0 S (.mkdirAll p)) (hp : p ≠ []) {r : FS.Result}
    (hm : FS.Mut (FS.mkdirOk S p) (FS.mkdirSt S p) S r S') :
    ResOKfs T0 (.mkdirAll p) r ∧ S' = runEffs S (effOf T0 (.mkdirAll p)) := by
  have hc : p ∈ (Op.mkdirAll p).paths := by simp [Op.paths, Op.C]
  refine mut_closed hm (hf.mkdirOk_iff hc) (fun r' => Iff.rfl) ?_
  intro hpre hs
  rw [effOf_succ_aop hs rfl]
  funext q
  rw [runEffs_aop_mk S p hp q, mkdirSt_closed hf.root hpre q]

theorem pfx_of_not_below {q p : Path} (hq : q <+: p) (hnb : ¬ p <+: q) : q <+: p.dropLast :=
  pfx_dropLast_of_ne hq (by intro e; apply hnb; rw [e]; exact List.prefix_refl _)

theorem spec_writeFile {p : Path} {v : Data} (hf : SeqFrame T0 S (.writeFile p v)) (hp : p ≠ []) {r : FS.Result}
    (hm : FS.Mut (FS.writeOk S p) (FS.writeSt S p v) S r S') :
    ResOKfs T0 (.writeFile p v) r ∧ S' = runEffs S (effOf T0 (.writeFile p v)) := by
  have hc : p.dropLast ∈ (Op.writeFile p v).paths := by simp [Op.paths, Op.C]
  have hw : p ∈ (Op.writeFile p v).owned := by simp [Op.owned, Op.W]
  have hSp : S p = T0 p := hf.below p hw p (List.prefix_refl _)
  refine mut_closed hm ?_ (fun r' => Iff.rfl) ?_
  · unfold FS.writeOk succ
    rw [hf.mkdirOk_iff hc, hSp]
    exact Iff.rfl
  · intro hpre hs
    rw [effOf_succ_aop hs rfl]
    funext q
    rw [runEffs_aop_graft]
    unfold FS.writeSt
    by_cases hpq : p <+: q
    · simp only [hpq, if_true]
      obtain ⟨r, rfl⟩ := hpq
      simp only [List.drop_left']
      cases r with
      | nil => simp
      | cons m r' =>
        have hne : ¬ (p ++ m :: r' = p) := by intro e; have := congrArg List.length e; simp at this
        have hnp : ¬ (p ++ m :: r') <+: p.dropLast := by
          intro h; have := h.length_le; simp at this; omega
        simp only [hne, if_false, reduceCtorEq, FS.mkdirSt, hnp]
        rw [hf.below p hw _ (List.prefix_append _ _)]
        exact hf.wf.below hs.2.2 (by simp)
    · simp only [hpq, if_false]
      have hne : ¬ q = p := by intro e; apply hpq; rw [e]; exact List.prefix_refl _
      simp only [hne, if_false]
      rw [mkdirSt_closed hf.root hpre.2.1 q]
      by_cases hq : q <+: p
      · have hq' := pfx_of_not_below hq hpq
        simp [hq, hq']
      · have hq' : ¬ q <+: p.dropLast := fun h => hq (h.trans (dropLast_pfx _))
        simp [hq, hq']

/-- below a path that holds no directory nothing exists; below an empty directory neither -/
theorem below_removed (hw : TreeWF T0) {p : Path} (hok : FS.removeOk T0 p) {r : Path} (hr : r ≠ []) :
    T0 (p ++ r) = none := by
  rcases hok.2 with ⟨d, hd⟩ | ⟨_, hall⟩
  · exact hw.below (by rw [hd]; simp) hr
  · cases r with
    | nil => exact absurd rfl hr
    | cons m r' =>
      cases hx : T0 (p ++ m :: r') with
      | none => rfl
      | some e =>
        exfalso
        by_cases hr' : r' = []
        · subst hr'; rw [hall m] at hx; cases hx
        · have := hw.pfx (p := p ++ [m]) (q := r') (by simpa using (by rw [hx]; simp : T0 (p ++ m :: r') ≠ none)) hr'
          rw [hall m] at this; cases this

theorem spec_remove {p : Path} (hf : SeqFrame T0 S (.remove p)) (hp : p ≠ []) {r : FS.Result}
    (hm : FS.Mut (p ≠ [] ∧ FS.removeOk S p) (FS.removeSt S p) S r S') :
    ResOKfs T0 (.remove p) r ∧ S' = runEffs S (effOf T0 (.remove p)) := by
  have hw : p ∈ (Op.remove p).owned := by simp [Op.owned, Op.W]
  have hwp : p ∈ (Op.remove p).paths := by simp [Op.paths, Op.W]
  have hbelow : ∀ q, p <+: q → S q = T0 q := hf.below p hw
  have hiff : FS.removeOk S p ↔ FS.removeOk T0 p := by
    unfold FS.removeOk
    rw [hbelow p (List.prefix_refl _)]
    have : (∀ n, S (p ++ [n]) = none) ↔ (∀ n, T0 (p ++ [n]) = none) := by
      constructor <;> intro h n <;> have := h n <;> rw [hbelow _ (List.prefix_append _ _)] at * <;> exact this
    rw [this]
  refine mut_closed hm ⟨fun h => hiff.1 h.2, fun h => ⟨hp, hiff.2 h⟩⟩ (fun r' => Iff.rfl) ?_
  intro hpre hs
  rw [effOf_succ_aop hs rfl]
  funext q
  rw [runEffs_aop_graft]
  unfold FS.removeSt
  by_cases hpq : p <+: q
  · simp only [hpq, if_true]
    by_cases e : q = p
    · simp [e]
    · simp only [e, if_false]
      obtain ⟨r, rfl⟩ := hpq
      rw [hbelow _ (List.prefix_append _ _)]
      exact below_removed hf.wf hs (by intro e'; apply e; simp [e'])
  · simp only [hpq, if_false]
    have hne : ¬ q = p := by intro e; apply hpq; rw [e]; exact List.prefix_refl _
    simp only [hne, if_false]
    by_cases hq : q ≠ [] ∧ q <+: p ∧ S q = none
    · exfalso
      have hTp : T0 p ≠ none := by
        rcases hs.2 with ⟨d, hd⟩ | ⟨hd, _⟩ <;> rw [hd] <;> simp
      have hTq := hf.wf.pfx' hTp hq.2.1 hne
      rcases hf.pfx p hwp q hq.2.1 with h1 | ⟨h1, _⟩
      · rw [h1, hTq] at hq; cases hq.2.2
      · rw [hTq] at h1; cases h1
    · rw [if_neg hq]

theorem spec_removeAll {p : Path} (hf : SeqFrame T0 S (.removeAll p)) (hp : p ≠ []) {r : FS.Result}
    (hm : FS.Mut (p ≠ [] ∧ FS.removeAllOk S p) (FS.removeAllSt S p) S r S') :
    ResOKfs T0 (.removeAll p) r ∧ S' = runEffs S (effOf T0 (.removeAll p)) := by
  have hw : p ∈ (Op.removeAll p).owned := by simp [Op.owned, Op.W]
  have hwp : p ∈ (Op.removeAll p).paths := by simp [Op.paths, Op.W]
  have hiff : FS.removeAllOk S p ↔ FS.removeAllOk T0 p := by
    unfold FS.removeAllOk; rw [hf.below p hw p (List.prefix_refl _)]
  refine mut_closed hm ⟨fun h => hiff.1 h.2, fun h => ⟨hp, hiff.2 h⟩⟩ (fun r' => Iff.rfl) ?_
  intro hpre hs
  rw [effOf_succ_aop hs rfl]
  funext q
  rw [runEffs_aop_graft]
  unfold FS.removeAllSt
  by_cases hpq : p <+: q
  · simp [hpq]
  · simp only [hpq, if_false]
    have hne : ¬ q = p := by intro e; apply hpq; rw [e]; exact List.prefix_refl _
    by_cases hq : q ≠ [] ∧ q <+: p ∧ S q = none
    · exfalso
      have hTq := hf.wf.pfx' hs.2 hq.2.1 hne
      rcases hf.pfx p hwp q hq.2.1 with h1 | ⟨h1, _⟩
      · rw [h1, hTq] at hq; cases hq.2.2
      · rw [hTq] at h1; cases h1
    · rw [if_neg hq]

theorem spec_copy {s d : Path} (hf : SeqFrame T0 S (.copy s d)) (hok : (Op.copy s d).ok) {r : FS.Result}
    (hm : FS.Mut (FS.copyOk .any S s d) (FS.copySt S s d) S r S') :
    ResOKfs T0 (.copy s d) r ∧ S' = runEffs S (effOf T0 (.copy s d)) := by
  simp only [Op.ok] at hok
  obtain ⟨_, hd0, hsd, hds⟩ := hok
  have hc : d.dropLast ∈ (Op.copy s d).paths := by simp [Op.paths, Op.C]
  have hw : d ∈ (Op.copy s d).owned := by simp [Op.owned, Op.W]
  have hr : s ∈ (Op.copy s d).owned := by simp [Op.owned, Op.R]
  have hSd : S d = T0 d := hf.below d hw d (List.prefix_refl _)
  have hSs : S s = T0 s := hf.below s hr s (List.prefix_refl _)
  refine mut_closed hm ?_ (fun r' => Iff.rfl) ?_
  · unfold FS.copyOk succ FS.copyOk
    rw [hf.mkdirOk_iff hc, hSd, hSs]
  · intro hpre hs
    rw [effOf_succ_aop hs rfl]
    funext q
    rw [runEffs_aop_graft]
    unfold FS.copySt
    by_cases hdq : d <+: q
    · simp only [hdq, if_true]
      have hnp : ¬ (s ++ q.drop d.length) <+: d.dropLast := by
        intro h
        exact hsd ((List.prefix_append _ _).trans (h.trans (dropLast_pfx _)))
      simp only [FS.mkdirSt, hnp, if_false]
      exact hf.below s hr _ (List.prefix_append _ _)
    · simp only [hdq, if_false]
      rw [mkdirSt_closed hf.root hpre.2.2.1 q]
      by_cases hq : q <+: d
      · have hq' := pfx_of_not_below hq hdq
        simp [hq, hq']
      · have hq' : ¬ q <+: d.dropLast := fun h => hq (h.trans (dropLast_pfx _))
        simp [hq, hq']

/-! ### one call of the sequential specification -/

theorem spec_step (hf : SeqFrame T0 S i) (hok : i.ok) (hred : i.reduced) {r : FS.Result}
    (hst : FS.Step [] S (toFS i) r S') : ResOKfs T0 i r ∧ S' = runEffs S (effOf T0 i) := by
  cases i with
  | mkdirAll p =>
    have hn := Path.norm_join p (hred p (by simp [Op.mains]))
    simp only [toFS, FS.Step, hn, List.nil_append] at hst
    exact spec_mkdirAll hf hok hst
  | writeFile p v =>
    have hn := Path.norm_join p (hred p (by simp [Op.mains]))
    simp only [toFS, FS.Step, hn, List.nil_append] at hst
    exact spec_writeFile hf hok hst
  | remove p =>
    have hn := Path.norm_join p (hred p (by simp [Op.mains]))
    simp only [toFS, FS.Step, hn, List.nil_append] at hst
    exact spec_remove hf hok hst
  | removeAll p =>
    have hn := Path.norm_join p (hred p (by simp [Op.mains]))
    simp only [toFS, FS.Step, hn, List.nil_append] at hst
    exact spec_removeAll hf hok hst
  | copy s d =>
    have hn1 := Path.norm_join s (hred s (by simp [Op.mains]))
    have hn2 := Path.norm_join d (hred d (by simp [Op.mains]))
    simp only [toFS, FS.Step, hn1, hn2, List.nil_append] at hst
    exact spec_copy hf hok hst
  | readFile p =>
    have hn := Path.norm_join p (hred p (by simp [Op.mains]))
    simp only [toFS, FS.Step, hn, List.nil_append] at hst
    obtain ⟨rfl, hr⟩ := hst
    have hSp : S' p = T0 p := hf.below p (by simp [Op.owned, Op.R]) p (List.prefix_refl _)
    refine ⟨?_, by unfold effOf; simp [Op.aop, runEffs_nil]⟩
    rw [hSp] at hr
    cases hT : T0 p with
    | none => rw [hT] at hr; exact ⟨.err, hr, by simp [ResOK, hT]⟩
    | some e =>
      cases e with
      | dir => rw [hT] at hr; exact ⟨.err, hr, by simp [ResOK, hT]⟩
      | file dat => rw [hT] at hr; exact ⟨.data dat, hr, by simp [ResOK, hT]⟩
  | readDir p =>
    have hn := Path.norm_join p (hred p (by simp [Op.mains]))
    simp only [toFS, FS.Step, hn, List.nil_append] at hst
    obtain ⟨rfl, hr⟩ := hst
    have hb : ∀ q, p <+: q → S' q = T0 q := hf.below p (by simp [Op.owned, Op.R])
    refine ⟨?_, by unfold effOf; simp [Op.aop, runEffs_nil]⟩
    rw [hb p (List.prefix_refl _)] at hr
    cases hT : T0 p with
    | none => rw [hT] at hr; exact ⟨.err, hr, by simp [ResOK, hT]⟩
    | some e =>
      cases e with
      | file dat => rw [hT] at hr; exact ⟨.err, hr, by simp [ResOK, hT]⟩
      | dir =>
        rw [hT] at hr
        obtain ⟨l, rfl, hl⟩ := hr
        refine ⟨.list l, rfl, ?_⟩
        simp only [ResOK, hT]
        refine ⟨l, rfl, hl.1, ?_⟩
        intro n b
        rw [hl.2 n b, hb _ (List.prefix_append _ _)]
  | probe p want =>
    have hn := Path.norm_join p (hred p (by simp [Op.mains]))
    have hSp : S p = T0 p := hf.below p (by simp [Op.owned, Op.R]) p (List.prefix_refl _)
    refine ⟨?_, ?_⟩
    · cases want with
      | none =>
        simp only [toFS, FS.Step, hn, List.nil_append] at hst
        refine ⟨.bool (S p).isSome, hst.2, ?_⟩
        simp only [ResOK, hSp, probeVal]
        cases T0 p <;> rfl
      | some w =>
        cases w with
        | true =>
          simp only [toFS, FS.Step, hn, List.nil_append] at hst
          rw [hSp] at hst
          simp only [ResOKfs, ResOK, probeVal]
          cases hT : T0 p with
          | none => rw [hT] at hst; exact ⟨.bool false, by simpa [resFS] using hst.2, rfl⟩
          | some e =>
            cases e with
            | dir => rw [hT] at hst; exact ⟨.bool true, by simpa [resFS] using hst.2, rfl⟩
            | file dat => rw [hT] at hst; exact ⟨.bool false, by simpa [resFS] using hst.2, rfl⟩
        | false =>
          simp only [toFS, FS.Step, hn, List.nil_append] at hst
          rw [hSp] at hst
          simp only [ResOKfs, ResOK, probeVal]
          cases hT : T0 p with
          | none => rw [hT] at hst; exact ⟨.bool false, by simpa [resFS] using hst.2, rfl⟩
          | some e =>
            cases e with
            | dir => rw [hT] at hst; exact ⟨.bool false, by simpa [resFS] using hst.2, rfl⟩
            | file dat => rw [hT] at hst; exact ⟨.bool true, by simpa [resFS] using hst.2, rfl⟩
    · have : S' = S := by
        cases want with
        | none => simp only [toFS, FS.Step] at hst; exact hst.1
        | some w => cases w <;> simp only [toFS, FS.Step] at hst <;> exact hst.1
      rw [this]; unfold effOf; simp [Op.aop, runEffs_nil]
  | openW _ _ => exact absurd hok (by simp [Op.ok])
  | openR _ _ => exact absurd hok (by simp [Op.ok])
  | hwrite _ _ => exact absurd hok (by simp [Op.ok])
  | hread _ => exact absurd hok (by simp [Op.ok])
  | close _ => exact absurd hok (by simp [Op.ok])

/-! ### the sequential model on a list of operations -/

/-- run the operations one after the other on the sequential model -/
def seqRun (t : Node) : List Op → Node × List FS.Result
  | [] => (t, [])
  | op :: rest =>
    let x := MemFS.step .root t (toFS op)
    let y := seqRun x.1 rest
    (y.1, x.2 :: y.2)

theorem Op.W_ne_nil {op : Op} (hok : op.ok) {w : Path} (hw : op.W = some w) : w ≠ [] := by
  cases op <;> simp only [Op.W, Option.some.injEq, reduceCtorEq] at hw <;> subst hw <;> simp only [Op.ok] at hok
  · exact hok
  · exact hok
  · exact hok
  · exact hok.2.1

theorem SD_root {T : Tree} (hw : TreeWF T) {D : List Op} (hok : ∀ j ∈ D, j.ok) : SD T D [] = some .dir := by
  have : SD T D [] = T [] := by
    apply runEffs_untouched
    intro e he
    simp only [List.mem_flatMap] at he
    obtain ⟨j, hj, he⟩ := he
    rcases effOf_located (hok j hj) he with ⟨x, t, rfl, hx, _, _⟩ | ⟨w, sub, rfl, hw'⟩
    · exact hx
    · simp only [Eff1.untouched]
      intro h
      exact Op.W_ne_nil (hok j hj) hw' (List.prefix_nil.1 h)
  rw [this]; exact hw.1

theorem treeWF_abs (t : Node) (ht : MemFS.Inv t) : TreeWF (Goat.abs t) := by
  constructor
  · obtain ⟨k, rfl⟩ := ht.dir
    simp [MemAbs.abs_nil, Node.entry]
  · intro p n hne
    exact MemAbs.abs_parent_dir t p [n] (by simp) hne

/-- ANY ORDER.  From a well-formed tree `t0`, the sequential model run over a list `done ++ ops` of
pairwise independent operations: after `done` the abstract state is `SD`, and so it is after `ops`; every
call answers what `ResOK` prescribes in the INITIAL tree. -/
theorem seqRun_closed {T0 : Tree} (hwf : TreeWF T0) (ops : List Op) :
    ∀ (done : List Op) (t : Node), MemFS.Inv t → Goat.abs t = SD T0 done →
      (∀ j ∈ done ++ ops, j.ok ∧ j.reduced) → (done ++ ops).Pairwise IndepOp →
      MemFS.Inv (seqRun t ops).1 ∧ Goat.abs (seqRun t ops).1 = SD T0 (done ++ ops) ∧
      (seqRun t ops).2.length = ops.length ∧
      ∀ (k : Nat) op r, ops[k]? = some op → (seqRun t ops).2[k]? = some r → ResOKfs T0 op r := by
  induction ops with
  | nil =>
    intro done t ht ha _ _
    simp only [seqRun, List.append_nil]
    exact ⟨ht, ha, rfl, by intro k op r h; simp at h⟩
  | cons i rest ih =>
    intro done t ht ha hall hpw
    have hi := hall i (by simp)
    have hpw' : (done ++ [i] ++ rest).Pairwise IndepOp := by simpa [List.append_assoc] using hpw
    have hdone : (done ++ [i]).Pairwise IndepOp := (List.pairwise_append.1 hpw').1
    have hind : ∀ j ∈ done, IndepOp i j := by
      intro j hj
      exact ((List.pairwise_append.1 hdone).2.2 j hj i (by simp)).symm
    have hokd : ∀ j ∈ done, j.ok := fun j hj => (hall j (by simp [hj])).1
    have hframe : SeqFrame T0 (Goat.abs t) i := by
      rw [ha]
      exact ⟨hwf, SD_root hwf hokd, fun x hx q hq => SD_prefix hokd hind hx hq,
        fun x hx q hq => SD_below hokd hind hx hq⟩
    have href := MemFS.step_refines .root [] rfl t ht (toFS i)
    obtain ⟨hres, hS⟩ := spec_step hframe hi.1 hi.2 href.1
    have ht' : MemFS.Inv (MemFS.step .root t (toFS i)).1 :=
      href.2.1.inv ht (by intro s hs; exact MemFS.opSegs_plain _ s (by simpa using hs))
    have ha' : Goat.abs (MemFS.step .root t (toFS i)).1 = SD T0 (done ++ [i]) := by
      rw [hS, ha, SD_snoc]
    obtain ⟨h1, h2, h3, h4⟩ := ih (done ++ [i]) _ ht' ha'
      (by intro j hj; exact hall j (by simpa [List.append_assoc] using hj)) hpw'
    simp only [seqRun]
    refine ⟨h1, by rw [h2]; simp [List.append_assoc], by simp [h3], ?_⟩
    intro k op r hk hr
    cases k with
    | zero => simp at hk hr; subst hk; subst hr; exact hres
    | succ k' => simp at hk hr; exact h4 k' op r hk hr

end Goat.MemFSConc
