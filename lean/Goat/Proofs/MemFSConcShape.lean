/-
Helper lemmas for property C09, part 7: the SHAPE of the heap and the abstract tree it represents.

`edge h o n` is the parent→child relation of the heap (`index` of a directory object), `resolve` walks
it, `absT h` is the tree seen from the root (object 0): the abstract state `Path → Option Entry` of the
sequential specification.  `Shape` = every directory object is consistent, the root is a directory,
every child id is allocated and is not the root, and EVERY OBJECT HAS AT MOST ONE PARENT ENTRY.  From it:
`resolve_inj` (an object is reachable from the root along at most one path — the heap is a forest), and
the effect of the four kinds of heap change on `resolve` / `absT`:
  same edges (locks, reads, allocation of an unlinked object),  new leaf below a directory,
  removal of one entry,  new data in a file.
-/
import Goat.Proofs.MemFSConcHeap
import Goat.Proofs.MemFSConcCommute

set_option linter.unusedSimpArgs false
set_option linter.unusedVariables false

namespace Goat.MemFSConc

/-! ### edges, kinds, entries -/

/-- the child of directory object `o` named `n` -/
def edge (h : Heap) (o : Oid) (n : Name) : Option Oid :=
  match getDir h o with
  | some d => d.index n
  | none => none

/-- kind of an allocated object: `some true` directory, `some false` file -/
def okind (h : Heap) (o : Oid) : Option Bool :=
  match h[o]? with
  | some (.dir _) => some true
  | some (.file _) => some false
  | none => none

/-- what an object contributes to the abstract tree -/
def entryOf (h : Heap) (o : Oid) : Option Entry :=
  match h[o]? with
  | some (.dir _) => some .dir
  | some (.file f) => some (.file f.data)
  | none => none

/-- the abstract tree below an object -/
def absAt (h : Heap) (o : Oid) : Tree := fun q => (resolve h o q).bind (entryOf h)

/-- the abstract tree of the filespace: what stands at each path from the root object -/
def absT (h : Heap) : Tree := absAt h 0

theorem resolve_nil (h : Heap) (o : Oid) : resolve h o [] = some o := by
  unfold resolve; rfl

theorem resolve_cons (h : Heap) (o : Oid) (n : Name) (rest : Path) :
    resolve h o (n :: rest) = (edge h o n).bind fun c => resolve h c rest := by
  rw [resolve]
  unfold edge
  cases getDir h o with
  | none => rfl
  | some d =>
    show (match d.index n with | none => none | some c => resolve h c rest) = (d.index n).bind _
    cases d.index n <;> rfl

theorem resolve_append (h : Heap) (o : Oid) (p q : Path) :
    resolve h o (p ++ q) = (resolve h o p).bind fun a => resolve h a q := by
  induction p generalizing o with
  | nil => simp [resolve_nil]
  | cons n rest ih =>
    simp only [List.cons_append, resolve_cons]
    cases edge h o n with
    | none => rfl
    | some c => simp [ih]

theorem resolve_snoc (h : Heap) (o : Oid) (p : Path) (n : Name) :
    resolve h o (p ++ [n]) = (resolve h o p).bind fun a => edge h a n := by
  rw [resolve_append]
  cases resolve h o p with
  | none => rfl
  | some a =>
    simp only [Option.bind_some, resolve_cons]
    cases edge h a n <;> simp [resolve_nil]

theorem edge_some_dir {h : Heap} {a : Oid} {n : Name} {c : Oid} (he : edge h a n = some c) :
    ∃ d, getDir h a = some d ∧ d.index n = some c := by
  unfold edge at he
  cases hd : getDir h a with
  | none => simp [hd] at he
  | some d => simp [hd] at he; exact ⟨d, rfl, he⟩

theorem okind_of_getDir {h : Heap} {a : Oid} {d : DirObj} (hd : getDir h a = some d) : okind h a = some true := by
  unfold getDir at hd; unfold okind
  split at hd <;> simp_all

theorem okind_of_getFile {h : Heap} {a : Oid} {f : FileObj} (hd : getFile h a = some f) : okind h a = some false := by
  unfold getFile at hd; unfold okind
  split at hd <;> simp_all

theorem getDir_of_okind {h : Heap} {a : Oid} (hk : okind h a = some true) : ∃ d, getDir h a = some d := by
  unfold okind at hk; unfold getDir
  split at hk <;> simp_all

theorem getFile_of_okind {h : Heap} {a : Oid} (hk : okind h a = some false) : ∃ f, getFile h a = some f := by
  unfold okind at hk; unfold getFile
  split at hk <;> simp_all

theorem entryOf_of_getDir {h : Heap} {a : Oid} {d : DirObj} (hd : getDir h a = some d) : entryOf h a = some .dir := by
  unfold getDir at hd; unfold entryOf
  split at hd <;> simp_all

theorem entryOf_of_getFile {h : Heap} {a : Oid} {f : FileObj} (hd : getFile h a = some f) :
    entryOf h a = some (.file f.data) := by
  unfold getFile at hd; unfold entryOf
  split at hd <;> simp_all

theorem kindOf_eq_okind (h : Heap) (o : Oid) : kindOf h o = (okind h o == some true) := by
  unfold kindOf okind
  cases h[o]? with
  | none => rfl
  | some x => cases x <;> rfl

theorem entryOf_dir_iff {h : Heap} {a : Oid} : entryOf h a = some .dir ↔ okind h a = some true := by
  unfold entryOf okind
  split <;> simp_all

theorem entryOf_none_iff {h : Heap} {a : Oid} : entryOf h a = none ↔ okind h a = none := by
  unfold entryOf okind
  split <;> simp_all

theorem okind_lt {h : Heap} {a : Oid} {b : Bool} (hk : okind h a = some b) : a < h.length := by
  unfold okind at hk
  cases hx : h[a]? with
  | none => simp [hx] at hk
  | some x => exact (List.getElem?_eq_some_iff.1 hx).1

theorem edge_file_none {h : Heap} {a : Oid} (hk : okind h a ≠ some true) (n : Name) : edge h a n = none := by
  cases he : edge h a n with
  | none => rfl
  | some c =>
    obtain ⟨d, hd, _⟩ := edge_some_dir he
    exact absurd (okind_of_getDir hd) hk

/-- a walk of at least one step starts at a directory -/
theorem resolve_cons_some {h : Heap} {o : Oid} {n : Name} {rest : Path} {x : Oid}
    (hr : resolve h o (n :: rest) = some x) : okind h o = some true ∧ ∃ c, edge h o n = some c ∧ resolve h c rest = some x := by
  rw [resolve_cons] at hr
  cases he : edge h o n with
  | none => simp [he] at hr
  | some c =>
    simp [he] at hr
    obtain ⟨d, hd, _⟩ := edge_some_dir he
    exact ⟨okind_of_getDir hd, c, rfl, hr⟩

/-- every proper prefix of a resolvable path is a directory -/
theorem resolve_prefix_dir {h : Heap} {o : Oid} {p : Path} {n : Name} {q : Path} {x : Oid}
    (hr : resolve h o (p ++ n :: q) = some x) : ∃ a, resolve h o p = some a ∧ okind h a = some true := by
  rw [resolve_append] at hr
  cases hp : resolve h o p with
  | none => simp [hp] at hr
  | some a =>
    simp [hp] at hr
    exact ⟨a, rfl, (resolve_cons_some hr).1⟩

/-! ### the shape invariant -/

structure Shape (h : Heap) : Prop where
  inv : HeapInv h
  root : okind h 0 = some true
  closed : ∀ a n c, edge h a n = some c → c < h.length ∧ c ≠ 0
  up : ∀ a n a' n' c, edge h a n = some c → edge h a' n' = some c → a = a' ∧ n = n'

theorem Shape.length_pos {h : Heap} (hs : Shape h) : 0 < h.length := okind_lt hs.root

theorem resolve_lt {h : Heap} (hs : Shape h) {o : Oid} (ho : o < h.length) {p : Path} {x : Oid}
    (hr : resolve h o p = some x) : x < h.length := by
  induction p generalizing o with
  | nil => rw [resolve_nil] at hr; cases hr; exact ho
  | cons n rest ih =>
    obtain ⟨_, c, he, hc⟩ := resolve_cons_some hr
    exact ih (hs.closed _ _ _ he).1 hc

/-- THE HEAP IS A FOREST: from the root an object is reachable along at most one path. -/
theorem resolve_inj {h : Heap} (hs : Shape h) : ∀ (p q : Path) (x : Oid),
    resolve h 0 p = some x → resolve h 0 q = some x → p = q := by
  intro p
  induction hn : p.length generalizing p with
  | zero =>
    intro q x hp hq
    have : p = [] := List.eq_nil_of_length_eq_zero hn
    subst this
    rw [resolve_nil] at hp; cases hp
    rcases List.eq_nil_or_concat q with rfl | ⟨q', m, hqq⟩
    · rfl
    · rw [List.concat_eq_append] at hqq; subst hqq
      rw [resolve_snoc] at hq
      cases hq' : resolve h 0 q' with
      | none => simp [hq'] at hq
      | some a => simp [hq'] at hq; exact absurd rfl (hs.closed _ _ _ hq).2
  | succ k ih =>
    intro q x hp hq
    rcases List.eq_nil_or_concat p with rfl | ⟨p', n, hpp⟩
    · simp at hn
    · rw [List.concat_eq_append] at hpp; subst hpp
      rw [resolve_snoc] at hp
      cases hp' : resolve h 0 p' with
      | none => simp [hp'] at hp
      | some a =>
        simp [hp'] at hp
        rcases List.eq_nil_or_concat q with rfl | ⟨q', m, hqq⟩
        · rw [resolve_nil] at hq; cases hq
          exact absurd rfl (hs.closed _ _ _ hp).2
        · rw [List.concat_eq_append] at hqq; subst hqq
          rw [resolve_snoc] at hq
          cases hq' : resolve h 0 q' with
          | none => simp [hq'] at hq
          | some b =>
            simp [hq'] at hq
            obtain ⟨hab, hnm⟩ := hs.up _ _ _ _ _ hp hq
            subst hab; subst hnm
            have hlen : p'.length = k := by simp at hn; exact hn
            rw [ih p' hlen q' a hp' hq']

/-- the abstract tree is prefix closed: what has a child is a directory -/
theorem absT_parent {h : Heap} {p : Path} {n : Name} (hne : absT h (p ++ [n]) ≠ none) : absT h p = some .dir := by
  unfold absT absAt at hne ⊢
  rw [resolve_snoc] at hne
  cases hp : resolve h 0 p with
  | none => simp [hp] at hne
  | some a =>
    simp only [hp, Option.bind_some] at hne ⊢
    cases he : edge h a n with
    | none => simp [he] at hne
    | some c =>
      obtain ⟨d, hd, _⟩ := edge_some_dir he
      exact entryOf_of_getDir hd

theorem absT_prefix {h : Heap} {p q : Path} (hne : absT h (p ++ q) ≠ none) (hq : q ≠ []) : absT h p = some .dir := by
  induction q generalizing p with
  | nil => exact absurd rfl hq
  | cons n q' ih =>
    by_cases hq' : q' = []
    · subst hq'; exact absT_parent hne
    · have h1 : absT h ((p ++ [n]) ++ q') ≠ none := by simpa using hne
      have h2 := ih h1 hq'
      exact absT_parent (by rw [h2]; simp)

theorem absT_root {h : Heap} (hs : Shape h) : absT h [] = some .dir := by
  unfold absT absAt
  rw [resolve_nil]
  exact entryOf_dir_iff.2 hs.root

theorem absT_of_resolve {h : Heap} {p : Path} {x : Oid} (hr : resolve h 0 p = some x) : absT h p = entryOf h x := by
  unfold absT absAt; rw [hr]; rfl

theorem absT_none_of_resolve {h : Heap} {p : Path} (hr : resolve h 0 p = none) : absT h p = none := by
  unfold absT absAt; rw [hr]; rfl

theorem absT_some_resolve {h : Heap} {p : Path} {e : Entry} (ha : absT h p = some e) :
    ∃ x, resolve h 0 p = some x ∧ entryOf h x = some e := by
  unfold absT absAt at ha
  cases hr : resolve h 0 p with
  | none => simp [hr] at ha
  | some x => simp [hr] at ha; exact ⟨x, rfl, ha⟩

/-! ### relations between two heaps -/

/-- same parent→child relation -/
def EdgeEq (h h' : Heap) : Prop := ∀ a n, edge h' a n = edge h a n

/-- allocated objects keep their kind and their entry unless it is the file `f` -/
def EntKept (h h' : Heap) (f : Option Oid) : Prop :=
  ∀ o, o < h.length → okind h' o = okind h o ∧ (some o ≠ f → entryOf h' o = entryOf h o)

theorem resolve_edgeEq {h h' : Heap} (he : EdgeEq h h') (o : Oid) (p : Path) : resolve h' o p = resolve h o p := by
  induction p generalizing o with
  | nil => simp [resolve_nil]
  | cons n rest ih =>
    rw [resolve_cons, resolve_cons, he]
    cases edge h o n with
    | none => rfl
    | some c => simp [ih]

theorem absT_edgeEq {h h' : Heap} (hs : Shape h) (he : EdgeEq h h') (hk : EntKept h h' none) : absT h' = absT h := by
  funext q
  unfold absT absAt
  rw [resolve_edgeEq he]
  cases hr : resolve h 0 q with
  | none => rfl
  | some x =>
    simp only [Option.bind_some]
    exact ((hk x (resolve_lt hs hs.length_pos hr)).2 (by simp))

/-- new data in the file at `p` -/
theorem absT_data {h h' : Heap} (hs : Shape h) (he : EdgeEq h h') {f : Oid} (hk : EntKept h h' (some f))
    {p : Path} (hp : resolve h 0 p = some f) {v : Data} (hv : entryOf h' f = some (.file v))
    (hf : okind h f = some false) :
    absT h' = (Eff1.graft p (fun q => if q = [] then some (.file v) else none)).apply (absT h) := by
  funext q
  simp only [Eff1.apply]
  by_cases hpq : p.isPrefixOf q = true
  · simp only [hpq, if_true]
    obtain ⟨r, rfl⟩ := List.isPrefixOf_iff_prefix.1 hpq
    simp only [List.drop_left']
    unfold absT absAt
    rw [resolve_edgeEq he, resolve_append, hp]
    cases r with
    | nil => simp [resolve_nil, hv]
    | cons n r' =>
      simp only [Option.bind_some, resolve_cons, reduceCtorEq, if_false]
      rw [edge_file_none (by rw [hf]; simp)]
      rfl
  · simp only [hpq, Bool.false_eq_true, if_false]
    unfold absT absAt
    rw [resolve_edgeEq he]
    cases hr : resolve h 0 q with
    | none => rfl
    | some x =>
      simp only [Option.bind_some]
      refine (hk x (resolve_lt hs hs.length_pos hr)).2 ?_
      intro hx
      cases hx
      have := resolve_inj hs _ _ _ hr hp
      subst this
      exact hpq (isPrefixOf_self _)

/-! ### a new leaf -/

/-- `h'` is `h` with one more edge `od —n→ N` to a fresh object `N` without children -/
structure AddLeaf (h h' : Heap) (od : Oid) (n : Name) (N : Oid) : Prop where
  edges : ∀ a m, edge h' a m = if a = od ∧ m = n then some N else edge h a m
  absent : edge h od n = none
  fresh_in : ∀ a m, edge h a m ≠ some N
  fresh_out : ∀ m, edge h N m = none
  ne : N ≠ od

theorem AddLeaf.mono {h h' : Heap} {od : Oid} {n : Name} {N : Oid} (ha : AddLeaf h h' od n N)
    {a : Oid} {q : Path} {x : Oid} (hr : resolve h a q = some x) : resolve h' a q = some x := by
  induction q generalizing a with
  | nil => rw [resolve_nil] at hr ⊢; exact hr
  | cons m rest ih =>
    obtain ⟨_, c, he, hc⟩ := resolve_cons_some hr
    rw [resolve_cons, ha.edges]
    have : ¬ (a = od ∧ m = n) := by
      rintro ⟨rfl, rfl⟩
      rw [ha.absent] at he; cases he
    simp only [this, if_false, he, Option.bind_some]
    exact ih hc

theorem AddLeaf.new {h h' : Heap} {od : Oid} {n : Name} {N : Oid} (ha : AddLeaf h h' od n N)
    {a : Oid} {p : Path} (hr : resolve h a p = some od) : resolve h' a (p ++ [n]) = some N := by
  rw [resolve_snoc, ha.mono hr]
  simp [ha.edges]

theorem AddLeaf.inv {h h' : Heap} {od : Oid} {n : Name} {N : Oid} (ha : AddLeaf h h' od n N)
    {a : Oid} (hne : a ≠ N) {q : Path} {x : Oid} (hr : resolve h' a q = some x) :
    resolve h a q = some x ∨ (x = N ∧ ∃ p, q = p ++ [n] ∧ resolve h a p = some od) := by
  induction q generalizing a with
  | nil => left; rw [resolve_nil] at hr ⊢; exact hr
  | cons m rest ih =>
    obtain ⟨_, c, he, hc⟩ := resolve_cons_some hr
    rw [ha.edges] at he
    by_cases hx : a = od ∧ m = n
    · obtain ⟨rfl, rfl⟩ := hx
      simp only [and_self, if_true, Option.some.injEq] at he
      subst he
      right
      cases rest with
      | nil =>
        rw [resolve_nil] at hc; cases hc
        exact ⟨rfl, [], rfl, resolve_nil _ _⟩
      | cons m' rest' =>
        exfalso
        obtain ⟨_, c', he', _⟩ := resolve_cons_some hc
        rw [ha.edges] at he'
        have : ¬ (N = a ∧ m' = m) := fun hh => ha.ne hh.1
        simp only [this, if_false] at he'
        rw [ha.fresh_out] at he'; cases he'
    · simp only [hx, if_false] at he
      have hcN : c ≠ N := fun hh => ha.fresh_in a m (hh ▸ he)
      rcases ih hcN hc with h1 | ⟨h1, p, h2, h3⟩
      · left; rw [resolve_cons, he]; exact h1
      · right
        refine ⟨h1, m :: p, by rw [h2]; rfl, ?_⟩
        rw [resolve_cons, he]; exact h3

/-- the abstract tree after a new leaf `N` below the directory at `p` -/
theorem absT_addLeaf {h h' : Heap} {od : Oid} {n : Name} {N : Oid} (hs : Shape h) (ha : AddLeaf h h' od n N)
    (hk : EntKept h h' none) (hN : N ≠ 0) {p : Path} (hp : resolve h 0 p = some od) (q : Path) :
    absT h' q = if q = p ++ [n] then entryOf h' N else absT h q := by
  by_cases hq : q = p ++ [n]
  · subst hq
    simp only [if_true]
    exact absT_of_resolve (ha.new hp)
  · simp only [hq, if_false]
    cases hr : resolve h 0 q with
    | some x =>
      rw [absT_of_resolve hr, absT_of_resolve (ha.mono hr)]
      exact (hk x (resolve_lt hs hs.length_pos hr)).2 (by simp)
    | none =>
      rw [absT_none_of_resolve hr]
      cases hr' : resolve h' 0 q with
      | none => exact absT_none_of_resolve hr'
      | some x =>
        rcases ha.inv (fun e => hN e.symm) hr' with h1 | ⟨_, p', h2, h3⟩
        · rw [hr] at h1; cases h1
        · have := resolve_inj hs _ _ _ h3 hp
          subst this
          exact absurd h2 hq

/-- nothing existed below an absent path -/
theorem absT_below_none {h : Heap} {p : Path} (hp : absT h p = none) (r : Path) : absT h (p ++ r) = none := by
  cases r with
  | nil => simpa using hp
  | cons m r' =>
    cases hx : absT h (p ++ m :: r') with
    | none => rfl
    | some e =>
      have := absT_prefix (p := p) (q := m :: r') (by rw [hx]; simp) (by simp)
      rw [hp] at this; cases this

theorem absT_addLeaf_dir {h h' : Heap} {od : Oid} {n : Name} {N : Oid} (hs : Shape h) (ha : AddLeaf h h' od n N)
    (hk : EntKept h h' none) (hN : N ≠ 0) {p : Path} (hp : resolve h 0 p = some od)
    (hd : entryOf h' N = some .dir) :
    absT h' = (Eff1.ensureDir (p ++ [n])).apply (absT h) := by
  funext q
  rw [absT_addLeaf hs ha hk hN hp q]
  simp only [Eff1.apply]
  have hnone : absT h (p ++ [n]) = none := by
    unfold absT absAt; rw [resolve_snoc, hp]; simp [ha.absent]
  by_cases hq : q = p ++ [n]
  · subst hq; simp [hnone, hd]
  · simp [hq]

theorem absT_addLeaf_file {h h' : Heap} {od : Oid} {n : Name} {N : Oid} (hs : Shape h) (ha : AddLeaf h h' od n N)
    (hk : EntKept h h' none) (hN : N ≠ 0) {p : Path} (hp : resolve h 0 p = some od)
    {v : Data} (hd : entryOf h' N = some (.file v)) :
    absT h' = (Eff1.graft (p ++ [n]) (fun q => if q = [] then some (.file v) else none)).apply (absT h) := by
  funext q
  rw [absT_addLeaf hs ha hk hN hp q]
  simp only [Eff1.apply]
  have hnone : absT h (p ++ [n]) = none := by
    unfold absT absAt; rw [resolve_snoc, hp]; simp [ha.absent]
  by_cases hpq : (p ++ [n]).isPrefixOf q = true
  · simp only [hpq, if_true]
    obtain ⟨r, rfl⟩ := List.isPrefixOf_iff_prefix.1 hpq
    simp only [List.drop_left']
    cases r with
    | nil => simp [hd]
    | cons m r' =>
      have : ¬ (p ++ [n] ++ m :: r' = p ++ [n]) := by
        intro e
        have := congrArg List.length e
        simp at this
      simp only [this, if_false, reduceCtorEq]
      exact absT_below_none hnone _
  · simp only [hpq, Bool.false_eq_true, if_false]
    have : ¬ q = p ++ [n] := fun e => hpq (e ▸ isPrefixOf_self _)
    simp [this]

/-! ### removal of one entry -/

structure RemEdge (h h' : Heap) (od : Oid) (n : Name) : Prop where
  edges : ∀ a m, edge h' a m = if a = od ∧ m = n then none else edge h a m

theorem RemEdge.sub {h h' : Heap} {od : Oid} {n : Name} (hr : RemEdge h h' od n)
    {a : Oid} {q : Path} {x : Oid} (hx : resolve h' a q = some x) : resolve h a q = some x := by
  induction q generalizing a with
  | nil => rw [resolve_nil] at hx ⊢; exact hx
  | cons m rest ih =>
    obtain ⟨_, c, he, hc⟩ := resolve_cons_some hx
    rw [hr.edges] at he
    split at he
    · cases he
    · rw [resolve_cons, he]; exact ih hc

/-- the abstract tree after the entry `n` of the directory at `p` was removed -/
theorem absT_remEdge {h h' : Heap} {od : Oid} {n : Name} (hs : Shape h) (hr : RemEdge h h' od n)
    (hk : EntKept h h' none) {p : Path} (hp : resolve h 0 p = some od) :
    absT h' = (Eff1.graft (p ++ [n]) (fun _ => none)).apply (absT h) := by
  funext q
  simp only [Eff1.apply]
  by_cases hpq : (p ++ [n]).isPrefixOf q = true
  · simp only [hpq, if_true]
    obtain ⟨r, rfl⟩ := List.isPrefixOf_iff_prefix.1 hpq
    cases hx : resolve h' 0 (p ++ [n] ++ r) with
    | none => exact absT_none_of_resolve hx
    | some x =>
      exfalso
      rw [List.append_assoc, resolve_append] at hx
      cases hp' : resolve h' 0 p with
      | none => simp [hp'] at hx
      | some a =>
        have := hr.sub hp'
        rw [hp] at this; cases this
        simp only [hp', Option.bind_some, List.singleton_append, resolve_cons, hr.edges, and_self, if_true,
          Option.bind_none, reduceCtorEq] at hx
  · simp only [hpq, Bool.false_eq_true, if_false]
    -- the walk along q never uses the removed entry
    have key : ∀ (r1 r2 : Path) (a : Oid), q = r1 ++ r2 → resolve h 0 r1 = some a →
        resolve h' a r2 = resolve h a r2 := by
      intro r1 r2
      induction r2 generalizing r1 with
      | nil => intro a _ _; simp [resolve_nil]
      | cons m rest ih =>
        intro a hq ha
        rw [resolve_cons, resolve_cons, hr.edges]
        by_cases hx : a = od ∧ m = n
        · exfalso
          obtain ⟨rfl, rfl⟩ := hx
          have := resolve_inj hs _ _ _ ha hp
          subst this
          apply hpq
          rw [hq, List.isPrefixOf_iff_prefix]
          exact ⟨rest, by simp⟩
        · simp only [hx, if_false]
          cases he : edge h a m with
          | none => rfl
          | some c =>
            simp only [Option.bind_some]
            refine ih (r1 ++ [m]) c (by rw [hq]; simp) ?_
            rw [resolve_snoc, ha]; simpa using he
    have hres : resolve h' 0 q = resolve h 0 q := key [] q 0 rfl (resolve_nil _ _)
    unfold absT absAt
    rw [hres]
    cases hx : resolve h 0 q with
    | none => rfl
    | some x =>
      simp only [Option.bind_some]
      exact (hk x (resolve_lt hs hs.length_pos hx)).2 (by simp)

/-- paths that do not pass through the removed entry keep their object -/
theorem RemEdge.keep {h h' : Heap} {od : Oid} {n : Name} (hs : Shape h) (hr : RemEdge h h' od n)
    {p : Path} (hp : resolve h 0 p = some od) {q : Path} {x : Oid} (hq : resolve h 0 q = some x)
    (hpq : (p ++ [n]).isPrefixOf q = false) : resolve h' 0 q = some x := by
  have key : ∀ (r2 r1 : Path) (a : Oid), q = r1 ++ r2 → resolve h 0 r1 = some a →
      resolve h' a r2 = resolve h a r2 := by
    intro r2
    induction r2 with
    | nil => intro r1 a _ _; simp [resolve_nil]
    | cons m rest ih =>
      intro r1 a hq' ha
      rw [resolve_cons, resolve_cons, hr.edges]
      by_cases hx : a = od ∧ m = n
      · exfalso
        obtain ⟨rfl, rfl⟩ := hx
        have := resolve_inj hs _ _ _ ha hp
        subst this
        have : (r1 ++ [m]).isPrefixOf q = true := by
          rw [hq', List.isPrefixOf_iff_prefix]
          exact ⟨rest, by simp⟩
        rw [hpq] at this; cases this
      · simp only [hx, if_false]
        cases he : edge h a m with
        | none => rfl
        | some c =>
          simp only [Option.bind_some]
          refine ih (r1 ++ [m]) c (by rw [hq']; simp) ?_
          rw [resolve_snoc, ha]; simpa using he
  rw [key q [] 0 rfl (resolve_nil _ _)]
  exact hq

end Goat.MemFSConc
