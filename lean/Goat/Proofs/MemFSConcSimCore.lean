/-
Helper lemmas for property C09, part 11: the generic part of one step of the simulation.

`sim_act_mk` rebuilds `Sim` after a critical section of thread `τ` from: the new heap is a forest, kinds
are kept, the objects on the way to the paths of every INDEPENDENT operation are kept, the new program
counter of `τ` satisfies `PcInv`, and the abstract tree is related to the decided effects (`AbsRel`).
The class lemmas `absRel_*_step` give the last premise for the six kinds of step: nothing changes and
the operation stays undecided / is decided without effects / `MkdirAll` is decided; a directory is made
on the way; the subtree at the target is replaced.
-/
import Goat.Proofs.MemFSConcSimDefs

set_option linter.unusedSimpArgs false
set_option linter.unusedVariables false

namespace Goat.MemFSConc
open Goat.FS (Entry)

/-! ### the paths a program counter refers to are prefixes of paths of the operation -/

theorem mem_paths_W {op : Op} {w : Path} (h : op.W = some w) : w ∈ op.paths := by
  simp [Op.paths, h]

theorem mem_paths_C {op : Op} {w : Path} (h : op.C = some w) : w ∈ op.paths := by
  simp [Op.paths, h]

theorem mem_paths_R {op : Op} {w : Path} (h : op.R = some w) : w ∈ op.paths := by
  simp [Op.paths, h]

theorem mkOK_C {h : Heap} {op : Op} {path : Path} {k : MK} (hm : MkOK h op path k) : op.C = some path := by
  cases k <;> simp only [MkOK] at hm
  · subst hm; rfl
  · subst hm; simp [Op.C]
  · obtain ⟨s, rfl, _, _⟩ := hm; simp [Op.C]

theorem walkOK_path {op : Op} {path : Path} {k : WK} (h : WalkOK op path k) : ∃ x ∈ op.paths, path <+: x := by
  cases k with
  | probe want => simp only [WalkOK] at h; subst h; exact ⟨path, mem_paths_R rfl, List.prefix_refl _⟩
  | readFile => simp only [WalkOK] at h; subst h; exact ⟨path, mem_paths_R rfl, List.prefix_refl _⟩
  | readDir => simp only [WalkOK] at h; subst h; exact ⟨path, mem_paths_R rfl, List.prefix_refl _⟩
  | openR _ => exact absurd h (by simp [WalkOK])
  | rmParent n eo =>
    cases eo <;> simp only [WalkOK] at h <;> subst h <;>
      exact ⟨path ++ [n], mem_paths_W rfl, List.prefix_append _ _⟩
  | copySrc _ _ => simp only [WalkOK] at h; subst h; exact ⟨path, mem_paths_R rfl, List.prefix_refl _⟩

/-- a path the operation relies on: on the way to one of its paths, or at or below a path it owns -/
def Op.rel (j : Op) (π : Path) : Prop := (∃ x ∈ j.paths, π <+: x) ∨ (∃ x ∈ j.owned, x <+: π)

/-- what a critical section does NOT do: objects keep their kind; objects that are not reachable from
the root keep their entries and their content; no allocated object without a parent entry gets one,
except those in `L` (the private trees the acting thread links) -/
structure StepFrame (h h' : Heap) (L : List Oid) : Prop where
  len : h.length ≤ h'.length
  kind : ∀ o, o < h.length → okind h' o = okind h o
  unr : ∀ a, a < h.length → (∀ π, resolve h 0 π ≠ some a) →
    (∀ m, edge h' a m = edge h a m) ∧ entryOf h' a = entryOf h a
  link : ∀ c, c < h.length → (∀ a m, edge h a m ≠ some c) → c ∉ L → ∀ a m, edge h' a m ≠ some c

theorem StepFrame.refl (h : Heap) : StepFrame h h [] :=
  ⟨Nat.le_refl _, fun _ _ => rfl, fun _ _ _ => ⟨fun _ => rfl, rfl⟩, fun _ _ hc _ => hc⟩

theorem StepFrame.of_edgeEq {h h' : Heap} (he : EdgeEq h h') (hk : EntKept h h' none) (hl : h.length ≤ h'.length) :
    StepFrame h h' [] :=
  ⟨hl, fun o ho => (hk o ho).1, fun a ha _ => ⟨fun m => he a m, (hk a ha).2 (by simp)⟩,
    fun c _ hc _ a m => by rw [he]; exact hc a m⟩

/-- new data in a file that is reachable from the root -/
theorem StepFrame.of_data {h h' : Heap} {f : Oid} (he : EdgeEq h h') (hk : EntKept h h' (some f)) (hl : h.length ≤ h'.length)
    {p : Path} (hp : resolve h 0 p = some f) : StepFrame h h' [] :=
  ⟨hl, fun o ho => (hk o ho).1,
    fun a ha hu => ⟨fun m => he a m, (hk a ha).2 (by intro e; cases e; exact hu p hp)⟩,
    fun c _ hc _ a m => by rw [he]; exact hc a m⟩

/-- a new entry `od —n→ N` in a directory reachable from the root; `N` is fresh or a private tree of `L` -/
theorem StepFrame.of_addLeaf {h h' : Heap} {od : Oid} {n : Name} {N : Oid} {L : List Oid} (ha : AddLeaf h h' od n N)
    (hk : EntKept h h' none) (hl : h.length ≤ h'.length) {p : Path} (hp : resolve h 0 p = some od)
    (hN : N ∈ L ∨ h.length ≤ N) : StepFrame h h' L := by
  refine ⟨hl, fun o ho => (hk o ho).1, ?_, ?_⟩
  · intro a hal hu
    refine ⟨fun m => ?_, (hk a hal).2 (by simp)⟩
    rw [ha.edges]
    have : ¬ (a = od ∧ m = n) := fun hh => hu p (hh.1 ▸ hp)
    simp [this]
  · intro c hc hpar hcL a m
    rw [ha.edges]
    split
    · intro e
      cases e
      rcases hN with h1 | h1
      · exact hcL h1
      · exact absurd hc (Nat.not_lt.2 h1)
    · exact hpar a m

theorem StepFrame.of_remEdge {h h' : Heap} {od : Oid} {n : Name} (hr : RemEdge h h' od n)
    (hk : EntKept h h' none) (hl : h.length ≤ h'.length) {p : Path} (hp : resolve h 0 p = some od) :
    StepFrame h h' [] := by
  refine ⟨hl, fun o ho => (hk o ho).1, ?_, ?_⟩
  · intro a hal hu
    refine ⟨fun m => ?_, (hk a hal).2 (by simp)⟩
    rw [hr.edges]
    have : ¬ (a = od ∧ m = n) := fun hh => hu p (hh.1 ▸ hp)
    simp [this]
  · intro c _ hpar _ a m
    rw [hr.edges]
    split
    · simp
    · exact hpar a m

/-! ### private trees are out of reach -/

theorem unr_of_parentless {h : Heap} {c : Oid} (hc0 : c ≠ 0) (hpar : ∀ a m, edge h a m ≠ some c) :
    ∀ π, resolve h 0 π ≠ some c := by
  intro π hr
  rcases List.eq_nil_or_concat π with rfl | ⟨π', m, e⟩
  · rw [resolve_nil] at hr; cases hr; exact hc0 rfl
  · rw [List.concat_eq_append] at e; subst e
    rw [resolve_snoc] at hr
    cases hp : resolve h 0 π' with
    | none => simp [hp] at hr
    | some a => simp [hp] at hr; exact hpar a m hr

theorem unr_child {h : Heap} (hs : Shape h) {a b : Oid} {m : Name} (hu : ∀ π, resolve h 0 π ≠ some a)
    (he : edge h a m = some b) : ∀ π, resolve h 0 π ≠ some b := by
  intro π hr
  rcases List.eq_nil_or_concat π with rfl | ⟨π', m', e⟩
  · rw [resolve_nil] at hr; cases hr; exact (hs.closed _ _ _ he).2 rfl
  · rw [List.concat_eq_append] at e; subst e
    rw [resolve_snoc] at hr
    cases hp : resolve h 0 π' with
    | none => simp [hp] at hr
    | some a' =>
      simp [hp] at hr
      obtain ⟨rfl, _⟩ := hs.up _ _ _ _ _ he hr
      exact hu π' hp

/-- the tree below an object that is out of reach is not changed by a step -/
theorem absAt_frame {h h' : Heap} {L : List Oid} (hs : Shape h) (hf : StepFrame h h' L) :
    ∀ (q : Path) (a : Oid), a < h.length → (∀ π, resolve h 0 π ≠ some a) → absAt h' a q = absAt h a q := by
  intro q
  induction q with
  | nil =>
    intro a ha hu
    simp only [absAt, resolve_nil, Option.bind_some]
    exact (hf.unr a ha hu).2
  | cons m r ih =>
    intro a ha hu
    have he := (hf.unr a ha hu).1 m
    simp only [absAt, resolve_cons, he]
    cases hb : edge h a m with
    | none => rfl
    | some b =>
      simp only [Option.bind_some]
      exact ih b (hs.closed _ _ _ hb).1 (unr_child hs hu hb)

theorem Priv.frame {h h' : Heap} {L : List Oid} (hs : Shape h) (hf : StepFrame h h' L) {c : Oid} {sub : Tree}
    (hp : Priv h c sub) (hc : c ∉ L) : Priv h' c sub := by
  obtain ⟨h0, hlt, hpar, habs⟩ := hp
  refine ⟨h0, Nat.lt_of_lt_of_le hlt hf.len, hf.link c hlt hpar hc, ?_⟩
  rw [← habs]
  funext q
  exact absAt_frame hs hf q c hlt (unr_of_parentless h0 hpar)

theorem DirAt.frame {h h' : Heap} (hs : Shape h) (hk : ∀ o, o < h.length → okind h' o = okind h o)
    {π : Path} {o : Oid} (hd : DirAt h π o) (hr : resolve h' 0 π = some o) : DirAt h' π o :=
  ⟨hr, by rw [hk o (resolve_lt hs hs.length_pos hd.1)]; exact hd.2⟩

theorem FileAt.frame {h h' : Heap} (hs : Shape h) (hk : ∀ o, o < h.length → okind h' o = okind h o)
    {π : Path} {o : Oid} (hd : FileAt h π o) (hr : resolve h' 0 π = some o) : FileAt h' π o :=
  ⟨hr, by rw [hk o (resolve_lt hs hs.length_pos hd.1)]; exact hd.2⟩

theorem MkOK.frame {h h' : Heap} {op : Op} {path : Path} {k : MK} (hs : Shape h)
    (hk : ∀ o, o < h.length → okind h' o = okind h o)
    (hres : ∀ π o, op.rel π → resolve h 0 π = some o → resolve h' 0 π = some o)
    (hm : MkOK h op path k) : MkOK h' op path k := by
  cases k <;> simp only [MkOK] at hm ⊢ <;> try exact hm
  obtain ⟨s, rfl, h1, h2⟩ := hm
  refine ⟨s, rfl, hres s _ (Or.inl ⟨s, mem_paths_R rfl, List.prefix_refl _⟩) h1, ?_⟩
  rw [hk _ (resolve_lt hs hs.length_pos h1)]; exact h2

theorem FrameInv.frame {T0 : Tree} {h h' : Heap} {L : List Oid} (hs : Shape h) (hf : StepFrame h h' L)
    {path : Path} (hres : ∀ π o, path <+: π → resolve h 0 π = some o → resolve h' 0 π = some o)
    {hole : Option Name} {fr : Frame} (hL : ∀ p ∈ fr.done, p.2 ∉ L) (hi : FrameInv T0 h path hole fr) :
    FrameInv T0 h' path hole fr := by
  refine ⟨hi.src.frame hs hf.kind (hres _ _ (List.prefix_refl _) hi.src.1), hi.names, hi.cover, ?_, ?_⟩
  · intro m co k hmem
    obtain ⟨h1, h2⟩ := hi.todo m co k hmem
    refine ⟨hres _ _ (List.prefix_append _ _) h1, ?_⟩
    rw [hf.kind _ (resolve_lt hs hs.length_pos h1)]; exact h2
  · intro m c hmem
    exact (hi.done m c hmem).frame hs hf (hL (m, c) hmem)

theorem FramesInv.frame {T0 : Tree} {h h' : Heap} {L : List Oid} (hs : Shape h) (hf : StepFrame h h' L) {s : Path}
    (hres : ∀ π o, s <+: π → resolve h 0 π = some o → resolve h' 0 π = some o) :
    ∀ (stack : List Frame) (hole : Option Name) (ρ : Path), (∀ fr ∈ stack, ∀ p ∈ fr.done, p.2 ∉ L) →
      FramesInv T0 h s hole ρ stack → FramesInv T0 h' s hole ρ stack := by
  intro stack
  induction stack with
  | nil => intro _ _ _ _; trivial
  | cons fr rest ih =>
    intro hole ρ hL hi
    unfold FramesInv at hi ⊢
    refine ⟨hi.1.frame hs hf (fun π o hπ hr => hres π o ((List.prefix_append _ _).trans hπ) hr)
      (hL fr (by simp)), ?_⟩
    cases rest with
    | nil => exact hi.2
    | cons g gs =>
      obtain ⟨ρ', h1, h2⟩ := hi.2
      exact ⟨ρ', h1, ih _ _ (fun fr' hfr' => hL fr' (by simp [hfr'])) h2⟩

theorem FramesInv.done_lt {T0 : Tree} {h : Heap} {s : Path} :
    ∀ (stack : List Frame) (hole : Option Name) (ρ : Path), FramesInv T0 h s hole ρ stack →
      ∀ fr ∈ stack, ∀ p ∈ fr.done, p.2 < h.length := by
  intro stack
  induction stack with
  | nil => intro _ _ _ fr hfr; simp at hfr
  | cons fr rest ih =>
    intro hole ρ hi fr' hfr' p hp
    unfold FramesInv at hi
    rcases List.mem_cons.1 hfr' with rfl | hmem
    · exact (hi.1.done p.1 p.2 hp).2.1
    · cases rest with
      | nil => simp at hmem
      | cons g gs =>
        obtain ⟨ρ', _, h2⟩ := hi.2
        exact ih _ _ h2 fr' hmem p hp

/-- the private objects of a thread are allocated -/
theorem PcInv.pending_lt {T0 : Tree} {h : Heap} {op : Op} {pc : Pc} (hp : PcInv T0 h op pc) :
    ∀ c ∈ pc.pending, c < h.length := by
  intro c hc
  cases pc <;> simp only [Pc.pending, List.not_mem_nil] at hc
  case cAdd d n c' =>
    simp only [List.mem_singleton] at hc; subst hc
    obtain ⟨_, _, _, _, hpr⟩ := hp
    exact hpr.2.1
  case cDir d n stack =>
    obtain ⟨_, _, ρ, _, _, _, hfi, _⟩ := hp
    simp only [List.mem_flatMap, List.mem_map] at hc
    obtain ⟨fr, hfr, p, hp', rfl⟩ := hc
    exact FramesInv.done_lt stack none ρ hfi fr hfr p hp'

/-- `PcInv` only depends on the objects on the way to the paths of the operation, at or below the
paths it owns, and on its private trees -/
theorem PcInv.frame {T0 : Tree} {h h' : Heap} {L : List Oid} {op : Op} {pc : Pc} (hs : Shape h)
    (hf : StepFrame h h' L)
    (hrel : ∀ π o, op.rel π → resolve h 0 π = some o → resolve h' 0 π = some o)
    (hL : ∀ c ∈ pc.pending, c ∉ L)
    (hp : PcInv T0 h op pc) : PcInv T0 h' op pc := by
  have hk := hf.kind
  have hres : ∀ x ∈ op.paths, ∀ π o, π <+: x → resolve h 0 π = some o → resolve h' 0 π = some o :=
    fun x hx π o hπ hr => hrel π o (Or.inl ⟨x, hx, hπ⟩) hr
  cases pc <;> simp only [PcInv] at hp ⊢ <;> try exact hp
  case mk cur rest k =>
    obtain ⟨π, hd, hne, hm⟩ := hp
    refine ⟨π, hd.frame hs hk (hres _ (mem_paths_C (mkOK_C hm)) π cur (List.prefix_append _ _) hd.1), hne,
      hm.frame hs hk hrel⟩
  case mkLocked cur n rest k =>
    obtain ⟨π, hd, hm⟩ := hp
    refine ⟨π, hd.frame hs hk (hres _ (mem_paths_C (mkOK_C hm)) π cur (List.prefix_append _ _) hd.1),
      hm.frame hs hk hrel⟩
  case wLock d n v =>
    obtain ⟨π, hd, rfl⟩ := hp
    exact ⟨π, hd.frame hs hk (hres _ (mem_paths_W rfl) π d (List.prefix_append _ _) hd.1), rfl⟩
  case wLook d n v =>
    obtain ⟨π, hd, rfl⟩ := hp
    exact ⟨π, hd.frame hs hk (hres _ (mem_paths_W rfl) π d (List.prefix_append _ _) hd.1), rfl⟩
  case wAdd d n v =>
    obtain ⟨π, hd, rfl, h0⟩ := hp
    exact ⟨π, hd.frame hs hk (hres _ (mem_paths_W rfl) π d (List.prefix_append _ _) hd.1), rfl, h0⟩
  case wUnlockSet d f v =>
    obtain ⟨π, n, hd, rfl, hf'⟩ := hp
    exact ⟨π, n, hd.frame hs hk (hres _ (mem_paths_W rfl) π d (List.prefix_append _ _) hd.1), rfl,
      hf'.frame hs hk (hres _ (mem_paths_W rfl) _ f (List.prefix_refl _) hf'.1)⟩
  case wSet f v =>
    obtain ⟨p, rfl, hf'⟩ := hp
    exact ⟨p, rfl, hf'.frame hs hk (hres _ (mem_paths_W rfl) _ f (List.prefix_refl _) hf'.1)⟩
  case walk cur rest k =>
    obtain ⟨π, hd, hne, hm⟩ := hp
    obtain ⟨x, hx, hpx⟩ := walkOK_path hm
    exact ⟨π, hd.frame hs hk (hres x hx π cur ((List.prefix_append _ _).trans hpx) hd.1), hne, hm⟩
  case rData f =>
    obtain ⟨p, rfl, hf'⟩ := hp
    exact ⟨p, rfl, hf'.frame hs hk (hres _ (mem_paths_R rfl) _ f (List.prefix_refl _) hf'.1)⟩
  case rList d =>
    obtain ⟨p, rfl, hf'⟩ := hp
    exact ⟨p, rfl, hf'.frame hs hk (hres _ (mem_paths_R rfl) _ d (List.prefix_refl _) hf'.1)⟩
  case rmLook o n =>
    obtain ⟨π, hd, rfl⟩ := hp
    exact ⟨π, hd.frame hs hk (hres _ (mem_paths_W rfl) π o (List.prefix_append _ _) hd.1), rfl⟩
  case rmLen o n c =>
    obtain ⟨π, hd, rfl, hc⟩ := hp
    exact ⟨π, hd.frame hs hk (hres _ (mem_paths_W rfl) π o (List.prefix_append _ _) hd.1), rfl,
      hc.frame hs hk (hres _ (mem_paths_W rfl) _ c (List.prefix_refl _) hc.1)⟩
  case rmDo o n =>
    obtain ⟨π, hd, hop⟩ := hp
    have hw : (π ++ [n]) ∈ op.paths := by
      rcases hop with rfl | ⟨rfl, _⟩ <;> exact mem_paths_W rfl
    exact ⟨π, hd.frame hs hk (hres _ hw π o (List.prefix_append _ _) hd.1), hop⟩
  case cFile d n src =>
    obtain ⟨π, s, hd, rfl, hsrc⟩ := hp
    exact ⟨π, s, hd.frame hs hk (hres _ (mem_paths_W rfl) π d (List.prefix_append _ _) hd.1), rfl,
      hsrc.frame hs hk (hres _ (mem_paths_R rfl) _ src (List.prefix_refl _) hsrc.1)⟩
  case cEnter d n src =>
    obtain ⟨π, s, hd, rfl, hsrc⟩ := hp
    exact ⟨π, s, hd.frame hs hk (hres _ (mem_paths_W rfl) π d (List.prefix_append _ _) hd.1), rfl,
      hsrc.frame hs hk (hres _ (mem_paths_R rfl) _ src (List.prefix_refl _) hsrc.1)⟩
  case cAdd d n c =>
    obtain ⟨π, s, hd, rfl, hpr⟩ := hp
    exact ⟨π, s, hd.frame hs hk (hres _ (mem_paths_W rfl) π d (List.prefix_append _ _) hd.1), rfl,
      hpr.frame hs hf (hL c (by simp [Pc.pending]))⟩
  case cDir d n stack =>
    obtain ⟨π, s, ρ, hd, rfl, hne, hfi, hnd⟩ := hp
    refine ⟨π, s, ρ, hd.frame hs hk (hres _ (mem_paths_W rfl) π d (List.prefix_append _ _) hd.1), rfl, hne, ?_, hnd⟩
    apply FramesInv.frame hs hf
      (fun π' o hπ' hr => hrel π' o (Or.inr ⟨s, by simp [Op.owned, Op.R], hπ'⟩) hr) stack none ρ _ hfi
    intro fr hfr p hp'
    apply hL
    simp only [Pc.pending, List.mem_flatMap, List.mem_map]
    exact ⟨fr, hfr, p, hp', rfl⟩

/-! ### rebuilding `Sim` after a critical section -/

theorem pending_busy {pc : Pc} {c : Oid} (hc : c ∈ pc.pending) : pc ≠ .idle := by
  intro e; rw [e] at hc; simp [Pc.pending] at hc

theorem sim_act_mk {T0 : Tree} {progs : List (List Op)} {s : State} {τ : Nat} {P : List Op} {th : Thread} {i : Op}
    (hyp : Hyp T0 progs) (hs : Sim T0 progs s) (hP : progs[τ]? = some P) (hth : s.threads[τ]? = some th)
    (hcur : curOp P th = some i) (hbusy : th.pc ≠ .idle)
    {h' : Heap} {th' : Thread} (hprog : th'.prog = th.prog)
    (hshape : Shape h') {L : List Oid} (hfr : StepFrame s.heap h' L) (hLown : ∀ c ∈ L, c ∈ th.pc.pending)
    (hkeep : ∀ j, IndepOp i j → ∀ π o, j.rel π → resolve s.heap 0 π = some o → resolve h' 0 π = some o)
    (hidle : th'.pc ≠ .idle) (hpc : PcInv T0 h' i th'.pc)
    (hpend : ∀ c ∈ th'.pc.pending, c ∈ th.pc.pending ∨ s.heap.length ≤ c)
    (habs : AbsRel (absT h') (SD T0 (decAll progs (s.threads.set τ th'))) (Ext progs (s.threads.set τ th'))) :
    Sim T0 progs { heap := h', threads := s.threads.set τ th', log := s.log } := by
  have hlt : τ < s.threads.length := (List.getElem?_eq_some_iff.1 hth).1
  -- the private objects of the other threads are allocated, and none of them is linked by this step
  have hother : ∀ (τ1 : Nat) th1, τ1 ≠ τ → s.threads[τ1]? = some th1 →
      ∀ c ∈ th1.pc.pending, c < s.heap.length ∧ c ∉ th.pc.pending := by
    intro τ1 th1 hτ hth1 c hc
    have hlt1 : τ1 < progs.length := by rw [← hs.len]; exact (List.getElem?_eq_some_iff.1 hth1).1
    have old := hs.thr τ1 _ th1 (List.getElem?_eq_getElem hlt1) hth1
    obtain ⟨op, _, hpc1, _⟩ := old.busy (pending_busy hc)
    exact ⟨hpc1.pending_lt c hc, hs.pend τ1 τ th1 th hτ hth1 hth c hc⟩
  refine ⟨hshape, by simp [hs.len], ?_, habs, ?_⟩
  · intro τ1 P1 th1 hP1 hth1
    simp only at hth1
    rw [resultsOf_same_log]
    by_cases hτ : τ1 = τ
    · subst hτ
      rw [List.getElem?_set_self hlt] at hth1
      cases hth1
      rw [hP] at hP1; cases hP1
      have old := hs.thr τ1 P th hP hth
      obtain ⟨op, hop, _, hres⟩ := old.busy hbusy
      rw [hcur] at hop; cases hop
      refine ⟨by rw [hprog]; exact old.le, by rw [hprog, started_set_prog hprog]; exact old.suffix,
        fun e => absurd e hidle, fun _ => ⟨i, by rw [curOp_set_prog hprog]; exact hcur, hpc, ?_⟩⟩
      rw [started_set_prog hprog]; exact hres
    · rw [List.getElem?_set_ne (fun e => hτ e.symm)] at hth1
      have old := hs.thr τ1 P1 th1 hP1 hth1
      refine ⟨old.le, old.suffix, old.idle, ?_⟩
      intro hb
      obtain ⟨op, hop, hpc1, hres⟩ := old.busy hb
      refine ⟨op, hop, ?_, hres⟩
      obtain ⟨_, h1⟩ := curOp_pos hcur
      obtain ⟨_, h2⟩ := curOp_pos hop
      have hind : IndepOp i op :=
        indep_of_positions (fun a b h => h.symm) hyp.indep hP hP1 h1 h2 (Or.inl (fun e => hτ e.symm))
      refine hpc1.frame hs.shape hfr (fun π o hπ hr => hkeep op hind π o hπ hr) ?_
      intro c hc hcL
      exact (hother τ1 th1 hτ hth1 c hc).2 (hLown c hcL)
  · intro τa τb tha thb hab htha hthb c hc
    simp only at htha hthb
    by_cases ha : τa = τ
    · subst ha
      rw [List.getElem?_set_self hlt] at htha; cases htha
      rw [List.getElem?_set_ne hab] at hthb
      intro hcb
      obtain ⟨h1, h2⟩ := hother τb thb (fun e => hab e.symm) hthb c hcb
      rcases hpend c hc with h3 | h3
      · exact h2 h3
      · exact absurd h1 (Nat.not_lt.2 h3)
    · rw [List.getElem?_set_ne (fun e => ha e.symm)] at htha
      by_cases hb : τb = τ
      · subst hb
        rw [List.getElem?_set_self hlt] at hthb; cases hthb
        intro hcb
        obtain ⟨h1, h2⟩ := hother τa tha ha htha c hc
        rcases hpend c hcb with h3 | h3
        · exact h2 h3
        · exact absurd h1 (Nat.not_lt.2 h3)
      · rw [List.getElem?_set_ne (fun e => hb e.symm)] at hthb
        exact hs.pend τa τb tha thb hab htha hthb c hc

theorem Cur.busy {T0 : Tree} {progs : List (List Op)} {s : State} {τ : Nat} {P : List Op} {th : Thread} {i : Op}
    (hc : Cur T0 progs s τ P th i) : th.pc ≠ .idle := by
  intro e; have := hc.und; rw [e] at this; cases this

/-- a step of a thread whose operation is already decided: the decided operations do not change -/
theorem absRel_decided_step {T0 : Tree} {progs : List (List Op)} {s : State} {τ : Nat} {P : List Op} {th : Thread}
    (hs : Sim T0 progs s) (hP : progs[τ]? = some P) (hth : s.threads[τ]? = some th)
    {h' : Heap} {th' : Thread} (hprog : th'.prog = th.prog)
    (hu : th.pc.undecided = false) (hu' : th'.pc.undecided = false) (habs : absT h' = absT s.heap) :
    AbsRel (absT h') (SD T0 (decAll progs (s.threads.set τ th'))) (Ext progs (s.threads.set τ th')) := by
  obtain ⟨A, B, h1, h2, _⟩ := decAll_split hP hth
  have : decOf P th' = decOf P th := by
    unfold decOf ndec; rw [hu, hu', started_set_prog hprog]
  rw [habs, h2 th', this, ← h1]
  exact absRel_mono hs.abs (fun q hq => ext_set_und hP hth hprog
    (fun e => by rw [Pc.creating_undecided e] at hu; cases hu) hq)

/-- deciding the current operation of `τ` appends its effects to the decided tree -/
theorem Cur.SD_decide {T0 : Tree} {progs : List (List Op)} {s : State} {τ : Nat} {P : List Op} {th : Thread} {i : Op}
    (hyp : Hyp T0 progs) (hc : Cur T0 progs s τ P th i) {th' : Thread} (hprog : th'.prog = th.prog)
    (hu : th'.pc.undecided = false) :
    SD T0 (decAll progs (s.threads.set τ th')) = runEffs (SD T0 (decAll progs s.threads)) (effOf T0 i) := by
  obtain ⟨A, B, h1, _, h3, _, hpw, hok⟩ := hc.dec hyp
  rw [h3 th' hprog hu, h1, ← SD_snoc]
  apply SD_perm _ hok hpw
  simp only [List.append_assoc]
  apply List.Perm.append_left
  apply List.Perm.append_left
  exact (List.perm_append_comm (l₁ := [i]) (l₂ := B))

theorem Cur.SD_stay {T0 : Tree} {progs : List (List Op)} {s : State} {τ : Nat} {P : List Op} {th : Thread} {i : Op}
    (hyp : Hyp T0 progs) (hc : Cur T0 progs s τ P th i) {th' : Thread} (hprog : th'.prog = th.prog)
    (hu : th'.pc.undecided = true) :
    SD T0 (decAll progs (s.threads.set τ th')) = SD T0 (decAll progs s.threads) := by
  obtain ⟨A, B, _, h2, _, _, _, _⟩ := hc.dec hyp
  rw [h2 th' hprog hu]

/-- on the way to a path of the undecided operation: what is in the initial tree is still there, and a
directory may have appeared where nothing was -/
theorem Cur.pfx {T0 : Tree} {progs : List (List Op)} {s : State} {τ : Nat} {P : List Op} {th : Thread} {i : Op}
    (hyp : Hyp T0 progs) (hs : Sim T0 progs s) (hc : Cur T0 progs s τ P th i)
    {x q : Path} (hx : x ∈ i.paths) (hq : q <+: x) :
    absT s.heap q = T0 q ∨ (T0 q = none ∧ absT s.heap q = some .dir) := by
  obtain ⟨A, B, _, _, _, hind, _, _⟩ := hc.dec hyp
  have hSD := SD_prefix (T := T0) (fun j hj => (hind j hj).2) (fun j hj => (hind j hj).1) hx hq
  rcases hs.abs q with h1 | ⟨h1, h2, _⟩
  · rw [h1]; exact hSD
  · right
    refine ⟨?_, h2⟩
    rcases hSD with h3 | ⟨h3, _⟩
    · rw [← h3]; exact h1
    · exact h3

/-- the decided tree at a path that exists in the initial tree on the way to a path of the operation -/
theorem Cur.SD_pfx_some {T0 : Tree} {progs : List (List Op)} {s : State} {τ : Nat} {P : List Op} {th : Thread} {i : Op}
    (hyp : Hyp T0 progs) (hc : Cur T0 progs s τ P th i)
    {x q : Path} (hx : x ∈ i.paths) (hq : q <+: x) (hT : T0 q ≠ none) :
    SD T0 (decAll progs s.threads) q = T0 q := by
  obtain ⟨A, B, _, _, _, hind, _, _⟩ := hc.dec hyp
  rcases SD_prefix (T := T0) (fun j hj => (hind j hj).2) (fun j hj => (hind j hj).1) hx hq with h | ⟨h, _⟩
  · exact h
  · exact absurd h hT

/-! ### the kinds of step -/

/-- nothing abstract changes and the operation stays undecided -/
theorem absRel_stay_step {T0 : Tree} {progs : List (List Op)} {s : State} {τ : Nat} {P : List Op} {th : Thread} {i : Op}
    (hyp : Hyp T0 progs) (hs : Sim T0 progs s) (hc : Cur T0 progs s τ P th i)
    {h' : Heap} {th' : Thread} (hprog : th'.prog = th.prog) (hu : th'.pc.undecided = true)
    (hcr : th.pc.creating = true → th'.pc.creating = true)
    (habs : absT h' = absT s.heap) :
    AbsRel (absT h') (SD T0 (decAll progs (s.threads.set τ th'))) (Ext progs (s.threads.set τ th')) := by
  rw [habs, hc.SD_stay hyp hprog hu]
  exact absRel_mono hs.abs (fun q hq => ext_set_und hc.hP hc.hth hprog hcr hq)

/-- a directory is made on the way and the operation stays undecided -/
theorem absRel_ensure_step {T0 : Tree} {progs : List (List Op)} {s : State} {τ : Nat} {P : List Op} {th : Thread} {i : Op}
    (hyp : Hyp T0 progs) (hs : Sim T0 progs s) (hc : Cur T0 progs s τ P th i)
    {h' : Heap} {th' : Thread} (hprog : th'.prog = th.prog) (hu : th'.pc.undecided = true)
    (hcr0 : th.pc.creating = true) (hcr : th'.pc.creating = true)
    {x c : Path} (hC : i.C = some c) (hx : x <+: c) (hne : x ≠ [])
    (habs : absT h' = (Eff1.ensureDir x).apply (absT s.heap)) :
    AbsRel (absT h') (SD T0 (decAll progs (s.threads.set τ th'))) (Ext progs (s.threads.set τ th')) := by
  rw [habs, hc.SD_stay hyp hprog hu]
  have h1 := absRel_ensure hs.abs (ext_of_cur hc.hP hc.hth hcr0 hc.cur hC hx hne)
  exact absRel_mono h1 (fun q hq => ext_set_und hc.hP hc.hth hprog (fun _ => hcr) hq)

/-- the operation is decided without effects: it failed or it only read.  `hjunk`: whatever exists on the
way it creates directories along existed in the initial tree. -/
theorem absRel_noeff_step {T0 : Tree} {progs : List (List Op)} {s : State} {τ : Nat} {P : List Op} {th : Thread} {i : Op}
    (hyp : Hyp T0 progs) (hs : Sim T0 progs s) (hc : Cur T0 progs s τ P th i)
    {h' : Heap} {th' : Thread} (hprog : th'.prog = th.prog) (hu : th'.pc.undecided = false)
    (habs : absT h' = absT s.heap) (heff : effOf T0 i = [])
    (hjunk : th.pc.creating = true → ∀ c q, i.C = some c → q <+: c → absT s.heap q ≠ none → T0 q ≠ none) :
    AbsRel (absT h') (SD T0 (decAll progs (s.threads.set τ th'))) (Ext progs (s.threads.set τ th')) := by
  rw [habs, hc.SD_decide hyp hprog hu, heff]
  show AbsRel _ (SD T0 (decAll progs s.threads)) _
  apply absRel_drop hs.abs
  intro q hq
  rcases ext_set_dec (th' := th') hc.hP hc.hth hc.cur hq with h1 | ⟨hcr, _, c, h2, h3⟩
  · exact Or.inl h1
  · right
    intro hA
    have hT := hjunk hcr c q h2 h3 hA
    rw [hc.SD_pfx_some hyp (mem_paths_C h2) h3 hT]
    exact hT

/-- `MkdirAll p` is decided (with or without having made the last directory in this step) -/
theorem absRel_mk_step {T0 : Tree} {progs : List (List Op)} {s : State} {τ : Nat} {P : List Op} {th : Thread} {p : Path}
    (hyp : Hyp T0 progs) (hs : Sim T0 progs s) (hc : Cur T0 progs s τ P th (.mkdirAll p))
    {h' : Heap} {th' : Thread} (hprog : th'.prog = th.prog) (hu : th'.pc.undecided = false)
    (hcr0 : th.pc.creating = true)
    (habs : absT h' = absT s.heap ∨ ∃ x, x <+: p ∧ x ≠ [] ∧ absT h' = (Eff1.ensureDir x).apply (absT s.heap))
    (hsucc : succ T0 (.mkdirAll p))
    (hd : ∀ q, q ≠ [] → q <+: p → absT h' q = some .dir) :
    AbsRel (absT h') (SD T0 (decAll progs (s.threads.set τ th'))) (Ext progs (s.threads.set τ th')) := by
  have hp : p ≠ [] := hyp.ok_cur hc.hP hc.cur
  have heff : effOf T0 (.mkdirAll p) = AOp.effects ⟨p, none⟩ := by
    unfold effOf; rw [if_pos hsucc]; rfl
  rw [hc.SD_decide hyp hprog hu, heff]
  have h1 : AbsRel (absT h') (SD T0 (decAll progs s.threads)) (Ext progs s.threads) := by
    rcases habs with h | ⟨x, hx, hne, h⟩
    · rw [h]; exact hs.abs
    · rw [h]
      exact absRel_ensure hs.abs (ext_of_cur hc.hP hc.hth hcr0 hc.cur rfl hx hne)
  apply absRel_mk h1 hp hd
  intro q hq
  rcases ext_set_dec (th' := th') hc.hP hc.hth hc.cur hq with h2 | ⟨_, h2, c, h3, h4⟩
  · exact Or.inl h2
  · simp only [Op.C, Option.some.injEq] at h3
    subst h3
    exact Or.inr ⟨h2, h4⟩

/-- the subtree at the target `w` is replaced and the operation is decided -/
theorem absRel_graft_step {T0 : Tree} {progs : List (List Op)} {s : State} {τ : Nat} {P : List Op} {th : Thread} {i : Op}
    (hyp : Hyp T0 progs) (hs : Sim T0 progs s) (hc : Cur T0 progs s τ P th i)
    {h' : Heap} {th' : Thread} (hprog : th'.prog = th.prog) (hu : th'.pc.undecided = false)
    {w : Path} {sub : Tree} (heff : effOf T0 i = AOp.effects ⟨w, some sub⟩)
    (hC : ∀ c, i.C = some c → c <+: w ∧ c ≠ w)
    (habs : absT h' = (Eff1.graft w sub).apply (absT s.heap))
    (hd : ∀ q, q ≠ [] → q <+: w → q ≠ w → absT s.heap q = some .dir) :
    AbsRel (absT h') (SD T0 (decAll progs (s.threads.set τ th'))) (Ext progs (s.threads.set τ th')) := by
  rw [hc.SD_decide hyp hprog hu, heff, habs]
  apply absRel_graft hs.abs sub hd
  intro q hq
  rcases ext_set_dec (th' := th') hc.hP hc.hth hc.cur hq with h2 | ⟨_, h2, c, h3, h4⟩
  · exact Or.inl h2
  · right
    obtain ⟨h5, h6⟩ := hC c h3
    refine ⟨h2, h4.trans h5, ?_⟩
    intro e
    subst e
    exact h6 (h5.eq_of_length (Nat.le_antisymm h5.length_le h4.length_le))

end Goat.MemFSConc
