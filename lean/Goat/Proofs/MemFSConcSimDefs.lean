/-
Helper lemmas for property C09, part 10: the SIMULATION INVARIANT that links the lock-granular thread
system to the abstract tree, for operations on independent paths.

`Sim T0 progs s`: in state `s` of threads running the programs `progs` from a heap whose abstract tree was
`T0`, (1) the heap is a forest (`Shape`), (2) every thread is where its program says (`ThreadOK`): the
objects its program counter holds are the objects at the paths its current operation walks (`PcInv`),
the results logged so far are the results the operations have in `T0` (`ResOK`), (3) the abstract tree of
the heap is `T0` with the micro effects of the DECIDED operations (`SD T0 (decAll …)`), except for
directories that an undecided creating operation has already made on its way (`Ext`).

An operation is decided from the critical section on that fixes its result (the linking of the new node,
`setData`, `removeNodeByName`, the last `mkdir`, the read, the failed look-up).

This file: definitions and the bookkeeping lemmas; the step cases are in `MemFSConcSimStep*`.
-/
import Goat.Proofs.MemFSConcEffect
import Goat.Proofs.MemFSConcOps
import Goat.Proofs.MemFSConcSys

set_option linter.unusedSimpArgs false
set_option linter.unusedVariables false

namespace Goat.MemFSConc
open Goat.FS (Entry)

/-! ### where a thread is -/

def DirAt (h : Heap) (π : Path) (o : Oid) : Prop := resolve h 0 π = some o ∧ okind h o = some true

def FileAt (h : Heap) (π : Path) (o : Oid) : Prop := resolve h 0 π = some o ∧ okind h o = some false

/-- `mkdirAllNodes` along `path`, then continuation `k`, is what `op` does (a `Copy` holds its source
node meanwhile) -/
def MkOK (h : Heap) (op : Op) (path : Path) : MK → Prop
  | .done => op = .mkdirAll path
  | .write n v => op = .writeFile (path ++ [n]) v
  | .copyDst n src isDir => ∃ s, op = .copy s (path ++ [n]) ∧ resolve h 0 s = some src ∧ okind h src = some isDir
  | _ => False

/-- the walk along `path`, then continuation `k`, is what `op` does -/
def WalkOK (op : Op) (path : Path) : WK → Prop
  | .probe want => op = .probe path want
  | .readFile => op = .readFile path
  | .readDir => op = .readDir path
  | .rmParent n true => op = .remove (path ++ [n])
  | .rmParent n false => op = .removeAll (path ++ [n])
  | .copySrc dd dn => op = .copy path (dd ++ [dn])
  | _ => False

/-- a private tree: an allocated object that is not the root and has no parent entry, representing `sub` -/
def Priv (h : Heap) (c : Oid) (sub : Tree) : Prop :=
  c ≠ 0 ∧ c < h.length ∧ (∀ a m, edge h a m ≠ some c) ∧ absAt h c = sub

/-- one activation of `copyDir`, on the source directory at `path`: the children not yet copied (`todo`)
are the nodes at `path/name`, the copies made so far (`done`) are private trees representing the
children of the initial tree, `hole` is the child an activation above is working on, and together they
are exactly the children of `path` in the initial tree -/
structure FrameInv (T0 : Tree) (h : Heap) (path : Path) (hole : Option Name) (fr : Frame) : Prop where
  src : DirAt h path fr.src
  names : (fr.done.map (·.1) ++ (hole.toList ++ fr.todo.map (·.1))).Nodup
  cover : ∀ m, T0 (path ++ [m]) ≠ none ↔ (m ∈ fr.done.map (·.1) ∨ m ∈ hole ∨ m ∈ fr.todo.map (·.1))
  todo : ∀ m co k, (m, co, k) ∈ fr.todo → resolve h 0 (path ++ [m]) = some co ∧ okind h co = some k
  done : ∀ m c, (m, c) ∈ fr.done → Priv h c (fun q => T0 (path ++ m :: q))

/-- the stack of activations of `copyDir` below the source path `s`; `ρ` is the path of the top
activation relative to `s` -/
def FramesInv (T0 : Tree) (h : Heap) (s : Path) : Option Name → Path → List Frame → Prop
  | _, _, [] => True
  | hole, ρ, fr :: rest =>
    FrameInv T0 h (s ++ ρ) hole fr ∧
    match rest with
    | [] => ρ = []
    | g :: gs => ∃ ρ', ρ = ρ' ++ [fr.nm] ∧ FramesInv T0 h s (some fr.nm) ρ' (g :: gs)

/-- the private objects a copier holds -/
def Pc.pending : Pc → List Oid
  | .cAdd _ _ c => [c]
  | .cDir _ _ stack => stack.flatMap fun fr => fr.done.map (·.2)
  | _ => []

/-- the program counter of a thread running `op`: the objects it holds are the objects at the paths of
`op`; a decided program counter carries the result `op` has in `T0` -/
def PcInv (T0 : Tree) (h : Heap) (op : Op) : Pc → Prop
  | .fin r => ResOK T0 op r
  | .wUnlockFin _ r => ResOK T0 op r
  | .mk cur rest k => ∃ π, DirAt h π cur ∧ rest ≠ [] ∧ MkOK h op (π ++ rest) k
  | .mkLocked cur n rest k => ∃ π, DirAt h π cur ∧ MkOK h op (π ++ n :: rest) k
  | .wLock d n v => ∃ π, DirAt h π d ∧ op = .writeFile (π ++ [n]) v
  | .wLook d n v => ∃ π, DirAt h π d ∧ op = .writeFile (π ++ [n]) v
  | .wAdd d n v => ∃ π, DirAt h π d ∧ op = .writeFile (π ++ [n]) v ∧ T0 (π ++ [n]) = none
  | .wUnlockSet d f v => ∃ π n, DirAt h π d ∧ op = .writeFile (π ++ [n]) v ∧ FileAt h (π ++ [n]) f
  | .wSet f v => ∃ p, op = .writeFile p v ∧ FileAt h p f
  | .walk cur rest k => ∃ π, DirAt h π cur ∧ rest ≠ [] ∧ WalkOK op (π ++ rest) k
  | .rData f => ∃ p, op = .readFile p ∧ FileAt h p f
  | .rList d => ∃ p, op = .readDir p ∧ DirAt h p d
  | .rmLook o n => ∃ π, DirAt h π o ∧ op = .remove (π ++ [n])
  | .rmLen o n c => ∃ π, DirAt h π o ∧ op = .remove (π ++ [n]) ∧ DirAt h (π ++ [n]) c
  | .rmDo o n => ∃ π, DirAt h π o ∧
      (op = .removeAll (π ++ [n]) ∨ (op = .remove (π ++ [n]) ∧ FS.removeOk T0 (π ++ [n])))
  | .cFile d n src => ∃ π s, DirAt h π d ∧ op = .copy s (π ++ [n]) ∧ FileAt h s src
  | .cEnter d n src => ∃ π s, DirAt h π d ∧ op = .copy s (π ++ [n]) ∧ DirAt h s src
  | .cAdd d n c => ∃ π s, DirAt h π d ∧ op = .copy s (π ++ [n]) ∧ Priv h c (fun q => T0 (s ++ q))
  | .cDir d n stack => ∃ π s ρ, DirAt h π d ∧ op = .copy s (π ++ [n]) ∧ stack ≠ [] ∧
      FramesInv T0 h s none ρ stack ∧ (stack.flatMap fun fr => fr.done.map (·.2)).Nodup
  | _ => False

/-- the result of the current operation is not fixed yet -/
def Pc.undecided : Pc → Bool
  | .idle => false
  | .fin _ => false
  | .wUnlockFin _ _ => false
  | _ => true

/-- the operation is in its creating phase: directories it has made on its way may exist although it
is not decided (a `Copy` is not, while it still walks to its source) -/
def Pc.creating : Pc → Bool
  | .idle => false
  | .fin _ => false
  | .wUnlockFin _ _ => false
  | .walk _ _ _ => false
  | _ => true

theorem Pc.creating_undecided {pc : Pc} (h : pc.creating = true) : pc.undecided = true := by
  cases pc <;> simp [Pc.creating] at h <;> rfl

/-! ### bookkeeping: which operations of a program are started / decided -/

def started (P : List Op) (th : Thread) : Nat := P.length - th.prog.length

def ndec (P : List Op) (th : Thread) : Nat :=
  if th.pc.undecided then started P th - 1 else started P th

def decOf (P : List Op) (th : Thread) : List Op := P.take (ndec P th)

/-- the decided operations of all threads, thread by thread -/
def decAll : List (List Op) → List Thread → List Op
  | P :: Ps, th :: ths => decOf P th ++ decAll Ps ths
  | _, _ => []

def curOp (P : List Op) (th : Thread) : Option Op :=
  if started P th = 0 then none else P[started P th - 1]?

/-- the results are the results of the operations, one by one -/
def ResList (T0 : Tree) (ops : List Op) (res : List Res) : Prop :=
  res.length = ops.length ∧ ∀ (k : Nat) op r, ops[k]? = some op → res[k]? = some r → ResOK T0 op r

structure ThreadOK (T0 : Tree) (h : Heap) (res : List Res) (P : List Op) (th : Thread) : Prop where
  le : th.prog.length ≤ P.length
  suffix : th.prog = P.drop (started P th)
  idle : th.pc = .idle → ResList T0 (P.take (started P th)) res
  busy : th.pc ≠ .idle → ∃ op, curOp P th = some op ∧ PcInv T0 h op th.pc ∧
    ResList T0 (P.take (started P th - 1)) res

/-- directories that may exist although no decided operation made them: those on the way of an
undecided creating operation -/
def Ext (progs : List (List Op)) (ths : List Thread) (q : Path) : Prop :=
  q ≠ [] ∧ ∃ τ : Nat, ∃ P th op c, progs[τ]? = some P ∧ ths[τ]? = some th ∧ th.pc.creating = true ∧
    curOp P th = some op ∧ op.C = some c ∧ q <+: c

/-- `A` is `S` except for some additional directories at paths `X` -/
def AbsRel (A S : Tree) (X : Path → Prop) : Prop :=
  ∀ q, A q = S q ∨ (S q = none ∧ A q = some .dir ∧ X q)

structure Hyp (T0 : Tree) (progs : List (List Op)) : Prop where
  wf : TreeWF T0
  ok : ∀ P ∈ progs, ∀ op ∈ P, op.ok
  indep : progs.flatten.Pairwise IndepOp

structure Sim (T0 : Tree) (progs : List (List Op)) (s : State) : Prop where
  shape : Shape s.heap
  len : s.threads.length = progs.length
  thr : ∀ τ P th, progs[τ]? = some P → s.threads[τ]? = some th →
    ThreadOK T0 s.heap (resultsOf s τ) P th
  abs : AbsRel (absT s.heap) (SD T0 (decAll progs s.threads)) (Ext progs s.threads)
  pend : ∀ (τ τ' : Nat) th th', τ ≠ τ' → s.threads[τ]? = some th → s.threads[τ']? = some th' →
    ∀ c ∈ th.pc.pending, c ∉ th'.pc.pending

/-! ### lists -/

theorem resList_nil (T0 : Tree) : ResList T0 [] [] := ⟨rfl, by intro k op r h; simp at h⟩

theorem resList_snoc {T0 : Tree} {ops : List Op} {res : List Res} {op : Op} {r : Res}
    (h : ResList T0 ops res) (hr : ResOK T0 op r) : ResList T0 (ops ++ [op]) (res ++ [r]) := by
  refine ⟨by simp [h.1], ?_⟩
  intro k o x ho hx
  by_cases hk : k < ops.length
  · rw [List.getElem?_append_left hk] at ho
    rw [List.getElem?_append_left (by rw [h.1]; exact hk)] at hx
    exact h.2 k o x ho hx
  · have hge : ops.length ≤ k := Nat.le_of_not_lt hk
    rw [List.getElem?_append_right hge] at ho
    rw [List.getElem?_append_right (by rw [h.1]; exact hge), h.1] at hx
    cases hkk : k - ops.length with
    | zero => simp [hkk] at ho hx; subst ho; subst hx; exact hr
    | succ m => simp [hkk] at ho

theorem take_pred_snoc {P : List Op} {k : Nat} {op : Op} (hk : 0 < k) (hop : P[k - 1]? = some op) :
    P.take k = P.take (k - 1) ++ [op] := by
  obtain ⟨m, rfl⟩ : ∃ m, k = m + 1 := ⟨k - 1, by omega⟩
  simp only [Nat.add_sub_cancel] at hop ⊢
  rw [List.take_add_one, hop]; rfl

theorem resultsOf_log_cons (s : State) (h' : Heap) (ths : List Thread) (t : Tid) (r : Res) (τ : Tid) :
    resultsOf { heap := h', threads := ths, log := (t, r) :: s.log } τ =
      if τ = t then resultsOf s τ ++ [r] else resultsOf s τ := by
  unfold resultsOf
  simp only [List.filter_cons]
  by_cases hτ : τ = t
  · subst hτ; simp
  · have : (t == τ) = false := by
      simp only [beq_eq_false_iff_ne, ne_eq]; exact fun e => hτ e.symm
    simp [hτ, this]

theorem resultsOf_same_log (s : State) (h' : Heap) (ths : List Thread) (τ : Tid) :
    resultsOf { heap := h', threads := ths, log := s.log } τ = resultsOf s τ := rfl

/-! ### `decAll` when one thread moves -/

theorem decAll_sublist (progs : List (List Op)) (ths : List Thread) : (decAll progs ths).Sublist progs.flatten := by
  induction progs generalizing ths with
  | nil => simp [decAll]
  | cons P Ps ih =>
    cases ths with
    | nil => simp [decAll]
    | cons th ts =>
      simp only [decAll, List.flatten_cons]
      exact List.Sublist.append (List.take_sublist _ _) (ih ts)

theorem decAll_split {progs : List (List Op)} {ths : List Thread} {τ : Nat} {P : List Op} {th : Thread}
    (hP : progs[τ]? = some P) (hth : ths[τ]? = some th) :
    ∃ A B, decAll progs ths = A ++ decOf P th ++ B ∧
      (∀ th', decAll progs (ths.set τ th') = A ++ decOf P th' ++ B) ∧
      (∀ n, (A ++ P.take n ++ B).Sublist progs.flatten) := by
  induction progs generalizing ths τ with
  | nil => simp at hP
  | cons Q Qs ih =>
    cases ths with
    | nil => simp at hth
    | cons t0 ts =>
      cases τ with
      | zero =>
        simp at hP hth
        subst hP; subst hth
        refine ⟨[], decAll Qs ts, by simp [decAll], ?_, ?_⟩
        · intro th'; simp [decAll]
        · intro n
          simp only [List.nil_append, List.flatten_cons]
          exact List.Sublist.append (List.take_sublist _ _) (decAll_sublist Qs ts)
      | succ τ' =>
        simp at hP hth
        obtain ⟨A, B, h1, h2, h3⟩ := ih hP hth
        refine ⟨decOf Q t0 ++ A, B, ?_, ?_, ?_⟩
        · simp [decAll, h1, List.append_assoc]
        · intro th'; simp [decAll, h2, List.append_assoc]
        · intro n
          simp only [List.flatten_cons, List.append_assoc]
          have := h3 n
          simp only [List.append_assoc] at this
          exact List.Sublist.append (List.take_sublist _ _) this

theorem pairwise_mid {α : Type} {R : α → α → Prop} (hsym : ∀ a b, R a b → R b a) {A X B : List α} {i : α}
    (h : (A ++ (X ++ [i]) ++ B).Pairwise R) : ∀ j ∈ A ++ X ++ B, R i j := by
  intro j hj
  rw [List.pairwise_append, List.pairwise_append, List.pairwise_append] at h
  obtain ⟨⟨hA, ⟨hX, _, hXi⟩, hAXi⟩, hB, hAB⟩ := h
  simp only [List.mem_append] at hj
  rcases hj with (hj | hj) | hj
  · exact hsym _ _ (hAXi j hj i (by simp))
  · exact hsym _ _ (hXi j hj i (by simp))
  · exact hAB i (by simp) j hj

theorem started_set_prog {P : List Op} {th th' : Thread} (hp : th'.prog = th.prog) : started P th' = started P th := by
  unfold started; rw [hp]

theorem curOp_set_prog {P : List Op} {th th' : Thread} (hp : th'.prog = th.prog) : curOp P th' = curOp P th := by
  unfold curOp; rw [started_set_prog hp]

theorem curOp_mem {P : List Op} {th : Thread} {op : Op} (h : curOp P th = some op) : op ∈ P := by
  unfold curOp at h
  split at h
  · cases h
  · exact List.mem_of_getElem? h

theorem curOp_pos {P : List Op} {th : Thread} {op : Op} (h : curOp P th = some op) :
    0 < started P th ∧ P[started P th - 1]? = some op := by
  unfold curOp at h
  split at h
  · cases h
  · exact ⟨by omega, h⟩

/-! ### the facts every step needs about the current operation of a thread -/

structure Cur (T0 : Tree) (progs : List (List Op)) (s : State) (τ : Nat) (P : List Op) (th : Thread) (i : Op) : Prop where
  hP : progs[τ]? = some P
  hth : s.threads[τ]? = some th
  und : th.pc.undecided = true
  cur : curOp P th = some i

theorem Hyp.ok_cur {T0 : Tree} {progs : List (List Op)} (hyp : Hyp T0 progs) {τ : Nat} {P : List Op} {th : Thread}
    {i : Op} (hP : progs[τ]? = some P) (hc : curOp P th = some i) : i.ok :=
  hyp.ok P (List.mem_of_getElem? hP) i (curOp_mem hc)

theorem Hyp.ok_flat {T0 : Tree} {progs : List (List Op)} (hyp : Hyp T0 progs) {l : List Op}
    (hl : l.Sublist progs.flatten) : ∀ op ∈ l, op.ok := by
  intro op hop
  have := hl.subset hop
  rw [List.mem_flatten] at this
  obtain ⟨P, hP, hop'⟩ := this
  exact hyp.ok P hP op hop'

/-- the decided operations, split around the thread `τ` whose current operation `i` is undecided: `i` is
independent of all of them, and deciding `i` appends its effects -/
theorem Cur.dec {T0 : Tree} {progs : List (List Op)} {s : State} {τ : Nat} {P : List Op} {th : Thread} {i : Op}
    (hyp : Hyp T0 progs) (hc : Cur T0 progs s τ P th i) :
    ∃ A B, decAll progs s.threads = A ++ P.take (started P th - 1) ++ B ∧
      (∀ th', th'.prog = th.prog → th'.pc.undecided = true →
        decAll progs (s.threads.set τ th') = decAll progs s.threads) ∧
      (∀ th', th'.prog = th.prog → th'.pc.undecided = false →
        decAll progs (s.threads.set τ th') = A ++ (P.take (started P th - 1) ++ [i]) ++ B) ∧
      (∀ j ∈ decAll progs s.threads, IndepOp i j ∧ j.ok) ∧
      (A ++ (P.take (started P th - 1) ++ [i]) ++ B).Pairwise IndepOp ∧
      (∀ j ∈ A ++ (P.take (started P th - 1) ++ [i]) ++ B, j.ok) := by
  obtain ⟨A, B, h1, h2, h3⟩ := decAll_split hc.hP hc.hth
  obtain ⟨hpos, hop⟩ := curOp_pos hc.cur
  have hdec : decOf P th = P.take (started P th - 1) := by
    unfold decOf ndec; rw [hc.und]; rfl
  have htk : P.take (started P th) = P.take (started P th - 1) ++ [i] := take_pred_snoc hpos hop
  have hsub : (A ++ (P.take (started P th - 1) ++ [i]) ++ B).Sublist progs.flatten := by
    rw [← htk]; exact h3 _
  have hpw := List.Pairwise.sublist hsub hyp.indep
  refine ⟨A, B, by rw [h1, hdec], ?_, ?_, ?_, hpw, hyp.ok_flat hsub⟩
  · intro th' hp hu
    rw [h2 th', h1]
    congr 2
    unfold decOf ndec; rw [hu, hc.und, started_set_prog hp]
  · intro th' hp hu
    rw [h2 th']
    congr 2
    unfold decOf ndec; rw [hu, started_set_prog hp]
    simp only [Bool.false_eq_true, if_false]
    exact htk
  · intro j hj
    rw [h1, hdec] at hj
    refine ⟨pairwise_mid (fun a b h => h.symm) hpw j hj, ?_⟩
    apply hyp.ok_flat (h3 (started P th - 1)) j
    exact hj

/-! ### `AbsRel` -/

theorem absRel_mono {A S : Tree} {X X' : Path → Prop} (h : AbsRel A S X) (hx : ∀ q, X q → X' q) : AbsRel A S X' := by
  intro q
  rcases h q with h1 | ⟨h1, h2, h3⟩
  · exact Or.inl h1
  · exact Or.inr ⟨h1, h2, hx q h3⟩

theorem absRel_ensure {A S : Tree} {X : Path → Prop} (h : AbsRel A S X) {x : Path} (hx : X x) :
    AbsRel ((Eff1.ensureDir x).apply A) S X := by
  intro q
  simp only [Eff1.apply]
  by_cases hq : q = x
  · subst hq
    simp only [if_true]
    cases hA : A q with
    | none =>
      rcases h q with h1 | ⟨_, h2, _⟩
      · right; exact ⟨by rw [← h1, hA], rfl, hx⟩
      · rw [hA] at h2; cases h2
    | some e =>
      have := h q
      rw [hA] at this
      exact this
  · simp only [hq, if_false]; exact h q

/-- an operation is decided without effects (it failed, or it only read): the directories it made on
its way were there anyway -/
theorem absRel_drop {A S : Tree} {X X' : Path → Prop} (h : AbsRel A S X)
    (hx : ∀ q, X q → X' q ∨ (A q ≠ none → S q ≠ none)) : AbsRel A S X' := by
  intro q
  rcases h q with h1 | ⟨h1, h2, h3⟩
  · exact Or.inl h1
  · rcases hx q h3 with h4 | h4
    · exact Or.inr ⟨h1, h2, h4⟩
    · exact absurd h1 (h4 (by rw [h2]; simp))

/-- `MkdirAll p` is decided: every prefix of `p` is a directory -/
theorem absRel_mk {A S : Tree} {X X' : Path → Prop} (h : AbsRel A S X) {p : Path} (hp : p ≠ [])
    (hd : ∀ q, q ≠ [] → q <+: p → A q = some .dir)
    (hx : ∀ q, X q → X' q ∨ (q ≠ [] ∧ q <+: p)) :
    AbsRel A (runEffs S (AOp.effects ⟨p, none⟩)) X' := by
  intro q
  rw [runEffs_aop_mk S p hp q]
  by_cases hc : q ≠ [] ∧ q <+: p ∧ S q = none
  · rw [if_pos hc]
    exact Or.inl (hd q hc.1 hc.2.1)
  · rw [if_neg hc]
    rcases h q with h1 | ⟨h1, h2, h3⟩
    · exact Or.inl h1
    · rcases hx q h3 with h4 | h4
      · exact Or.inr ⟨h1, h2, h4⟩
      · exact absurd ⟨h4.1, h4.2, h1⟩ hc

/-- an operation that replaces the subtree at `w` by `sub` is decided -/
theorem absRel_graft {A S : Tree} {X X' : Path → Prop} (h : AbsRel A S X) {w : Path} (sub : Tree)
    (hd : ∀ q, q ≠ [] → q <+: w → q ≠ w → A q = some .dir)
    (hx : ∀ q, X q → X' q ∨ (q ≠ [] ∧ q <+: w ∧ q ≠ w)) :
    AbsRel ((Eff1.graft w sub).apply A) (runEffs S (AOp.effects ⟨w, some sub⟩)) X' := by
  intro q
  rw [runEffs_aop_graft S w sub q]
  simp only [Eff1.apply]
  by_cases hwq : w <+: q
  · simp [hwq, pfx_iff.2 hwq]
  · simp only [hwq, pfx_false_iff.2 hwq, Bool.false_eq_true, if_false]
    have hne : ∀ (_ : q <+: w), q ≠ w := by
      intro _ e; apply hwq; rw [e]; exact List.prefix_refl _
    by_cases hc : q ≠ [] ∧ q <+: w ∧ S q = none
    · rw [if_pos hc]
      exact Or.inl (hd q hc.1 hc.2.1 (hne hc.2.1))
    · rw [if_neg hc]
      rcases h q with h1 | ⟨h1, h2, h3⟩
      · exact Or.inl h1
      · rcases hx q h3 with h4 | h4
        · exact Or.inr ⟨h1, h2, h4⟩
        · exact absurd ⟨h4.1, h4.2.1, h1⟩ hc

/-! ### `Ext` when one thread moves -/

theorem ext_set_und {progs : List (List Op)} {ths : List Thread} {τ : Nat} {P : List Op} {th th' : Thread}
    (hP : progs[τ]? = some P) (hth : ths[τ]? = some th) (hp : th'.prog = th.prog)
    (hu : th.pc.creating = true → th'.pc.creating = true) {q : Path} (h : Ext progs ths q) :
    Ext progs (ths.set τ th') q := by
  obtain ⟨hq, τ1, P1, th1, op, c, h1, h2, h3, h4, h5, h6⟩ := h
  have hlt : τ < ths.length := (List.getElem?_eq_some_iff.1 hth).1
  by_cases hτ : τ1 = τ
  · subst hτ
    rw [hP] at h1; cases h1
    rw [hth] at h2; cases h2
    exact ⟨hq, τ1, P, th', op, c, hP, List.getElem?_set_self hlt, hu h3, by rw [curOp_set_prog hp]; exact h4, h5, h6⟩
  · refine ⟨hq, τ1, P1, th1, op, c, h1, ?_, h3, h4, h5, h6⟩
    rw [List.getElem?_set_ne (fun e => hτ e.symm)]; exact h2

theorem ext_set_dec {progs : List (List Op)} {ths : List Thread} {τ : Nat} {P : List Op} {th th' : Thread} {i : Op}
    (hP : progs[τ]? = some P) (hth : ths[τ]? = some th) (hc : curOp P th = some i) {q : Path}
    (h : Ext progs ths q) :
    Ext progs (ths.set τ th') q ∨ (th.pc.creating = true ∧ q ≠ [] ∧ ∃ c, i.C = some c ∧ q <+: c) := by
  obtain ⟨hq, τ1, P1, th1, op, c, h1, h2, h3, h4, h5, h6⟩ := h
  by_cases hτ : τ1 = τ
  · subst hτ
    rw [hP] at h1; cases h1
    rw [hth] at h2; cases h2
    rw [hc] at h4; cases h4
    exact Or.inr ⟨h3, hq, c, h5, h6⟩
  · left
    refine ⟨hq, τ1, P1, th1, op, c, h1, ?_, h3, h4, h5, h6⟩
    rw [List.getElem?_set_ne (fun e => hτ e.symm)]; exact h2

theorem ext_of_cur {progs : List (List Op)} {ths : List Thread} {τ : Nat} {P : List Op} {th : Thread} {i : Op}
    (hP : progs[τ]? = some P) (hth : ths[τ]? = some th) (hu : th.pc.creating = true) (hc : curOp P th = some i)
    {c q : Path} (hC : i.C = some c) (hq : q <+: c) (hne : q ≠ []) : Ext progs ths q :=
  ⟨hne, τ, P, th, i, c, hP, hth, hu, hc, hC, hq⟩

theorem indep_of_positions {R : Op → Op → Prop} (hsym : ∀ a b, R a b → R b a) {progs : List (List Op)}
    (h : progs.flatten.Pairwise R) {τ τ' : Nat} {P P' : List Op} {k k' : Nat} {a b : Op}
    (hP : progs[τ]? = some P) (hP' : progs[τ']? = some P') (ha : P[k]? = some a) (hb : P'[k']? = some b)
    (hne : τ ≠ τ' ∨ k ≠ k') : R a b := by
  induction progs generalizing τ τ' with
  | nil => simp at hP
  | cons Q Qs ih =>
    simp only [List.flatten_cons, List.pairwise_append] at h
    obtain ⟨hQ, hQs, hbetween⟩ := h
    have memflat : ∀ {σ : Nat} {X : List Op} {c : Op} {m : Nat}, Qs[σ]? = some X → X[m]? = some c → c ∈ Qs.flatten := by
      intro σ X c m h1 h2
      rw [List.mem_flatten]
      exact ⟨X, List.mem_of_getElem? h1, List.mem_of_getElem? h2⟩
    cases τ with
    | zero =>
      simp at hP; subst hP
      cases τ' with
      | zero =>
        simp at hP'; subst hP'
        have hkk : k ≠ k' := by
          rcases hne with h | h
          · exact absurd rfl h
          · exact h
        obtain ⟨hk, hak⟩ := List.getElem?_eq_some_iff.1 ha
        obtain ⟨hk', hbk⟩ := List.getElem?_eq_some_iff.1 hb
        rw [List.pairwise_iff_getElem] at hQ
        rcases Nat.lt_or_gt_of_ne hkk with hlt | hlt
        · have := hQ k k' hk hk' hlt
          rw [hak, hbk] at this; exact this
        · have := hQ k' k hk' hk hlt
          rw [hak, hbk] at this; exact hsym _ _ this
      | succ σ' =>
        simp at hP'
        exact hbetween a (List.mem_of_getElem? ha) b (memflat hP' hb)
    | succ σ =>
      simp at hP
      cases τ' with
      | zero =>
        simp at hP'; subst hP'
        exact hsym _ _ (hbetween b (List.mem_of_getElem? hb) a (memflat hP ha))
      | succ σ' =>
        simp at hP'
        refine ih hQs hP hP' ?_
        rcases hne with h | h
        · left; intro e; apply h; rw [e]
        · right; exact h

/-! ### what the global invariant says about the paths of an undecided operation -/

theorem own_not_pfx_C {i : Op} (hok : i.ok) {x c : Path} (hx : x ∈ i.owned) (hc : i.C = some c) : ¬ x <+: c := by
  intro hxc
  cases i <;> simp only [Op.owned, Op.W, Op.R, Op.C, Option.toList, List.mem_append, List.mem_singleton,
    List.not_mem_nil, or_false, false_or, Option.some.injEq, reduceCtorEq] at hx hc
  case writeFile p v =>
    subst hx; subst hc
    have h1 := hxc.length_le
    simp only [Op.ok] at hok
    have : 0 < x.length := List.length_pos_iff.2 hok
    simp at h1; omega
  case copy s d =>
    subst hc
    simp only [Op.ok] at hok
    rcases hx with rfl | rfl
    · have h1 := hxc.length_le
      have : 0 < x.length := List.length_pos_iff.2 hok.2.1
      simp at h1; omega
    · exact hok.2.2.1 (hxc.trans (dropLast_pfx _))

/-- at and below a path the undecided operation owns, the tree is still the initial one -/
theorem Cur.own {T0 : Tree} {progs : List (List Op)} {s : State} {τ : Nat} {P : List Op} {th : Thread} {i : Op}
    (hyp : Hyp T0 progs) (hs : Sim T0 progs s) (hc : Cur T0 progs s τ P th i)
    {x q : Path} (hx : x ∈ i.owned) (hq : x <+: q) : absT s.heap q = T0 q := by
  obtain ⟨A, B, _, _, _, hind, _, _⟩ := hc.dec hyp
  have hSD : SD T0 (decAll progs s.threads) q = T0 q :=
    SD_below (fun j hj => (hind j hj).2) (fun j hj => (hind j hj).1) hx hq
  rcases hs.abs q with h1 | ⟨h1, h2, hq0, τ1, P1, th1, op, c, g1, g2, g3, g4, g5, g6⟩
  · rw [h1, hSD]
  · exfalso
    have hxc : x <+: c := hq.trans g6
    by_cases hτ : τ1 = τ
    · subst hτ
      rw [hc.hP] at g1; cases g1
      rw [hc.hth] at g2; cases g2
      rw [hc.cur] at g4; cases g4
      exact own_not_pfx_C (hyp.ok_cur hc.hP hc.cur) hx g5 hxc
    · -- another thread: its current operation is at another position of the programs
      obtain ⟨A1, B1, e1, _, _, _, hpw, _⟩ := (Cur.mk g1 g2 (Pc.creating_undecided g3) g4 : Cur T0 progs s τ1 P1 th1 op).dec hyp
      -- `i` is not decided, `op` is not decided; use the pairwise independence of the whole family
      have hi : IndepOp i op := by
        have hflat := hyp.indep
        -- positions: (τ, started P th - 1) and (τ1, started P1 th1 - 1) with τ ≠ τ1
        obtain ⟨hp0, hp1⟩ := curOp_pos hc.cur
        obtain ⟨hq0', hq1⟩ := curOp_pos g4
        exact indep_of_positions (fun a b h => h.symm) hyp.indep hc.hP g1 hp1 hq1 (Or.inl (fun e => hτ e.symm))
      simp only [Op.owned, List.mem_append, Option.mem_toList] at hx
      rcases hx with hx | hx
      · exact hi.1 x hx c (by simp [Op.paths, g5]) hxc
      · exact hi.2.2.1 x hx c g5 hxc

end Goat.MemFSConc
