/-
Helper lemmas for property C09, part 15: every step keeps the simulation invariant (`sim_step`), it holds
initially (`sim_start_state`), hence after every schedule (`sim_runFrom`); and what it says when all
threads have finished (`sim_final`).
-/
import Goat.Proofs.MemFSConcSimStepD

set_option linter.unusedSimpArgs false
set_option linter.unusedVariables false
set_option linter.unnecessarySimpa false

namespace Goat.MemFSConc
open Goat.FS (Entry)

variable {T0 : Tree} {progs : List (List Op)} {s : State}

/-! ### beginning an operation -/

theorem splitLast_concat (d : Path) (n : Name) : splitLast (d ++ [n]) = some (d, n) := by
  induction d with
  | nil => rfl
  | cons a rest ih =>
    cases rest with
    | nil => simp [splitLast]
    | cons b rest' =>
      simp only [List.cons_append] at ih ⊢
      rw [splitLast, ih]
      · rfl
      · simp

theorem exists_concat_of_ne_nil {p : Path} (hp : p ≠ []) : ∃ d n, p = d ++ [n] := by
  rcases List.eq_nil_or_concat p with e | ⟨d, n, e⟩
  · exact absurd e hp
  · exact ⟨d, n, by rw [e, List.concat_eq_append]⟩

theorem start_inv (hs : Shape s.heap) {op : Op} (hok : op.ok) (hds : List Handle) :
    (start hds op).undecided = true ∧ PcInv T0 s.heap op (start hds op) ∧ (start hds op).pending = [] := by
  have root := DirAt.root hs
  cases op with
  | mkdirAll p =>
    simp only [Op.ok] at hok
    cases p with
    | nil => exact absurd rfl hok
    | cons n r => exact ⟨rfl, ⟨[], root, by simp, rfl⟩, rfl⟩
  | writeFile p v =>
    simp only [Op.ok] at hok
    obtain ⟨d, n, rfl⟩ := exists_concat_of_ne_nil hok
    simp only [start, splitLast_concat]
    cases d with
    | nil => exact ⟨rfl, ⟨[], root, rfl⟩, rfl⟩
    | cons m d' => exact ⟨rfl, ⟨[], root, by simp, rfl⟩, rfl⟩
  | readFile p =>
    simp only [Op.ok] at hok
    cases p with
    | nil => exact absurd rfl hok
    | cons n r => exact ⟨rfl, ⟨[], root, by simp, rfl⟩, rfl⟩
  | readDir p =>
    simp only [Op.ok] at hok
    cases p with
    | nil => exact absurd rfl hok
    | cons n r => exact ⟨rfl, ⟨[], root, by simp, rfl⟩, rfl⟩
  | probe p want =>
    simp only [Op.ok] at hok
    cases p with
    | nil => exact absurd rfl hok
    | cons n r => exact ⟨rfl, ⟨[], root, by simp, rfl⟩, rfl⟩
  | remove p =>
    simp only [Op.ok] at hok
    obtain ⟨d, n, rfl⟩ := exists_concat_of_ne_nil hok
    simp only [start, splitLast_concat]
    cases d with
    | nil => exact ⟨rfl, ⟨[], root, rfl⟩, rfl⟩
    | cons m d' => exact ⟨rfl, ⟨[], root, by simp, rfl⟩, rfl⟩
  | removeAll p =>
    simp only [Op.ok] at hok
    obtain ⟨d, n, rfl⟩ := exists_concat_of_ne_nil hok
    simp only [start, splitLast_concat]
    cases d with
    | nil => exact ⟨rfl, ⟨[], root, Or.inl rfl⟩, rfl⟩
    | cons m d' => exact ⟨rfl, ⟨[], root, by simp, rfl⟩, rfl⟩
  | copy s0 d0 =>
    simp only [Op.ok] at hok
    obtain ⟨dd, dn, rfl⟩ := exists_concat_of_ne_nil hok.2.1
    simp only [start, splitLast_concat]
    cases s0 with
    | nil => exact absurd rfl hok.1
    | cons m r => exact ⟨rfl, ⟨[], root, by simp, rfl⟩, rfl⟩
  | openW _ _ => exact absurd hok (by simp [Op.ok])
  | openR _ _ => exact absurd hok (by simp [Op.ok])
  | hwrite _ _ => exact absurd hok (by simp [Op.ok])
  | hread _ => exact absurd hok (by simp [Op.ok])
  | close _ => exact absurd hok (by simp [Op.ok])

theorem ext_set_not_und {ths : List Thread} {τ : Nat} {th th' : Thread}
    (hth : ths[τ]? = some th) (hu : th.pc.creating = false) {q : Path} (h : Ext progs ths q) :
    Ext progs (ths.set τ th') q := by
  obtain ⟨hq, τ1, P1, th1, op, c, h1, h2, h3, h4, h5, h6⟩ := h
  by_cases hτ : τ1 = τ
  · subst hτ
    rw [hth] at h2; cases h2
    rw [hu] at h3; cases h3
  · refine ⟨hq, τ1, P1, th1, op, c, h1, ?_, h3, h4, h5, h6⟩
    rw [List.getElem?_set_ne (fun e => hτ e.symm)]; exact h2

/-- the private objects of the threads stay apart when one thread gets a subset of what it had -/
theorem pend_set {ths : List Thread} {τ : Nat} {th th' : Thread} (hth : ths[τ]? = some th)
    (hsub : ∀ c ∈ th'.pc.pending, c ∈ th.pc.pending)
    (hp : ∀ (a b : Nat) tha thb, a ≠ b → ths[a]? = some tha → ths[b]? = some thb →
      ∀ c ∈ tha.pc.pending, c ∉ thb.pc.pending) :
    ∀ (a b : Nat) tha thb, a ≠ b → (ths.set τ th')[a]? = some tha → (ths.set τ th')[b]? = some thb →
      ∀ c ∈ tha.pc.pending, c ∉ thb.pc.pending := by
  have hlt : τ < ths.length := (List.getElem?_eq_some_iff.1 hth).1
  intro a b tha thb hab ha hb c hc
  by_cases h1 : a = τ
  · subst h1
    rw [List.getElem?_set_self hlt] at ha; cases ha
    rw [List.getElem?_set_ne hab] at hb
    exact hp a b th thb hab hth hb c (hsub c hc)
  · rw [List.getElem?_set_ne (fun e => h1 e.symm)] at ha
    by_cases h2 : b = τ
    · subst h2
      rw [List.getElem?_set_self hlt] at hb; cases hb
      intro hcb
      exact hp a b tha th hab ha hth c hc (hsub c hcb)
    · rw [List.getElem?_set_ne (fun e => h2 e.symm)] at hb
      exact hp a b tha thb hab ha hb c hc

theorem sim_start_step (hyp : Hyp T0 progs) (hs : Sim T0 progs s) {τ : Nat} {th : Thread}
    (hth : s.threads[τ]? = some th) {op : Op} {rest : List Op} (hpc : th.pc = .idle) (hprog : th.prog = op :: rest) :
    Sim T0 progs { s with threads := s.threads.set τ { th with pc := start th.handles op, prog := rest } } := by
  have hlt : τ < s.threads.length := (List.getElem?_eq_some_iff.1 hth).1
  obtain ⟨P, hP⟩ : ∃ P, progs[τ]? = some P := by
    have : τ < progs.length := by rw [← hs.len]; exact hlt
    exact ⟨progs[τ], List.getElem?_eq_getElem this⟩
  have old := hs.thr τ P th hP hth
  -- the operation that begins is P[k]
  have hk : started P th < P.length := by
    have := old.suffix
    rw [hprog] at this
    have h2 := congrArg List.length this
    simp at h2
    omega
  have hopk : P[started P th]? = some op := by
    have := old.suffix
    rw [hprog, List.drop_eq_getElem_cons hk] at this
    rw [List.getElem?_eq_getElem hk]
    exact congrArg some (List.cons.inj this).1.symm
  have hrest : rest = P.drop (started P th + 1) := by
    have := old.suffix
    rw [hprog, List.drop_eq_getElem_cons hk] at this
    exact (List.cons.inj this).2
  have hlen : rest.length = P.length - (started P th + 1) := by rw [hrest]; simp
  have hst' : started P { th with pc := start th.handles op, prog := rest } = started P th + 1 := by
    unfold started at *; simp only; rw [hlen]; omega
  have hopP : op ∈ P := List.mem_of_getElem? hopk
  have hPmem : P ∈ progs := List.mem_of_getElem? hP
  obtain ⟨hund, hinv, hpe⟩ := start_inv (T0 := T0) hs.shape (hyp.ok P hPmem op hopP) th.handles
  have hidle : start th.handles op ≠ .idle := by intro e; rw [e] at hund; cases hund
  refine ⟨hs.shape, by simp [hs.len], ?_, ?_, pend_set hth (by intro c hc; rw [hpe] at hc; cases hc) hs.pend⟩
  · intro τ1 P1 th1 hP1 hth1
    simp only at hth1
    by_cases hτ : τ1 = τ
    · subst hτ
      rw [List.getElem?_set_self hlt] at hth1; cases hth1
      rw [hP] at hP1; cases hP1
      refine ⟨by simp only; rw [hlen]; omega, by rw [hst']; exact hrest, fun e => absurd e hidle, fun _ => ?_⟩
      refine ⟨op, ?_, hinv, ?_⟩
      · unfold curOp; rw [hst']; simpa using hopk
      · show ResList T0 (P.take (started P { th with pc := start th.handles op, prog := rest } - 1)) (resultsOf s τ1)
        rw [hst', Nat.add_sub_cancel]; exact old.idle hpc
    · rw [List.getElem?_set_ne (fun e => hτ e.symm)] at hth1
      exact hs.thr τ1 P1 th1 hP1 hth1
  · simp only
    obtain ⟨A, B, h1, h2, _⟩ := decAll_split hP hth
    have hdec : decOf P { th with pc := start th.handles op, prog := rest } = decOf P th := by
      have e1 : ndec P { th with pc := start th.handles op, prog := rest } = started P th := by
        show (if (start th.handles op).undecided = true
          then started P { th with pc := start th.handles op, prog := rest } - 1
          else started P { th with pc := start th.handles op, prog := rest }) = _
        rw [hund, hst']; simp
      have e2 : ndec P th = started P th := by unfold ndec; rw [hpc]; rfl
      unfold decOf; rw [e1, e2]
    rw [h2, hdec, ← h1]
    exact absRel_mono hs.abs (fun q hq => ext_set_not_und hth (by rw [hpc]; rfl) hq)

/-! ### recording a result -/

theorem sim_fin_step (hyp : Hyp T0 progs) (hs : Sim T0 progs s) {τ : Nat} {th : Thread}
    (hth : s.threads[τ]? = some th) {r : Res} (hpc : th.pc = .fin r) :
    Sim T0 progs { heap := s.heap, threads := s.threads.set τ { th with pc := .idle }, log := (τ, r) :: s.log } := by
  have hlt : τ < s.threads.length := (List.getElem?_eq_some_iff.1 hth).1
  obtain ⟨P, hP⟩ : ∃ P, progs[τ]? = some P := by
    have : τ < progs.length := by rw [← hs.len]; exact hlt
    exact ⟨progs[τ], List.getElem?_eq_getElem this⟩
  have old := hs.thr τ P th hP hth
  obtain ⟨i, hcur, hinv, hres⟩ := old.busy (by rw [hpc]; simp)
  rw [hpc] at hinv
  obtain ⟨hpos, hop⟩ := curOp_pos hcur
  refine ⟨hs.shape, by simp [hs.len], ?_, ?_, pend_set hth (by intro c hc; simp [Pc.pending] at hc) hs.pend⟩
  · intro τ1 P1 th1 hP1 hth1
    simp only at hth1
    rw [resultsOf_log_cons]
    by_cases hτ : τ1 = τ
    · subst hτ
      rw [List.getElem?_set_self hlt] at hth1; cases hth1
      rw [hP] at hP1; cases hP1
      simp only [if_true]
      refine ⟨old.le, old.suffix, fun _ => ?_, fun hb => absurd rfl hb⟩
      show ResList T0 (P.take (started P th)) _
      rw [take_pred_snoc hpos hop]
      exact resList_snoc hres hinv
    · rw [List.getElem?_set_ne (fun e => hτ e.symm)] at hth1
      simp only [hτ, if_false]
      exact hs.thr τ1 P1 th1 hP1 hth1
  · exact absRel_decided_step hs hP hth (th' := { th with pc := .idle }) rfl (by rw [hpc]; rfl) rfl rfl

/-! ### every step -/

theorem sim_step (hyp : Hyp T0 progs) (hs : Sim T0 progs s) {t : Tid} {s' : State}
    (hst : step .fixed s t = some s') : Sim T0 progs s' := by
  obtain ⟨th, hth, hk⟩ := step_cases hst
  have hlt : t < s.threads.length := (List.getElem?_eq_some_iff.1 hth).1
  obtain ⟨P, hP⟩ : ∃ P, progs[t]? = some P := by
    have : t < progs.length := by rw [← hs.len]; exact hlt
    exact ⟨progs[t], List.getElem?_eq_getElem this⟩
  cases hk with
  | start op rest hpc hprog => exact sim_start_step hyp hs hth hpc hprog
  | fin r hpc => exact sim_fin_step hyp hs hth hpc
  | act h' r hni hnf hap =>
    have old := hs.thr t P th hP hth
    obtain ⟨i, hcur, hinv, _⟩ := old.busy hni
    have key : ∀ pc, th.pc = pc → PcInv T0 s.heap i pc → applyAct s.heap t (actOf .fixed pc) = some (h', r) →
        Sim T0 progs { heap := h', threads := s.threads.set t { th with pc := resume .fixed pc r, handles := handleEffect pc r th.handles }, log := s.log } := by
      intro pc hpc hinv hap
      have hyp' := hyp
      cases pc <;> try (exfalso; simpa only [PcInv] using hinv)
      case fin r0 => exact absurd hpc (hnf r0)
      case mk cur rest k =>
        have hc : Cur T0 progs s t P th i := ⟨hP, hth, by rw [hpc]; rfl, hcur⟩
        cases rest with
        | nil => obtain ⟨_, _, hne, _⟩ := hinv; exact absurd rfl hne
        | cons n rest' => exact step_mk hyp' hs hc hpc hinv hap
      case mkLocked cur n rest k =>
        exact step_mkLocked hyp' hs ⟨hP, hth, by rw [hpc]; rfl, hcur⟩ hpc hinv hap
      case wLock d n v => exact step_wLock hyp' hs ⟨hP, hth, by rw [hpc]; rfl, hcur⟩ hinv hap
      case wLook d n v => exact step_wLook hyp' hs ⟨hP, hth, by rw [hpc]; rfl, hcur⟩ hinv hap
      case wAdd d n v => exact step_wAdd hyp' hs ⟨hP, hth, by rw [hpc]; rfl, hcur⟩ hinv hap
      case wUnlockFin d res => exact step_wUnlockFin hyp' hs hP hth hcur hpc hinv hap
      case wUnlockSet d f v => exact step_wUnlockSet hyp' hs ⟨hP, hth, by rw [hpc]; rfl, hcur⟩ hinv hap
      case wSet f v => exact step_wSet hyp' hs ⟨hP, hth, by rw [hpc]; rfl, hcur⟩ hinv hap
      case walk cur rest k =>
        have hc : Cur T0 progs s t P th i := ⟨hP, hth, by rw [hpc]; rfl, hcur⟩
        cases rest with
        | nil => obtain ⟨_, _, hne, _⟩ := hinv; exact absurd rfl hne
        | cons n rest' => exact step_walk hyp' hs hc (by rw [hpc]; rfl) hinv hap
      case rData f => exact step_rData hyp' hs ⟨hP, hth, by rw [hpc]; rfl, hcur⟩ hinv hap
      case rList d => exact step_rList hyp' hs ⟨hP, hth, by rw [hpc]; rfl, hcur⟩ hinv hap
      case rmLook o n => exact step_rmLook hyp' hs ⟨hP, hth, by rw [hpc]; rfl, hcur⟩ hinv hap
      case rmLen o n c => exact step_rmLen hyp' hs ⟨hP, hth, by rw [hpc]; rfl, hcur⟩ hinv hap
      case rmDo o n => exact step_rmDo hyp' hs ⟨hP, hth, by rw [hpc]; rfl, hcur⟩ hinv hap
      case cFile d n src => exact step_cFile hyp' hs ⟨hP, hth, by rw [hpc]; rfl, hcur⟩ hpc hinv hap
      case cEnter d n src => exact step_cEnter hyp' hs ⟨hP, hth, by rw [hpc]; rfl, hcur⟩ hinv hap
      case cAdd d n c => exact step_cAdd hyp' hs ⟨hP, hth, by rw [hpc]; rfl, hcur⟩ hpc hinv hap
      case cDir d n stack =>
        have hc : Cur T0 progs s t P th i := ⟨hP, hth, by rw [hpc]; rfl, hcur⟩
        cases stack with
        | nil => obtain ⟨_, _, _, _, _, hne, _⟩ := hinv; exact absurd rfl hne
        | cons fr rest => exact step_cDir hyp' hs hc hpc hinv hap
    exact key th.pc rfl hinv hap

/-! ### the initial state and every schedule -/

/-- threads that have not begun, on a given heap -/
def startState (h0 : Heap) (progs : List (List Op)) : State :=
  { heap := h0, threads := progs.map fun p => { prog := p }, log := [] }

theorem decAll_start (progs : List (List Op)) : decAll progs (progs.map fun p => ({ prog := p } : Thread)) = [] := by
  induction progs with
  | nil => rfl
  | cons P Ps ih =>
    simp only [List.map_cons, decAll, ih, List.append_nil]
    unfold decOf ndec started
    simp [Pc.undecided]

theorem treeWF_absT {h : Heap} (hs : Shape h) : TreeWF (absT h) :=
  ⟨absT_root hs, fun _ _ hne => absT_parent hne⟩

theorem sim_start_state {h0 : Heap} (hs : Shape h0) (progs : List (List Op)) :
    Sim (absT h0) progs (startState h0 progs) := by
  refine ⟨hs, by simp [startState], ?_, ?_, ?_⟩
  · intro τ P th hP hth
    simp only [startState, List.getElem?_map] at hth
    rw [hP] at hth
    simp at hth
    subst hth
    have hst : started P ({ prog := P } : Thread) = 0 := by unfold started; simp
    refine ⟨Nat.le_refl _, by rw [hst]; simp, fun _ => ?_, fun hb => absurd rfl hb⟩
    rw [hst]
    exact resList_nil _
  · simp only [startState, decAll_start]
    intro q; left; rfl
  · intro a b tha thb _ ha _ c hc
    simp only [startState, List.getElem?_map] at ha
    cases hPa : progs[a]? with
    | none => simp [hPa] at ha
    | some Pa => simp [hPa] at ha; subst ha; simp [Pc.pending] at hc

theorem sim_runFrom (hyp : Hyp T0 progs) (sched : List Tid) (hs : Sim T0 progs s) :
    Sim T0 progs ((sys .fixed progs).runFrom s sched) := by
  induction sched generalizing s with
  | nil => exact hs
  | cons t rest ih =>
    rw [LTS.runFrom_cons]
    apply ih
    unfold LTS.Sys.next
    cases hst : (sys .fixed progs).step s t with
    | none => exact hs
    | some s' => exact sim_step hyp hs hst

/-! ### when every thread has finished -/

theorem decAll_finished {ths : List Thread} (hl : ths.length = progs.length)
    (hthr : ∀ (τ : Nat) (P : List Op) (th : Thread), progs[τ]? = some P → ths[τ]? = some th → th.prog.length ≤ P.length)
    (hfin : ∀ th ∈ ths, th.finished = true) : decAll progs ths = progs.flatten := by
  induction progs generalizing ths with
  | nil => cases ths <;> simp [decAll]
  | cons P Ps ih =>
    cases ths with
    | nil => simp at hl
    | cons th ts =>
      simp only [decAll, List.flatten_cons]
      have hf := hfin th (by simp)
      have hpc : th.pc = .idle ∧ th.prog = [] := by
        unfold Thread.finished at hf
        split at hf
        · exact ⟨by assumption, by assumption⟩
        · cases hf
      have : decOf P th = P := by
        unfold decOf ndec started
        rw [hpc.1, hpc.2]
        simp [Pc.undecided]
      rw [this, ih (by simpa using hl) (fun τ P1 th1 h1 h2 => hthr (τ + 1) P1 th1 (by simpa using h1) (by simpa using h2))
        (fun th1 h1 => hfin th1 (by simp [h1]))]

/-- ALL THREADS FINISHED: the abstract tree of the heap is the initial tree with the micro effects of all
operations (in the order of the programs — and, the effects being independent, in any order), and every
thread has logged, for each of its operations in order, the result the operation has in the initial tree. -/
theorem sim_final (hyp : Hyp T0 progs) (hs : Sim T0 progs s)
    (hfin : ∀ t, unfinished s t = false) :
    absT s.heap = SD T0 progs.flatten ∧
    ∀ τ P, progs[τ]? = some P → ResList T0 P (resultsOf s τ) := by
  have hall : ∀ th ∈ s.threads, th.finished = true := by
    intro th hth
    obtain ⟨τ, hlt, hτ⟩ := List.getElem_of_mem hth
    have := hfin τ
    unfold unfinished at this
    rw [List.getElem?_eq_getElem hlt, hτ] at this
    simpa using this
  have hdec : decAll progs s.threads = progs.flatten :=
    decAll_finished hs.len (fun τ P th h1 h2 => (hs.thr τ P th h1 h2).le) hall
  constructor
  · funext q
    rcases hs.abs q with h1 | ⟨_, _, _, τ, P, th, op, c, _, h2, h3, _⟩
    · rw [h1, hdec]
    · exfalso
      have := hall th (List.mem_of_getElem? h2)
      unfold Thread.finished at this
      split at this
      · rename_i hpc _
        rw [hpc] at h3; cases h3
      · cases this
  · intro τ P hP
    have hlt : τ < s.threads.length := by
      rw [hs.len]; exact (List.getElem?_eq_some_iff.1 hP).1
    have hth : s.threads[τ]? = some s.threads[τ] := List.getElem?_eq_getElem hlt
    have old := hs.thr τ P _ hP hth
    have hf := hall _ (List.getElem_mem hlt)
    have hpc : s.threads[τ].pc = .idle ∧ s.threads[τ].prog = [] := by
      unfold Thread.finished at hf
      split at hf
      · exact ⟨by assumption, by assumption⟩
      · cases hf
    have := old.idle hpc.1
    have hst : started P s.threads[τ] = P.length := by unfold started; rw [hpc.2]; simp
    rw [hst, List.take_length] at this
    exact this

end Goat.MemFSConc
