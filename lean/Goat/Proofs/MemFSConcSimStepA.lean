/-
Helper lemmas for property C09, part 12: the steps of `MkdirAll` and `WriteFile` keep the simulation
invariant (`mk`, `mkLocked`, `wLock`, `wLook`, `wAdd`, `wUnlockFin`, `wUnlockSet`, `wSet`).
-/
import Goat.Proofs.MemFSConcSimCore

set_option linter.unusedSimpArgs false
set_option linter.unusedVariables false

namespace Goat.MemFSConc
open Goat.FS (Entry)

/-! ### objects and what they are in the abstract tree -/

theorem okind_some_of_lt {h : Heap} {o : Oid} (ho : o < h.length) : ∃ b, okind h o = some b := by
  rw [okind_eq, List.getElem?_eq_getElem ho]
  cases h[o] <;> simp [kindObj]

theorem kindOf_true {h : Heap} {o : Oid} (hk : kindOf h o = true) : okind h o = some true := by
  rw [kindOf_eq_okind] at hk
  simpa using hk

theorem kindOf_false_lt {h : Heap} {o : Oid} (ho : o < h.length) (hk : kindOf h o = false) : okind h o = some false := by
  obtain ⟨b, hb⟩ := okind_some_of_lt ho
  rw [kindOf_eq_okind, hb] at hk
  cases b
  · exact hb
  · simp at hk

theorem entryOf_of_okind_false {h : Heap} {o : Oid} (hk : okind h o = some false) : ∃ d, entryOf h o = some (.file d) := by
  obtain ⟨f, hf⟩ := getFile_of_okind hk
  exact ⟨f.data, entryOf_of_getFile hf⟩

theorem entryOf_ne_none_of_lt {h : Heap} {o : Oid} (ho : o < h.length) : entryOf h o ≠ none := by
  obtain ⟨b, hb⟩ := okind_some_of_lt ho
  intro e
  rw [entryOf_none_iff, hb] at e
  cases e

theorem edge_eq_index {h : Heap} {o : Oid} {dd : DirObj} (hg : getDir h o = some dd) (n : Name) :
    edge h o n = dd.index n := by
  unfold edge; rw [hg]

theorem DirAt.getDir {h : Heap} {π : Path} {o : Oid} (hd : DirAt h π o) : ∃ dd, getDir h o = some dd :=
  getDir_of_okind hd.2

theorem DirAt.abs {h : Heap} {π : Path} {o : Oid} (hd : DirAt h π o) : absT h π = some .dir := by
  rw [absT_of_resolve hd.1]; exact entryOf_dir_iff.2 hd.2

theorem abs_pfx_of_resolve {h : Heap} {p : Path} {o : Oid} (hr : resolve h 0 p = some o) {q : Path}
    (hq : q <+: p) (hne : q ≠ p) : absT h q = some .dir := by
  obtain ⟨r, rfl⟩ := hq
  cases r with
  | nil => simp at hne
  | cons m r' =>
    obtain ⟨a, ha, hk⟩ := resolve_prefix_dir hr
    rw [absT_of_resolve ha]; exact entryOf_dir_iff.2 hk

theorem DirAt.abs_pfx {h : Heap} {π : Path} {o : Oid} (hd : DirAt h π o) {q : Path} (hq : q <+: π) :
    absT h q = some .dir := by
  by_cases hne : q = π
  · rw [hne]; exact hd.abs
  · exact abs_pfx_of_resolve hd.1 hq hne

theorem FileAt.abs {h : Heap} {p : Path} {f : Oid} (hf : FileAt h p f) : ∃ d, absT h p = some (.file d) := by
  obtain ⟨d, hd⟩ := entryOf_of_okind_false hf.2
  exact ⟨d, by rw [absT_of_resolve hf.1]; exact hd⟩

theorem FileAt.abs_pfx {h : Heap} {p : Path} {f : Oid} (hf : FileAt h p f) {q : Path} (hq : q <+: p) (hne : q ≠ p) :
    absT h q = some .dir := abs_pfx_of_resolve hf.1 hq hne

theorem DirAt.child {h : Heap} (hs : Shape h) {π : Path} {o : Oid} (hd : DirAt h π o) {n : Name} {c : Oid}
    (he : edge h o n = some c) : resolve h 0 (π ++ [n]) = some c ∧ c < h.length := by
  refine ⟨by rw [resolve_snoc, hd.1]; simpa using he, (hs.closed _ _ _ he).1⟩

theorem DirAt.abs_child_none {h : Heap} {π : Path} {o : Oid} (hd : DirAt h π o) {n : Name}
    (he : edge h o n = none) : absT h (π ++ [n]) = none := by
  apply absT_none_of_resolve
  rw [resolve_snoc, hd.1]; simpa using he

theorem DirAt.child_dir {h : Heap} (hs : Shape h) {π : Path} {o : Oid} (hd : DirAt h π o) {n : Name} {c : Oid}
    (he : edge h o n = some c) (hk : kindOf h c = true) : DirAt h (π ++ [n]) c :=
  ⟨(hd.child hs he).1, kindOf_true hk⟩

theorem DirAt.child_file {h : Heap} (hs : Shape h) {π : Path} {o : Oid} (hd : DirAt h π o) {n : Name} {c : Oid}
    (he : edge h o n = some c) (hk : kindOf h c = false) : FileAt h (π ++ [n]) c :=
  ⟨(hd.child hs he).1, kindOf_false_lt (hd.child hs he).2 hk⟩

theorem DirAt.root {h : Heap} (hs : Shape h) : DirAt h [] 0 := ⟨resolve_nil _ _, hs.root⟩

/-- an `ensureDir` never changes an entry that exists -/
theorem ensure_keeps {A A' : Tree} {x : Path} (h : A' = A ∨ A' = (Eff1.ensureDir x).apply A) {q : Path} {e : Entry}
    (hq : A q = some e) : A' q = some e := by
  rcases h with rfl | rfl
  · exact hq
  · simp only [Eff1.apply]
    by_cases hqx : q = x
    · subst hqx; simp [hq]
    · simp [hqx, hq]

/-- the directories on the way are directories: the initial tree has no file there -/
theorem Cur.mkdirOk {T0 : Tree} {progs : List (List Op)} {s : State} {τ : Nat} {P : List Op} {th : Thread} {i : Op}
    (hyp : Hyp T0 progs) (hs : Sim T0 progs s) (hc : Cur T0 progs s τ P th i) {c : Path} (hC : c ∈ i.paths)
    {A' : Tree} {x : Path} (hA : A' = absT s.heap ∨ A' = (Eff1.ensureDir x).apply (absT s.heap))
    (hd : ∀ q, q <+: c → A' q = some .dir) : FS.mkdirOk T0 c := by
  intro q hq d hT
  rcases hc.pfx hyp hs hC hq with h1 | ⟨h1, _⟩
  · rw [hT] at h1
    have := ensure_keeps hA h1
    rw [hd q hq] at this; cases this
  · rw [hT] at h1; cases h1

/-! ### steps that do not change the heap -/

theorem sim_same_stay {T0 : Tree} {progs : List (List Op)} {s : State} {τ : Nat} {P : List Op} {th : Thread} {i : Op}
    (hyp : Hyp T0 progs) (hs : Sim T0 progs s) (hc : Cur T0 progs s τ P th i) {pc' : Pc} {hs' : List Handle}
    (hu : pc'.undecided = true) (hpc : PcInv T0 s.heap i pc')
    (hcr : th.pc.creating = true → pc'.creating = true := by intro _; rfl)
    (hpend : ∀ c ∈ pc'.pending, c ∈ th.pc.pending ∨ s.heap.length ≤ c := by simp [Pc.pending]) :
    Sim T0 progs { heap := s.heap, threads := s.threads.set τ { th with pc := pc', handles := hs' }, log := s.log } := by
  have hidle : pc' ≠ .idle := by intro e; rw [e] at hu; cases hu
  exact sim_act_mk hyp hs hc.hP hc.hth hc.cur hc.busy (th' := { th with pc := pc', handles := hs' }) rfl
    hs.shape (StepFrame.refl _) (by simp) (fun _ _ _ _ _ hr => hr) hidle hpc hpend
    (absRel_stay_step hyp hs hc (th' := { th with pc := pc', handles := hs' }) rfl hu hcr rfl)

theorem sim_same_noeff {T0 : Tree} {progs : List (List Op)} {s : State} {τ : Nat} {P : List Op} {th : Thread} {i : Op}
    (hyp : Hyp T0 progs) (hs : Sim T0 progs s) (hc : Cur T0 progs s τ P th i) {pc' : Pc} {hs' : List Handle}
    (hu : pc'.undecided = false) (hidle : pc' ≠ .idle) (hpc : PcInv T0 s.heap i pc') (heff : effOf T0 i = [])
    (hjunk : th.pc.creating = true → ∀ c q, i.C = some c → q <+: c → absT s.heap q ≠ none → T0 q ≠ none)
    (hpend : ∀ c ∈ pc'.pending, c ∈ th.pc.pending ∨ s.heap.length ≤ c := by simp [Pc.pending]) :
    Sim T0 progs { heap := s.heap, threads := s.threads.set τ { th with pc := pc', handles := hs' }, log := s.log } :=
  sim_act_mk hyp hs hc.hP hc.hth hc.cur hc.busy (th' := { th with pc := pc', handles := hs' }) rfl
    hs.shape (StepFrame.refl _) (by simp) (fun _ _ _ _ _ hr => hr) hidle hpc hpend
    (absRel_noeff_step hyp hs hc (th' := { th with pc := pc', handles := hs' }) rfl hu rfl heff hjunk)

/-- the heap changes in lock fields only (or an unlinked object is allocated) -/
theorem sim_locks_stay {T0 : Tree} {progs : List (List Op)} {s : State} {τ : Nat} {P : List Op} {th : Thread} {i : Op}
    (hyp : Hyp T0 progs) (hs : Sim T0 progs s) (hc : Cur T0 progs s τ P th i) {pc' : Pc} {hs' : List Handle}
    {h' : Heap} (he : EdgeEq s.heap h') (hk : EntKept s.heap h' none) (hl : s.heap.length ≤ h'.length)
    (hi : HeapInv h') (hu : pc'.undecided = true) (hpc : PcInv T0 s.heap i pc')
    (hcr : th.pc.creating = true → pc'.creating = true := by intro _; rfl)
    (hpend : ∀ c ∈ pc'.pending, c ∈ th.pc.pending ∨ s.heap.length ≤ c := by simp [Pc.pending])
    (hown : ∀ c ∈ pc'.pending, c ∈ th.pc.pending := by simp [Pc.pending]) :
    Sim T0 progs { heap := h', threads := s.threads.set τ { th with pc := pc', handles := hs' }, log := s.log } := by
  have hidle : pc' ≠ .idle := by intro e; rw [e] at hu; cases hu
  have hres : ∀ π o, resolve s.heap 0 π = some o → resolve h' 0 π = some o := by
    intro π o hr; rw [resolve_edgeEq he]; exact hr
  have hfr := StepFrame.of_edgeEq he hk hl
  exact sim_act_mk hyp hs hc.hP hc.hth hc.cur hc.busy (th' := { th with pc := pc', handles := hs' }) rfl
    (shape_same hs.shape hi he hk hl) hfr (by simp) (fun _ _ π o _ hr => hres π o hr) hidle
    (hpc.frame hs.shape hfr (fun π o _ hr => hres π o hr) (by simp)) hpend
    (absRel_stay_step hyp hs hc (th' := { th with pc := pc', handles := hs' }) rfl hu hcr
      (absT_edgeEq hs.shape he hk))

/-! ### `mkdirAllNodes` arrives at the next directory -/

theorem sim_mkOn {T0 : Tree} {progs : List (List Op)} {s : State} {τ : Nat} {P : List Op} {th : Thread} {i : Op}
    (hyp : Hyp T0 progs) (hs : Sim T0 progs s) (hc : Cur T0 progs s τ P th i) {h' : Heap} {hs' : List Handle}
    (hshape : Shape h') (hfr : StepFrame s.heap h' [])
    (hkeep : ∀ π o, resolve s.heap 0 π = some o → resolve h' 0 π = some o)
    (hcr0 : th.pc.creating = true)
    {π : Path} {n : Name} {rest : Path} {k : MK} {o : Oid}
    (hm : MkOK s.heap i (π ++ n :: rest) k) (hd' : DirAt h' (π ++ [n]) o)
    (habs : absT h' = absT s.heap ∨ absT h' = (Eff1.ensureDir (π ++ [n])).apply (absT s.heap)) :
    Sim T0 progs { heap := h', threads := s.threads.set τ { th with pc := mkOn o rest k, handles := hs' }, log := s.log } := by
  have hC := mkOK_C hm
  have hm' : MkOK h' i (π ++ n :: rest) k := hm.frame hs.shape hfr.kind (fun π o _ hr => hkeep π o hr)
  have hxc : (π ++ [n]) <+: (π ++ n :: rest) := by
    rw [show π ++ n :: rest = (π ++ [n]) ++ rest by simp]; exact List.prefix_append _ _
  have hxne : π ++ [n] ≠ [] := by simp
  -- the abstract relation when the operation stays undecided
  have hstay : ∀ pc', pc'.undecided = true → pc'.creating = true →
      AbsRel (absT h') (SD T0 (decAll progs (s.threads.set τ { th with pc := pc', handles := hs' })))
        (Ext progs (s.threads.set τ { th with pc := pc', handles := hs' })) := by
    intro pc' hu hcr
    rcases habs with h | h
    · exact absRel_stay_step hyp hs hc (th' := { th with pc := pc', handles := hs' }) rfl hu (fun _ => hcr) h
    · exact absRel_ensure_step hyp hs hc (th' := { th with pc := pc', handles := hs' }) rfl hu hcr0 hcr hC hxc hxne h
  have hmk : ∀ pc', pc' ≠ .idle → PcInv T0 h' i pc' → pc'.pending = [] → pc'.undecided = true → pc'.creating = true →
      Sim T0 progs { heap := h', threads := s.threads.set τ { th with pc := pc', handles := hs' }, log := s.log } := by
    intro pc' hidle hpc hpe hu hcr
    exact sim_act_mk hyp hs hc.hP hc.hth hc.cur hc.busy (th' := { th with pc := pc', handles := hs' })
      rfl hshape hfr (by simp) (fun _ _ π o _ hr => hkeep π o hr) hidle hpc (by simp [hpe]) (hstay pc' hu hcr)
  cases rest with
  | cons m rest' =>
    exact hmk (.mk o (m :: rest') k) (by simp)
      ⟨π ++ [n], hd', by simp, by simpa [List.append_assoc] using hm'⟩ rfl rfl rfl
  | nil =>
    cases k with
    | done =>
      simp only [MkOK] at hm
      subst hm
      have hdirs : ∀ q, q <+: π ++ [n] → absT h' q = some .dir := fun q hq => hd'.abs_pfx hq
      have hsucc : succ T0 (.mkdirAll (π ++ [n])) :=
        hc.mkdirOk hyp hs (mem_paths_C rfl) habs hdirs
      have hpc : PcInv T0 h' (.mkdirAll (π ++ [n])) (.fin .ok) := Or.inl ⟨hsucc, rfl⟩
      refine sim_act_mk hyp hs hc.hP hc.hth hc.cur hc.busy (th' := { th with pc := .fin .ok, handles := hs' })
        rfl hshape hfr (by simp) (fun _ _ π o _ hr => hkeep π o hr) (by simp) hpc (by simp [Pc.pending]) ?_
      apply absRel_mk_step hyp hs hc (th' := { th with pc := .fin .ok, handles := hs' }) rfl rfl hcr0 _ hsucc
        (fun q _ hq => hdirs q hq)
      rcases habs with h | h
      · exact Or.inl h
      · exact Or.inr ⟨π ++ [n], List.prefix_refl _, hxne, h⟩
    | write m v =>
      exact hmk (.wLock o m v) (by simp) ⟨π ++ [n], hd', hm'⟩ rfl rfl rfl
    | openW _ _ => exact absurd hm (by simp [MkOK])
    | copyDst m src isDir =>
      obtain ⟨s0, hop, hr, hk⟩ := hm'
      cases isDir with
      | true => exact hmk (.cEnter o m src) (by simp [afterMk]) ⟨π ++ [n], s0, hd', hop, hr, hk⟩ rfl rfl rfl
      | false => exact hmk (.cFile o m src) (by simp [afterMk]) ⟨π ++ [n], s0, hd', hop, hr, hk⟩ rfl rfl rfl

/-- the step fails because a file is in the way of the directories to create -/
theorem sim_mk_blocked {T0 : Tree} {progs : List (List Op)} {s : State} {τ : Nat} {P : List Op} {th : Thread} {i : Op}
    (hyp : Hyp T0 progs) (hs : Sim T0 progs s) (hc : Cur T0 progs s τ P th i) {hs' : List Handle}
    {π : Path} {n : Name} {rest : Path} {k : MK} {o c : Oid}
    (hm : MkOK s.heap i (π ++ n :: rest) k) (hd : DirAt s.heap π o) (he : edge s.heap o n = some c)
    (hk : kindOf s.heap c = false) :
    Sim T0 progs { heap := s.heap, threads := s.threads.set τ { th with pc := .fin .err, handles := hs' }, log := s.log } := by
  have hC := mkOK_C hm
  have hf := hd.child_file hs.shape he hk
  obtain ⟨dat, hdat⟩ := hf.abs
  have hxc : (π ++ [n]) <+: (π ++ n :: rest) := by
    rw [show π ++ n :: rest = (π ++ [n]) ++ rest by simp]; exact List.prefix_append _ _
  have hT : T0 (π ++ [n]) = some (.file dat) := by
    rcases hc.pfx hyp hs (mem_paths_C hC) hxc with h1 | ⟨_, h1⟩
    · rw [← h1]; exact hdat
    · rw [hdat] at h1; cases h1
  have hnot : ¬ FS.mkdirOk T0 (π ++ n :: rest) := fun hok => hok _ hxc dat hT
  have hns : ¬ succ T0 i := by
    cases k with
    | done => simp only [MkOK] at hm; subst hm; exact hnot
    | write m v =>
      simp only [MkOK] at hm; subst hm
      intro hw
      apply hnot
      have := hw.2.1
      rw [List.dropLast_concat] at this
      exact this
    | openW _ _ => exact absurd hm (by simp [MkOK])
    | copyDst m src isDir =>
      obtain ⟨s0, rfl, _, _⟩ := hm
      intro hw
      apply hnot
      have := hw.2.2.1
      rw [List.dropLast_concat] at this
      exact this
  have heff : effOf T0 i = [] := by unfold effOf; rw [if_neg hns]
  have hres : ResOK T0 i .err := by
    cases k with
    | done => simp only [MkOK] at hm; subst hm; exact Or.inr ⟨hns, rfl⟩
    | write m v => simp only [MkOK] at hm; subst hm; exact Or.inr ⟨hns, rfl⟩
    | openW _ _ => exact absurd hm (by simp [MkOK])
    | copyDst m src isDir => obtain ⟨s0, rfl, _, _⟩ := hm; exact Or.inr ⟨hns, rfl⟩
  refine sim_same_noeff hyp hs hc rfl (by simp) hres heff ?_
  intro _ c' q hc' hq hA
  rw [hC] at hc'; cases hc'
  rcases pfx_comparable hq hxc with h1 | h1
  · by_cases e : q = π ++ [n]
    · rw [e, hT]; simp
    · rw [hyp.wf.pfx' (by rw [hT]; simp) h1 e]; simp
  · by_cases e : q = π ++ [n]
    · rw [e, hT]; simp
    · exfalso
      obtain ⟨r, rfl⟩ := h1
      have hr : r ≠ [] := by intro e'; apply e; simp [e']
      have := absT_prefix (p := π ++ [n]) (q := r) hA hr
      rw [hdat] at this; cases this

end Goat.MemFSConc
