/-
Helper lemmas for property C09, part 13: one lemma per program counter of `MkdirAll` / `WriteFile`: the
critical section it enters keeps the simulation invariant.
-/
import Goat.Proofs.MemFSConcSimStepA

set_option linter.unusedSimpArgs false
set_option linter.unusedVariables false

namespace Goat.MemFSConc
open Goat.FS (Entry)

theorem actOK_of_not_newDir {a : Act} (h : ∀ nodes rel, a ≠ .newDir nodes rel) : ActOK a := by
  cases a <;> first | trivial | exact absurd rfl (h _ _)

theorem edgeEq_refl (h : Heap) : EdgeEq h h := fun _ _ => rfl

theorem entKept_refl (h : Heap) (f : Option Oid) : EntKept h h f := fun _ _ => ⟨rfl, fun _ => rfl⟩

theorem act_outerLock {h h' : Heap} {t : Tid} {d : Oid} {r : Ret} {dd : DirObj} (hd : getDir h d = some dd)
    (hs : applyAct h t (.outerLock d) = some (h', r)) :
    r = .unit ∧ ∃ dd' : DirObj, dd'.index = dd.index ∧ h' = h.set d (.dir dd') := by
  obtain ⟨e, he, hh, hr⟩ := applyAct_some hs
  simp only [actEff, hd] at he
  split at he
  · simp at he; subst he
    exact ⟨hr.symm, { dd with outer := some t }, rfl, by rw [← hh]; rfl⟩
  · cases he

/-- the embedded lock of the directory changes nothing abstract -/
theorem outer_same {h h' : Heap} {t : Tid} {d : Oid} {r : Ret} {a : Act} (hi : HeapInv h)
    (ha : a = .outerLock d ∨ a = .outerUnlock d) (hs : applyAct h t a = some (h', r)) :
    EdgeEq h h' ∧ EntKept h h' none ∧ h.length ≤ h'.length ∧ HeapInv h' := by
  have hinv : HeapInv h' := applyAct_heapInv hi
    (actOK_of_not_newDir (by rcases ha with rfl | rfl <;> intro _ _ e <;> cases e)) hs
  rcases act_outer ha hs with rfl | ⟨dd, dd', hd, hidx, rfl⟩
  · exact ⟨edgeEq_refl _, entKept_refl _ _, Nat.le_refl _, hinv⟩
  · obtain ⟨h1, h2⟩ := same_of_set_dir hd hidx
    exact ⟨h1, h2, by simp, hinv⟩

variable {T0 : Tree} {progs : List (List Op)} {s : State} {τ : Nat} {P : List Op} {th : Thread} {i : Op}

theorem step_mk (hyp : Hyp T0 progs) (hs : Sim T0 progs s) (hc : Cur T0 progs s τ P th i)
    {cur : Oid} {n : Name} {rest : Path} {k : MK} (hpc : th.pc = .mk cur (n :: rest) k)
    (hinv : PcInv T0 s.heap i (.mk cur (n :: rest) k))
    {h' : Heap} {r : Ret} (hap : applyAct s.heap τ (.lookup cur n) = some (h', r)) {hs' : List Handle} :
    Sim T0 progs { heap := h', threads := s.threads.set τ { th with pc := resume .fixed (.mk cur (n :: rest) k) r, handles := hs' }, log := s.log } := by
  obtain ⟨π, hd, _, hm⟩ := hinv
  obtain ⟨rfl, rfl⟩ := act_lookup hap
  cases he : edge s.heap cur n with
  | none =>
    simp only [Option.map_none, resume]
    exact sim_same_stay hyp hs hc rfl ⟨π, hd, hm⟩
  | some o =>
    cases hk : kindOf s.heap o with
    | true =>
      simp only [Option.map_some, hk, resume]
      exact sim_mkOn hyp hs hc hs.shape (StepFrame.refl _) (fun _ _ hr => hr) (by rw [hpc]; rfl) hm
        (hd.child_dir hs.shape he hk) (Or.inl rfl)
    | false =>
      simp only [Option.map_some, hk, resume]
      exact sim_same_stay hyp hs hc rfl ⟨π, hd, hm⟩

theorem step_mkLocked (hyp : Hyp T0 progs) (hs : Sim T0 progs s) (hc : Cur T0 progs s τ P th i)
    {cur : Oid} {n : Name} {rest : Path} {k : MK} (hpc : th.pc = .mkLocked cur n rest k)
    (hinv : PcInv T0 s.heap i (.mkLocked cur n rest k))
    {h' : Heap} {r : Ret} (hap : applyAct s.heap τ (.mkdirLocked cur n) = some (h', r)) {hs' : List Handle} :
    Sim T0 progs { heap := h', threads := s.threads.set τ { th with pc := resume .fixed (.mkLocked cur n rest k) r, handles := hs' }, log := s.log } := by
  obtain ⟨π, hd, hm⟩ := hinv
  obtain ⟨dd, hdd⟩ := hd.getDir
  have hinv' : HeapInv h' := applyAct_heapInv hs.shape.inv (actOK_of_not_newDir (by intro _ _ e; cases e)) hap
  rcases act_mkdirLocked hdd hap with ⟨o, hi, hk, rfl, rfl⟩ | ⟨o, hi, hk, rfl, rfl⟩ | ⟨hi, dd', hadd, rfl, rfl⟩
  · simp only [resume]
    have he : edge s.heap cur n = some o := by rw [edge_eq_index hdd]; exact hi
    exact sim_mkOn hyp hs hc hs.shape (StepFrame.refl _) (fun _ _ hr => hr) (by rw [hpc]; rfl) hm
      (hd.child_dir hs.shape he hk) (Or.inl rfl)
  · simp only [resume]
    have he : edge s.heap cur n = some o := by rw [edge_eq_index hdd]; exact hi
    exact sim_mk_blocked hyp hs hc hm hd he hk
  · simp only [resume]
    obtain ⟨hal, hkept, hent⟩ := addLeaf_of (x := .dir {}) hs.shape hdd hadd (by intro m; simp [edgeObj])
    have hN : s.heap.length ≠ 0 := Nat.ne_of_gt hs.shape.length_pos
    have hentd : entryOf (s.heap.set cur (.dir dd') ++ [.dir {}]) s.heap.length = some .dir := by
      rw [hent]; rfl
    have hshape : Shape (s.heap.set cur (.dir dd') ++ [.dir {}]) :=
      shape_addLeaf hs.shape hinv' hal hkept (by simp)
    refine sim_mkOn hyp hs hc hshape (StepFrame.of_addLeaf hal hkept (by simp) hd.1 (Or.inr (Nat.le_refl _)))
      (fun _ _ hr => hal.mono hr) (by rw [hpc]; rfl) hm ⟨hal.new hd.1, entryOf_dir_iff.1 hentd⟩ (Or.inr ?_)
    exact absT_addLeaf_dir hs.shape hal hkept hN hd.1 hentd

theorem step_wLock (hyp : Hyp T0 progs) (hs : Sim T0 progs s) (hc : Cur T0 progs s τ P th i)
    {d : Oid} {n : Name} {v : Data} (hinv : PcInv T0 s.heap i (.wLock d n v))
    {h' : Heap} {r : Ret} (hap : applyAct s.heap τ (.outerLock d) = some (h', r)) {hs' : List Handle} :
    Sim T0 progs { heap := h', threads := s.threads.set τ { th with pc := resume .fixed (.wLock d n v) r, handles := hs' }, log := s.log } := by
  obtain ⟨π, hd, hop⟩ := hinv
  obtain ⟨dd, hdd⟩ := hd.getDir
  obtain ⟨rfl, _⟩ := act_outerLock hdd hap
  obtain ⟨h1, h2, h3, h4⟩ := outer_same hs.shape.inv (Or.inl rfl) hap
  simp only [resume]
  exact sim_locks_stay hyp hs hc h1 h2 h3 h4 rfl ⟨π, hd, hop⟩

theorem step_wLook (hyp : Hyp T0 progs) (hs : Sim T0 progs s) (hc : Cur T0 progs s τ P th i)
    {d : Oid} {n : Name} {v : Data} (hinv : PcInv T0 s.heap i (.wLook d n v))
    {h' : Heap} {r : Ret} (hap : applyAct s.heap τ (.lookup d n) = some (h', r)) {hs' : List Handle} :
    Sim T0 progs { heap := h', threads := s.threads.set τ { th with pc := resume .fixed (.wLook d n v) r, handles := hs' }, log := s.log } := by
  obtain ⟨π, hd, hop⟩ := hinv
  subst hop
  obtain ⟨rfl, rfl⟩ := act_lookup hap
  have hown : absT s.heap (π ++ [n]) = T0 (π ++ [n]) :=
    hc.own hyp hs (x := π ++ [n]) (by simp [Op.owned, Op.W]) (List.prefix_refl _)
  cases he : edge s.heap d n with
  | none =>
    simp only [Option.map_none, resume]
    refine sim_same_stay hyp hs hc rfl ⟨π, hd, rfl, ?_⟩
    rw [← hown]; exact hd.abs_child_none he
  | some o =>
    cases hk : kindOf s.heap o with
    | true =>
      simp only [Option.map_some, hk, resume, if_true]
      have hT : T0 (π ++ [n]) = some .dir := by
        rw [← hown]; exact (hd.child_dir hs.shape he hk).abs
      have hns : ¬ succ T0 (.writeFile (π ++ [n]) v) := fun hw => hw.2.2 hT
      refine sim_same_noeff hyp hs hc rfl (by simp) (Or.inr ⟨hns, rfl⟩) (by unfold effOf; rw [if_neg hns]) ?_
      intro _ c q hC hq _
      simp only [Op.C, Option.some.injEq] at hC
      subst hC
      rw [List.dropLast_concat] at hq
      rw [hyp.wf.pfx' (p := π ++ [n]) (by rw [hT]; simp) (hq.trans (List.prefix_append _ _))
        (by intro e; have := congrArg List.length e; have := hq.length_le; simp at *; omega)]
      simp
    | false =>
      simp only [Option.map_some, hk, resume, Variant.fixed, Bool.false_eq_true, if_false]
      exact sim_same_stay hyp hs hc rfl ⟨π, n, hd, rfl, hd.child_file hs.shape he hk⟩

/-- the preconditions of a write whose parent directory exists -/
theorem Cur.writeOk (hyp : Hyp T0 progs) (hs : Sim T0 progs s) {π : Path} {n : Name} {v : Data}
    (hc : Cur T0 progs s τ P th (.writeFile (π ++ [n]) v)) {d : Oid} (hd : DirAt s.heap π d)
    (hT : T0 (π ++ [n]) ≠ some .dir) : succ T0 (.writeFile (π ++ [n]) v) := by
  refine ⟨by simp, ?_, hT⟩
  rw [List.dropLast_concat]
  exact hc.mkdirOk hyp hs (c := π) (by simp [Op.paths, Op.C]) (x := []) (Or.inl rfl) (fun q hq => hd.abs_pfx hq)

theorem step_wAdd (hyp : Hyp T0 progs) (hs : Sim T0 progs s) (hc : Cur T0 progs s τ P th i)
    {d : Oid} {n : Name} {v : Data} (hinv : PcInv T0 s.heap i (.wAdd d n v))
    {h' : Heap} {r : Ret} (hap : applyAct s.heap τ (.addNewFile d n v) = some (h', r)) {hs' : List Handle} :
    Sim T0 progs { heap := h', threads := s.threads.set τ { th with pc := resume .fixed (.wAdd d n v) r, handles := hs' }, log := s.log } := by
  obtain ⟨π, hd, hop, hT⟩ := hinv
  subst hop
  obtain ⟨dd, hdd⟩ := hd.getDir
  have hinv' : HeapInv h' := applyAct_heapInv hs.shape.inv (actOK_of_not_newDir (by intro _ _ e; cases e)) hap
  have hown : absT s.heap (π ++ [n]) = T0 (π ++ [n]) :=
    hc.own hyp hs (x := π ++ [n]) (by simp [Op.owned, Op.W]) (List.prefix_refl _)
  rcases act_addNewFile hdd hap with ⟨hi, _, _⟩ | ⟨hi, dd', hadd, rfl, rfl⟩
  · exfalso
    cases hx : dd.index n with
    | none => exact hi hx
    | some c =>
      have he : edge s.heap d n = some c := by rw [edge_eq_index hdd]; exact hx
      obtain ⟨hr, hlt⟩ := hd.child hs.shape he
      have := absT_of_resolve hr
      rw [hown, hT] at this
      exact entryOf_ne_none_of_lt hlt this.symm
  · simp only [resume]
    obtain ⟨hal, hkept, hent⟩ := addLeaf_of (x := .file { data := v, committed := [v] }) hs.shape hdd hadd
      (by intro m; simp [edgeObj])
    have hN : s.heap.length ≠ 0 := Nat.ne_of_gt hs.shape.length_pos
    have hentf : entryOf (s.heap.set d (.dir dd') ++ [.file { data := v, committed := [v] }]) s.heap.length
        = some (.file v) := by rw [hent]; rfl
    have hshape := shape_addLeaf hs.shape hinv' hal hkept (by simp)
    have hsucc : succ T0 (.writeFile (π ++ [n]) v) := hc.writeOk hyp hs hd (by rw [hT]; simp)
    have heff : effOf T0 (.writeFile (π ++ [n]) v)
        = AOp.effects ⟨π ++ [n], some (fun q => if q = [] then some (.file v) else none)⟩ := by
      unfold effOf; rw [if_pos hsucc]; rfl
    refine sim_act_mk hyp hs hc.hP hc.hth hc.cur hc.busy
      (th' := { th with pc := .wUnlockFin d .ok, handles := hs' }) rfl hshape (L := [])
      (StepFrame.of_addLeaf hal hkept (by simp) hd.1 (Or.inr (Nat.le_refl _))) (by simp)
      (fun _ _ π o _ hr => hal.mono hr) (by simp) (Or.inl ⟨hsucc, rfl⟩) (by simp [Pc.pending]) ?_
    apply absRel_graft_step hyp hs hc (th' := { th with pc := .wUnlockFin d .ok, handles := hs' }) rfl rfl heff
    · intro c hC
      simp only [Op.C, Option.some.injEq] at hC
      subst hC
      rw [List.dropLast_concat]
      exact ⟨List.prefix_append _ _, by intro e; have := congrArg List.length e; simp at this⟩
    · exact absT_addLeaf_file hs.shape hal hkept hN hd.1 hentf
    · intro q _ hq hne
      have := pfx_dropLast_of_ne hq hne
      rw [List.dropLast_concat] at this
      exact hd.abs_pfx this

/-- a thread whose operation is decided releases the directory -/
theorem step_wUnlockFin (hyp : Hyp T0 progs) (hs : Sim T0 progs s) (hP : progs[τ]? = some P)
    (hth : s.threads[τ]? = some th) (hcur : curOp P th = some i) {d : Oid} {res : Res}
    (hpc : th.pc = .wUnlockFin d res) (hinv : PcInv T0 s.heap i (.wUnlockFin d res))
    {h' : Heap} {r : Ret} (hap : applyAct s.heap τ (.outerUnlock d) = some (h', r)) {hs' : List Handle} :
    Sim T0 progs { heap := h', threads := s.threads.set τ { th with pc := resume .fixed (.wUnlockFin d res) r, handles := hs' }, log := s.log } := by
  obtain ⟨h1, h2, h3, h4⟩ := outer_same hs.shape.inv (Or.inr rfl) hap
  simp only [resume]
  have hres : ∀ π o, resolve s.heap 0 π = some o → resolve h' 0 π = some o := by
    intro π o hr; rw [resolve_edgeEq h1]; exact hr
  refine sim_act_mk hyp hs hP hth hcur (by rw [hpc]; simp) (th' := { th with pc := .fin res, handles := hs' }) rfl
    (shape_same hs.shape h4 h1 h2 h3) (StepFrame.of_edgeEq h1 h2 h3) (by simp)
    (fun _ _ π o _ hr => hres π o hr) (by simp) hinv (by simp [Pc.pending]) ?_
  exact absRel_decided_step hs hP hth (th' := { th with pc := .fin res, handles := hs' }) rfl
    (by rw [hpc]; rfl) rfl (absT_edgeEq hs.shape h1 h2)

theorem step_wUnlockSet (hyp : Hyp T0 progs) (hs : Sim T0 progs s) (hc : Cur T0 progs s τ P th i)
    {d f : Oid} {v : Data} (hinv : PcInv T0 s.heap i (.wUnlockSet d f v))
    {h' : Heap} {r : Ret} (hap : applyAct s.heap τ (.outerUnlock d) = some (h', r)) {hs' : List Handle} :
    Sim T0 progs { heap := h', threads := s.threads.set τ { th with pc := resume .fixed (.wUnlockSet d f v) r, handles := hs' }, log := s.log } := by
  obtain ⟨π, n, hd, hop, hf⟩ := hinv
  obtain ⟨h1, h2, h3, h4⟩ := outer_same hs.shape.inv (Or.inr rfl) hap
  simp only [resume]
  exact sim_locks_stay hyp hs hc h1 h2 h3 h4 rfl ⟨π ++ [n], hop, hf⟩

theorem step_wSet (hyp : Hyp T0 progs) (hs : Sim T0 progs s) (hc : Cur T0 progs s τ P th i)
    {f : Oid} {v : Data} (hinv : PcInv T0 s.heap i (.wSet f v))
    {h' : Heap} {r : Ret} (hap : applyAct s.heap τ (.setData f v) = some (h', r)) {hs' : List Handle} :
    Sim T0 progs { heap := h', threads := s.threads.set τ { th with pc := resume .fixed (.wSet f v) r, handles := hs' }, log := s.log } := by
  obtain ⟨p, hop, hf⟩ := hinv
  subst hop
  obtain ⟨ff, hff⟩ := getFile_of_okind hf.2
  have hinv' : HeapInv h' := applyAct_heapInv hs.shape.inv (actOK_of_not_newDir (by intro _ _ e; cases e)) hap
  obtain ⟨⟨ff', hv, rfl⟩, rfl⟩ := act_setData hff hap
  simp only [resume]
  obtain ⟨h1, h2, h3⟩ := data_of_set_file (f' := ff') hff
  rw [hv] at h3
  have hp : p ≠ [] := by
    intro e; subst e
    have := hf.1; rw [resolve_nil] at this; cases this
    have := hf.2; rw [hs.shape.root] at this; cases this
  obtain ⟨π, n, rfl⟩ : ∃ π n, p = π ++ [n] := by
    rcases List.eq_nil_or_concat p with e | ⟨π, n, e⟩
    · exact absurd e hp
    · exact ⟨π, n, by rw [e, List.concat_eq_append]⟩
  obtain ⟨dat, hdat⟩ := hf.abs
  have hown : absT s.heap (π ++ [n]) = T0 (π ++ [n]) :=
    hc.own hyp hs (x := π ++ [n]) (by simp [Op.owned, Op.W]) (List.prefix_refl _)
  have hsucc : succ T0 (.writeFile (π ++ [n]) v) := by
    refine ⟨by simp, ?_, by rw [← hown, hdat]; simp⟩
    rw [List.dropLast_concat]
    exact hc.mkdirOk hyp hs (c := π) (by simp [Op.paths, Op.C]) (x := []) (Or.inl rfl)
      (fun q hq => hf.abs_pfx (hq.trans (List.prefix_append _ _))
        (by intro e; have := congrArg List.length e; have := hq.length_le; simp at *; omega))
  have heff : effOf T0 (.writeFile (π ++ [n]) v)
      = AOp.effects ⟨π ++ [n], some (fun q => if q = [] then some (.file v) else none)⟩ := by
    unfold effOf; rw [if_pos hsucc]; rfl
  have hres : ∀ π o, resolve s.heap 0 π = some o → resolve (s.heap.set f (.file ff')) 0 π = some o := by
    intro π o hr; rw [resolve_edgeEq h1]; exact hr
  refine sim_act_mk hyp hs hc.hP hc.hth hc.cur hc.busy
    (th' := { th with pc := .fin .ok, handles := hs' }) rfl (shape_data hs.shape hinv' h1 h2 (by simp))
    (StepFrame.of_data h1 h2 (by simp) hf.1) (by simp) (fun _ _ π o _ hr => hres π o hr) (by simp)
    (Or.inl ⟨hsucc, rfl⟩) (by simp [Pc.pending]) ?_
  apply absRel_graft_step hyp hs hc (th' := { th with pc := .fin .ok, handles := hs' }) rfl rfl heff
  · intro c hC
    simp only [Op.C, Option.some.injEq] at hC
    subst hC
    rw [List.dropLast_concat]
    exact ⟨List.prefix_append _ _, by intro e; have := congrArg List.length e; simp at this⟩
  · exact absT_data hs.shape h1 h2 hf.1 h3 hf.2
  · intro q _ hq hne
    exact hf.abs_pfx hq hne

end Goat.MemFSConc
