/-
Helper lemmas for property C09, part 14: one lemma per program counter of the walking operations (reads,
`Remove`, `RemoveAll`): the critical section it enters keeps the simulation invariant.
-/
import Goat.Proofs.MemFSConcSimStepB

set_option linter.unusedSimpArgs false
set_option linter.unusedVariables false

namespace Goat.MemFSConc
open Goat.FS (Entry)

variable {T0 : Tree} {progs : List (List Op)} {s : State} {τ : Nat} {P : List Op} {th : Thread} {i : Op}

/-- a walk that cannot arrive: the operation fails (or answers `false`) and has no effect -/
theorem walkOK_fail (hw : TreeWF T0) {path : Path} {k : WK} (hm : WalkOK i path k) (hT : T0 path = none) :
    ResOK T0 i (failRes k) ∧ effOf T0 i = [] := by
  have hbelow : ∀ m, T0 (path ++ [m]) = none := fun m => hw.below (by rw [hT]; simp) (by simp)
  cases k with
  | probe want =>
    simp only [WalkOK] at hm; subst hm
    refine ⟨?_, by unfold effOf; simp [Op.aop]⟩
    simp [ResOK, failRes, hT, probeVal]
  | readFile =>
    simp only [WalkOK] at hm; subst hm
    refine ⟨?_, by unfold effOf; simp [Op.aop]⟩
    simp [ResOK, failRes, hT]
  | readDir =>
    simp only [WalkOK] at hm; subst hm
    refine ⟨?_, by unfold effOf; simp [Op.aop]⟩
    simp [ResOK, failRes, hT]
  | openR _ => exact absurd hm (by simp [WalkOK])
  | rmParent m eo =>
    cases eo with
    | true =>
      simp only [WalkOK] at hm; subst hm
      have hns : ¬ succ T0 (.remove (path ++ [m])) := by
        rintro ⟨_, ⟨d, hd⟩ | ⟨hd, _⟩⟩ <;> rw [hbelow m] at hd <;> cases hd
      exact ⟨Or.inr ⟨hns, rfl⟩, by unfold effOf; rw [if_neg hns]⟩
    | false =>
      simp only [WalkOK] at hm; subst hm
      have hns : ¬ succ T0 (.removeAll (path ++ [m])) := fun h => h.2 (hbelow m)
      exact ⟨Or.inr ⟨hns, rfl⟩, by unfold effOf; rw [if_neg hns]⟩
  | copySrc dd dn =>
    simp only [WalkOK] at hm; subst hm
    have hns : ¬ succ T0 (.copy path (dd ++ [dn])) := by
      intro h
      have := h.2.1
      rw [hT] at this
      cases this
    exact ⟨Or.inr ⟨hns, rfl⟩, by unfold effOf; rw [if_neg hns]⟩

/-- a `Copy` whose source does not exist fails without effect -/
theorem copySrc_fail {path dd : Path} {dn : Name} (hT : T0 path = none) :
    ResOK T0 (.copy path (dd ++ [dn])) .err ∧ effOf T0 (.copy path (dd ++ [dn])) = [] := by
  have hns : ¬ succ T0 (.copy path (dd ++ [dn])) := by
    intro h
    have := h.2.1
    rw [hT] at this
    cases this
  exact ⟨Or.inr ⟨hns, rfl⟩, by unfold effOf; rw [if_neg hns]⟩

theorem sim_walk_fail (hyp : Hyp T0 progs) (hs : Sim T0 progs s) (hc : Cur T0 progs s τ P th i)
    (hpcw : th.pc.creating = false)
    {path : Path} {k : WK} (hm : WalkOK i path k) (hT : T0 path = none) {hs' : List Handle} :
    Sim T0 progs { heap := s.heap, threads := s.threads.set τ { th with pc := .fin (failRes k), handles := hs' }, log := s.log } := by
  obtain ⟨h1, h2⟩ := walkOK_fail hyp.wf hm hT
  exact sim_same_noeff hyp hs hc rfl (by simp) h1 h2 (fun h => by rw [hpcw] at h; cases h)

theorem entry_isDir_kindOf {h : Heap} {c : Oid} (hc : c < h.length) :
    (entryOf h c).map Entry.isDir = some (kindOf h c) := by
  rw [entryOf_eq, kindOf_eq_okind, okind_eq, List.getElem?_eq_getElem hc]
  cases h[c] <;> simp [entryObj, kindObj, Entry.isDir]

/-- the walk arrives at the node `o` of kind `isDir` at `path` -/
theorem sim_afterWalk (hyp : Hyp T0 progs) (hs : Sim T0 progs s) (hc : Cur T0 progs s τ P th i)
    {path : Path} {k : WK} (hm : WalkOK i path k) {o : Oid} (hr : resolve s.heap 0 path = some o) {hs' : List Handle} :
    Sim T0 progs { heap := s.heap, threads := s.threads.set τ { th with pc := afterWalk k o (kindOf s.heap o), handles := hs' }, log := s.log } := by
  have hlt : o < s.heap.length := resolve_lt hs.shape hs.shape.length_pos hr
  have hent : (absT s.heap path).map Entry.isDir = some (kindOf s.heap o) := by
    rw [absT_of_resolve hr]; exact entry_isDir_kindOf hlt
  cases k with
  | probe want =>
    simp only [WalkOK] at hm; subst hm
    have hown : absT s.heap path = T0 path := hc.own hyp hs (x := path) (by simp [Op.owned, Op.R]) (List.prefix_refl _)
    simp only [afterWalk]
    refine sim_same_noeff hyp hs hc rfl (by simp) ?_ (by unfold effOf; simp [Op.aop])
      (fun _ c q hC => by simp [Op.C] at hC)
    simp only [PcInv, ResOK, Res.bool.injEq]
    rw [← hown]
    cases hA : absT s.heap path with
    | none => rw [hA] at hent; simp at hent
    | some e =>
      rw [hA] at hent; simp at hent
      simp only [probeVal, hent]
      cases want <;> rfl
  | readFile =>
    simp only [WalkOK] at hm; subst hm
    have hown : absT s.heap path = T0 path := hc.own hyp hs (x := path) (by simp [Op.owned, Op.R]) (List.prefix_refl _)
    simp only [afterWalk]
    cases hk : kindOf s.heap o with
    | true =>
      simp only [if_true]
      refine sim_same_noeff hyp hs hc rfl (by simp) ?_ (by unfold effOf; simp [Op.aop])
        (fun _ c q hC => by simp [Op.C] at hC)
      have : absT s.heap path = some .dir := by
        rw [absT_of_resolve hr]; exact entryOf_dir_iff.2 (kindOf_true hk)
      simp [PcInv, ResOK, ← hown, this]
    | false =>
      simp only [Bool.false_eq_true, if_false]
      exact sim_same_stay hyp hs hc rfl ⟨path, rfl, hr, kindOf_false_lt hlt hk⟩
  | readDir =>
    simp only [WalkOK] at hm; subst hm
    have hown : absT s.heap path = T0 path := hc.own hyp hs (x := path) (by simp [Op.owned, Op.R]) (List.prefix_refl _)
    simp only [afterWalk]
    cases hk : kindOf s.heap o with
    | true =>
      simp only [if_true]
      exact sim_same_stay hyp hs hc rfl ⟨path, rfl, hr, kindOf_true hk⟩
    | false =>
      simp only [Bool.false_eq_true, if_false]
      refine sim_same_noeff hyp hs hc rfl (by simp) ?_ (by unfold effOf; simp [Op.aop])
        (fun _ c q hC => by simp [Op.C] at hC)
      obtain ⟨d, hd⟩ := entryOf_of_okind_false (kindOf_false_lt hlt hk)
      have : absT s.heap path = some (.file d) := by rw [absT_of_resolve hr]; exact hd
      simp [PcInv, ResOK, ← hown, this]
  | openR _ => exact absurd hm (by simp [WalkOK])
  | rmParent m eo =>
    simp only [afterWalk]
    cases hk : kindOf s.heap o with
    | true =>
      simp only [if_true]
      cases eo with
      | true =>
        simp only [WalkOK] at hm; subst hm
        exact sim_same_stay hyp hs hc rfl ⟨path, ⟨hr, kindOf_true hk⟩, rfl⟩
      | false =>
        simp only [WalkOK] at hm; subst hm
        exact sim_same_stay hyp hs hc rfl ⟨path, ⟨hr, kindOf_true hk⟩, Or.inl rfl⟩
    | false =>
      simp only [Bool.false_eq_true, if_false]
      -- the parent path is a file: the initial tree has that file too
      obtain ⟨d, hd⟩ := entryOf_of_okind_false (kindOf_false_lt hlt hk)
      have hA : absT s.heap path = some (.file d) := by rw [absT_of_resolve hr]; exact hd
      have hW : i.W = some (path ++ [m]) := by cases eo <;> simp only [WalkOK] at hm <;> subst hm <;> rfl
      have hT : T0 path = some (.file d) := by
        rcases hc.pfx hyp hs (mem_paths_W hW) (List.prefix_append path [m]) with h1 | ⟨_, h1⟩
        · rw [← h1]; exact hA
        · rw [hA] at h1; cases h1
      have hbelow : T0 (path ++ [m]) = none := hyp.wf.below (by rw [hT]; simp) (by simp)
      have hfail : failRes (.rmParent m eo) = .err := rfl
      rw [← hfail]
      -- same as a failing walk, one level up
      have : ResOK T0 i (failRes (.rmParent m eo)) ∧ effOf T0 i = [] ∧ i.C = none := by
        cases eo with
        | true =>
          simp only [WalkOK] at hm; subst hm
          have hns : ¬ succ T0 (.remove (path ++ [m])) := by
            rintro ⟨_, ⟨d', hd'⟩ | ⟨hd', _⟩⟩ <;> rw [hbelow] at hd' <;> cases hd'
          exact ⟨Or.inr ⟨hns, rfl⟩, by unfold effOf; rw [if_neg hns], rfl⟩
        | false =>
          simp only [WalkOK] at hm; subst hm
          have hns : ¬ succ T0 (.removeAll (path ++ [m])) := fun h => h.2 hbelow
          exact ⟨Or.inr ⟨hns, rfl⟩, by unfold effOf; rw [if_neg hns], rfl⟩
      exact sim_same_noeff hyp hs hc rfl (by simp) this.1 this.2.1 (fun _ c q hC => by rw [this.2.2] at hC; cases hC)
  | copySrc dd dn =>
    simp only [WalkOK] at hm; subst hm
    have hok : okind s.heap o = some (kindOf s.heap o) := by
      cases hk : kindOf s.heap o with
      | true => exact kindOf_true hk
      | false => exact kindOf_false_lt hlt hk
    simp only [afterWalk]
    cases dd with
    | nil =>
      simp only [mkStart, afterMk]
      cases hk : kindOf s.heap o with
      | true =>
        simp only [if_true]
        exact sim_same_stay hyp hs hc rfl ⟨[], path, DirAt.root hs.shape, rfl, hr, by rw [hok, hk]⟩
      | false =>
        simp only [Bool.false_eq_true, if_false]
        exact sim_same_stay hyp hs hc rfl ⟨[], path, DirAt.root hs.shape, rfl, hr, by rw [hok, hk]⟩
    | cons m dd' =>
      simp only [mkStart]
      exact sim_same_stay hyp hs hc rfl ⟨[], DirAt.root hs.shape, by simp, path, rfl, hr, hok⟩

theorem step_walk (hyp : Hyp T0 progs) (hs : Sim T0 progs s) (hc : Cur T0 progs s τ P th i)
    {cur : Oid} {n : Name} {rest : Path} {k : WK} (hpcw : th.pc.creating = false)
    (hinv : PcInv T0 s.heap i (.walk cur (n :: rest) k))
    {h' : Heap} {r : Ret} (hap : applyAct s.heap τ (.lookup cur n) = some (h', r)) {hs' : List Handle} :
    Sim T0 progs { heap := h', threads := s.threads.set τ { th with pc := resume .fixed (.walk cur (n :: rest) k) r, handles := hs' }, log := s.log } := by
  obtain ⟨π, hd, _, hm⟩ := hinv
  obtain ⟨rfl, rfl⟩ := act_lookup hap
  obtain ⟨x, hx, hpx⟩ := walkOK_path hm
  have hxc : (π ++ [n]) <+: (π ++ n :: rest) := by
    rw [show π ++ n :: rest = (π ++ [n]) ++ rest by simp]; exact List.prefix_append _ _
  cases he : edge s.heap cur n with
  | none =>
    simp only [Option.map_none, resume]
    have hA := hd.abs_child_none he
    have hT : T0 (π ++ [n]) = none := by
      rcases hc.pfx hyp hs hx (hxc.trans hpx) with h1 | ⟨h1, _⟩
      · rw [← h1]; exact hA
      · exact h1
    have hT' : T0 (π ++ n :: rest) = none := by
      cases rest with
      | nil => exact hT
      | cons m r' =>
        rw [show π ++ n :: m :: r' = (π ++ [n]) ++ (m :: r') by simp]
        exact hyp.wf.below (by rw [hT]; simp) (by simp)
    exact sim_walk_fail hyp hs hc hpcw hm hT'
  | some o =>
    simp only [Option.map_some, resume]
    obtain ⟨hr, hlt⟩ := hd.child hs.shape he
    cases rest with
    | nil =>
      simp only [walkOn]
      exact sim_afterWalk hyp hs hc hm hr
    | cons m r' =>
      simp only [walkOn]
      cases hk : kindOf s.heap o with
      | true =>
        simp only [if_true]
        exact sim_same_stay hyp hs hc rfl ⟨π ++ [n], ⟨hr, kindOf_true hk⟩, by simp, by simpa [List.append_assoc] using hm⟩
          (hcr := fun h => by rw [hpcw] at h; cases h)
      | false =>
        simp only [Bool.false_eq_true, if_false]
        obtain ⟨d, hd'⟩ := entryOf_of_okind_false (kindOf_false_lt hlt hk)
        have hA : absT s.heap (π ++ [n]) = some (.file d) := by rw [absT_of_resolve hr]; exact hd'
        have hT : T0 (π ++ [n]) = some (.file d) := by
          rcases hc.pfx hyp hs hx (hxc.trans hpx) with h1 | ⟨_, h1⟩
          · rw [← h1]; exact hA
          · rw [hA] at h1; cases h1
        have hT' : T0 (π ++ n :: m :: r') = none := by
          rw [show π ++ n :: m :: r' = (π ++ [n]) ++ (m :: r') by simp]
          exact hyp.wf.below (by rw [hT]; simp) (by simp)
        exact sim_walk_fail hyp hs hc hpcw hm hT'

theorem step_rData (hyp : Hyp T0 progs) (hs : Sim T0 progs s) (hc : Cur T0 progs s τ P th i)
    {f : Oid} (hinv : PcInv T0 s.heap i (.rData f))
    {h' : Heap} {r : Ret} (hap : applyAct s.heap τ (.getData f) = some (h', r)) {hs' : List Handle} :
    Sim T0 progs { heap := h', threads := s.threads.set τ { th with pc := resume .fixed (.rData f) r, handles := hs' }, log := s.log } := by
  obtain ⟨p, hop, hf⟩ := hinv
  subst hop
  obtain ⟨ff, hff⟩ := getFile_of_okind hf.2
  obtain ⟨rfl, rfl⟩ := act_getData hff hap
  simp only [resume]
  have hown : absT s.heap p = T0 p := hc.own hyp hs (x := p) (by simp [Op.owned, Op.R]) (List.prefix_refl _)
  have hA : absT s.heap p = some (.file ff.data) := by rw [absT_of_resolve hf.1]; exact entryOf_of_getFile hff
  refine sim_same_noeff hyp hs hc rfl (by simp) ?_ (by unfold effOf; simp [Op.aop]) (fun _ c q hC => by simp [Op.C] at hC)
  simp [PcInv, ResOK, ← hown, hA]

theorem step_rList (hyp : Hyp T0 progs) (hs : Sim T0 progs s) (hc : Cur T0 progs s τ P th i)
    {d : Oid} (hinv : PcInv T0 s.heap i (.rList d))
    {h' : Heap} {r : Ret} (hap : applyAct s.heap τ (.snapshot d false) = some (h', r)) {hs' : List Handle} :
    Sim T0 progs { heap := h', threads := s.threads.set τ { th with pc := resume .fixed (.rList d) r, handles := hs' }, log := s.log } := by
  obtain ⟨p, hop, hd⟩ := hinv
  subst hop
  obtain ⟨dd, hdd⟩ := hd.getDir
  obtain ⟨rfl, rfl⟩ := act_snapshot hdd hap
  simp only [resume]
  have hinvd := hs.shape.inv d dd hdd
  have hown : ∀ q, p <+: q → absT s.heap q = T0 q := fun q hq => hc.own hyp hs (x := p) (by simp [Op.owned, Op.R]) hq
  refine sim_same_noeff hyp hs hc rfl (by simp) ?_ (by unfold effOf; simp [Op.aop]) (fun _ c q hC => by simp [Op.C] at hC)
  have hTp : T0 p = some .dir := by rw [← hown p (List.prefix_refl _)]; exact hd.abs
  simp only [PcInv, ResOK, hTp]
  refine ⟨_, rfl, ?_, ?_⟩
  · simp only [List.map_map]
    exact hinvd.1
  · intro n b
    rw [← hown (p ++ [n]) (List.prefix_append _ _)]
    simp only [List.map_map, List.mem_map, Function.comp, Prod.mk.injEq]
    constructor
    · rintro ⟨⟨m, c⟩, hmem, rfl, rfl⟩
      have hidx := (hinvd.2 m c).2 hmem
      have he : edge s.heap d m = some c := by rw [edge_eq_index hdd]; exact hidx
      obtain ⟨hr, hlt⟩ := hd.child hs.shape he
      rw [absT_of_resolve hr]
      exact entry_isDir_kindOf hlt
    · intro hx
      cases he : edge s.heap d n with
      | none => rw [hd.abs_child_none he] at hx; simp at hx
      | some c =>
        obtain ⟨hr, hlt⟩ := hd.child hs.shape he
        rw [absT_of_resolve hr, entry_isDir_kindOf hlt] at hx
        simp at hx
        refine ⟨(n, c), (hinvd.2 n c).1 (by rw [← edge_eq_index hdd]; exact he), rfl, hx⟩

theorem step_rmLook (hyp : Hyp T0 progs) (hs : Sim T0 progs s) (hc : Cur T0 progs s τ P th i)
    {o : Oid} {n : Name} (hinv : PcInv T0 s.heap i (.rmLook o n))
    {h' : Heap} {r : Ret} (hap : applyAct s.heap τ (.lookup o n) = some (h', r)) {hs' : List Handle} :
    Sim T0 progs { heap := h', threads := s.threads.set τ { th with pc := resume .fixed (.rmLook o n) r, handles := hs' }, log := s.log } := by
  obtain ⟨π, hd, hop⟩ := hinv
  subst hop
  obtain ⟨rfl, rfl⟩ := act_lookup hap
  have hown : absT s.heap (π ++ [n]) = T0 (π ++ [n]) :=
    hc.own hyp hs (x := π ++ [n]) (by simp [Op.owned, Op.W]) (List.prefix_refl _)
  cases he : edge s.heap o n with
  | none =>
    simp only [Option.map_none, resume]
    have hT : T0 (π ++ [n]) = none := by rw [← hown]; exact hd.abs_child_none he
    have hns : ¬ succ T0 (.remove (π ++ [n])) := by
      rintro ⟨_, ⟨d', hd'⟩ | ⟨hd', _⟩⟩ <;> rw [hT] at hd' <;> cases hd'
    exact sim_same_noeff hyp hs hc rfl (by simp) (Or.inr ⟨hns, rfl⟩) (by unfold effOf; rw [if_neg hns])
      (fun _ c q hC => by simp [Op.C] at hC)
  | some c =>
    cases hk : kindOf s.heap c with
    | true =>
      simp only [Option.map_some, hk, resume, if_true]
      exact sim_same_stay hyp hs hc rfl ⟨π, hd, rfl, hd.child_dir hs.shape he hk⟩
    | false =>
      simp only [Option.map_some, hk, resume, Bool.false_eq_true, if_false]
      obtain ⟨dat, hdat⟩ := (hd.child_file hs.shape he hk).abs
      refine sim_same_stay hyp hs hc rfl ⟨π, hd, Or.inr ⟨rfl, by simp, Or.inl ⟨dat, ?_⟩⟩⟩
      rw [← hown]; exact hdat

theorem step_rmLen (hyp : Hyp T0 progs) (hs : Sim T0 progs s) (hc : Cur T0 progs s τ P th i)
    {o c : Oid} {n : Name} (hinv : PcInv T0 s.heap i (.rmLen o n c))
    {h' : Heap} {r : Ret} (hap : applyAct s.heap τ (.readLen c) = some (h', r)) {hs' : List Handle} :
    Sim T0 progs { heap := h', threads := s.threads.set τ { th with pc := resume .fixed (.rmLen o n c) r, handles := hs' }, log := s.log } := by
  obtain ⟨π, hd, hop, hcd⟩ := hinv
  subst hop
  obtain ⟨dc, hdc⟩ := hcd.getDir
  obtain ⟨rfl, rfl⟩ := act_readLen hdc hap
  have hinvc := hs.shape.inv c dc hdc
  have hown : ∀ q, (π ++ [n]) <+: q → absT s.heap q = T0 q :=
    fun q hq => hc.own hyp hs (x := π ++ [n]) (by simp [Op.owned, Op.W]) hq
  have hTp : T0 (π ++ [n]) = some .dir := by rw [← hown _ (List.prefix_refl _)]; exact hcd.abs
  simp only [resume]
  by_cases hlen : dc.nodes.length = 0
  · simp only [hlen, if_true]
    have hnil : dc.nodes = [] := List.eq_nil_of_length_eq_zero hlen
    refine sim_same_stay hyp hs hc rfl ⟨π, hd, Or.inr ⟨rfl, by simp, Or.inr ⟨hTp, ?_⟩⟩⟩
    intro m
    rw [← hown _ (List.prefix_append _ _)]
    apply hcd.abs_child_none
    rw [edge_eq_index hdc]
    cases hx : dc.index m with
    | none => rfl
    | some x => have := (hinvc.2 m x).1 hx; rw [hnil] at this; cases this
  · simp only [hlen, if_false]
    have hns : ¬ succ T0 (.remove (π ++ [n])) := by
      rintro ⟨_, ⟨d', hd'⟩ | ⟨_, hall⟩⟩
      · rw [hTp] at hd'; cases hd'
      · cases hnodes : dc.nodes with
        | nil => rw [hnodes] at hlen; exact hlen rfl
        | cons mx rest =>
          obtain ⟨m, x⟩ := mx
          have hidx := (hinvc.2 m x).2 (by rw [hnodes]; simp)
          have he : edge s.heap c m = some x := by rw [edge_eq_index hdc]; exact hidx
          obtain ⟨hr, hlt⟩ := hcd.child hs.shape he
          have := hall m
          rw [← hown _ (List.prefix_append _ _), absT_of_resolve hr] at this
          exact entryOf_ne_none_of_lt hlt this
    exact sim_same_noeff hyp hs hc rfl (by simp) (Or.inr ⟨hns, rfl⟩) (by unfold effOf; rw [if_neg hns])
      (fun _ c q hC => by simp [Op.C] at hC)

theorem step_rmDo (hyp : Hyp T0 progs) (hs : Sim T0 progs s) (hc : Cur T0 progs s τ P th i)
    {o : Oid} {n : Name} (hinv : PcInv T0 s.heap i (.rmDo o n))
    {h' : Heap} {r : Ret} (hap : applyAct s.heap τ (.removeNode o n) = some (h', r)) {hs' : List Handle} :
    Sim T0 progs { heap := h', threads := s.threads.set τ { th with pc := resume .fixed (.rmDo o n) r, handles := hs' }, log := s.log } := by
  obtain ⟨π, hd, hop⟩ := hinv
  obtain ⟨dd, hdd⟩ := hd.getDir
  have hinvd := hs.shape.inv o dd hdd
  have hinv' : HeapInv h' := applyAct_heapInv hs.shape.inv (actOK_of_not_newDir (by intro _ _ e; cases e)) hap
  have hW : i.W = some (π ++ [n]) := by rcases hop with rfl | ⟨rfl, _⟩ <;> rfl
  have hCn : i.C = none := by rcases hop with rfl | ⟨rfl, _⟩ <;> rfl
  have hown : absT s.heap (π ++ [n]) = T0 (π ++ [n]) :=
    hc.own hyp hs (x := π ++ [n]) (by simp [Op.owned, hW]) (List.prefix_refl _)
  rcases act_removeNode hinvd hdd hap with ⟨hi, rfl, rfl⟩ | ⟨hi, dd', hrem, rfl, rfl⟩
  · simp only [resume]
    have hT : T0 (π ++ [n]) = none := by
      rw [← hown]; apply hd.abs_child_none; rw [edge_eq_index hdd]; exact hi
    have hns : ¬ succ T0 i := by
      rcases hop with rfl | ⟨rfl, hok⟩
      · exact fun h => h.2 hT
      · rintro ⟨_, ⟨d', hd'⟩ | ⟨hd', _⟩⟩ <;> rw [hT] at hd' <;> cases hd'
    have hres : ResOK T0 i .err := by
      rcases hop with rfl | ⟨rfl, _⟩ <;> exact Or.inr ⟨hns, rfl⟩
    exact sim_same_noeff hyp hs hc rfl (by simp) hres (by unfold effOf; rw [if_neg hns])
      (fun _ c q hC => by rw [hCn] at hC; cases hC)
  · simp only [resume]
    obtain ⟨hre, hkept⟩ := remEdge_of hdd hrem
    have hsucc : succ T0 i := by
      rcases hop with rfl | ⟨rfl, hok⟩
      · refine ⟨by simp, ?_⟩
        rw [← hown]
        cases hx : dd.index n with
        | none => exact absurd hx hi
        | some c =>
          have he : edge s.heap o n = some c := by rw [edge_eq_index hdd]; exact hx
          obtain ⟨hr, hlt⟩ := hd.child hs.shape he
          rw [absT_of_resolve hr]; exact entryOf_ne_none_of_lt hlt
      · exact hok
    have heff : effOf T0 i = AOp.effects ⟨π ++ [n], some (fun _ => none)⟩ := by
      unfold effOf; rw [if_pos hsucc]
      rcases hop with rfl | ⟨rfl, _⟩ <;> rfl
    have hres : ResOK T0 i .ok := by
      rcases hop with rfl | ⟨rfl, _⟩ <;> exact Or.inl ⟨hsucc, rfl⟩
    refine sim_act_mk hyp hs hc.hP hc.hth hc.cur hc.busy
      (th' := { th with pc := .fin .ok, handles := hs' }) rfl (shape_remEdge hs.shape hinv' hre hkept (by simp))
      (StepFrame.of_remEdge hre hkept (by simp) hd.1) (by simp) ?_ (by simp) hres (by simp [Pc.pending]) ?_
    · intro j hj π' a hrel hr
      apply hre.keep hs.shape hd.1 hr
      rw [pfx_false_iff]
      intro hpre
      rcases hrel with ⟨x, hx, hπ'⟩ | ⟨x, hx, hπ'⟩
      · exact hj.1 (π ++ [n]) (by simp [hW]) x hx (hpre.trans hπ')
      · have hxp : x ∈ j.paths := by
          simp only [Op.owned, List.mem_append, Option.mem_toList] at hx
          simp only [Op.paths, List.mem_append, Option.mem_toList]
          rcases hx with h | h
          · exact Or.inl (Or.inl h)
          · exact Or.inr h
        rcases pfx_comparable hpre hπ' with h | h
        · exact hj.1 (π ++ [n]) (by simp [hW]) x hxp h
        · exact hj.2.2.2.2.1 (π ++ [n]) (by simp [hW]) x hx h
    · apply absRel_graft_step hyp hs hc (th' := { th with pc := .fin .ok, handles := hs' }) rfl rfl heff
      · intro c hC; rw [hCn] at hC; cases hC
      · exact absT_remEdge hs.shape hre hkept hd.1
      · intro q _ hq hne
        have := pfx_dropLast_of_ne hq hne
        rw [List.dropLast_concat] at this
        exact hd.abs_pfx this

end Goat.MemFSConc
