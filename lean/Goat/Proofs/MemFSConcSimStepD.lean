/-
Helper lemmas for property C09, part 19: the steps of `Copy` keep the simulation invariant (`cFile`,
`cEnter`, `cDir`, `cAdd`): the copier lists the source under the source directory's lock, copies files
and sub-directories into private objects, builds the new directories over them, and links the result
below the destination directory in one critical section.
-/
import Goat.Proofs.MemFSConcSimStepC
import Goat.Proofs.MemFSConcGraft

set_option linter.unusedSimpArgs false
set_option linter.unusedVariables false

namespace Goat.MemFSConc
open Goat.FS (Entry)

variable {T0 : Tree} {progs : List (List Op)} {s : State} {τ : Nat} {P : List Op} {th : Thread} {i : Op}

theorem okind_eq_kindOf {h : Heap} {o : Oid} (ho : o < h.length) : okind h o = some (kindOf h o) := by
  cases hk : kindOf h o with
  | true => exact kindOf_true hk
  | false => exact kindOf_false_lt ho hk

theorem nodup_insert_mid {α : Type} {A B : List α} {x : α} (h : (A ++ B).Nodup) (hx : x ∉ A ++ B) :
    ((A ++ [x]) ++ B).Nodup := by
  rw [List.nodup_append] at h ⊢
  simp only [List.mem_append, not_or] at hx
  refine ⟨?_, h.2.1, ?_⟩
  · rw [List.nodup_append]
    refine ⟨h.1, by simp, ?_⟩
    intro a ha b hb
    simp at hb; subst hb
    intro e; subst e; exact hx.1 ha
  · intro a ha b hb
    simp only [List.mem_append, List.mem_singleton] at ha
    rcases ha with ha | rfl
    · exact h.2.2 a ha b hb
    · intro e; subst e; exact hx.2 hb

/-- a private file with the data of the file at `path`, just allocated -/
theorem priv_new_file (hyp : Hyp T0 progs) (hs : Sim T0 progs s) (hc : Cur T0 progs s τ P th i)
    {x path : Path} (hx : x ∈ i.owned) (hxp : x <+: path) {src : Oid} (hsrc : FileAt s.heap path src)
    {ff : FileObj} (hff : getFile s.heap src = some ff) :
    Priv (s.heap ++ [.file { data := ff.data, committed := [ff.data] }]) s.heap.length (fun q => T0 (path ++ q)) := by
  obtain ⟨he, hk, hent, _⟩ := alloc_file (h := s.heap) { data := ff.data, committed := [ff.data] }
  refine ⟨Nat.ne_of_gt hs.shape.length_pos, by simp, ?_, ?_⟩
  · intro a m e
    rw [he] at e
    exact absurd (hs.shape.closed _ _ _ e).1 (Nat.lt_irrefl _)
  · have hown : absT s.heap path = T0 path := hc.own hyp hs hx hxp
    have hA : absT s.heap path = some (.file ff.data) := by
      rw [absT_of_resolve hsrc.1]; exact entryOf_of_getFile hff
    funext q
    cases q with
    | nil =>
      simp only [absAt, resolve_nil, Option.bind_some, List.append_nil]
      rw [hent, ← hown, hA]
    | cons m r =>
      simp only [absAt, resolve_cons]
      rw [he]
      have : edge s.heap s.heap.length m = none := by
        rw [edge_eq, List.getElem?_eq_none (Nat.le_refl _)]; rfl
      rw [this]
      simp only [Option.bind_none]
      exact (hyp.wf.below (p := path) (by rw [← hown, hA]; simp) (by simp)).symm

/-- the activation of `copyDir` right after it has listed the source directory at `path` -/
theorem frame_of_snapshot (hyp : Hyp T0 progs) (hs : Sim T0 progs s) (hc : Cur T0 progs s τ P th i)
    {x path : Path} (hx : x ∈ i.owned) (hxp : x <+: path) {src : Oid} (hsrc : DirAt s.heap path src)
    {dd : DirObj} (hdd : getDir s.heap src = some dd) (nm : Name) :
    FrameInv T0 s.heap path none
      { src := src, nm := nm, todo := dd.nodes.map fun p => (p.1, p.2, kindOf s.heap p.2), done := [] } := by
  have hinvd := hs.shape.inv src dd hdd
  have hown : ∀ q, path <+: q → absT s.heap q = T0 q := fun q hq => hc.own hyp hs hx (hxp.trans hq)
  refine ⟨hsrc, ?_, ?_, ?_, ?_⟩
  · simp only [List.map_nil, List.nil_append, Option.toList, List.map_map]
    exact hinvd.1
  · intro m
    rw [← hown _ (List.prefix_append _ _)]
    simp only [List.map_nil, List.not_mem_nil, false_or, Option.mem_def, reduceCtorEq, List.map_map, List.mem_map,
      Function.comp]
    constructor
    · intro hne
      cases he : edge s.heap src m with
      | none => exact absurd (hsrc.abs_child_none he) hne
      | some c =>
        exact ⟨(m, c), (hinvd.2 m c).1 (by rw [← edge_eq_index hdd]; exact he), rfl⟩
    · rintro ⟨⟨m', c⟩, hmem, rfl⟩
      have he : edge s.heap src m' = some c := by rw [edge_eq_index hdd]; exact (hinvd.2 m' c).2 hmem
      obtain ⟨hr, hlt⟩ := hsrc.child hs.shape he
      rw [absT_of_resolve hr]
      exact entryOf_ne_none_of_lt hlt
  · intro m co k hmem
    simp only [List.mem_map, Prod.mk.injEq] at hmem
    obtain ⟨⟨m', c⟩, hmem', rfl, rfl, rfl⟩ := hmem
    have he : edge s.heap src m' = some c := by rw [edge_eq_index hdd]; exact (hinvd.2 m' c).2 hmem'
    obtain ⟨hr, hlt⟩ := hsrc.child hs.shape he
    exact ⟨hr, okind_eq_kindOf hlt⟩
  · intro m c hmem; simp at hmem

theorem step_cFile (hyp : Hyp T0 progs) (hs : Sim T0 progs s) (hc : Cur T0 progs s τ P th i)
    {d src : Oid} {n : Name} (hpc : th.pc = .cFile d n src) (hinv : PcInv T0 s.heap i (.cFile d n src))
    {h' : Heap} {r : Ret} (hap : applyAct s.heap τ (.copyFile src) = some (h', r)) {hs' : List Handle} :
    Sim T0 progs { heap := h', threads := s.threads.set τ { th with pc := resume .fixed (.cFile d n src) r, handles := hs' }, log := s.log } := by
  obtain ⟨π, s0, hd, hop, hsrc⟩ := hinv
  subst hop
  obtain ⟨ff, hff⟩ := getFile_of_okind hsrc.2
  have hinv' : HeapInv h' := applyAct_heapInv hs.shape.inv (actOK_of_not_newDir (by intro _ _ e; cases e)) hap
  obtain ⟨rfl, rfl⟩ := act_copyFile hff hap
  simp only [resume]
  obtain ⟨he, hk, _, _⟩ := alloc_file (h := s.heap) { data := ff.data, committed := [ff.data] }
  have hfr := StepFrame.of_edgeEq he hk (by simp)
  have hres : ∀ π o, resolve s.heap 0 π = some o →
      resolve (s.heap ++ [.file { data := ff.data, committed := [ff.data] }]) 0 π = some o := by
    intro π o hr; rw [resolve_edgeEq he]; exact hr
  have hpriv := priv_new_file hyp hs hc (x := s0) (by simp [Op.owned, Op.R]) (List.prefix_refl _) hsrc hff
  refine sim_act_mk hyp hs hc.hP hc.hth hc.cur hc.busy
    (th' := { th with pc := .cAdd d n s.heap.length, handles := hs' }) rfl
    (shape_same hs.shape hinv' he hk (by simp)) hfr (by simp) (fun _ _ π o _ hr => hres π o hr) (by simp)
    ⟨π, s0, hd.frame hs.shape hfr.kind (hres _ _ hd.1), rfl, hpriv⟩ ?_ ?_
  · intro c hc'
    simp only [Pc.pending, List.mem_singleton] at hc'
    subst hc'; exact Or.inr (Nat.le_refl _)
  · exact absRel_stay_step hyp hs hc (th' := { th with pc := .cAdd d n s.heap.length, handles := hs' }) rfl rfl
      (fun _ => rfl) (absT_edgeEq hs.shape he hk)

theorem step_cEnter (hyp : Hyp T0 progs) (hs : Sim T0 progs s) (hc : Cur T0 progs s τ P th i)
    {d src : Oid} {n : Name} (hinv : PcInv T0 s.heap i (.cEnter d n src))
    {h' : Heap} {r : Ret} (hap : applyAct s.heap τ (.snapshot src false) = some (h', r)) {hs' : List Handle} :
    Sim T0 progs { heap := h', threads := s.threads.set τ { th with pc := resume .fixed (.cEnter d n src) r, handles := hs' }, log := s.log } := by
  obtain ⟨π, s0, hd, hop, hsrc⟩ := hinv
  subst hop
  obtain ⟨dd, hdd⟩ := hsrc.getDir
  obtain ⟨rfl, rfl⟩ := act_snapshot hdd hap
  simp only [resume]
  have hfr := frame_of_snapshot hyp hs hc (x := s0) (by simp [Op.owned, Op.R]) (List.prefix_refl _) hsrc hdd n
  refine sim_same_stay hyp hs hc rfl ⟨π, s0, [], hd, rfl, by simp, ?_, by simp⟩
  unfold FramesInv
  exact ⟨by simpa using hfr, rfl⟩

/-- linking the copy -/
theorem step_cAdd (hyp : Hyp T0 progs) (hs : Sim T0 progs s) (hc : Cur T0 progs s τ P th i)
    {d c : Oid} {n : Name} (hpc : th.pc = .cAdd d n c) (hinv : PcInv T0 s.heap i (.cAdd d n c))
    {h' : Heap} {r : Ret} (hap : applyAct s.heap τ (.addNode d n c) = some (h', r)) {hs' : List Handle} :
    Sim T0 progs { heap := h', threads := s.threads.set τ { th with pc := resume .fixed (.cAdd d n c) r, handles := hs' }, log := s.log } := by
  obtain ⟨π, s0, hd, hop, hpr⟩ := hinv
  subst hop
  obtain ⟨dd, hdd⟩ := hd.getDir
  have hinv' : HeapInv h' := applyAct_heapInv hs.shape.inv (actOK_of_not_newDir (by intro _ _ e; cases e)) hap
  have hown : absT s.heap (π ++ [n]) = T0 (π ++ [n]) :=
    hc.own hyp hs (x := π ++ [n]) (by simp [Op.owned, Op.W]) (List.prefix_refl _)
  have hokop := hyp.ok_cur hc.hP hc.cur
  rcases act_addNode hdd hap with ⟨hi, rfl, rfl⟩ | ⟨hi, dd', hadd, rfl, rfl⟩
  · simp only [resume]
    have hT : T0 (π ++ [n]) ≠ none := by
      rw [← hown]
      cases hx : dd.index n with
      | none => exact absurd hx hi
      | some x =>
        have he : edge s.heap d n = some x := by rw [edge_eq_index hdd]; exact hx
        obtain ⟨hr, hlt⟩ := hd.child hs.shape he
        rw [absT_of_resolve hr]; exact entryOf_ne_none_of_lt hlt
    have hns : ¬ succ T0 (.copy s0 (π ++ [n])) := fun h => hT h.2.2.2
    refine sim_same_noeff hyp hs hc rfl (by simp) (Or.inr ⟨hns, rfl⟩) (by unfold effOf; rw [if_neg hns]) ?_
    intro _ c' q hC hq _
    simp only [Op.C, Option.some.injEq] at hC
    subst hC
    rw [List.dropLast_concat] at hq
    rw [hyp.wf.pfx' (p := π ++ [n]) hT (hq.trans (List.prefix_append _ _))
      (by intro e; have := congrArg List.length e; have := hq.length_le; simp at *; omega)]
    simp
  · simp only [resume]
    obtain ⟨h0, hlt, hpar, habsc⟩ := hpr
    obtain ⟨hat, hkept⟩ := addTree_of hdd hadd hpar h0 hlt
    have hTd : T0 (π ++ [n]) = none := by
      rw [← hown]; apply hd.abs_child_none; rw [edge_eq_index hdd]; exact hi
    have hTs : T0 s0 ≠ none := by
      have := congrFun habsc []
      simp only [absAt, resolve_nil, Option.bind_some, List.append_nil] at this
      rw [← this]; exact entryOf_ne_none_of_lt hlt
    have hsucc : succ T0 (.copy s0 (π ++ [n])) := by
      refine ⟨by simp, ?_, ?_, hTd⟩
      · cases hx : T0 s0 with
        | none => exact absurd hx hTs
        | some e => trivial
      · rw [List.dropLast_concat]
        exact hc.mkdirOk hyp hs (c := π) (by simp [Op.paths, Op.C]) (x := []) (Or.inl rfl)
          (fun q hq => hd.abs_pfx hq)
    have heff : effOf T0 (.copy s0 (π ++ [n])) = AOp.effects ⟨π ++ [n], some (fun q => T0 (s0 ++ q))⟩ := by
      unfold effOf; rw [if_pos hsucc]; rfl
    refine sim_act_mk hyp hs hc.hP hc.hth hc.cur hc.busy
      (th' := { th with pc := .fin .ok, handles := hs' }) rfl (shape_addTree hs.shape hinv' hat hkept (by simp))
      (StepFrame.of_addTree hat hkept (by simp) hd.1) (by rw [hpc]; simp [Pc.pending])
      (fun _ _ π o _ hr => hat.mono hr) (by simp) (Or.inl ⟨hsucc, rfl⟩) (by simp [Pc.pending]) ?_
    apply absRel_graft_step hyp hs hc (th' := { th with pc := .fin .ok, handles := hs' }) rfl rfl heff
    · intro c' hC
      simp only [Op.C, Option.some.injEq] at hC
      subst hC
      rw [List.dropLast_concat]
      exact ⟨List.prefix_append _ _, by intro e; have := congrArg List.length e; simp at this⟩
    · rw [← habsc]; exact absT_addTree hs.shape hat hkept hd.1
    · intro q _ hq hne
      have := pfx_dropLast_of_ne hq hne
      rw [List.dropLast_concat] at this
      exact hd.abs_pfx this


/-! ### the loop of `copyDir` -/

theorem flat_lt {h : Heap} {s0 : Path} {stack : List Frame} {hole : Option Name} {ρ : Path}
    (hfi : FramesInv T0 h s0 hole ρ stack) : ∀ c ∈ stack.flatMap (fun fr => fr.done.map (·.2)), c < h.length := by
  intro c hc
  simp only [List.mem_flatMap, List.mem_map] at hc
  obtain ⟨fr, hfr, p, hp, rfl⟩ := hc
  exact FramesInv.done_lt stack hole ρ hfi fr hfr p hp

/-- the top activation copies a file child -/
theorem step_cDir_file (hyp : Hyp T0 progs) (hs : Sim T0 progs s) (hc : Cur T0 progs s τ P th i)
    {d : Oid} {n : Name} {fr : Frame} {rest : List Frame} (hpc : th.pc = .cDir d n (fr :: rest))
    (hinv : PcInv T0 s.heap i (.cDir d n (fr :: rest)))
    {cn : Name} {co : Oid} {todo' : List (Name × Oid × Bool)} (htodo : fr.todo = (cn, co, false) :: todo')
    {h' : Heap} {r : Ret} (hap : applyAct s.heap τ (.copyFile co) = some (h', r)) {hs' : List Handle} :
    Sim T0 progs { heap := h', threads := s.threads.set τ { th with pc := copyStep d n fr rest r, handles := hs' }, log := s.log } := by
  obtain ⟨π, s0, ρ, hd, hop, _, hfi, hnd⟩ := hinv
  subst hop
  have hfi0 := hfi
  unfold FramesInv at hfi
  obtain ⟨hF, _⟩ := hfi
  obtain ⟨hrco, hkco⟩ := hF.todo cn co false (by rw [htodo]; simp)
  obtain ⟨ff, hff⟩ := getFile_of_okind hkco
  have hinv' : HeapInv h' := applyAct_heapInv hs.shape.inv (actOK_of_not_newDir (by intro _ _ e; cases e)) hap
  obtain ⟨rfl, rfl⟩ := act_copyFile hff hap
  simp only [copyStep, htodo]
  obtain ⟨he, hk, _, _⟩ := alloc_file (h := s.heap) { data := ff.data, committed := [ff.data] }
  have hfr := StepFrame.of_edgeEq he hk (by simp)
  have hres : ∀ π o, resolve s.heap 0 π = some o →
      resolve (s.heap ++ [.file { data := ff.data, committed := [ff.data] }]) 0 π = some o := by
    intro π o hr; rw [resolve_edgeEq he]; exact hr
  have hxo : s0 ∈ (Op.copy s0 (π ++ [n])).owned := by simp [Op.owned, Op.R]
  have hpriv := priv_new_file hyp hs hc (x := s0) (path := (s0 ++ ρ) ++ [cn]) hxo
    (by rw [List.append_assoc]; exact List.prefix_append _ _) ⟨hrco, hkco⟩ hff
  have hfi' := FramesInv.frame (T0 := T0) hs.shape hfr (s := s0) (fun π o _ hr => hres π o hr) (fr :: rest) none ρ
    (by intro _ _ _ _ h; cases h) hfi0
  unfold FramesInv at hfi'
  obtain ⟨hF', hrest'⟩ := hfi'
  have hflat := flat_lt hfi0
  refine sim_act_mk hyp hs hc.hP hc.hth hc.cur hc.busy
    (th' := { th with pc := .cDir d n ({ fr with todo := todo', done := fr.done ++ [(cn, s.heap.length)] } :: rest), handles := hs' }) rfl
    (shape_same hs.shape hinv' he hk (by simp)) hfr (by simp) (fun _ _ π o _ hr => hres π o hr) (by simp)
    ⟨π, s0, ρ, hd.frame hs.shape hfr.kind (hres _ _ hd.1), rfl, by simp, ?_, ?_⟩ ?_ ?_
  · unfold FramesInv
    refine ⟨⟨hF'.src, ?_, ?_, ?_, ?_⟩, ?_⟩
    · have := hF'.names
      simpa [htodo, List.append_assoc] using this
    · intro m
      rw [hF'.cover m, htodo]
      simp only [List.map_cons, List.mem_cons, List.map_append, List.map_nil, List.mem_append, List.not_mem_nil,
        or_false, Option.mem_def, reduceCtorEq, false_or]
      constructor
      · rintro (h | rfl | h)
        · exact Or.inl (Or.inl h)
        · exact Or.inl (Or.inr rfl)
        · exact Or.inr h
      · rintro ((h | rfl) | h)
        · exact Or.inl h
        · exact Or.inr (Or.inl rfl)
        · exact Or.inr (Or.inr h)
    · intro m co' k hmem
      exact hF'.todo m co' k (by rw [htodo]; exact List.mem_cons_of_mem _ hmem)
    · intro m c hmem
      simp only [List.mem_append, List.mem_singleton, Prod.mk.injEq] at hmem
      rcases hmem with hmem | ⟨rfl, rfl⟩
      · exact hF'.done m c hmem
      · have : (fun q => T0 (s0 ++ ρ ++ m :: q)) = (fun q => T0 (s0 ++ ρ ++ [m] ++ q)) := by
          funext q; simp
        rw [this]; exact hpriv
    · cases rest with
      | nil => exact hrest'
      | cons g gs => exact hrest'
  · simp only [List.flatMap_cons, List.map_append, List.map_cons, List.map_nil] at hnd ⊢
    apply nodup_insert_mid hnd
    intro hmem
    exact absurd (hflat _ (by simpa using hmem)) (Nat.lt_irrefl _)
  · intro c hc'
    rw [hpc]
    simp only [Pc.pending, List.flatMap_cons, List.map_append, List.map_cons, List.map_nil, List.mem_append,
      List.mem_singleton] at hc' ⊢
    rcases hc' with (h | rfl) | h
    · exact Or.inl (Or.inl h)
    · exact Or.inr (Nat.le_refl _)
    · exact Or.inl (Or.inr h)
  · exact absRel_stay_step hyp hs hc (th' := { th with pc := .cDir d n _, handles := hs' }) rfl rfl
      (fun _ => rfl) (absT_edgeEq hs.shape he hk)

/-- the top activation enters a directory child -/
theorem step_cDir_dir (hyp : Hyp T0 progs) (hs : Sim T0 progs s) (hc : Cur T0 progs s τ P th i)
    {d : Oid} {n : Name} {fr : Frame} {rest : List Frame} (hpc : th.pc = .cDir d n (fr :: rest))
    (hinv : PcInv T0 s.heap i (.cDir d n (fr :: rest)))
    {cn : Name} {co : Oid} {todo' : List (Name × Oid × Bool)} (htodo : fr.todo = (cn, co, true) :: todo')
    {h' : Heap} {r : Ret} (hap : applyAct s.heap τ (.snapshot co false) = some (h', r)) {hs' : List Handle} :
    Sim T0 progs { heap := h', threads := s.threads.set τ { th with pc := copyStep d n fr rest r, handles := hs' }, log := s.log } := by
  obtain ⟨π, s0, ρ, hd, hop, _, hfi, hnd⟩ := hinv
  subst hop
  unfold FramesInv at hfi
  obtain ⟨hF, hrest⟩ := hfi
  obtain ⟨hrco, hkco⟩ := hF.todo cn co true (by rw [htodo]; simp)
  obtain ⟨dd, hdd⟩ := getDir_of_okind hkco
  obtain ⟨rfl, rfl⟩ := act_snapshot hdd hap
  simp only [copyStep, htodo]
  have hxo : s0 ∈ (Op.copy s0 (π ++ [n])).owned := by simp [Op.owned, Op.R]
  have hnew := frame_of_snapshot hyp hs hc (x := s0) (path := (s0 ++ ρ) ++ [cn]) hxo
    (by rw [List.append_assoc]; exact List.prefix_append _ _) ⟨hrco, hkco⟩ hdd cn
  refine sim_same_stay hyp hs hc rfl ⟨π, s0, ρ ++ [cn], hd, rfl, by simp, ?_, ?_⟩ (fun _ => rfl) ?_
  · unfold FramesInv
    refine ⟨by simpa [List.append_assoc] using hnew, ρ, rfl, ?_⟩
    unfold FramesInv
    refine ⟨⟨hF.src, ?_, ?_, ?_, hF.done⟩, ?_⟩
    · have := hF.names
      simpa [htodo] using this
    · intro m
      rw [hF.cover m, htodo]
      simp only [List.map_cons, List.mem_cons, Option.mem_def, reduceCtorEq, false_or, Option.some.injEq]
      constructor
      · rintro (h | rfl | h)
        · exact Or.inl h
        · exact Or.inr (Or.inl rfl)
        · exact Or.inr (Or.inr h)
      · rintro (h | h | h)
        · exact Or.inl h
        · exact Or.inr (Or.inl h.symm)
        · exact Or.inr (Or.inr h)
    · intro m co' k hmem
      exact hF.todo m co' k (by rw [htodo]; exact List.mem_cons_of_mem _ hmem)
    · cases rest with
      | nil => exact hrest
      | cons g gs => exact hrest
  · simpa using hnd
  · intro c hc'
    left
    rw [hpc]
    simpa [Pc.pending] using hc'


/-- the new directory over the copies of all children of the source directory at `path` represents it -/
theorem priv_new_dir (hyp : Hyp T0 progs) (hs : Sim T0 progs s) (hc : Cur T0 progs s τ P th i)
    {x path : Path} (hx : x ∈ i.owned) (hxp : x <+: path) {fr : Frame} (hF : FrameInv T0 s.heap path none fr)
    (htodo : fr.todo = []) (hids : (fr.done.map Prod.snd).Nodup) :
    Priv (s.heap ++ [.dir (newDirObj fr.done)]) s.heap.length (fun q => T0 (path ++ q)) := by
  have hnames : (fr.done.map Prod.fst).Nodup := by
    have := hF.names; simpa [htodo] using this
  have hpriv : ∀ p ∈ fr.done, p.2 ≠ 0 ∧ p.2 < s.heap.length ∧ ∀ a m, edge s.heap a m ≠ some p.2 := by
    intro p hp
    obtain ⟨h1, h2, h3, _⟩ := hF.done p.1 p.2 hp
    exact ⟨h1, h2, h3⟩
  obtain ⟨_, _, _, _, hnoN⟩ := alloc_dir hs.shape hnames hids hpriv
  refine ⟨Nat.ne_of_gt hs.shape.length_pos, by simp, hnoN, ?_⟩
  have hown : absT s.heap path = T0 path := hc.own hyp hs hx hxp
  funext q
  rw [absAt_new_dir hs.shape hnames (fun p hp => (hpriv p hp).2.1) q]
  cases q with
  | nil => simp only [List.append_nil]; rw [← hown]; exact hF.src.abs.symm
  | cons m r =>
    simp only
    cases hf : fr.done.find? (fun p => p.1 == m) with
    | some p =>
      have hmem := List.mem_of_find?_eq_some hf
      have hpm : p.1 = m := by simpa using List.find?_some hf
      simp only
      have := (hF.done p.1 p.2 hmem).2.2.2
      rw [this, hpm]
    | none =>
      simp only
      have hnot : m ∉ fr.done.map Prod.fst := by
        intro hm
        obtain ⟨p, hp, rfl⟩ := List.mem_map.1 hm
        have := List.find?_eq_none.1 hf p hp
        simp at this
      have hTm : T0 (path ++ [m]) = none := by
        cases hT : T0 (path ++ [m]) with
        | none => rfl
        | some e =>
          have := (hF.cover m).1 (by rw [hT]; simp)
          simp [htodo, hnot] at this
      cases r with
      | nil => exact hTm.symm
      | cons m' r' =>
        rw [show path ++ m :: m' :: r' = (path ++ [m]) ++ (m' :: r') by simp]
        exact (hyp.wf.below (by rw [hTm]; simp) (by simp)).symm

/-- the top activation is through: `NewDir` over its copies, handed to the activation below (or to `addNode`) -/
theorem step_cDir_done (hyp : Hyp T0 progs) (hs : Sim T0 progs s) (hc : Cur T0 progs s τ P th i)
    {d : Oid} {n : Name} {fr : Frame} {rest : List Frame} (hpc : th.pc = .cDir d n (fr :: rest))
    (hinv : PcInv T0 s.heap i (.cDir d n (fr :: rest))) (htodo : fr.todo = [])
    {h' : Heap} {r : Ret} (hap : applyAct s.heap τ (.newDir fr.done none) = some (h', r)) {hs' : List Handle} :
    Sim T0 progs { heap := h', threads := s.threads.set τ { th with pc := copyStep d n fr rest r, handles := hs' }, log := s.log } := by
  obtain ⟨π, s0, ρ, hd, hop, _, hfi, hnd⟩ := hinv
  subst hop
  have hfi0 := hfi
  unfold FramesInv at hfi
  obtain ⟨hF, hrest⟩ := hfi
  obtain ⟨rfl, rfl⟩ := act_newDir hap
  have hxo : s0 ∈ (Op.copy s0 (π ++ [n])).owned := by simp [Op.owned, Op.R]
  have hnd' := hnd
  simp only [List.flatMap_cons] at hnd'
  have hids : (fr.done.map Prod.snd).Nodup := (List.nodup_append.1 hnd').1
  have hnames : (fr.done.map Prod.fst).Nodup := by
    have := hF.names; simpa [htodo] using this
  have hprivs : ∀ p ∈ fr.done, p.2 ≠ 0 ∧ p.2 < s.heap.length ∧ ∀ a m, edge s.heap a m ≠ some p.2 := by
    intro p hp
    obtain ⟨h1, h2, h3, _⟩ := hF.done p.1 p.2 hp
    exact ⟨h1, h2, h3⟩
  obtain ⟨hshape, hfr, habsT, hmono, _⟩ := alloc_dir hs.shape hnames hids hprivs
  have hpriv := priv_new_dir hyp hs hc (x := s0) (path := s0 ++ ρ) hxo (List.prefix_append _ _) hF htodo hids
  have hLown : ∀ c ∈ fr.done.map Prod.snd, c ∈ th.pc.pending := by
    intro c hc'
    rw [hpc]
    simp only [Pc.pending, List.flatMap_cons, List.mem_append]
    exact Or.inl hc'
  have hflat := flat_lt hfi0
  have hd' := hd.frame hs.shape hfr.kind (hmono _ _ hd.1)
  have hstay : ∀ pc', pc'.creating = true → pc'.undecided = true →
      AbsRel (absT (s.heap ++ [.dir (newDirObj fr.done)]))
        (SD T0 (decAll progs (s.threads.set τ { th with pc := pc', handles := hs' })))
        (Ext progs (s.threads.set τ { th with pc := pc', handles := hs' })) :=
    fun pc' hcr hu => absRel_stay_step hyp hs hc (th' := { th with pc := pc', handles := hs' }) rfl hu
      (fun _ => hcr) habsT
  simp only [copyStep, htodo]
  cases rest with
  | nil =>
    have hρ : ρ = [] := hrest
    subst hρ
    simp only [List.append_nil] at hpriv
    refine sim_act_mk hyp hs hc.hP hc.hth hc.cur hc.busy
      (th' := { th with pc := .cAdd d n s.heap.length, handles := hs' }) rfl hshape hfr hLown
      (fun _ _ π o _ hr => hmono π o hr) (by simp) ⟨π, s0, hd', rfl, hpriv⟩ ?_ (hstay _ rfl rfl)
    intro c hc'
    simp only [Pc.pending, List.mem_singleton] at hc'
    subst hc'; exact Or.inr (Nat.le_refl _)
  | cons par rest' =>
    obtain ⟨ρ', hρ, hrestInv⟩ := hrest
    subst hρ
    have hdisj : ∀ fr' ∈ par :: rest', ∀ p ∈ fr'.done, p.2 ∉ fr.done.map Prod.snd := by
      intro fr' hfr' p hp hmem
      have := (List.nodup_append.1 hnd').2.2 p.2 hmem p.2
        (by simp only [List.mem_flatMap, List.mem_map]; exact ⟨fr', hfr', p, hp, rfl⟩)
      exact this rfl
    have hrestInv' := FramesInv.frame (T0 := T0) hs.shape hfr (s := s0) (fun π o _ hr => hmono π o hr)
      (par :: rest') (some fr.nm) ρ' hdisj hrestInv
    unfold FramesInv at hrestInv'
    obtain ⟨hP, hrest2⟩ := hrestInv'
    refine sim_act_mk hyp hs hc.hP hc.hth hc.cur hc.busy
      (th' := { th with pc := .cDir d n ({ par with done := par.done ++ [(fr.nm, s.heap.length)] } :: rest'), handles := hs' })
      rfl hshape hfr hLown (fun _ _ π o _ hr => hmono π o hr) (by simp)
      ⟨π, s0, ρ', hd', rfl, by simp, ?_, ?_⟩ ?_ (hstay _ rfl rfl)
    · unfold FramesInv
      refine ⟨⟨hP.src, ?_, ?_, hP.todo, ?_⟩, ?_⟩
      · have := hP.names
        simpa [List.append_assoc] using this
      · intro m
        rw [hP.cover m]
        simp only [List.map_append, List.map_cons, List.map_nil, List.mem_append, List.mem_singleton, Option.mem_def,
          Option.some.injEq, reduceCtorEq, false_or]
        constructor
        · rintro (h | h | h)
          · exact Or.inl (Or.inl h)
          · exact Or.inl (Or.inr h.symm)
          · exact Or.inr h
        · rintro ((h | h) | h)
          · exact Or.inl h
          · exact Or.inr (Or.inl h.symm)
          · exact Or.inr (Or.inr h)
      · intro m c hmem
        simp only [List.mem_append, List.mem_singleton, Prod.mk.injEq] at hmem
        rcases hmem with hmem | ⟨rfl, rfl⟩
        · exact hP.done m c hmem
        · have : (fun q => T0 (s0 ++ ρ' ++ fr.nm :: q)) = (fun q => T0 (s0 ++ (ρ' ++ [fr.nm]) ++ q)) := by
            funext q; simp
          rw [this]; exact hpriv
      · cases rest' with
        | nil => exact hrest2
        | cons g gs => exact hrest2
    · have hold : ((par.done.map Prod.snd) ++ rest'.flatMap (fun fr => fr.done.map (·.2))).Nodup := by
        have := (List.nodup_append.1 hnd').2.1
        simpa using this
      simp only [List.flatMap_cons, List.map_append, List.map_cons, List.map_nil]
      apply nodup_insert_mid hold
      intro hmem
      have : s.heap.length ∈ (fr :: par :: rest').flatMap (fun fr => fr.done.map (·.2)) := by
        simp only [List.flatMap_cons, List.mem_append] at hmem ⊢
        exact Or.inr hmem
      exact absurd (hflat _ this) (Nat.lt_irrefl _)
    · intro c hc'
      rw [hpc]
      simp only [Pc.pending, List.flatMap_cons, List.map_append, List.map_cons, List.map_nil, List.mem_append,
        List.mem_singleton] at hc' ⊢
      rcases hc' with (h | rfl) | h
      · exact Or.inl (Or.inr (Or.inl h))
      · exact Or.inr (Nat.le_refl _)
      · exact Or.inl (Or.inr (Or.inr h))

/-- one step of the loop of `copyDir` -/
theorem step_cDir (hyp : Hyp T0 progs) (hs : Sim T0 progs s) (hc : Cur T0 progs s τ P th i)
    {d : Oid} {n : Name} {fr : Frame} {rest : List Frame} (hpc : th.pc = .cDir d n (fr :: rest))
    (hinv : PcInv T0 s.heap i (.cDir d n (fr :: rest)))
    {h' : Heap} {r : Ret} (hap : applyAct s.heap τ (actOf .fixed (.cDir d n (fr :: rest))) = some (h', r))
    {hs' : List Handle} :
    Sim T0 progs { heap := h', threads := s.threads.set τ { th with pc := resume .fixed (.cDir d n (fr :: rest)) r, handles := hs' }, log := s.log } := by
  simp only [resume]
  cases htodo : fr.todo with
  | nil =>
    simp only [actOf, htodo, Variant.fixed, Bool.false_eq_true, if_false] at hap
    exact step_cDir_done hyp hs hc hpc hinv htodo hap
  | cons e todo' =>
    obtain ⟨cn, co, k⟩ := e
    cases k with
    | false =>
      simp only [actOf, htodo] at hap
      exact step_cDir_file hyp hs hc hpc hinv htodo hap
    | true =>
      simp only [actOf, htodo, Variant.fixed] at hap
      exact step_cDir_dir hyp hs hc hpc hinv htodo hap

end Goat.MemFSConc
