/-
Helper lemmas for property C09, part 3: the thread system.  Shape of a step, the thread-local
invariant of `copyDir` activations, and the global invariant `Inv` that every step preserves.
-/
import Goat.Proofs.MemFSConcHeap

set_option linter.unusedSimpArgs false

namespace Goat.MemFSConc

/-! ### thread-local invariant: the node lists `copyDir` builds have unique names -/

def FrameOK (hole : Option Name) (fr : Frame) : Prop :=
  (fr.done.map (·.1) ++ (hole.toList ++ fr.todo.map (·.1))).Nodup

def StackOK : Option Name → List Frame → Prop
  | _, [] => True
  | hole, fr :: rest => FrameOK hole fr ∧ StackOK (some fr.nm) rest

def stackOf : Pc → List Frame
  | .cDir _ _ st => st
  | _ => []

def PcOK (pc : Pc) : Prop := StackOK none (stackOf pc)

theorem pcOK_of_nil {pc : Pc} (h : stackOf pc = []) : PcOK pc := by
  unfold PcOK; rw [h]; trivial

@[simp] theorem afterMk_stack (k : MK) (d : Oid) : stackOf (afterMk k d) = [] := by
  cases k <;> simp only [afterMk] <;> (try split) <;> rfl

@[simp] theorem mkStart_stack (p : Path) (k : MK) : stackOf (mkStart p k) = [] := by
  cases p <;> simp only [mkStart, afterMk_stack] <;> rfl

@[simp] theorem mkOn_stack (o : Oid) (p : Path) (k : MK) : stackOf (mkOn o p k) = [] := by
  cases p <;> simp only [mkOn, afterMk_stack] <;> rfl

@[simp] theorem afterWalk_stack (k : WK) (o : Oid) (b : Bool) : stackOf (afterWalk k o b) = [] := by
  cases k <;> simp only [afterWalk, mkStart_stack] <;> (repeat' split) <;> rfl

@[simp] theorem walkStart_stack (p : Path) (k : WK) : stackOf (walkStart p k) = [] := by
  cases p <;> simp only [walkStart, afterWalk_stack] <;> rfl

@[simp] theorem walkOn_stack (o : Oid) (b : Bool) (p : Path) (k : WK) : stackOf (walkOn o b p k) = [] := by
  cases p <;> simp only [walkOn, afterWalk_stack] <;> (repeat' split) <;> rfl

@[simp] theorem start_stack (hs : List Handle) (op : Op) : stackOf (start hs op) = [] := by
  cases op <;> simp only [start] <;> (repeat' split) <;>
    first | rfl | simp only [mkStart_stack, walkStart_stack]

theorem start_ok (hs : List Handle) (op : Op) : PcOK (start hs op) := pcOK_of_nil (by simp)

theorem actOf_ok (v : Variant) {pc : Pc} (h : PcOK pc) : ActOK (actOf v pc) := by
  cases pc with
  | cDir d n st =>
    cases st with
    | nil => simp only [actOf, ActOK]
    | cons fr rest =>
      simp only [actOf]
      split
      · trivial
      · trivial
      · rename_i htodo
        simp only [ActOK]
        have := h.1
        simp only [FrameOK, htodo] at this
        simpa using this
  | _ => simp only [actOf] <;> (repeat' split) <;> trivial

theorem copyStep_ok {d : Oid} {n : Name} {fr : Frame} {stack : List Frame} {r : Ret}
    (h : StackOK none (fr :: stack)) (hr : RetOK r) : PcOK (copyStep d n fr stack r) := by
  have hfr : FrameOK none fr := h.1
  have hst : StackOK (some fr.nm) stack := h.2
  simp only [FrameOK, Option.toList, List.nil_append] at hfr
  unfold copyStep
  split
  · rename_i cn co todo' c htodo
    refine ⟨?_, hst⟩
    simp only [FrameOK, Option.toList, List.nil_append, List.map_append, List.map_cons, List.map_nil]
    rw [htodo] at hfr
    simpa [List.append_assoc] using hfr
  · rename_i cn co todo' l htodo
    refine ⟨?_, ?_, hst⟩
    · simp only [FrameOK, Option.toList, List.nil_append, List.map_nil]
      simpa [RetOK] using hr
    · simp only [FrameOK, Option.toList]
      rw [htodo] at hfr
      simpa using hfr
  · rename_i c htodo
    cases stack with
    | nil => exact pcOK_of_nil rfl
    | cons par stack' =>
      simp only
      have hpar : FrameOK (some fr.nm) par := hst.1
      refine ⟨?_, hst.2⟩
      simp only [FrameOK, Option.toList, List.nil_append, List.map_append, List.map_cons, List.map_nil] at hpar ⊢
      simpa [List.append_assoc] using hpar
  · exact pcOK_of_nil rfl

theorem resume_ok (v : Variant) {pc : Pc} {r : Ret} (h : PcOK pc) (hr : RetOK r) : PcOK (resume v pc r) := by
  cases pc with
  | cEnter d n src =>
    simp only [resume]
    split
    · simp only [PcOK, stackOf, StackOK, FrameOK, and_true]
      simpa [RetOK] using hr
    · exact pcOK_of_nil rfl
  | cDir d n stack =>
    simp only [resume]
    cases stack with
    | nil => exact pcOK_of_nil rfl
    | cons fr stack' => exact copyStep_ok h hr
  | _ =>
    simp only [resume] <;> apply pcOK_of_nil <;> (repeat' split) <;>
      first | rfl | simp only [mkOn_stack, walkOn_stack]

/-! ### the shape of one step -/

/-- the three kinds of step: begin an operation, record a result, one critical section -/
inductive StepKind (v : Variant) (s : State) (t : Tid) (th : Thread) : State → Prop
  | start (op : Op) (rest : List Op) : th.pc = .idle → th.prog = op :: rest →
      StepKind v s t th { s with threads := s.threads.set t { th with pc := start th.handles op, prog := rest } }
  | fin (r : Res) : th.pc = .fin r →
      StepKind v s t th { heap := s.heap, threads := s.threads.set t { th with pc := .idle }, log := (t, r) :: s.log }
  | act (h' : Heap) (r : Ret) : th.pc ≠ .idle → (∀ r, th.pc ≠ .fin r) →
      applyAct s.heap t (actOf v th.pc) = some (h', r) →
      StepKind v s t th { heap := h',
                          threads := s.threads.set t { th with pc := resume v th.pc r,
                                                               handles := handleEffect th.pc r th.handles },
                          log := s.log }

theorem step_cases {v : Variant} {s s' : State} {t : Tid} (hs : step v s t = some s') :
    ∃ th, s.threads[t]? = some th ∧ StepKind v s t th s' := by
  unfold step at hs
  cases hth : s.threads[t]? with
  | none => simp [hth] at hs
  | some th =>
    refine ⟨th, rfl, ?_⟩
    simp only [hth] at hs
    cases hst : stepThread v s.heap t th with
    | none => simp [hst] at hs
    | some res =>
      obtain ⟨h', th', out⟩ := res
      simp only [hst, Option.some.injEq] at hs
      subst hs
      unfold stepThread at hst
      split at hst
      · rename_i hpc
        split at hst
        · cases hst
        · rename_i op rest hprog
          simp only [Option.some.injEq, Prod.mk.injEq] at hst
          obtain ⟨rfl, rfl, rfl⟩ := hst
          exact StepKind.start op rest hpc hprog
      · rename_i r hpc
        simp only [Option.some.injEq, Prod.mk.injEq] at hst
        obtain ⟨rfl, rfl, rfl⟩ := hst
        exact StepKind.fin r hpc
      · rename_i pc hni hnf
        cases hap : applyAct s.heap t (actOf v th.pc) with
        | none => simp [hap] at hst
        | some hr =>
          obtain ⟨h2, r⟩ := hr
          simp only [hap, Option.some.injEq, Prod.mk.injEq] at hst
          obtain ⟨rfl, rfl, rfl⟩ := hst
          exact StepKind.act _ r hni (fun r => hnf r) hap

/-! ### the global invariant -/

structure Inv (s : State) : Prop where
  heap : HeapInv s.heap
  files : FilesInv s.heap
  pcs : ∀ th ∈ s.threads, PcOK th.pc

theorem inv_init (progs : List (List Op)) : Inv (init progs) := by
  refine ⟨?_, ?_, ?_⟩
  · intro o d hg
    unfold init getDir at hg
    cases o with
    | zero => simp at hg; rw [← hg]; exact dirInv_empty
    | succ k => simp at hg
  · intro o f hg
    unfold init getFile at hg
    cases o with
    | zero => simp at hg
    | succ k => simp at hg
  · intro th hth
    simp only [init, List.mem_map] at hth
    obtain ⟨p, _, rfl⟩ := hth
    exact pcOK_of_nil rfl

theorem mem_set_thread {ths : List Thread} {t : Tid} {th' x : Thread} (hx : x ∈ ths.set t th') :
    x = th' ∨ x ∈ ths := by
  rcases List.mem_or_eq_of_mem_set hx with h | h
  · exact Or.inr h
  · exact Or.inl h

theorem inv_step {v : Variant} {s s' : State} {t : Tid} (hi : Inv s) (hs : step v s t = some s') : Inv s' := by
  obtain ⟨th, hth, hk⟩ := step_cases hs
  have hmem : th ∈ s.threads := List.mem_of_getElem? hth
  cases hk with
  | start op rest hpc hprog =>
    refine ⟨hi.heap, hi.files, ?_⟩
    intro x hx
    rcases mem_set_thread hx with rfl | hx
    · exact start_ok _ _
    · exact hi.pcs x hx
  | fin r hpc =>
    refine ⟨hi.heap, hi.files, ?_⟩
    intro x hx
    rcases mem_set_thread hx with rfl | hx
    · exact pcOK_of_nil rfl
    · exact hi.pcs x hx
  | act h' r hni hnf hap =>
    have hpc := hi.pcs th hmem
    refine ⟨applyAct_heapInv hi.heap (actOf_ok v hpc) hap, applyAct_filesInv hi.files hap, ?_⟩
    intro x hx
    rcases mem_set_thread hx with rfl | hx
    · exact resume_ok v hpc (applyAct_retOK hi.heap hap)
    · exact hi.pcs x hx

theorem inv_reachable (v : Variant) (progs : List (List Op)) {s : State}
    (h : LTS.Reachable (sys v progs) s) : Inv s :=
  LTS.inv_of_init_step (sys v progs) Inv (inv_init progs) (fun _ _ _ hi hs => inv_step hi hs) s h

/-- `ReadFile`'s critical section returns a complete value of the file -/
theorem read_complete_step {v : Variant} {s s' : State} {t : Tid} {th th' : Thread} {f : Oid} {x : Data}
    (hi : Inv s) (hth : s.threads[t]? = some th) (hpc : th.pc = .rData f) (hs : step v s t = some s')
    (hth' : s'.threads[t]? = some th') (hres : th'.pc = .fin (.data x)) :
    ∃ ff, getFile s.heap f = some ff ∧ ff.lock = none ∧ x ∈ ff.committed := by
  obtain ⟨th0, hth0, hk⟩ := step_cases hs
  rw [hth] at hth0; cases hth0
  have hlt : t < s.threads.length := (List.getElem?_eq_some_iff.1 hth).1
  cases hk with
  | start op rest hpc' _ => rw [hpc] at hpc'; cases hpc'
  | fin r hpc' => rw [hpc] at hpc'; cases hpc'
  | act h' r _ _ hap =>
    simp only [List.getElem?_set_self hlt, Option.some.injEq] at hth'
    subst hth'
    simp only [hpc, resume] at hres
    rw [hpc] at hap
    simp only [actOf] at hap
    cases r <;> simp only [reduceCtorEq, Pc.fin.injEq, Res.data.injEq] at hres
    subst hres
    exact (applyAct_getData hi.files hap).2

end Goat.MemFSConc
