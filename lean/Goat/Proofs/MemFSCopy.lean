/-
Refinement lemmas, continued: Copy / CopyDirectory / CopyFile and the seven queries of the root memory
filespace.  (Helper lemmas for C01.)
-/
import Goat.Proofs.MemFSOps

namespace Goat
namespace MemFS

open Path (Name split join reduceAbsPath norm Reduced Plain NoSlash dotSeg slash)
open FS (Entry State Result Mut CopyKind)
open MemAbs

/-! ### Copy -/

/-- the source type test of the three copy methods -/
def acceptOf : CopyKind → Node → Bool
  | .any => fun _ => true
  | .dirOnly => Node.isDir
  | .fileOnly => fun n => !n.isDir

theorem accept_iff (kind : CopyKind) (n : Node) :
    acceptOf kind n = true ↔ kind.accepts (some n.entry) := by
  cases kind <;> cases n <;> simp [acceptOf, CopyKind.accepts, Node.entry, Node.isDir]

theorem add_putLike (name : Name) (x : Node) :
    PutLike (fun k => k.add name x) name x Option.isNone := by
  intro k
  simp only [Kids.add]
  cases k.find name <;> simp

theorem copyOk_concat (kind : CopyKind) (S : State) (s init : List Name) (name : Name) :
    FS.copyOk kind S s (init ++ [name]) ↔
      kind.accepts (S s) ∧ FS.mkdirOk S init ∧ S (init ++ [name]) = none := by
  simp [FS.copyOk]

/-- the source still exists once the destination's parents have been created, and it is the source
of the state `mkdirSt` -/
theorem source_after_mkdirs (t t1 : Node) (init s : List Name) (n0 : Node)
    (h1 : t.mkdirs init = some t1) (hs : t.lookup s = some n0) :
    ∃ x, t1.lookup s = some x ∧ ∀ r, abs x r = FS.mkdirSt (abs t) init (s ++ r) := by
  have hex : ∃ x, t1.lookup s = some x := by
    by_cases hp : s <+: init
    · obtain ⟨k, hk⟩ := Node.lookup_mkdirs_prefix t t1 init s h1 hp
      exact ⟨_, hk⟩
    · exact ⟨n0, by rw [Node.lookup_mkdirs_other t t1 init s h1 hp, hs]⟩
  obtain ⟨x, hx⟩ := hex
  refine ⟨x, hx, ?_⟩
  intro r
  rw [← abs_mkdirs t t1 init h1, abs_append, hx]; rfl

theorem root_copyWith (kind : CopyKind) (t : Node) (ht : Inv t) (rs rd : Bytes) (s d : List Name)
    (hs : norm rs = some s) (hd : norm rd = some d) :
    Mut (FS.copyOk kind (abs t) s d) (FS.copySt (abs t) s d) (abs t)
        (Root.copyWith (acceptOf kind) t rs rd).2 (abs (Root.copyWith (acceptOf kind) t rs rd).1)
    ∧ Keeps t (Root.copyWith (acceptOf kind) t rs rd).1 (d ++ s)
    ∧ ((Root.copyWith (acceptOf kind) t rs rd).2 = .err → (Root.copyWith (acceptOf kind) t rs rd).1 = t) := by
  have hsr := Path.norm_reduced rs s hs
  have hdr := Path.norm_reduced rd d hd
  simp only [Root.copyWith, reduceAbsPath_of_norm hs, reduceAbsPath_of_norm hd]
  rcases eq_nil_or_snoc d with rfl | ⟨init, name, rfl⟩
  · simp only [splitContainsPath_nil]
    exact ⟨Or.inr ⟨by simp [FS.copyOk], rfl, rfl⟩, Keeps.refl ht _, by simp⟩
  · simp only [splitContainsPath_concat hdr, getNodeByPath_join t hsr]
    cases hl0 : t.lookup s with
    | none =>
      dsimp only
      refine ⟨Or.inr ⟨?_, rfl, rfl⟩, Keeps.refl ht _, by simp⟩
      intro hok
      have := ((copyOk_concat ..).mp hok).1
      simp [abs, hl0, CopyKind.accepts] at this
    | some n0 =>
      dsimp only
      by_cases hacc : acceptOf kind n0 = true
      · simp only [hacc, not_true_eq_false, if_false]
        have haccS : kind.accepts (abs t s) := by
          have := (accept_iff kind n0).mp hacc
          simpa [abs, hl0] using this
        cases h1 : t.mkdirs init with
        | none =>
          dsimp only
          refine ⟨Or.inr ⟨?_, rfl, rfl⟩, Keeps.refl ht _, by simp⟩
          intro hok
          have := (mkdirs_ok_iff t init).mpr ((copyOk_concat ..).mp hok).2.1
          simp [h1] at this
        | some t1 =>
          dsimp only
          obtain ⟨x, hx, habsx⟩ := source_after_mkdirs t t1 init s n0 h1 hl0
          simp only [getNodeByPath_join t1 hsr, hx]
          have hmk : FS.mkdirOk (abs t) init := (mkdirs_ok_iff t init).mp (by simp [h1])
          cases h2 : t1.update init (fun k => k.add name (copyNode x)) with
          | none =>
            dsimp only
            obtain ⟨hc, e⟩ := put_none t t1 init name _ _ Option.isNone (add_putLike name (copyNode x))
              rfl h1 h2
            rw [e]
            refine ⟨Or.inr ⟨?_, rfl, rfl⟩, Keeps.refl ht _, by simp⟩
            intro hok
            have := ((copyOk_concat ..).mp hok).2.2
            rw [abs_eq_none] at this
            rw [this] at hc
            simp at hc
          | some t2 =>
            dsimp only
            have hc := put_some t t1 t2 ht init name _ _ Option.isNone (add_putLike name (copyNode x))
              h1 h2
            have hnone : abs t (init ++ [name]) = none := by
              rw [abs_eq_none]; simpa using hc
            refine ⟨Or.inl ⟨(copyOk_concat ..).mpr ⟨haccS, hmk, hnone⟩, rfl, ?_⟩, ?_, by simp⟩
            · funext q
              rw [abs_put t t1 t2 init name _ _ Option.isNone (add_putLike name (copyNode x)) h1 h2 q]
              simp only [FS.copySt, dropLast_concat, List.length_append, List.length_cons,
                List.length_nil, Nat.zero_add, copyNode, habsx]
            · have k1 := keeps_mkdirs ht init h1
              have hxnd : x.NoDup := Node.lookup_nodup t1 s x k1.nodup hx
              apply keeps_put t t1 t2 ht init name (copyNode x) _ Option.isNone
                (add_putLike name (copyNode x)) hxnd s _ h1 h2
              intro P hP hsegs
              have h1all := k1.all P hP (fun z m => hsegs z (by simp [m]))
              exact (Node.lookup_all t1 s x h1all hx).1
      · simp only [hacc]
        refine ⟨Or.inr ⟨?_, rfl, rfl⟩, Keeps.refl ht _, by simp⟩
        intro hok
        have := ((copyOk_concat ..).mp hok).1
        rw [show abs t s = some n0.entry by simp [abs, hl0]] at this
        exact hacc ((accept_iff kind n0).mpr this)

theorem copyWith_none_src (acc : Node → Bool) (t : Node) (rs rd : Bytes) (h : norm rs = none) :
    Root.copyWith acc t rs rd = (t, .err) := by
  simp [Root.copyWith, reduceAbsPath_none h]

theorem copyWith_none_dst (acc : Node → Bool) (t : Node) (rs rd : Bytes) (h : norm rd = none) :
    Root.copyWith acc t rs rd = (t, .err) := by
  simp only [Root.copyWith, reduceAbsPath_none h]
  cases reduceAbsPath rs <;> rfl

/-! ### Queries -/

theorem readLoop_eq (data : Bytes) (ptr : Nat) (hptr : ptr ≤ data.length) (sizes : List Nat) :
    readLoop data ptr sizes = FS.readChunks (data.drop ptr) sizes := by
  induction sizes generalizing ptr with
  | nil => rfl
  | cons size rest ih =>
    simp only [readLoop, FS.readChunks, List.drop_drop]
    have hlen : ((data.drop ptr).take size).length = min size (data.length - ptr) := by
      simp [List.length_take, List.length_drop]
    rw [hlen]
    by_cases hcase : ptr + size ≤ data.length
    · have hm : min size (data.length - ptr) = size := by omega
      rw [hm, ih (ptr + size) hcase]
      have hflag : (ptr + size == data.length) = (data.drop (ptr + size)).isEmpty := by
        by_cases e : ptr + size = data.length
        · simp [e]
        · have hne : data.drop (ptr + size) ≠ [] := by
            rw [Ne, List.drop_eq_nil_iff]; omega
          cases hd : data.drop (ptr + size) with
          | nil => exact absurd hd hne
          | cons a b => simp [e]
      rw [hflag]
    · have hm : min size (data.length - ptr) = data.length - ptr := by omega
      have hp : ptr + (data.length - ptr) = data.length := by omega
      rw [hm, hp, ih data.length (Nat.le_refl _)]
      have hd1 : data.drop data.length = [] := by simp
      have hd2 : data.drop (ptr + size) = [] := by
        rw [List.drop_eq_nil_iff]; omega
      rw [hd1, hd2]
      simp

theorem root_reader_file (t : Node) (raw : Bytes) (sizes : List Nat) (p : List Name) (d : Bytes)
    (hn : norm raw = some p) (h : t.lookup p = some (.file d)) :
    Root.reader t raw sizes = .chunks (FS.readChunks d sizes) := by
  have hp := Path.norm_reduced raw p hn
  simp [Root.reader, reduceAbsPath_of_norm hn, getFileByPath_join t hp, h, asFile,
    readLoop_eq d 0 (Nat.zero_le _)]

theorem root_reader_other (t : Node) (raw : Bytes) (sizes : List Nat) (p : List Name)
    (hn : norm raw = some p) (h : ∀ d, t.lookup p ≠ some (.file d)) :
    Root.reader t raw sizes = .err := by
  have hp := Path.norm_reduced raw p hn
  simp only [Root.reader, reduceAbsPath_of_norm hn, getFileByPath_join t hp]
  cases hl : t.lookup p with
  | none => rfl
  | some n =>
    cases n with
    | file d => exact absurd hl (h d)
    | dir k => rfl

theorem root_readFile_file (t : Node) (raw : Bytes) (p : List Name) (d : Bytes)
    (hn : norm raw = some p) (h : t.lookup p = some (.file d)) : Root.readFile t raw = .data d := by
  have hp := Path.norm_reduced raw p hn
  simp [Root.readFile, reduceAbsPath_of_norm hn, getFileByPath_join t hp, h, asFile]

theorem root_readFile_other (t : Node) (raw : Bytes) (p : List Name)
    (hn : norm raw = some p) (h : ∀ d, t.lookup p ≠ some (.file d)) : Root.readFile t raw = .err := by
  have hp := Path.norm_reduced raw p hn
  simp only [Root.readFile, reduceAbsPath_of_norm hn, getFileByPath_join t hp]
  cases hl : t.lookup p with
  | none => rfl
  | some n =>
    cases n with
    | file d => exact absurd hl (h d)
    | dir k => rfl

theorem root_readDir_dir (t : Node) (raw : Bytes) (p : List Name) (k : Kids)
    (hn : norm raw = some p) (h : t.lookup p = some (.dir k)) : Root.readDir t raw = .list k.entries := by
  have hp := Path.norm_reduced raw p hn
  simp [Root.readDir, reduceAbsPath_of_norm hn, getDirByPath_join t hp, h, asDir]

theorem root_readDir_other (t : Node) (raw : Bytes) (p : List Name)
    (hn : norm raw = some p) (h : ∀ k, t.lookup p ≠ some (.dir k)) : Root.readDir t raw = .err := by
  have hp := Path.norm_reduced raw p hn
  simp only [Root.readDir, reduceAbsPath_of_norm hn, getDirByPath_join t hp]
  cases hl : t.lookup p with
  | none => rfl
  | some n =>
    cases n with
    | file d => rfl
    | dir k => exact absurd hl (h k)

/-- the listing of a directory of a well-formed tree is a listing in the sense of the specification -/
theorem isListing_entries (t : Node) (ht : Inv t) (p : List Name) (k : Kids)
    (h : t.lookup p = some (.dir k)) : FS.IsListing (abs t) p k.entries := by
  have hnd : k.NoDup := (Node.nodup_dir k).mp (Node.lookup_nodup t p _ ht.wf.1 h)
  refine ⟨by rw [Kids.entries_map_fst]; exact Kids.names_nodup k hnd, ?_⟩
  intro n b
  rw [Kids.mem_entries k hnd n b]
  have : abs t (p ++ [n]) = (k.find n).map Node.entry := by
    simp only [abs, lookup_child t p n k h]
  rw [this]
  cases k.find n with
  | none => simp
  | some c => simp [entry_isDir]

theorem root_isExist (t : Node) (raw : Bytes) (p : List Name) (hn : norm raw = some p) :
    Root.isExist t raw = .bool (abs t p).isSome := by
  have hp := Path.norm_reduced raw p hn
  simp [Root.isExist, reduceAbsPath_of_norm hn, getNodeByPath_join t hp, abs]

theorem root_isFile (t : Node) (raw : Bytes) (p : List Name) (hn : norm raw = some p) :
    Root.isFile t raw = .bool (asFile (t.lookup p)).isSome := by
  have hp := Path.norm_reduced raw p hn
  simp [Root.isFile, reduceAbsPath_of_norm hn, getFileByPath_join t hp]

theorem root_isDir (t : Node) (raw : Bytes) (p : List Name) (hn : norm raw = some p) :
    Root.isDir t raw = .bool (asDir (t.lookup p)).isSome := by
  have hp := Path.norm_reduced raw p hn
  simp [Root.isDir, reduceAbsPath_of_norm hn, getDirByPath_join t hp]

theorem nodeName_join {p : List Name} (hp : Reduced p) : Root.nodeName (join p) = FS.statName p := by
  simp only [Root.nodeName, FS.statName, realPath_split_join hp]
  cases p.getLast? <;> rfl

theorem root_lstat (t : Node) (raw : Bytes) (p : List Name) (hn : norm raw = some p) :
    Root.lstat t raw =
      match t.lookup p with
      | none => .err
      | some (.file d) => .stat (FS.statName p) false d.length
      | some (.dir _) => .stat (FS.statName p) true 0 := by
  have hp := Path.norm_reduced raw p hn
  simp only [Root.lstat, reduceAbsPath_of_norm hn, getNodeByPath_join t hp, nodeName_join hp]
  cases t.lookup p with
  | none => rfl
  | some n => cases n <;> rfl

end MemFS
end Goat
