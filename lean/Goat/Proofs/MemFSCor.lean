/-
Consequences of the refinement (`step_refines`, `run_refines_from`, `run_all`) in the words of the
property: the sentences of C01 for one call through any handle.  (Helper lemmas; the property
statements are in `Goat/Props/C01.lean`.)
-/
import Goat.Proofs.MemFSRun

namespace Goat
namespace MemFS

open Path (Name split join reduceAbsPath norm Reduced Plain NoSlash dotSeg slash)
open FS (Entry State Result Mut CopyKind Op)
open MemAbs

theorem mut_ok {pre : Prop} {post S S' : State} {r : Result} (h : Mut pre post S r S') (hr : r = .ok) :
    pre ∧ S' = post := by
  rcases h with ⟨a, _, c⟩ | ⟨_, b, _⟩
  · exact ⟨a, c⟩
  · rw [hr] at b; cases b

theorem mut_ok_iff {pre : Prop} {post S S' : State} {r : Result} (h : Mut pre post S r S') :
    r = .ok ↔ pre := by
  rcases h with ⟨a, b, _⟩ | ⟨a, b, _⟩
  · exact ⟨fun _ => a, fun _ => b⟩
  · exact ⟨fun h => (by rw [h] at b; cases b), fun h => absurd h a⟩

theorem mut_det {pre : Prop} {post S S1 S2 : State} {r1 r2 : Result}
    (h1 : Mut pre post S r1 S1) (h2 : Mut pre post S r2 S2) : r1 = r2 ∧ S1 = S2 := by
  rcases h1 with ⟨a, b, c⟩ | ⟨a, b, c⟩ <;> rcases h2 with ⟨a', b', c'⟩ | ⟨a', b', c'⟩
  · exact ⟨by rw [b, b'], by rw [c, c']⟩
  · exact absurd a a'
  · exact absurd a' a
  · exact ⟨by rw [b, b'], by rw [c, c']⟩

theorem prefix_dropLast {α} (q l : List α) (h : q <+: l) (hne : q ≠ l) : q <+: l.dropLast := by
  obtain ⟨r, rfl⟩ := h
  have hr : r ≠ [] := fun e => hne (by simp [e])
  rw [List.dropLast_append_of_ne_nil hr]
  exact List.prefix_append _ _

theorem dropLast_prefix {α} (l : List α) : l.dropLast <+: l := List.dropLast_prefix l

/-! ### WriteFile -/

theorem writeSt_at (S : State) (p : List Name) (d : Bytes) : FS.writeSt S p d p = some (.file d) := by
  simp [FS.writeSt]

theorem writeSt_parent (S : State) (p q : List Name) (d : Bytes) (h : q <+: p) (hne : q ≠ p) :
    FS.writeSt S p d q = some .dir := by
  simp [FS.writeSt, hne, FS.mkdirSt, prefix_dropLast q p h hne]

theorem writeSt_frame (S : State) (p q : List Name) (d : Bytes) (h : ¬ q <+: p) :
    FS.writeSt S p d q = S q := by
  have hne : q ≠ p := fun e => h (e ▸ List.prefix_refl _)
  have h2 : ¬ q <+: p.dropLast := fun hp => h (hp.trans (dropLast_prefix p))
  simp [FS.writeSt, hne, FS.mkdirSt, h2]

theorem write_post (ref : FSRef) (b : List Name) (hv : ViewOK ref b) (t : Node) (ht : Inv t)
    (raw data : Bytes) (p : List Name) (hn : norm raw = some p)
    (hok : (step ref t (.writeFile raw data)).2 = .ok) :
    abs (step ref t (.writeFile raw data)).1 = FS.writeSt (abs t) (b ++ p) data := by
  have := (step_refines ref b hv t ht (.writeFile raw data)).1
  simp only [FS.Step, hn] at this
  exact (mut_ok this hok).2

theorem writer_post (ref : FSRef) (b : List Name) (hv : ViewOK ref b) (t : Node) (ht : Inv t)
    (raw : Bytes) (chunks : List Bytes) (p : List Name) (hn : norm raw = some p)
    (hok : (step ref t (.writer raw chunks)).2 = .ok) :
    abs (step ref t (.writer raw chunks)).1 = FS.writeSt (abs t) (b ++ p) chunks.flatten := by
  have := (step_refines ref b hv t ht (.writer raw chunks)).1
  simp only [FS.Step, hn] at this
  exact (mut_ok this hok).2

/-- a Writer fed with chunks is a WriteFile of their concatenation: same verdict, same tree -/
theorem writer_eq_write (ref : FSRef) (b : List Name) (hv : ViewOK ref b) (t : Node) (ht : Inv t)
    (raw : Bytes) (chunks : List Bytes) :
    (step ref t (.writer raw chunks)).2 = (step ref t (.writeFile raw chunks.flatten)).2
    ∧ abs (step ref t (.writer raw chunks)).1 = abs (step ref t (.writeFile raw chunks.flatten)).1 := by
  have h1 := (step_refines ref b hv t ht (.writer raw chunks)).1
  have h2 := (step_refines ref b hv t ht (.writeFile raw chunks.flatten)).1
  simp only [FS.Step] at h1 h2
  cases hn : norm raw with
  | none =>
    simp only [hn] at h1 h2
    exact ⟨by rw [h1.1, h2.1], by rw [h1.2, h2.2]⟩
  | some p =>
    simp only [hn] at h1 h2
    exact mut_det h1 h2

/-! ### MkdirAll -/

theorem mkdirOk_mkdirSt (S : State) (p : List Name) : FS.mkdirOk (FS.mkdirSt S p) p := by
  intro q hq d
  simp [FS.mkdirSt, hq]

theorem mkdirSt_idem (S : State) (p : List Name) : FS.mkdirSt (FS.mkdirSt S p) p = FS.mkdirSt S p := by
  funext q
  simp only [FS.mkdirSt]
  split <;> rfl

theorem mkdir_twice (ref : FSRef) (b : List Name) (hv : ViewOK ref b) (t : Node) (ht : Inv t)
    (raw : Bytes) (hok : (step ref t (.mkdirAll raw)).2 = .ok) :
    (step ref (step ref t (.mkdirAll raw)).1 (.mkdirAll raw)).2 = .ok
    ∧ abs (step ref (step ref t (.mkdirAll raw)).1 (.mkdirAll raw)).1 = abs (step ref t (.mkdirAll raw)).1 := by
  have h1 := step_refines ref b hv t ht (.mkdirAll raw)
  have ht1 : Inv (step ref t (.mkdirAll raw)).1 := h1.2.1.inv ht (by
    intro s hs
    rcases List.mem_append.mp hs with h | h
    · exact (hv.reduced s h).1
    · exact opSegs_plain _ s h)
  have h2 := (step_refines ref b hv _ ht1 (.mkdirAll raw)).1
  have h1' := h1.1
  simp only [FS.Step] at h1' h2
  cases hn : norm raw with
  | none => simp only [hn] at h1'; rw [h1'.1] at hok; cases hok
  | some p =>
    simp only [hn] at h1' h2
    obtain ⟨_, e⟩ := mut_ok h1' hok
    rw [e] at h2
    have hpre := mkdirOk_mkdirSt (abs t) (b ++ p)
    have hr := (mut_ok_iff h2).mpr hpre
    refine ⟨hr, ?_⟩
    rw [(mut_ok h2 hr).2, mkdirSt_idem, e]

/-! ### Remove, RemoveAll -/

theorem remove_spec (ref : FSRef) (b : List Name) (hv : ViewOK ref b) (t : Node) (ht : Inv t)
    (raw : Bytes) (p : List Name) (hn : norm raw = some p) :
    ((step ref t (.remove raw)).2 = .ok ↔ (p ≠ [] ∧ FS.removeOk (abs t) (b ++ p)))
    ∧ ((step ref t (.remove raw)).2 = .ok →
        abs (step ref t (.remove raw)).1 = FS.removeSt (abs t) (b ++ p))
    ∧ ((step ref t (.remove raw)).2 ≠ .ok → (step ref t (.remove raw)).1 = t) := by
  have h := step_refines ref b hv t ht (.remove raw)
  have h1 := h.1
  simp only [FS.Step, hn] at h1
  refine ⟨mut_ok_iff h1, fun hok => (mut_ok h1 hok).2, ?_⟩
  intro hne
  apply h.2.2
  rcases h1 with ⟨_, b', _⟩ | ⟨_, b', _⟩
  · exact absurd b' hne
  · exact b'

theorem removeAll_spec (ref : FSRef) (b : List Name) (hv : ViewOK ref b) (t : Node) (ht : Inv t)
    (raw : Bytes) (p : List Name) (hn : norm raw = some p) :
    ((step ref t (.removeAll raw)).2 = .ok ↔ (p ≠ [] ∧ FS.removeAllOk (abs t) (b ++ p)))
    ∧ ((step ref t (.removeAll raw)).2 = .ok →
        abs (step ref t (.removeAll raw)).1 = FS.removeAllSt (abs t) (b ++ p))
    ∧ ((step ref t (.removeAll raw)).2 ≠ .ok → (step ref t (.removeAll raw)).1 = t) := by
  have h := step_refines ref b hv t ht (.removeAll raw)
  have h1 := h.1
  simp only [FS.Step, hn] at h1
  refine ⟨mut_ok_iff h1, fun hok => (mut_ok h1 hok).2, ?_⟩
  intro hne
  apply h.2.2
  rcases h1 with ⟨_, b', _⟩ | ⟨_, b', _⟩
  · exact absurd b' hne
  · exact b'

/-! ### Copy -/

theorem copy_spec (ref : FSRef) (b : List Name) (hv : ViewOK ref b) (t : Node) (ht : Inv t)
    (rs rd : Bytes) (s d : List Name) (hs : norm rs = some s) (hd : norm rd = some d) :
    ((step ref t (.copy rs rd)).2 = .ok ↔ FS.copyOk .any (abs t) (b ++ s) (b ++ d))
    ∧ ((step ref t (.copy rs rd)).2 = .ok →
        abs (step ref t (.copy rs rd)).1 = FS.copySt (abs t) (b ++ s) (b ++ d)) := by
  have h1 := (step_refines ref b hv t ht (.copy rs rd)).1
  simp only [FS.Step, hs, hd] at h1
  exact ⟨mut_ok_iff h1, fun hok => (mut_ok h1 hok).2⟩

theorem copySt_under (S : State) (s d r : List Name) :
    FS.copySt S s d (d ++ r) = FS.mkdirSt S d.dropLast (s ++ r) := by
  simp [FS.copySt]

theorem copySt_under_plain (S : State) (s d r : List Name) (h : ¬ s <+: d) :
    FS.copySt S s d (d ++ r) = S (s ++ r) := by
  rw [copySt_under]
  have : ¬ (s ++ r <+: d.dropLast) := by
    intro hp
    exact h ((List.prefix_append s r).trans (hp.trans (dropLast_prefix d)))
  simp [FS.mkdirSt, this]

theorem copySt_outside (S : State) (s d q : List Name) (h : ¬ d <+: q) (h2 : ¬ q <+: d) :
    FS.copySt S s d q = S q := by
  have : ¬ q <+: d.dropLast := fun hp => h2 (hp.trans (dropLast_prefix d))
  simp [FS.copySt, h, FS.mkdirSt, this]

/-! ### Queries -/

/-- the methods that only ask (`Filespace(p)` opens a view and changes nothing either) -/
def isQuery : Op → Bool
  | .readDir _ | .isExist _ | .isFile _ | .isDir _ | .readFile _ | .reader _ _ | .lstat _
  | .filespace _ => true
  | _ => false

theorem query_unchanged (ref : FSRef) (t : Node) (op : Op) (h : isQuery op = true) :
    (step ref t op).1 = t := by
  cases op <;> simp [isQuery] at h <;> cases ref <;>
    simp only [step, Wrap.readDir, Wrap.isExist, Wrap.isFile, Wrap.isDir, Wrap.readFile, Wrap.reader,
      Wrap.lstat, Wrap.on1] <;> (try split) <;> rfl

theorem isExist_agrees (ref : FSRef) (b : List Name) (hv : ViewOK ref b) (t : Node) (ht : Inv t)
    (raw : Bytes) (p : List Name) (hn : norm raw = some p) :
    (step ref t (.isExist raw)).2 = .bool (abs t (b ++ p)).isSome := by
  have := (step_refines ref b hv t ht (.isExist raw)).1
  simp only [FS.Step, hn] at this
  exact this.2

theorem readFile_agrees (ref : FSRef) (b : List Name) (hv : ViewOK ref b) (t : Node) (ht : Inv t)
    (raw : Bytes) (p : List Name) (hn : norm raw = some p) (d : Bytes)
    (h : abs t (b ++ p) = some (.file d)) : (step ref t (.readFile raw)).2 = .data d := by
  have := (step_refines ref b hv t ht (.readFile raw)).1
  simp only [FS.Step, hn, h] at this
  exact this.2

theorem readFile_fails (ref : FSRef) (b : List Name) (hv : ViewOK ref b) (t : Node) (ht : Inv t)
    (raw : Bytes) (p : List Name) (hn : norm raw = some p)
    (h : ∀ d, abs t (b ++ p) ≠ some (.file d)) : (step ref t (.readFile raw)).2 = .err := by
  have := (step_refines ref b hv t ht (.readFile raw)).1
  simp only [FS.Step, hn] at this
  cases he : abs t (b ++ p) with
  | none => exact this.2
  | some e =>
    cases e with
    | file d => exact absurd he (h d)
    | dir => exact this.2

theorem readDir_agrees (ref : FSRef) (b : List Name) (hv : ViewOK ref b) (t : Node) (ht : Inv t)
    (raw : Bytes) (p : List Name) (hn : norm raw = some p) (h : abs t (b ++ p) = some .dir) :
    ∃ l, (step ref t (.readDir raw)).2 = .list l ∧ FS.IsListing (abs t) (b ++ p) l := by
  have := (step_refines ref b hv t ht (.readDir raw)).1
  simp only [FS.Step, hn, h] at this
  exact this.2

theorem climbing_refused (ref : FSRef) (b : List Name) (hv : ViewOK ref b) (t : Node) (ht : Inv t)
    (raw data : Bytes) (hn : norm raw = none) :
    step ref t (.writeFile raw data) = (t, .err) ∧ (step ref t (.readFile raw)).2 = .err
    ∧ (step ref t (.isExist raw)).2 = .bool false := by
  have h1 := step_refines ref b hv t ht (.writeFile raw data)
  have h2 := (step_refines ref b hv t ht (.readFile raw)).1
  have h3 := (step_refines ref b hv t ht (.isExist raw)).1
  simp only [FS.Step, hn] at h1 h2 h3
  refine ⟨?_, h2.2, h3.2⟩
  exact Prod.ext (h1.2.2 h1.1.1) h1.1.1

/-! ### names -/

/-- the raw path arguments of a call -/
def opPaths : Op → List Bytes
  | .copy s d => [s, d]
  | .copyDirectory s d => [s, d]
  | .copyFile s d => [s, d]
  | .readDir p => [p]
  | .isExist p => [p]
  | .isFile p => [p]
  | .isDir p => [p]
  | .mkdirAll p => [p]
  | .readFile p => [p]
  | .writeFile p _ => [p]
  | .filespace p => [p]
  | .reader p _ => [p]
  | .writer p _ => [p]
  | .remove p => [p]
  | .removeAll p => [p]
  | .lstat p => [p]

theorem segsOf_literal (raw : Bytes) (s : Name) (h : s ∈ segsOf raw) : Plain s ∧ s ∈ split raw := by
  refine ⟨segsOf_plain raw s h, ?_⟩
  simp only [segsOf] at h
  cases hn : norm raw with
  | none => simp [hn] at h
  | some q => simp [hn] at h; exact Path.norm_subset raw q hn s h

/-- a supplied name stands literally between two `/` of some path argument of some call, and is a
real name -/
theorem supplied_literal (ops : List (Nat × Op)) (s : Name) (h : s ∈ supplied ops) :
    Plain s ∧ ∃ x ∈ ops, ∃ raw ∈ opPaths x.2, s ∈ split raw := by
  simp only [supplied, List.mem_flatMap] at h
  obtain ⟨x, hx, hs⟩ := h
  have key : Plain s ∧ ∃ raw ∈ opPaths x.2, s ∈ split raw := by
    cases hop : x.2 <;> rw [hop] at hs <;> simp only [opSegs, List.mem_append] at hs <;>
      simp only [opPaths, List.mem_cons, List.mem_nil_iff, or_false, exists_eq_or_imp, exists_eq_left]
    all_goals first
      | exact segsOf_literal _ s hs
      | (rcases hs with h | h
         · exact ⟨(segsOf_literal _ s h).1, Or.inr (segsOf_literal _ s h).2⟩
         · exact ⟨(segsOf_literal _ s h).1, Or.inl (segsOf_literal _ s h).2⟩)
  exact ⟨key.1, x, hx, key.2⟩

theorem no_phantom_run (ops : List (Nat × Op)) (q : List Name)
    (h : abs (World.init.run ops).1.root q ≠ none) : ∀ s ∈ q, s ∈ supplied ops := by
  have hall := run_all (fun s => s ∈ supplied ops) World.init worldOK_init ops
    (by simp [World.init]) (by intro ref hr; simp [World.init] at hr; subst hr; simp [baseOf])
    (fun s hs => hs)
  cases hl : (World.init.run ops).1.root.lookup q with
  | none => simp [abs, hl] at h
  | some n => exact (Node.lookup_all _ q n hall hl).2

end MemFS
end Goat
