/-
Helper lemmas for the snapshot clause of C01, part 1: the heap, the id-tree and its dereference.

  `Frame S h h'`   `h'` is `h` with objects allocated and only objects in `S` overwritten
  `Bound h n`      the ids reachable from `n` are pairwise different and allocated in `h`
  `Tr h n h' n'`   footprint of a tree transformer: it writes only its own or fresh objects, the new
                   tree is made of ids of the old tree and of fresh ids, each once
  `deref` commutes with `find`/`set`/`erase`/`entries`, and only reads the objects of the tree
-/
import Goat.Model.MemFSHeap
import Goat.Proofs.Tree

set_option linter.unusedSimpArgs false
set_option linter.unusedVariables false

namespace Goat
namespace MemFSHeap

open Path (Name)

/-- `omega` after unfolding `BufId` (omega does not look through the abbreviation) -/
macro "omegab" : tactic => `(tactic| ((try dsimp only [BufId] at *); omega))

/-! ### ids -/

@[simp] theorem ids_file (b : BufId) : (HNode.file b).ids = [b] := by simp [HNode.ids]
@[simp] theorem ids_dir (l : BufId) (k : HKids) : (HNode.dir l k).ids = l :: k.ids := by simp [HNode.ids]
@[simp] theorem ids_nil : HKids.nil.ids = [] := by simp [HKids.ids]
@[simp] theorem ids_cons (n : Name) (x : HNode) (r : HKids) : (HKids.cons n x r).ids = x.ids ++ r.ids := by
  simp [HKids.ids]

@[simp] theorem deref_file (h : Heap) (b : BufId) : (HNode.file b).deref h = .file (h.bytes b) := by
  simp [HNode.deref]
@[simp] theorem deref_dir (h : Heap) (l : BufId) (k : HKids) : (HNode.dir l k).deref h = .dir (k.deref h) := by
  simp [HNode.deref]
@[simp] theorem deref_nil (h : Heap) : HKids.nil.deref h = .nil := by simp [HKids.deref]
@[simp] theorem deref_cons (h : Heap) (n : Name) (x : HNode) (r : HKids) :
    (HKids.cons n x r).deref h = .cons n (x.deref h) (r.deref h) := by simp [HKids.deref]

/-- occurrences of `id` among the objects of a node -/
abbrev HNode.cnt (n : HNode) (id : Nat) : Nat := n.ids.count id
abbrev HKids.cnt (k : HKids) (id : Nat) : Nat := k.ids.count id

theorem cnt_file (b : BufId) (id : Nat) : (HNode.file b).cnt id = if id = b then 1 else 0 := by
  simp only [HNode.cnt, ids_file, List.count_cons, List.count_nil, beq_iff_eq, Nat.zero_add]
  split <;> split <;> simp_all
theorem cnt_dir (l : BufId) (k : HKids) (id : Nat) :
    (HNode.dir l k).cnt id = k.cnt id + if id = l then 1 else 0 := by
  simp only [HNode.cnt, HKids.cnt, ids_dir, List.count_cons, beq_iff_eq]
  split <;> split <;> simp_all
theorem cnt_nil (id : Nat) : HKids.nil.cnt id = 0 := by simp [HKids.cnt]
theorem cnt_cons (n : Name) (x : HNode) (r : HKids) (id : Nat) :
    (HKids.cons n x r).cnt id = x.cnt id + r.cnt id := by simp [HKids.cnt, HNode.cnt, List.count_append]

/-! ### Kids algebra on ids -/

namespace HKids

theorem cnt_find_le (k : HKids) (s : Name) (c : HNode) (id : Nat) (h : k.find s = some c) :
    c.cnt id ≤ k.cnt id := by
  induction k using HKids.rec (motive_1 := fun _ => True) with
  | file => trivial
  | dir => trivial
  | nil => simp [find] at h
  | cons n y r _ ih =>
    simp only [find] at h
    rw [cnt_cons]
    split at h
    · cases h; omega
    · have := ih h; omega

theorem cnt_set_found (k : HKids) (s : Name) (c c' : HNode) (id : Nat) (h : k.find s = some c) :
    (k.set s c').cnt id + c.cnt id = k.cnt id + c'.cnt id := by
  induction k using HKids.rec (motive_1 := fun _ => True) with
  | file => trivial
  | dir => trivial
  | nil => simp [find] at h
  | cons n y r _ ih =>
    simp only [find] at h
    simp only [set]
    split at h
    · next e => cases h; simp only [e, if_true, cnt_cons]; omega
    · next e => have := ih h; simp only [e, if_false, cnt_cons]; omega

theorem cnt_set_new (k : HKids) (s : Name) (x : HNode) (id : Nat) (h : k.find s = none) :
    (k.set s x).cnt id = k.cnt id + x.cnt id := by
  induction k using HKids.rec (motive_1 := fun _ => True) with
  | file => trivial
  | dir => trivial
  | nil => simp [set, cnt_cons, cnt_nil]
  | cons n y r _ ih =>
    simp only [find] at h
    simp only [set]
    split at h
    · cases h
    · next e => have := ih h; simp only [e, if_false, cnt_cons]; omega

theorem cnt_erase (k : HKids) (s : Name) (c : HNode) (id : Nat) (h : k.find s = some c) :
    (k.erase s).cnt id + c.cnt id = k.cnt id := by
  induction k using HKids.rec (motive_1 := fun _ => True) with
  | file => trivial
  | dir => trivial
  | nil => simp [find] at h
  | cons n y r _ ih =>
    simp only [find] at h
    simp only [erase]
    split at h
    · next e => cases h; simp only [e, if_true, cnt_cons]; omega
    · next e => have := ih h; simp only [e, if_false, cnt_cons]; omega

/-! ### `deref` commutes with the Kids primitives -/

theorem find_deref (h : Heap) (k : HKids) (s : Name) :
    (k.deref h).find s = (k.find s).map (HNode.deref h) := by
  induction k using HKids.rec (motive_1 := fun _ => True) with
  | file => trivial
  | dir => trivial
  | nil => simp [find, Kids.find]
  | cons n y r _ ih =>
    simp only [deref_cons, Kids.find, find]
    split <;> simp [ih]

theorem set_deref (h : Heap) (k : HKids) (s : Name) (x : HNode) :
    (k.set s x).deref h = (k.deref h).set s (x.deref h) := by
  induction k using HKids.rec (motive_1 := fun _ => True) with
  | file => trivial
  | dir => trivial
  | nil => simp [set, Kids.set]
  | cons n y r _ ih =>
    simp only [deref_cons, Kids.set, set]
    split <;> simp [ih]

theorem erase_deref (h : Heap) (k : HKids) (s : Name) :
    (k.erase s).deref h = (k.deref h).erase s := by
  induction k using HKids.rec (motive_1 := fun _ => True) with
  | file => trivial
  | dir => trivial
  | nil => simp [erase, Kids.erase]
  | cons n y r _ ih =>
    simp only [deref_cons, Kids.erase, erase]
    split <;> simp [ih]

theorem find_set_same (k : HKids) (m : Name) (x : HNode) : (k.set m x).find m = some x := by
  induction k using HKids.rec (motive_1 := fun _ => True) with
  | file => trivial
  | dir => trivial
  | nil => simp [set, find]
  | cons n y r _ ih => simp only [set]; split <;> simp [find, *]

theorem set_set (k : HKids) (m : Name) (x y : HNode) : (k.set m x).set m y = k.set m y := by
  induction k using HKids.rec (motive_1 := fun _ => True) with
  | file => trivial
  | dir => trivial
  | nil => simp [set]
  | cons n z r _ ih =>
    simp only [set]
    split
    · next e => simp [set, e]
    · next e => simp [set, e, ih]

end HKids

theorem isDir_deref (h : Heap) (n : HNode) : (n.deref h).isDir = n.isDir := by
  cases n <;> simp [Node.isDir, HNode.isDir]

namespace HKids

theorem entries_deref (h : Heap) (k : HKids) : (k.deref h).entries = k.entries := by
  induction k using HKids.rec (motive_1 := fun _ => True) with
  | file => trivial
  | dir => trivial
  | nil => simp [entries, Kids.entries]
  | cons n y r _ ih => simp [entries, Kids.entries, ih, isDir_deref]

theorem isEmpty_deref (h : Heap) (k : HKids) : (k.deref h).isEmpty = k.isEmpty := by
  cases k <;> simp [isEmpty, Kids.isEmpty]

end HKids

/-! ### `deref` reads only the byte objects of the tree -/

theorem deref_congr (h h' : Heap) (n : HNode) :
    (∀ id, 0 < n.cnt id → h'.bytes id = h.bytes id) → n.deref h' = n.deref h := by
  induction n using HNode.rec
      (motive_2 := fun k => (∀ id, 0 < k.cnt id → h'.bytes id = h.bytes id) → k.deref h' = k.deref h) with
  | file b => intro hb; simp [hb b (by simp [cnt_file])]
  | dir l k ih =>
    intro hb
    simp only [deref_dir]
    rw [ih (fun id hid => hb id (by rw [cnt_dir]; omega))]
  | nil => simp
  | cons n x r ihx ihr =>
    rename_i hk
    simp only [deref_cons]
    rw [ihx (fun id hid => hk id (by rw [cnt_cons]; omega)), ihr (fun id hid => hk id (by rw [cnt_cons]; omega))]

theorem derefK_congr (h h' : Heap) (k : HKids) :
    (∀ id, 0 < k.cnt id → h'.bytes id = h.bytes id) → k.deref h' = k.deref h := by
  induction k using HKids.rec
      (motive_1 := fun n => (∀ id, 0 < n.cnt id → h'.bytes id = h.bytes id) → n.deref h' = n.deref h) with
  | file b => rename_i hb; exact deref_congr h h' _ hb
  | dir l k ih => rename_i hb; exact deref_congr h h' _ hb
  | nil => intro _; simp
  | cons n x r ihx ihr =>
    intro hb
    simp only [deref_cons]
    rw [ihx (fun id hid => hb id (by rw [cnt_cons]; omega)), ihr (fun id hid => hb id (by rw [cnt_cons]; omega))]

end MemFSHeap
end Goat
