/-
Helper lemmas for the snapshot clause of C01, part 3: what each method does inside a directory
(`writeIn`, `openIn`, `writeChunkIn`, `removeIn`, `copyIn`) against the value-level function of
`Goat/Model/MemFS.lean`, for the repaired code (`cfg.old = false`).
-/
import Goat.Proofs.MemFSHeapTree

set_option linter.unusedSimpArgs false
set_option linter.unusedVariables false

namespace Goat
namespace MemFSHeap

open Path (Name)

/-! ### Deep copy -/

/-- a deep copy overwrites nothing, reads as the original, and consists of fresh objects only -/
theorem copy_spec_aux (n : HNode) : ∀ h : Heap, (∀ id : Nat, 0 < n.cnt id → id < h.next) →
    Frame (fun _ => False) h (copyNode h n).1
    ∧ (copyNode h n).2.deref (copyNode h n).1 = n.deref h
    ∧ (∀ id : Nat, (copyNode h n).2.cnt id ≤ 1)
    ∧ (∀ id : Nat, 0 < (copyNode h n).2.cnt id → h.next ≤ id ∧ id < (copyNode h n).1.next) := by
  induction n using HNode.rec
    (motive_2 := fun k => ∀ h : Heap, (∀ id : Nat, 0 < k.cnt id → id < h.next) →
      Frame (fun _ => False) h (copyKids h k).1
      ∧ (copyKids h k).2.deref (copyKids h k).1 = k.deref h
      ∧ (∀ id : Nat, (copyKids h k).2.cnt id ≤ 1)
      ∧ (∀ id : Nat, 0 < (copyKids h k).2.cnt id → h.next ≤ id ∧ id < (copyKids h k).1.next)) with
  | file b =>
    intro h hall
    simp only [copyNode, Heap.copyB]
    refine ⟨frame_allocB h _, by simp, fun id => ?_, fun id => ?_⟩
    · rw [cnt_file]; simp only [allocB_id]
      by_cases e : id = h.next <;> simp only [e, if_true, if_false] <;> omegab
    · rw [cnt_file]; simp only [allocB_id, allocB_next]
      by_cases e : id = h.next <;> simp only [e, if_true, if_false] <;> intro c <;> omegab
  | dir l k ih =>
    intro h hall
    simp only [copyNode]
    obtain ⟨F, D, C1, C2⟩ := ih (h.allocL k.entries).1 (fun id hid => by
      have := hall id (by rw [cnt_dir]; omegab)
      simp only [allocL_next]; omegab)
    have hn := F.next_le
    simp only [allocL_next] at hn
    refine ⟨(frame_allocL h _).trans F (fun _ _ x => x), ?_, fun id => ?_, fun id => ?_⟩
    · simp only [deref_dir, D]
      rw [derefK_congr h (h.allocL k.entries).1 k (fun id hid => by simp)]
    · have c1 := C1 id
      rw [cnt_dir]; simp only [allocL_id]
      by_cases e : id = h.next
      · have : (copyKids (h.allocL k.entries).1 k).2.cnt id = 0 := by
          by_cases c : 0 < (copyKids (h.allocL k.entries).1 k).2.cnt id
          · have := C2 id c; simp only [allocL_next] at this; omegab
          · omegab
        simp only [e, if_true] at this ⊢; omegab
      · simp only [e, if_false]; omegab
    · rw [cnt_dir]; simp only [allocL_id]
      intro c
      by_cases c' : 0 < (copyKids (h.allocL k.entries).1 k).2.cnt id
      · have := C2 id c'; simp only [allocL_next] at this; omegab
      · by_cases e : id = h.next
        · omegab
        · simp only [e, if_false] at c; omegab
  | nil =>
    rename_i h hall
    simp only [copyKids]
    exact ⟨Frame.refl _ _, trivial, fun id => by simp [cnt_nil], fun id c => by simp [cnt_nil] at c⟩
  | cons name x r ihx ihr =>
    rename_i h hall
    simp only [copyKids]
    obtain ⟨F1, D1, A1, B1⟩ := ihx h (fun id hid => hall id (by rw [cnt_cons]; omegab))
    obtain ⟨F2, D2, A2, B2⟩ := ihr (copyNode h x).1 (fun id hid => by
      have := hall id (by rw [cnt_cons]; omegab)
      have := F1.next_le; omegab)
    have n1 := F1.next_le
    have n2 := F2.next_le
    refine ⟨F1.trans F2 (fun _ _ x => x), ?_, fun id => ?_, fun id => ?_⟩
    · simp only [deref_cons, D2]
      congr 1
      · rw [deref_congr (copyNode h x).1 _ (copyNode h x).2 (fun id hid =>
          (F2.same id (B1 id hid).2 (fun f => f)).1)]
        exact D1
      · exact derefK_congr h _ r (fun id hid =>
          (F1.same id (hall id (by rw [cnt_cons]; omegab)) (fun f => f)).1)
    · have a1 := A1 id
      have a2 := A2 id
      rw [cnt_cons]
      by_cases c1 : 0 < (copyNode h x).2.cnt id
      · by_cases c2 : 0 < (copyKids (copyNode h x).1 r).2.cnt id
        · have := B1 id c1; have := B2 id c2; omegab
        · omegab
      · omegab
    · rw [cnt_cons]
      intro c
      by_cases c1 : 0 < (copyNode h x).2.cnt id
      · have := B1 id c1; omegab
      · have := B2 id (by omegab); omegab

theorem copyNode_spec (h : Heap) (n : HNode) (hall : ∀ id : Nat, 0 < n.cnt id → id < h.next) :
    Frame (fun _ => False) h (copyNode h n).1
    ∧ (copyNode h n).2.deref (copyNode h n).1 = n.deref h
    ∧ (∀ id : Nat, (copyNode h n).2.cnt id ≤ 1)
    ∧ (∀ id : Nat, 0 < (copyNode h n).2.cnt id → h.next ≤ id ∧ id < (copyNode h n).1.next) :=
  copy_spec_aux n h hall

theorem copyNode_isDir (h : Heap) (n : HNode) : (copyNode h n).2.isDir = n.isDir := by
  cases n <;> simp [copyNode, HNode.isDir]

/-! ### What happens inside one directory -/

theorem deref_bytes_eq (h h' : Heap) (n : HNode) (e : h'.bytes = h.bytes) : n.deref h' = n.deref h :=
  deref_congr h h' n (fun id _ => by rw [e])

theorem derefK_bytes_eq (h h' : Heap) (k : HKids) (e : h'.bytes = h.bytes) : k.deref h' = k.deref h :=
  derefK_congr h h' k (fun id _ => by rw [e])

/-- the children of a directory read the same after a change that preserves the old byte arrays -/
theorem derefK_old {h h' : Heap} {l : BufId} {k : HKids} (hb : Bound h (.dir l k))
    (e : ∀ id : Nat, id < h.next → h'.bytes id = h.bytes id) : k.deref h' = k.deref h :=
  derefK_congr h h' k (fun id hid => e id (hb.lt id (by rw [cnt_dir]; omegab)))

/-- a file whose data becomes a freshly allocated array -/
theorem tr_file_fresh {h : Heap} {b : BufId} (hb : Bound h (.file b)) (d : Bytes) :
    Tr h (.file b) (h.allocB d).1 (.file h.next) := by
  refine ⟨(frame_allocB h d).weaken (fun _ _ x => x.elim), fun id hid => ?_, fun id => ?_⟩
  · rw [cnt_file, cnt_file]
    have : ¬ id = h.next := by omegab
    simp only [this, if_false]; omegab
  · rw [cnt_file]; simp only [allocB_next]
    by_cases e : id = h.next
    · have : id < h.next + 1 := by omegab
      simp only [e, this, if_true]; subst e; simp
    · simp only [e, if_false]; omegab

/-- create-or-replace a file whose content is the fresh array holding `d` (`WriteFile` of the
repaired code, `Writer` on opening) -/
def putIn (cfg : Cfg) (name : Name) (d : Bytes) (h : Heap) (l : BufId) (k : HKids) :
    Option (Heap × BufId × HKids) :=
  match k.find name with
  | none =>
    let r1 := h.allocB d
    let r2 := appendEntry cfg r1.1 l k.length (name, false)
    some (r2.1, r2.2, k.set name (.file r1.2))
  | some (.file _) =>
    let r1 := h.allocB d
    some (r1.1, l, k.set name (.file r1.2))
  | some (.dir ..) => none

theorem putIn_spec (cfg : Cfg) (name : Name) (d : Bytes) :
    FSpec (fun _ => True) (putIn cfg name d) (MemFS.Root.writeIn name d) := by
  intro h l k hb _
  unfold putIn MemFS.Root.writeIn
  rw [HKids.find_deref]
  cases hfs : k.find name with
  | none =>
    simp only [Option.map_none, Kids.add, HKids.find_deref, hfs]
    refine ⟨fun e => by simp at e, fun h' l' k' e => ?_⟩
    obtain ⟨F2, B2, alt⟩ := appendEntry_spec cfg (h.allocB d).1 l k.length (name, false)
    generalize appendEntry cfg (h.allocB d).1 l k.length (name, false) = ae at F2 B2 alt e
    obtain ⟨h2, l2⟩ := ae
    simp only [allocB_id, allocB_next, Option.some.injEq, Prod.mk.injEq] at F2 B2 alt e
    obtain ⟨rfl, rfl, rfl⟩ := e
    have hl : l < h.next := hb.lt l (by rw [cnt_dir]; simp)
    have n2 := F2.next_le
    simp only [allocB_next] at n2
    constructor
    · simp only [HKids.set_deref, deref_file, B2, allocB_bytes_new]
      rw [derefK_old (h' := h2) hb (fun id hid => by rw [B2, allocB_bytes_old h d id (by omegab)])]
    · refine tr_add hb hfs (((frame_allocB h d).weaken (fun _ _ x => x.elim)).trans F2 (fun _ _ x => x)) ?_
        (fun id => by rw [cnt_file]; by_cases e : id = h.next <;> simp [e]) (fun id => ?_)
      · rcases alt with a | a
        · exact Or.inl a.1
        · exact Or.inr (by omegab)
      · rw [cnt_file]
        by_cases e : id = h.next
        · intro _; rcases alt with a | a <;> omegab
        · simp [e]
  | some c =>
    cases c with
    | file b =>
      simp only [Option.map_some, deref_file]
      refine ⟨fun e => by simp at e, fun h' l' k' e => ?_⟩
      simp only [allocB_id, Option.some.injEq, Prod.mk.injEq] at e
      obtain ⟨rfl, rfl, rfl⟩ := e
      obtain ⟨D, T⟩ := tr_parent hb hfs (tr_file_fresh (hb.child hfs) d)
      simp only [deref_dir, deref_file, allocB_bytes_new, Node.dir.injEq] at D
      exact ⟨by rw [D], T⟩
    | dir l2 k2 =>
      simp only [Option.map_some, deref_dir]
      exact ⟨fun _ => trivial, fun h' l' k' e => by simp at e⟩

theorem writeIn_eq (cfg : Cfg) (hc : cfg.old = false) (name : Name) (data : BufId) (h : Heap) (l : BufId)
    (k : HKids) : Root.writeIn cfg name data h l k = putIn cfg name (h.bytes data) h l k := by
  unfold Root.writeIn putIn takeIn Heap.copyB
  simp only [hc, Bool.false_eq_true, if_false]
  cases k.find name with
  | none => rfl
  | some c => cases c <;> rfl

theorem openIn_eq (cfg : Cfg) (name : Name) (h : Heap) (l : BufId) (k : HKids) :
    Root.openIn cfg name h l k = putIn cfg name [] h l k := rfl

theorem openIn_value (name : Name) : MemFS.Root.openIn name = MemFS.Root.writeIn name [] := by
  funext k; unfold MemFS.Root.openIn MemFS.Root.writeIn; rfl

theorem writeIn_spec (cfg : Cfg) (hc : cfg.old = false) (name : Name) (data : BufId) (d : Bytes) :
    FSpec (fun h => h.bytes data = d) (Root.writeIn cfg name data) (MemFS.Root.writeIn name d) := by
  intro h l k hb hP
  rw [writeIn_eq cfg hc, hP]
  exact putIn_spec cfg name d h l k hb trivial

theorem openIn_spec (cfg : Cfg) (name : Name) :
    FSpec (fun _ => True) (Root.openIn cfg name) (MemFS.Root.openIn name) := by
  intro h l k hb hP
  rw [openIn_eq, openIn_value]
  exact putIn_spec cfg name [] h l k hb trivial

/-- the value-level function applied by `handleWrite` -/
def appendV (name : Name) (chunk : Bytes) (k : Kids) : Option Kids :=
  match k.find name with
  | some (.file d) => some (k.set name (.file (d ++ chunk)))
  | _ => none

theorem handleWrite_eq (t : Node) (dir : List Name) (name : Name) (chunk : Bytes) :
    MemFS.handleWrite t dir name chunk = t.update dir (appendV name chunk) := rfl

theorem writeChunkIn_spec (cfg : Cfg) (name : Name) (chunk : BufId) (c : Bytes) :
    FSpec (fun h => h.bytes chunk = c) (Root.writeChunkIn cfg name chunk) (appendV name c) := by
  intro h l k hb hP
  unfold Root.writeChunkIn appendV
  rw [HKids.find_deref]
  cases hfs : k.find name with
  | none => exact ⟨fun _ => by simp, fun h' l' k' e => by simp at e⟩
  | some x =>
    cases x with
    | dir l2 k2 => exact ⟨fun _ => by simp, fun h' l' k' e => by simp at e⟩
    | file b =>
      simp only [Option.map_some, deref_file, hP]
      refine ⟨fun e => by simp at e, fun h' l' k' e => ?_⟩
      obtain ⟨F, B, alt⟩ := appendBytes_spec cfg h b c
      generalize appendBytes cfg h b c = ab at F B alt e
      obtain ⟨h1, b'⟩ := ab
      simp only [Option.some.injEq, Prod.mk.injEq] at F B alt e
      obtain ⟨rfl, rfl, rfl⟩ := e
      have hbc := hb.child hfs
      have hbl : b < h.next := hbc.lt b (by rw [cnt_file]; simp)
      have T0 : Tr h (.file b) h1 (.file b') := by
        refine ⟨F.weaken (fun id _ e => by subst e; rw [cnt_file]; simp), fun id hid => ?_, fun id => ?_⟩
        · rw [cnt_file, cnt_file]
          rcases alt with a | a
          · rw [a.1]; omegab
          · have : ¬ id = b' := by omegab
            simp only [this, if_false]; omegab
        · rw [cnt_file]
          by_cases e : id = b'
          · have : id < h1.next := by rcases alt with a | a <;> omegab
            simp only [e, this, if_true]; subst e; simp [this]
          · simp only [e, if_false]; omegab
      obtain ⟨D, T⟩ := tr_parent hb hfs T0
      simp only [deref_dir, deref_file, B, Node.dir.injEq] at D
      exact ⟨by rw [D], T⟩

theorem removeNodeByName_spec (name : Name) (h : Heap) (l : BufId) (k : HKids) (hb : Bound h (.dir l k)) :
    (removeNodeByName h l k name = none → MemFS.removeNodeByName (k.deref h) name = none)
    ∧ ∀ h' l' k', removeNodeByName h l k name = some (h', l', k') →
        MemFS.removeNodeByName (k.deref h) name = some (k'.deref h') ∧ Tr h (.dir l k) h' (.dir l' k') := by
  unfold removeNodeByName MemFS.removeNodeByName
  rw [HKids.find_deref]
  cases hfs : k.find name with
  | none => exact ⟨fun _ => by simp, fun h' l' k' e => by simp at e⟩
  | some c =>
    simp only [Option.map_some]
    refine ⟨fun e => by simp at e, fun h' l' k' e => ?_⟩
    simp only [Option.some.injEq, Prod.mk.injEq] at e
    obtain ⟨rfl, rfl, rfl⟩ := e
    constructor
    · rw [HKids.erase_deref, derefK_bytes_eq h (h.setL l _) k rfl]
    · refine ⟨(frame_setL h l _).weaken (fun id _ e => by subst e; rw [cnt_dir]; simp), fun id hid => ?_,
        fun id => ?_⟩
      · have := HKids.cnt_erase k name c id hfs
        rw [cnt_dir, cnt_dir]; omegab
      · have := HKids.cnt_erase k name c id hfs
        have e3 := hb id
        rw [cnt_dir] at e3 ⊢
        simp only [setL_next]
        by_cases hid : id < h.next
        · simp only [hid, if_true] at e3 ⊢; omegab
        · simp only [hid, if_false] at e3 ⊢; omegab

theorem removeIn_spec (name : Name) (emptyOnly : Bool) :
    FSpec (fun _ => True) (removeIn name emptyOnly) (MemFS.removeIn name emptyOnly) := by
  intro h l k hb _
  have R := removeNodeByName_spec name h l k hb
  unfold removeIn MemFS.removeIn
  cases emptyOnly with
  | false => simpa using R
  | true =>
    simp only [if_true]
    rw [HKids.find_deref]
    cases hfs : k.find name with
    | none => exact ⟨fun _ => by simp, fun h' l' k' e => by simp at e⟩
    | some c =>
      cases c with
      | file b => simpa using R
      | dir l2 k2 =>
        simp only [Option.map_some, deref_dir, HKids.isEmpty_deref]
        cases he : k2.isEmpty with
        | true => simpa using R
        | false => exact ⟨fun _ => by simp, fun h' l' k' e => by simp at e⟩

/-- the value-level function applied by `Copy*` in the destination directory -/
def addV (name : Name) (x : Node) (k : Kids) : Option Kids := k.add name (MemFS.copyNode x)

theorem copyIn_spec (cfg : Cfg) (name : Name) (src : HNode) (srcV : Node) :
    FSpec (fun h => (∀ id : Nat, 0 < src.cnt id → id < h.next) ∧ src.deref h = srcV)
      (copyIn cfg name src) (addV name srcV) := by
  intro h l k hb hP
  obtain ⟨F1, D1, A1, B1⟩ := copyNode_spec h src hP.1
  unfold copyIn addIn addV Kids.add MemFS.copyNode
  rw [HKids.find_deref]
  generalize copyNode h src = cn at F1 D1 A1 B1 ⊢
  obtain ⟨h1, cp⟩ := cn
  simp only at F1 D1 A1 B1 ⊢
  cases hfs : k.find name with
  | some c => exact ⟨fun _ => by simp, fun h' l' k' e => by simp at e⟩
  | none =>
    simp only [Option.map_none]
    refine ⟨fun e => by simp at e, fun h' l' k' e => ?_⟩
    obtain ⟨F2, B2, alt⟩ := appendEntry_spec cfg h1 l k.length (name, cp.isDir)
    generalize appendEntry cfg h1 l k.length (name, cp.isDir) = ae at F2 B2 alt e
    obtain ⟨h2, l2⟩ := ae
    simp only [Option.some.injEq, Prod.mk.injEq] at F2 B2 alt e
    obtain ⟨rfl, rfl, rfl⟩ := e
    have hl : l < h.next := hb.lt l (by rw [cnt_dir]; simp)
    have n1 := F1.next_le
    have n2 := F2.next_le
    constructor
    · simp only [HKids.set_deref]
      rw [deref_bytes_eq h1 h2 cp B2, D1, hP.2,
        derefK_old (h' := h2) hb (fun id hid => by rw [B2]; exact (F1.same id hid (fun f => f)).1)]
    · refine tr_add hb hfs ((F1.weaken (fun _ _ x => x.elim)).trans F2 (fun _ _ x => x)) ?_ A1 (fun id c => ?_)
      · rcases alt with a | a
        · exact Or.inl a.1
        · exact Or.inr (by omegab)
      · have := B1 id c
        rcases alt with a | a <;> omegab

end MemFSHeap
end Goat
